From Coq Require Import List Ascii String Bool Arith.
Import ListNotations.
Open Scope char_scope.

Definition bytes := list ascii.
Fixpoint b (s : string) : bytes := match s with EmptyString => [] | String c r => c :: b r end.

Inductive token := TStatic (c : ascii) | TParam (n : bytes) | TCatch (n : bytes).

(* tokenise an (accepted) pattern *)
Fixpoint take_name (s : bytes) : bytes * bytes :=
  match s with
  | [] => ([], [])
  | c :: r => if Ascii.eqb c "}" then ([], r) else let '(n, r') := take_name r in (c :: n, r')
  end.
Fixpoint tokenize_fuel (f : nat) (s : bytes) : list token :=
  match f with O => [] | S f =>
  match s with
  | [] => []
  | "{" :: r => let '(n, r') := take_name r in TParam n :: tokenize_fuel f r'
  | "*" :: "{" :: r => let '(n, r') := take_name r in TCatch n :: tokenize_fuel f r'
  | c :: r => TStatic c :: tokenize_fuel f r
  end end.
Definition tokenize s := tokenize_fuel (S (List.length s)) s.

Record cand := { pat : bytes; toks : list token }.
Definition binds := list (bytes * bytes).

(* segment = longest prefix without the delimiter(s) *)
Fixpoint seg (stop : ascii -> bool) (s : bytes) : bytes * bytes :=
  match s with
  | [] => ([], [])
  | c :: r => if stop c then ([], s) else let '(v, r') := seg stop r in (c :: v, r')
  end.

Definition adv_static (c : ascii) (cs : list cand) : list cand :=
  flat_map (fun k => match toks k with TStatic d :: t => if Ascii.eqb c d then [{| pat := pat k; toks := t |}] else [] | _ => [] end) cs.
Definition adv_param (cs : list cand) : option bytes * list cand :=
  fold_right (fun k '(n, acc) => match toks k with TParam m :: t => (Some m, {| pat := pat k; toks := t |} :: acc) | _ => (n, acc) end) (None, []) cs.
Definition adv_catch (cs : list cand) : option bytes * list cand :=
  fold_right (fun k '(n, acc) => match toks k with TCatch m :: t => (Some m, {| pat := pat k; toks := t |} :: acc) | _ => (n, acc) end) (None, []) cs.
Definition leaf (cs : list cand) : option bytes :=
  match filter (fun k => match toks k with [] => true | _ => false end) cs with k :: _ => Some (pat k) | [] => None end.

Definition orelse {A} (x : option A) (y : unit -> option A) := match x with Some _ => x | None => y tt end.

(* host_rem : how many bytes of s still belong to the host *)
Fixpoint select (fuel : nat) (cs : list cand) (s : bytes) (host_rem : nat) (bs : binds) {struct fuel}
  : option (bytes * binds) :=
  match fuel with O => None | S fuel =>
  match s with
  | [] => match leaf cs with Some p => Some (p, rev bs) | None => None end
  | c :: r =>
    let in_host := negb (Nat.eqb host_rem 0) in
    orelse (if Ascii.eqb c "{" || Ascii.eqb c "*" then None
            else match adv_static c cs with [] => None | S' => select fuel S' r (pred host_rem) bs end)
    (fun _ =>
    orelse (match adv_param cs with
            | (Some n, P) =>
                let '(v, rest) := if in_host then seg (fun x => Ascii.eqb x "." ) (firstn host_rem s)
                                  else seg (fun x => Ascii.eqb x "/") s in
                let rest := skipn (List.length v) s in
                match v with [] => None | _ => select fuel P rest (host_rem - List.length v) ((n, v) :: bs) end
            | _ => None end)
    (fun _ =>
       if in_host then None else
       match adv_catch cs with
       | (Some n, C) =>
           (* try every split point, shortest value first *)
           (fix try (k : nat) (i : nat) {struct k} : option (bytes * binds) :=
              match k with O => None | S k =>
              let v := firstn i s in let rest := skipn i s in
              let ok := match rest with
                        | [] => true
                        | "/" :: _ => negb (Ascii.eqb (last v "/") "/") && negb (Ascii.eqb c "/")
                        | _ => false end in
              orelse (if ok then select fuel C rest 0 ((n, v) :: bs) else None)
                     (fun _ => try k (S i))
              end) (List.length s) 1
       | _ => None end))
  end end.

Definition mk (ps : list string) : list cand := map (fun p => {| pat := b p; toks := tokenize (b p) |}) ps.
Definition sel (ps : list string) (host path : string) :=
  let hs := filter (fun k => match pat k with "/" :: _ => false | _ => true end) (mk ps) in
  let pths := filter (fun k => match pat k with "/" :: _ => true | _ => false end) (mk ps) in
  let f := 4 * (String.length host + String.length path) + 8 in
  orelse (match b host with [] => None | h => select f hs (h ++ b path) (List.length h) [] end)
         (fun _ => select f pths (b path) 0 []).

Open Scope string_scope.
(* README examples *)
Example e1 : option_map fst (sel ["/avengers/{name}"] "" "/avengers/ironman") = Some (b "/avengers/{name}"). Proof. vm_compute. reflexivity. Qed.
Example e2 : sel ["/avengers/{name}"] "" "/avengers/hulk/angry" = None. Proof. reflexivity. Qed.
Example e3 : sel ["/avengers/{name}"] "" "/avengers/" = None. Proof. reflexivity. Qed.
Example e4 : sel ["/users/uuid:{id}/config"] "" "/users/uuid:/config" = None. Proof. reflexivity. Qed.
Example e5 : sel ["/src/file=*{path}"] "" "/src/file=/dir/config.txt" = Some (b "/src/file=*{path}", [(b "path", b "/dir/config.txt")]). Proof. reflexivity. Qed.
Example e6 : sel ["/src/*{filepath}"] "" "/src/" = None. Proof. reflexivity. Qed.
Example e7 : sel ["/assets/*{path}/thumbnail"] "" "/assets/photos/2021/thumbnail" = Some (b "/assets/*{path}/thumbnail", [(b "path", b "photos/2021")]). Proof. reflexivity. Qed.
Example e8 : sel ["/assets/*{path}/thumbnail"] "" "/assets/thumbnail" = None. Proof. reflexivity. Qed.
Example e9 : option_map fst (sel ["/fs/avengers.txt"; "/fs/{filename}"; "/fs/*{filepath}"] "" "/fs/avengers/ironman.txt") = Some (b "/fs/*{filepath}"). Proof. reflexivity. Qed.
Example e10 : option_map fst (sel ["/fs/avengers.txt"; "/fs/{filename}"; "/fs/*{filepath}"] "" "/fs/ironman.txt") = Some (b "/fs/{filename}"). Proof. reflexivity. Qed.
Example e11 : sel ["example.com/"] "example.com.evil.org" "/" = None. Proof. reflexivity. Qed.
Example e12 : sel ["{sub}.example.com/"; "/x"] "a.example.com" "/" = Some (b "{sub}.example.com/", [(b "sub", b "a")]). Proof. reflexivity. Qed.
Example e13 : option_map fst (sel ["{sub}.example.com/"; "/x"] "a.example.com" "/x") = Some (b "/x"). Proof. reflexivity. Qed.
Example e14 : sel ["/{x}/{x}/*{w}"; "/{x}/{x}/{y}/ab{x}"] "" "/bb/a/ba" = Some (b "/{x}/{x}/*{w}", [(b "x", b "bb"); (b "x", b "a"); (b "w", b "ba")]). Proof. reflexivity. Qed.
