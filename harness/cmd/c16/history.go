// HISTORY scenarios (round 7, after seeded change C16-N).
//
// The pool of contexts belongs to one tree; every write publishes a new tree with a new, empty pool.
// A context can be "in flight" across a write: obtained before it (Router.Lookup, Txn.Lookup,
// Context.CloneWith, the context an Iter created before the write borrows) and closed after it. What
// Close does with such a context decides what ServeHTTP starts from afterwards. A history is
//
//	routes0 -> [pre-warm] -> obtain -> write (published or not) -> close      (or: obtain -> close -> write)
//
// followed by the ordinary measurement of a matching request on the router the history leaves behind:
// first serve (capacity growth against what allocateContext of the PUBLISHED tree gives), warm-up,
// allocation count; once on a plain router and once on a router whose global middleware hands the
// handler a CloneWith copy (documented allocation free). On every handler call the harness also asks
// the hook fox.VerifCtxOwner whether the context belongs to the published tree and how large it is.
// Expected values: 0 allocations (property), growth as the model predicts from the dumped tree,
// owned and at least allocateContext-sized (AllocHist.x_handed_ok) — nothing is read back.
package main

import (
	"fmt"
	"net/http"
	"strings"

	"foxverif/hx"
	"foxverif/rt"

	"github.com/tigerwill90/fox"
)

// ---------- what the handler is handed ----------

var (
	cur       *fox.Router // the router whose handler calls are being observed
	obsCalls  int
	obsOwned  bool
	obsCaps   [3]int
	inHandler func(c fox.Context) // one-shot action run inside the next handler call (history step)
)

func resetObs(f *fox.Router) {
	cur, obsCalls, obsOwned = f, 0, true
	obsCaps = [3]int{1 << 30, 1 << 30, 1 << 30}
}

func observe(c fox.Context) {
	if cur == nil {
		return
	}
	owned, p, t, s, ok := cur.VerifCtxOwner(c)
	if !ok {
		return
	}
	obsCalls++
	if !owned {
		obsOwned = false
	}
	obsCaps[0], obsCaps[1], obsCaps[2] = min(obsCaps[0], p), min(obsCaps[1], t), min(obsCaps[2], s)
}

func handedTerm() string {
	if obsCalls == 0 {
		return "None"
	}
	return fmt.Sprintf("(Some (%s, {| h_ps := %d; h_tps := %d; h_sks := %d |}))", hx.Bool(obsOwned),
		min(obsCaps[0], 150), min(obsCaps[1], 150), min(obsCaps[2], 150))
}

func handedHuman() string {
	if obsCalls == 0 {
		return "no handler call observed"
	}
	return fmt.Sprintf("context handed to the handler (%d calls) owned by the published tree=%v, smallest capacities (params,tsrParams,skipNds)=(%d,%d,%d)",
		obsCalls, obsOwned, obsCaps[0], obsCaps[1], obsCaps[2])
}

// cloneMW is the typical "wrap the writer" middleware: it hands the next handler a CloneWith copy.
func cloneMW(next fox.HandlerFunc) fox.HandlerFunc {
	return func(c fox.Context) {
		observe(c)
		cc := c.CloneWith(c.Writer(), c.Request())
		next(cc)
		cc.Close()
	}
}

func buildWith(entries []entry, ignoreTS, mw bool) *fox.Router {
	var opts []fox.GlobalOption
	if ignoreTS {
		opts = append(opts, fox.WithIgnoreTrailingSlash(true))
	}
	if mw {
		opts = append(opts, fox.WithMiddleware(cloneMW))
	}
	f, err := fox.New(opts...)
	hx.Fatal(err)
	for _, e := range entries {
		f.Handle(e.method, e.pat, handler)
	}
	return f
}

// ---------- histories ----------

type wop struct {
	kind string // Handle | Update | Delete
	e    entry
}

type history struct {
	routes0    []entry
	prewarm    bool
	obtain     string // see obtainKinds
	obReq      [3]string
	obPat      string
	ops        []wop
	viaTxn     bool
	abort      bool // the transaction is aborted: nothing is published
	rejected   bool // the only write is the registration of a route that exists: rejected, nothing is published
	closeAfter bool // close after the write (the history proper) / before it (control)
}

var obtainKinds = []string{"Lookup", "Lookup x3", "Lookup+CloneWith", "Txn(false).Lookup", "Txn(true).Lookup", "CloneWith-in-handler", "Iter.Routes", "Iter.Reverse"}

func (h *history) writeName() string {
	var parts []string
	for _, o := range h.ops {
		parts = append(parts, o.kind+"("+o.e.method+" "+o.e.pat+")")
	}
	s := strings.Join(parts, "; ")
	switch {
	case h.viaTxn && h.abort:
		return "Txn{" + s + "}.Abort (nothing published)"
	case h.viaTxn:
		return "Txn{" + s + "}.Commit"
	case h.rejected:
		return s + " (exists: rejected, nothing published)"
	}
	return s
}

func (h *history) String() string {
	order := "obtain -> write -> close"
	if !h.closeAfter {
		order = "obtain -> close -> write (control)"
	}
	return fmt.Sprintf("HISTORY routes0=%v prewarm=%v obtain=%s(%s Host=%q %q) write=%s order=[%s]",
		fmtEntries(h.routes0), h.prewarm, h.obtain, h.obReq[0], h.obReq[1], h.obReq[2], h.writeName(), order)
}

// replay builds a router from routes0 and runs the history on it. It returns the router and what happened.
func (h *history) replay(w http.ResponseWriter, ignoreTS, mw bool) (f *fox.Router, note string, panicked bool) {
	f = buildWith(h.routes0, ignoreTS, mw)
	defer func() {
		if r := recover(); r != nil {
			panicked = true
			note += fmt.Sprintf(" PANIC during the history: %v", r)
		}
		inHandler = nil
	}()
	cur = nil
	req0 := newRequest(h.obReq[0], h.obReq[1], h.obReq[2])
	_, tc := fox.NewTestContext(w, req0)
	lw := tc.Writer()
	if h.prewarm {
		for i := 0; i < 3; i++ {
			f.ServeHTTP(w, req0)
		}
	}
	one := func(yield func(string) bool) { yield(h.obReq[0]) }

	var closers []func()
	obtained := 0
	var wtxn *fox.Txn
	obtainVia := func(lookup func(fox.ResponseWriter, *http.Request) (*fox.Route, fox.ContextCloser, bool), n int, clone bool) {
		for i := 0; i < n; i++ {
			if r, cc, _ := lookup(lw, req0); r != nil && cc != nil {
				obtained++
				if clone {
					c2 := cc.CloneWith(cc.Writer(), cc.Request())
					obtained++
					closers = append(closers, c2.Close)
				}
				closers = append(closers, cc.Close)
			}
		}
	}
	closeAll := func() {
		for _, c := range closers {
			c()
		}
		closers = nil
	}
	nerr := 0
	write := func() {
		apply := func(hd func(string, string, fox.HandlerFunc, ...fox.RouteOption) (*fox.Route, error),
			up func(string, string, fox.HandlerFunc, ...fox.RouteOption) (*fox.Route, error), del func(string, string) (*fox.Route, error)) {
			for _, o := range h.ops {
				var err error
				switch o.kind {
				case "Handle":
					_, err = hd(o.e.method, o.e.pat, handler)
				case "Update":
					_, err = up(o.e.method, o.e.pat, handler)
				case "Delete":
					_, err = del(o.e.method, o.e.pat)
				}
				if err != nil {
					nerr++
				}
			}
		}
		if !h.viaTxn {
			apply(f.Handle, f.Update, f.Delete)
			return
		}
		txn := wtxn
		if txn == nil {
			txn = f.Txn(true)
		}
		wtxn = nil
		defer txn.Abort()
		apply(txn.Handle, txn.Update, txn.Delete)
		if !h.abort {
			txn.Commit()
		}
	}

	switch h.obtain {
	case "Lookup":
		obtainVia(f.Lookup, 1, false)
	case "Lookup x3":
		obtainVia(f.Lookup, 3, false)
	case "Lookup+CloneWith":
		obtainVia(f.Lookup, 1, true)
	case "Txn(false).Lookup":
		rtx := f.Txn(false)
		obtainVia(rtx.Lookup, 1, false)
		closers = append(closers, rtx.Abort)
	case "Txn(true).Lookup": // inside the write transaction itself (a plain write: in a read transaction next to it)
		if h.viaTxn {
			wtxn = f.Txn(true)
			obtainVia(wtxn.Lookup, 1, false)
		} else {
			rtx := f.Txn(false)
			obtainVia(rtx.Lookup, 2, false)
			closers = append(closers, rtx.Abort)
		}
	case "CloneWith-in-handler": // the whole history runs inside a handler call
		inHandler = func(c fox.Context) {
			cc := c.CloneWith(c.Writer(), c.Request())
			obtained++
			if h.closeAfter {
				write()
				cc.Close()
			} else {
				cc.Close()
				write()
			}
		}
		f.ServeHTTP(w, req0)
		if inHandler != nil { // the request was not served by a route handler: the write still has to happen
			inHandler = nil
			write()
		}
		return f, fmt.Sprintf("obtained %d context(s), %d write error(s)", obtained, nerr), false
	case "Iter.Routes", "Iter.Reverse":
		it := f.Iter()
		obtained++
		routes := h.obtain == "Iter.Routes"
		closers = append(closers, func() { // the iterator borrows a context when it runs and closes it when it ends
			if routes {
				for range it.Routes(one, h.obPat) {
					sink++
				}
			} else {
				for range it.Reverse(one, h.obReq[1], h.obReq[2]) {
					sink++
				}
			}
		})
	}
	if h.closeAfter {
		write()
		closeAll()
	} else {
		closeAll()
		write()
	}
	if wtxn != nil {
		wtxn.Abort()
	}
	return f, fmt.Sprintf("obtained %d context(s), %d write error(s)", obtained, nerr), false
}

// ---------- history generators ----------

func wildcards(pat string) int { return strings.Count(pat, "{") }

func without(es []entry, drop ...entry) []entry {
	var out []entry
next:
	for _, e := range es {
		for _, d := range drop {
			if e == d {
				continue next
			}
		}
		out = append(out, e)
	}
	return out
}

// extraRoute finds a route that the router holding `ok` accepts besides them (for Delete histories).
func extraRoute(r *hx.Rand, ok []entry, ignoreTS bool) (entry, bool) {
	for try := 0; try < 8; try++ {
		var cand entry
		switch r.Intn(3) {
		case 0:
			cand = entry{ok[0].method, rt.Pattern(r, 25)}
		case 1:
			cand = genWide(r).entries[0]
		default:
			cand = entry{ok[0].method, fmt.Sprintf("/zz%d/{p}/{q}/*{r}", try)}
		}
		f := buildWith(ok, ignoreTS, false)
		before := f.Len()
		if _, err := f.Handle(cand.method, cand.pat, handler); err == nil && f.Len() == before+1 {
			return cand, true
		}
	}
	return entry{}, false
}

// genHistory draws one history whose final route set is `ok` (the set the Coq tree term was dumped from,
// up to maxParams / depth, which a Delete does not lower).
func genHistory(r *hx.Rand, ok []entry, ignoreTS bool) *history {
	h := &history{prewarm: r.Bool(), closeAfter: !r.Pct(12), obtain: hx.Pick(r, obtainKinds)}
	richest := ok[0]
	for _, e := range ok {
		if wildcards(e.pat) > wildcards(richest.pat) {
			richest = e
		}
	}
	held := hx.Pick(r, ok)
	if r.Pct(50) {
		held = richest
	}
	kind := r.Intn(10)
	if len(ok) < 2 && kind < 6 {
		kind = 6 + r.Intn(4)
	}
	switch {
	case kind < 4: // a registration: the published tree changes, usually with a larger maxParams
		h.routes0 = without(ok, held)
		h.ops = []wop{{"Handle", held}}
		h.viaTxn = r.Pct(30)
	case kind < 6: // a committed transaction with several writes
		other := hx.Pick(r, ok)
		h.routes0 = without(ok, held, other)
		h.ops = []wop{{"Handle", held}}
		if other != held {
			h.ops = append(h.ops, wop{"Handle", other})
		}
		if len(h.routes0) > 0 {
			h.ops = append(h.ops, wop{"Update", h.routes0[0]})
		}
		h.viaTxn = true
	case kind < 8: // Update: same route set, new tree
		h.routes0 = ok
		h.ops = []wop{{"Update", hx.Pick(r, ok)}}
		h.viaTxn = r.Pct(30)
	case kind < 9: // Delete of an additional route
		if x, found := extraRoute(r, ok, ignoreTS); found {
			h.routes0 = append(append([]entry{}, ok...), x)
			h.ops = []wop{{"Delete", x}}
			h.viaTxn = r.Pct(30)
			break
		}
		fallthrough
	default: // nothing is published: aborted transaction / rejected registration (control)
		h.routes0 = ok
		if r.Bool() {
			h.ops = []wop{{"Update", hx.Pick(r, ok)}}
			h.viaTxn, h.abort = true, true
		} else {
			h.ops = []wop{{"Handle", hx.Pick(r, ok)}} // already registered: ErrRouteExist
			h.rejected = true
		}
	}
	h.pickObtain(r)
	return h
}

// pickObtain chooses the request the in-flight context is obtained with: it matches a route of routes0.
func (h *history) pickObtain(r *hx.Rand) {
	if len(h.routes0) == 0 {
		h.obReq, h.obPat = [3]string{"GET", "", "/"}, "/"
		return
	}
	e := hx.Pick(r, h.routes0)
	host, path := rt.SplitPattern(rt.Instantiate(r, e.pat, false))
	if path == "" {
		path = "/"
	}
	h.obReq, h.obPat = [3]string{e.method, host, path}, e.pat
}

// directedHistories: every way to obtain a context x every kind of write x both orders, on the route sets of
// AllocHist2.foreign_context_can_grow (one parameter before, three after) and of a shrinking / hostname variant.
func directedHistories() (sets []*routeSet, hs [][]*history) {
	type dir struct {
		final []entry
		req0  [3]string
		pat0  string
		fixed [][3]string
		wr    []func() *history
	}
	a, b := entry{"GET", "/a/{x}"}, entry{"GET", "/b/{x}/{y}/{z}"}
	c, d := entry{"GET", "h.{d}/*{w}/e"}, entry{"GET", "/s/{k}/"}
	dirs := []dir{
		{final: []entry{a, b}, req0: [3]string{"GET", "", "/a/1"}, pat0: a.pat,
			fixed: [][3]string{{"GET", "", "/a/1"}, {"GET", "", "/b/1/2/3"}},
			wr: []func() *history{
				func() *history { return &history{routes0: []entry{a}, ops: []wop{{"Handle", b}}} },
				func() *history { return &history{routes0: []entry{a}, ops: []wop{{"Handle", b}}, viaTxn: true} },
				func() *history { return &history{routes0: []entry{a, b}, ops: []wop{{"Update", a}}} },
				func() *history { return &history{routes0: []entry{a, b}, ops: []wop{{"Update", b}}, viaTxn: true, abort: true} },
				func() *history { return &history{routes0: []entry{a, b}, ops: []wop{{"Handle", a}}, rejected: true} },
			}},
		{final: []entry{a, c, d}, req0: [3]string{"GET", "h.q", "/r/s/e"}, pat0: c.pat,
			fixed: [][3]string{{"GET", "", "/a/1"}, {"GET", "h.q:80", "/r/s/e"}, {"GET", "", "/s/1"}},
			wr: []func() *history{
				func() *history { return &history{routes0: []entry{a, c, d, b}, ops: []wop{{"Delete", b}}} },
				func() *history {
					return &history{routes0: []entry{c, b}, ops: []wop{{"Handle", a}, {"Delete", b}, {"Handle", d}}, viaTxn: true}
				},
				func() *history { return &history{routes0: []entry{c}, ops: []wop{{"Handle", d}, {"Handle", a}}} },
			}},
	}
	for _, dr := range dirs {
		rs := &routeSet{kind: "history-witness", methods: []string{"GET"}, entries: dr.final, ignoreTS: true, fixed: dr.fixed}
		var l []*history
		for _, mk := range dr.wr {
			for _, ob := range obtainKinds {
				for _, after := range []bool{true, false} {
					h := mk()
					h.obtain, h.closeAfter, h.obReq, h.obPat, h.prewarm = ob, after, dr.req0, dr.pat0, len(l)%2 == 0
					l = append(l, h)
				}
			}
		}
		sets = append(sets, rs)
		hs = append(hs, l)
	}
	return
}

// ---------- one history case ----------

type env struct {
	cs         *hx.Cases
	st         *hx.Stats
	w          *nopWriter
	seen       map[string]bool
	nontrivial int
	worst      uint64
	nhist      int
}

// warmCount: warm-up, then the allocation count and whether a pooled capacity changed while counting.
func warmCount(f *fox.Router, w http.ResponseWriter, req *http.Request) (matched bool, allocs uint64, grew bool) {
	hits, lastPat = 0, ""
	panicked := false
	for i := 0; i < warmup && !panicked; i++ {
		panicked = serve(f, w, req)
	}
	matched = hits == warmup && !panicked
	if !matched {
		return
	}
	bp, bt, bs := f.VerifCtxCaps(12)
	for i := 0; i < warmup; i++ { // VerifCtxCaps may have put fresh contexts on top of the pool
		serve(f, w, req)
	}
	allocs = measure(f, w, req)
	ap, at, as := f.VerifCtxCaps(12)
	grew = ap > bp || at > bt || as > bs
	return
}

// historyCase replays h on a plain router and on one with the CloneWith middleware and measures the request q
// on what the history leaves behind. def/tree/dumpStr: the Coq tree of the route set the history ends in.
func (e *env) historyCase(rs *routeSet, def, tree, dumpStr, hid string, h *history, q [3]string) {
	key := hid + "|" + h.String() + "|" + q[0] + "|" + q[1] + "|" + q[2]
	if e.seen[key] {
		return
	}
	e.seen[key] = true
	method, host, path := q[0], q[1], q[2]
	req := newRequest(method, host, path)

	// plain router: first serve after the history (cold), then steady state
	f, note, hpanic := h.replay(e.w, rs.ignoreTS, false)
	fd := f.VerifDump()
	if fd.String() != dumpStr { // e.g. after a Delete: maxParams / depth are not lowered
		def, tree = hid, rt.RootsTerm(fd, nil)
		e.st.Count("history:own-tree-term")
	}
	resetObs(f)
	first := f
	if h.abort || h.rejected {
		// nothing was published: the history's own lookups were earlier requests on the tree being measured, so its
		// pooled contexts are not cold any more; the cold observation is taken on a fresh router of the same routes
		first = buildWith(h.routes0, rs.ignoreTS, false)
		cur = first
	}
	serve(first, e.w, req)
	cp, ct, cks := first.VerifCtxCaps(12)
	cur = f
	gp, gt, gs := cp > int(fd.MaxParams), ct > int(fd.MaxParams), cks > int(fd.Depth)
	lo := rt.Lookup(f, method, host, path)
	matched, allocs, warmGrow := warmCount(f, e.w, req)
	pat := ""
	if matched {
		pat = lastPat
	}
	plainAllocs := allocs

	// the same history on a router whose middleware hands the handler a CloneWith copy
	fm, _, mpanic := h.replay(e.w, rs.ignoreTS, true)
	cur = fm // the observation goes on: owned = on both routers, capacities = the smallest seen
	mwMatched, mwAllocs, mwGrow := warmCount(fm, e.w, req)
	if mwMatched = mwMatched && fm.VerifDump().String() == fd.String(); mwMatched {
		allocs = max(allocs, mwAllocs)
		warmGrow = warmGrow || mwGrow
	}
	cur = nil

	term := fmt.Sprintf("{| x_base := {| a_roots := %s; a_maxparams := %s; a_depth := %s; a_method := %s; a_rawhost := %s; a_host := %s; a_path := %s; "+
		"a_match := %s; a_tsr := %s; a_pattern := %s; a_cold := (%s, %s, %s); a_warm := %s; a_allocs := %s |}; x_handed := %s |}",
		def, hx.Nat(int(fd.MaxParams)), hx.Nat(int(fd.Depth)), hx.Bytes(method), hx.Bytes(host), hx.Bytes(fox.VerifStripHostPort(host)), hx.Bytes(path),
		hx.Bool(matched), hx.Bool(matched && lo.Tsr), hx.Bytes(pat), hx.Bool(gp), hx.Bool(gt), hx.Bool(gs), hx.Bool(warmGrow), hx.N(allocs), handedTerm())
	mwA := "not served there"
	if mwMatched {
		mwA = fmt.Sprint(mwAllocs)
	}
	human := fmt.Sprintf("%s THEN request: %s Host=%q path=%q => matched=%v pattern=%q tsr=%v; allocs/op (after %d warm-up calls): plain router=%d, router with a CloneWith middleware=%s; "+
		"%s, allocateContext of the published tree gives (%d,%d,%d); first-serve growth(params,tsrParams,skipNds)=(%v,%v,%v) warm-growth=%v; "+
		"history: %s, panicked=%v; final routes=%v ignoreTrailingSlash=%v",
		h, method, host, path, matched, pat, lo.Tsr, warmup, plainAllocs, mwA,
		handedHuman(), fd.MaxParams, fd.MaxParams, fd.Depth, gp, gt, gs, warmGrow,
		note, hpanic || mpanic, fmtEntries(rs.entries), rs.ignoreTS)
	e.cs.AddWithDef(def, tree, term, human)
	e.nhist++
	st := e.st
	st.Count("set:" + rs.kind)
	st.Count("request:history")
	st.Count("history:obtain:" + h.obtain)
	for _, o := range h.ops {
		st.Count("history:write:" + o.kind)
	}
	switch {
	case !h.closeAfter:
		st.Count("history:order:close-before-write(control)")
	case h.abort || h.rejected:
		st.Count("history:order:write-not-published(control)")
	default:
		st.Count("history:order:close-after-write")
	}
	if matched {
		e.nontrivial++
		st.Count("matched:" + classify(pat, lo.Tsr, host))
		st.Count("history:matched")
		if mwMatched {
			st.Count("history:matched-through-CloneWith-middleware")
		}
		if allocs > e.worst {
			e.worst = allocs
		}
		if allocs > 0 {
			st.Count("allocating-matched:history")
		}
	} else {
		st.Count("matched:no")
	}
	if !obsOwned {
		st.Count("history:context-not-owned-by-published-tree")
	}
}

// historyRequests: a request for (one of) the route(s) the write touched and one for another route of the final set.
func historyRequests(r *hx.Rand, h *history, final []entry) [][3]string {
	var qs [][3]string
	add := func(en entry) {
		host, path := rt.SplitPattern(rt.Instantiate(r, en.pat, false))
		if path == "" {
			path = "/"
		}
		if r.Pct(15) && host != "" {
			host += ":8080"
		}
		qs = append(qs, [3]string{en.method, host, path})
	}
	for _, o := range h.ops {
		if o.kind != "Delete" {
			add(o.e)
			break
		}
	}
	add(hx.Pick(r, final))
	return qs
}
