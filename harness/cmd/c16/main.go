// c16: "routing a matching request allocates nothing" — the implementation side.
//
// For every generated (route set, request):
//
//	cold   a router is built from scratch, the request is served ONCE, and the capacities of the
//	       pooled contexts are read back (fox.VerifCtxCaps): a capacity above what allocateContext
//	       gives (maxParams, maxParams, depth) is a growth event of that buffer. The Coq model
//	       (coq/Route/Alloc.v) predicts exactly which buffers grow (high-water marks vs capacities).
//	warm   on a second router of the same set that also serves the other requests of the set, the
//	       request is served `warmup` times, then heap allocations (runtime.MemStats.Mallocs, GC
//	       off, GOMAXPROCS 1) are counted over `runs` calls of ServeHTTP with an allocation-free
//	       handler, a reusable allocation-free ResponseWriter and a pre-built *http.Request;
//	       the minimum over up to 3 repetitions is kept. The property (and the model: a warm
//	       context has no growth event) predicts 0 for every request served by a route handler.
package main

import (
	"fmt"
	"net/http"
	"net/url"
	"os"
	"runtime"
	"runtime/debug"
	"strings"

	"foxverif/hx"
	"foxverif/rt"

	"github.com/tigerwill90/fox"
)

const (
	warmup = 8
	runs   = 10
)

var (
	hits    int
	lastPat string
	m0, m1  runtime.MemStats
)

func handler(c fox.Context) {
	hits++
	lastPat = c.Pattern()
	observe(c)
	if inHandler != nil {
		f := inHandler
		inHandler = nil
		f(c)
	}
}

type nopWriter struct{ h http.Header }

func (w *nopWriter) Header() http.Header         { return w.h }
func (w *nopWriter) Write(b []byte) (int, error) { return len(b), nil }
func (w *nopWriter) WriteHeader(int)             {}

type entry struct{ method, pat string }

type routeSet struct {
	fixed    [][3]string // fixed requests (method, host, path) served besides the generated ones
	kind     string
	entries  []entry
	ignoreTS bool
	methods  []string
}

func build(rs *routeSet) (*fox.Router, []entry) {
	var opts []fox.GlobalOption
	if rs.ignoreTS {
		opts = append(opts, fox.WithIgnoreTrailingSlash(true))
	}
	f, err := fox.New(opts...)
	hx.Fatal(err)
	var ok []entry
	for _, e := range rs.entries {
		if _, err := f.Handle(e.method, e.pat, handler); err == nil {
			ok = append(ok, e)
		}
	}
	return f, ok
}

// serve calls ServeHTTP, shielding the harness from a panicking router.
func serve(f *fox.Router, w http.ResponseWriter, r *http.Request) (panicked bool) {
	defer func() {
		if recover() != nil {
			panicked = true
		}
	}()
	f.ServeHTTP(w, r)
	return
}

// measure returns the number of heap allocations per ServeHTTP call (rounded up), minimum over 3 tries.
func measure(f *fox.Router, w http.ResponseWriter, r *http.Request) uint64 {
	best := ^uint64(0)
	for try := 0; try < 3; try++ {
		runtime.ReadMemStats(&m0)
		for i := 0; i < runs; i++ {
			f.ServeHTTP(w, r)
		}
		runtime.ReadMemStats(&m1)
		if d := m1.Mallocs - m0.Mallocs; d < best {
			best = d
		}
		if best == 0 {
			break
		}
	}
	return (best + runs - 1) / runs
}

// ---------- interleaved workloads ----------

// A helper is one call of a read-only API of the router. They borrow contexts from the same per-tree
// pool as ServeHTTP (or only read the tree), so what they leave in a pooled context is what the next
// served request starts from.
type helper struct {
	name string
	call func()
}

var sink int

func helpersFor(f *fox.Router, w http.ResponseWriter, method, host, path, pattern string, req *http.Request) []helper {
	_, tc := fox.NewTestContext(w, req)
	lw := tc.Writer()
	one := func(yield func(string) bool) { yield(method) }
	return []helper{
		{"Has", func() {
			if f.Has(method, pattern) {
				sink++
			}
		}},
		{"Route", func() {
			if f.Route(method, pattern) != nil {
				sink++
			}
		}},
		{"Reverse", func() {
			if r, _ := f.Reverse(method, host, path); r != nil {
				sink++
			}
		}},
		{"Lookup+Close", func() {
			r, cc, _ := f.Lookup(lw, req)
			if r != nil {
				sink++
			}
			if cc != nil {
				cc.Close()
			}
		}},
		{"Len", func() { sink += f.Len() }},
		{"Iter.Routes", func() {
			for range f.Iter().Routes(one, pattern) {
				sink++
			}
		}},
		{"Iter.Reverse", func() {
			for range f.Iter().Reverse(one, host, path) {
				sink++
			}
		}},
		{"Iter.All(first)", func() {
			for range f.Iter().All() {
				sink++
				break
			}
		}},
		{"Txn.Has", func() {
			txn := f.Txn(false)
			if txn.Has(method, pattern) {
				sink++
			}
			txn.Abort()
		}},
		{"Txn.Route", func() {
			txn := f.Txn(false)
			if txn.Route(method, pattern) != nil {
				sink++
			}
			txn.Abort()
		}},
		{"Txn.Reverse", func() {
			txn := f.Txn(false)
			if r, _ := txn.Reverse(method, host, path); r != nil {
				sink++
			}
			txn.Abort()
		}},
	}
}

// mallocsOver counts heap allocations of `runs` calls of body, minimum over 3 tries.
func mallocsOver(body func()) uint64 {
	best := ^uint64(0)
	for try := 0; try < 3; try++ {
		runtime.ReadMemStats(&m0)
		for i := 0; i < runs; i++ {
			body()
		}
		runtime.ReadMemStats(&m1)
		if d := m1.Mallocs - m0.Mallocs; d < best {
			best = d
		}
	}
	return best
}

// interleaved measures the served request's share of the loop body [helper; ServeHTTP]: allocations of the
// pair minus the allocations of the helper called alone (both after warm-up), per call, rounded up.
// grew: a pooled buffer changed capacity during the measured pair loop (after the pair's own warm-up; the helper's
// lookup may legitimately need more room than the request's, e.g. Has looks up the pattern text itself).
func interleaved(f *fox.Router, w http.ResponseWriter, r *http.Request, h helper) (share, pair, alone uint64, grew bool) {
	for i := 0; i < warmup; i++ {
		h.call()
	}
	alone = mallocsOver(h.call)
	both := func() {
		h.call()
		f.ServeHTTP(w, r)
	}
	for i := 0; i < warmup; i++ {
		both()
	}
	bp, bt, bs := f.VerifCtxCaps(12)
	for i := 0; i < warmup; i++ { // VerifCtxCaps may have put fresh contexts on top of the pool
		both()
	}
	pair = mallocsOver(both)
	ap, at, as := f.VerifCtxCaps(12)
	grew = ap > bp || at > bt || as > bs
	if pair > alone {
		share = (pair - alone + runs - 1) / runs
	}
	return
}

// ---------- route-set generators ----------

var segs = []string{"a", "b", "c", "ab", "abc"}

func genRandom(r *hx.Rand, hostPct int) *routeSet {
	rs := &routeSet{kind: "random"}
	rs.methods = []string{"GET", "POST", "FOO"}[:r.Range(1, 3)]
	n := r.Range(1, 14)
	for i := 0; i < n; i++ {
		rs.entries = append(rs.entries, entry{hx.Pick(r, rs.methods), rt.Pattern(r, hostPct)})
	}
	return rs
}

// deep backtracking: a static spine with a param and a catch-all alternative at every level
func genLadder(r *hx.Rand) *routeSet {
	rs := &routeSet{kind: "ladder", methods: []string{"GET"}}
	d := r.Range(2, 6)
	host := ""
	if r.Pct(25) {
		host = hx.Pick(r, []string{"a.b", "{h}.b", "example.com", "{g}.{h}"})
	}
	prefix := ""
	for i := 0; i < d; i++ {
		s := hx.Pick(r, segs)
		if r.Pct(85) {
			p := prefix + "/{p" + fmt.Sprint(i) + "}"
			if r.Pct(50) {
				p += "/" + hx.Pick(r, segs)
			}
			rs.entries = append(rs.entries, entry{"GET", host + p})
		}
		if r.Pct(85) {
			p := prefix + "/*{w" + fmt.Sprint(i) + "}"
			if r.Pct(40) {
				p += "/" + hx.Pick(r, segs)
			}
			rs.entries = append(rs.entries, entry{"GET", host + p})
		}
		prefix += "/" + s
		if r.Pct(30) {
			rs.entries = append(rs.entries, entry{"GET", host + prefix})
		}
		if r.Pct(15) {
			rs.entries = append(rs.entries, entry{"GET", host + prefix + "/"})
		}
	}
	rs.entries = append(rs.entries, entry{"GET", host + prefix})
	if host != "" && r.Pct(60) {
		rs.entries = append(rs.entries, entry{"GET", prefix})
	}
	shuffle(r, rs.entries)
	return rs
}

// many parameters / infix catch-alls in one pattern
func genWide(r *hx.Rand) *routeSet {
	rs := &routeSet{kind: "wide", methods: []string{"GET"}}
	nr := r.Range(1, 5)
	for k := 0; k < nr; k++ {
		var sb strings.Builder
		if r.Pct(30) {
			nl := r.Range(1, 4)
			for i := 0; i < nl; i++ {
				if i > 0 {
					sb.WriteByte('.')
				}
				if r.Pct(60) {
					fmt.Fprintf(&sb, "{h%d}", i)
				} else {
					sb.WriteString(hx.Pick(r, []string{"a", "b", "com"}))
				}
			}
		}
		n := r.Range(2, 9)
		lastCatch := false
		for i := 0; i < n; i++ {
			sb.WriteByte('/')
			switch {
			case r.Pct(55):
				if r.Pct(25) {
					sb.WriteString(hx.Pick(r, segs))
				}
				fmt.Fprintf(&sb, "{p%d}", i)
				lastCatch = false
			case r.Pct(45) && !lastCatch:
				fmt.Fprintf(&sb, "*{w%d}", i)
				lastCatch = true
			default:
				sb.WriteString(hx.Pick(r, segs))
				lastCatch = false
			}
		}
		if r.Pct(20) {
			sb.WriteByte('/')
		}
		rs.entries = append(rs.entries, entry{"GET", sb.String()})
	}
	return rs
}

// fixed witnesses, run first on every invocation:
//   - the former finding C16_hostport_error_alloc (fixed by 84f3380): a Host that net.SplitHostPort rejects must cost 0 allocations;
//   - the ladder of Alloc2.skipped_bounded_by_depth_refuted: skipNds (cap depth = 3) needs 4 entries on the cold run;
//   - ignored trailing slash with parameters (tsrParams written by copyWithResize).
var fixedSets = []func() *routeSet{
	func() *routeSet {
		return &routeSet{kind: "witness", methods: []string{"GET"},
			entries: []entry{{"GET", "a.com/x"}, {"GET", "/y"}, {"GET", "{sub}.b.com/z"}},
			fixed: [][3]string{{"GET", "[::1]", "/y"}, {"GET", "::1", "/y"}, {"GET", "[fe80::1%eth0]", "/y"}, {"GET", "a:b:80", "/y"},
				{"GET", "[::1]:80", "/y"}, {"GET", "a.com:80", "/x"}, {"GET", "a.com", "/x"}, {"GET", "a.com.", "/x"}, {"GET", "foo.b.com:8080", "/z"}}}
	},
	func() *routeSet {
		return &routeSet{kind: "witness", methods: []string{"GET"},
			entries: []entry{{"GET", "/a/b/c"}, {"GET", "/a/b/{x}"}, {"GET", "/a/b/*{y}"}, {"GET", "/a/{p}"}, {"GET", "/a/*{q}"}},
			fixed:   [][3]string{{"GET", "", "/a/b/c"}, {"GET", "", "/a/b/zz"}, {"GET", "", "/a/b/zz/t"}, {"GET", "", "/a/zz/yy"}, {"GET", "", "/a/zz"}}}
	},
	func() *routeSet {
		return &routeSet{kind: "witness", methods: []string{"GET"}, ignoreTS: true,
			entries: []entry{{"GET", "/{a}/x/"}, {"GET", "/u/{b}/{c}"}, {"GET", "h.{d}/*{w}/e/"}, {"GET", "/s/*{v}/t/{k}/"}},
			fixed: [][3]string{{"GET", "", "/v/x"}, {"GET", "", "/u/1/2/"}, {"GET", "h.q", "/r/s/e"}, {"GET", "", "/s/1/2/t/3"}, {"GET", "", "/v/x/"},
				// served through the ignored-trailing-slash branch with a non-canonical / escaped path a wildcard swallows
				{"GET", "", "/./x"}, {"GET", "", "/../x"}, {"GET", "", "/u/./../"}, {"GET", "", "/s/a/./b/t/3"}, {"GET", "", "/s/a//b/t/.."},
				{"GET", "h.q", "/r/../s/e"}, {"GET", "", "/a%2Fb/x"}, {"GET", "", "/u/%2e/%2E/"}, {"GET", "h.q:80", "/a%2Fb/./e"}}}
	},
	// Hosts that are not hostnames (containing '/', empty, ':' only ...) x dot-segment paths, on a tree with hostname
	// routes: a Host containing '/' skips the hostname pass (node.go:96-104; Guard.host_guard in the model).
	// Thorough seed 1 once drew Host "example.x/a", path "/./": served by /*{w}/, not by example.{h}/*{v}.
	func() *routeSet { return oddHostSet(false) },
	func() *routeSet { return oddHostSet(true) },
}

func oddHostSet(ignoreTS bool) *routeSet {
	rs := &routeSet{kind: "witness", methods: []string{"GET"}, ignoreTS: ignoreTS,
		entries: []entry{{"GET", "{g}.b/b/*{v}/a"}, {"GET", "/*{w}/"}, {"GET", "example.{h}/*{v}"}, {"GET", "/"},
			{"GET", "/a/{y}/"}, {"GET", "/ab{y}"}, {"GET", "a{h}.a{h}.a/*{w}/ab/{y}/"}}}
	for _, h := range []string{"example.x/a", "/", "/x", "a/b", "example.x/", "x.b/b", "", ":", ":80", "example.x:", "example.x", "example.x/a:80", "[::1]/x"} {
		for _, p := range []string{"/./", "/../", "/.", "/a/./", "/", "/b/./a", "/ab.", "/a/../"} {
			rs.fixed = append(rs.fixed, [3]string{"GET", h, p})
		}
	}
	return rs
}

// mixSeed scrambles the seed before it reaches hx.NewRand: NewRand's state is seed*G with G also the
// splitmix increment, so the streams of two nearby seeds are the same sequence shifted by (s1-s2)
// draws and re-synchronise after a few variable-length choices. After scrambling the shift is huge.
func mixSeed(z uint64) uint64 {
	z += 0x9E3779B97F4A7C15
	z = (z ^ (z >> 30)) * 0xBF58476D1CE4E5B9
	z = (z ^ (z >> 27)) * 0x94D049BB133111EB
	return z ^ (z >> 31)
}

func shuffle[T any](r *hx.Rand, xs []T) {
	for i := len(xs) - 1; i > 0; i-- {
		j := r.Intn(i + 1)
		xs[i], xs[j] = xs[j], xs[i]
	}
}

func classify(pat string, tsr bool, host string) string {
	h, p := rt.SplitPattern(pat)
	switch {
	case tsr:
		return "ignored-tsr"
	case h != "":
		return "hostname"
	case strings.Contains(p, "*{"):
		return "catch-all"
	case strings.Contains(p, "{"):
		return "parametric"
	}
	return "static"
}

func main() {
	args := hx.Args()
	out, tier := args["out"], args["tier"]
	shards := hx.Atoi(args["shards"], 16)
	rnd := hx.NewRand(mixSeed(hx.Seed() ^ 0xC16))
	runtime.GOMAXPROCS(1)
	debug.SetGCPercent(-1)

	cs := &hx.Cases{
		Header: "From FoxBase Require Import Bytes.\nFrom FoxRoute Require Import Node Lookup Tree Alloc AllocHist.\n",
		Type:   "xcase",
		Footer: "Definition mism := Eval vm_compute in x_mismatches cases.\nPrint mism.\n" +
			"Definition viol := Eval vm_compute in x_violations cases.\nPrint viol.\n" +
			"Definition oof := Eval vm_compute in x_fuel_outs cases.\nPrint oof.\n" +
			"Definition coldgrowth := Eval vm_compute in x_cold_growth cases.\nPrint coldgrowth.\n" +
			"Definition notowned := Eval vm_compute in x_not_owned cases.\nPrint notowned.\n",
	}
	st := &hx.Stats{Rule: "route sets: random (rt.Pattern: static, {x}, mid-segment a{x}, suffix/infix *{w}, hostnames with label params, 1-3 methods), " +
		"ladder (static spine of depth 2-6 with a {p} and a *{w} alternative at every level: deep backtracking, skipped-node stack), " +
		"wide (2-9 segments with up to 9 params / infix catch-alls, hostname labels); half of the sets with WithIgnoreTrailingSlash. " +
		"Requests: instantiated patterns (so they match), with trailing slash toggled, 0-2 perturbations, Host with :port / trailing dot / unrelated / IPv6 literal. " +
		"Per case: cold run on a fresh router (capacity growth per buffer) and warm allocation count (min of 3 x 10 ServeHTTP calls after 8 warm-up calls). " +
		"non-trivial = served by a route handler (direct or ignored trailing slash); distinct = distinct (route set, method, host, path)"}
	st.Extra = map[string]any{}

	nsets, nreq := 260, 22
	if tier == "thorough" {
		nsets, nreq = 1600, 36
	}
	w := &nopWriter{h: http.Header{}}
	seen := map[string]bool{}
	nontrivial := 0
	worst := uint64(0)
	// directed histories (every way to obtain a context x every kind of write x both orders), then per route set
	hrnd := hx.NewRand(mixSeed(hx.Seed() ^ 0xC16A)) // own stream: the histories do not shift the other generators
	nhist := 2
	if tier == "thorough" {
		nhist = 4
	}
	ev := &env{cs: cs, st: st, w: w, seen: seen}
	dsets, dhs := directedHistories()
	for di, rs := range dsets {
		runtime.GC()
		fd, _ := build(rs)
		dump := fd.VerifDump()
		def := fmt.Sprintf("hw%d", di)
		for k, h := range dhs[di] {
			for _, q := range rs.fixed {
				ev.historyCase(rs, def, rt.RootsTerm(dump, nil), dump.String(), fmt.Sprintf("hw%dh%d", di, k), h, q)
			}
		}
	}
	nontrivial, worst = ev.nontrivial, ev.worst
	for si := 0; si < nsets; si++ {
		runtime.GC()
		var rs *routeSet
		switch k := rnd.Intn(10); {
		case si < len(fixedSets):
			rs = fixedSets[si]()
		case k < 4:
			rs = genRandom(rnd, []int{0, 25, 75}[rnd.Intn(3)])
		case k < 8:
			rs = genLadder(rnd)
		default:
			rs = genWide(rnd)
		}
		if rs.kind != "witness" {
			rs.ignoreTS = rnd.Bool()
		}
		fw, ok := build(rs)
		if len(ok) == 0 {
			continue
		}
		rs.entries = ok // only the accepted ones, so that the cold routers are identical
		dump := fw.VerifDump()
		def := fmt.Sprintf("t%d", si)
		tree := rt.RootsTerm(dump, nil)
		anyHost := false
		for _, e := range ok {
			if h, _ := rt.SplitPattern(e.pat); h != "" {
				anyHost = true
			}
		}
		runCase := func(method, host, path, kind, hostKind string) {
			key := def + "|" + method + "|" + host + "|" + path
			if seen[key] {
				return
			}
			seen[key] = true

			// cold: fresh router, one call
			fc, _ := build(rs)
			resetObs(fc)
			cd := fc.VerifDump()
			if cd.String() != dump.String() {
				fmt.Fprintln(os.Stderr, "c16: rebuilt router differs from the first build")
				os.Exit(2)
			}
			req := newRequest(method, host, path)
			serve(fc, w, req)
			cp, ct, cks := fc.VerifCtxCaps(12)
			gp, gt, gs := cp > int(cd.MaxParams), ct > int(cd.MaxParams), cks > int(cd.Depth)

			// warm: shared router
			lo := rt.Lookup(fw, method, host, path)
			hits, lastPat = 0, ""
			cur = fw
			panicked := false
			for i := 0; i < warmup && !panicked; i++ {
				panicked = serve(fw, w, req)
			}
			matched := hits == warmup && !panicked
			var allocs uint64
			inter := ""
			warmGrow := false
			if matched {
				bp, bt, bs := fw.VerifCtxCaps(12)
				for i := 0; i < warmup; i++ { // VerifCtxCaps may have put fresh contexts on top of the pool
					serve(fw, w, req)
				}
				allocs = measure(fw, w, req)
				ap, at, as := fw.VerifCtxCaps(12)
				warmGrow = ap > bp || at > bt || as > bs
				// interleaved workload: [one read-only API call; the request]; the request's share must stay 0
				hs := helpersFor(fw, w, method, host, path, lastPat, req)
				pick := hs[rnd.Intn(len(hs)):]
				if kind == "fixed" {
					pick = hs // the fixed witnesses go through every helper
				} else {
					pick = pick[:1]
				}
				for _, h := range pick {
					share, pair, alone, grew := interleaved(fw, w, req, h)
					warmGrow = warmGrow || grew
					st.Count("interleaved:" + h.name)
					if share > 0 {
						st.Count("interleaved-allocating:" + h.name)
						if inter == "" {
							inter = fmt.Sprintf(" interleaved[%s; request]x%d: pair=%d helper-alone=%d => request share %d/op", h.name, runs, pair, alone, share)
						}
					}
					if share > allocs {
						allocs = share
					}
				}
				if inter == "" {
					inter = fmt.Sprintf(" interleaved with %d read-only helper(s): request share 0", len(pick))
				}
			}
			pat := ""
			if matched {
				pat = lastPat
			}
			term := fmt.Sprintf("{| x_base := {| a_roots := %s; a_maxparams := %s; a_depth := %s; a_method := %s; a_rawhost := %s; a_host := %s; a_path := %s; "+
				"a_match := %s; a_tsr := %s; a_pattern := %s; a_cold := (%s, %s, %s); a_warm := %s; a_allocs := %s |}; x_handed := %s |}",
				def, hx.Nat(int(cd.MaxParams)), hx.Nat(int(cd.Depth)), hx.Bytes(method), hx.Bytes(host), hx.Bytes(fox.VerifStripHostPort(host)), hx.Bytes(path),
				hx.Bool(matched), hx.Bool(matched && lo.Tsr), hx.Bytes(pat), hx.Bool(gp), hx.Bool(gt), hx.Bool(gs), hx.Bool(warmGrow), hx.N(allocs), handedTerm())
			human := fmt.Sprintf("routes=%v ignoreTrailingSlash=%v request: %s Host=%q path=%q => matched=%v pattern=%q tsr=%v allocs/op=%d (after %d warm-up calls) cold-growth(params,tsrParams,skipNds)=(%v,%v,%v) caps=(%d,%d) warm-growth=%v%s; %s",
				fmtEntries(ok), rs.ignoreTS, method, host, path, matched, pat, lo.Tsr, allocs, warmup, gp, gt, gs, cd.MaxParams, cd.Depth, warmGrow, inter, handedHuman())
			cur = nil
			cs.AddWithDef(def, tree, term, human)
			st.Count("set:" + rs.kind)
			st.Count("request:" + kind)
			st.Count("host:" + hostKind)
			if matched {
				nontrivial++
				st.Count("matched:" + classify(pat, lo.Tsr, host))
				if fox.CleanPath(path) != path {
					st.Count("matched-noncanonical-path:" + classify(pat, lo.Tsr, host))
				}
				if req.URL.RawPath != "" {
					st.Count("matched-rawpath:" + classify(pat, lo.Tsr, host))
				}
				st.Count(fmt.Sprintf("params:%d", len(lo.Params)))
				if allocs > worst {
					worst = allocs
				}
				if allocs > 0 {
					st.Count("allocating-matched:host-" + hostKind)
				}
			} else {
				st.Count("matched:no")
			}
			if gs {
				st.Count("cold:skipNds-grown")
			}
			if gp || gt {
				st.Count("cold:params-or-tsrParams-grown")
			}
			if len(st.Samples) < 8 && matched && len(lo.Params) > 1 && rnd.Pct(2) {
				st.Samples = append(st.Samples, human)
			}
		}
		for qi := 0; qi < nreq; qi++ {
			base := hx.Pick(rnd, ok)
			host, path := rt.SplitPattern(rt.Instantiate(rnd, base.pat, false))
			method := base.method
			kind := "instantiated"
			odd := rnd.Pct(30)
			if odd { // wildcard values that make the path non-canonical or escaped, yet still match
				host, path = instantiateOdd(rnd, base.pat)
				kind = "odd-values"
			}
			if rnd.Pct(30) || odd && rnd.Pct(40) { // toggle the trailing slash (ignored / redirected tsr)
				if strings.HasSuffix(path, "/") && len(path) > 1 {
					path = path[:len(path)-1]
				} else {
					path += "/"
				}
				if odd {
					kind = "odd-values+toggled"
				} else {
					kind = "toggled"
				}
			}
			for np := 0; !odd && rnd.Pct(20) && np < 2; np++ {
				path = rt.PerturbPath(rnd, path)
				kind = "perturbed"
			}
			if path == "" {
				path = "/"
			}
			hostKind := "plain"
			switch k := rnd.Intn(20); {
			case k < 3 && host != "":
				host += ":8080"
				hostKind = "port"
			case k < 5 && host != "":
				host += "."
				hostKind = "dot"
			case k < 6 && host != "":
				host += ".:443"
				hostKind = "dot+port"
			case k < 8 && anyHost:
				host = hx.Pick(rnd, []string{"unrelated.org", "x.y.z:80", "a", "127.0.0.1:8080"})
				hostKind = "unrelated"
			case k < 10 && anyHost:
				host = hx.Pick(rnd, []string{"[::1]", "::1", "[::1]:8080", "[fe80::1%eth0]", "a:b:80", "a.b:", ":80", ":", "/", "a/b", "example.x/a", "a.b/a:80"})
				hostKind = "ipv6-or-odd"
			case k < 11 && host != "":
				host = rt.PerturbHost(rnd, host)
				hostKind = "perturbed"
			}
			runCase(method, host, path, kind, hostKind)
		}
		for _, q := range rs.fixed {
			runCase(q[0], q[1], q[2], "fixed", "fixed")
		}
		// histories ending in this route set: a context in flight across a write (history.go)
		ev.nontrivial, ev.worst = nontrivial, worst
		for k := 0; k < nhist; k++ {
			h := genHistory(hrnd, ok, rs.ignoreTS)
			for _, q := range historyRequests(hrnd, h, ok) {
				ev.historyCase(rs, def, tree, dump.String(), fmt.Sprintf("t%dh%d", si, k), h, q)
			}
		}
		nontrivial, worst = ev.nontrivial, ev.worst
	}
	st.Evaluations = cs.Len()
	st.DistinctNontrivial = nontrivial
	st.Extra["worst_allocs_per_op_matched"] = worst
	if len(st.Samples) == 0 {
		st.Samples = []string{"(no multi-parameter sample drawn)"}
	}
	hx.Fatal(cs.Write(out, shards))
	hx.Fatal(st.Write(out))
	st.Extra["history_cases"] = ev.nhist
	fmt.Printf("c16: %d cases (%d history cases), %d matched, worst allocs/op %d\n", cs.Len(), ev.nhist, nontrivial, worst)
}

// newRequest is rt.NewRequest, except that a path containing '%' that unescapes cleanly is sent the way
// net/http delivers an escaped request target: URL.Path unescaped, URL.RawPath = the target (ServeHTTP routes on RawPath).
func newRequest(method, host, path string) *http.Request {
	req := rt.NewRequest(method, host, path)
	if strings.Contains(path, "%") {
		if u, err := url.PathUnescape(path); err == nil && u != path {
			req.URL.Path = u
			req.URL.RawPath = path
		}
	}
	return req
}

var oddParam = []string{".", "..", "...", "a.", ".a", "a%2Fb", "%2E", "%2e%2e", "a%20b", "%"}
var oddCatch = []string{".", "..", "a/./b", "a/../b", "./a", "../a", "a/.", "a/..", "a//b", "a/b//c", "a%2Fb/c", "./.", "../..", "a/./../b"}

// instantiateOdd is rt.Instantiate with wildcard values of the path part drawn (mostly) from values that
// leave the request path non-canonical (CleanPath(path) != path) or escaped; host labels get plain values.
func instantiateOdd(r *hx.Rand, pat string) (host, path string) {
	var sb strings.Builder
	inPath := false
	plain := []string{"a", "b", "ab", "x", "1"}
	for i := 0; i < len(pat); {
		switch {
		case pat[i] == '{':
			j := strings.IndexByte(pat[i:], '}')
			if j < 0 {
				sb.WriteString(pat[i:])
				return rt.SplitPattern(sb.String())
			}
			if inPath && r.Pct(70) {
				sb.WriteString(hx.Pick(r, oddParam))
			} else {
				sb.WriteString(hx.Pick(r, plain))
			}
			i += j + 1
		case pat[i] == '*' && i+1 < len(pat) && pat[i+1] == '{':
			j := strings.IndexByte(pat[i:], '}')
			if j < 0 {
				sb.WriteString(pat[i:])
				return rt.SplitPattern(sb.String())
			}
			if r.Pct(75) {
				sb.WriteString(hx.Pick(r, oddCatch))
			} else {
				sb.WriteString(hx.Pick(r, plain))
			}
			i += j + 1
		default:
			if pat[i] == '/' {
				inPath = true
			}
			sb.WriteByte(pat[i])
			i++
		}
	}
	return rt.SplitPattern(sb.String())
}

func fmtEntries(es []entry) []string {
	out := make([]string, len(es))
	for i, e := range es {
		out[i] = e.method + " " + e.pat
	}
	return out
}
