package main

import (
	"fmt"
	"go/ast"
	"go/token"
	"go/types"
	"strconv"
	"strings"
)

type kind int

const (
	kIP            kind = iota // *net.IPAddr in a strategy: option A
	kErr                       // error: option (list errk)
	kBool                      // bool
	kStr                       // string: bytes
	kStrs                      // []string: list bytes
	kUint                      // uint: N
	kRanges                    // []net.IPNet: A -> bool
	kElem                      // *net.IPAddr inside an iterator: option (option A)
	kSub                       // one fox.ClientIPResolver of a chain: unit -> result A
	kSubs                      // []fox.ClientIPResolver
	kFwd                       // the header name of a list strategy: bool "is Forwarded"
	kHdrName                   // the header name used as the key of the lookup
	kHeader                    // http.Header
	kRangeResolver             // TrustedIPRange
)

const (
	mResult = iota // function returning (*net.IPAddr, error)
	mLoop          // body of a loop of such a function
	mIter          // push iterator func(yield func(*net.IPAddr) bool)
	mStr           // helper returning a string
)

type vinfo struct {
	k   kind
	coq string
}

type env struct {
	vars   map[string]vinfo
	nonnil map[string]string // Go name -> Coq name of the value under a `!= nil` path condition
	idx    map[string]string // "values[i]" -> Coq name, inside a backward index loop
}

func (e *env) clone() *env {
	c := &env{map[string]vinfo{}, map[string]string{}, map[string]string{}}
	for k, v := range e.vars {
		c.vars[k] = v
	}
	for k, v := range e.nonnil {
		c.nonnil[k] = v
	}
	for k, v := range e.idx {
		c.idx[k] = v
	}
	return c
}

type ctx struct {
	mode int
	st   string // mLoop: Coq term of the loop state at this point ("tt" or the state variable)
}

type tr struct {
	d    directive
	recv string
}

func ind(s string) string {
	return "  " + strings.ReplaceAll(s, "\n", "\n  ")
}

func translate(d directive, fd *ast.FuncDecl) string {
	if got := typeStr(info.Defs[fd.Name].Type()); got != d.sig {
		refuse(fd, "signature of %s is %s, expected %s", d.goName, got, d.sig)
	}
	// Go names are reused as Coq binders: refuse the ones that would capture a name the translation uses
	reserved := map[string]bool{"st": true, "k": true, "S": true, "A": true, "parse": true, "h": true, "fwd": true, "remote": true,
		"tt": true, "in": true, "end": true, "match": true, "fun": true, "let": true, "then": true, "at": true, "as": true,
		"with": true, "forall": true, "exists": true, "Type": true, "Set": true, "Prop": true, "fix": true, "cofix": true,
		"using": true, "where": true, "None": true, "Some": true, "negb": true, "take": true, "seq": true}
	ast.Inspect(fd.Body, func(n ast.Node) bool {
		if id, ok := n.(*ast.Ident); ok && info.Defs[id] != nil && (reserved[id.Name] || strings.HasPrefix(id.Name, "go_") ||
			strings.HasPrefix(id.Name, "gen_") || strings.HasPrefix(id.Name, "it_") || strings.HasSuffix(id.Name, "_v") || strings.HasPrefix(id.Name, "s_")) {
			refuse(id, "local name %s is reserved by the translation", id.Name)
		}
		return true
	})
	t := &tr{d: d}
	e := &env{map[string]vinfo{}, map[string]string{}, map[string]string{}}
	for k, v := range d.vars {
		e.vars[k] = v
	}
	if fd.Recv != nil {
		if len(fd.Recv.List[0].Names) == 1 {
			t.recv = fd.Recv.List[0].Names[0].Name
		}
	}
	var body string
	switch d.mode {
	case mIter:
		if len(fd.Body.List) != 1 {
			refuse(fd.Body, "the body of %s is not a single return of a func literal", d.goName)
		}
		rs, ok := fd.Body.List[0].(*ast.ReturnStmt)
		if !ok || len(rs.Results) != 1 {
			refuse(fd.Body, "the body of %s is not a single return of a func literal", d.goName)
		}
		fl, ok := rs.Results[0].(*ast.FuncLit)
		if !ok || typeStr(info.TypeOf(fl)) != "func(yield func(*net.IPAddr) bool)" || len(fl.Type.Params.List) != 1 || len(fl.Type.Params.List[0].Names) != 1 || fl.Type.Params.List[0].Names[0].Name != "yield" {
			refuse(rs, "expected return func(yield func(*net.IPAddr) bool) { .. }")
		}
		body = "fun (S : Type) (yield : option (option A) -> S -> S * bool) (st : S) =>\n" + t.stmts(fl.Body.List, e, ctx{mode: mIter})
	default:
		body = t.stmts(fd.Body.List, e, ctx{mode: d.mode})
	}
	return fmt.Sprintf("  Definition %s %s : %s :=\n%s.\n", d.name, d.params, d.ret, ind(ind(body)))
}

// ---------------------------------------------------------------- expressions

func isNil(x ast.Expr) bool {
	id, ok := x.(*ast.Ident)
	return ok && id.Name == "nil" && info.Uses[id] != nil && info.Uses[id].Pkg() == nil
}

// receiver field s.F
func (t *tr) field(x ast.Expr) (field, bool) {
	se, ok := x.(*ast.SelectorExpr)
	if !ok {
		return field{}, false
	}
	id, ok := se.X.(*ast.Ident)
	if !ok || t.recv == "" || id.Name != t.recv {
		return field{}, false
	}
	f, ok := t.d.fields[se.Sel.Name]
	if !ok {
		refuse(x, "field %s of the receiver is not known to the model", se.Sel.Name)
	}
	if got := typeStr(info.TypeOf(x)); got != f.goType {
		refuse(x, "field %s has type %s, the model assumes %s", se.Sel.Name, got, f.goType)
	}
	return f, true
}

func (t *tr) varOf(x ast.Expr, e *env) (vinfo, bool) {
	if f, ok := t.field(x); ok {
		return vinfo{f.k, f.coq}, true
	}
	if id, ok := x.(*ast.Ident); ok {
		v, ok := e.vars[id.Name]
		return v, ok
	}
	return vinfo{}, false
}

// pkgCall recognises pkgname.Func(args) for an imported package whose path ends in suffix
func pkgCall(x ast.Expr, suffix, fn string) (*ast.CallExpr, bool) {
	c, ok := x.(*ast.CallExpr)
	if !ok {
		return nil, false
	}
	se, ok := c.Fun.(*ast.SelectorExpr)
	if !ok || se.Sel.Name != fn {
		return nil, false
	}
	id, ok := se.X.(*ast.Ident)
	if !ok {
		return nil, false
	}
	if _, isPkg := info.Uses[id].(*types.PkgName); !isPkg {
		return nil, false
	}
	obj := info.Uses[se.Sel]
	if obj == nil || obj.Pkg() == nil || !(obj.Pkg().Path() == suffix || strings.HasSuffix(obj.Pkg().Path(), "/"+suffix)) {
		return nil, false
	}
	return c, true
}

// localCall recognises f(args) for a package-level function of clientip
func localCall(x ast.Expr, fn string) (*ast.CallExpr, bool) {
	c, ok := x.(*ast.CallExpr)
	if !ok {
		return nil, false
	}
	id, ok := c.Fun.(*ast.Ident)
	if !ok || id.Name != fn {
		return nil, false
	}
	obj := info.Uses[id]
	if obj == nil || obj.Pkg() != pkg || obj.Parent() != pkg.Scope() {
		return nil, false
	}
	return c, true
}

// c.Request().Header[s.headerName] or headers[headerName]: the entry of the strategy's header
func (t *tr) hdrLookup(x ast.Expr, e *env) (string, bool) {
	ie, ok := x.(*ast.IndexExpr)
	if !ok || typeStr(info.TypeOf(ie.X)) != "http.Header" {
		return "", false
	}
	if s := src(ie.X); s != "c.Request().Header" {
		if v, ok := t.varOf(ie.X, e); !ok || v.k != kHeader {
			refuse(x, "header map %s is not the request's", s)
		}
	}
	v, ok := t.varOf(ie.Index, e)
	if !ok || (v.k != kFwd && v.k != kHdrName) {
		refuse(x, "header key %s is not the strategy's header name", src(ie.Index))
	}
	return "h", true
}

func (t *tr) fwdArg(x ast.Expr, e *env) string {
	v, ok := t.varOf(x, e)
	if !ok || v.k != kFwd {
		refuse(x, "%s is not the strategy's header name", src(x))
	}
	return v.coq
}

func (t *tr) strs(x ast.Expr, e *env) string {
	if h, ok := t.hdrLookup(x, e); ok {
		return "(hdr_values " + h + ")"
	}
	if v, ok := t.varOf(x, e); ok && v.k == kStrs {
		return v.coq
	}
	refuse(x, "unsupported []string expression %s", src(x))
	return ""
}

func (t *tr) str(x ast.Expr, e *env) string {
	if v, ok := t.varOf(x, e); ok && v.k == kStr {
		return v.coq
	}
	if n, ok := e.idx[src(x)]; ok {
		return n
	}
	if src(x) == "c.Request().RemoteAddr" && typeStr(info.TypeOf(x)) == "string" {
		return "remote"
	}
	if c, ok := pkgCall(x, "strings", "TrimSpace"); ok && len(c.Args) == 1 {
		return "(trim_space " + t.str(c.Args[0], e) + ")"
	}
	refuse(x, "unsupported string expression %s", src(x))
	return ""
}

func (t *tr) uint(x ast.Expr, e *env) string {
	if typeStr(info.TypeOf(x)) != "uint" {
		refuse(x, "%s has type %s, expected uint", src(x), typeStr(info.TypeOf(x)))
	}
	switch v := x.(type) {
	case *ast.ParenExpr:
		return t.uint(v.X, e)
	case *ast.BasicLit:
		if v.Kind == token.INT {
			if n, err := strconv.ParseUint(v.Value, 0, 64); err == nil {
				return strconv.FormatUint(n, 10)
			}
		}
	case *ast.BinaryExpr:
		if v.Op == token.SUB {
			return "(go_usub " + t.uint(v.X, e) + " " + t.uint(v.Y, e) + ")"
		}
	default:
		if vi, ok := t.varOf(x, e); ok && vi.k == kUint {
			return vi.coq
		}
	}
	refuse(x, "unsupported uint expression %s", src(x))
	return ""
}

func (t *tr) int(x ast.Expr, e *env) string {
	switch v := x.(type) {
	case *ast.ParenExpr:
		return t.int(v.X, e)
	case *ast.BasicLit:
		if v.Kind == token.INT {
			if n, err := strconv.ParseInt(v.Value, 0, 64); err == nil {
				return strconv.FormatInt(n, 10)
			}
		}
	case *ast.BinaryExpr:
		if v.Op == token.SUB || v.Op == token.ADD {
			return "(" + t.int(v.X, e) + " " + v.Op.String() + " " + t.int(v.Y, e) + ")"
		}
	case *ast.CallExpr:
		if id, ok := v.Fun.(*ast.Ident); ok && id.Name == "len" && len(v.Args) == 1 && info.Uses[id] != nil && info.Uses[id].Pkg() == nil {
			return "(go_len " + t.strs(v.Args[0], e) + ")"
		}
	}
	refuse(x, "unsupported int expression %s", src(x))
	return ""
}

func (t *tr) seq(x ast.Expr, e *env) string {
	for _, fn := range []string{"ipAddrSeq", "backwardIpAddrSeq"} {
		if c, ok := localCall(x, fn); ok && len(c.Args) == 2 {
			return "(gen_" + fn + " " + t.fwdArg(c.Args[1], e) + " " + t.strs(c.Args[0], e) + ")"
		}
	}
	if c, ok := pkgCall(x, "internal/iterutil", "Take"); ok && len(c.Args) == 2 {
		return "(take " + t.seq(c.Args[0], e) + " " + t.uint(c.Args[1], e) + ")"
	}
	refuse(x, "unsupported iterator expression %s", src(x))
	return ""
}

func (t *tr) ranges(x ast.Expr, e *env) string {
	if v, ok := t.varOf(x, e); ok && v.k == kRanges {
		return v.coq
	}
	refuse(x, "unsupported []net.IPNet expression %s", src(x))
	return ""
}

// x == nil / x != nil on a *net.IPAddr or error variable
func (t *tr) nilTest(x ast.Expr, e *env) (goName string, v vinfo, isNilTest bool, ok bool) {
	be, ok2 := x.(*ast.BinaryExpr)
	if !ok2 || (be.Op != token.EQL && be.Op != token.NEQ) || !isNil(be.Y) {
		return "", vinfo{}, false, false
	}
	id, ok2 := be.X.(*ast.Ident)
	if !ok2 {
		return "", vinfo{}, false, false
	}
	vi, ok2 := e.vars[id.Name]
	if !ok2 || (vi.k != kIP && vi.k != kErr) {
		return "", vinfo{}, false, false
	}
	return id.Name, vi, be.Op == token.EQL, true
}

func (t *tr) boolean(x ast.Expr, e *env) string {
	switch v := x.(type) {
	case *ast.ParenExpr:
		return t.boolean(v.X, e)
	case *ast.Ident:
		if vi, ok := e.vars[v.Name]; ok && vi.k == kBool {
			return vi.coq
		}
		if v.Name == "true" || v.Name == "false" {
			if info.Uses[v] != nil && info.Uses[v].Pkg() == nil {
				return v.Name
			}
		}
	case *ast.UnaryExpr:
		if v.Op == token.NOT {
			return "(negb " + t.boolean(v.X, e) + ")"
		}
	case *ast.BinaryExpr:
		switch v.Op {
		case token.LAND:
			if name, vi, isnil, ok := t.nilTest(v.X, e); ok && !isnil {
				e2 := e.clone()
				e2.nonnil[name] = vi.coq + "_v"
				return "(match " + vi.coq + " with Some " + vi.coq + "_v => " + t.boolean(v.Y, e2) + " | None => false end)"
			}
			return "(" + t.boolean(v.X, e) + " && " + t.boolean(v.Y, e) + ")"
		case token.LOR:
			return "(" + t.boolean(v.X, e) + " || " + t.boolean(v.Y, e) + ")"
		case token.EQL, token.NEQ:
			neg := func(s string) string {
				if v.Op == token.NEQ {
					return "(negb " + s + ")"
				}
				return s
			}
			if _, vi, _, ok := t.nilTest(&ast.BinaryExpr{X: v.X, Op: token.EQL, Y: v.Y}, e); ok {
				return neg("(go_is_nil " + vi.coq + ")")
			}
			if typeStr(info.TypeOf(v.X)) == "string" {
				if src(v.Y) == "forwardedHdr" {
					return neg(t.fwdArg(v.X, e))
				}
				if lit, ok := v.Y.(*ast.BasicLit); ok && lit.Value == `""` {
					return neg("(str_is_empty " + t.str(v.X, e) + ")")
				}
			}
			if typeStr(info.TypeOf(v.X)) == "int" {
				return neg("(" + t.int(v.X, e) + " =? " + t.int(v.Y, e) + ")%Z")
			}
		case token.GTR, token.GEQ, token.LSS, token.LEQ:
			if typeStr(info.TypeOf(v.X)) == "int" {
				a, b := t.int(v.X, e), t.int(v.Y, e)
				switch v.Op {
				case token.GTR:
					return "(" + b + " <? " + a + ")%Z"
				case token.GEQ:
					return "(" + b + " <=? " + a + ")%Z"
				case token.LSS:
					return "(" + a + " <? " + b + ")%Z"
				case token.LEQ:
					return "(" + a + " <=? " + b + ")%Z"
				}
			}
		}
	case *ast.CallExpr:
		if c, ok := localCall(x, "isIPContainedInRanges"); ok && len(c.Args) == 2 {
			se, ok := c.Args[0].(*ast.SelectorExpr)
			if !ok || se.Sel.Name != "IP" {
				refuse(x, "first argument of isIPContainedInRanges is not <ip>.IP")
			}
			id, ok := se.X.(*ast.Ident)
			if !ok || e.vars[id.Name].k != kIP {
				refuse(x, "first argument of isIPContainedInRanges is not <ip>.IP")
			}
			val, ok := e.nonnil[id.Name]
			if !ok {
				refuse(x, "%s.IP is read where %s may be nil", id.Name, id.Name)
			}
			return "(" + t.ranges(c.Args[1], e) + " " + val + ")"
		}
	}
	refuse(x, "unsupported condition %s", src(x))
	return ""
}

// (sentinel, format) of fmt.Errorf -> error kind; "!f" = f applied to the wrapped error
var errTable = map[string]string{
	"ErrLeftmostNonPrivate|%w: unable to find a valid or non-private IP":           "ELeftmost",
	"ErrRightmostNonPrivate|%w: unable to find a valid or non-private IP":          "ERightNonPrivate",
	"ErrSingleIPHeader|%w: header not found":                                       "ESingleNotFound",
	"ErrChain|%w: no resolver configured":                                          "EChainEmpty",
	"ErrRightmostTrustedCount|%w: expected at least %d IP(s)":                      "ECountFewer",
	"ErrRightmostTrustedCount|%w: invalid IP address from the first trusted proxy": "ECountInvalid",
	"ErrRightmostTrustedRange|%w: unable to find a valid IP address":               "ERangeNoValid",
	"ErrRightmostTrustedRange|%w: unable to resolve trusted ip range: %w":          "!wrap_range_resolver",
	"ErrRemoteAddress|%w: %w":                                                      "!wrap_remote",
}

func (t *tr) errorf(c *ast.CallExpr, e *env) string {
	if len(c.Args) < 2 {
		refuse(c, "unsupported error %s", src(c))
	}
	lit, ok := c.Args[0].(*ast.BasicLit)
	if !ok || lit.Kind != token.STRING {
		refuse(c, "format of %s is not a literal", src(c))
	}
	f, _ := strconv.Unquote(lit.Value)
	sid, ok := c.Args[1].(*ast.Ident)
	if !ok || info.Uses[sid] == nil || info.Uses[sid].Parent() != pkg.Scope() {
		refuse(c, "first operand of %s is not a sentinel of clientip", src(c))
	}
	k, ok := errTable[sid.Name+"|"+f]
	if !ok {
		refuse(c, "error (%s, %q) is not one the model knows", sid.Name, f)
	}
	rest := c.Args[2:]
	if strings.HasPrefix(k, "!") {
		if len(rest) != 1 {
			refuse(c, "unsupported error %s", src(c))
		}
		id, ok := rest[0].(*ast.Ident)
		if !ok || e.vars[id.Name].k != kErr {
			refuse(c, "wrapped operand of %s is not an error variable", src(c))
		}
		val, ok := e.nonnil[id.Name]
		if !ok {
			refuse(c, "%s is wrapped where it may be nil", id.Name)
		}
		return "(Some (" + k[1:] + " " + val + "))"
	}
	if strings.Contains(f, "%d") {
		if len(rest) != 1 {
			refuse(c, "unsupported error %s", src(c))
		}
		t.uint(rest[0], e)
	} else if len(rest) != 0 {
		refuse(c, "unsupported error %s", src(c))
	}
	return "(Some [" + k + "])"
}

func (t *tr) err(x ast.Expr, e *env) string {
	if isNil(x) {
		return "None"
	}
	if id, ok := x.(*ast.Ident); ok {
		if v, ok := e.vars[id.Name]; ok && v.k == kErr {
			return v.coq
		}
		// package-level error variable: its declaration decides
		if obj := info.Uses[id]; obj != nil && obj.Parent() == pkg.Scope() {
			for _, f := range files {
				for _, d := range f.Decls {
					gd, ok := d.(*ast.GenDecl)
					if !ok || gd.Tok != token.VAR {
						continue
					}
					for _, s := range gd.Specs {
						vs := s.(*ast.ValueSpec)
						for i, n := range vs.Names {
							if n.Name == id.Name && info.Defs[n] == obj && len(vs.Values) == len(vs.Names) {
								if c, ok := pkgCall(vs.Values[i], "fmt", "Errorf"); ok {
									return t.errorf(c, &env{map[string]vinfo{}, map[string]string{}, map[string]string{}})
								}
							}
						}
					}
				}
			}
		}
	}
	if c, ok := pkgCall(x, "fmt", "Errorf"); ok {
		return t.errorf(c, e)
	}
	if c, ok := pkgCall(x, "errors", "Join"); ok && len(c.Args) == 2 {
		return "(go_errors_join " + t.err(c.Args[0], e) + " " + t.err(c.Args[1], e) + ")"
	}
	refuse(x, "unsupported error expression %s", src(x))
	return ""
}

func (t *tr) ip(x ast.Expr, e *env) string {
	if isNil(x) {
		return "None"
	}
	if id, ok := x.(*ast.Ident); ok {
		if v, ok := e.vars[id.Name]; ok && v.k == kIP {
			return v.coq
		}
	}
	refuse(x, "unsupported *net.IPAddr expression %s", src(x))
	return ""
}

func asciiLit(x ast.Expr) string {
	lit, ok := x.(*ast.BasicLit)
	if ok && lit.Kind == token.STRING {
		if s, err := strconv.Unquote(lit.Value); err == nil && len(s) == 1 && s[0] > 32 && s[0] < 127 {
			if s == `"` {
				return `""""`
			}
			return `"` + s + `"`
		}
	}
	refuse(x, "separator %s is not a one-byte printable literal", src(x))
	return ""
}

// ---------------------------------------------------------------- statements

func terminates(list []ast.Stmt) bool {
	if len(list) == 0 {
		return false
	}
	switch v := list[len(list)-1].(type) {
	case *ast.ReturnStmt:
		return true
	case *ast.BranchStmt:
		return v.Label == nil && (v.Tok == token.CONTINUE || v.Tok == token.BREAK)
	}
	return false
}

func (c ctx) ret(term string) string {
	if c.mode == mLoop {
		return "CRet (" + term + ")"
	}
	return term
}

func (c ctx) panicT() string {
	if c.mode == mLoop {
		return "(CRet Panic)"
	}
	return "Panic"
}

func (t *tr) fallthru(n ast.Node, c ctx) string {
	switch c.mode {
	case mLoop:
		return "CNext " + c.st
	case mIter:
		return "(st, true)"
	}
	refuse(n, "control reaches the end of %s without a return", t.d.goName)
	return ""
}

func defNames(lhs []ast.Expr, n int) []string {
	if len(lhs) != n {
		return nil
	}
	var out []string
	for _, l := range lhs {
		id, ok := l.(*ast.Ident)
		if !ok {
			return nil
		}
		out = append(out, id.Name)
	}
	return out
}

func coqName(s string) string {
	if s == "_" {
		return "_"
	}
	return s
}

// outer variables assigned (=) inside a loop body
func assignedOuter(body *ast.BlockStmt, e *env) []string {
	seen := map[string]bool{}
	var out []string
	ast.Inspect(body, func(n ast.Node) bool {
		switch v := n.(type) {
		case *ast.AssignStmt:
			if v.Tok != token.DEFINE {
				for _, l := range v.Lhs {
					if id, ok := l.(*ast.Ident); ok {
						if _, ok := e.vars[id.Name]; ok && !seen[id.Name] {
							seen[id.Name] = true
							out = append(out, id.Name)
						}
					}
				}
			}
		case *ast.IncDecStmt:
			if id, ok := v.X.(*ast.Ident); ok && !seen[id.Name] {
				seen[id.Name] = true
				out = append(out, id.Name)
			}
		}
		return true
	})
	return out
}

func (t *tr) stmts(list []ast.Stmt, e *env, c ctx) string {
	if len(list) == 0 {
		return t.fallthru(nil, c)
	}
	s, rest := list[0], list[1:]
	if c.mode == mIter {
		return t.iterStmt(s, rest, e, c)
	}
	switch v := s.(type) {
	case *ast.DeclStmt:
		gd := v.Decl.(*ast.GenDecl)
		if gd.Tok == token.VAR && len(gd.Specs) == 1 {
			vs := gd.Specs[0].(*ast.ValueSpec)
			if len(vs.Names) == 1 && len(vs.Values) == 0 && typeStr(info.TypeOf(vs.Type)) == "error" {
				e2 := e.clone()
				n := vs.Names[0].Name
				e2.vars[n] = vinfo{kErr, n}
				return "let " + n + " : option (list errk) := None in\n" + t.stmts(rest, e2, c)
			}
		}
	case *ast.AssignStmt:
		return t.assign(v, rest, e, c)
	case *ast.ReturnStmt:
		if len(rest) != 0 {
			refuse(rest[0], "statement after return")
		}
		return t.returnStmt(v, e, c)
	case *ast.BranchStmt:
		if v.Label == nil && c.mode == mLoop && len(rest) == 0 {
			if v.Tok == token.CONTINUE {
				return "CNext " + c.st
			}
			if v.Tok == token.BREAK {
				return "CBreak " + c.st
			}
		}
	case *ast.IfStmt:
		return t.ifStmt(v, rest, e, c)
	case *ast.RangeStmt:
		return t.rangeStmt(v, rest, e, c)
	}
	refuse(s, "unsupported statement %s", firstLine(src(s)))
	return ""
}

func firstLine(s string) string {
	if len(s) > 90 {
		return s[:90] + " .."
	}
	return s
}

func (t *tr) assign(v *ast.AssignStmt, rest []ast.Stmt, e *env, c ctx) string {
	if len(v.Rhs) != 1 {
		refuse(v, "unsupported assignment %s", src(v))
	}
	rhs := v.Rhs[0]
	e2 := e.clone()
	cps := func(head string, names []string, kinds []kind) string {
		var bs []string
		for i, n := range names {
			if n != "_" {
				e2.vars[n] = vinfo{kinds[i], n}
				delete(e2.nonnil, n)
			}
			bs = append(bs, coqName(n))
		}
		return head + " (fun " + strings.Join(bs, " ") + " =>\n" + ind(t.stmts(rest, e2, c)) + ")"
	}
	if v.Tok == token.DEFINE {
		if names := defNames(v.Lhs, 2); names != nil {
			// x, ok := iterutil.At(seq, n)
			if call, ok := pkgCall(rhs, "internal/iterutil", "At"); ok && len(call.Args) == 2 {
				return cps("go_At A "+c.panicT()+" "+t.seq(call.Args[0], e)+" "+t.uint(call.Args[1], e), names, []kind{kIP, kBool})
			}
			// ipAddr, err := ParseIPAddr(s)
			if call, ok := localCall(rhs, "ParseIPAddr"); ok && len(call.Args) == 1 {
				return cps("go_call_parse A "+c.panicT()+" (parse "+t.str(call.Args[0], e)+")", names, []kind{kIP, kErr})
			}
			// ipAddr, err := sub.ClientIP(c)
			if call, ok := rhs.(*ast.CallExpr); ok && len(call.Args) == 1 && src(call.Args[0]) == "c" {
				if se, ok := call.Fun.(*ast.SelectorExpr); ok && se.Sel.Name == "ClientIP" {
					if sv, ok := t.varOf(se.X, e); ok && sv.k == kSub {
						return cps("go_call_resolver A "+c.panicT()+" "+sv.coq, names, []kind{kIP, kErr})
					}
				}
			}
			// trustedRange, err := s.resolver.TrustedIPRange()
			if call, ok := rhs.(*ast.CallExpr); ok && len(call.Args) == 0 {
				if se, ok := call.Fun.(*ast.SelectorExpr); ok && se.Sel.Name == "TrustedIPRange" {
					if sv, ok := t.varOf(se.X, e); ok && sv.k == kRangeResolver {
						return cps("go_call_ranges A "+sv.coq, names, []kind{kRanges, kErr})
					}
				}
			}
			// values, ok := c.Request().Header[name]
			if h, ok := t.hdrLookup(rhs, e); ok {
				e2.vars[names[0]] = vinfo{kStrs, names[0]}
				e2.vars[names[1]] = vinfo{kBool, names[1]}
				return "let " + names[0] + " := hdr_values " + h + " in\nlet " + names[1] + " := hdr_ok " + h + " in\n" + t.stmts(rest, e2, c)
			}
		}
		if names := defNames(v.Lhs, 1); names != nil {
			// ipStr := lastHeader(c.Request().Header, s.headerName)
			if call, ok := localCall(rhs, "lastHeader"); ok && len(call.Args) == 2 && c.mode != mStr {
				if src(call.Args[0]) != "c.Request().Header" {
					refuse(v, "lastHeader is not applied to the request's header")
				}
				if hv, ok := t.varOf(call.Args[1], e); !ok || hv.k != kHdrName {
					refuse(v, "lastHeader is not applied to the strategy's header name")
				}
				return cps("go_call_str "+c.panicT()+" (gen_lastHeader h)", names, []kind{kStr})
			}
		}
	}
	if v.Tok == token.ASSIGN {
		if names := defNames(v.Lhs, 1); names != nil {
			if vi, ok := e.vars[names[0]]; ok && vi.k == kErr {
				term := t.err(rhs, e)
				delete(e2.nonnil, names[0])
				return "let " + vi.coq + " := " + term + " in\n" + t.stmts(rest, e2, c)
			}
		}
	}
	refuse(v, "unsupported assignment %s", firstLine(src(v)))
	return ""
}

func (t *tr) returnStmt(v *ast.ReturnStmt, e *env, c ctx) string {
	switch c.mode {
	case mStr:
		if len(v.Results) == 1 {
			x := v.Results[0]
			if lit, ok := x.(*ast.BasicLit); ok && lit.Value == `""` {
				return "Some []"
			}
			if ie, ok := x.(*ast.IndexExpr); ok {
				return "go_index " + t.strs(ie.X, e) + " " + t.int(ie.Index, e)
			}
			return "Some " + t.str(x, e)
		}
	case mResult, mLoop:
		if len(v.Results) == 2 {
			if isNil(v.Results[1]) {
				return c.ret("go_ret A " + t.ip(v.Results[0], e) + " None")
			}
			if isNil(v.Results[0]) {
				return c.ret("go_ret A None " + t.err(v.Results[1], e))
			}
			refuse(v, "return of an address together with an error: %s", src(v))
		}
		if len(v.Results) == 1 && c.mode == mResult {
			if call, ok := localCall(v.Results[0], "ParseIPAddr"); ok && len(call.Args) == 1 {
				return "go_call_parse A Panic (parse " + t.str(call.Args[0], e) + ") (go_ret A)"
			}
		}
	}
	refuse(v, "unsupported return %s", src(v))
	return ""
}

func (t *tr) ifStmt(v *ast.IfStmt, rest []ast.Stmt, e *env, c ctx) string {
	pre := ""
	e2 := e.clone()
	if v.Init != nil {
		as, ok := v.Init.(*ast.AssignStmt)
		names := []string(nil)
		if ok && as.Tok == token.DEFINE && len(as.Rhs) == 1 {
			names = defNames(as.Lhs, 2)
		}
		if names == nil {
			refuse(v.Init, "unsupported if initialiser %s", src(v.Init))
		}
		h, ok := t.hdrLookup(as.Rhs[0], e)
		if !ok {
			refuse(v.Init, "unsupported if initialiser %s", src(v.Init))
		}
		e2.vars[names[0]] = vinfo{kStrs, names[0]}
		e2.vars[names[1]] = vinfo{kBool, names[1]}
		pre = "let " + names[0] + " := hdr_values " + h + " in\nlet " + names[1] + " := hdr_ok " + h + " in\n"
	}
	thenList := append([]ast.Stmt{}, v.Body.List...)
	if !terminates(thenList) {
		thenList = append(thenList, rest...)
	}
	elseList := rest
	if v.Else != nil {
		eb, ok := v.Else.(*ast.BlockStmt)
		if !ok {
			refuse(v.Else, "else-if chains are not supported")
		}
		elseList = append([]ast.Stmt{}, eb.List...)
		if !terminates(elseList) {
			elseList = append(elseList, rest...)
		}
	}
	if name, vi, isnil, ok := t.nilTest(v.Cond, e2); ok {
		eNil, eSome := e2.clone(), e2.clone()
		delete(eNil.nonnil, name)
		eSome.nonnil[name] = vi.coq + "_v"
		var nilT, someT string
		if isnil {
			nilT, someT = t.stmts(thenList, eNil, c), t.stmts(elseList, eSome, c)
		} else {
			someT, nilT = t.stmts(thenList, eSome, c), t.stmts(elseList, eNil, c)
		}
		// branches in source order
		if isnil {
			return pre + "match " + vi.coq + " with\n| None =>\n" + ind(nilT) + "\n| Some " + vi.coq + "_v =>\n" + ind(someT) + "\nend"
		}
		return pre + "match " + vi.coq + " with\n| Some " + vi.coq + "_v =>\n" + ind(someT) + "\n| None =>\n" + ind(nilT) + "\nend"
	}
	cond := t.boolean(v.Cond, e2)
	return pre + "if " + cond + " then\n" + ind(t.stmts(thenList, e2, c)) + "\nelse\n" + ind(t.stmts(elseList, e2, c))
}

func (t *tr) rangeStmt(v *ast.RangeStmt, rest []ast.Stmt, e *env, c ctx) string {
	if c.mode != mResult {
		refuse(v, "nested loops are not supported here")
	}
	if v.Tok != token.DEFINE {
		refuse(v, "range without := is not supported")
	}
	outer := assignedOuter(v.Body, e)
	if len(outer) > 1 {
		refuse(v, "the loop assigns more than one outer variable: %v", outer)
	}
	stB, stInit, stAfter := "(_ : unit)", "tt", "_"
	lc := ctx{mode: mLoop, st: "tt"}
	if len(outer) == 1 {
		vi := e.vars[outer[0]]
		if vi.k != kErr {
			refuse(v, "the loop assigns %s, which is not an error accumulator", outer[0])
		}
		stB, stInit, stAfter = vi.coq, vi.coq, vi.coq
		lc.st = vi.coq
	}
	eb, ea := e.clone(), e.clone()
	for _, o := range outer {
		delete(eb.nonnil, o)
		delete(ea.nonnil, o)
	}
	var head, x string
	if sv, ok := t.varOf(v.X, e); ok && sv.k == kSubs {
		k, ok1 := v.Key.(*ast.Ident)
		val, ok2 := v.Value.(*ast.Ident)
		if !ok1 || !ok2 || k.Name != "_" {
			refuse(v, "expected for _, sub := range <resolvers>")
		}
		x = val.Name
		eb.vars[x] = vinfo{kSub, x}
		head = "go_range_list A " + sv.coq
	} else {
		k, ok1 := v.Key.(*ast.Ident)
		if !ok1 || v.Value != nil || k.Name == "_" {
			refuse(v, "expected for ip := range <iterator>")
		}
		x = k.Name
		eb.vars[x] = vinfo{kIP, x}
		head = "go_range_seq A " + t.seq(v.X, e)
	}
	delete(eb.nonnil, x)
	body := t.stmts(v.Body.List, eb, lc)
	after := t.stmts(rest, ea, c)
	return head + " (fun " + x + " " + stB + " =>\n" + ind(body) + ") " + stInit + " (fun " + stAfter + " =>\n" + ind(after) + ")"
}

// ---------------------------------------------------------------- iterator bodies

// x = e for the variables of an iterator body; returns the let line
func (t *tr) iterAssign(s ast.Stmt, e *env) (string, string) {
	switch v := s.(type) {
	case *ast.DeclStmt:
		gd := v.Decl.(*ast.GenDecl)
		if gd.Tok == token.VAR && len(gd.Specs) == 1 {
			vs := gd.Specs[0].(*ast.ValueSpec)
			if len(vs.Names) == 1 && len(vs.Values) == 0 && typeStr(info.TypeOf(vs.Type)) == "*net.IPAddr" {
				n := vs.Names[0].Name
				e.vars[n] = vinfo{kElem, n}
				return n, "let " + n + " : option (option A) := Some None in\n"
			}
		}
	case *ast.AssignStmt:
		if v.Tok == token.ASSIGN && len(v.Rhs) == 1 {
			if names := defNames(v.Lhs, 1); names != nil {
				vi, ok := e.vars[names[0]]
				if ok && vi.k == kStr {
					return names[0], "let " + vi.coq + " := " + t.str(v.Rhs[0], e) + " in\n"
				}
				if ok && vi.k == kElem {
					if call, ok := localCall(v.Rhs[0], "parseForwardedListItem"); ok && len(call.Args) == 1 {
						return names[0], "let " + vi.coq + " := parse_forwarded_list_item A parse " + t.str(call.Args[0], e) + " in\n"
					}
				}
			}
			if names := defNames(v.Lhs, 2); names != nil && names[1] == "_" {
				vi, ok := e.vars[names[0]]
				if ok && vi.k == kElem {
					if call, ok := localCall(v.Rhs[0], "ParseIPAddr"); ok && len(call.Args) == 1 {
						return names[0], "let " + vi.coq + " := go_parse_discard A (parse " + t.str(call.Args[0], e) + ") in\n"
					}
				}
			}
		}
	}
	return "", ""
}

func (t *tr) iterStmt(s ast.Stmt, rest []ast.Stmt, e *env, c ctx) string {
	e2 := e.clone()
	if _, line := t.iterAssign(s, e2); line != "" {
		return line + t.stmts(rest, e2, c)
	}
	after := func() string { return "(fun st =>\n" + ind(t.stmts(rest, e, c)) + ")" }
	switch v := s.(type) {
	case *ast.ReturnStmt:
		if len(v.Results) == 0 && len(rest) == 0 {
			return "(st, false)"
		}
	case *ast.RangeStmt:
		if v.Tok != token.DEFINE {
			break
		}
		// for _, v := range values
		if sv, ok := t.varOf(v.X, e); ok && sv.k == kStrs {
			k, ok1 := v.Key.(*ast.Ident)
			val, ok2 := v.Value.(*ast.Ident)
			if !ok1 || !ok2 || k.Name != "_" {
				refuse(v, "expected for _, v := range <values>")
			}
			e2.vars[val.Name] = vinfo{kStr, val.Name}
			return "it_range_list " + sv.coq + " (fun " + val.Name + " st =>\n" + ind(t.stmts(v.Body.List, e2, c)) + ") st " + after()
		}
		// for raw := range iterutil.SplitStringSeq(s, ",") / BackwardSplitStringSeq
		k, ok1 := v.Key.(*ast.Ident)
		if !ok1 || v.Value != nil || k.Name == "_" {
			refuse(v, "expected for x := range <iterator>")
		}
		for fn, coq := range map[string]string{"SplitStringSeq": "split_seq", "BackwardSplitStringSeq": "bsplit_seq"} {
			if call, ok := pkgCall(v.X, "internal/iterutil", fn); ok && len(call.Args) == 2 {
				q := "(" + coq + " " + asciiLit(call.Args[1]) + " " + t.str(call.Args[0], e) + ")"
				e2.vars[k.Name] = vinfo{kStr, k.Name}
				return "it_range_seq " + q + " (fun " + k.Name + " st =>\n" + ind(t.stmts(v.Body.List, e2, c)) + ") st " + after()
			}
		}
	case *ast.ForStmt:
		// for i := len(values) - 1; i >= 0; i-- { .. values[i] .. }
		init, ok1 := v.Init.(*ast.AssignStmt)
		cond, ok2 := v.Cond.(*ast.BinaryExpr)
		post, ok3 := v.Post.(*ast.IncDecStmt)
		if !ok1 || !ok2 || !ok3 || init.Tok != token.DEFINE {
			break
		}
		names := defNames(init.Lhs, 1)
		if names == nil || len(init.Rhs) != 1 {
			break
		}
		i := names[0]
		var xs ast.Expr
		if be, ok := init.Rhs[0].(*ast.BinaryExpr); ok && be.Op == token.SUB && src(be.Y) == "1" {
			if call, ok := be.X.(*ast.CallExpr); ok && src(call.Fun) == "len" && len(call.Args) == 1 {
				xs = call.Args[0]
			}
		}
		if xs == nil {
			refuse(v.Init, "the index loop does not start at len(<values>) - 1")
		}
		if cond.Op != token.GEQ || src(cond.X) != i || src(cond.Y) != "0" {
			refuse(v.Cond, "the index loop does not run while %s >= 0", i)
		}
		if post.Tok != token.DEC || src(post.X) != i {
			refuse(v.Post, "the index loop does not step by %s--", i)
		}
		sv, ok := t.varOf(xs, e)
		if !ok || sv.k != kStrs {
			refuse(v.Init, "the index loop is not over a []string")
		}
		// i may only be used as values[i]
		elem := sv.coq + "_" + i
		bad := ""
		ast.Inspect(v.Body, func(n ast.Node) bool {
			if ie, ok := n.(*ast.IndexExpr); ok && src(ie) == src(xs)+"["+i+"]" {
				return false
			}
			if id, ok := n.(*ast.Ident); ok && id.Name == i {
				bad = "the loop index is used other than as " + src(xs) + "[" + i + "]"
			}
			return true
		})
		if bad != "" {
			refuse(v.Body, "%s", bad)
		}
		if len(assignedOuter(v.Body, &env{vars: map[string]vinfo{i: {}, src(xs): {}}})) > 0 {
			refuse(v.Body, "the loop body assigns the index or the slice")
		}
		e2.idx[src(xs)+"["+i+"]"] = elem
		return "it_range_list_backward " + sv.coq + " (fun " + elem + " st =>\n" + ind(t.stmts(v.Body.List, e2, c)) + ") st " + after()
	case *ast.IfStmt:
		if v.Init != nil {
			break
		}
		// if !yield(x) { return }
		if ue, ok := v.Cond.(*ast.UnaryExpr); ok && ue.Op == token.NOT {
			if call, ok := ue.X.(*ast.CallExpr); ok && src(call.Fun) == "yield" && len(call.Args) == 1 && v.Else == nil {
				id, ok := call.Args[0].(*ast.Ident)
				if !ok || e.vars[id.Name].k != kElem {
					refuse(call, "yield is not applied to the parsed address")
				}
				if len(v.Body.List) != 1 {
					refuse(v.Body, "expected { return } after !yield(..)")
				}
				if rs, ok := v.Body.List[0].(*ast.ReturnStmt); !ok || len(rs.Results) != 0 {
					refuse(v.Body, "expected { return } after !yield(..)")
				}
				return "let (st, k) := yield " + e.vars[id.Name].coq + " st in\nif negb k then (st, false)\nelse\n" + ind(t.stmts(rest, e, c))
			}
		}
		// if c { x = e1 } else { x = e2 }
		cond := t.boolean(v.Cond, e)
		branch := func(list []ast.Stmt) (string, string) {
			eb := e.clone()
			var lines, name string
			for _, s := range list {
				n, l := t.iterAssign(s, eb)
				if l == "" {
					refuse(s, "unsupported statement in a branch of an iterator body: %s", firstLine(src(s)))
				}
				if _, declared := e.vars[n]; !declared {
					refuse(s, "declaration inside a branch")
				}
				if name != "" && n != name {
					refuse(s, "a branch assigns more than one variable")
				}
				name = n
				lines += l
			}
			return name, lines
		}
		n1, l1 := branch(v.Body.List)
		n2, l2 := "", ""
		if v.Else != nil {
			eb, ok := v.Else.(*ast.BlockStmt)
			if !ok {
				refuse(v.Else, "else-if chains are not supported")
			}
			n2, l2 = branch(eb.List)
		}
		name := n1
		if name == "" {
			name = n2
		}
		if name == "" || (n1 != "" && n2 != "" && n1 != n2) {
			refuse(v, "the branches do not assign one and the same variable")
		}
		x := e.vars[name].coq
		return "let " + x + " :=\n  if " + cond + " then\n" + ind(ind(l1+x)) + "\n  else\n" + ind(ind(l2+x)) + " in\n" + t.stmts(rest, e, c)
	}
	refuse(s, "unsupported statement in an iterator body: %s", firstLine(src(s)))
	return ""
}
