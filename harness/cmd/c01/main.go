// c01: lookup correspondence for the routing core. Streams (prop=):
//
//	C01 direct selection + params, C08 trailing-slash selection, C09 hostname matching.
package main

import (
	"errors"
	"fmt"
	"sort"
	"strings"

	"foxverif/hx"
	"foxverif/rt"

	"github.com/tigerwill90/fox"
)

func main() {
	args := hx.Args()
	out, tier, prop := args["out"], args["tier"], args["prop"]
	if prop == "" {
		prop = "C01"
	}
	shards := hx.Atoi(args["shards"], 16)
	rnd := hx.NewRand(hx.Seed() ^ uint64(len(prop))*977)

	viol, knownStar := "l_direct_violations", "l_known_star_direct"
	if prop == "C08" {
		viol, knownStar = "l_full_violations", "l_known_star_full"
	}
	cs := &hx.Cases{
		Header: "From FoxBase Require Import Bytes.\nFrom FoxRoute Require Import Node Lookup Spec Tree Corr.\n",
		Type:   "lcase",
		Footer: "Definition mism := Eval vm_compute in l_mismatches cases.\nPrint mism.\n" +
			"Definition viol := Eval vm_compute in " + viol + " cases.\nPrint viol.\n" +
			"Definition oof := Eval vm_compute in l_fuel_outs cases.\nPrint oof.\n" +
			"Definition known_c01_star_byte_prefers_catchall := Eval vm_compute in " + knownStar + " cases.\nPrint known_c01_star_byte_prefers_catchall.\n",
	}
	st := &hx.Stats{Rule: "route sets of 1-14 random patterns over a segment alphabet (static a/b/ab/abc/c, {x},{y}, mid-segment a{x}/ab{y}, suffix and infix *{w}/*{v}, mid-segment b*{w}; hostnames with label params in a share of the sets) registered on 1-3 methods in random order; requests derived from the registered patterns (instantiated wildcards, then 0-2 perturbations: toggle trailing slash, change/insert/delete a byte, add/remove a segment) plus host perturbations (port, trailing dot, extra labels/bytes on either side, truncation, upper case); non-trivial = the request matched a route (directly or by trailing slash) or came from a perturbed instantiation; distinct = distinct (route set, method, host, path)"}

	nsets, nreq := 500, 24
	if tier == "thorough" {
		nsets, nreq = 2500, 40
	}
	hostPct := 25
	if prop == "C09" {
		hostPct = 75
	}
	seen := map[string]bool{}
	nontrivial := 0
	for si := 0; si < nsets; si++ {
		f, err := fox.New(fox.WithIgnoreTrailingSlash(true))
		hx.Fatal(err)
		methods := []string{"GET", "POST", "FOO"}[:rnd.Range(1, 3)]
		npat := rnd.Range(1, 14)
		var pats []string
		setHostPct := hostPct
		if rnd.Pct(40) && prop != "C09" {
			setHostPct = 0
		}
		if si%12 == 5 {
			// fan-out stream: 40-75 children under one node (crosses the 50-children search switch)
			nch := rnd.Range(40, 75)
			alpha := "0123456789ABCDEFGHIJKLMNOPQRSTUVWXYZabcdefghijklmnopqrstuvwxyz-_.~!$&'()+,;=:@"
			pre := hx.Pick(rnd, []string{"/", "/p/", "/{x}/", "/p"})
			for i := 0; i < nch && i < len(alpha); i++ {
				p := pre + string(alpha[(i*7+si)%len(alpha)]) + hx.Pick(rnd, []string{"", "/a", "b", "/{y}"})
				if _, err := f.Handle(methods[0], p, rt.Rec); err == nil {
					pats = append(pats, p)
				}
			}
			if _, err := f.Handle(methods[0], pre+"{z}", rt.Rec); err == nil {
				pats = append(pats, pre+"{z}")
			}
			st.Count("set:fanout")
			npat = 0
		}
		if si%12 == 3 || (prop == "C09" && si%12 == 6) {
			// host-extension stream: hostnames that EXTEND each other byte by byte around the host/path
			// boundary: H, H.x, H-y, Hz (and the same below a parameter label), each with the same paths, plus
			// path-only fallbacks: the node where host H ends has the edges '-', '.', '/' and letters side by side
			h0 := hx.Pick(rnd, []string{"shop.example", "a.b", "{t}.shop", "x.{h}.y", "api"})
			exts := []string{"", ".eu", "-beta", "z", ".eu.x", "-beta.y", ".{r}", "-{s}"}
			paths := []string{"/", "/foo", "/{id}"}[:rnd.Range(1, 3)]
			for i := len(exts) - 1; i > 0; i-- {
				j := rnd.Intn(i + 1)
				exts[i], exts[j] = exts[j], exts[i]
			}
			for _, e := range exts[:rnd.Range(3, len(exts))] {
				for _, pp := range paths {
					if _, err := f.Handle(methods[0], h0+e+pp, rt.Rec); err == nil {
						pats = append(pats, h0+e+pp)
					}
				}
			}
			if _, err := f.Handle(methods[0], h0+paths[0], rt.Rec); err == nil {
				pats = append(pats, h0+paths[0])
			}
			if rnd.Pct(60) {
				if _, err := f.Handle(methods[0], paths[0], rt.Rec); err == nil {
					pats = append(pats, paths[0])
				}
			}
			st.Count("set:host-extension")
			npat = 0
		}
		if si%12 == 9 {
			// grown stream: a family sharing a prefix with TWO infix catch-alls (one node key holds both, so its
			// precomputed chain of sub-nodes has two levels), registered one by one, then further writes
			// (Handle / Update / Delete) below that node: every later write walks through, and re-creates, the
			// node, and routing must follow the new children
			base := hx.Pick(rnd, []string{"/*{x}/b/*{y}/c/", "/a/*{x}/b/*{y}/c", "/p/*{x}/q/*{y}/", "h.com/*{x}/b/*{y}/c/", "/{u}/*{x}/b/*{y}/"})
			sufs := []string{"d", "e", "f", "d/g", "{p}", "e/{q}/h", "*{z}", "d/{r}"}
			for i := len(sufs) - 1; i > 0; i-- {
				j := rnd.Intn(i + 1)
				sufs[i], sufs[j] = sufs[j], sufs[i]
			}
			k := rnd.Range(3, 6)
			reg := map[string]bool{}
			for _, sf := range sufs[:k] {
				if _, err := f.Handle(methods[0], base+sf, rt.Rec); err == nil {
					reg[base+sf] = true
				}
			}
			for j := rnd.Range(1, 4); j > 0; j-- {
				var cur []string
				for p := range reg {
					cur = append(cur, p)
				}
				sort.Strings(cur)
				switch rnd.Intn(3) {
				case 0:
					if len(cur) > 0 {
						f.Update(methods[0], hx.Pick(rnd, cur), rt.Rec)
					}
				case 1:
					if len(cur) > 2 {
						p := hx.Pick(rnd, cur)
						if _, err := f.Delete(methods[0], p); err == nil {
							delete(reg, p)
						}
					}
				default:
					p := base + hx.Pick(rnd, sufs[k:])
					if _, err := f.Handle(methods[0], p, rt.Rec); err == nil {
						reg[p] = true
					}
				}
			}
			for p := range reg {
				pats = append(pats, p)
			}
			sort.Strings(pats)
			st.Count("set:grown-double-infix")
			npat = 0
		}
		var targets []string
		if si%3 == 1 && si%12 != 9 {
			// overlap stream: nested backtracking with parameters captured before each backtrack
			ov, target := rt.OverlapSet(rnd, rnd.Range(4, 12))
			hostMode := prop == "C09" || rnd.Pct(35)
			for _, p := range ov {
				if hostMode && rnd.Pct(65) {
					// several hostname variants of the same host shape in one set: static label first,
					// then label parameters, so the host walk itself backtracks
					p = hx.Pick(rnd, []string{"a.b", "{h}.b", "a.{h}", "{g}.{h}", "a.b", "a.{h}"}) + p
				}
				if _, err := f.Handle(methods[0], p, rt.Rec); err == nil {
					pats = append(pats, p)
				}
			}
			targets = []string{target}
			st.Count("set:overlap")
			npat = 0
		}
		for i := 0; i < npat; i++ {
			p := rt.Pattern(rnd, setHostPct)
			m := hx.Pick(rnd, methods)
			if _, err := f.Handle(m, p, rt.Rec); err == nil {
				pats = append(pats, p)
			}
		}
		if len(pats) == 0 {
			continue
		}
		dump := f.VerifDump()
		def := fmt.Sprintf("t%d", si)
		tree := rt.RootsTerm(dump, nil)
		var served []servedReq
		// write-transaction stream: a third of the sets are additionally observed THROUGH an open write
		// transaction holding uncommitted inserts/deletes (Txn.Lookup / Txn.Reverse / Txn.Iter().Reverse must
		// route on the transaction's own state)
		var wtxn *fox.Txn
		wdef, wtree := "", ""
		if si%3 == 2 {
			wtxn = f.Txn(true)
			for k := 0; k < rnd.Range(1, 4); k++ {
				if rnd.Pct(60) {
					p := rt.Pattern(rnd, setHostPct)
					if _, err := wtxn.Handle(methods[0], p, rt.Rec); err == nil {
						pats = append(pats, p)
					}
				} else {
					wtxn.Delete(methods[0], hx.Pick(rnd, pats))
				}
			}
			wdef = fmt.Sprintf("w%d", si)
			wtree = rt.RootsTerm(wtxn.VerifDump(), nil)
			st.Count("set:write-txn")
		}
		for qi := 0; qi < nreq; qi++ {
			var host, path string
			base := hx.Pick(rnd, pats)
			kind := "derived"
			if len(targets) > 0 && rnd.Pct(40) {
				kind = "overlap-target"
				path = targets[0]
				host = hx.Pick(rnd, []string{"", "a.b", "a.b", "x.b", "a.y", "x.y"})
				if rnd.Pct(35) {
					// a prefix of the target, cut at a segment boundary
					segs := strings.Split(strings.TrimPrefix(path, "/"), "/")
					path = "/" + strings.Join(segs[:rnd.Range(1, len(segs))], "/")
				}
				if rnd.Pct(30) {
					path = rt.PerturbPath(rnd, path)
				}
			} else if rnd.Pct(8) {
				kind = "free"
				n := rnd.Range(1, 4)
				for i := 0; i < n; i++ {
					path += "/" + hx.Pick(rnd, []string{"a", "b", "ab", "abc", "c", "x"})
				}
				if rnd.Pct(30) {
					path += "/"
				}
			} else {
				h, p := rt.SplitPattern(rt.Instantiate(rnd, base, false))
				host, path = h, p
				np := 0
				if prop == "C08" {
					if rnd.Pct(60) {
						path = rt.PerturbPath(&hx.Rand{}, path) // deterministic toggle below
					}
				}
				for rnd.Pct(45) && np < 2 {
					path = rt.PerturbPath(rnd, path)
					np++
					kind = "perturbed"
				}
			}
			if prop == "C08" && rnd.Pct(50) {
				if strings.HasSuffix(path, "/") && len(path) > 1 {
					path = path[:len(path)-1]
				} else {
					path += "/"
				}
				kind = "toggled"
			}
			if host != "" || rnd.Pct(15) {
				if rnd.Pct(50) || prop == "C09" && rnd.Pct(60) {
					host = rt.PerturbHost(rnd, host)
				}
			}
			if path == "" {
				path = "/"
			}
			method := hx.Pick(rnd, methods)
			if kind == "overlap-target" {
				method = methods[0]
			}
			key := def + "|" + method + "|" + host + "|" + path
			if seen[key] {
				continue
			}
			seen[key] = true
			lo := rt.Lookup(f, method, host, path)
			rr, rtsr := func() (r *fox.Route, t bool) {
				defer func() { _ = recover() }()
				return f.Reverse(method, host, path)
			}()
			rev := "None"
			if rr != nil {
				rev = "(Some " + hx.Pair(hx.Bytes(rr.Pattern()), hx.Bool(rtsr)) + ")"
			}
			others, odetail := rt.OtherEntryPoints(f, method, host, path, lo, true)
			inSpec := !rt.HasEmptySegment(path) && strings.HasPrefix(path, "/")
			shost := fox.VerifStripHostPort(host)
			term := fmt.Sprintf("(%s, {| q_method := %s; q_rawhost := %s; q_host := %s; q_path := %s; q_lookup := %s; q_reverse := %s; q_spec := %s; q_others := %s |})",
				def, hx.Bytes(method), hx.Bytes(host), hx.Bytes(shost), hx.Bytes(path), lo.Term(), rev, hx.Bool(inSpec), hx.Bool(others))
			human := fmt.Sprintf("routes=%v %s host=%q path=%q => lookup=%+v reverse=(%v,%v) other-entry-points-agree=%v %s", dumpRoutes(f), method, host, path, lo, rr != nil, rtsr, others, odetail)
			cs.AddWithDef(def, tree, term, human)
			served = append(served, servedReq{method, host, shost, path, lo, inSpec})
			if wtxn != nil && qi%2 == 0 {
				wo, wr, wok, wdetail := rt.TxnEntryPoints(wtxn, method, host, path)
				wrev := "None"
				if wr.Found {
					wrev = "(Some " + hx.Pair(hx.Bytes(wr.Pattern), hx.Bool(wr.Tsr)) + ")"
				}
				wterm := fmt.Sprintf("(%s, {| q_method := %s; q_rawhost := %s; q_host := %s; q_path := %s; q_lookup := %s; q_reverse := %s; q_spec := %s; q_others := %s |})",
					wdef, hx.Bytes(method), hx.Bytes(host), hx.Bytes(shost), hx.Bytes(path), wo.Term(), wrev, hx.Bool(inSpec), hx.Bool(wok))
				cs.AddWithDef(wdef, wtree, wterm, fmt.Sprintf("INSIDE A WRITE TRANSACTION with uncommitted writes: %s host=%q path=%q => Txn.Lookup=%+v Txn.Reverse=%+v agree=%v %s", method, host, path, wo, wr, wok, wdetail))
				st.Count("kind:write-txn")
			}
			st.Count("kind:" + kind)
			switch {
			case !lo.Found:
				st.Count("outcome:none")
			case lo.Tsr:
				st.Count("outcome:tsr")
			default:
				st.Count("outcome:direct")
			}
			if host != "" {
				st.Count("host:present")
			}
			st.Count(fmt.Sprintf("params:%d", len(lo.Params)))
			if lo.Found || kind != "free" {
				nontrivial++
			}
			if len(st.Samples) < 8 && lo.Found && len(lo.Params) > 1 && rnd.Pct(3) {
				st.Samples = append(st.Samples, human)
			}
		}
		if wtxn != nil {
			wtxn.Abort()
		}
		// back-to-back ServeHTTP pass: the same requests again, through ServeHTTP ONLY, so that every
		// request runs on the pooled context the previous one left behind (a stale tsr flag, stale
		// params or a stale route in the recycled context shows here and nowhere else)
		for i, q := range served {
			got := rt.ServeObs(f, q.method, q.host, q.path)
			gs := rt.FmtObs(got)
			if got.Panic != "" {
				gs = "panic"
			}
			if exp := rt.ExpectServed(q.lo, q.method, q.path); gs != exp && q.method != "OPTIONS" {
				prev := "(first)"
				if i > 0 {
					prev = fmt.Sprintf("%s %q", served[i-1].method, served[i-1].path)
				}
				term := fmt.Sprintf("(%s, {| q_method := %s; q_rawhost := %s; q_host := %s; q_path := %s; q_lookup := %s; q_reverse := None; q_spec := %s; q_others := false |})",
					def, hx.Bytes(q.method), hx.Bytes(q.host), hx.Bytes(q.shost), hx.Bytes(q.path), q.lo.Term(), hx.Bool(q.inSpec))
				cs.AddWithDef(def, tree, term, fmt.Sprintf("BACK-TO-BACK ServeHTTP: routes=%v; after serving %s, %s host=%q path=%q: handler saw %s, Lookup says %s", dumpRoutes(f), prev, q.method, q.host, q.path, gs, exp))
				st.Count("kind:serve-sequence-disagreement")
			}
		}
		st.Count("pass:serve-sequence")
	}
	if prop == "C01" {
		// own PRNG and appended last: the streams above (and their case indexes) are unchanged by it
		nontrivial += txnIsolation(hx.NewRand(hx.Seed()^0x7c01150a), cs, st, tier)
		st.Rule += "; transaction-isolation stream: nested families (every cut of a random pattern outside braces, short extensions) partly committed, then a cached write transaction (Router.Txn(true) ended by Abort / Commit, Router.Updates failing / succeeding) running Update + Handle/Delete/Update below the updated route (scripted) or random writes; the ROUTER's entry points (and an Iter taken before the transaction) are observed while it is open and after it ended, the transaction's own entry points before it ends; the expected tree is a fresh router filled from the harness' own record of the committed (resp. transaction) set"
	}
	st.Evaluations = cs.Len()
	st.DistinctNontrivial = nontrivial
	if len(st.Samples) == 0 {
		st.Samples = []string{"(no multi-parameter sample drawn)"}
	}
	hx.Fatal(cs.Write(out, shards))
	hx.Fatal(st.Write(out))
	fmt.Printf("c01[%s]: %d cases\n", prop, cs.Len())
}

type servedReq struct {
	method, host, shost, path string
	lo                        rt.Obs
	inSpec                    bool
}

func dumpRoutes(f *fox.Router) []string {
	var out []string
	for m, r := range f.Iter().All() {
		out = append(out, m+" "+r.Pattern())
	}
	return out
}

// ---------- transaction-isolation stream (C01: "on the router and on transactions") ----------

// nestedFamily derives from one random pattern a family of patterns that are byte-wise prefixes /
// extensions of each other (every cut outside braces, plus short extensions of some members), so that
// the node of one member has the others below it.
func nestedFamily(r *hx.Rand) []string {
	base := rt.Pattern(r, 20)
	host, path := rt.SplitPattern(base)
	set := map[string]bool{base: true}
	depth := 0
	for i := 1; i < len(path); i++ {
		switch path[i-1] {
		case '{':
			depth++
		case '}':
			depth--
		}
		if depth == 0 && path[i-1] != '*' && (path[i] == '/' || path[i-1] == '/' || r.Pct(50)) {
			set[host+path[:i]] = true
		}
	}
	var members []string
	for p := range set {
		members = append(members, p)
	}
	sort.Strings(members)
	for _, m := range members {
		for k := r.Range(0, 2); k > 0; k-- {
			sf := hx.Pick(r, []string{"/d", "d", "/{k}", "/d/e", "/", "/*{r}", "{k}", "/d/{k}", "e", "/e"})
			if strings.HasSuffix(m, "/") {
				sf = strings.TrimPrefix(sf, "/") // no empty segment (outside the specification's domain)
			}
			if sf != "" {
				set[m+sf] = true
			}
		}
	}
	members = members[:0]
	for p := range set {
		members = append(members, p)
	}
	sort.Strings(members)
	for i := len(members) - 1; i > 0; i-- {
		j := r.Intn(i + 1)
		members[i], members[j] = members[j], members[i]
	}
	if len(members) > 14 {
		members = members[:14]
	}
	return members
}

type isoReq struct{ method, host, path string }

// freshTree fills a NEW router (Router.Handle only) from the harness' own record of a route set and
// returns its dump as a term; ok=false when the fresh router refuses a recorded route.
func freshTree(set map[string]bool) (term string, keys []string, ok bool) {
	g, err := fox.New(fox.WithIgnoreTrailingSlash(true))
	hx.Fatal(err)
	for k := range set {
		keys = append(keys, k)
	}
	sort.Strings(keys)
	ok = true
	for _, k := range keys {
		m, p, _ := strings.Cut(k, " ")
		if _, err := g.Handle(m, p, rt.Rec); err != nil {
			ok = false
		}
	}
	return rt.RootsTerm(g.VerifDump(), nil), keys, ok
}

func lcaseTerm(def string, q isoReq, lookup string, rev string, inSpec, others bool) string {
	return fmt.Sprintf("(%s, {| q_method := %s; q_rawhost := %s; q_host := %s; q_path := %s; q_lookup := %s; q_reverse := %s; q_spec := %s; q_others := %s |})",
		def, hx.Bytes(q.method), hx.Bytes(q.host), hx.Bytes(fox.VerifStripHostPort(q.host)), hx.Bytes(q.path), lookup, rev, hx.Bool(inSpec), hx.Bool(others))
}

// txnIsolation: route sets observed on the ROUTER while a cached write transaction with uncommitted
// writes is open and after it ended, against the harness' own record of the committed set.
func txnIsolation(rnd *hx.Rand, cs *hx.Cases, st *hx.Stats, tier string) (nontrivial int) {
	nscen, nreq := 70, 8
	if tier == "thorough" {
		nscen, nreq = 400, 12
	}
	for sc := 0; sc < nscen; sc++ {
		f, err := fox.New(fox.WithIgnoreTrailingSlash(true))
		hx.Fatal(err)
		fam := nestedFamily(rnd)
		methods := []string{"GET", "POST"}[:rnd.Range(1, 2)]
		committed := map[string]bool{} // "METHOD pattern", from the results of the harness' own write calls
		for _, p := range fam[:rnd.Range(len(fam)/2, len(fam))] {
			m := methods[0]
			if rnd.Pct(25) {
				m = hx.Pick(rnd, methods)
			}
			if _, err := f.Handle(m, p, rt.Rec); err == nil {
				committed[m+" "+p] = true
			}
		}
		if len(committed) == 0 {
			continue
		}
		early := f.Iter() // an iterator taken BEFORE the transaction: keeps routing on the set committed now
		cur := map[string]bool{}
		for k := range committed {
			cur[k] = true
		}
		curKeys := func() (ks []string) {
			for k := range cur {
				ks = append(ks, k)
			}
			sort.Strings(ks)
			return
		}
		var ops, touched []string
		do := func(txn *fox.Txn, op, key string) {
			m, p, _ := strings.Cut(key, " ")
			var err error
			func() {
				defer func() {
					if r := recover(); r != nil {
						err = fmt.Errorf("panic: %v", r)
					}
				}()
				switch op {
				case "Handle":
					_, err = txn.Handle(m, p, rt.Rec)
				case "Update":
					_, err = txn.Update(m, p, rt.Rec)
				default:
					_, err = txn.Delete(m, p)
				}
			}()
			res := "ok"
			if err != nil {
				res = "refused"
			} else if op == "Handle" {
				cur[key] = true
			} else if op == "Delete" {
				delete(cur, key)
			}
			ops = append(ops, fmt.Sprintf("%s(%s)=%s", op, key, res))
			touched = append(touched, p)
		}
		below := func(key string) (out []string) { // family members extending key's pattern, same method
			m, p, _ := strings.Cut(key, " ")
			for _, q := range fam {
				if q != p && strings.HasPrefix(q, p) {
					out = append(out, m+" "+q)
				}
			}
			return
		}
		scripted := rnd.Pct(65)
		writes := func(txn *fox.Txn) {
			if scripted {
				var cands []string
				for _, k := range curKeys() {
					if len(below(k)) > 0 {
						cands = append(cands, k)
					}
				}
				if len(cands) > 0 {
					k := hx.Pick(rnd, cands)
					do(txn, "Update", k)
					bs := below(k)
					for j := rnd.Range(1, 3); j > 0; j-- {
						b := hx.Pick(rnd, bs)
						switch {
						case !cur[b]:
							do(txn, "Handle", b)
						case rnd.Pct(75):
							do(txn, "Delete", b)
						default:
							do(txn, "Update", b)
						}
					}
					if rnd.Pct(70) {
						return
					}
				}
			}
			for j := rnd.Range(1, 4); j > 0; j-- {
				ks := curKeys()
				switch x := rnd.Intn(3); {
				case x == 0 && len(ks) > 0:
					do(txn, "Update", hx.Pick(rnd, ks))
				case x == 1 && len(ks) > 0:
					do(txn, "Delete", hx.Pick(rnd, ks))
				default:
					do(txn, "Handle", hx.Pick(rnd, methods)+" "+hx.Pick(rnd, fam))
				}
			}
		}
		var reqs []isoReq
		mkReqs := func() {
			// requests: instantiations of the patterns the transaction touched first, then of the rest of
			// the family (committed or not), a few of them perturbed
			order := append(append([]string{}, touched...), fam...)
			seen := map[string]bool{}
			for _, p := range order {
				if len(reqs) >= nreq {
					break
				}
				h, pa := rt.SplitPattern(rt.Instantiate(rnd, p, false))
				if rnd.Pct(20) {
					pa = rt.PerturbPath(rnd, pa)
				}
				if pa == "" {
					pa = "/"
				}
				q := isoReq{methods[0], h, pa}
				if len(methods) > 1 && rnd.Pct(25) {
					q.method = methods[1]
				}
				if k := q.method + "|" + h + "|" + pa; !seen[k] {
					seen[k] = true
					reqs = append(reqs, q)
				}
			}
		}
		openLo := map[isoReq]rt.Obs{}
		mode := rnd.Intn(4)
		modeName := []string{"Router.Txn(true) ... Abort", "Router.Txn(true) ... Commit", "Router.Updates returning an error", "Router.Updates returning nil"}[mode]
		// observeRouter: every entry point of the ROUTER, expected = model/spec on `def` (fresh router filled from `set`)
		observeRouter := func(phase string, set map[string]bool, def string) {
			term, keys, ok := freshTree(set)
			for _, q := range reqs {
				lo := rt.Lookup(f, q.method, q.host, q.path)
				rr, rtsr := func() (r *fox.Route, t bool) {
					defer func() { _ = recover() }()
					return f.Reverse(q.method, q.host, q.path)
				}()
				rev := "None"
				if rr != nil {
					rev = "(Some " + hx.Pair(hx.Bytes(rr.Pattern()), hx.Bool(rtsr)) + ")"
				}
				others, detail := rt.OtherEntryPoints(f, q.method, q.host, q.path, lo, true)
				if _, seen := openLo[q]; !seen {
					openLo[q] = lo
				}
				// the iterator taken before the transaction routes on the set committed then
				func() {
					defer func() {
						if r := recover(); r != nil {
							others, detail = false, detail+" early Iter panicked"
						}
					}()
					want := openLo[q]
					found, pat := false, ""
					for _, r := range early.Reverse(func(yield func(string) bool) { yield(q.method) }, q.host, q.path) {
						found, pat = true, r.Pattern()
					}
					if found != want.Found || (found && pat != want.Pattern) {
						others, detail = false, detail+fmt.Sprintf(" Iter taken before the transaction: Reverse=(%v,%q), committed-then answer %s", found, pat, rt.FmtObs(want))
					}
				}()
				if !ok {
					others, detail = false, detail+" a fresh router refuses a recorded route"
				}
				inSpec := !rt.HasEmptySegment(q.path) && strings.HasPrefix(q.path, "/")
				human := fmt.Sprintf("TXN-ISOLATION committed=%v; %s with writes %v; phase=%s; ROUTER %s host=%q path=%q => lookup=%+v reverse=(%v,%v) other-entry-points-agree=%v %s",
					keys, modeName, ops, phase, q.method, q.host, q.path, lo, rr != nil, rtsr, others, detail)
				cs.AddWithDef(def, term, lcaseTerm(def, q, lo.Term(), rev, inSpec, others), human)
				st.Count("kind:txn-isolation:" + strings.Fields(phase)[0])
				if lo.Found {
					nontrivial++
				}
			}
		}
		// observeTxn: the open transaction's own entry points, expected = model/spec on the fresh router of its set
		observeTxn := func(txn *fox.Txn, def string) {
			term, keys, ok := freshTree(cur)
			for _, q := range reqs {
				wo, wr, wok, wdetail := rt.TxnEntryPoints(txn, q.method, q.host, q.path)
				wrev := "None"
				if wr.Found {
					wrev = "(Some " + hx.Pair(hx.Bytes(wr.Pattern), hx.Bool(wr.Tsr)) + ")"
				}
				inSpec := !rt.HasEmptySegment(q.path) && strings.HasPrefix(q.path, "/")
				human := fmt.Sprintf("TXN-ISOLATION committed before=%v; %s with writes %v; transaction's set=%v; phase=inside; TRANSACTION %s host=%q path=%q => Txn.Lookup=%+v Txn.Reverse=%+v agree=%v %s",
					sortedKeys(committed), modeName, ops, keys, q.method, q.host, q.path, wo, wr, wok && ok, wdetail)
				cs.AddWithDef(def, term, lcaseTerm(def, q, wo.Term(), wrev, inSpec, wok && ok), human)
				st.Count("kind:txn-isolation:inside")
			}
		}
		viewTxn := rnd.Pct(50)
		body := func(txn *fox.Txn) {
			writes(txn)
			mkReqs()
			observeRouter("open (uncommitted writes pending)", committed, fmt.Sprintf("xo%d", sc))
			if viewTxn {
				observeTxn(txn, fmt.Sprintf("xt%d", sc))
			}
		}
		switch mode {
		case 0, 1:
			txn := f.Txn(true)
			body(txn)
			if mode == 0 {
				txn.Abort()
			} else {
				txn.Commit()
			}
		case 2:
			_ = f.Updates(func(txn *fox.Txn) error { body(txn); return errors.New("rolled back by the harness") })
		default:
			_ = f.Updates(func(txn *fox.Txn) error { body(txn); return nil })
		}
		if mode == 1 || mode == 3 {
			observeRouter("after-commit", cur, fmt.Sprintf("xa%d", sc))
		} else {
			observeRouter("after-rollback", committed, fmt.Sprintf("xo%d", sc))
		}
		st.Count("set:txn-isolation")
		if scripted {
			st.Count("set:txn-isolation:update-then-write-below")
		}
	}
	return
}

func sortedKeys(m map[string]bool) []string {
	ks := make([]string, 0, len(m))
	for k := range m {
		ks = append(ks, k)
	}
	sort.Strings(ks)
	return ks
}
