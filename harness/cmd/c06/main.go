// c06: parked-writer experiments on the real router (tie B of C06, runtime only).
//
// For every option set x every stage of a write transaction's life, a writer
// goroutine opens a write transaction on a fresh router and parks there (it
// blocks on a channel the harness controls).  While it is parked every read
// entry point is called; each call must return within a generous timeout.
// Then: a second writer must NOT get the writer lock while the first is
// parked, must get it once the first has ended, and a writer must not be held
// up by unfinished readers (open read-only transaction, half-consumed
// iterators, an unclosed Lookup context).
//
// There are no Coq cases: the harness writes results.json (violations with
// entry point + stage + option set as the replay), stats.json and an empty
// cases.json; checks/C06.py turns the violations into failing inputs.
package main

import (
	"encoding/json"
	"errors"
	"fmt"
	"io"
	"log/slog"
	"net"
	"net/http"
	"net/http/httptest"
	"os"
	"path/filepath"
	"runtime"
	"sort"
	"strconv"
	"strings"
	"sync"
	"sync/atomic"
	"syscall"
	"time"

	"foxverif/hx"

	"github.com/tigerwill90/fox"
)

var timeout = 5 * time.Second

// ---------------------------------------------------------------- option sets

type optSet struct {
	name string
	opts func() []fox.GlobalOption
}

func discardLogger() fox.MiddlewareFunc {
	return fox.LoggerWithHandler(slog.NewTextHandler(io.Discard, &slog.HandlerOptions{Level: slog.LevelDebug}))
}

var optSets = []optSet{
	{"none", func() []fox.GlobalOption { return nil }},
	// Recovery + Logger (pretty handler; fds 1 and 2 of this process are /dev/null) + automatic OPTIONS
	{"DefaultOptions", func() []fox.GlobalOption { return []fox.GlobalOption{fox.DefaultOptions()} }},
	{"redirect-tsr+405+options+logger(io.Discard)", func() []fox.GlobalOption {
		return []fox.GlobalOption{fox.WithRedirectTrailingSlash(true), fox.WithNoMethod(true), fox.WithAutoOptions(true),
			fox.WithMiddleware(fox.Recovery(), discardLogger())}
	}},
	{"ignore-tsr+405+options", func() []fox.GlobalOption {
		return []fox.GlobalOption{fox.WithIgnoreTrailingSlash(true), fox.WithNoMethod(true), fox.WithAutoOptions(true)}
	}},
	{"DefaultOptions+redirect-tsr+405+clientip", func() []fox.GlobalOption {
		return []fox.GlobalOption{fox.DefaultOptions(), fox.WithRedirectTrailingSlash(true), fox.WithNoMethod(true),
			fox.WithClientIPResolver(fox.ClientIPResolverFunc(func(c fox.Context) (*net.IPAddr, error) { return c.RemoteIP(), nil })),
			fox.WithMiddlewareFor(fox.NoRouteHandler|fox.NoMethodHandler|fox.RedirectHandler|fox.OptionsHandler, discardLogger())}
	}},
}

// ---------------------------------------------------------------- handlers / routes

func okHandler(c fox.Context) { _ = c.String(http.StatusOK, "ok %s", c.Pattern()) }

// ctxProbe exercises the Context methods from inside a served request.
func ctxProbe(c fox.Context) {
	n := 0
	for range c.Params() {
		n++
	}
	_ = c.Param("a")
	_, _, _, _ = c.Path(), c.Host(), c.Method(), c.Pattern()
	_ = c.QueryParam("q")
	_ = c.QueryParams()
	_ = c.Header("X-Test")
	c.SetHeader("X-A", "1")
	c.AddHeader("X-A", "2")
	_ = c.Route()
	_ = c.Scope()
	_ = c.RemoteIP()
	_, _ = c.ClientIP()
	_ = c.Request()
	cl := c.Clone()
	_ = cl.Path()
	rec := httptest.NewRecorder()
	cc := c.CloneWith(c.Writer(), c.Request())
	cc.Close()
	_ = rec
	f := c.Fox()
	_ = f.Len()
	_ = f.Has(http.MethodGet, "/foo/bar")
	_, _ = f.Reverse(http.MethodGet, "", "/foo/bar")
	_ = c.Blob(http.StatusOK, "text/plain", []byte(strconv.Itoa(n)))
}

func panicHandler(c fox.Context) { panic("boom (expected by the harness)") }

type routeSpec struct{ method, pattern string }

func baseRoutes(rnd *hx.Rand) []routeSpec {
	rs := []routeSpec{
		{"GET", "/foo/bar"}, {"POST", "/foo/bar"}, {"GET", "/foo/{id}/x"}, {"GET", "/files/*{path}"},
		{"GET", "/tsr/"}, {"GET", "/ctx/{a}/{b}"}, {"GET", "/panic"}, {"GET", "example.com/host/{h}"},
		{"PUT", "/only/put"}, {"DELETE", "/a/b/c/d"},
	}
	for i, n := 0, rnd.Range(3, 40); i < n; i++ {
		rs = append(rs, routeSpec{hx.Pick(rnd, []string{"GET", "POST", "PATCH"}), fmt.Sprintf("/gen/%d/%s/{p%d}", rnd.Intn(6), hx.Pick(rnd, []string{"a", "b", "cc", "d"}), i)})
	}
	return rs
}

func newRouter(ops optSet, routes []routeSpec) (*fox.Router, error) {
	r, err := fox.New(ops.opts()...)
	if err != nil {
		return nil, err
	}
	seen := map[routeSpec]bool{}
	for _, rt := range routes {
		if seen[rt] {
			continue
		}
		seen[rt] = true
		h := okHandler
		switch rt.pattern {
		case "/ctx/{a}/{b}":
			h = ctxProbe
		case "/panic":
			h = panicHandler
		}
		if _, err := r.Handle(rt.method, rt.pattern, h); err != nil && !errors.Is(err, fox.ErrRouteExist) && !errors.Is(err, fox.ErrRouteConflict) {
			return nil, fmt.Errorf("register %s %s: %w", rt.method, rt.pattern, err)
		}
	}
	return r, nil
}

// ---------------------------------------------------------------- router states

// rstate: what the LIVE routing tree looks like when the writer parks. The empty router is a
// boundary of its own (fresh; emptied route by route; emptied by Truncate).
type rstate struct {
	name  string
	build func(ops optSet, rnd *hx.Rand) (*fox.Router, error)
}

var rstates = []rstate{
	{"many-routes", func(ops optSet, rnd *hx.Rand) (*fox.Router, error) { return newRouter(ops, baseRoutes(rnd)) }},
	{"empty-fresh", func(ops optSet, rnd *hx.Rand) (*fox.Router, error) { return newRouter(ops, nil) }},
	{"empty-after-deleting-every-route", func(ops optSet, rnd *hx.Rand) (*fox.Router, error) {
		routes := baseRoutes(rnd)
		r, err := newRouter(ops, routes)
		if err != nil {
			return nil, err
		}
		for _, rt := range routes {
			_, _ = r.Delete(rt.method, rt.pattern)
		}
		if r.Len() != 0 {
			return nil, fmt.Errorf("router not empty after deleting every route: %d left", r.Len())
		}
		return r, nil
	}},
	{"empty-after-Truncate", func(ops optSet, rnd *hx.Rand) (*fox.Router, error) {
		r, err := newRouter(ops, baseRoutes(rnd))
		if err != nil {
			return nil, err
		}
		if err := r.Updates(func(txn *fox.Txn) error { return txn.Truncate() }); err != nil {
			return nil, err
		}
		if r.Len() != 0 {
			return nil, fmt.Errorf("router not empty after Truncate: %d left", r.Len())
		}
		return r, nil
	}},
	{"single-route", func(ops optSet, rnd *hx.Rand) (*fox.Router, error) {
		return newRouter(ops, []routeSpec{hx.Pick(rnd, []routeSpec{{"GET", "/foo/bar"}, {"POST", "/foo/bar"}, {"GET", "/tsr/"}, {"GET", "/files/*{path}"}, {"GET", "/"}})})
	}},
	{"one-method-left-after-Truncate", func(ops optSet, rnd *hx.Rand) (*fox.Router, error) {
		r, err := newRouter(ops, baseRoutes(rnd))
		if err != nil {
			return nil, err
		}
		err = r.Updates(func(txn *fox.Txn) error { return txn.Truncate("GET", "POST", "PATCH", "DELETE") })
		return r, err
	}},
}

// ---------------------------------------------------------------- read entry points

type readEntry struct {
	name string
	run  func(r *fox.Router) string // returns an observation (status code ...) for the distribution
}

func serve(method, target, host string) func(r *fox.Router) string {
	return func(r *fox.Router) string {
		req := httptest.NewRequest(method, target, nil)
		if host != "" {
			req.Host = host
		}
		w := httptest.NewRecorder()
		r.ServeHTTP(w, req)
		return "status=" + strconv.Itoa(w.Code)
	}
}

func drain2[K, V any](seq func(yield func(K, V) bool)) int {
	n := 0
	for range seq {
		n++
	}
	return n
}

func drain1[K any](seq func(yield func(K) bool)) int {
	n := 0
	for range seq {
		n++
	}
	return n
}

func txnReads(txn *fox.Txn) string {
	_ = txn.Has("GET", "/foo/bar")
	_ = txn.Route("GET", "/foo/{id}/x")
	_, _ = txn.Reverse("GET", "", "/foo/42/x")
	req := httptest.NewRequest("GET", "/files/a/b/c", nil)
	_, cc, _ := txn.Lookup(fox.NewTestContextOnly(httptest.NewRecorder(), req).Writer(), req)
	if cc != nil {
		cc.Close()
	}
	n := txn.Len()
	it := txn.Iter()
	m := drain2(it.All()) + drain1(it.Methods()) + drain2(it.Prefix(it.Methods(), "/foo")) +
		drain2(it.Routes(it.Methods(), "/foo/bar")) + drain2(it.Reverse(it.Methods(), "", "/foo/bar"))
	if _, err := txn.Handle("GET", "/must/fail", okHandler); !errors.Is(err, fox.ErrReadOnlyTxn) {
		return fmt.Sprintf("UNEXPECTED: write on read-only txn returned %v", err)
	}
	if err := txn.Truncate(); !errors.Is(err, fox.ErrReadOnlyTxn) {
		return fmt.Sprintf("UNEXPECTED: truncate on read-only txn returned %v", err)
	}
	_ = txn.Snapshot()
	return fmt.Sprintf("len=%d iter=%d", n, m)
}

func readEntries() []readEntry {
	return []readEntry{
		{"ServeHTTP/direct", serve("GET", "/foo/bar", "")},
		{"ServeHTTP/param", serve("GET", "/foo/123/x?q=1", "")},
		{"ServeHTTP/catchall", serve("GET", "/files/a/b/c.txt", "")},
		{"ServeHTTP/host", serve("GET", "/host/abc", "example.com")},
		{"ServeHTTP/tsr-remove-slash", serve("GET", "/foo/bar/", "")},
		{"ServeHTTP/tsr-add-slash", serve("GET", "/tsr", "")},
		{"ServeHTTP/tsr-post", serve("POST", "/foo/bar/", "")},
		{"ServeHTTP/404", serve("GET", "/nope/nothing", "")},
		{"ServeHTTP/root", serve("GET", "/", "")},
		{"ServeHTTP/HEAD", serve("HEAD", "/foo/bar", "")},
		{"ServeHTTP/CONNECT-404", serve("CONNECT", "/foo/bar/", "")},
		{"ServeHTTP/unclean-path", serve("GET", "/foo//bar/../bar/", "")},
		{"ServeHTTP/404-other-host", serve("GET", "/nothing/here", "other.example.org")},
		{"ServeHTTP/405", serve("PATCH", "/foo/bar", "")},
		{"ServeHTTP/OPTIONS", serve("OPTIONS", "/foo/bar", "")},
		{"ServeHTTP/OPTIONS*", func(r *fox.Router) string {
			req := httptest.NewRequest("OPTIONS", "/", nil)
			req.URL.Path, req.RequestURI = "*", "*"
			w := httptest.NewRecorder()
			r.ServeHTTP(w, req)
			return "status=" + strconv.Itoa(w.Code)
		}},
		{"ServeHTTP/OPTIONS-404", serve("OPTIONS", "/nope", "")},
		{"ServeHTTP/context-methods", serve("GET", "/ctx/1/2?q=z", "")},
		{"ServeHTTP/panic-recovered", func(r *fox.Router) (obs string) {
			defer func() {
				if p := recover(); p != nil {
					obs = "panicked-through"
				}
			}()
			return serve("GET", "/panic", "")(r)
		}},
		{"Lookup", func(r *fox.Router) string {
			req := httptest.NewRequest("GET", "/foo/9/x", nil)
			rt, cc, tsr := r.Lookup(fox.NewTestContextOnly(httptest.NewRecorder(), req).Writer(), req)
			if cc != nil {
				cc.Close()
			}
			return fmt.Sprintf("found=%v tsr=%v", rt != nil, tsr)
		}},
		{"Lookup/miss", func(r *fox.Router) string {
			req := httptest.NewRequest("GET", "/zzz", nil)
			rt, cc, _ := r.Lookup(fox.NewTestContextOnly(httptest.NewRecorder(), req).Writer(), req)
			if cc != nil {
				cc.Close()
			}
			return fmt.Sprintf("found=%v", rt != nil)
		}},
		{"Reverse", func(r *fox.Router) string {
			rt, tsr := r.Reverse("GET", "example.com", "/host/x")
			return fmt.Sprintf("found=%v tsr=%v", rt != nil, tsr)
		}},
		{"Has", func(r *fox.Router) string { return fmt.Sprint(r.Has("GET", "/foo/bar"), r.Has("GET", "/w/new0")) }},
		{"Route", func(r *fox.Router) string { return fmt.Sprint(r.Route("GET", "/files/*{path}") != nil) }},
		{"Len", func(r *fox.Router) string { return "len=" + strconv.Itoa(r.Len()) }},
		{"Stats", func(r *fox.Router) string { return fmt.Sprint(r.Stats().AutoOptions) }},
		{"NewRoute", func(r *fox.Router) string {
			_, err := r.NewRoute("/x/{y}", okHandler)
			return fmt.Sprint(err == nil)
		}},
		{"Iter/All", func(r *fox.Router) string { return "n=" + strconv.Itoa(drain2(r.Iter().All())) }},
		{"Iter/Methods", func(r *fox.Router) string { return "n=" + strconv.Itoa(drain1(r.Iter().Methods())) }},
		{"Iter/Prefix", func(r *fox.Router) string {
			it := r.Iter()
			return "n=" + strconv.Itoa(drain2(it.Prefix(it.Methods(), "/foo")))
		}},
		{"Iter/Routes", func(r *fox.Router) string {
			it := r.Iter()
			return "n=" + strconv.Itoa(drain2(it.Routes(it.Methods(), "/foo/bar")))
		}},
		{"Iter/Reverse", func(r *fox.Router) string {
			it := r.Iter()
			return "n=" + strconv.Itoa(drain2(it.Reverse(it.Methods(), "", "/foo/bar/")))
		}},
		{"Txn(false)+Commit", func(r *fox.Router) string {
			txn := r.Txn(false)
			txn.Commit()
			return "ok"
		}},
		{"Txn(false)+Abort", func(r *fox.Router) string {
			txn := r.Txn(false)
			defer txn.Abort()
			return "ok"
		}},
		{"Txn(false)+reads+Commit", func(r *fox.Router) string {
			txn := r.Txn(false)
			defer txn.Commit()
			return txnReads(txn)
		}},
		{"Txn(false)+reads+Abort", func(r *fox.Router) string {
			txn := r.Txn(false)
			defer txn.Abort()
			return txnReads(txn)
		}},
		{"Txn(false)/unfinalised", func(r *fox.Router) string {
			_ = r.Txn(false).Len() // never committed nor aborted: still must not hold anything
			return "ok"
		}},
		{"View", func(r *fox.Router) string {
			var obs string
			_ = r.View(func(txn *fox.Txn) error { obs = txnReads(txn); return nil })
			return obs
		}},
		{"View/error", func(r *fox.Router) string {
			err := r.View(func(txn *fox.Txn) error { _ = txn.Len(); return errors.New("x") })
			return fmt.Sprint(err != nil)
		}},
		{"Route.Handle", func(r *fox.Router) string {
			rt := r.Route("GET", "/foo/bar")
			if rt == nil {
				return "no route"
			}
			req := httptest.NewRequest("GET", "/foo/bar", nil)
			w := httptest.NewRecorder()
			c := fox.NewTestContextOnly(w, req)
			rt.Handle(c)
			rt.HandleMiddleware(c)
			return "status=" + strconv.Itoa(w.Code)
		}},
	}
}

// ---------------------------------------------------------------- writer stages

type stage struct {
	name string
	// run opens a write transaction, reaches the stage, calls park(txn) (which hands snapshots of the open write
	// transaction to the readers, then blocks until released) and then ends the transaction.
	run func(r *fox.Router, rnd *hx.Rand, park func(txn *fox.Txn))
}

func someWrites(txn *fox.Txn, rnd *hx.Rand) {
	for i, n := 0, rnd.Range(1, 6); i < n; i++ {
		_, _ = txn.Handle("GET", fmt.Sprintf("/w/new%d", i), okHandler)
	}
	_, _ = txn.Update("GET", "/foo/bar", okHandler)
	_, _ = txn.Delete("DELETE", "/a/b/c/d")
	if rnd.Pct(30) {
		_ = txn.Truncate("PUT")
	}
}

var stages = []stage{
	{"just-opened", func(r *fox.Router, rnd *hx.Rand, park func(txn *fox.Txn)) {
		txn := r.Txn(true)
		park(txn)
		if rnd.Bool() {
			txn.Commit()
		} else {
			txn.Abort()
		}
	}},
	{"after-uncommitted-writes", func(r *fox.Router, rnd *hx.Rand, park func(txn *fox.Txn)) {
		txn := r.Txn(true)
		defer txn.Abort()
		someWrites(txn, rnd)
		park(txn)
		if rnd.Bool() {
			txn.Commit()
		}
	}},
	{"inside-Updates", func(r *fox.Router, rnd *hx.Rand, park func(txn *fox.Txn)) {
		fail := rnd.Bool()
		_ = r.Updates(func(txn *fox.Txn) error {
			someWrites(txn, rnd)
			park(txn)
			if fail {
				return errors.New("abort")
			}
			return nil
		})
	}},
	{"after-Snapshot", func(r *fox.Router, rnd *hx.Rand, park func(txn *fox.Txn)) {
		txn := r.Txn(true)
		defer txn.Abort()
		someWrites(txn, rnd)
		snap := txn.Snapshot()
		_ = snap.Len()
		_ = drain2(snap.Iter().All())
		someWrites(txn, rnd)
		park(txn)
		_ = snap.Has("GET", "/foo/bar")
		txn.Commit()
	}},
	{"while-iterating-the-write-txn", func(r *fox.Router, rnd *hx.Rand, park func(txn *fox.Txn)) {
		txn := r.Txn(true)
		defer txn.Abort()
		someWrites(txn, rnd)
		first := true
		for range txn.Iter().All() {
			if first {
				first = false
				park(txn)
			}
		}
		if first {
			park(txn)
		}
		txn.Commit()
	}},
}

// ---------------------------------------------------------------- experiments

type violation struct {
	Kind   string `json:"kind"`
	Entry  string `json:"entry"`
	Stage  string `json:"stage"`
	State  string `json:"router_state"`
	Opts   string `json:"options"`
	Detail string `json:"detail"`
}

type result struct {
	mu         sync.Mutex
	violations []violation
	samples    []string
	dist       map[string]int
	distinct   map[string]bool
	evals      int
	hangs      map[string]int
}

func (rs *result) violate(v violation) {
	rs.mu.Lock()
	rs.violations = append(rs.violations, v)
	rs.mu.Unlock()
}

func within(d time.Duration, f func()) (time.Duration, bool, any) {
	done := make(chan any, 1)
	t0 := time.Now()
	go func() {
		defer func() { done <- recover() }()
		f()
	}()
	select {
	case p := <-done:
		return time.Since(t0), true, p
	case <-time.After(d):
		return time.Since(t0), false, nil
	}
}

func runSetup(ops optSet, st stage, rst rstate, rnd *hx.Rand, rs *result, round int) {
	r, err := rst.build(ops, rnd)
	if err != nil {
		rs.violate(violation{"harness-error", "-", st.name, rst.name, ops.name, err.Error()})
		return
	}
	parked := make(chan struct{})
	release := make(chan struct{})
	ended := make(chan struct{})
	wr := rnd.Fork()
	var snaps []*fox.Txn // snapshots of the OPEN write transaction, taken by the writer goroutine for the readers
	go func() {
		defer close(ended)
		defer func() {
			if p := recover(); p != nil {
				rs.violate(violation{"writer-panicked", "Commit/Abort", st.name, rst.name, ops.name,
					fmt.Sprintf("the write transaction panicked while finishing: %v", p)})
			}
		}()
		st.run(r, wr, func(txn *fox.Txn) {
			for i := 0; i < 3; i++ {
				snaps = append(snaps, txn.Snapshot())
			}
			close(parked)
			<-release
		})
	}()
	select {
	case <-parked:
	case <-time.After(timeout):
		rs.violate(violation{"harness-error", "-", st.name, rst.name, ops.name, "the writer did not reach its parking point"})
		return
	}
	baseLen := r.Len()

	// second writer: must stay blocked while the first is parked
	var acquired atomic.Bool
	second := make(chan struct{})
	go func() {
		t2 := r.Txn(true)
		acquired.Store(true)
		t2.Abort()
		close(second)
	}()

	// every read entry point, concurrently, while the writer is parked
	entries := readEntries()
	order := make([]int, len(entries))
	for i := range order {
		order[i] = i
	}
	for i := len(order) - 1; i > 0; i-- {
		j := rnd.Intn(i + 1)
		order[i], order[j] = order[j], order[i]
	}
	var wg sync.WaitGroup
	for _, ix := range order {
		e := entries[ix]
		rs.mu.Lock()
		skip := rs.hangs[e.name] >= 2 // already reported twice: do not pay the timeout again
		rs.mu.Unlock()
		if skip {
			continue
		}
		wg.Add(1)
		go func() {
			defer wg.Done()
			var obs string
			d, ok, p := within(timeout, func() { obs = e.run(r) })
			key := fmt.Sprintf("opts=%s router=%s stage=%s read=%s", ops.name, rst.name, st.name, e.name)
			rs.mu.Lock()
			rs.evals++
			switch {
			case !ok:
				rs.hangs[e.name]++
				rs.violations = append(rs.violations, violation{"read-did-not-complete", e.name, st.name, rst.name, ops.name,
					fmt.Sprintf("%s did not return within %v while a write transaction was parked at stage %q on a router in state %q (options %s)", e.name, timeout, st.name, rst.name, ops.name)})
			case p != nil:
				rs.violations = append(rs.violations, violation{"read-panicked", e.name, st.name, rst.name, ops.name, fmt.Sprint(p)})
			case strings.HasPrefix(obs, "UNEXPECTED"):
				rs.violations = append(rs.violations, violation{"read-wrong-result", e.name, st.name, rst.name, ops.name, obs})
			default:
				rs.distinct[key] = true
				rs.dist["read:"+e.name]++
				if strings.HasPrefix(obs, "status=") {
					rs.dist[e.name+" "+obs]++
				}
				if len(rs.samples) < 12 && (rs.evals%37 == 1) {
					rs.samples = append(rs.samples, fmt.Sprintf("%s -> completed in %v (%s) while the writer stayed parked", key, d.Round(time.Microsecond), obs))
				}
			}
			rs.mu.Unlock()
		}()
	}
	wg.Wait()

	// a reader uses snapshots of the WRITER's open transaction (read-only by contract) and finalises one of
	// them the way the Txn documentation asks for; this must not touch the writer lock nor publish anything
	fin := hx.Pick(rnd, []string{"Abort", "Commit", "Commit+Abort"})
	var sobs string
	_, sok, sp := within(timeout, func() {
		for _, sn := range snaps {
			if sn == nil {
				sobs = "UNEXPECTED: Snapshot() of an open write transaction returned nil"
				return
			}
		}
		sobs = txnReads(snaps[0])
		_ = snaps[1].Len()
		_ = drain2(snaps[1].Iter().All())
		wrong := sobs
		switch fin { // exactly one snapshot is finalised per setup
		case "Abort":
			snaps[0].Abort()
		case "Commit":
			snaps[0].Commit()
		default:
			snaps[0].Commit()
			snaps[0].Abort()
		}
		if strings.HasPrefix(wrong, "UNEXPECTED") {
			return
		}
		if n := r.Len(); n != baseLen {
			sobs = fmt.Sprintf("UNEXPECTED: finalising (%s) a snapshot of an open write transaction changed the live router: Len %d -> %d", fin, baseLen, n)
		}
	})
	rs.mu.Lock()
	rs.evals++
	rs.mu.Unlock()
	sname := "Snapshot-of-open-write-txn+reads+" + fin
	switch {
	case !sok:
		rs.violate(violation{"read-did-not-complete", sname, st.name, rst.name, ops.name, "reading / finalising a snapshot of the open write transaction did not return within the timeout"})
	case sp != nil:
		rs.violate(violation{"read-panicked", sname, st.name, rst.name, ops.name, fmt.Sprint(sp)})
	case strings.HasPrefix(sobs, "UNEXPECTED"):
		rs.violate(violation{"read-wrong-result", sname, st.name, rst.name, ops.name, sobs})
	default:
		rs.mu.Lock()
		rs.dist["read:"+sname]++
		rs.distinct[fmt.Sprintf("opts=%s router=%s stage=%s read=%s", ops.name, rst.name, st.name, sname)] = true
		rs.mu.Unlock()
	}

	// the writer is still parked, the second writer still waits
	time.Sleep(20 * time.Millisecond)
	rs.mu.Lock()
	rs.evals++
	rs.mu.Unlock()
	if acquired.Load() {
		rs.violate(violation{"second-writer-not-blocked", "Txn(true) after " + sname, st.name, rst.name, ops.name,
			"a second write transaction was opened while the first one was still open: the writer lock was released by something that is not the writer (readers ran every read entry point and finalised a snapshot of the open write transaction)"})
		return // do not let the first writer unlock a mutex it no longer holds (fatal error in the Go runtime)
	} else {
		rs.mu.Lock()
		rs.dist["second-writer-blocked-while-first-parked"]++
		rs.mu.Unlock()
	}
	select {
	case <-ended:
		rs.violate(violation{"harness-error", "-", st.name, rst.name, ops.name, "the parked writer ended before being released"})
	default:
	}

	// release: the first writer ends, then the second must get the lock (writers wait only for writers)
	close(release)
	select {
	case <-ended:
	case <-time.After(timeout):
		rs.violate(violation{"writer-did-not-end", "-", st.name, rst.name, ops.name, "the released writer did not finish"})
		return
	}
	rs.mu.Lock()
	rs.evals++
	rs.mu.Unlock()
	select {
	case <-second:
		rs.mu.Lock()
		rs.dist["second-writer-proceeds-after-first-ends"]++
		rs.mu.Unlock()
	case <-time.After(timeout):
		rs.violate(violation{"writer-blocked-by-non-writer", "Txn(true)", st.name, rst.name, ops.name,
			"no write transaction is open any more, yet a writer is still waiting (something other than a writer holds the writer lock)"})
		return
	}

	// a writer is not held up by unfinished readers
	rtx := r.Txn(false)
	_ = rtx.Len()
	it := r.Iter()
	next, stop := iterPull(it.All())
	next()
	req := httptest.NewRequest("GET", "/foo/bar", nil)
	_, cc, _ := r.Lookup(fox.NewTestContextOnly(httptest.NewRecorder(), req).Writer(), req)
	_, ok, _ := within(timeout, func() {
		_, _ = r.Handle("GET", fmt.Sprintf("/after/%d", round), okHandler)
		_ = r.Updates(func(txn *fox.Txn) error { _, err := txn.Delete("GET", fmt.Sprintf("/after/%d", round)); return err })
	})
	rs.mu.Lock()
	rs.evals++
	rs.mu.Unlock()
	if !ok {
		rs.violate(violation{"writer-blocked-by-readers", "Handle", st.name, rst.name, ops.name,
			"a write did not complete while only readers (open read-only txn, half-consumed iterator, unclosed Lookup context) were outstanding"})
	} else {
		rs.mu.Lock()
		rs.dist["writer-proceeds-with-unfinished-readers"]++
		rs.mu.Unlock()
	}
	stop()
	if cc != nil {
		cc.Close()
	}
	rtx.Abort()
}

// iterPull is iter.Pull2 specialised (keeps the harness free of generics over fox types in signatures)
func iterPull(seq func(yield func(string, *fox.Route) bool)) (next func() bool, stop func()) {
	type item struct{}
	ch := make(chan item)
	done := make(chan struct{})
	var once sync.Once
	go func() {
		defer close(ch)
		seq(func(string, *fox.Route) bool {
			select {
			case ch <- item{}:
				return true
			case <-done:
				return false
			}
		})
	}()
	return func() bool { _, ok := <-ch; return ok }, func() { once.Do(func() { close(done) }) }
}

// hammer: many readers run continuously while a writer is parked; every one of them must keep making progress.
func hammer(ops optSet, st stage, rst rstate, rnd *hx.Rand, rs *result, dur time.Duration) {
	r, err := rst.build(ops, rnd)
	if err != nil {
		return
	}
	parked, release, ended := make(chan struct{}), make(chan struct{}), make(chan struct{})
	wr := rnd.Fork()
	go func() { defer close(ended); st.run(r, wr, func(*fox.Txn) { close(parked); <-release }) }()
	select {
	case <-parked:
	case <-time.After(timeout):
		rs.violate(violation{"harness-error", "-", st.name, rst.name, ops.name, "the writer did not reach its parking point (hammer)"})
		return
	}
	entries := readEntries()
	n := runtime.GOMAXPROCS(0) * 2
	counts := make([]atomic.Int64, n)
	stopAt := time.Now().Add(dur)
	var wg sync.WaitGroup
	for g := 0; g < n; g++ {
		wg.Add(1)
		lr := rnd.Fork()
		go func() {
			defer wg.Done()
			for time.Now().Before(stopAt) {
				e := entries[lr.Intn(len(entries))]
				func() {
					defer func() { _ = recover() }()
					e.run(r)
				}()
				counts[g].Add(1)
			}
		}()
	}
	_, ok, _ := within(dur+timeout, wg.Wait)
	total := int64(0)
	for g := range counts {
		total += counts[g].Load()
	}
	rs.mu.Lock()
	rs.evals += int(total)
	rs.dist["hammer-reads"] += int(total)
	rs.mu.Unlock()
	if !ok {
		rs.violate(violation{"read-did-not-complete", "hammer(random read entry points)", st.name, rst.name, ops.name,
			fmt.Sprintf("%d concurrent readers did not all finish within %v of their deadline while a writer was parked", n, timeout)})
	}
	close(release)
	<-ended
}

func main() {
	args := hx.Args()
	out := args["out"]
	tier := args["tier"]
	if out == "" {
		hx.Fatal(errors.New("usage: c06 out=<dir> tier=quick|thorough"))
	}
	hx.Fatal(os.MkdirAll(out, 0o755))
	if v := os.Getenv("VERIF_C06_TIMEOUT_MS"); v != "" {
		timeout = time.Duration(hx.Atoi(v, 5000)) * time.Millisecond
	}
	// the pretty log handler of DefaultOptions writes to fds 1 and 2: send them to /dev/null
	if dn, err := os.OpenFile(os.DevNull, os.O_WRONLY, 0); err == nil {
		_ = syscall.Dup3(int(dn.Fd()), 1, 0)
		_ = syscall.Dup3(int(dn.Fd()), 2, 0)
	}
	rnd := hx.NewRand(hx.Seed())
	rs := &result{dist: map[string]int{}, distinct: map[string]bool{}, hangs: map[string]int{}, violations: []violation{}}

	rounds := 1
	if tier == "thorough" {
		rounds = 12
	}
	t0 := time.Now()
	var wg sync.WaitGroup
	sem := make(chan struct{}, 16)
	for round := 0; round < rounds; round++ {
		for _, ops := range optSets {
			for _, st := range stages {
				for _, rst := range rstates {
					wg.Add(1)
					lr := rnd.Fork()
					sem <- struct{}{}
					go func() {
						defer wg.Done()
						defer func() { <-sem }()
						runSetup(ops, st, rst, lr, rs, round)
					}()
				}
			}
		}
	}
	wg.Wait()
	hamDur := 150 * time.Millisecond
	if tier == "thorough" {
		hamDur = 1500 * time.Millisecond
	}
	if len(rs.violations) == 0 { // a hanging read has been reported already: no need to pay more timeouts
		var hw sync.WaitGroup
		for i, ops := range optSets {
			hw.Add(1)
			st, lr := stages[(i+int(rnd.Intn(len(stages))))%len(stages)], rnd.Fork()
			rst := rstates[(i+int(rnd.Intn(len(rstates))))%len(rstates)]
			go func() {
				defer hw.Done()
				hammer(ops, st, rst, lr, rs, hamDur)
			}()
		}
		hw.Wait()
	}

	sort.Slice(rs.violations, func(i, j int) bool {
		a, b := rs.violations[i], rs.violations[j]
		return a.Kind+a.Entry+a.Stage+a.State+a.Opts < b.Kind+b.Entry+b.Stage+b.State+b.Opts
	})
	st := &hx.Stats{
		Evaluations:        rs.evals,
		DistinctNontrivial: len(rs.distinct),
		Rule: "experiment = one call of a read entry point on the real router while a write transaction is parked (option set x router state [many routes / empty fresh / emptied by Delete / emptied by Truncate / single route / one method left] x writer stage x read entry point, routes and writer actions drawn from VERIF_SEED), " +
			"plus per setup: a reader reads 3 snapshots of the OPEN write transaction and finalises one (Abort / Commit / both), second writer stays blocked / proceeds after the first ends / a writer proceeds with unfinished readers, plus a hammer of concurrent random reads; " +
			"distinct non-trivial = distinct (option set, router state, stage, read entry point) tuples whose read completed while the writer was verifiably still parked",
		Distribution: rs.dist,
		Samples:      rs.samples,
		Exhaustive:   false,
		Extra: map[string]any{"option_sets": len(optSets), "router_states": len(rstates), "stages": len(stages), "read_entry_points": len(readEntries()),
			"timeout_ms": timeout.Milliseconds(), "rounds": rounds, "harness_wall_ms": time.Since(t0).Milliseconds(), "violations": len(rs.violations)},
	}
	hx.Fatal(st.Write(out))
	hx.Fatal(os.WriteFile(filepath.Join(out, "cases.json"), []byte("[]"), 0o644))
	b, _ := json.MarshalIndent(map[string]any{"violations": rs.violations, "experiments": rs.evals}, "", " ")
	hx.Fatal(os.WriteFile(filepath.Join(out, "results.json"), b, 0o644))
}
