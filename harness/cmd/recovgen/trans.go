package main

import (
	"fmt"
	"go/ast"
	"go/constant"
	"go/token"
	"go/types"
	"strings"
)

// how a Go local is represented (coq/C15/RecSem.v, Types.v)
type kind int

const (
	kBytes     kind = iota // []byte / string: bytes
	kBuilder               // strings.Builder: bytes (what has been written)
	kZ                     // int: Z
	kBool                  // bool
	kPval                  // any holding a recovered panic value: pval
	kErr                   // error / *net.OpError / *os.SyscallError known not to be nil: err
	kAttr                  // slog.Attr: attr
	kParams                // []any of slog.String attributes: list (bytes * bytes)
	kSysTarget             // var se *os.SyscallError before errors.As(.., &se): no value yet
)

type lv struct {
	name string
	k    kind
	dead bool // bound by a comma-ok form that failed on this path
}

type tr struct {
	mode        string // "recovery" | "bool" | "handle"
	vars        map[types.Object]*lv
	idxOf       map[types.Object]types.Object // idx := bytes.IndexByte(s, ..): idx -> s
	nonneg      map[types.Object]bool         // idx < 0 excluded on this path
	routeNonNil bool                          // inside if c.Route() != nil
	ctx         types.Object                  // the Context parameter
	logger      types.Object
	handle      types.Object
	funcTail    string
	loopTail    string
	recoverUsed bool
}

const foxPath = "github.com/tigerwill90/fox"

func newTr(mode, tail string) *tr {
	return &tr{mode: mode, funcTail: tail, vars: map[types.Object]*lv{}, idxOf: map[types.Object]types.Object{}, nonneg: map[types.Object]bool{}}
}

func obj(id *ast.Ident) types.Object {
	if o := info.Uses[id]; o != nil {
		return o
	}
	return info.Defs[id]
}

func (t *tr) declare(id *ast.Ident, k kind) string {
	if id.Name == "_" {
		return "_"
	}
	o := info.Defs[id]
	if o == nil {
		refuse(id.Pos(), "%s is not a new variable here", id.Name)
	}
	v := &lv{name: "v_" + id.Name, k: k}
	t.vars[o] = v
	return v.name
}

func (t *tr) local(e ast.Expr, ks ...kind) *lv {
	id, ok := ast.Unparen(e).(*ast.Ident)
	if !ok {
		refuse(e.Pos(), "a local variable is expected here, not %s", src(e))
	}
	v := t.vars[obj(id)]
	if v == nil {
		refuse(e.Pos(), "%s is not a local the translation knows", id.Name)
	}
	if v.dead {
		refuse(e.Pos(), "%s is read on a path where its comma-ok binding failed (nil / zero value)", id.Name)
	}
	for _, k := range ks {
		if v.k == k {
			return v
		}
	}
	refuse(e.Pos(), "%s does not have the representation needed here", id.Name)
	return nil
}

func isLocal(e ast.Expr) bool {
	_, ok := ast.Unparen(e).(*ast.Ident)
	return ok
}

// callee of a package-level function / builtin call: ("net/http", "Error"), ("builtin", "panic")
func callee(call *ast.CallExpr) (string, string) {
	switch f := ast.Unparen(call.Fun).(type) {
	case *ast.Ident:
		switch o := info.Uses[f].(type) {
		case *types.Builtin:
			return "builtin", o.Name()
		case *types.Func:
			if o.Pkg() != nil {
				return o.Pkg().Path(), o.Name()
			}
		}
	case *ast.SelectorExpr:
		if o, ok := info.Uses[f.Sel].(*types.Func); ok && info.Selections[f] == nil && o.Pkg() != nil {
			return o.Pkg().Path(), o.Name()
		}
	}
	return "", ""
}

func isCall(e ast.Expr, path, name string, nargs int) *ast.CallExpr {
	c, ok := ast.Unparen(e).(*ast.CallExpr)
	if !ok {
		return nil
	}
	p, n := callee(c)
	if p != path || n != name || len(c.Args) != nargs {
		return nil
	}
	return c
}

// method call: receiver expression and method name
func method(e ast.Expr) (ast.Expr, string, *ast.CallExpr) {
	c, ok := ast.Unparen(e).(*ast.CallExpr)
	if !ok {
		return nil, "", nil
	}
	sel, ok := c.Fun.(*ast.SelectorExpr)
	if !ok {
		return nil, "", nil
	}
	if s := info.Selections[sel]; s == nil || s.Kind() != types.MethodVal {
		return nil, "", nil
	}
	return sel.X, sel.Sel.Name, c
}

// c.<name>() on the Context parameter
func (t *tr) ctxCall(e ast.Expr, name string) bool {
	recv, m, c := method(e)
	if c == nil || m != name || len(c.Args) != 0 {
		return false
	}
	id, ok := ast.Unparen(recv).(*ast.Ident)
	return ok && t.ctx != nil && obj(id) == t.ctx
}

func constOf(e ast.Expr) constant.Value {
	if tv, ok := info.Types[e]; ok {
		return tv.Value
	}
	return nil
}

func coqBytes(s string) string {
	plain := true
	for i := 0; i < len(s); i++ {
		if (s[i] < 32 || s[i] > 126) && s[i] != '\n' {
			plain = false
		}
	}
	if plain {
		return `(S2B "` + strings.ReplaceAll(s, `"`, `""`) + `")`
	}
	var p []string
	for i := 0; i < len(s); i++ {
		p = append(p, fmt.Sprint(s[i]))
	}
	return "(B [" + strings.Join(p, "; ") + "]%N)"
}

func coqZ(n int64) string {
	if n < 0 {
		return fmt.Sprintf("(%d)", n)
	}
	return fmt.Sprint(n)
}

// ---------------------------------------------------------------- the separator variable

var (
	sepObj   types.Object
	sepValue string
	sepKnown bool
)

func sepSpec() *ast.ValueSpec {
	for _, f := range files {
		for _, d := range f.Decls {
			gd, ok := d.(*ast.GenDecl)
			if !ok || gd.Tok != token.VAR {
				continue
			}
			for _, s := range gd.Specs {
				vs := s.(*ast.ValueSpec)
				for _, n := range vs.Names {
					if n.Name == "reqHeaderSep" {
						return vs
					}
				}
			}
		}
	}
	panic(refusal{"package variable reqHeaderSep not found"})
}

func genSep() string {
	vs := sepSpec()
	if len(vs.Names) != 1 || len(vs.Values) != 1 {
		refuse(vs.Pos(), "reqHeaderSep: one name with one initialiser is expected")
	}
	conv, ok := vs.Values[0].(*ast.CallExpr)
	if !ok || len(conv.Args) != 1 || !info.Types[conv.Fun].IsType() || typeStr(info.TypeOf(conv.Fun)) != "[]byte" {
		refuse(vs.Pos(), "reqHeaderSep: initialiser is not []byte(<constant string>): %s", src(vs.Values[0]))
	}
	cv := constOf(conv.Args[0])
	if cv == nil || cv.Kind() != constant.String {
		refuse(vs.Pos(), "reqHeaderSep: initialiser is not []byte(<constant string>): %s", src(vs.Values[0]))
	}
	o := info.Defs[vs.Names[0]]
	// the variable must be read only inside recovery() (no other function can store into it)
	rec := fn("recovery")
	for id, u := range info.Uses {
		if u == o && (id.Pos() < rec.Body.Pos() || id.Pos() > rec.Body.End()) {
			refuse(id.Pos(), "reqHeaderSep is used outside recovery(): its content is no longer the initialiser for sure")
		}
	}
	sepObj, sepValue, sepKnown = o, constant.StringVal(cv), true
	return "Definition gen_reqHeaderSep : bytes := " + coqBytes(sepValue) + "."
}

func (t *tr) isSep(e ast.Expr) bool {
	id, ok := ast.Unparen(e).(*ast.Ident)
	return ok && sepKnown && obj(id) == sepObj
}

func (t *tr) crlfSep(e ast.Expr, what string) {
	if !t.isSep(e) {
		refuse(e.Pos(), "%s: the separator must be the package variable reqHeaderSep, not %s", what, src(e))
	}
	if sepValue != "\r\n" {
		refuse(e.Pos(), "%s: reqHeaderSep is %q; Redact.v's cut_crlf / split_crlf are specialised to \"\\r\\n\"", what, sepValue)
	}
}

// ---------------------------------------------------------------- expressions

func (t *tr) bytesE(e ast.Expr) string {
	e = ast.Unparen(e)
	if cv := constOf(e); cv != nil && cv.Kind() == constant.String {
		return coqBytes(constant.StringVal(cv))
	}
	switch x := e.(type) {
	case *ast.Ident:
		if t.isSep(x) {
			return "gen_reqHeaderSep"
		}
		return t.local(x, kBytes).name
	case *ast.SliceExpr:
		if x.Low != nil || x.High == nil || x.Max != nil || x.Slice3 {
			refuse(x.Pos(), "only s[:i] is translated: %s", src(x))
		}
		s := t.local(x.X, kBytes)
		i := t.local(x.High, kZ)
		io := obj(ast.Unparen(x.High).(*ast.Ident))
		if t.idxOf[io] == nil || t.idxOf[io] != obj(ast.Unparen(x.X).(*ast.Ident)) {
			refuse(x.Pos(), "%s: %s is not the result of bytes.IndexByte on %s (the slice expression could panic)", src(x), src(x.High), src(x.X))
		}
		if !t.nonneg[io] {
			refuse(x.Pos(), "%s: %s < 0 has not been excluded on this path (the slice expression would panic)", src(x), src(x.High))
		}
		return "(slice_to " + s.name + " " + i.name + ")"
	case *ast.CallExpr:
		if recv, m, c := method(x); c != nil {
			switch {
			case m == "String" && len(c.Args) == 0 && isLocal(recv):
				return t.local(recv, kBuilder).name
			case m == "Error" && len(c.Args) == 0 && isLocal(recv):
				return "(err_Error " + t.local(recv, kErr).name + ")"
			case t.ctxCall(x, "Pattern"):
				return "(q_pattern q)"
			}
			refuse(x.Pos(), "method call not in the whitelist: %s", src(x))
		}
		if c := isCall(x, foxPath, "stacktrace", 2); c != nil {
			a, b := constOf(c.Args[0]), constOf(c.Args[1])
			if t.mode != "recovery" || a == nil || b == nil || a.ExactString() != "3" || b.ExactString() != "6" {
				refuse(x.Pos(), "the stack text is recognised as stacktrace(3, 6) only: %s", src(x))
			}
			return "stack"
		}
		if c := isCall(x, foxPath, "scopeToString", 1); c != nil {
			if !t.ctxCall(c.Args[0], "Scope") {
				refuse(x.Pos(), "scopeToString is applied to c.Scope() only: %s", src(x))
			}
			return "(scopeToString (q_scope q))"
		}
		if c := isCall(x, "strings", "ToLower", 1); c != nil {
			return "(strings_ToLower " + t.bytesE(c.Args[0]) + ")"
		}
		if c := isCall(x, "net/http", "StatusText", 1); c != nil {
			cv := constOf(c.Args[0])
			if cv == nil || cv.ExactString() != "500" {
				refuse(x.Pos(), "RecSem.http_StatusText knows the text of 500 only: %s", src(x))
			}
			return "(http_StatusText 500)"
		}
	}
	refuse(e.Pos(), "byte-string expression not in the whitelist: %s", src(e))
	return ""
}

func (t *tr) zE(e ast.Expr) string {
	e = ast.Unparen(e)
	if cv := constOf(e); cv != nil && cv.Kind() == constant.Int {
		n, ok := constant.Int64Val(cv)
		if !ok || n > 100000 || n < -100000 {
			refuse(e.Pos(), "integer constant out of range: %s", src(e))
		}
		return coqZ(n)
	}
	if id, ok := e.(*ast.Ident); ok {
		return t.local(id, kZ).name
	}
	if c := isCall(e, "bytes", "IndexByte", 2); c != nil {
		cv := constOf(c.Args[1])
		if cv == nil || cv.Kind() != constant.Int {
			refuse(e.Pos(), "bytes.IndexByte: the byte must be a constant: %s", src(e))
		}
		n, _ := constant.Int64Val(cv)
		return "(bytes_IndexByte " + t.bytesE(c.Args[0]) + fmt.Sprintf(" (ascii_of_N %d))", n)
	}
	refuse(e.Pos(), "integer expression not in the whitelist: %s", src(e))
	return ""
}

func isNil(e ast.Expr) bool {
	id, ok := ast.Unparen(e).(*ast.Ident)
	if !ok {
		return false
	}
	_, ok = info.Uses[id].(*types.Nil)
	return ok
}

func basicKind(e ast.Expr) string {
	if b, ok := info.TypeOf(e).Underlying().(*types.Basic); ok {
		switch {
		case b.Info()&types.IsString != 0:
			return "string"
		case b.Info()&types.IsInteger != 0:
			return "int"
		case b.Info()&types.IsBoolean != 0:
			return "bool"
		}
	}
	return ""
}

func (t *tr) boolE(e ast.Expr) string {
	e = ast.Unparen(e)
	if cv := constOf(e); cv != nil && cv.Kind() == constant.Bool {
		return fmt.Sprint(constant.BoolVal(cv))
	}
	switch x := e.(type) {
	case *ast.Ident:
		return t.local(x, kBool).name
	case *ast.UnaryExpr:
		if x.Op == token.NOT {
			return "negb (" + t.boolE(x.X) + ")"
		}
	case *ast.BinaryExpr:
		switch x.Op {
		case token.LAND:
			return "(" + t.boolE(x.X) + " && " + t.boolE(x.Y) + ")"
		case token.LOR:
			return "(" + t.boolE(x.X) + " || " + t.boolE(x.Y) + ")"
		case token.EQL, token.NEQ:
			wrap := func(s string) string {
				if x.Op == token.NEQ {
					return "negb (" + s + ")"
				}
				return s
			}
			if isNil(x.Y) && t.ctxCall(x.X, "Route") {
				if x.Op == token.NEQ {
					return "(q_has_route q)"
				}
				return "negb (q_has_route q)"
			}
			switch basicKind(x.X) {
			case "string":
				if cv := constOf(x.Y); cv != nil && cv.Kind() == constant.String && constant.StringVal(cv) == "" {
					return wrap("string_is_empty " + t.bytesE(x.X))
				}
				return wrap("bytes_eqb " + t.bytesE(x.X) + " " + t.bytesE(x.Y))
			case "int":
				return wrap(t.zE(x.X) + " =? " + t.zE(x.Y))
			}
		case token.LSS, token.LEQ, token.GTR, token.GEQ:
			if basicKind(x.X) == "int" {
				op := map[token.Token]string{token.LSS: "<?", token.LEQ: "<=?", token.GTR: ">?", token.GEQ: ">=?"}[x.Op]
				return "(" + t.zE(x.X) + " " + op + " " + t.zE(x.Y) + ")"
			}
		}
	case *ast.CallExpr:
		if c := isCall(x, foxPath, "isBlacklistedHeader", 1); c != nil {
			return "isBlacklistedHeader " + t.bytesE(c.Args[0])
		}
		if c := isCall(x, foxPath, "connIsBroken", 1); c != nil {
			return "gen_connIsBroken " + t.local(c.Args[0], kPval).name
		}
		if c := isCall(x, "strings", "Contains", 2); c != nil {
			return "strings_Contains " + t.bytesE(c.Args[0]) + " " + t.bytesE(c.Args[1])
		}
		if c := isCall(x, "errors", "Is", 2); c != nil {
			sel, ok := ast.Unparen(c.Args[1]).(*ast.SelectorExpr)
			if ok {
				if v, ok := info.Uses[sel.Sel].(*types.Var); ok && v.Pkg() != nil && v.Pkg().Path() == "net/http" && v.Name() == "ErrAbortHandler" {
					return "errors_Is_ErrAbortHandler " + t.local(c.Args[0], kErr).name
				}
			}
			refuse(x.Pos(), "errors.Is is translated for the target http.ErrAbortHandler only: %s", src(x))
		}
		if recv, m, c := method(x); c != nil && m == "Written" && len(c.Args) == 0 && t.ctxCall(recv, "Writer") {
			return "written w"
		}
	}
	refuse(e.Pos(), "condition not in the whitelist: %s", src(e))
	return ""
}

const pinnedMapParams = `{ return func(yield func(any) bool) { for p := range params { if !yield(slog.String(p.Key, p.Value)) { break } } } }`

func (t *tr) paramsE(e ast.Expr) string {
	e = ast.Unparen(e)
	if id, ok := e.(*ast.Ident); ok {
		return t.local(id, kParams).name
	}
	if c := isCall(e, "builtin", "make", 3); c != nil {
		if typeStr(info.TypeOf(c.Args[0])) != "[]any" {
			refuse(e.Pos(), "make: element type: %s", src(e))
		}
		if cv := constOf(c.Args[1]); cv == nil || cv.ExactString() != "0" {
			refuse(e.Pos(), "make: the length must be the constant 0: %s", src(e))
		}
		if constOf(c.Args[2]) == nil {
			recv, m, cc := method(c.Args[2])
			if cc == nil || m != "ParamsLen" || len(cc.Args) != 0 || !t.ctxCall(recv, "Route") {
				refuse(e.Pos(), "make: capacity is a constant or c.Route().ParamsLen(): %s", src(e))
			}
			if !t.routeNonNil {
				refuse(e.Pos(), "c.Route().ParamsLen() outside `if c.Route() != nil` (nil dereference): %s", src(e))
			}
		}
		return "[]"
	}
	if c := isCall(e, "slices", "AppendSeq", 2); c != nil {
		m := isCall(c.Args[1], foxPath, "mapParamsToAttr", 1)
		if m == nil || !t.ctxCall(m.Args[0], "Params") {
			refuse(e.Pos(), "slices.AppendSeq: the sequence must be mapParamsToAttr(c.Params()): %s", src(e))
		}
		if got := src(fn("mapParamsToAttr").Body); got != pinnedMapParams {
			refuse(fn("mapParamsToAttr").Pos(), "mapParamsToAttr is no longer the pinned text (one slog.String(p.Key, p.Value) per parameter): %s", got)
		}
		return "(" + t.paramsE(c.Args[0]) + " ++ mapParamsToAttr (q_params q))"
	}
	refuse(e.Pos(), "parameter-list expression not in the whitelist: %s", src(e))
	return ""
}

func (t *tr) attrE(e ast.Expr) string {
	e = ast.Unparen(e)
	if id, ok := e.(*ast.Ident); ok {
		return t.local(id, kAttr).name
	}
	if c := isCall(e, "log/slog", "String", 2); c != nil {
		return "slog_String " + t.bytesE(c.Args[0]) + " " + t.bytesE(c.Args[1])
	}
	if c := isCall(e, "log/slog", "Any", 2); c != nil {
		return "slog_Any " + t.bytesE(c.Args[0]) + " " + t.local(c.Args[1], kPval).name
	}
	if c := isCall(e, "log/slog", "Group", 2); c != nil {
		if !c.Ellipsis.IsValid() {
			refuse(e.Pos(), "slog.Group: the attributes must be spread (params...): %s", src(e))
		}
		return "slog_Group " + t.bytesE(c.Args[0]) + " " + t.paramsE(c.Args[1])
	}
	refuse(e.Pos(), "attribute expression not in the whitelist: %s", src(e))
	return ""
}

// ---------------------------------------------------------------- statements

func isPanic(s ast.Stmt) *ast.CallExpr {
	if es, ok := s.(*ast.ExprStmt); ok {
		return isCall(es.X, "builtin", "panic", 1)
	}
	return nil
}

func terminates(ss []ast.Stmt) bool {
	if len(ss) == 0 {
		return false
	}
	switch s := ss[len(ss)-1].(type) {
	case *ast.ReturnStmt:
		return true
	case *ast.BranchStmt:
		return s.Tok == token.CONTINUE
	case *ast.ExprStmt:
		return isPanic(s) != nil
	case *ast.IfStmt:
		if eb, ok := s.Else.(*ast.BlockStmt); ok {
			return terminates(s.Body.List) && terminates(eb.List)
		}
	}
	return false
}

func hasExit(ss []ast.Stmt) bool {
	found := false
	var walk func(n ast.Node, inLoop bool)
	walk = func(n ast.Node, inLoop bool) {
		ast.Inspect(n, func(n ast.Node) bool {
			switch n := n.(type) {
			case *ast.FuncLit:
				return false
			case *ast.RangeStmt:
				walk(n.Body, true) // continue / break inside belong to that loop
				return false
			case *ast.ForStmt:
				walk(n.Body, true)
				return false
			case *ast.ReturnStmt:
				found = true
			case *ast.BranchStmt:
				if !inLoop || n.Label != nil || n.Tok == token.GOTO {
					found = true
				}
			case *ast.ExprStmt:
				if isPanic(n) != nil {
					found = true
				}
			}
			return true
		})
	}
	for _, s := range ss {
		walk(s, false)
	}
	return found
}

// state variables (Coq names) a statement list stores into, declared outside [lo, hi)
func (t *tr) assigned(ss []ast.Stmt, lo, hi token.Pos, acc map[string]bool) {
	outer := func(e ast.Expr) {
		id, ok := ast.Unparen(e).(*ast.Ident)
		if !ok || id.Name == "_" {
			return
		}
		o := obj(id)
		if o == nil || (o.Pos() >= lo && o.Pos() < hi) {
			return
		}
		acc["v_"+id.Name] = true
	}
	for _, s := range ss {
		ast.Inspect(s, func(n ast.Node) bool {
			switch n := n.(type) {
			case *ast.FuncLit:
				return false
			case *ast.AssignStmt:
				if n.Tok != token.DEFINE {
					for _, l := range n.Lhs {
						outer(l)
					}
				}
			case *ast.IncDecStmt:
				outer(n.X)
			case *ast.ExprStmt:
				c, ok := n.X.(*ast.CallExpr)
				if !ok {
					return true
				}
				if recv, m, mc := method(c); mc != nil {
					if id, ok := ast.Unparen(recv).(*ast.Ident); ok {
						if obj(id) == t.logger && t.logger != nil {
							acc["log"] = true
						} else if m == "Write" || m == "WriteString" || m == "Grow" || m == "WriteByte" || m == "Reset" {
							outer(id)
						}
					}
				}
				if id, ok := c.Fun.(*ast.Ident); ok && t.handle != nil && obj(id) == t.handle {
					acc["w"] = true
				}
				if p, nm := callee(c); p == "net/http" && nm == "Error" {
					acc["w"] = true
				}
			}
			return true
		})
	}
}

type cond struct {
	plain       string // boolean condition, or
	scrut, pat  string // match scrut with pat => .. | None => ..
	binders     []*lv
	sysTarget   *lv          // errors.As target, an err inside the then-branch
	nonnegIdx   types.Object // the condition is idx < 0
	routeNonNil bool         // the condition is c.Route() != nil
}

func (c cond) ite(ind, a, b string) string {
	if c.scrut == "" {
		return ind + "if " + c.plain + " then\n" + a + "\n" + ind + "else\n" + b
	}
	return ind + "match " + c.scrut + " with\n" + ind + "| " + c.pat + " =>\n" + a + "\n" + ind + "| None =>\n" + b + "\n" + ind + "end"
}

func (t *tr) condOf(s *ast.IfStmt) cond {
	if s.Init == nil {
		if c := isCall(s.Cond, "errors", "As", 2); c != nil {
			u, ok := ast.Unparen(c.Args[1]).(*ast.UnaryExpr)
			if !ok || u.Op != token.AND {
				refuse(s.Cond.Pos(), "errors.As: the target must be &se: %s", src(s.Cond))
			}
			se := t.local(u.X, kSysTarget)
			return cond{scrut: "errors_As_SyscallError " + t.local(c.Args[0], kErr).name, pat: "Some " + se.name, sysTarget: se}
		}
		c := cond{plain: t.boolE(s.Cond)}
		if b, ok := ast.Unparen(s.Cond).(*ast.BinaryExpr); ok {
			if cv := constOf(b.Y); b.Op == token.LSS && cv != nil && cv.ExactString() == "0" && isLocal(b.X) {
				c.nonnegIdx = obj(ast.Unparen(b.X).(*ast.Ident))
			}
			if b.Op == token.NEQ && isNil(b.Y) && t.ctxCall(b.X, "Route") {
				c.routeNonNil = true
			}
		}
		return c
	}
	as, ok := s.Init.(*ast.AssignStmt)
	if !ok || as.Tok != token.DEFINE || len(as.Rhs) != 1 {
		refuse(s.Pos(), "if-initialiser not in the whitelist: %s", src(s.Init))
	}
	ids := make([]*ast.Ident, len(as.Lhs))
	for i, l := range as.Lhs {
		if ids[i], ok = l.(*ast.Ident); !ok {
			refuse(s.Pos(), "if-initialiser not in the whitelist: %s", src(s.Init))
		}
	}
	okTest := func(flag *ast.Ident) (rest ast.Expr) {
		// cond is `flag` or `flag && rest`
		if id, ok := ast.Unparen(s.Cond).(*ast.Ident); ok && obj(id) == info.Defs[flag] {
			return nil
		}
		if b, ok := ast.Unparen(s.Cond).(*ast.BinaryExpr); ok && b.Op == token.LAND {
			if id, ok := ast.Unparen(b.X).(*ast.Ident); ok && obj(id) == info.Defs[flag] {
				return b.Y
			}
		}
		refuse(s.Cond.Pos(), "the condition after `%s` must be `%s` or `%s && ..`: %s", src(s.Init), flag.Name, flag.Name, src(s.Cond))
		return nil
	}
	rhs := ast.Unparen(as.Rhs[0])
	// err := recover(); err != nil
	if c := isCall(rhs, "builtin", "recover", 0); c != nil && len(ids) == 1 {
		if t.mode != "recovery" || t.recoverUsed {
			refuse(s.Pos(), "recover() is translated once, at the head of the deferred function")
		}
		b, ok := ast.Unparen(s.Cond).(*ast.BinaryExpr)
		if !ok || b.Op != token.NEQ || !isNil(b.Y) || !isLocal(b.X) || obj(b.X.(*ast.Ident)) != info.Defs[ids[0]] {
			refuse(s.Cond.Pos(), "the condition after recover() must be `%s != nil`: %s", ids[0].Name, src(s.Cond))
		}
		t.recoverUsed = true
		n := t.declare(ids[0], kPval)
		return cond{scrut: "rv", pat: "Some " + n, binders: []*lv{t.vars[info.Defs[ids[0]]]}}
	}
	// x, ok := v.(T); ok [&& C]
	if ta, ok := rhs.(*ast.TypeAssertExpr); ok && len(ids) == 2 && ta.Type != nil {
		v := t.local(ta.X, kPval)
		var prim string
		switch typeStr(info.TypeOf(ta.Type)) {
		case "error":
			prim = "assert_error"
		case "*net.OpError":
			prim = "assert_OpError"
		default:
			refuse(ta.Pos(), "type assertion to %s is not in the whitelist", src(ta.Type))
		}
		extra := okTest(ids[1])
		n := t.declare(ids[0], kErr)
		c := cond{scrut: prim + " " + v.name, pat: "Some " + n}
		if n != "_" {
			c.binders = []*lv{t.vars[info.Defs[ids[0]]]}
		}
		if extra != nil {
			c.scrut = "comma_ok_and (" + c.scrut + ") (fun " + n + " => " + t.boolE(extra) + ")"
		}
		return c
	}
	// before, after, found := bytes.Cut(s, reqHeaderSep); found
	if c := isCall(rhs, "bytes", "Cut", 2); c != nil && len(ids) == 3 {
		t.crlfSep(c.Args[1], "bytes.Cut")
		arg := t.bytesE(c.Args[0])
		if okTest(ids[2]) != nil {
			refuse(s.Cond.Pos(), "the condition after bytes.Cut must be the found flag alone: %s", src(s.Cond))
		}
		a, b := t.declare(ids[0], kBytes), t.declare(ids[1], kBytes)
		cc := cond{scrut: "bytes_Cut_crlf " + arg, pat: "Some (" + a + ", " + b + ")"}
		for _, id := range ids[:2] {
			if id.Name != "_" {
				cc.binders = append(cc.binders, t.vars[info.Defs[id]])
			}
		}
		return cc
	}
	refuse(s.Pos(), "if-initialiser not in the whitelist: %s", src(s.Init))
	return cond{}
}

func (t *tr) let(ind, name, val, rest string) string {
	return ind + "let " + name + " := " + val + " in\n" + rest
}

// block translates a statement list; tail is the term of a fall-through end ("" = must not fall through)
func (t *tr) block(ss []ast.Stmt, tail, ind string) string {
	if len(ss) == 0 {
		if tail == "" {
			panic(refusal{"a path falls off the end of a function that must return a value"})
		}
		return ind + tail
	}
	s, rest := ss[0], ss[1:]
	next := func() string { return t.block(rest, tail, ind) }
	noRest := func(what string) {
		if len(rest) > 0 {
			refuse(rest[0].Pos(), "statement after %s (dead code)", what)
		}
	}
	switch s := s.(type) {
	case *ast.DeclStmt:
		gd := s.Decl.(*ast.GenDecl)
		if gd.Tok != token.VAR || len(gd.Specs) != 1 {
			break
		}
		vs := gd.Specs[0].(*ast.ValueSpec)
		if len(vs.Names) != 1 || len(vs.Values) != 0 || vs.Type == nil {
			break
		}
		switch typeStr(info.TypeOf(vs.Type)) {
		case "strings.Builder":
			return t.let(ind, t.declare(vs.Names[0], kBuilder), "[]", next())
		case "[]any":
			return t.let(ind, t.declare(vs.Names[0], kParams), "[]", next())
		case "slog.Attr":
			return t.let(ind, t.declare(vs.Names[0], kAttr), "attr_zero", next())
		case "*os.SyscallError":
			t.declare(vs.Names[0], kSysTarget)
			return next()
		}
	case *ast.ExprStmt:
		call, ok := s.X.(*ast.CallExpr)
		if !ok {
			break
		}
		if c := isPanic(s); c != nil {
			if t.mode != "recovery" || t.loopTail != "" {
				refuse(s.Pos(), "panic outside the straight-line part of recovery()")
			}
			noRest("panic")
			v := t.local(c.Args[0], kErr, kPval)
			if v.k == kErr {
				return ind + "(Panicked (error_value " + v.name + "), w, log)"
			}
			return ind + "(Panicked " + v.name + ", w, log)"
		}
		if recv, m, mc := method(call); mc != nil && isLocal(recv) {
			id := ast.Unparen(recv).(*ast.Ident)
			if t.logger != nil && obj(id) == t.logger {
				if m != "Error" || len(mc.Args) < 1 || mc.Ellipsis.IsValid() {
					refuse(s.Pos(), "logger call not in the whitelist: %s", src(s))
				}
				msg := t.bytesE(mc.Args[0])
				var as []string
				for _, a := range mc.Args[1:] {
					as = append(as, t.attrE(a))
				}
				return t.let(ind, "log", "logger_Error q "+msg+"\n"+ind+"    ["+strings.Join(as, ";\n"+ind+"     ")+"] log", next())
			}
			sb := t.local(id, kBuilder)
			switch {
			case (m == "WriteString" || m == "Write") && len(mc.Args) == 1:
				return t.let(ind, sb.name, sb.name+" ++ "+t.bytesE(mc.Args[0]), next())
			case m == "Grow" && len(mc.Args) == 1:
				if l := isCall(mc.Args[0], "builtin", "len", 1); l != nil {
					return t.let(ind, sb.name, "sb_grow (List.length "+t.bytesE(l.Args[0])+") "+sb.name, next())
				}
			}
			refuse(s.Pos(), "builder call not in the whitelist: %s", src(s))
		}
		if id, ok := call.Fun.(*ast.Ident); ok && t.handle != nil && obj(id) == t.handle {
			if len(call.Args) != 2 || !isLocal(call.Args[0]) || obj(call.Args[0].(*ast.Ident)) != t.ctx {
				refuse(s.Pos(), "the recovery function is called as handle(c, err): %s", src(s))
			}
			return t.let(ind, "w", "handle w log "+t.local(call.Args[1], kPval).name, next())
		}
		if c := isCall(call, "net/http", "Error", 3); c != nil {
			if !t.ctxCall(c.Args[0], "Writer") {
				refuse(s.Pos(), "http.Error writes to c.Writer(): %s", src(s))
			}
			return t.let(ind, "w", "http_Error w "+t.bytesE(c.Args[1])+" "+t.zE(c.Args[2]), next())
		}
	case *ast.AssignStmt:
		if len(s.Lhs) == 2 && len(s.Rhs) == 1 && s.Tok == token.DEFINE {
			if c := isCall(s.Rhs[0], "net/http/httputil", "DumpRequest", 2); c != nil {
				cv := constOf(c.Args[1])
				l1, ok := s.Lhs[1].(*ast.Ident)
				if !t.ctxCall(c.Args[0], "Request") || cv == nil || cv.Kind() != constant.Bool || constant.BoolVal(cv) || !ok || l1.Name != "_" {
					refuse(s.Pos(), "the dump is recognised as `x, _ := httputil.DumpRequest(c.Request(), false)` only: %s", src(s))
				}
				return t.let(ind, t.declare(s.Lhs[0].(*ast.Ident), kBytes), "q_dump q", next())
			}
		}
		if len(s.Lhs) != 1 || len(s.Rhs) != 1 {
			break
		}
		id, ok := s.Lhs[0].(*ast.Ident)
		if !ok {
			break
		}
		if s.Tok == token.DEFINE {
			var val string
			var k kind
			switch basicKind(s.Rhs[0]) {
			case "string":
				val, k = t.bytesE(s.Rhs[0]), kBytes
			case "int":
				val, k = t.zE(s.Rhs[0]), kZ
			case "bool":
				val, k = t.boolE(s.Rhs[0]), kBool
			default:
				if typeStr(info.TypeOf(s.Rhs[0])) != "[]byte" {
					refuse(s.Pos(), "definition of a local of type %s is not in the whitelist: %s", typeStr(info.TypeOf(s.Rhs[0])), src(s))
				}
				val, k = t.bytesE(s.Rhs[0]), kBytes
			}
			n := t.declare(id, k)
			if c := isCall(s.Rhs[0], "bytes", "IndexByte", 2); c != nil && isLocal(c.Args[0]) && n != "_" {
				t.idxOf[info.Defs[id]] = obj(ast.Unparen(c.Args[0]).(*ast.Ident))
			}
			return t.let(ind, n, val, next())
		}
		if s.Tok == token.ASSIGN {
			v := t.local(id, kBytes, kZ, kBool, kAttr, kParams)
			delete(t.idxOf, obj(id))
			for k, o := range t.idxOf {
				if o == obj(id) {
					delete(t.idxOf, k)
				}
			}
			var val string
			switch v.k {
			case kBytes:
				val = t.bytesE(s.Rhs[0])
			case kZ:
				val = t.zE(s.Rhs[0])
			case kBool:
				val = t.boolE(s.Rhs[0])
			case kAttr:
				val = t.attrE(s.Rhs[0])
			case kParams:
				val = t.paramsE(s.Rhs[0])
			}
			return t.let(ind, v.name, val, next())
		}
	case *ast.ReturnStmt:
		if t.loopTail != "" {
			refuse(s.Pos(), "return inside a loop")
		}
		noRest("return")
		if t.mode == "bool" {
			if len(s.Results) != 1 {
				break
			}
			return ind + t.boolE(s.Results[0])
		}
		if len(s.Results) != 0 {
			break
		}
		return ind + t.funcTail
	case *ast.BranchStmt:
		if s.Tok != token.CONTINUE || s.Label != nil || t.loopTail == "" {
			break
		}
		noRest("continue")
		return ind + t.loopTail
	case *ast.RangeStmt:
		if t.loopTail != "" {
			refuse(s.Pos(), "nested loop")
		}
		c := isCall(s.X, foxPath+"/internal/iterutil", "SplitBytesSeq", 2)
		key, ok := s.Key.(*ast.Ident)
		if c == nil || s.Value != nil || !ok || s.Tok != token.DEFINE {
			refuse(s.Pos(), "only `for x := range iterutil.SplitBytesSeq(s, reqHeaderSep)` is translated: %s", src(s.X))
		}
		t.crlfSep(c.Args[1], "iterutil.SplitBytesSeq")
		seq := "SplitBytesSeq_crlf " + t.bytesE(c.Args[0])
		acc := map[string]bool{}
		t.assigned(s.Body.List, s.Body.Pos(), s.Body.End(), acc)
		if len(acc) != 1 {
			refuse(s.Pos(), "the loop body must store into exactly one outer variable, not %d", len(acc))
		}
		var st string
		for k := range acc {
			st = k
		}
		if hasReturnOrPanic(s.Body.List) {
			refuse(s.Pos(), "return / panic / break inside the loop body")
		}
		h := t.declare(key, kBytes)
		t.loopTail = st
		body := t.block(s.Body.List, st, ind+"    ")
		t.loopTail = ""
		return t.let(ind, st, "range_seq ("+seq+") (fun "+st+" "+h+" =>\n"+body+") "+st, next())
	case *ast.IfStmt:
		return t.ifStmt(s, rest, tail, ind)
	}
	refuse(s.Pos(), "statement not in the whitelist: %s", src(s))
	return ""
}

func hasReturnOrPanic(ss []ast.Stmt) bool {
	found := false
	for _, s := range ss {
		ast.Inspect(s, func(n ast.Node) bool {
			switch n := n.(type) {
			case *ast.FuncLit:
				return false
			case *ast.ReturnStmt:
				found = true
			case *ast.BranchStmt:
				if n.Tok != token.CONTINUE {
					found = true
				}
			case *ast.ExprStmt:
				if isPanic(n) != nil {
					found = true
				}
			}
			return true
		})
	}
	return found
}

func (t *tr) ifStmt(s *ast.IfStmt, rest []ast.Stmt, tail, ind string) string {
	c := t.condOf(s)
	in := ind + "  "
	var els []ast.Stmt
	hasElse := s.Else != nil
	if hasElse {
		eb, ok := s.Else.(*ast.BlockStmt)
		if !ok {
			refuse(s.Else.Pos(), "else-if chains are not translated")
		}
		els = eb.List
	}
	enter := func() (undo func()) {
		oldRoute := t.routeNonNil
		if c.routeNonNil {
			t.routeNonNil = true
		}
		if c.sysTarget != nil {
			c.sysTarget.k = kErr
		}
		return func() {
			t.routeNonNil = oldRoute
			if c.sysTarget != nil {
				c.sysTarget.k = kSysTarget
			}
			for _, b := range c.binders {
				b.dead = true
			}
		}
	}
	bodyT := terminates(s.Body.List)
	switch {
	case !hasExit(s.Body.List) && !hasExit(els):
		// join: exactly one outer variable is stored into
		acc := map[string]bool{}
		t.assigned(s.Body.List, s.Body.Pos(), s.Body.End(), acc)
		if hasElse {
			t.assigned(els, s.Else.Pos(), s.Else.End(), acc)
		}
		if len(acc) != 1 {
			refuse(s.Pos(), "an if that falls through must store into exactly one outer variable, not %d", len(acc))
		}
		var st string
		for k := range acc {
			st = k
		}
		undo := enter()
		a := t.block(s.Body.List, st, in+"  ")
		undo()
		b := in + "  " + st
		if hasElse {
			b = t.block(els, st, in+"  ")
		}
		return ind + "let " + st + " := (\n" + c.ite(in, a, b) + ") in\n" + t.block(rest, tail, ind)
	case bodyT && !hasElse:
		undo := enter()
		a := t.block(s.Body.List, "", in)
		undo()
		if c.nonnegIdx != nil {
			t.nonneg[c.nonnegIdx] = true
		}
		return c.ite(ind, a, t.block(rest, tail, ind))
	case bodyT && hasElse && terminates(els):
		if len(rest) > 0 {
			refuse(rest[0].Pos(), "statement after an if whose branches both end (dead code)")
		}
		undo := enter()
		a := t.block(s.Body.List, "", in)
		undo()
		return c.ite(ind, a, t.block(els, "", in))
	case !hasElse:
		// the body sometimes ends the function: the statements after the if follow the body as well
		inner := map[string]bool{}
		ast.Inspect(s.Body, func(n ast.Node) bool {
			if id, ok := n.(*ast.Ident); ok && info.Defs[id] != nil {
				inner[id.Name] = true
			}
			return true
		})
		for _, r := range rest {
			ast.Inspect(r, func(n ast.Node) bool {
				if id, ok := n.(*ast.Ident); ok && inner[id.Name] && (info.Uses[id] == nil || info.Uses[id].Pos() < s.Body.Pos() || info.Uses[id].Pos() > s.Body.End()) {
					refuse(id.Pos(), "%s is declared inside the preceding if and names something else after it", id.Name)
				}
				return true
			})
		}
		undo := enter()
		a := t.block(append(append([]ast.Stmt{}, s.Body.List...), rest...), tail, in)
		undo()
		return c.ite(ind, a, t.block(rest, tail, in))
	}
	refuse(s.Pos(), "if statement whose branches partly end the function is not in the whitelist")
	return ""
}

// ---------------------------------------------------------------- the functions

func params(fd *ast.FuncDecl, want ...string) []*ast.Ident {
	var ids []*ast.Ident
	var tys []string
	for _, f := range fd.Type.Params.List {
		for _, n := range f.Names {
			ids = append(ids, n)
			tys = append(tys, typeStr(info.TypeOf(f.Type)))
		}
	}
	if strings.Join(tys, ", ") != strings.Join(want, ", ") {
		refuse(fd.Pos(), "%s: parameters (%s), expected (%s)", fd.Name.Name, strings.Join(tys, ", "), strings.Join(want, ", "))
	}
	return ids
}

func results(fd *ast.FuncDecl, want string) {
	got := ""
	if fd.Type.Results != nil {
		var tys []string
		for _, f := range fd.Type.Results.List {
			tys = append(tys, typeStr(info.TypeOf(f.Type)))
		}
		got = strings.Join(tys, ", ")
	}
	if got != want {
		refuse(fd.Pos(), "%s: results (%s), expected (%s)", fd.Name.Name, got, want)
	}
}

func genConnIsBroken() string {
	fd := fn("connIsBroken")
	ids := params(fd, "any")
	results(fd, "bool")
	t := newTr("bool", "")
	n := t.declare(ids[0], kPval)
	return "Definition gen_connIsBroken (" + n + " : pval) : bool :=\n" + t.block(fd.Body.List, "", "  ") + "."
}

func genRecovery() string {
	fd := fn("recovery")
	ids := params(fd, "*slog.Logger", "fox.Context", "fox.RecoveryFunc")
	results(fd, "")
	t := newTr("recovery", "(Returned, w, log)")
	t.logger, t.ctx, t.handle = info.Defs[ids[0]], info.Defs[ids[1]], info.Defs[ids[2]]
	body := t.block(fd.Body.List, t.funcTail, "  ")
	if !t.recoverUsed {
		refuse(fd.Pos(), "recovery() does not start with `if err := recover(); err != nil`")
	}
	return "Definition gen_recovery (handle : wstate -> list logrec -> pval -> wstate) (q : reqinfo) (stack : bytes)\n" +
		"    (rv : option pval) (w : wstate) (log : list logrec) : outcome :=\n" + body + "."
}

func genDefaultHandle() string {
	fd := fn("DefaultHandleRecovery")
	ids := params(fd, "fox.Context", "any")
	results(fd, "")
	t := newTr("handle", "w")
	t.ctx = info.Defs[ids[0]]
	arg := "_"
	if ids[1].Name != "_" {
		arg = t.declare(ids[1], kPval)
	}
	return "Definition gen_DefaultHandleRecovery (w : wstate) (" + arg + " : pval) : wstate :=\n" + t.block(fd.Body.List, "w", "  ") + "."
}

func sameObj(e ast.Expr, o types.Object) bool {
	id, ok := ast.Unparen(e).(*ast.Ident)
	return ok && o != nil && obj(id) == o
}

func genMiddleware() string {
	fd := fn("CustomRecoveryWithLogHandler")
	ids := params(fd, "slog.Handler", "fox.RecoveryFunc")
	results(fd, "fox.MiddlewareFunc")
	if len(fd.Body.List) != 2 {
		refuse(fd.Pos(), "CustomRecoveryWithLogHandler: two statements are expected (logger, returned middleware)")
	}
	as, ok := fd.Body.List[0].(*ast.AssignStmt)
	if !ok || as.Tok != token.DEFINE || len(as.Lhs) != 1 || len(as.Rhs) != 1 {
		refuse(fd.Body.List[0].Pos(), "expected `<logger> := slog.New(handler)`: %s", src(fd.Body.List[0]))
	}
	nw := isCall(as.Rhs[0], "log/slog", "New", 1)
	if nw == nil || !sameObj(nw.Args[0], info.Defs[ids[0]]) {
		refuse(as.Pos(), "expected `<logger> := slog.New(handler)`: %s", src(as))
	}
	logger := info.Defs[as.Lhs[0].(*ast.Ident)]
	lit := func(s ast.Stmt, ptype string) (*ast.FuncLit, types.Object) {
		r, ok := s.(*ast.ReturnStmt)
		if !ok || len(r.Results) != 1 {
			refuse(s.Pos(), "expected `return func(..) ..`: %s", src(s))
		}
		fl, ok := r.Results[0].(*ast.FuncLit)
		if !ok || len(fl.Type.Params.List) != 1 || len(fl.Type.Params.List[0].Names) != 1 || typeStr(info.TypeOf(fl.Type.Params.List[0].Type)) != ptype {
			refuse(s.Pos(), "expected `return func(x %s) ..`: %s", ptype, src(s))
		}
		return fl, info.Defs[fl.Type.Params.List[0].Names[0]]
	}
	outer, next := lit(fd.Body.List[1], "fox.HandlerFunc")
	if len(outer.Body.List) != 1 {
		refuse(outer.Pos(), "the middleware must only return the wrapped handler")
	}
	inner, c := lit(outer.Body.List[0], "fox.Context")
	// statement by statement: the deferred call first, then the body it protects
	var deferred, body string
	for _, s := range inner.Body.List {
		switch s := s.(type) {
		case *ast.DeferStmt:
			if deferred != "" || body != "" {
				refuse(s.Pos(), "the deferred recovery must be the first statement of the handler (a panic raised before it is not recovered)")
			}
			rc := isCall(s.Call, foxPath, "recovery", 3)
			if rc == nil || !sameObj(rc.Args[0], logger) || !sameObj(rc.Args[1], c) || !sameObj(rc.Args[2], info.Defs[ids[1]]) {
				refuse(s.Pos(), "expected `defer recovery(<logger>, c, handle)`: %s", src(s))
			}
			deferred = "(fun rv w log => gen_recovery handle q stack rv w log)"
		case *ast.ExprStmt:
			call, ok := s.X.(*ast.CallExpr)
			if !ok || body != "" || len(call.Args) != 1 || !sameObj(call.Fun, next) || !sameObj(call.Args[0], c) {
				refuse(s.Pos(), "expected the single call next(c): %s", src(s))
			}
			if deferred == "" {
				refuse(s.Pos(), "next(c) runs before recovery is deferred")
			}
			body = "(next w)"
		default:
			refuse(s.Pos(), "statement not in the whitelist: %s", src(s))
		}
	}
	if deferred == "" || body == "" {
		refuse(inner.Pos(), "the handler must be `defer recovery(..); next(c)`")
	}
	return "Definition gen_middleware (handle : wstate -> list logrec -> pval -> wstate) (q : reqinfo) (stack : bytes)\n" +
		"    (next : handler) (w : wstate) (log : list logrec) : outcome :=\n" +
		"  run_deferred " + deferred + "\n    " + body + " log."
}

func singleReturnCall(name string) (*ast.FuncDecl, *ast.CallExpr) {
	fd := fn(name)
	if len(fd.Body.List) == 1 {
		if r, ok := fd.Body.List[0].(*ast.ReturnStmt); ok && len(r.Results) == 1 {
			if c, ok := r.Results[0].(*ast.CallExpr); ok {
				return fd, c
			}
		}
	}
	refuse(fd.Pos(), "%s: a single `return f(..)` is expected", name)
	return nil, nil
}

func genChain() string {
	fd, c := singleReturnCall("Recovery")
	params(fd)
	if p, n := callee(c); p != foxPath || n != "CustomRecovery" || len(c.Args) != 1 {
		refuse(c.Pos(), "Recovery: expected CustomRecovery(DefaultHandleRecovery): %s", src(c))
	}
	if id, ok := c.Args[0].(*ast.Ident); !ok || info.Uses[id] == nil || info.Uses[id].Name() != "DefaultHandleRecovery" || info.Uses[id].Parent() != pkg.Scope() {
		refuse(c.Pos(), "Recovery: expected CustomRecovery(DefaultHandleRecovery): %s", src(c))
	}
	fd2, c2 := singleReturnCall("CustomRecovery")
	ids := params(fd2, "fox.RecoveryFunc")
	if p, n := callee(c2); p != foxPath || n != "CustomRecoveryWithLogHandler" || len(c2.Args) != 2 || !sameObj(c2.Args[1], info.Defs[ids[0]]) {
		refuse(c2.Pos(), "CustomRecovery: expected CustomRecoveryWithLogHandler(<log handler>, handle): %s", src(c2))
	}
	return "Definition gen_Recovery : reqinfo -> bytes -> handler -> wstate -> list logrec -> outcome :=\n  gen_middleware (fun w _ v => gen_DefaultHandleRecovery w v)."
}
