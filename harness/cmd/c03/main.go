// c03: snapshot immutability at object level.
//
// Histories like c02's (Handle / Update / Delete / Truncate, directly or inside
// write transactions ended by Commit or Abort) with snapshots taken at random
// points, including inside write transactions: Txn.Iter(), Txn.Snapshot(),
// Router.Iter(), Router.Txn(false).  After EVERY event
//
//	(a) every snapshot held so far is re-observed in full on the implementation
//	    (All, Methods, Has/Route, Routes, Reverse, Lookup with params, Len, structural
//	    dump) and a digest of that observation is emitted next to the digest computed
//	    when the snapshot was taken                                   -> list `viol`
//	(b) the object graph reachable from all snapshots, the published tree and the
//	    open transaction is dumped with addresses renamed in first-visit order
//	    (nodes and arrays separately, empty arrays = 0) and compared in Coq with the
//	    same renaming of the heap model (Heap.v / Heap2.v)              -> list `mism`
//	    and, independently of the model, with the previous step's dump restricted
//	    to the objects reachable from the snapshots                    -> list `viol`
//
// One more stream builds a tree with fan-out 66 and depth 3 and runs write
// transactions that clone more than 4096 distinct nodes, so that the LRU of
// writable nodes really evicts (graph dumps at checkpoints only).
package main

import (
	"errors"
	"fmt"
	"hash/fnv"
	"net/http/httptest"
	"os"
	"slices"
	"sort"
	"strings"

	"foxverif/hx"
	"foxverif/rt"

	"github.com/tigerwill90/fox"
)

type snap struct {
	kind string
	it   *fox.Iter // Txn.Iter() / Router.Iter()
	tx   *fox.Txn  // Txn.Snapshot() / Router.Txn(false)
	then uint64
	// frozen listings: what every Seq-returning iterator method (All, Methods, Prefix, Routes, Reverse, with the
	// arguments of the observation) yielded in the snapshot's FIRST full observation; an abandoned walk must yield
	// the first k items of its listing
	lists map[string][]string
}

// iter is the Iter a snapshot is read through.
func (s *snap) iter() fox.Iter {
	if s.it != nil {
		return *s.it
	}
	return s.tx.Iter() // read-only transaction: no snapshot() call
}

func (s *snap) dump() *fox.VerifTree {
	if s.it != nil {
		return s.it.VerifDump()
	}
	return s.tx.VerifDump()
}

type probe struct{ method, host, path string }

type world struct {
	f       *fox.Router
	txn     *fox.Txn
	rid     map[*fox.Route]uint64
	next    uint64
	snaps   []*snap
	pats    []string
	methods []string
	probes  []probe
	light   bool // big stream: cheaper observation
	// abandoned walks (round 7): arnd is a stream of its own (derived from VERIF_SEED) so that the event streams are
	// the ones of the earlier rounds; prefixes are the arguments of Iter.Prefix; wk is built on first use
	arnd     *hx.Rand
	prefixes []string
	wk       []walk
	// independent tracker of the registered routes (round 7): built from the write calls the harness issued and
	// whether each succeeded, and from Begin / Commit / Abort - snapshot events never touch it, so it is the route
	// set of the same history WITHOUT the snapshot calls. pub = committed, cur = view of the open write transaction.
	pub, cur map[rkey]uint64
	ever     map[rkey]bool
	lastNote string
	trackOff bool // a call panicked: the state is undefined from here on (reported as a mismatch anyway)
}

type rkey struct{ method, pat string }

// track applies one event to the tracker.
func (w *world) track(e ev, inTxn bool, err error, id uint64) {
	if w.pub == nil {
		w.pub, w.ever = map[rkey]uint64{}, map[rkey]bool{}
	}
	tgt := w.pub
	if inTxn {
		tgt = w.cur
	}
	switch e.kind {
	case "Begin":
		w.cur = make(map[rkey]uint64, len(w.pub))
		for k, v := range w.pub {
			w.cur[k] = v
		}
	case "Commit":
		w.pub, w.cur = w.cur, nil
	case "Abort":
		w.cur = nil
	case "Handle", "Update":
		if err == nil {
			tgt[rkey{e.method, e.pat}] = id
			w.ever[rkey{e.method, e.pat}] = true
		}
	case "Delete":
		if err == nil {
			delete(tgt, rkey{e.method, e.pat})
		}
	case "Truncate":
		if err == nil {
			for k := range tgt {
				if len(e.methods) == 0 || slices.Contains(e.methods, k.method) {
					delete(tgt, k)
				}
			}
		}
	}
}

func trackerList(m map[rkey]uint64) []string {
	out := make([]string, 0, len(m))
	for k, id := range m {
		out = append(out, fmt.Sprintf("%s %s #%d", k.method, k.pat, id))
	}
	sort.Strings(out)
	return out
}

func listDiff(exp, got []string) string {
	in := func(l []string) map[string]bool {
		m := map[string]bool{}
		for _, x := range l {
			m[x] = true
		}
		return m
	}
	e, g := in(exp), in(got)
	var miss, extra []string
	for _, x := range exp {
		if !g[x] && len(miss) < 4 {
			miss = append(miss, x)
		}
	}
	for _, x := range got {
		if !e[x] && len(extra) < 4 {
			extra = append(extra, x)
		}
	}
	return fmt.Sprintf("missing %q, unexpected %q, %d expected / %d listed", miss, extra, len(exp), len(got))
}

// writesAgree: "writes are unaffected by the existence of snapshots". What the router has PUBLISHED (Iter().All(),
// Len, Route per key ever registered) and what the open write transaction sees (Len, Route per key: reads without
// side effect on the copy-on-write cache) must be what the tracker says. Returns (expected, observed) digests.
func (w *world) writesAgree() (exp, got uint64, note string) {
	if w.pub == nil {
		w.pub, w.ever = map[rkey]uint64{}, map[rkey]bool{}
	}
	keys := make([]rkey, 0, len(w.ever))
	for k := range w.ever {
		keys = append(keys, k)
	}
	sort.Slice(keys, func(i, j int) bool {
		return keys[i].method < keys[j].method || (keys[i].method == keys[j].method && keys[i].pat < keys[j].pat)
	})
	byKey := func(m map[rkey]uint64) []string {
		var out []string
		for _, k := range keys {
			if id, ok := m[k]; ok {
				out = append(out, fmt.Sprintf("%s %s #%d", k.method, k.pat, id))
			}
		}
		return out
	}
	expPub := trackerList(w.pub)
	expL := append(append([]string{fmt.Sprint("len ", len(w.pub))}, expPub...), byKey(w.pub)...)
	if w.txn != nil {
		expL = append(append(expL, fmt.Sprint("txn len ", len(w.cur))), byKey(w.cur)...)
	}
	var gotL []string
	defer func() {
		if p := recover(); p != nil {
			exp, got, note = listDigest(expL), 0xDEAD, fmt.Sprint("panic while reading: ", p)
		}
	}()
	var all []string
	for m, r := range w.f.Iter().All() {
		all = append(all, fmt.Sprintf("%s %s #%d", m, r.Pattern(), w.rid[r]))
	}
	sort.Strings(all)
	gotL = append(append(gotL, fmt.Sprint("len ", w.f.Len())), all...)
	var viaRoute []string
	for _, k := range keys {
		if r := w.f.Route(k.method, k.pat); r != nil {
			viaRoute = append(viaRoute, fmt.Sprintf("%s %s #%d", k.method, k.pat, w.rid[r]))
		}
	}
	gotL = append(gotL, viaRoute...)
	var viaTxn []string
	if w.txn != nil {
		gotL = append(gotL, fmt.Sprint("txn len ", w.txn.Len()))
		for _, k := range keys {
			if r := w.txn.Route(k.method, k.pat); r != nil {
				viaTxn = append(viaTxn, fmt.Sprintf("%s %s #%d", k.method, k.pat, w.rid[r]))
			}
		}
		gotL = append(gotL, viaTxn...)
	}
	exp, got = listDigest(expL), listDigest(gotL)
	if exp != got {
		switch {
		case strings.Join(expPub, "\n") != strings.Join(all, "\n") || len(w.pub) != w.f.Len():
			note = fmt.Sprintf("PUBLISHED routes (Router.Iter().All(), Len=%d) are not the writes committed so far: %s", w.f.Len(), listDiff(expPub, all))
		case strings.Join(byKey(w.pub), "\n") != strings.Join(viaRoute, "\n"):
			note = "Router.Route answers differ from the writes committed so far: " + listDiff(byKey(w.pub), viaRoute)
		default:
			note = fmt.Sprintf("the open write transaction (Len=%d, Route) does not see its own writes: %s", w.txn.Len(), listDiff(byKey(w.cur), viaTxn))
		}
	}
	return exp, got, note
}

// walk is one Seq-returning iterator method of Iter with fixed arguments, its items rendered as strings.
type walk struct {
	key   string
	parts []string // what the digest of a full observation is tagged with
	run   func(w *world, it fox.Iter, yield func(item ...string) bool)
}

func (w *world) meths(yield func(string) bool) {
	for _, m := range w.methods {
		if !yield(m) {
			return
		}
	}
}

func (w *world) seq2(tag []string, seq func(it fox.Iter) func(func(string, *fox.Route) bool), withPattern bool) walk {
	return walk{key: strings.Join(tag, " "), parts: tag, run: func(w *world, it fox.Iter, yield func(item ...string) bool) {
		for m, r := range seq(it) {
			ok := false
			if withPattern {
				ok = yield(m, r.Pattern(), fmt.Sprint(w.rid[r]))
			} else {
				ok = yield(m, fmt.Sprint(w.rid[r]))
			}
			if !ok {
				break // the range loop is LEFT here: the iterator sees yield return false
			}
		}
	}}
}

// patPrefixes: arguments for Iter.Prefix drawn from the pattern pool (the whole tree, "/", a pattern cut in the
// middle - usually inside an edge -, a pattern up to its last slash, a whole pattern).
func patPrefixes(pats []string) []string {
	seen := map[string]bool{}
	out := []string{}
	add := func(p string) {
		if !seen[p] && len(out) < 10 {
			seen[p] = true
			out = append(out, p)
		}
	}
	add("/")
	for i, p := range pats {
		switch i % 3 {
		case 0:
			add(p[:len(p)/2])
		case 1:
			if j := strings.LastIndexByte(p, '/'); j > 0 {
				add(p[:j+1])
			}
		case 2:
			add(p)
		}
	}
	return out
}

// walks lists every Seq-returning iterator method of Iter with the arguments the observation uses, in the order of
// the observation: All, Methods, Prefix per prefix; then (full observation only) Routes per pattern, Reverse per probe.
func (w *world) walks() []walk {
	if w.wk != nil {
		return w.wk
	}
	if w.prefixes == nil {
		w.prefixes = patPrefixes(w.pats)
	}
	w.wk = append(w.wk, w.seq2([]string{"all"}, func(it fox.Iter) func(func(string, *fox.Route) bool) { return it.All() }, true))
	w.wk = append(w.wk, walk{key: "method", parts: []string{"method"}, run: func(w *world, it fox.Iter, yield func(item ...string) bool) {
		for m := range it.Methods() {
			if !yield(m) {
				break
			}
		}
	}})
	for _, p := range w.prefixes {
		w.wk = append(w.wk, w.seq2([]string{"prefix", p}, func(it fox.Iter) func(func(string, *fox.Route) bool) { return it.Prefix(w.meths, p) }, true))
	}
	if w.light {
		return w.wk
	}
	for _, p := range w.pats {
		w.wk = append(w.wk, w.seq2([]string{"routes", p}, func(it fox.Iter) func(func(string, *fox.Route) bool) { return it.Routes(w.meths, p) }, false))
	}
	for _, q := range w.probes {
		w.wk = append(w.wk, w.seq2([]string{"reverse", q.host, q.path}, func(it fox.Iter) func(func(string, *fox.Route) bool) { return it.Reverse(w.meths, q.host, q.path) }, false))
	}
	return w.wk
}

func listDigest(items []string) uint64 {
	h := fnv.New64a()
	for _, x := range items {
		h.Write([]byte(x))
		h.Write([]byte{1})
	}
	return h.Sum64()
}

// abandon runs ONE Seq-returning iterator method on snapshot s and leaves the range loop after k items (k drawn
// below the length of the frozen listing, so the walk really is abandoned whenever the listing is not empty).
// Expected = the first k items of the listing frozen at the snapshot's first observation.
func (w *world) abandon(s *snap, label string) (exp, got uint64, desc string) {
	wk := hx.Pick(w.arnd, w.walks())
	if w.arnd.Pct(40) {
		wk = w.walks()[0] // All
	}
	frozen, ok := s.lists[wk.key]
	k := 0
	if len(frozen) > 0 {
		k = w.arnd.Intn(len(frozen))
	}
	desc = fmt.Sprintf("%s of %s left after %d of %d items", wk.key, label, k, len(frozen))
	var items []string
	defer func() {
		if p := recover(); p != nil {
			exp, got = listDigest(frozen[:k]), 0xDEAD
		}
	}()
	wk.run(w, s.iter(), func(item ...string) bool {
		if len(items) == k {
			return false
		}
		items = append(items, strings.Join(item, "\x00"))
		return true
	})
	if !ok { // the first observation did not get that far (it panicked): nothing to compare with
		return 0, 0, desc
	}
	return listDigest(frozen[:k]), listDigest(items), desc
}

// abandonPublished: the same on a fresh Iter of the published tree (the newest iterator there is; nothing frozen to
// compare with - what matters is what the walk leaves behind).
func (w *world) abandonPublished() (desc string) {
	wk := hx.Pick(w.arnd, w.walks()[:2+len(w.prefixes)])
	if w.arnd.Pct(40) {
		wk = w.walks()[0]
	}
	k := w.arnd.Intn(4)
	desc = fmt.Sprintf("%s of a fresh Router.Iter() left after at most %d items", wk.key, k)
	defer func() { _ = recover() }()
	n := 0
	wk.run(w, w.f.Iter(), func(item ...string) bool {
		if n == k {
			return false
		}
		n++
		return true
	})
	return desc
}

func (w *world) handler() (fox.HandlerFunc, uint64) {
	w.next++
	return func(c fox.Context) {}, w.next
}

// observe renders everything visible through a snapshot (a panic while reading it is an observation too).
func (w *world) observe(s *snap) (digest uint64) {
	defer func() {
		if p := recover(); p != nil {
			digest = 0xDEAD
		}
	}()
	return w.observe1(s)
}

func (w *world) observe1(s *snap) uint64 {
	h := fnv.New64a()
	put := func(parts ...string) {
		for _, p := range parts {
			h.Write([]byte(p))
			h.Write([]byte{0})
		}
		h.Write([]byte{1})
	}
	it := s.iter()
	first := s.lists == nil
	if first {
		s.lists = map[string][]string{}
	}
	wks := w.walks()
	full := func(wk walk) {
		var items []string
		wk.run(w, it, func(item ...string) bool {
			put(append(append([]string{}, wk.parts...), item...)...)
			if first {
				items = append(items, strings.Join(item, "\x00"))
			}
			return true
		})
		if first {
			s.lists[wk.key] = items
		}
	}
	np := 2 + len(w.prefixes)
	for _, wk := range wks[:np] { // All, Methods, Prefix
		full(wk)
	}
	d := s.dump()
	d.Size, d.MaxParams = 0, 0 // not part of an Iter; compared for transactions through Len below
	put("dump", d.String())
	if s.tx != nil {
		put("len", fmt.Sprint(s.tx.Len()))
	}
	if w.light {
		return h.Sum64()
	}
	for i, p := range w.pats {
		full(wks[np+i])
		if s.tx != nil {
			for _, m := range w.methods {
				put("has", m, p, fmt.Sprint(s.tx.Has(m, p)))
				if r := s.tx.Route(m, p); r != nil {
					put("route", m, p, fmt.Sprint(w.rid[r]))
				}
			}
		}
	}
	for i, q := range w.probes {
		full(wks[np+len(w.pats)+i])
		if s.tx != nil {
			r, tsr := s.tx.Reverse(q.method, q.host, q.path)
			if r != nil {
				put("treverse", q.method, q.host, q.path, fmt.Sprint(w.rid[r]), fmt.Sprint(tsr))
			}
			func() {
				defer func() {
					if e := recover(); e != nil {
						put("lookup-panic", q.method, q.host, q.path)
					}
				}()
				rec := httptest.NewRecorder()
				_, c := fox.NewTestContext(rec, rt.NewRequest(q.method, q.host, q.path))
				rte, cc, tsr := s.tx.Lookup(c.Writer(), rt.NewRequest(q.method, q.host, q.path))
				if rte != nil {
					put("lookup", q.method, q.host, q.path, fmt.Sprint(w.rid[rte]), fmt.Sprint(tsr))
					for p := range cc.Params() {
						put("param", p.Key, p.Value)
					}
					cc.Close()
				}
			}()
		}
	}
	return h.Sum64()
}

// ---------- canonical object graph ----------

type gnode struct {
	id   uint64
	key  string
	leaf bool
	pat  string
	rid  uint64
	arr  uint64
	kids []uint64
	ino  [][2]uint64 // inode chain: (identity code, children array id)
}

type groot struct {
	arr uint64
	ids []uint64
}

type grapher struct {
	nid    map[uintptr]uint64
	aid    map[uintptr]uint64
	nc, ac uint64
	nodes  []gnode
	roots  []groot
	rid    map[uintptr]uint64
	ino    map[uintptr]uint64 // inode object -> 8 * (id of the first node it was reached from) + position
}

// the hash of Heap2.ghash
func hmix(h, x uint64) uint64 { return (((h << 5) + h) ^ x) & 2305843009213693951 }
func hbytes(h uint64, b string) uint64 {
	h = hmix(h, uint64(len(b)))
	for i := 0; i < len(b); i++ {
		h = hmix(h, uint64(b[i]))
	}
	return h
}
func hlist(h uint64, l []uint64) uint64 {
	h = hmix(h, uint64(len(l)))
	for _, x := range l {
		h = hmix(h, x)
	}
	return h
}

func (g *grapher) hash() uint64 {
	h := uint64(14695981039346656037)
	for _, r := range g.roots {
		h = hlist(hmix(h, r.arr), r.ids)
	}
	for _, n := range g.nodes {
		h = hmix(h, n.id)
		h = hbytes(h, n.key)
		if n.leaf {
			h = hmix(hbytes(hmix(h, 1), n.pat), n.rid)
		} else {
			h = hmix(h, 0)
		}
		h = hlist(hmix(h, n.arr), n.kids)
		h = hmix(h, uint64(len(n.ino)))
		for _, p := range n.ino {
			h = hmix(hmix(h, p[0]), p[1])
		}
	}
	return h
}

func nums(l []uint64) string {
	ss := make([]string, len(l))
	for i, x := range l {
		ss[i] = fmt.Sprint(x)
	}
	return strings.Join(ss, ";")
}

func (g *grapher) term() string {
	roots := make([]string, len(g.roots))
	for i, r := range g.roots {
		roots[i] = fmt.Sprintf("(%d, [%s])", r.arr, nums(r.ids))
	}
	nodes := make([]string, len(g.nodes))
	for i, n := range g.nodes {
		rt := "None"
		if n.leaf {
			rt = "(Some (" + hx.Bytes(n.pat) + ", " + fmt.Sprint(n.rid) + "))"
		}
		if len(n.ino) > 0 {
			ps := make([]string, len(n.ino))
			for j, q := range n.ino {
				ps[j] = fmt.Sprintf("(%d, %d)", q[0], q[1])
			}
			nodes[i] = fmt.Sprintf("mkGI %d %s %s %d [%s] [%s]", n.id, hx.Bytes(n.key), rt, n.arr, nums(n.kids), strings.Join(ps, ";"))
			continue
		}
		nodes[i] = fmt.Sprintf("mkG %d %s %s %d [%s]", n.id, hx.Bytes(n.key), rt, n.arr, nums(n.kids))
	}
	return "(mkGr [" + strings.Join(roots, "; ") + "]\n      [" + strings.Join(nodes, ";\n       ") + "])"
}

func (g *grapher) arr(a uintptr) uint64 {
	if a == 0 {
		return 0
	}
	if id, ok := g.aid[a]; ok {
		return id
	}
	g.ac++
	g.aid[a] = g.ac
	return g.ac
}

func (g *grapher) visit(v *fox.VerifNode) uint64 {
	if v == nil { // a nil entry in a roots / children array: no such object in the model
		return 0
	}
	if id, ok := g.nid[v.Addr]; ok {
		return id
	}
	g.nc++
	id := g.nc
	g.nid[v.Addr] = id
	aid := g.arr(v.ChildrenAddr)
	var ino [][2]uint64
	for in, k := v.Inode, uint64(1); in != nil; in, k = in.Inode, k+1 {
		code, ok := g.ino[in.Addr]
		if !ok {
			code = 8*id + k
			g.ino[in.Addr] = code
		}
		ino = append(ino, [2]uint64{code, g.arr(in.ChildrenAddr)})
	}
	kids := make([]uint64, len(v.Children))
	for i, c := range v.Children {
		kids[i] = g.visit(c)
	}
	g.nodes = append(g.nodes, gnode{id: id, key: v.Key, leaf: v.Leaf, pat: v.Pattern, rid: g.rid[v.RouteAddr], arr: aid, kids: kids, ino: ino})
	return id
}

// graph builds the canonical graph of the given trees; nf = node ids used by the first nh trees.
func (w *world) graph(trees []*fox.VerifTree, nh int) (*grapher, uint64) {
	g := &grapher{nid: map[uintptr]uint64{}, aid: map[uintptr]uint64{}, rid: map[uintptr]uint64{}, ino: map[uintptr]uint64{}}
	for r, id := range w.rid {
		g.rid[fox.VerifRouteAddr(r)] = id
	}
	var nf uint64
	for i, t := range trees {
		ra := g.arr(t.RootsAddr)
		ids := make([]uint64, len(t.Roots))
		for j, r := range t.Roots {
			ids[j] = g.visit(r)
		}
		g.roots = append(g.roots, groot{ra, ids})
		if i == nh-1 {
			nf = g.nc
		}
	}
	return g, nf
}

func (w *world) observedTrees() []*fox.VerifTree {
	var ts []*fox.VerifTree
	for _, s := range w.snaps {
		ts = append(ts, s.dump())
	}
	ts = append(ts, w.f.VerifDump())
	if w.txn != nil {
		ts = append(ts, w.txn.VerifDump())
	}
	return ts
}

func outcomeTerm(err error) (string, string) {
	var ce *fox.RouteConflictError
	switch {
	case err == nil:
		return "WOk", "ok"
	case errors.As(err, &ce):
		return "(WConflict " + hx.ListOf(ce.Matched, hx.Bytes) + ")", "conflict"
	case errors.Is(err, fox.ErrRouteExist):
		return "WExist", "exist"
	case errors.Is(err, fox.ErrRouteNotFound):
		return "WNotFound", "notfound"
	case errors.Is(err, fox.ErrInvalidRoute):
		return "WInvalid", "invalid"
	}
	return "WInvalid (* unexpected: " + err.Error() + " *)", "other"
}

// ev is one generated event.
type ev struct {
	kind    string // Begin Commit Abort Handle Update Delete Truncate SnapIter SnapClone ObsIter ObsTxn
	method  string
	pat     string
	methods []string
	fan     bool // eviction stream: GET /a/b[/c]
	a, b, c int
}

// apply runs the event on the implementation and returns its Coq step term and a human line.
// gmode: 0 = no graph, 1 = full canonical graph, 2 = hash of it; withDigest: re-observe the snapshots.
func (w *world) apply(e ev, gmode int, withDigest bool) (string, string) {
	withGraph := gmode != 0
	var err error
	var removed *fox.Route
	var id uint64
	evTerm := ""
	inTxn := w.txn != nil
	wrap := func(op string) string {
		if inTxn {
			return "(EOp " + op + ")"
		}
		return "(EDirect " + op + ")"
	}
	panicked := ""
	func() {
		defer func() {
			if p := recover(); p != nil {
				panicked = fmt.Sprint(p)
			}
		}()
		switch e.kind {
		case "Begin":
			w.txn = w.f.Txn(true)
			evTerm = "EBegin"
		case "Commit":
			w.txn.Commit()
			w.txn = nil
			evTerm = "ECommit"
		case "Abort":
			w.txn.Abort()
			w.txn = nil
			evTerm = "EAbort"
		case "Handle", "Update":
			ps, hs, perr := w.f.VerifParseRoute(e.pat)
			if perr != nil || hs < 0 {
				hs = 0
			}
			var h fox.HandlerFunc
			h, id = w.handler()
			var r *fox.Route
			switch {
			case e.kind == "Handle" && inTxn:
				r, err = w.txn.Handle(e.method, e.pat, h)
			case e.kind == "Handle":
				r, err = w.f.Handle(e.method, e.pat, h)
			case inTxn:
				r, err = w.txn.Update(e.method, e.pat, h)
			default:
				r, err = w.f.Update(e.method, e.pat, h)
			}
			if err == nil {
				w.rid[r] = id
			}
			c := "mkH"
			if e.kind == "Update" {
				c = "mkU"
			}
			evTerm = wrap(fmt.Sprintf("(%s %s %s %s %d %d %d)", c, hx.Bytes(e.method), hx.Bytes(e.pat), hx.Bool(perr == nil), ps, hs, id))
		case "Delete":
			_, _, perr := w.f.VerifParseRoute(e.pat)
			if inTxn {
				removed, err = w.txn.Delete(e.method, e.pat)
			} else {
				removed, err = w.f.Delete(e.method, e.pat)
			}
			evTerm = wrap(fmt.Sprintf("(WDelete %s %s %s)", hx.Bytes(e.method), hx.Bytes(e.pat), hx.Bool(perr == nil)))
		case "Truncate":
			if inTxn {
				err = w.txn.Truncate(e.methods...)
			} else {
				err = w.f.Updates(func(txn *fox.Txn) error { return txn.Truncate(e.methods...) })
			}
			evTerm = wrap("(WTruncate " + hx.ListOf(e.methods, hx.Bytes) + ")")
		case "SnapIter":
			it := w.txn.Iter()
			w.snaps = append(w.snaps, &snap{kind: e.kind, it: &it})
			evTerm = "ESnapIter"
		case "SnapClone":
			w.snaps = append(w.snaps, &snap{kind: e.kind, tx: w.txn.Snapshot()})
			evTerm = "ESnapClone"
		case "ObsIter":
			it := w.f.Iter()
			w.snaps = append(w.snaps, &snap{kind: e.kind, it: &it})
			evTerm = "EObsPub"
		case "ObsTxn":
			w.snaps = append(w.snaps, &snap{kind: e.kind, tx: w.f.Txn(false)})
			evTerm = "EObsPub"
		}
	}()
	oterm, oname := outcomeTerm(err)
	if panicked != "" {
		oterm, oname = "WPanic", "panic:"+panicked
		if evTerm == "" {
			evTerm = "EAbort"
		}
		w.trackOff = true
	} else {
		w.track(e, inTxn, err, id)
	}
	switch e.kind {
	case "SnapIter", "SnapClone", "ObsIter", "ObsTxn":
		s := w.snaps[len(w.snaps)-1]
		s.then = w.observe(s)
	}
	rm := "None"
	if removed != nil {
		rm = fmt.Sprintf("(Some %d)", w.rid[removed])
	}
	meta := "None"
	if !w.light || withGraph {
		var vis *fox.VerifTree
		if w.txn != nil {
			vis = w.txn.VerifDump()
		} else {
			vis = w.f.VerifDump()
		}
		meta = fmt.Sprintf("(Some (%s, %d, %d))", hx.Z(int64(vis.Size)), vis.MaxParams, vis.Depth)
	}
	gterm, hterm, nf := "None", "None", uint64(0)
	if withGraph {
		var g *grapher
		g, nf = w.graph(w.observedTrees(), len(w.snaps))
		if gmode == 1 {
			gterm = "(Some " + g.term() + ")"
		} else {
			hterm = fmt.Sprintf("(Some %d)", g.hash())
		}
	}
	var fr []string
	bad := ""
	if withDigest {
		abExp, abGot := uint64(0), uint64(0) // all abandoned walks of this event folded into ONE pair (expected, yielded)
		for i, s := range w.snaps {
			// Before the snapshot is re-observed in full, range loops over other iterators are LEFT EARLY (break after
			// k items): mostly over NEWER ones (a later snapshot, e.g. the Txn.Iter() of the open write transaction, or a
			// fresh Iter of the published tree), sometimes over any held snapshot including this one. Whatever an abandoned
			// walk leaves behind must not show up in anybody's listing; the walk itself must yield the first k items of
			// its own snapshot's frozen listing.
			var ab []string
			for a := w.arnd.Range(1, 3); a > 0; a-- {
				j := i + 1 + w.arnd.Intn(len(w.snaps)-i) // i+1 .. len(snaps); len(snaps) = the published tree
				if w.arnd.Pct(25) {
					j = w.arnd.Intn(len(w.snaps))
				}
				if j == len(w.snaps) {
					ab = append(ab, w.abandonPublished())
					continue
				}
				exp, got, desc := w.abandon(w.snaps[j], fmt.Sprintf("snapshot #%d (%s)", j, w.snaps[j].kind))
				ab = append(ab, desc)
				abExp, abGot = hmix(abExp, exp&0xFFFFFFFF), hmix(abGot, got&0xFFFFFFFF)
				if exp != got {
					bad += fmt.Sprintf(" [abandoned walk %s: yielded other items than the first ones of its frozen listing]", desc)
				}
			}
			now := w.observe(s)
			fr = append(fr, fmt.Sprintf("(%d, %d)", s.then, now))
			if now != s.then {
				bad += fmt.Sprintf(" [snapshot #%d (%s) CHANGED; range loops left early since the previous full re-observation: %s]", i, s.kind, strings.Join(ab, ", "))
			}
		}
		if len(w.snaps) > 0 {
			fr = append(fr, fmt.Sprintf("(%d, %d)", abExp, abGot))
		}
		if !w.trackOff {
			exp, got, note := w.writesAgree()
			fr = append(fr, fmt.Sprintf("(%d, %d)", exp, got))
			if exp != got && note != w.lastNote {
				bad += " [" + note + "]"
			} else if exp != got {
				bad += " [still so]"
			}
			w.lastNote = note
		}
	}
	term := fmt.Sprintf("mkS %s %s %s %s\n     %s %s %d %d %s",
		evTerm, oterm, rm, meta, gterm, hterm, len(w.snaps), nf, hx.List(fr))
	if w.light && !withGraph && !withDigest && inTxn && e.fan && panicked == "" {
		k := map[string]int{"Handle": 0, "Update": 1, "Delete": 2}[e.kind]
		o := map[string]int{"ok": 0, "exist": 1, "notfound": 2}[oname]
		rmid := uint64(0)
		if removed != nil {
			rmid = w.rid[removed]
		}
		term = fmt.Sprintf("F %d %d %d %d %d %d %d", k, e.a, e.b, e.c, id, o, rmid)
	}
	human := e.kind
	switch e.kind {
	case "Handle", "Update", "Delete":
		human = fmt.Sprintf("%s %s %q", e.kind, e.method, e.pat)
	case "Truncate":
		human = fmt.Sprintf("Truncate %v", e.methods)
	}
	if !inTxn && (e.kind == "Handle" || e.kind == "Update" || e.kind == "Delete" || e.kind == "Truncate") {
		human = "Router." + human
	}
	return "(" + term + ")", human + " -> " + oname + bad
}

// arndSrc: the stream the abandoned walks draw from (one fork per world, in creation order).
var arndSrc = hx.NewRand(hx.Seed() + 30307)

func newWorld(light bool) *world {
	f, err := fox.New()
	hx.Fatal(err)
	return &world{f: f, rid: map[*fox.Route]uint64{}, light: light, arnd: arndSrc.Fork()}
}

func (w *world) release() {
	if w.txn != nil {
		w.txn.Abort()
		w.txn = nil
	}
	for _, s := range w.snaps {
		if s.tx != nil {
			s.tx.Abort()
		}
	}
}

const header = "From FoxBase Require Import Bytes.\nFrom FoxRoute Require Import Node Tree Heap Heap2.\nLocal Open Scope N_scope.\n" +
	"Definition F := mkFan (S2B \"" + alphabet + "\").\n"
const footer = "Definition codes := Eval vm_compute in c3_codes cases.\n" +
	"Definition mism := Eval vm_compute in codes_eq 1 codes.\nPrint mism.\n" +
	"Definition viol := Eval vm_compute in c3_violations cases.\nPrint viol.\n" +
	"Definition oof := Eval vm_compute in codes_eq 2 codes.\nPrint oof.\n"

func main() {
	args := hx.Args()
	out, tier := args["out"], args["tier"]
	shards := hx.Atoi(args["shards"], 16)
	rnd := hx.NewRand(hx.Seed() + 303)

	cs := &hx.Cases{Header: header, Type: "c3case", Footer: footer}
	st := &hx.Stats{Rule: "histories of 6-45 events over a pool of 5-12 colliding patterns (shared prefixes, same position with different wildcard names, hostnames) on GET/POST/FOO/BAR: Handle/Update/Delete/Truncate issued through the Router helpers or inside write transactions (Commit/Abort), with snapshots (Txn.Iter, Txn.Snapshot, Router.Iter, Router.Txn(false)) at random points including inside write transactions; every snapshot is re-observed in full and the object graph is dumped after every event; plus eviction streams (fan-out 66, depth 3, > 4096 nodes cloned in one transaction). non-trivial = history in which at least one snapshot was taken and at least one successful write followed it; distinct = distinct event sequences; plus nested-structure scenarios (one fifth as many): a nested tree is registered, readers snapshot the published state, then cached write transactions restructure a node (delete that merges a parent with its last child, delete of an inner route, insert that splits an edge, update) and write at / next to / below it, mostly without Iter()/Snapshot() in between, ending in Commit or Abort; plus settle scenarios (one tenth as many): size-neutral write sets (Update, Delete+Handle, Handle+Delete) with Txn.Iter()/Txn.Snapshot() as the last operation before Commit/Abort. Before every full re-observation of a snapshot, range loops over Seq-returning Iter methods (All, Methods, Prefix, Routes, Reverse) of newer iterators are left early after k items; after every event the published routes and the open transaction's view are compared with a tracker of the issued writes that ignores snapshot events"}

	n := 300
	if tier == "thorough" {
		n = hx.Atoi(os.Getenv("VERIF_C03_N"), 8000)
	}
	nontrivial := 0
	seen := map[string]bool{}
	for hi := 0; hi < n; hi++ {
		w := newWorld(false)
		pool := make([]string, rnd.Range(5, 12))
		hostPct := hx.Pick(rnd, []int{0, 0, 30, 70})
		for i := range pool {
			pool[i] = rt.Pattern(rnd, hostPct)
			if i > 0 && rnd.Pct(35) {
				b := pool[rnd.Intn(i)]
				switch rnd.Intn(4) {
				case 0:
					b = strings.Replace(b, "{x}", "{y}", 1)
				case 1:
					b = strings.Replace(b, "*{w}", "*{v}", 1)
				case 2:
					b = b + hx.Pick(rnd, []string{"/a", "/{x}", "b", "/"})
				case 3:
					if len(b) > 2 {
						b = b[:rnd.Range(1, len(b)-1)]
					}
				}
				pool[i] = b
			}
		}
		mode := rnd.Intn(100)
		wide := mode < 20
		deep := mode >= 20 && mode < 45
		manyMethods := mode >= 45 && mode < 60
		infix := mode >= 60 && mode < 72
		if infix {
			pool = infixPool(rnd)
		}
		if deep {
			// chains of prefixes: most patterns are prefixes or siblings of others, so failed calls (exists / not found)
			// end on nodes that later operations of the same transaction pass through
			pool = []string{"/" + hx.Pick(rnd, []string{"a", "b", "c"})}
			for len(pool) < 12 {
				b := hx.Pick(rnd, pool)
				b += hx.Pick(rnd, []string{"/a", "/b", "/c", "a", "b", "/", "/{x}"})
				if !strings.Contains(b, "//") && !strings.Contains(b, "}a") && !strings.Contains(b, "}b") && !strings.Contains(b, "}{") {
					pool = append(pool, b)
				}
			}
		}
		if wide {
			// wide nodes: many one-letter edges below "/" and below a few "/x/" prefixes, inserted in random
			// order (children arrays grow by append and are re-sorted; spare capacity of a backing array matters)
			letters := []byte("abcdefghijklmnop")
			for i := len(letters) - 1; i > 0; i-- {
				j := rnd.Intn(i + 1)
				letters[i], letters[j] = letters[j], letters[i]
			}
			pool = pool[:0]
			nl := rnd.Range(6, 12)
			for i := 0; i < nl; i++ {
				pool = append(pool, "/"+string(letters[i]))
				if rnd.Pct(30) {
					pool = append(pool, "/"+string(letters[i])+"/"+string(letters[rnd.Intn(nl)]))
				}
			}
		}
		w.pats = pool
		w.methods = []string{"GET", "POST", "FOO", "BAR"}
		if wide || infix {
			w.methods = []string{"GET", "FOO"}
		}
		if manyMethods {
			// method roots come and go (addRoot / removeRoot on the roots slice)
			w.methods = []string{"FOO", "BAR", "BAZ", "QUX", "GET"}
			pool = pool[:rnd.Range(2, 4)]
			w.pats = pool
		}
		for _, p := range pool {
			for k := 0; k < 3; k++ {
				h, pa := rt.SplitPattern(rt.Instantiate(rnd, p, false))
				if pa == "" {
					pa = "/"
				}
				if k == 1 {
					pa = rt.PerturbPath(rnd, pa)
				}
				w.probes = append(w.probes, probe{hx.Pick(rnd, w.methods), h, pa})
			}
		}
		steps := rnd.Range(6, 45)
		snapPct := hx.Pick(rnd, []int{8, 15, 25})
		switch {
		case wide:
			st.Count("history:wide")
		case deep:
			st.Count("history:deep")
		case manyMethods:
			st.Count("history:many-methods")
		case infix:
			st.Count("history:infix-catchall")
		default:
			st.Count("history:mixed")
		}
		togglePct := 9
		if deep {
			togglePct = 5
			steps = rnd.Range(20, 45)
		}
		var terms, human []string
		writesAfterSnap := 0
		for si := 0; si < steps; si++ {
			var e ev
			r := rnd.Intn(100)
			switch {
			case r < snapPct && len(w.snaps) < 8:
				if w.txn != nil && rnd.Pct(75) {
					e.kind = hx.Pick(rnd, []string{"SnapIter", "SnapClone"})
				} else {
					e.kind = hx.Pick(rnd, []string{"ObsIter", "ObsTxn"})
				}
			case r < snapPct+togglePct:
				if w.txn == nil {
					e.kind = "Begin"
					if len(w.snaps) < 8 && rnd.Pct(50) && (len(human) == 0 || !strings.HasPrefix(human[len(human)-1], "Obs")) {
						e.kind = hx.Pick(rnd, []string{"ObsIter", "ObsTxn"}) // a reader holds the published tree while the transaction runs
					}
				} else if rnd.Pct(75) {
					e.kind = "Commit"
				} else {
					e.kind = "Abort"
				}
			default:
				hp := 45
				if wide {
					hp = 65
				}
				switch q := rnd.Intn(100); {
				case q < hp:
					e.kind = "Handle"
				case q < hp+13:
					e.kind = "Update"
				case q < 95:
					e.kind = "Delete"
				default:
					e.kind = "Truncate"
				}
			}
			e.method = hx.Pick(rnd, w.methods)
			if rnd.Pct(3) {
				e.method = hx.Pick(rnd, []string{"", "get", "G3T"})
			}
			e.pat = hx.Pick(rnd, pool)
			if rnd.Pct(4) {
				e.pat = hx.Pick(rnd, []string{"", "a", "/{", "/*{}", "/a{x}b", "/{x}{y}", "a..b/"})
			}
			if e.kind == "Truncate" {
				for _, m := range w.methods {
					if rnd.Pct(30) {
						e.methods = append(e.methods, m)
					}
				}
				if rnd.Pct(15) {
					e.methods = append(e.methods, "NOPE")
				}
			}
			t, h := w.apply(e, 1, true)
			terms = append(terms, t)
			human = append(human, h)
			st.Count("ev:" + e.kind)
			if strings.HasSuffix(h, "-> ok") && len(w.snaps) > 0 && (e.kind == "Handle" || e.kind == "Update" || e.kind == "Delete" || e.kind == "Truncate") {
				writesAfterSnap++
			}
		}
		st.Count(fmt.Sprintf("snapshots:%d", len(w.snaps)))
		w.release()
		hs := strings.Join(human, " ; ")
		cs.Add("{| k_cap := 4096; k_steps := "+hx.List(terms)+" |}", hs)
		if writesAfterSnap > 0 && !seen[hs] {
			nontrivial++
		}
		seen[hs] = true
		if len(st.Samples) < 3 && writesAfterSnap > 0 {
			st.Samples = append(st.Samples, hs)
		}
	}

	// nested-structure scenarios: restructure a node inside a cached transaction, then write at / below it
	nn := n / 5
	for k := 0; k < nn; k++ {
		t, h, nt := nestedHistory(rnd, st)
		cs.Add(t, h)
		if nt && !seen[h] {
			nontrivial++
		}
		seen[h] = true
	}

	// settle scenarios (round 7): write sets that leave the size unchanged, a snapshot as the last tree operation
	// before Commit / Abort. A stream of their own, so that the histories above are the ones of the earlier rounds.
	srnd := hx.NewRand(hx.Seed() + 30311)
	for k := 0; k < n/10; k++ {
		t, h, nt := settleHistory(srnd, st)
		cs.Add(t, h)
		if nt && !seen[h] {
			nontrivial++
		}
		seen[h] = true
	}

	// eviction streams
	ne := 1
	if tier == "thorough" {
		ne = 3
	}
	for k := 0; k < ne; k++ {
		dn, dt, t, h, cloned := evictionStream(rnd, st, fmt.Sprintf("stream%d", k))
		cs.AddWithDef(dn, dt, t, h)
		nontrivial++
		if st.Extra == nil {
			st.Extra = map[string]any{}
		}
		st.Extra[fmt.Sprintf("eviction_stream_%d_distinct_nodes_cloned_in_one_txn", k)] = cloned
	}
	st.Evaluations = cs.Len()
	st.DistinctNontrivial = nontrivial
	hx.Fatal(cs.Write(out, shards))
	hx.Fatal(st.Write(out))
	fmt.Printf("c03: %d histories\n", cs.Len())
}

// infixPool: families around infix catch-alls. A node whose key contains one or two infix catch-alls carries a
// precomputed continuation ("inode") chain that the lookup walk - not the iteration - goes through; the routes
// below such a node (static, param, deeper) are what a later write adds or removes.
func infixPool(rnd *hx.Rand) []string {
	bases := []string{"/files/*{path}/meta", "/a/*{w}/b", "/*{v}/x", "/s/*{a}/m/*{b}/e", "/q/*{a}/{b}/r", "/a*{w}/k",
		"h.com/f/*{p}/t", "/s/*{a}/m/*{b}", "/{x}/*{w}/c"}
	var pool []string
	nb := rnd.Range(1, 3)
	for i := 0; i < nb; i++ {
		b := hx.Pick(rnd, bases)
		pool = append(pool, b)
		for _, sfx := range []string{"/x", "/y", "/{id}", "/x/deep", "z", "/x/{id}/e", "/"} {
			if rnd.Pct(55) {
				pool = append(pool, b+sfx)
			}
		}
	}
	if rnd.Pct(50) {
		pool = append(pool, hx.Pick(rnd, []string{"/files/static", "/a/b", "/s/t", "/{x}/y"}))
	}
	return pool
}

// nestedTree draws a nested set of patterns: every inner position has 2-3 edges with distinct first bytes, each
// edge being a leaf or an inner position again (depth <= 3); some inner positions are routes themselves.
// Shapes like {P+"a", P+"bx", P+"by"} (a leaf next to a sibling that has children) are the common case.
func nestedTree(rnd *hx.Rand, prefix string, depth int, out *[]string) {
	letters := []string{"a", "b", "c", "d", "e"}
	for i := len(letters) - 1; i > 0; i-- {
		j := rnd.Intn(i + 1)
		letters[i], letters[j] = letters[j], letters[i]
	}
	k := 2
	if rnd.Pct(35) {
		k = 3
	}
	inner := 0
	for i := 0; i < k; i++ {
		edge := letters[i] + hx.Pick(rnd, []string{"", "", "", "x", "/", "o/"})
		if depth < 3 && (rnd.Pct(45) || (i == k-1 && inner == 0 && depth == 1)) {
			inner++
			if rnd.Pct(20) {
				*out = append(*out, prefix+edge) // an inner position that is a route too
			}
			nestedTree(rnd, prefix+edge, depth+1, out)
		} else {
			*out = append(*out, prefix+edge)
		}
	}
}

func commonPrefixLen(a, b string) int {
	i := 0
	for i < len(a) && i < len(b) && a[i] == b[i] {
		i++
	}
	return i
}

// nestedHistory: register a nested tree, let readers take snapshots of the published state, then run cached write
// transactions in which one call restructures a node (a delete that merges a parent with its last child, a delete
// of an inner route, an insert that splits an edge, an update) and the following calls write at, next to and below
// the restructured node - mostly with no Iter()/Snapshot() in between - and end with Commit or Abort. The readers'
// snapshots are re-observed and the object graph is compared after every event, as everywhere else.
func nestedHistory(rnd *hx.Rand, st *hx.Stats) (string, string, bool) {
	w := newWorld(false)
	prefix := hx.Pick(rnd, []string{"/foo/", "/", "/a/", "/x/y/", "/{p}/", "h.com/", "a.{h}/v/", "/foo",
		"/files/*{path}/meta/", "/s/*{a}/m/*{b}/", "/*{w}/k", "/f/*{p}/t/", "h.com/d/*{p}/"})
	var pool []string
	nestedTree(rnd, prefix, 1, &pool)
	method := hx.Pick(rnd, []string{"GET", "GET", "GET", "POST", "FOO"})
	w.methods = []string{method, hx.Pick(rnd, []string{"GET", "BAR"})}
	// patterns the transaction may add below / next to existing ones
	extra := map[string]bool{}
	for _, p := range pool {
		for _, sfx := range []string{"/1", "z", "/{id}", "1/2"} {
			q := p + sfx
			if !strings.Contains(q, "//") {
				extra[q] = true
			}
		}
	}
	var below []string
	for _, q := range hx.SortedKeys(extra) {
		below = append(below, q)
	}
	w.pats = append(append([]string{}, pool...), below...)
	if len(w.pats) > 60 {
		// keep every registered pattern and a random part of the patterns a transaction may add
		for i := len(below) - 1; i > 0; i-- {
			j := rnd.Intn(i + 1)
			below[i], below[j] = below[j], below[i]
		}
		w.pats = append(append([]string{}, pool...), below[:max(0, 60-len(pool))]...)
	}
	for _, p := range w.pats {
		h, pa := rt.SplitPattern(rt.Instantiate(rnd, p, false))
		if pa == "" {
			pa = "/"
		}
		w.probes = append(w.probes, probe{method, h, pa})
	}
	var terms, human []string
	writesAfterSnap := 0
	step := func(e ev) string {
		if e.method == "" {
			e.method = method
		}
		t, h := w.apply(e, 1, true)
		terms = append(terms, t)
		human = append(human, h)
		st.Count("nested-ev:" + e.kind)
		if strings.HasSuffix(h, "-> ok") && len(w.snaps) > 0 && (e.kind == "Handle" || e.kind == "Update" || e.kind == "Delete") {
			writesAfterSnap++
		}
		return h
	}
	// registration: one-shot helpers in random order, or one transaction
	order := append([]string{}, pool...)
	for i := len(order) - 1; i > 0; i-- {
		j := rnd.Intn(i + 1)
		order[i], order[j] = order[j], order[i]
	}
	registered := map[string]bool{}
	inTxn := rnd.Pct(30)
	if inTxn {
		step(ev{kind: "Begin"})
	}
	for _, p := range order {
		if strings.HasSuffix(step(ev{kind: "Handle", pat: p}), "-> ok") {
			registered[p] = true
		}
	}
	if inTxn {
		step(ev{kind: "Commit"})
	}
	rounds := rnd.Range(1, 2)
	for round := 0; round < rounds; round++ {
		// readers of the published state
		for _, k := range []string{"ObsIter", "ObsTxn"} {
			if len(w.snaps) < 6 && rnd.Pct(80) {
				step(ev{kind: k})
			}
		}
		step(ev{kind: "Begin"})
		nops := rnd.Range(2, 6)
		focus := ""
		for i := 0; i < nops; i++ {
			live := hx.SortedKeys(registered)
			if len(live) == 0 {
				break
			}
			if focus == "" || rnd.Pct(25) {
				// the restructuring call
				focus = hx.Pick(rnd, live)
				switch q := rnd.Intn(100); {
				case q < 65:
					if strings.HasSuffix(step(ev{kind: "Delete", pat: focus}), "-> ok") {
						delete(registered, focus)
					}
				case q < 80:
					step(ev{kind: "Update", pat: focus})
				default:
					np := focus[:rnd.Range(min(len(prefix), len(focus)), len(focus))] + hx.Pick(rnd, []string{"q", "/q", ""})
					if strings.HasSuffix(step(ev{kind: "Handle", pat: np}), "-> ok") {
						registered[np] = true
					}
				}
				continue
			}
			if rnd.Pct(12) && len(w.snaps) < 8 {
				step(ev{kind: hx.Pick(rnd, []string{"SnapIter", "SnapClone"})})
				continue
			}
			// a write near the restructured node: the registered pattern sharing the longest prefix with it
			best, bl := "", -1
			for _, p := range live {
				if p == focus {
					continue
				}
				if l := commonPrefixLen(p, focus); l > bl || (l == bl && rnd.Bool()) {
					best, bl = p, l
				}
			}
			if best == "" {
				best = focus
			}
			switch q := rnd.Intn(100); {
			case q < 50:
				np := best + hx.Pick(rnd, []string{"/1", "z", "/{id}", "1/2"})
				if strings.HasSuffix(step(ev{kind: "Handle", pat: np}), "-> ok") {
					registered[np] = true
				}
			case q < 70:
				step(ev{kind: "Update", pat: best})
			case q < 90:
				if strings.HasSuffix(step(ev{kind: "Delete", pat: best}), "-> ok") {
					delete(registered, best)
				}
				focus = best
			default:
				step(ev{kind: "Handle", pat: focus}) // put the deleted route back (or "exists")
				registered[focus] = true
			}
		}
		if rnd.Pct(50) {
			step(ev{kind: "Commit"})
		} else {
			step(ev{kind: "Abort"})
			// the transaction's view is gone: recompute what is registered from the router
			registered = map[string]bool{}
			for _, p := range w.pats {
				if w.f.Has(method, p) {
					registered[p] = true
				}
			}
			for _, p := range hx.SortedKeys(extra) {
				if w.f.Has(method, p) {
					registered[p] = true
				}
			}
		}
		// the router goes on
		for i := rnd.Range(0, 2); i > 0; i-- {
			live := hx.SortedKeys(registered)
			if len(live) == 0 {
				break
			}
			p := hx.Pick(rnd, live)
			if rnd.Bool() {
				step(ev{kind: "Update", pat: p})
			} else if strings.HasSuffix(step(ev{kind: "Delete", pat: p}), "-> ok") {
				delete(registered, p)
			}
		}
	}
	st.Count("history:nested")
	st.Count(fmt.Sprintf("snapshots:%d", len(w.snaps)))
	w.release()
	hs := strings.Join(human, " ; ")
	return "{| k_cap := 4096; k_steps := " + hx.List(terms) + " |}", hs, writesAfterSnap > 0
}

// settleHistory: "writes are unaffected by the existence of a snapshot", at the point where a transaction is
// settled. A nested tree is registered; then 2-4 write transactions run a write set that mostly leaves the number of
// routes unchanged (Update; Delete p + Handle p; Handle q + Delete p; Handle q + Delete q), sometimes not (a single
// Handle or Delete, Truncate of a method + one route put back), with Txn.Iter() / Txn.Snapshot() taken after the
// last write (60 %), between two writes (20 %) or not at all, and end with Commit (75 %) or Abort; readers hold the
// published tree; one-shot writes follow. After every event the tracker (which ignores snapshot events) is compared
// with what the router has published and with what the open transaction sees, next to the usual observations.
func settleHistory(rnd *hx.Rand, st *hx.Stats) (string, string, bool) {
	w := newWorld(false)
	prefix := hx.Pick(rnd, []string{"/foo/", "/", "/a/", "/{p}/", "h.com/", "/files/*{path}/meta/", "/v"})
	var pool []string
	nestedTree(rnd, prefix, 2, &pool)
	method := hx.Pick(rnd, []string{"GET", "GET", "POST", "FOO"})
	other := hx.Pick(rnd, []string{"GET", "BAR"})
	w.methods = []string{method, other}
	var fresh []string
	for _, p := range pool {
		for _, sfx := range []string{"/1", "z", "/{id}"} {
			if q := p + sfx; !strings.Contains(q, "//") && len(fresh) < 12 {
				fresh = append(fresh, q)
			}
		}
	}
	w.pats = append(append([]string{}, pool...), fresh...)
	for _, p := range w.pats {
		h, pa := rt.SplitPattern(rt.Instantiate(rnd, p, false))
		if pa == "" {
			pa = "/"
		}
		w.probes = append(w.probes, probe{method, h, pa})
	}
	var terms, human []string
	writesAfterSnap := 0
	step := func(e ev) bool {
		if e.method == "" {
			e.method = method
		}
		t, h := w.apply(e, 1, true)
		terms = append(terms, t)
		human = append(human, h)
		st.Count("settle-ev:" + e.kind)
		ok := strings.Contains(h, "-> ok")
		if ok && len(w.snaps) > 0 && (e.kind == "Handle" || e.kind == "Update" || e.kind == "Delete" || e.kind == "Truncate") {
			writesAfterSnap++
		}
		return ok
	}
	live := map[string]bool{}
	for _, p := range pool {
		if step(ev{kind: "Handle", pat: p}) {
			live[p] = true
		}
	}
	if rnd.Pct(40) {
		step(ev{kind: "Handle", method: other, pat: hx.Pick(rnd, pool)})
	}
	pickLive := func() string {
		l := hx.SortedKeys(live)
		if len(l) == 0 {
			return hx.Pick(rnd, pool)
		}
		return hx.Pick(rnd, l)
	}
	for round := rnd.Range(2, 4); round > 0; round-- {
		if len(w.snaps) < 6 && rnd.Pct(50) {
			step(ev{kind: hx.Pick(rnd, []string{"ObsIter", "ObsTxn"})})
		}
		step(ev{kind: "Begin"})
		before := map[string]bool{}
		for p := range live {
			before[p] = true
		}
		// the write set, as a list of calls
		var calls []ev
		for g := rnd.Range(1, 3); g > 0; g-- {
			p, q := pickLive(), hx.Pick(rnd, fresh)
			switch x := rnd.Intn(100); {
			case x < 30:
				calls = append(calls, ev{kind: "Update", pat: p})
			case x < 45:
				calls = append(calls, ev{kind: "Delete", pat: p}, ev{kind: "Handle", pat: p})
			case x < 60:
				calls = append(calls, ev{kind: "Handle", pat: q}, ev{kind: "Delete", pat: p})
			case x < 70:
				calls = append(calls, ev{kind: "Handle", pat: q}, ev{kind: "Delete", pat: q})
			case x < 80:
				calls = append(calls, ev{kind: "Handle", pat: q})
			case x < 90:
				calls = append(calls, ev{kind: "Delete", pat: p})
			case x < 95:
				calls = append(calls, ev{kind: "Update", method: other, pat: p})
			default:
				calls = append(calls, ev{kind: "Truncate", methods: []string{other}}, ev{kind: "Handle", method: other, pat: p})
			}
		}
		snapAt := -1 // index of the call after which the snapshot is taken
		switch x := rnd.Intn(100); {
		case x < 60:
			snapAt = len(calls) - 1
		case x < 80:
			snapAt = rnd.Intn(len(calls))
		}
		for i, c := range calls {
			ok := step(c)
			if ok && (c.method == "" || c.method == method) {
				switch c.kind {
				case "Handle":
					live[c.pat] = true
				case "Delete":
					delete(live, c.pat)
				}
			}
			if i == snapAt && len(w.snaps) < 10 {
				step(ev{kind: hx.Pick(rnd, []string{"SnapIter", "SnapClone"})})
			}
		}
		if rnd.Pct(75) {
			step(ev{kind: "Commit"})
		} else {
			step(ev{kind: "Abort"})
			live = before
		}
		for i := rnd.Range(0, 2); i > 0; i-- {
			switch rnd.Intn(3) {
			case 0:
				step(ev{kind: "Update", pat: pickLive()})
			case 1:
				if p := pickLive(); step(ev{kind: "Delete", pat: p}) {
					delete(live, p)
				}
			default:
				if q := hx.Pick(rnd, fresh); step(ev{kind: "Handle", pat: q}) {
					live[q] = true
				}
			}
		}
	}
	st.Count("history:settle")
	st.Count(fmt.Sprintf("snapshots:%d", len(w.snaps)))
	w.release()
	hs := strings.Join(human, " ; ")
	return "{| k_cap := 4096; k_steps := " + hx.List(terms) + " |}", hs, writesAfterSnap > 0
}

const alphabet = "0123456789abcdefghijklmnopqrstuvwxyzABCDEFGHIJKLMNOPQRSTUVWXYZ-_~!"

// evictionStream: /a/b and /a/b/x for all a, b in a 66-letter alphabet (root -> "/" -> 66 nodes "a/"
// -> 66 nodes "b" each with one child "/x"), then ONE transaction that updates the leaf below every
// second-level node (1 + 1 + 66 + 4356 = 4424 clones > 4096: the LRU evicts), revisits evicted and
// still cached nodes with updates, inserts and deletes (merges), with snapshots before, in between
// and after. Graphs are compared by hash at checkpoints; snapshots are re-observed at checkpoints.
// The steps are emitted in chunks (one Definition per 500 steps).
func evictionStream(rnd *hx.Rand, st *hx.Stats, name string) (defName, defTerm, term, humanS string, cloned int) {
	w := newWorld(true)
	w.methods = []string{"GET"}
	w.prefixes = []string{"/a/", "/Z/7", "/~"}
	var terms []string
	var human []string
	step := func(e ev, gmode int, digest bool) {
		t, h := w.apply(e, gmode, digest)
		terms = append(terms, t)
		if gmode != 0 || digest || strings.Contains(h, "CHANGED") || strings.Contains(h, "panic") || !e.fan {
			human = append(human, fmt.Sprintf("#%d %s", len(terms), h))
		}
		st.Count("evict-ev:" + e.kind)
	}
	L := len(alphabet)
	fan := func(kind string, a, b int, c byte) ev {
		p := "/" + alphabet[a:a+1] + "/" + alphabet[b:b+1]
		if c != 0 {
			p += "/" + string([]byte{c})
		}
		return ev{kind: kind, method: "GET", pat: p, fan: true, a: a, b: b, c: int(c)}
	}
	step(ev{kind: "Begin"}, 0, false)
	for a := 0; a < L; a++ {
		for b := 0; b < L; b++ {
			step(fan("Handle", a, b, 0), 0, false)
			step(fan("Handle", a, b, 'x'), 0, false)
		}
		if a == L/2 {
			step(ev{kind: "SnapIter"}, 0, true)
		}
	}
	step(ev{kind: "Commit"}, 2, true)
	step(ev{kind: "ObsIter"}, 0, true)
	step(ev{kind: "Begin"}, 0, false)
	step(ev{kind: "SnapClone"}, 0, true)
	cloned = 2
	for a := 0; a < L; a++ {
		cloned++
		for b := 0; b < L; b++ {
			step(fan("Update", a, b, 'x'), 0, false)
			cloned++
		}
		if a%20 == 19 {
			step(ev{kind: "ObsTxn"}, 0, true) // a reader arrives; the write transaction's cache is untouched
		}
	}
	// revisit: early (evicted) and late (still cached) second-level nodes, with structural changes
	for k := 0; k < 300; k++ {
		a, b := rnd.Intn(8), rnd.Intn(L)
		if k%2 == 0 {
			a = L - 1 - rnd.Intn(8)
		}
		switch rnd.Intn(5) {
		case 0:
			step(fan("Handle", a, b, 'z'), 0, false)
		case 1:
			step(fan("Delete", a, b, hx.Pick(rnd, []byte{'x', 'z', 'x', 0})), 0, false)
		case 2:
			step(fan("Update", a, b, 0), 0, false)
		default:
			step(fan("Update", a, b, 'x'), 0, false)
		}
	}
	step(ev{kind: "SnapIter"}, 2, true)
	for k := 0; k < 150; k++ {
		a, b := rnd.Intn(L), rnd.Intn(L)
		step(fan(hx.Pick(rnd, []string{"Delete", "Delete", "Handle", "Update"}), a, b, hx.Pick(rnd, []byte{'x', 0})), 0, false)
	}
	step(ev{kind: "Commit"}, 2, true)
	w.release()
	var chunks []string
	var defs strings.Builder
	for i, k := 0, 0; i < len(terms); i, k = i+500, k+1 {
		cn := fmt.Sprintf("%s_%d", name, k)
		chunks = append(chunks, cn)
		if k > 0 {
			defs.WriteString(".\nDefinition " + cn + " : list c3step := ")
		}
		defs.WriteString("[" + strings.Join(terms[i:min(i+500, len(terms))], ";\n ") + "]")
	}
	return name + "_0 : list c3step", defs.String(),
		"{| k_cap := 4096; k_steps := List.concat [" + strings.Join(chunks, "; ") + "] |}",
		fmt.Sprintf("eviction stream (%d events; fan-out %d; Begin, Handle /a/b and /a/b/x for all a,b, Commit, Begin, Update /a/b/x for all a,b, mixed revisits, Commit; every event is in the case file; listed here: snapshots and checkpoints): ", len(terms), L) + strings.Join(human, " ; "), cloned
}
