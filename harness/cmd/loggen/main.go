// loggen: tie A for property C20 (docs/GenC20.md).
//
// Translates the handler closure of LoggerWithHandler (logger.go of the tree under test) into
// Gallina over the types of coq/C20/{Types,Logger}.v and the primitives of coq/C20/LogSem.v:
//
//	loggen repo=<fox tree> out=<coq/C20/GenLogger.v>
//
// The translation walks the syntax tree statement by statement, in source order, through a
// whitelist of statement and expression shapes; every accepted statement leaves a `let`, a
// `go_call_handler` or a `tr ++ slog_log_attrs ..` in the term (or, for the three things the
// model abstracts - time.Now(), time.Since(start), c.Request() - a `(* skipped *)` comment after
// having been recognised exactly).  Reads of the writer name the writer state that is current at
// that point of the body (w0 before next(c), w1 after), so the order "next(c), then the status"
// is part of the term.  Anything else is REFUSED: GenLogger.v becomes a `(* REFUSED .. *)` stub,
// exit status 1, and coq/C20/BridgeLogger.v no longer compiles.
//
// go/ast + go/types with the source importer; standard library only.
package main

import (
	"crypto/sha256"
	"fmt"
	"go/ast"
	"go/constant"
	"go/importer"
	"go/parser"
	"go/token"
	"go/types"
	"os"
	"path/filepath"
	"sort"
	"strings"
)

const foxPath = "github.com/tigerwill90/fox"

var (
	fset = token.NewFileSet()
	info *types.Info
	pkg  *types.Package
	repo string
)

type refusal struct{ msg string }

func pos(n ast.Node) string {
	p := fset.Position(n.Pos())
	rel, err := filepath.Rel(repo, p.Filename)
	if err != nil {
		rel = p.Filename
	}
	return fmt.Sprintf("%s:%d", rel, p.Line)
}

func refuse(n ast.Node, f string, a ...any) {
	panic(refusal{pos(n) + ": " + fmt.Sprintf(f, a...)})
}

func src(n ast.Node) string {
	p, e := fset.Position(n.Pos()), fset.Position(n.End())
	b, err := os.ReadFile(p.Filename)
	if err != nil || e.Offset > len(b) {
		return "?"
	}
	return string(b[p.Offset:e.Offset])
}

func oneLine(n ast.Node) string {
	s := strings.Join(strings.Fields(src(n)), " ")
	s = strings.ReplaceAll(s, "*)", "* )")
	s = strings.ReplaceAll(s, "(*", "( *")
	// a double quote inside a Coq comment opens a string
	return strings.ReplaceAll(s, `"`, "'")
}

// ---------------------------------------------------------------- value kinds

type kind int

const (
	kStr     kind = iota // Go string            -> bytes
	kInt                 // Go int               -> Z
	kLevel               // slog.Level           -> slog_level
	kBool                // Go bool              -> bool
	kTime                // time.Time            -> abstracted (skipped)
	kDur                 // time.Duration        -> abstracted (skipped)
	kReq                 // *http.Request        -> abstracted (skipped)
	kLogger              // *slog.Logger         -> slog_logger
	kHandler             // slog.Handler param   -> option slog_level
	kNext                // fox.HandlerFunc param-> handler
	kCtx                 // fox.Context param    -> env
	kIP                  // first result of c.ClientIP(): bound by the ResOk pattern
	kErr                 // second result of c.ClientIP(): bound by the ResErr pattern
)

var kindName = map[kind]string{kStr: "string", kInt: "int", kLevel: "slog.Level", kBool: "bool", kTime: "time.Time (abstracted)",
	kDur: "time.Duration (abstracted)", kReq: "*http.Request (abstracted)", kLogger: "*slog.Logger", kHandler: "slog.Handler",
	kNext: "HandlerFunc", kCtx: "Context", kIP: "client IP", kErr: "client IP error"}

type local struct {
	kind kind
	coq  string
	pair *pairInfo // kIP / kErr
	at   int       // kTime: number of calls of the wrapped handler before the definition
}

// ip, err := c.ClientIP(): one Coq value of type resolution; what is known about err on the current path
type pairInfo struct {
	coq   string
	state int // 0 unknown, 1 err == nil (ResOk branch), 2 err != nil (ResErr branch)
}

type trans struct {
	locals map[types.Object]*local
	wi, ti int // current writer state / event history index
	opened int // go_call_handler continuations to close
	sb     strings.Builder
	ctx    types.Object
}

func coqIdent(id *ast.Ident) string {
	for _, r := range id.Name {
		if !(r == '_' || r >= '0' && r <= '9' || r >= 'a' && r <= 'z' || r >= 'A' && r <= 'Z') {
			refuse(id, "identifier %q is not plain ASCII", id.Name)
		}
	}
	return "g_" + id.Name
}

func coqString(n ast.Node, s string) string {
	var sb strings.Builder
	for _, r := range s {
		if r < 0x20 || r > 0x7e {
			refuse(n, "string constant %q has a character outside printable ASCII", s)
		}
		if r == '"' {
			sb.WriteString(`""`)
		} else {
			sb.WriteRune(r)
		}
	}
	return `(S2B "` + sb.String() + `")`
}

func (t *trans) w() string  { return fmt.Sprintf("w%d", t.wi) }
func (t *trans) tr() string { return fmt.Sprintf("tr%d", t.ti) }

func (t *trans) line(ind int, f string, a ...any) {
	t.sb.WriteString(strings.Repeat("  ", ind))
	fmt.Fprintf(&t.sb, f, a...)
	t.sb.WriteString("\n")
}

func (t *trans) lookup(id *ast.Ident) *local {
	obj := info.Uses[id]
	if obj == nil {
		obj = info.Defs[id]
	}
	if obj == nil {
		return nil
	}
	return t.locals[obj]
}

// ---------------------------------------------------------------- go/types helpers

func unparen(e ast.Expr) ast.Expr {
	for {
		p, ok := e.(*ast.ParenExpr)
		if !ok {
			return e
		}
		e = p.X
	}
}

// full name of the function or method a call expression calls ("" if it is not a static call)
func calleeName(c *ast.CallExpr) string {
	switch f := unparen(c.Fun).(type) {
	case *ast.Ident:
		if fn, ok := info.Uses[f].(*types.Func); ok {
			return fn.FullName()
		}
	case *ast.SelectorExpr:
		if sel := info.Selections[f]; sel != nil {
			if fn, ok := sel.Obj().(*types.Func); ok && sel.Kind() == types.MethodVal {
				return fn.FullName()
			}
			return ""
		}
		if fn, ok := info.Uses[f.Sel].(*types.Func); ok { // package-qualified
			return fn.FullName()
		}
	}
	return ""
}

func typeString(e ast.Expr) string {
	tv, ok := info.Types[e]
	if !ok || tv.Type == nil {
		return "?"
	}
	return tv.Type.String()
}

func kindOfType(n ast.Node, ty types.Type) kind {
	switch ty.String() {
	case "string":
		return kStr
	case "int":
		return kInt
	case "bool":
		return kBool
	case "log/slog.Level":
		return kLevel
	}
	refuse(n, "a value of type %s has no representation in the model", ty.String())
	return 0
}

func constString(e ast.Expr) (string, bool) {
	tv, ok := info.Types[e]
	if !ok || tv.Value == nil || tv.Value.Kind() != constant.String {
		return "", false
	}
	return constant.StringVal(tv.Value), true
}

// a chain of method calls rooted at an identifier: c.Writer().Header().Get(k) -> c, [Writer Header Get]
type step struct {
	full string
	name string
	args []ast.Expr
	call *ast.CallExpr
}

func unchain(e ast.Expr) (*ast.Ident, []step) {
	var steps []step
	for {
		e = unparen(e)
		if id, ok := e.(*ast.Ident); ok {
			for i, j := 0, len(steps)-1; i < j; i, j = i+1, j-1 {
				steps[i], steps[j] = steps[j], steps[i]
			}
			return id, steps
		}
		c, ok := e.(*ast.CallExpr)
		if !ok || c.Ellipsis.IsValid() {
			return nil, nil
		}
		sel, ok := unparen(c.Fun).(*ast.SelectorExpr)
		if !ok || info.Selections[sel] == nil || info.Selections[sel].Kind() != types.MethodVal {
			return nil, nil
		}
		steps = append(steps, step{full: calleeName(c), name: sel.Sel.Name, args: c.Args, call: c})
		e = sel.X
	}
}

func chainIs(steps []step, full ...string) bool {
	if len(steps) != len(full) {
		return false
	}
	for i := range steps {
		if steps[i].full != full[i] {
			return false
		}
	}
	return true
}

func noArgs(steps []step) bool {
	for _, s := range steps {
		if len(s.args) != 0 {
			return false
		}
	}
	return true
}

const (
	mCtx    = "(" + foxPath + ".Context)."
	mWriter = "(" + foxPath + ".ResponseWriter)."
)

// ---------------------------------------------------------------- expressions

// expression of a representable kind -> Gallina
func (t *trans) expr(e ast.Expr, want kind) string {
	e = unparen(e)
	tv, ok := info.Types[e]
	if !ok || tv.Type == nil {
		refuse(e, "untyped expression %s", oneLine(e))
	}
	var ty types.Type = tv.Type
	if b, ok := ty.(*types.Basic); ok && b.Info()&types.IsUntyped != 0 {
		ty = types.Default(ty)
	}
	got := kindOfType(e, ty)
	if got != want {
		refuse(e, "%s is a %s where a %s is expected", oneLine(e), kindName[got], kindName[want])
	}
	// constants first (string literals, HeaderX, slog.LevelX, integer literals)
	if tv.Value != nil {
		switch got {
		case kStr:
			return coqString(e, constant.StringVal(tv.Value))
		case kInt:
			v, exact := constant.Int64Val(tv.Value)
			if !exact {
				refuse(e, "integer constant %s out of range", tv.Value)
			}
			return fmt.Sprintf("(%d)%%Z", v)
		case kBool:
			if constant.BoolVal(tv.Value) {
				return "true"
			}
			return "false"
		case kLevel:
			v, _ := constant.Int64Val(tv.Value)
			switch v {
			case -4:
				return "LevelDebug"
			case 0:
				return "LevelInfo"
			case 4:
				return "LevelWarn"
			case 8:
				return "LevelError"
			}
			refuse(e, "slog level constant %d is not one of Debug/Info/Warn/Error", v)
		}
	}
	switch x := e.(type) {
	case *ast.Ident:
		l := t.lookup(x)
		if l == nil {
			refuse(x, "%s is not a local of the closure", x.Name)
		}
		if l.kind != want {
			refuse(x, "%s is a %s where a %s is expected", x.Name, kindName[l.kind], kindName[want])
		}
		return l.coq
	case *ast.UnaryExpr:
		if x.Op == token.NOT && want == kBool {
			return "(negb " + t.expr(x.X, kBool) + ")"
		}
	case *ast.BinaryExpr:
		if want != kBool {
			break
		}
		switch x.Op {
		case token.LAND:
			return "(" + t.expr(x.X, kBool) + " && " + t.expr(x.Y, kBool) + ")"
		case token.LOR:
			return "(" + t.expr(x.X, kBool) + " || " + t.expr(x.Y, kBool) + ")"
		case token.EQL, token.NEQ:
			if t.isErrIdent(x.X) || t.isErrIdent(x.Y) {
				refuse(x, "a test of the ClientIP error is accepted only as the whole condition of an if (err == nil / err != nil)")
			}
			lt := info.Types[unparen(x.X)].Type
			if b, ok := lt.(*types.Basic); ok && b.Info()&types.IsUntyped != 0 {
				lt = info.Types[unparen(x.Y)].Type
				if b, ok := lt.(*types.Basic); ok && b.Info()&types.IsUntyped != 0 {
					lt = types.Default(lt)
				}
			}
			k := kindOfType(x, lt)
			var eq string
			switch k {
			case kStr:
				eq = "bytes_eqb"
			case kInt:
				eq = "Z.eqb"
			case kLevel:
				eq = "level_eqb"
			case kBool:
				eq = "Bool.eqb"
			}
			r := "(" + eq + " " + t.expr(x.X, k) + " " + t.expr(x.Y, k) + ")"
			if x.Op == token.NEQ {
				r = "(negb " + r + ")"
			}
			return r
		}
	case *ast.CallExpr:
		if x.Ellipsis.IsValid() {
			break
		}
		full := calleeName(x)
		// level(status): the function c20gen regenerates into GenFuns.v
		if full == foxPath+".level" && len(x.Args) == 1 && want == kLevel {
			return "(level " + t.expr(x.Args[0], kInt) + ")"
		}
		// errors.Is(err, ErrNoClientIPResolver)
		if full == "errors.Is" && len(x.Args) == 2 && want == kBool {
			id, ok := unparen(x.Args[0]).(*ast.Ident)
			l := (*local)(nil)
			if ok {
				l = t.lookup(id)
			}
			if l == nil || l.kind != kErr {
				refuse(x, "errors.Is: the first argument must be the error returned by c.ClientIP()")
			}
			if l.pair.state != 2 {
				refuse(x, "errors.Is(%s, ..) outside the branch where %s != nil", id.Name, id.Name)
			}
			var tgt types.Object
			switch a := unparen(x.Args[1]).(type) {
			case *ast.Ident:
				tgt = info.Uses[a]
			}
			v, ok := tgt.(*types.Var)
			if !ok || v.Pkg() == nil || v.Pkg().Path() != foxPath || v.Name() != "ErrNoClientIPResolver" || v.Parent() != v.Pkg().Scope() {
				refuse(x, "errors.Is: the target must be fox.ErrNoClientIPResolver, not %s", oneLine(x.Args[1]))
			}
			return "(errors_is_no_resolver " + l.coq + ")"
		}
		root, steps := unchain(x)
		if root == nil {
			break
		}
		rl := t.lookup(root)
		if rl == nil {
			break
		}
		switch rl.kind {
		case kCtx:
			switch {
			case chainIs(steps, mCtx+"Method") && noArgs(steps) && want == kStr:
				return "(ctx_method " + rl.coq + ")"
			case chainIs(steps, mCtx+"Host") && noArgs(steps) && want == kStr:
				return "(ctx_host " + rl.coq + ")"
			case chainIs(steps, mCtx+"Path") && noArgs(steps) && want == kStr:
				return "(ctx_path " + rl.coq + ")"
			case chainIs(steps, mCtx+"RemoteIP", "(*net.IPAddr).String") && noArgs(steps) && want == kStr:
				return "(ctx_remote_ip_string " + rl.coq + ")"
			case chainIs(steps, mCtx+"Writer", mWriter+"Status") && noArgs(steps) && want == kInt:
				return "(writer_status " + t.w() + ")"
			case chainIs(steps, mCtx+"Writer", "(net/http.ResponseWriter).Header", "(net/http.Header).Get") && want == kStr &&
				len(steps[0].args) == 0 && len(steps[1].args) == 0 && len(steps[2].args) == 1:
				k, ok := constString(steps[2].args[0])
				if !ok || k != "Location" {
					refuse(x, "only the Location entry of the response header is in the model, not %s", oneLine(steps[2].args[0]))
				}
				return "(writer_header_location " + t.w() + ")"
			}
		case kIP:
			if chainIs(steps, "(*net.IPAddr).String") && noArgs(steps) && want == kStr {
				if rl.pair.state != 1 {
					refuse(x, "%s.String() outside the branch where the ClientIP error is nil", root.Name)
				}
				return rl.coq
			}
		case kLevel:
			if chainIs(steps, "(log/slog.Level).Level") && noArgs(steps) && want == kLevel {
				return rl.coq
			}
		}
	}
	refuse(e, "expression %s is not in the accepted subset", oneLine(e))
	return ""
}

func (t *trans) isErrIdent(e ast.Expr) bool {
	id, ok := unparen(e).(*ast.Ident)
	if !ok {
		return false
	}
	l := t.lookup(id)
	return l != nil && l.kind == kErr
}

func isNil(e ast.Expr) bool {
	id, ok := unparen(e).(*ast.Ident)
	if !ok {
		return false
	}
	_, ok = info.Uses[id].(*types.Nil)
	return ok
}

// err == nil / err != nil on the ClientIP error: (pair, true if the THEN branch is the err == nil one)
func (t *trans) errTest(c ast.Expr) (*local, bool, bool) {
	b, ok := unparen(c).(*ast.BinaryExpr)
	if !ok || (b.Op != token.EQL && b.Op != token.NEQ) {
		return nil, false, false
	}
	var id ast.Expr
	switch {
	case t.isErrIdent(b.X) && isNil(b.Y):
		id = b.X
	case t.isErrIdent(b.Y) && isNil(b.X):
		id = b.Y
	default:
		return nil, false, false
	}
	return t.lookup(unparen(id).(*ast.Ident)), b.Op == token.EQL, true
}

// ---------------------------------------------------------------- statements

// if / else if / else as an expression; leaf translates a branch body, dflt stands for a missing else
func (t *trans) ifExpr(s *ast.IfStmt, ind int, leaf func(b *ast.BlockStmt, ind int) string, dflt string) string {
	if s.Init != nil {
		refuse(s, "if with an init statement")
	}
	pad := strings.Repeat("  ", ind)
	thenF := func() string { return leaf(s.Body, ind+1) }
	elseF := func() string {
		switch e := s.Else.(type) {
		case nil:
			return dflt
		case *ast.BlockStmt:
			return leaf(e, ind+1)
		case *ast.IfStmt:
			return t.ifExpr(e, ind+1, leaf, dflt)
		}
		refuse(s, "unexpected else")
		return ""
	}
	if l, thenIsOk, ok := t.errTest(s.Cond); ok {
		p := l.pair
		if p.state != 0 {
			refuse(s.Cond, "the ClientIP error is tested again on a path where the answer is known")
		}
		okF, errF := thenF, elseF
		if !thenIsOk {
			okF, errF = elseF, thenF
		}
		var first, second string
		// source order of the two branches is kept in evaluation of the translation (error messages), the
		// match lists ResOk first whatever the order
		p.state = 1
		if thenIsOk {
			first = okF()
			p.state = 2
			second = errF()
		} else {
			p.state = 2
			second = errF()
			p.state = 1
			first = okF()
		}
		p.state = 0
		ipn, ern := "_", "_"
		for _, lc := range t.locals {
			if lc.pair == p && lc.kind == kIP {
				ipn = lc.coq
			}
			if lc.pair == p && lc.kind == kErr {
				ern = lc.coq
			}
		}
		return fmt.Sprintf("(match %s with\n%s| ResOk %s =>\n%s  %s\n%s| ResErr %s =>\n%s  %s\n%send)",
			p.coq, pad, ipn, pad, first, pad, ern, pad, second, pad)
	}
	c := t.expr(s.Cond, kBool)
	th := thenF()
	el := elseF()
	return fmt.Sprintf("(if %s then\n%s  %s\n%selse\n%s  %s)", c, pad, th, pad, pad, el)
}

// leaves of an if chain
func leaves(s *ast.IfStmt) []ast.Stmt {
	out := append([]ast.Stmt{}, s.Body.List...)
	switch e := s.Else.(type) {
	case *ast.BlockStmt:
		out = append(out, e.List...)
	case *ast.IfStmt:
		out = append(out, leaves(e)...)
	}
	return out
}

func (t *trans) assignedLocal(s ast.Stmt) (*ast.Ident, *local) {
	a, ok := s.(*ast.AssignStmt)
	if !ok || a.Tok != token.ASSIGN || len(a.Lhs) != 1 || len(a.Rhs) != 1 {
		return nil, nil
	}
	id, ok := a.Lhs[0].(*ast.Ident)
	if !ok {
		return nil, nil
	}
	l := t.lookup(id)
	if l == nil || !(l.kind == kStr || l.kind == kInt || l.kind == kLevel || l.kind == kBool) {
		return nil, nil
	}
	return id, l
}

// log.LogAttrs(req.Context(), lvl, msg, attrs...) -> slog_log_attrs g_log lvl msg [attrs]
func (t *trans) logCall(s ast.Stmt) (string, bool) {
	es, ok := s.(*ast.ExprStmt)
	if !ok {
		return "", false
	}
	c, ok := unparen(es.X).(*ast.CallExpr)
	if !ok || calleeName(c) != "(*log/slog.Logger).LogAttrs" {
		return "", false
	}
	sel := unparen(c.Fun).(*ast.SelectorExpr)
	id, ok := unparen(sel.X).(*ast.Ident)
	var lg *local
	if ok {
		lg = t.lookup(id)
	}
	if lg == nil || lg.kind != kLogger {
		refuse(c, "LogAttrs on something else than the logger built from the handler argument")
	}
	if c.Ellipsis.IsValid() || len(c.Args) < 3 {
		refuse(c, "LogAttrs: explicit attribute list expected")
	}
	// the context argument: req.Context() with req := c.Request(), or c.Request().Context() - abstracted
	root, steps := unchain(c.Args[0])
	okCtx := false
	if root != nil {
		if rl := t.lookup(root); rl != nil {
			okCtx = rl.kind == kReq && chainIs(steps, "(*net/http.Request).Context") && noArgs(steps) ||
				rl.kind == kCtx && chainIs(steps, mCtx+"Request", "(*net/http.Request).Context") && noArgs(steps)
		}
	}
	if !okCtx {
		refuse(c.Args[0], "LogAttrs: the context argument must be the request's Context(), not %s", oneLine(c.Args[0]))
	}
	lvl := t.expr(c.Args[1], kLevel)
	msg := t.expr(c.Args[2], kStr)
	var attrs []string
	for _, a := range c.Args[3:] {
		attrs = append(attrs, t.attr(a))
	}
	return fmt.Sprintf("slog_log_attrs %s %s %s [%s]", lg.coq, lvl, msg, strings.Join(attrs, "; ")), true
}

func (t *trans) attr(a ast.Expr) string {
	c, ok := unparen(a).(*ast.CallExpr)
	if !ok || c.Ellipsis.IsValid() || len(c.Args) != 2 {
		refuse(a, "attribute %s is not slog.Int / slog.String / slog.Duration(key, value)", oneLine(a))
	}
	key, ok := constString(c.Args[0])
	if !ok {
		refuse(c.Args[0], "attribute key %s is not a string constant", oneLine(c.Args[0]))
	}
	k := coqString(c.Args[0], key)
	switch calleeName(c) {
	case "log/slog.Int":
		return "slog_int " + k + " " + t.expr(c.Args[1], kInt)
	case "log/slog.String":
		return "slog_string " + k + " " + t.expr(c.Args[1], kStr)
	case "log/slog.Duration":
		// the value is time: recognised exactly as roundLatency(<time.Since(start)>) and not represented
		v, ok := unparen(c.Args[1]).(*ast.CallExpr)
		if ok && calleeName(v) == foxPath+".roundLatency" && len(v.Args) == 1 && !v.Ellipsis.IsValid() {
			if id, ok := unparen(v.Args[0]).(*ast.Ident); ok {
				if l := t.lookup(id); l != nil && l.kind == kDur {
					return "slog_duration " + k
				}
			}
		}
		refuse(c.Args[1], "slog.Duration: the value must be roundLatency(<latency := time.Since(start)>), not %s", oneLine(c.Args[1]))
	}
	refuse(a, "attribute %s is not slog.Int / slog.String / slog.Duration", oneLine(a))
	return ""
}

func (t *trans) define(id *ast.Ident, l *local) {
	obj := info.Defs[id]
	if obj == nil {
		refuse(id, "%s is not a new variable here", id.Name)
	}
	t.locals[obj] = l
}

func (t *trans) stmt(s ast.Stmt, ind int) {
	switch x := s.(type) {
	case *ast.DeclStmt:
		gd, ok := x.Decl.(*ast.GenDecl)
		if !ok || gd.Tok != token.VAR {
			refuse(s, "declaration %s", oneLine(s))
		}
		for _, sp := range gd.Specs {
			vs := sp.(*ast.ValueSpec)
			if len(vs.Values) != 0 && len(vs.Values) != len(vs.Names) {
				refuse(s, "var with a multi-valued initialiser")
			}
			for i, n := range vs.Names {
				if n.Name == "_" {
					refuse(n, "blank variable")
				}
				k := kindOfType(n, info.Defs[n].Type())
				var v string
				if len(vs.Values) > 0 {
					v = t.expr(vs.Values[i], k)
				} else {
					v = map[kind]string{kStr: `(S2B "")`, kInt: "(0)%Z", kBool: "false", kLevel: "LevelInfo"}[k]
				}
				nm := coqIdent(n)
				t.line(ind, "let %s := %s in", nm, v)
				t.define(n, &local{kind: k, coq: nm})
			}
		}
	case *ast.AssignStmt:
		if x.Tok == token.ASSIGN {
			id, l := t.assignedLocal(x)
			if l == nil {
				refuse(s, "assignment %s: only a plain assignment to a string / int / slog.Level / bool local is accepted", oneLine(s))
			}
			_ = id
			t.line(ind, "let %s := %s in", l.coq, t.expr(x.Rhs[0], l.kind))
			return
		}
		if x.Tok != token.DEFINE {
			refuse(s, "assignment operator %s", x.Tok)
		}
		// ip, err := c.ClientIP()
		if len(x.Lhs) == 2 && len(x.Rhs) == 1 {
			root, steps := unchain(x.Rhs[0])
			var rl *local
			if root != nil {
				rl = t.lookup(root)
			}
			if rl == nil || rl.kind != kCtx || !chainIs(steps, mCtx+"ClientIP") || !noArgs(steps) {
				refuse(s, "two-valued definition %s: only `ip, err := c.ClientIP()` is accepted", oneLine(s))
			}
			ipId, erId := x.Lhs[0].(*ast.Ident), x.Lhs[1].(*ast.Ident)
			if erId.Name == "_" {
				refuse(s, "the error of c.ClientIP() is dropped")
			}
			if info.Defs[erId] == nil || (ipId.Name != "_" && info.Defs[ipId] == nil) {
				refuse(s, "c.ClientIP() must define new variables")
			}
			p := &pairInfo{coq: coqIdent(erId) + "_res"}
			if ipId.Name != "_" {
				p.coq = coqIdent(ipId) + "_" + erId.Name
				t.define(ipId, &local{kind: kIP, coq: coqIdent(ipId), pair: p})
			}
			t.define(erId, &local{kind: kErr, coq: coqIdent(erId), pair: p})
			t.line(ind, "let %s := ctx_client_ip %s in", p.coq, rl.coq)
			return
		}
		if len(x.Lhs) != 1 || len(x.Rhs) != 1 {
			refuse(s, "definition %s", oneLine(s))
		}
		id, ok := x.Lhs[0].(*ast.Ident)
		if !ok || id.Name == "_" {
			refuse(s, "definition %s", oneLine(s))
		}
		// the three abstracted values, recognised exactly
		if c, ok := unparen(x.Rhs[0]).(*ast.CallExpr); ok && !c.Ellipsis.IsValid() {
			switch full := calleeName(c); {
			case full == "time.Now" && len(c.Args) == 0:
				t.define(id, &local{kind: kTime, at: t.opened})
				t.line(ind, "(* skipped (time): %s *)", oneLine(s))
				return
			case full == "time.Since" && len(c.Args) == 1:
				a, ok := unparen(c.Args[0]).(*ast.Ident)
				if l := (*local)(nil); ok {
					if l = t.lookup(a); l != nil && l.kind == kTime {
						if l.at != 0 || t.opened == 0 {
							refuse(s, "the latency must span the call of the wrapped handler: time.Now() before next(c), time.Since(..) after it")
						}
						t.define(id, &local{kind: kDur})
						t.line(ind, "(* skipped (time): %s *)", oneLine(s))
						return
					}
				}
				refuse(s, "time.Since of something else than a `start := time.Now()` local")
			case full == mCtx+"Request" && len(c.Args) == 0:
				if root, steps := unchain(c); root != nil && len(steps) == 1 {
					if rl := t.lookup(root); rl != nil && rl.kind == kCtx {
						t.define(id, &local{kind: kReq})
						t.line(ind, "(* skipped (request): %s *)", oneLine(s))
						return
					}
				}
			}
		}
		tv := info.Types[unparen(x.Rhs[0])]
		if tv.Type == nil {
			refuse(s, "untyped definition")
		}
		k := kindOfType(x.Rhs[0], info.Defs[id].Type())
		nm := coqIdent(id)
		v := t.expr(x.Rhs[0], k)
		t.line(ind, "let %s := %s in", nm, v)
		t.define(id, &local{kind: k, coq: nm})
	case *ast.ExprStmt:
		// next(c)
		if c, ok := unparen(x.X).(*ast.CallExpr); ok && !c.Ellipsis.IsValid() {
			if f, ok := unparen(c.Fun).(*ast.Ident); ok {
				if l := t.lookup(f); l != nil && l.kind == kNext {
					a, ok := (ast.Expr)(nil), len(c.Args) == 1
					if ok {
						a = unparen(c.Args[0])
					}
					aid, ok2 := a.(*ast.Ident)
					if !ok || !ok2 || t.lookup(aid) == nil || t.lookup(aid).kind != kCtx {
						refuse(s, "the wrapped handler must be called with the closure's own context: %s", oneLine(s))
					}
					w0, tr0 := t.w(), t.tr()
					t.wi++
					t.ti++
					t.line(ind, "go_call_handler %s %s %s (fun %s %s =>", l.coq, w0, tr0, t.w(), t.tr())
					t.opened++
					return
				}
			}
		}
		if lc, ok := t.logCall(s); ok {
			tr0 := t.tr()
			t.ti++
			t.line(ind, "let %s := %s ++ %s in", t.tr(), tr0, lc)
			return
		}
		refuse(s, "statement %s is neither next(c) nor log.LogAttrs(..)", oneLine(s))
	case *ast.IfStmt:
		lv := leaves(x)
		nAssign, nLog := 0, 0
		var target *local
		for _, st := range lv {
			if _, l := t.assignedLocal(st); l != nil {
				if target != nil && target != l {
					refuse(st, "an if chain may assign one local only")
				}
				target = l
				nAssign++
				continue
			}
			if es, ok := st.(*ast.ExprStmt); ok {
				if c, ok := unparen(es.X).(*ast.CallExpr); ok && calleeName(c) == "(*log/slog.Logger).LogAttrs" {
					nLog++
					continue
				}
			}
			refuse(st, "inside an if only assignments to one local, or only log.LogAttrs calls, are accepted: %s", oneLine(st))
		}
		switch {
		case nLog == 0 && nAssign > 0:
			e := t.ifExpr(x, ind, func(b *ast.BlockStmt, ind int) string {
				var sb strings.Builder
				for _, st := range b.List {
					a := st.(*ast.AssignStmt)
					fmt.Fprintf(&sb, "let %s := %s in ", target.coq, t.expr(a.Rhs[0], target.kind))
				}
				return sb.String() + target.coq
			}, target.coq)
			t.line(ind, "let %s := %s in", target.coq, e)
		case nAssign == 0 && nLog > 0:
			e := t.ifExpr(x, ind, func(b *ast.BlockStmt, ind int) string {
				var parts []string
				for _, st := range b.List {
					lc, _ := t.logCall(st)
					parts = append(parts, lc)
				}
				if len(parts) == 0 {
					return "[]"
				}
				return strings.Join(parts, " ++ ")
			}, "[]")
			tr0 := t.tr()
			t.ti++
			t.line(ind, "let %s := %s ++ %s in", t.tr(), tr0, e)
		case nAssign == 0 && nLog == 0:
			refuse(s, "if without effect")
		default:
			refuse(s, "an if chain that both assigns and logs")
		}
	default:
		refuse(s, "statement %s is not in the accepted subset", oneLine(s))
	}
}

// ---------------------------------------------------------------- the function

func paramOf(fl *ast.FieldList, want string) *ast.Ident {
	if fl == nil || len(fl.List) != 1 || len(fl.List[0].Names) != 1 {
		return nil
	}
	id := fl.List[0].Names[0]
	if info.Defs[id] == nil || info.Defs[id].Type().String() != want || id.Name == "_" {
		return nil
	}
	return id
}

func soleReturnedFuncLit(n ast.Node, s ast.Stmt) *ast.FuncLit {
	r, ok := s.(*ast.ReturnStmt)
	if !ok || len(r.Results) != 1 {
		refuse(n, "expected `return func(..) { .. }`, found %s", oneLine(s))
	}
	fl, ok := unparen(r.Results[0]).(*ast.FuncLit)
	if !ok {
		refuse(r, "expected a function literal to be returned")
	}
	return fl
}

func translate(fd *ast.FuncDecl) string {
	t := &trans{locals: map[types.Object]*local{}}
	if fd.Recv != nil || fd.Type.Results == nil || len(fd.Type.Results.List) != 1 ||
		typeString(fd.Type.Results.List[0].Type) != foxPath+".MiddlewareFunc" {
		refuse(fd, "LoggerWithHandler is no longer func(slog.Handler) MiddlewareFunc")
	}
	h := paramOf(fd.Type.Params, "log/slog.Handler")
	if h == nil {
		refuse(fd, "LoggerWithHandler: one named parameter of type slog.Handler expected")
	}
	t.locals[info.Defs[h]] = &local{kind: kHandler, coq: coqIdent(h)}
	if len(fd.Body.List) < 1 {
		refuse(fd, "empty body")
	}
	lastOuter := fd.Body.List[len(fd.Body.List)-1]
	mw := soleReturnedFuncLit(fd, lastOuter)
	nx := paramOf(mw.Type.Params, foxPath+".HandlerFunc")
	if nx == nil || mw.Type.Results == nil || len(mw.Type.Results.List) != 1 || typeString(mw.Type.Results.List[0].Type) != foxPath+".HandlerFunc" {
		refuse(mw, "the middleware is no longer func(next HandlerFunc) HandlerFunc")
	}
	if len(mw.Body.List) != 1 {
		refuse(mw, "the middleware body must be the single statement `return func(c Context) { .. }`")
	}
	cl := soleReturnedFuncLit(mw, mw.Body.List[0])
	cx := paramOf(cl.Type.Params, foxPath+".Context")
	if cx == nil || cl.Type.Results != nil && len(cl.Type.Results.List) != 0 {
		refuse(cl, "the handler closure is no longer func(c Context)")
	}
	nxn, cxn := coqIdent(nx), coqIdent(cx)
	t.locals[info.Defs[nx]] = &local{kind: kNext, coq: nxn}
	t.locals[info.Defs[cx]] = &local{kind: kCtx, coq: cxn}

	t.line(0, "Definition gen_LoggerWithHandler (%s : option slog_level) (%s : handler) (%s : env) : handler :=", coqIdent(h), nxn, cxn)
	// statements of LoggerWithHandler before the return: log := slog.New(handler)
	for _, s := range fd.Body.List[:len(fd.Body.List)-1] {
		a, ok := s.(*ast.AssignStmt)
		if ok && a.Tok == token.DEFINE && len(a.Lhs) == 1 && len(a.Rhs) == 1 {
			c, okc := unparen(a.Rhs[0]).(*ast.CallExpr)
			id, oki := a.Lhs[0].(*ast.Ident)
			if okc && oki && id.Name != "_" && calleeName(c) == "log/slog.New" && len(c.Args) == 1 && !c.Ellipsis.IsValid() {
				if ai, ok := unparen(c.Args[0]).(*ast.Ident); ok {
					if l := t.lookup(ai); l != nil && l.kind == kHandler {
						nm := coqIdent(id)
						t.line(1, "let %s := slog_new %s in", nm, l.coq)
						t.define(id, &local{kind: kLogger, coq: nm})
						continue
					}
				}
			}
		}
		refuse(s, "before the returned middleware only `log := slog.New(handler)` is accepted: %s", oneLine(s))
	}
	t.line(1, "fun %s %s =>", t.w(), t.tr())
	for _, s := range cl.Body.List {
		t.stmt(s, 1)
	}
	t.line(1, "(Returned, %s, %s)%s.", t.w(), t.tr(), strings.Repeat(")", t.opened))
	return t.sb.String()
}

// ---------------------------------------------------------------- main

func writeOut(out, s string) {
	// an unchanged translation keeps the file's time stamp (no rebuild of the bridge)
	if old, err := os.ReadFile(out); err == nil && string(old) == s {
		return
	}
	if err := os.WriteFile(out, []byte(s), 0o644); err != nil {
		fmt.Fprintln(os.Stderr, "loggen:", err)
		os.Exit(2)
	}
}

const banner = "(* GENERATED by harness/cmd/loggen from logger.go of the tree under test (func LoggerWithHandler) on every run of\n" +
	"   bin/check C20 - do not edit.  Statement-by-statement translation of the handler closure; primitives: LogSem.v;\n" +
	"   bridge to Logger.v: BridgeLogger.v (docs/GenC20.md). *)\n"

func stub(out, why string) {
	why = strings.ReplaceAll(strings.ReplaceAll(why, "*)", "* )"), "(*", "( *")
	why = strings.ReplaceAll(why, `"`, "'")
	writeOut(out, banner+"(* REFUSED gen_LoggerWithHandler: "+why+" *)\n")
	fmt.Fprintln(os.Stderr, "loggen: REFUSED gen_LoggerWithHandler:", why)
	os.Exit(1)
}

func main() {
	out := ""
	repo = os.Getenv("VERIF_REPO")
	for _, a := range os.Args[1:] {
		switch {
		case strings.HasPrefix(a, "repo="):
			repo = a[5:]
		case strings.HasPrefix(a, "out="):
			out = a[4:]
		}
	}
	if repo == "" {
		repo = "/repo"
	}
	if out == "" {
		fmt.Fprintln(os.Stderr, "usage: loggen repo=<fox tree> out=<GenLogger.v>")
		os.Exit(2)
	}
	repo, _ = filepath.Abs(repo)
	out, _ = filepath.Abs(out)
	pkgs, err := parser.ParseDir(fset, repo, func(fi os.FileInfo) bool {
		n := fi.Name()
		return !strings.HasSuffix(n, "_test.go") && !strings.HasPrefix(n, "verif_")
	}, 0)
	if err != nil {
		stub(out, "the tree does not parse: "+err.Error())
	}
	p := pkgs["fox"]
	if p == nil {
		stub(out, "package fox not found in "+repo)
	}
	names := make([]string, 0, len(p.Files))
	for n := range p.Files {
		names = append(names, n)
	}
	sort.Strings(names)
	var files []*ast.File
	for _, n := range names {
		files = append(files, p.Files[n])
	}
	if err := os.Chdir(repo); err != nil {
		stub(out, err.Error())
	}
	var terrs []string
	conf := types.Config{Importer: importer.ForCompiler(fset, "source", nil), Error: func(err error) { terrs = append(terrs, err.Error()) }}
	info = &types.Info{Uses: map[*ast.Ident]types.Object{}, Defs: map[*ast.Ident]types.Object{},
		Selections: map[*ast.SelectorExpr]*types.Selection{}, Types: map[ast.Expr]types.TypeAndValue{}}
	pkg, _ = conf.Check(foxPath, fset, files, info)
	if len(terrs) > 0 {
		stub(out, "package fox does not type-check: "+terrs[0])
	}
	var fd *ast.FuncDecl
	for _, f := range files {
		for _, d := range f.Decls {
			if x, ok := d.(*ast.FuncDecl); ok && x.Recv == nil && x.Name.Name == "LoggerWithHandler" && x.Body != nil {
				fd = x
			}
		}
	}
	if fd == nil {
		stub(out, "func LoggerWithHandler not found")
	}
	var body string
	func() {
		defer func() {
			if r := recover(); r != nil {
				rf, ok := r.(refusal)
				if !ok {
					panic(r)
				}
				stub(out, rf.msg)
			}
		}()
		body = translate(fd)
	}()
	p0, p1 := fset.Position(fd.Pos()), fset.Position(fd.End())
	rel, _ := filepath.Rel(repo, p0.Filename)
	var sb strings.Builder
	sb.WriteString(banner)
	sb.WriteString("From FoxBase Require Import Bytes.\nFrom FoxC20 Require Import Types GenFuns Logger LogSem.\nOpen Scope Z_scope.\nOpen Scope bool_scope.\n\n")
	fmt.Fprintf(&sb, "(* LoggerWithHandler - %s:%d-%d  sha256=%x *)\n", rel, p0.Line, p1.Line, sha256.Sum256([]byte(src(fd))))
	sb.WriteString(body)
	writeOut(out, sb.String())
	fmt.Printf("loggen: gen_LoggerWithHandler from %s:%d-%d -> %s\n", rel, p0.Line, p1.Line, out)
}
