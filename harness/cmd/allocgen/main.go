// allocgen - tie A for property C16 (docs/GenC16.md): translates the CONTEXT SIZING code of fox into Gallina over
// coq/Route/AllocSem.v - iTree.allocateContext (which counter sizes which buffer), the maintenance of the counters
// size / maxParams / depth in iTree.txn, tXn.commit, tXn.clone, tXn.updateMaxParams, tXn.updateMaxDepth, tXn.insert,
// tXn.update, tXn.remove, tXn.truncate (the slice of each body that reads or writes the counters, in source order), Router.newTree,
// and copyWithResize.  Anything outside the accepted shapes is REFUSED (exit 1, stub in the output).
//
//	allocgen repo=<fox tree> out=<coq/Route/GenAlloc.v>
package main

import (
	"bytes"
	"crypto/sha256"
	"fmt"
	"go/ast"
	"go/constant"
	"go/importer"
	"go/parser"
	"go/printer"
	"go/token"
	"go/types"
	"os"
	"path/filepath"
	"sort"
	"strings"
)

var (
	fset  = token.NewFileSet()
	info  *types.Info
	funcs = map[string]*ast.FuncDecl{}
	// functions that (transitively, through calls on a tXn / iTree value) write a counter
	writes = map[string]bool{}
)

const foxp = "github.com/tigerwill90/fox."

var counterFields = map[string]string{"size": "size", "maxParams": "maxparams", "depth": "depth"}

type refusal string

func pos(n ast.Node) string {
	p := fset.Position(n.Pos())
	return fmt.Sprintf("%s:%d", filepath.Base(p.Filename), p.Line)
}
func refuse(n ast.Node, f string, a ...any) { panic(refusal(pos(n) + ": " + fmt.Sprintf(f, a...))) }
func src(n ast.Node) string {
	var b bytes.Buffer
	printer.Fprint(&b, fset, n)
	return strings.Join(strings.Fields(b.String()), " ")
}
func cmt(n ast.Node) string {
	s := src(n)
	if len(s) > 110 {
		s = s[:110] + " ..."
	}
	return "(* " + strings.ReplaceAll(strings.ReplaceAll(s, "(*", "( *"), "*)", "* )") + " *)"
}

type spec struct{ key, coq, mode string }

var specs = []spec{
	{"iTree.allocateContext", "gen_iTree_allocateContext", "alloc"},
	{"iTree.txn", "gen_iTree_txn", "lit"},
	{"tXn.clone", "gen_tXn_clone", "lit"},
	{"tXn.commit", "gen_tXn_commit", "commit"},
	{"Router.newTree", "gen_Router_newTree", "commit"},
	{"tXn.updateMaxParams", "gen_tXn_updateMaxParams", "helper"},
	{"tXn.updateMaxDepth", "gen_tXn_updateMaxDepth", "helper"},
	{"tXn.insert", "gen_tXn_insert", "insert"},
	{"tXn.update", "gen_tXn_update", "update"},
	{"tXn.remove", "gen_tXn_remove", "remove"},
	{"tXn.truncate", "gen_tXn_truncate", "truncate"},
	{".copyWithResize", "gen_copyWithResize", "cwr"},
}

func specOf(key string) *spec {
	for i := range specs {
		if specs[i].key == key {
			return &specs[i]
		}
	}
	return nil
}

func recvName(fd *ast.FuncDecl) string {
	if fd.Recv == nil || len(fd.Recv.List) == 0 {
		return ""
	}
	t := fd.Recv.List[0].Type
	if s, ok := t.(*ast.StarExpr); ok {
		t = s.X
	}
	if ix, ok := t.(*ast.IndexExpr); ok {
		t = ix.X
	}
	if id, ok := t.(*ast.Ident); ok {
		return id.Name
	}
	return ""
}

func isOwner(t types.Type) bool {
	if t == nil {
		return false
	}
	s := strings.TrimPrefix(t.String(), "*")
	return s == foxp+"tXn" || s == foxp+"iTree"
}

// e = X.f with f a counter field of a tXn / iTree value
func counterSel(e ast.Expr) (ast.Expr, string, bool) {
	if p, ok := e.(*ast.ParenExpr); ok {
		return counterSel(p.X)
	}
	se, ok := e.(*ast.SelectorExpr)
	if !ok || counterFields[se.Sel.Name] == "" {
		return nil, "", false
	}
	if tv, has := info.Types[se.X]; !has || !isOwner(tv.Type) {
		return nil, "", false
	}
	return se.X, se.Sel.Name, true
}

// the method of tXn / iTree a call expression invokes ("tXn.insert"), with its receiver expression
func ownerCall(c *ast.CallExpr) (string, ast.Expr) {
	se, ok := c.Fun.(*ast.SelectorExpr)
	if !ok {
		return "", nil
	}
	tv, has := info.Types[se.X]
	if !has || !isOwner(tv.Type) {
		return "", nil
	}
	s := strings.TrimPrefix(tv.Type.String(), "*")
	return strings.TrimPrefix(s, foxp) + "." + se.Sel.Name, se.X
}

func writesDirect(n ast.Node) (found ast.Node) {
	ast.Inspect(n, func(x ast.Node) bool {
		switch s := x.(type) {
		case *ast.AssignStmt:
			for _, l := range s.Lhs {
				if _, _, ok := counterSel(l); ok {
					found = s
				}
			}
		case *ast.IncDecStmt:
			if _, _, ok := counterSel(s.X); ok {
				found = s
			}
		case *ast.UnaryExpr:
			if s.Op == token.AND {
				if _, _, ok := counterSel(s.X); ok {
					found = s
				}
			}
		}
		return true
	})
	return
}

func litSetsCounter(n ast.Node) (found ast.Node) {
	ast.Inspect(n, func(x ast.Node) bool {
		if cl, ok := x.(*ast.CompositeLit); ok && isOwner(info.Types[cl].Type) {
			for _, el := range cl.Elts {
				if kv, ok := el.(*ast.KeyValueExpr); ok {
					if id, ok := kv.Key.(*ast.Ident); ok && counterFields[id.Name] != "" {
						found = cl
					}
				} else {
					found = cl // positional literal
				}
			}
		}
		return true
	})
	return
}

// ---------------------------------------------------------------- expressions

type walker struct {
	sp       spec
	fd       *ast.FuncDecl
	recv     types.Object
	names    map[types.Object]string // parameters and relevant locals -> Coq identifier
	relevant map[types.Object]bool
	atomBase map[string]types.Object // "route" / "result" -> the Go variable it stands for
	wrote    bool
	succSkip ast.Node
	facts    [][2]string // (small, big): small <= big is known here
	slices   map[types.Object]string
	loopVars map[types.Object]string // oracle values of the loop being translated
	lenParam map[types.Object]string // slice parameter -> name of its length
	pre      strings.Builder         // auxiliary Fixpoints emitted before the definition
}

var atomFields = map[string]map[string]bool{
	"route":  {"psLen": true, "hostSplit": true},
	"result": {"charsMatched": true, "depth": true},
}

func (w *walker) atom(e ast.Expr) (string, bool) {
	se, ok := e.(*ast.SelectorExpr)
	if !ok {
		return "", false
	}
	id, ok := se.X.(*ast.Ident)
	if !ok {
		return "", false
	}
	if w.sp.mode != "insert" && w.sp.mode != "update" {
		return "", false
	}
	tv := info.Types[se.X]
	base := ""
	switch tv.Type.String() {
	case "*" + foxp + "Route":
		base = "route"
	case foxp + "searchResult":
		base = "result"
	}
	if base == "" || !atomFields[base][se.Sel.Name] {
		return "", false
	}
	obj := info.Uses[id]
	if o, has := w.atomBase[base]; has && o != obj {
		refuse(e, "two different %s values are read (%s and %s)", base, o.Name(), obj.Name())
	}
	w.atomBase[base] = obj
	return base + "_" + se.Sel.Name, true
}

func (w *walker) isRecv(e ast.Expr) bool {
	id, ok := e.(*ast.Ident)
	return ok && info.Uses[id] == w.recv
}

func (w *walker) nat(e ast.Expr) string {
	if tv, ok := info.Types[e]; ok && tv.Value != nil && tv.Value.Kind() == constant.Int {
		v, exact := constant.Int64Val(tv.Value)
		if !exact || v < 0 || v > 200 {
			refuse(e, "constant %s out of the translated range", tv.Value)
		}
		return fmt.Sprint(v)
	}
	switch x := e.(type) {
	case *ast.ParenExpr:
		return w.nat(x.X)
	case *ast.Ident:
		if n, ok := w.names[info.Uses[x]]; ok {
			return n
		}
		refuse(e, "variable %s is not a translated value", x.Name)
	case *ast.SelectorExpr:
		if a, ok := w.atom(e); ok {
			return a
		}
		if X, f, ok := counterSel(e); ok {
			if !w.isRecv(X) {
				refuse(e, "counter of %s, which is not the receiver", src(X))
			}
			if f == "size" {
				refuse(e, "size used as a natural number")
			}
			return "(c_" + counterFields[f] + " t)"
		}
		refuse(e, "unsupported operand %s", src(e))
	case *ast.CallExpr:
		if tv, ok := info.Types[x.Fun]; ok && tv.IsType() && len(x.Args) == 1 {
			if b, ok := tv.Type.Underlying().(*types.Basic); ok && b.Info()&types.IsInteger != 0 {
				return w.nat(x.Args[0])
			}
		}
		if id, ok := x.Fun.(*ast.Ident); ok {
			if _, isB := info.Uses[id].(*types.Builtin); isB {
				switch id.Name {
				case "len", "cap":
					if pid, ok := x.Args[0].(*ast.Ident); ok && id.Name == "len" && w.lenParam[info.Uses[pid]] != "" {
						return w.lenParam[info.Uses[pid]]
					}
					if st, ok := x.Args[0].(*ast.StarExpr); ok {
						if sid, ok := st.X.(*ast.Ident); ok {
							if n, ok := w.slices[info.Uses[sid]]; ok {
								return "(s_" + id.Name + " " + n + ")"
							}
						}
					}
				case "max", "min":
					if len(x.Args) == 2 {
						return "(Nat." + id.Name + " " + w.nat(x.Args[0]) + " " + w.nat(x.Args[1]) + ")"
					}
				}
			}
		}
		refuse(e, "unsupported call %s", src(e))
	case *ast.BinaryExpr:
		a, b := w.nat(x.X), w.nat(x.Y)
		switch x.Op {
		case token.ADD:
			return "(" + a + " + " + b + ")"
		case token.MUL:
			return "(" + a + " * " + b + ")"
		case token.SUB:
			for _, f := range w.facts {
				if f[0] == b && f[1] == a {
					return "(" + a + " - " + b + ")"
				}
			}
			refuse(e, "%s may be negative here (no enclosing test says %s <= %s)", src(e), src(x.Y), src(x.X))
		}
		refuse(e, "unsupported operator %s", x.Op)
	}
	refuse(e, "unsupported expression %s", src(e))
	return ""
}

// boolean expression; the facts it establishes when true
func (w *walker) boolE(e ast.Expr) (string, [][2]string) {
	switch x := e.(type) {
	case *ast.ParenExpr:
		return w.boolE(x.X)
	case *ast.UnaryExpr:
		if x.Op == token.NOT {
			s, _ := w.boolE(x.X)
			return "negb (" + s + ")", nil
		}
	case *ast.BinaryExpr:
		switch x.Op {
		case token.LAND, token.LOR:
			a, fa := w.boolE(x.X)
			b, fb := w.boolE(x.Y)
			if x.Op == token.LAND {
				return "(" + a + " && " + b + ")", append(fa, fb...)
			}
			return "(" + a + " || " + b + ")", nil
		case token.GTR, token.LSS, token.GEQ, token.LEQ, token.EQL, token.NEQ:
			if s, ok := w.loopCmp(x); ok {
				return s, nil
			}
			a, b := w.nat(x.X), w.nat(x.Y)
			switch x.Op {
			case token.GTR:
				return "Nat.ltb " + b + " " + a, [][2]string{{b, a}}
			case token.LSS:
				return "Nat.ltb " + a + " " + b, [][2]string{{a, b}}
			case token.GEQ:
				return "Nat.leb " + b + " " + a, [][2]string{{b, a}}
			case token.LEQ:
				return "Nat.leb " + a + " " + b, [][2]string{{a, b}}
			case token.EQL:
				return "Nat.eqb " + a + " " + b, [][2]string{{a, b}, {b, a}}
			default:
				return "negb (Nat.eqb " + a + " " + b + ")", nil
			}
		}
	}
	refuse(e, "unsupported condition %s", src(e))
	return "", nil
}

// ---------------------------------------------------------------- relevance

func (w *walker) localInt(id *ast.Ident) types.Object {
	obj := info.Uses[id]
	if obj == nil {
		obj = info.Defs[id]
	}
	v, ok := obj.(*types.Var)
	if !ok || v.IsField() || v == w.recv {
		return nil
	}
	if _, isParam := w.names[obj]; isParam && !w.relevant[obj] {
		return nil
	}
	if v.Pos() < w.fd.Body.Pos() || v.Pos() > w.fd.Body.End() {
		return nil
	}
	if b, ok := v.Type().Underlying().(*types.Basic); !ok || b.Info()&types.IsInteger == 0 {
		return nil
	}
	return obj
}

func (w *walker) collect(e ast.Expr, changed *bool) {
	ast.Inspect(e, func(n ast.Node) bool {
		switch x := n.(type) {
		case *ast.SelectorExpr:
			if _, ok := w.atom(x); ok {
				return false
			}
		case *ast.Ident:
			if _, isLoop := w.loopVars[info.Uses[x]]; isLoop {
				return true
			}
			if o := w.localInt(x); o != nil && !w.relevant[o] {
				w.relevant[o] = true
				*changed = true
			}
		}
		return true
	})
}

func (w *walker) writingCall(s ast.Stmt) (*ast.CallExpr, string) {
	es, ok := s.(*ast.ExprStmt)
	if !ok {
		return nil, ""
	}
	c, ok := es.X.(*ast.CallExpr)
	if !ok {
		return nil, ""
	}
	key, _ := ownerCall(c)
	if key != "" && writes[key] {
		return c, key
	}
	return nil, ""
}

// does the statement itself (not what it contains) belong to the counter slice
func (w *walker) direct(s ast.Stmt) bool {
	switch x := s.(type) {
	case *ast.AssignStmt:
		for _, l := range x.Lhs {
			if _, _, ok := counterSel(l); ok {
				return true
			}
			if id, ok := l.(*ast.Ident); ok {
				if o := w.localInt(id); o != nil && w.relevant[o] {
					return true
				}
			}
		}
	case *ast.IncDecStmt:
		if _, _, ok := counterSel(x.X); ok {
			return true
		}
		if id, ok := x.X.(*ast.Ident); ok {
			if o := w.localInt(id); o != nil && w.relevant[o] {
				return true
			}
		}
	case *ast.ExprStmt:
		if c, _ := w.writingCall(s); c != nil {
			return true
		}
	case *ast.DeclStmt:
		rel := false
		ast.Inspect(x, func(n ast.Node) bool {
			if id, ok := n.(*ast.Ident); ok {
				if o := info.Defs[id]; o != nil && w.relevant[o] {
					rel = true
				}
			}
			return true
		})
		return rel
	}
	return false
}

func (w *walker) isRelevant(s ast.Stmt) bool {
	rel := false
	ast.Inspect(s, func(n ast.Node) bool {
		if st, ok := n.(ast.Stmt); ok && w.direct(st) {
			rel = true
		}
		return !rel
	})
	return rel
}

func (w *walker) computeRelevant() {
	for changed := true; changed; {
		changed = false
		ast.Inspect(w.fd.Body, func(n ast.Node) bool {
			switch x := n.(type) {
			case *ast.AssignStmt:
				if w.direct(x) {
					for _, r := range x.Rhs {
						w.collect(r, &changed)
					}
				}
			case *ast.ExprStmt:
				if c, _ := w.writingCall(x); c != nil {
					for _, a := range c.Args {
						w.collect(a, &changed)
					}
				}
			case *ast.IfStmt:
				if w.isRelevant(x) {
					w.collect(x.Cond, &changed)
				}
			}
			return true
		})
	}
}

// ---------------------------------------------------------------- statements (counter slice)

func (w *walker) success(r *ast.ReturnStmt) bool {
	switch w.sp.mode {
	case "insert", "update":
		if len(r.Results) != 1 {
			return false
		}
		id, ok := r.Results[0].(*ast.Ident)
		return ok && id.Name == "nil"
	case "remove":
		if len(r.Results) != 2 {
			return false
		}
		id, ok := r.Results[1].(*ast.Ident)
		return !(ok && id.Name == "false")
	}
	return true
}

// a statement outside the counter slice: it must not be able to change what the slice computes
func (w *walker) skip(s ast.Stmt, inLoop bool) {
	ast.Inspect(s, func(n ast.Node) bool {
		switch x := n.(type) {
		case *ast.ReturnStmt:
			if w.success(x) {
				if w.succSkip == nil {
					w.succSkip = x
				}
			} else if w.wrote {
				refuse(x, "failure return after a counter was written: the counters would change on an error path")
			}
		case *ast.BranchStmt:
			if inLoop && w.succSkip == nil {
				w.succSkip = x
			}
		case *ast.Ident:
			if info.Uses[x] == w.recv {
				refuse(x, "the receiver is used as a value in a statement outside the counter slice")
			}
		case *ast.SelectorExpr:
			if w.isRecv(x.X) {
				return false
			}
		case *ast.IncDecStmt:
			if id, ok := x.X.(*ast.Ident); ok {
				if _, has := w.names[info.Uses[id]]; has {
					refuse(x, "%s is changed outside the counter slice", id.Name)
				}
			}
		case *ast.AssignStmt:
			for _, l := range x.Lhs {
				if _, ok := w.atom(l); ok {
					refuse(x, "%s is assigned; it is an input of the translated slice", src(l))
				}
				if id, ok := l.(*ast.Ident); ok {
					obj := info.Uses[id]
					if obj == nil {
						obj = info.Defs[id]
					}
					if _, has := w.names[obj]; has {
						refuse(x, "%s is assigned outside the counter slice", id.Name)
					}
					for b, o := range w.atomBase {
						if o == obj && !(x.Tok == token.DEFINE && b == "result") {
							refuse(x, "%s is reassigned; it is an input of the translated slice", id.Name)
						}
					}
				}
			}
		case *ast.CallExpr:
			for _, a := range x.Args {
				if w.isRecv(a) {
					refuse(x, "the receiver escapes into %s", src(x.Fun))
				}
			}
			if key, _ := ownerCall(x); key != "" && writes[key] {
				refuse(x, "%s writes the counters and is called in an unsupported position", key)
			}
		case *ast.FuncLit:
			refuse(x, "closure in a statement outside the counter slice")
		case *ast.UnaryExpr:
			if x.Op == token.AND && w.isRecv(x.X) {
				refuse(x, "the address of the receiver is taken")
			}
		}
		return true
	})
}

func (w *walker) noteWrite(n ast.Node) {
	if w.succSkip != nil {
		refuse(n, "this counter write is skipped on the path that leaves at %s", pos(w.succSkip))
	}
	w.wrote = true
}

func zconst(e ast.Expr) (string, bool) {
	if tv, ok := info.Types[e]; ok && tv.Value != nil && tv.Value.Kind() == constant.Int {
		v, exact := constant.Int64Val(tv.Value)
		if exact && v >= -200 && v <= 200 {
			return fmt.Sprintf("(%d)%%Z", v), true
		}
	}
	return "", false
}

// Z-valued right-hand side for size
func (w *walker) zexpr(e ast.Expr) string {
	if z, ok := zconst(e); ok {
		return z
	}
	if n, ok := w.loopZ(e); ok {
		return n
	}
	if X, f, ok := counterSel(e); ok && f == "size" && w.isRecv(X) {
		return "(c_size t)"
	}
	return "(Z.of_nat " + w.nat(e) + ")"
}

func (w *walker) state(scope []string) string {
	if len(scope) == 0 {
		return "t"
	}
	return "(t, " + strings.Join(scope, ", ") + ")"
}
func (w *walker) bind(scope []string) string {
	if len(scope) == 0 {
		return "let t := "
	}
	return "let '" + w.state(scope) + " := "
}

func alwaysReturns(b *ast.BlockStmt) bool {
	if len(b.List) == 0 {
		return false
	}
	_, ok := b.List[len(b.List)-1].(*ast.ReturnStmt)
	return ok
}

// translate stmts; tail is the expression the block ends with
func (w *walker) block(stmts []ast.Stmt, scope []string, ind string, tail string, inLoop bool) string {
	var sb strings.Builder
	for i, s := range stmts {
		if inLoop {
			if g, ok := w.guardContinue(s); ok {
				sb.WriteString(ind + cmt0(s) + "\n")
				saveW, saveS := w.wrote, w.succSkip
				rest := w.block(stmts[i+1:], scope, ind+"  ", tail, inLoop)
				w.wrote, w.succSkip = w.wrote || saveW, saveS
				sb.WriteString(fmt.Sprintf("%sif %s then %s else (\n%s%s)\n", ind, g, tail, rest, ind))
				return sb.String()
			}
		}
		if !w.isRelevant(s) {
			w.skip(s, inLoop)
			continue
		}
		sb.WriteString(ind + cmt0(s) + "\n")
		switch x := s.(type) {
		case *ast.IncDecStmt:
			d := "+"
			if x.Tok == token.DEC {
				d = "-"
			}
			if X, f, ok := counterSel(x.X); ok {
				if !w.isRecv(X) {
					refuse(x, "counter of %s, which is not the receiver", src(X))
				}
				w.noteWrite(x)
				if f == "size" {
					sb.WriteString(fmt.Sprintf("%slet t := set_size (c_size t %s 1)%%Z t in\n", ind, d))
				} else if d == "+" {
					sb.WriteString(fmt.Sprintf("%slet t := set_%s (c_%s t + 1) t in\n", ind, counterFields[f], counterFields[f]))
				} else {
					refuse(x, "decrement of an unsigned counter")
				}
			} else {
				id := x.X.(*ast.Ident)
				if d == "-" {
					refuse(x, "decrement of %s", id.Name)
				}
				n := w.names[info.Uses[id]]
				if n == "" {
					refuse(x, "%s is not in scope of the slice", id.Name)
				}
				sb.WriteString(fmt.Sprintf("%slet %s := %s + 1 in\n", ind, n, n))
			}
		case *ast.AssignStmt:
			if len(x.Lhs) != 1 || len(x.Rhs) != 1 {
				refuse(x, "unsupported multiple assignment")
			}
			if X, f, ok := counterSel(x.Lhs[0]); ok {
				if !w.isRecv(X) {
					refuse(x, "counter of %s, which is not the receiver", src(X))
				}
				w.noteWrite(x)
				cf := counterFields[f]
				if f == "size" {
					switch x.Tok {
					case token.ASSIGN:
						sb.WriteString(fmt.Sprintf("%slet t := set_size %s t in\n", ind, w.zexpr(x.Rhs[0])))
					case token.ADD_ASSIGN:
						sb.WriteString(fmt.Sprintf("%slet t := set_size (c_size t + %s)%%Z t in\n", ind, w.zexpr(x.Rhs[0])))
					case token.SUB_ASSIGN:
						sb.WriteString(fmt.Sprintf("%slet t := set_size (c_size t - %s)%%Z t in\n", ind, w.zexpr(x.Rhs[0])))
					default:
						refuse(x, "unsupported assignment operator %s", x.Tok)
					}
				} else {
					switch x.Tok {
					case token.ASSIGN:
						sb.WriteString(fmt.Sprintf("%slet t := set_%s %s t in\n", ind, cf, w.nat(x.Rhs[0])))
					case token.ADD_ASSIGN:
						sb.WriteString(fmt.Sprintf("%slet t := set_%s (c_%s t + %s) t in\n", ind, cf, cf, w.nat(x.Rhs[0])))
					default:
						refuse(x, "unsupported assignment operator %s", x.Tok)
					}
				}
			} else {
				id := x.Lhs[0].(*ast.Ident)
				obj := info.Defs[id]
				if obj == nil {
					obj = info.Uses[id]
				}
				rhs := w.nat(x.Rhs[0])
				switch x.Tok {
				case token.DEFINE:
					n := coqName(id.Name)
					w.names[obj] = n
					scope = append(append([]string{}, scope...), n)
					sb.WriteString(fmt.Sprintf("%slet %s := %s in\n", ind, n, rhs))
				case token.ASSIGN:
					sb.WriteString(fmt.Sprintf("%slet %s := %s in\n", ind, w.names[obj], rhs))
				case token.ADD_ASSIGN:
					sb.WriteString(fmt.Sprintf("%slet %s := %s + %s in\n", ind, w.names[obj], w.names[obj], rhs))
				default:
					refuse(x, "unsupported assignment operator %s", x.Tok)
				}
			}
		case *ast.ExprStmt:
			c, key := w.writingCall(x)
			if c == nil {
				refuse(x, "unsupported statement around the counters: %s", src(x))
			}
			_, X := ownerCall(c)
			if !w.isRecv(X) {
				refuse(x, "%s is called on %s, which is not the receiver", key, src(X))
			}
			sp := specOf(key)
			if sp == nil || sp.mode != "helper" {
				refuse(x, "calls %s, which writes the counters and is not a translated helper", key)
			}
			w.noteWrite(x)
			var args []string
			for _, a := range c.Args {
				args = append(args, w.nat(a))
			}
			sb.WriteString(fmt.Sprintf("%slet t := %s %s t in\n", ind, sp.coq, strings.Join(args, " ")))
		case *ast.IfStmt:
			if x.Init != nil {
				refuse(x, "if with an init statement around counter statements")
			}
			cond, facts := w.boolE(x.Cond)
			saveW, saveS, saveF := w.wrote, w.succSkip, w.facts
			if x.Else == nil && alwaysReturns(x.Body) && !inLoop {
				if r := x.Body.List[len(x.Body.List)-1].(*ast.ReturnStmt); !w.success(r) {
					refuse(r, "failure return in a branch that writes counters")
				}
				w.facts = append(append([][2]string{}, saveF...), facts...)
				th := w.block(x.Body.List[:len(x.Body.List)-1], scope, ind+"  ", "t", inLoop)
				w.wrote, w.succSkip, w.facts = saveW, saveS, saveF
				rest := w.block(stmts[i+1:], scope, ind+"  ", tail, inLoop)
				sb.WriteString(fmt.Sprintf("%sif %s then (\n%s%s) else (\n%s%s)\n", ind, cond, th, ind, rest, ind))
				return sb.String()
			}
			w.facts = append(append([][2]string{}, saveF...), facts...)
			th := w.block(x.Body.List, scope, ind+"    ", w.state(scope), inLoop)
			w1, s1 := w.wrote, w.succSkip
			w.wrote, w.succSkip, w.facts = saveW, saveS, saveF
			el := ind + "    " + w.state(scope) + "\n"
			switch e := x.Else.(type) {
			case nil:
			case *ast.BlockStmt:
				el = w.block(e.List, scope, ind+"    ", w.state(scope), inLoop)
			default:
				el = w.block([]ast.Stmt{e}, scope, ind+"    ", w.state(scope), inLoop)
			}
			w.wrote = w.wrote || w1
			if w.succSkip == nil {
				w.succSkip = s1
			}
			sb.WriteString(fmt.Sprintf("%s%s(if %s then (\n%s%s  ) else (\n%s%s  )) in\n", ind, w.bind(scope), cond, th, ind, el, ind))
		case *ast.SwitchStmt:
			sb.WriteString(w.classifySwitch(x, stmts[i+1:], scope, ind, tail))
			return sb.String()
		case *ast.RangeStmt:
			sb.WriteString(w.rangeLoop(x, scope, ind))
		default:
			refuse(s, "unsupported statement around the counters: %s", src(s))
		}
	}
	sb.WriteString(ind + tail + "\n")
	return sb.String()
}

func cmt0(s ast.Stmt) string {
	switch x := s.(type) {
	case *ast.IfStmt:
		return "(* if " + strings.TrimSuffix(strings.TrimPrefix(cmt(x.Cond), "(* "), " *)") + " *)"
	case *ast.SwitchStmt:
		return "(* switch " + strings.TrimSuffix(strings.TrimPrefix(cmt(x.Tag), "(* "), " *)") + " *)"
	case *ast.RangeStmt:
		return "(* for range " + strings.TrimSuffix(strings.TrimPrefix(cmt(x.X), "(* "), " *)") + " *)"
	}
	return cmt(s)
}

var reserved = map[string]bool{"t": true, "cls": true, "rt": true, "its": true, "fix": true, "end": true, "in": true, "let": true, "match": true, "with": true, "fun": true, "if": true, "then": true, "else": true, "as": true, "at": true, "return": true, "forall": true, "exists": true, "Type": true, "Prop": true, "Set": true}

func coqName(n string) string {
	if reserved[n] || strings.HasPrefix(n, "gen_") || strings.HasPrefix(n, "c_") || strings.HasPrefix(n, "set_") || strings.HasPrefix(n, "route_") || strings.HasPrefix(n, "result_") {
		return n + "_v"
	}
	return n
}

// switch result.classify() { case exactMatch: ... default: panic(..) } of tXn.insert
func (w *walker) classifySwitch(x *ast.SwitchStmt, rest []ast.Stmt, scope []string, ind, tail string) string {
	if w.sp.mode != "insert" {
		refuse(x, "switch around counter statements")
	}
	ok := false
	if c, isC := x.Tag.(*ast.CallExpr); isC && x.Init == nil && len(c.Args) == 0 {
		if se, isS := c.Fun.(*ast.SelectorExpr); isS && se.Sel.Name == "classify" && info.Types[se.X].Type.String() == foxp+"searchResult" {
			if id, isI := se.X.(*ast.Ident); isI {
				if o, has := w.atomBase["result"]; has && o != info.Uses[id] {
					refuse(x, "the switch classifies %s, the counters read %s", id.Name, o.Name())
				}
				w.atomBase["result"] = info.Uses[id]
				ok = true
			}
		}
	}
	if !ok {
		refuse(x, "the switch around the counter statements must be on <searchResult>.classify()")
	}
	var sb strings.Builder
	sb.WriteString(ind + "match cls with\n")
	seen := map[string]bool{}
	saveW, saveS := w.wrote, w.succSkip
	anyW := false
	for _, cc := range x.Body.List {
		cl := cc.(*ast.CaseClause)
		if cl.List == nil {
			if len(cl.Body) == 1 {
				if es, isE := cl.Body[0].(*ast.ExprStmt); isE {
					if c, isC := es.X.(*ast.CallExpr); isC {
						if id, isI := c.Fun.(*ast.Ident); isI && id.Name == "panic" {
							continue
						}
					}
				}
			}
			refuse(cl, "the default case must be a single panic")
		}
		if len(cl.List) != 1 {
			refuse(cl, "one result type per case")
		}
		id, isI := cl.List[0].(*ast.Ident)
		if !isI || info.Types[cl.List[0]].Value == nil || info.Types[cl.List[0]].Type.String() != foxp+"resultType" {
			refuse(cl, "case label must be a resultType constant")
		}
		seen[id.Name] = true
		w.wrote, w.succSkip = saveW, saveS
		body := w.block(append(append([]ast.Stmt{}, cl.Body...), rest...), scope, ind+"    ", tail, false)
		anyW = anyW || w.wrote
		sb.WriteString(fmt.Sprintf("%s| %s =>\n%s", ind, id.Name, body))
	}
	w.wrote = anyW
	for _, c := range []string{"exactMatch", "incompleteMatchToEndOfEdge", "incompleteMatchToMiddleOfEdge", "keyEndMidEdge"} {
		if !seen[c] {
			refuse(x, "no case for %s", c)
		}
	}
	sb.WriteString(ind + "end\n")
	return sb.String()
}

// ---------------------------------------------------------------- loops (tXn.truncate)

// for _, m := range methods { idx := X.methodIndex(m); if idx < 0 { continue }; t.size -= countRoutes(nr[idx]); ... }
// each iteration is described by two oracle values: (idx < 0, countRoutes(nr[idx]))
func (w *walker) rangeLoop(x *ast.RangeStmt, scope []string, ind string) string {
	if w.sp.mode != "truncate" {
		refuse(x, "loop around counter statements")
	}
	if len(scope) != 0 {
		refuse(x, "loop with translated locals in scope")
	}
	if id, ok := x.X.(*ast.Ident); !ok || w.lenParam[info.Uses[id]] == "" || x.Tok != token.DEFINE {
		refuse(x, "the only loop translated is for _, m := range <methods parameter>")
	}
	if k, ok := x.Key.(*ast.Ident); x.Key != nil && (!ok || k.Name != "_") {
		refuse(x, "the loop index is used")
	}
	if w.pre.Len() > 0 {
		refuse(x, "second loop around counter statements")
	}
	saveS := w.succSkip
	w.succSkip = nil
	body := w.block(x.Body.List, nil, "    ", "gen_tXn_truncate_loop1 its' t", true)
	w.succSkip = saveS
	w.pre.WriteString("(* the loop at " + pos(x) + "; one element of its per iteration: (idx < 0, countRoutes(nr[idx])) *)\n")
	w.pre.WriteString("Fixpoint gen_tXn_truncate_loop1 (its : list (bool * Z)) (t : cnt) {struct its} : cnt :=\n  match its with\n  | [] => t\n  | (idx_neg, count_routes) :: its' =>\n" + body + "  end.\n")
	return ind + "let t := gen_tXn_truncate_loop1 its t in\n"
}

// idx := <roots>.methodIndex(<range value>) inside `for _, m := range <methods parameter>`
func (w *walker) scanLoops() {
	w.loopVars = map[types.Object]string{}
	ast.Inspect(w.fd.Body, func(n ast.Node) bool {
		x, ok := n.(*ast.RangeStmt)
		if !ok || x.Value == nil {
			return true
		}
		val, ok := x.Value.(*ast.Ident)
		if !ok {
			return true
		}
		ast.Inspect(x.Body, func(n ast.Node) bool {
			as, ok := n.(*ast.AssignStmt)
			if !ok || as.Tok != token.DEFINE || len(as.Lhs) != 1 || len(as.Rhs) != 1 {
				return true
			}
			c, ok := as.Rhs[0].(*ast.CallExpr)
			if !ok {
				return true
			}
			if se, ok := c.Fun.(*ast.SelectorExpr); ok && se.Sel.Name == "methodIndex" && len(c.Args) == 1 {
				if a, ok := c.Args[0].(*ast.Ident); ok && info.Uses[a] == info.Defs[val] {
					w.loopVars[info.Defs[as.Lhs[0].(*ast.Ident)]] = "idx"
				}
			}
			return true
		})
		return true
	})
}

// idx < 0 over the loop's index oracle
func (w *walker) loopCmp(x *ast.BinaryExpr) (string, bool) {
	id, ok := x.X.(*ast.Ident)
	if !ok {
		return "", false
	}
	if n := w.loopVars[info.Uses[id]]; n != "idx" {
		return "", false
	}
	if tv := info.Types[x.Y]; tv.Value == nil || tv.Value.String() != "0" {
		refuse(x, "the index of methodIndex may only be compared with 0")
	}
	switch x.Op {
	case token.LSS:
		return "idx_neg", true
	case token.GEQ:
		return "negb idx_neg", true
	}
	refuse(x, "unsupported test of the index: %s", src(x))
	return "", false
}

// countRoutes(<roots>[idx])
func (w *walker) loopZ(e ast.Expr) (string, bool) {
	c, ok := e.(*ast.CallExpr)
	if !ok || len(c.Args) != 1 {
		return "", false
	}
	if id, ok := c.Fun.(*ast.Ident); !ok || id.Name != "countRoutes" {
		return "", false
	}
	ix, ok := c.Args[0].(*ast.IndexExpr)
	if !ok {
		return "", false
	}
	if id, ok := ix.Index.(*ast.Ident); ok && w.loopVars[info.Uses[id]] == "idx" {
		return "count_routes", true
	}
	return "", false
}

// in a loop body, `if idx < 0 { continue }` guards the rest
func (w *walker) guardContinue(s ast.Stmt) (string, bool) {
	is, ok := s.(*ast.IfStmt)
	if !ok || is.Else != nil || is.Init != nil || len(is.Body.List) != 1 {
		return "", false
	}
	if b, ok := is.Body.List[0].(*ast.BranchStmt); !ok || b.Tok != token.CONTINUE || b.Label != nil {
		return "", false
	}
	be, ok := is.Cond.(*ast.BinaryExpr)
	if !ok {
		return "", false
	}
	return w.loopCmp(be)
}

// ---------------------------------------------------------------- function modes

func (w *walker) header(params string, ret string) string {
	return fmt.Sprintf("Definition %s %s: %s :=\n", w.sp.coq, params, ret)
}

func (w *walker) setRecv() {
	if w.fd.Recv == nil || len(w.fd.Recv.List[0].Names) != 1 {
		refuse(w.fd, "no named receiver")
	}
	w.recv = info.Defs[w.fd.Recv.List[0].Names[0]]
}

func (w *walker) sliceFun() string {
	w.setRecv()
	params := ""
	switch w.sp.mode {
	case "helper":
		for _, f := range w.fd.Type.Params.List {
			for _, n := range f.Names {
				o := info.Defs[n]
				if b, ok := o.Type().Underlying().(*types.Basic); !ok || b.Info()&types.IsInteger == 0 {
					refuse(n, "parameter %s is not an integer", n.Name)
				}
				w.names[o] = coqName(n.Name)
				params += "(" + coqName(n.Name) + " : nat) "
			}
		}
	case "insert":
		params = "(cls : rtype) (route_psLen route_hostSplit result_charsMatched result_depth : nat) "
	case "update":
		params = "(route_psLen route_hostSplit result_charsMatched result_depth : nat) "
	case "truncate":
		params = "(methods_len : nat) (its : list (bool * Z)) "
		ps := w.fd.Type.Params.List
		if len(ps) != 1 || len(ps[0].Names) != 1 {
			refuse(w.fd, "expected one parameter (the methods)")
		}
		if _, ok := info.Defs[ps[0].Names[0]].Type().Underlying().(*types.Slice); !ok {
			refuse(w.fd, "expected a slice of methods")
		}
		w.lenParam[info.Defs[ps[0].Names[0]]] = "methods_len"
		w.scanLoops()
	}
	w.computeRelevant()
	body := w.block(w.fd.Body.List, nil, "  ", "t", false)
	return w.pre.String() + w.header(params+"(t : cnt) ", "cnt") + strings.TrimRight(body, "\n") + ".\n"
}

// &T{... size: E, maxParams: E, depth: E ...}: the counters of the new value, in source order
func (w *walker) litLines(cl *ast.CompositeLit, ind string) string {
	var sb strings.Builder
	sb.WriteString(ind + "let r := cnt_zero in\n")
	for _, el := range cl.Elts {
		kv, ok := el.(*ast.KeyValueExpr)
		if !ok {
			refuse(el, "positional literal")
		}
		k := kv.Key.(*ast.Ident).Name
		cf := counterFields[k]
		if cf == "" {
			if X, _, ok := counterSel(kv.Value); ok {
				refuse(kv, "field %s is given the counter %s", k, src(X))
			}
			continue
		}
		sb.WriteString(ind + cmt(kv) + "\n")
		if k == "size" {
			sb.WriteString(fmt.Sprintf("%slet r := set_size %s r in\n", ind, w.zexpr(kv.Value)))
		} else {
			sb.WriteString(fmt.Sprintf("%slet r := set_%s %s r in\n", ind, cf, w.nat(kv.Value)))
		}
	}
	return sb.String()
}

// new(iTree): all counters zero
func ownerNew(e ast.Expr) bool {
	c, ok := e.(*ast.CallExpr)
	if !ok || len(c.Args) != 1 {
		return false
	}
	id, ok := c.Fun.(*ast.Ident)
	if !ok || id.Name != "new" {
		return false
	}
	if _, isB := info.Uses[id].(*types.Builtin); !isB {
		return false
	}
	tv, has := info.Types[c.Args[0]]
	return has && tv.IsType() && isOwner(tv.Type)
}

func ownerLit(e ast.Expr) *ast.CompositeLit {
	if u, ok := e.(*ast.UnaryExpr); ok && u.Op == token.AND {
		e = u.X
	}
	if cl, ok := e.(*ast.CompositeLit); ok && isOwner(info.Types[cl].Type) {
		return cl
	}
	return nil
}

// iTree.txn / tXn.clone / tXn.commit: a new counter owner built from the receiver's counters
func (w *walker) litFun() string {
	w.setRecv()
	var sb strings.Builder
	var lit *ast.CompositeLit
	var litVar types.Object
	pool, zero := false, false
	for _, s := range w.fd.Body.List {
		switch x := s.(type) {
		case *ast.AssignStmt:
			if len(x.Lhs) == 1 && len(x.Rhs) == 1 {
				if ownerNew(x.Rhs[0]) {
					if lit != nil || zero || x.Tok != token.DEFINE {
						refuse(x, "more than one tree / transaction literal")
					}
					zero, litVar = true, info.Defs[x.Lhs[0].(*ast.Ident)]
					sb.WriteString("  " + cmt(x) + "\n  let r := cnt_zero in\n")
					continue
				}
				if cl := ownerLit(x.Rhs[0]); cl != nil {
					if zero {
						refuse(x, "more than one tree / transaction literal")
					}
					if lit != nil || x.Tok != token.DEFINE {
						refuse(x, "more than one tree / transaction literal")
					}
					lit, litVar = cl, info.Defs[x.Lhs[0].(*ast.Ident)]
					sb.WriteString(w.litLines(cl, "  "))
					continue
				}
				// nt.<counter> = E after the literal
				if X, f, ok := counterSel(x.Lhs[0]); ok {
					id, isI := X.(*ast.Ident)
					if !isI || litVar == nil || info.Uses[id] != litVar || x.Tok != token.ASSIGN {
						refuse(x, "counter write outside the new value")
					}
					sb.WriteString("  " + cmt(x) + "\n")
					if f == "size" {
						sb.WriteString(fmt.Sprintf("  let r := set_size %s r in\n", w.zexpr(x.Rhs[0])))
					} else {
						sb.WriteString(fmt.Sprintf("  let r := set_%s %s r in\n", counterFields[f], w.nat(x.Rhs[0])))
					}
					continue
				}
				// nt.ctx = sync.Pool{New: func() any { return nt.allocateContext() }}
				if se, ok := x.Lhs[0].(*ast.SelectorExpr); ok && se.Sel.Name == "ctx" && w.sp.mode == "commit" {
					id, isI := se.X.(*ast.Ident)
					if !isI || litVar == nil || info.Uses[id] != litVar {
						refuse(x, "the pool of something other than the new tree is set")
					}
					w.poolShape(x.Rhs[0], litVar)
					sb.WriteString("  " + cmt(x) + "\n")
					pool = true
					continue
				}
			}
			if n := writesDirect(x); n != nil {
				refuse(x, "unsupported counter write")
			}
		case *ast.ReturnStmt:
			if len(x.Results) != 1 {
				refuse(x, "unsupported return")
			}
			if cl := ownerLit(x.Results[0]); cl != nil {
				if lit != nil || zero {
					refuse(x, "more than one tree / transaction literal")
				}
				lit = cl
				sb.WriteString(w.litLines(cl, "  "))
			} else if id, ok := x.Results[0].(*ast.Ident); !ok || litVar == nil || info.Uses[id] != litVar {
				refuse(x, "the function must return the new value")
			}
		default:
			if n := writesDirect(s); n != nil {
				refuse(s, "unsupported counter write")
			}
			if n := litSetsCounter(s); n != nil {
				refuse(s, "unsupported literal")
			}
		}
	}
	if lit == nil && !zero {
		refuse(w.fd, "no tree / transaction literal")
	}
	if w.sp.mode == "commit" {
		if !pool {
			refuse(w.fd, "the pool of the new tree is not set to New: func() any { return <new tree>.allocateContext() }")
		}
		return w.header("(t : cnt) ", "cnt * bufs") + sb.String() + "  (r, gen_iTree_allocateContext r).\n"
	}
	return w.header("(t : cnt) ", "cnt") + sb.String() + "  r.\n"
}

func (w *walker) poolShape(e ast.Expr, nt types.Object) {
	bad := func() { refuse(e, "the pool must be sync.Pool{New: func() any { return <new tree>.allocateContext() }}") }
	cl, ok := e.(*ast.CompositeLit)
	if !ok || info.Types[cl].Type.String() != "sync.Pool" || len(cl.Elts) != 1 {
		bad()
	}
	kv, ok := cl.Elts[0].(*ast.KeyValueExpr)
	if !ok || kv.Key.(*ast.Ident).Name != "New" {
		bad()
	}
	fl, ok := kv.Value.(*ast.FuncLit)
	if !ok || len(fl.Body.List) != 1 {
		bad()
	}
	rs, ok := fl.Body.List[0].(*ast.ReturnStmt)
	if !ok || len(rs.Results) != 1 {
		bad()
	}
	c, ok := rs.Results[0].(*ast.CallExpr)
	if !ok || len(c.Args) != 0 {
		bad()
	}
	key, X := ownerCall(c)
	id, isI := X.(*ast.Ident)
	if key != "iTree.allocateContext" || !isI || info.Uses[id] != nt {
		bad()
	}
}

var bufField = map[string]string{"params": "b_params", "tsrParams": "b_tsrParams", "skipNds": "b_skipNds"}

func (w *walker) allocFun() string {
	w.setRecv()
	var sb strings.Builder
	made := map[types.Object]string{}
	done := false
	for _, s := range w.fd.Body.List {
		if done {
			refuse(s, "statement after the return")
		}
		switch x := s.(type) {
		case *ast.AssignStmt:
			if x.Tok != token.DEFINE || len(x.Lhs) != 1 || len(x.Rhs) != 1 {
				refuse(x, "unsupported statement %s", src(x))
			}
			c, ok := x.Rhs[0].(*ast.CallExpr)
			if !ok || len(c.Args) != 3 {
				refuse(x, "expected <buffer> := make(<type>, <len>, <cap>)")
			}
			if id, ok := c.Fun.(*ast.Ident); !ok || id.Name != "make" {
				refuse(x, "expected <buffer> := make(<type>, <len>, <cap>)")
			}
			if _, ok := info.Types[c.Args[0]].Type.Underlying().(*types.Slice); !ok {
				refuse(x, "make of something that is not a slice")
			}
			id := x.Lhs[0].(*ast.Ident)
			n := coqName(id.Name)
			made[info.Defs[id]] = n
			sb.WriteString("  " + cmt(x) + "\n")
			sb.WriteString(fmt.Sprintf("  let %s := make_slice %s %s in\n", n, w.nat(c.Args[1]), w.nat(c.Args[2])))
		case *ast.ReturnStmt:
			done = true
			if len(x.Results) != 1 {
				refuse(x, "unsupported return")
			}
			u, ok := x.Results[0].(*ast.UnaryExpr)
			if !ok || u.Op != token.AND {
				refuse(x, "expected return &cTx{...}")
			}
			cl, ok := u.X.(*ast.CompositeLit)
			if !ok || info.Types[cl].Type.String() != foxp+"cTx" {
				refuse(x, "expected return &cTx{...}")
			}
			got := map[string]string{}
			treeOK := false
			for _, el := range cl.Elts {
				kv, ok := el.(*ast.KeyValueExpr)
				if !ok {
					refuse(el, "positional literal")
				}
				k := kv.Key.(*ast.Ident).Name
				if bf := bufField[k]; bf != "" {
					a, ok := kv.Value.(*ast.UnaryExpr)
					var obj types.Object
					if ok && a.Op == token.AND {
						if id, ok := a.X.(*ast.Ident); ok {
							obj = info.Uses[id]
						}
					}
					if made[obj] == "" {
						refuse(kv, "%s must be the address of a buffer made in this function", k)
					}
					for _, prev := range got {
						if prev == made[obj] {
							refuse(kv, "two fields share the buffer %s", made[obj])
						}
					}
					got[bf] = made[obj]
				} else if k == "tree" {
					if !w.isRecv(kv.Value) {
						refuse(kv, "the context's tree must be the tree whose counters size it")
					}
					treeOK = true
				}
			}
			if !treeOK {
				refuse(cl, "the context's tree is not set")
			}
			var fs []string
			for _, k := range []string{"b_params", "b_tsrParams", "b_skipNds"} {
				if got[k] == "" {
					refuse(cl, "buffer %s is not set", k)
				}
				fs = append(fs, k+" := "+got[k])
			}
			sb.WriteString("  " + cmt(x) + "\n  {| " + strings.Join(fs, "; ") + " |}.\n")
		default:
			refuse(s, "unsupported statement %s", src(s))
		}
	}
	if !done {
		refuse(w.fd, "no return")
	}
	return w.header("(t : cnt) ", "bufs") + sb.String()
}

// ---------------------------------------------------------------- copyWithResize

func (w *walker) starOf(e ast.Expr) types.Object {
	if p, ok := e.(*ast.ParenExpr); ok {
		return w.starOf(p.X)
	}
	if st, ok := e.(*ast.StarExpr); ok {
		if id, ok := st.X.(*ast.Ident); ok {
			if _, has := w.slices[info.Uses[id]]; has {
				return info.Uses[id]
			}
		}
	}
	return nil
}

func (w *walker) cwrBlock(stmts []ast.Stmt, ind string, top bool, closers *int) string {
	var sb strings.Builder
	for _, s := range stmts {
		sb.WriteString(ind + cmt0(s) + "\n")
		switch x := s.(type) {
		case *ast.IfStmt:
			if x.Init != nil || x.Else != nil {
				refuse(x, "unsupported if shape")
			}
			cond, facts := w.boolE(x.Cond)
			save := w.facts
			w.facts = append(append([][2]string{}, save...), facts...)
			n := 0
			th := w.cwrBlock(x.Body.List, ind+"    ", false, &n)
			w.facts = nil
			sb.WriteString(fmt.Sprintf("%slet '(dst, ev) := (if %s then (\n%s%s    (dst, ev)\n%s  ) else (dst, ev)) in\n", ind, cond, th, ind, ind))
		case *ast.AssignStmt:
			if len(x.Lhs) != 1 || len(x.Rhs) != 1 || x.Tok != token.ASSIGN {
				refuse(x, "unsupported assignment")
			}
			o := w.starOf(x.Lhs[0])
			if o == nil || w.slices[o] != "dst" {
				refuse(x, "only *dst may be assigned")
			}
			switch r := x.Rhs[0].(type) {
			case *ast.CallExpr:
				se, ok := r.Fun.(*ast.SelectorExpr)
				fn, _ := info.Uses[seSel(se)].(*types.Func)
				if !ok || fn == nil || fn.Pkg() == nil || fn.Pkg().Path() != "slices" || fn.Name() != "Grow" || len(r.Args) != 2 || w.starOf(r.Args[0]) != o {
					refuse(x, "expected *dst = slices.Grow(*dst, n)")
				}
				sb.WriteString(fmt.Sprintf("%slet '(dst, ev1) := slices_Grow rt dst %s in\n%slet ev := ev || ev1 in\n", ind, w.nat(r.Args[1]), ind))
			case *ast.SliceExpr:
				if !top {
					refuse(x, "slice expression inside a branch")
				}
				if !r.Slice3 || r.Low != nil || w.starOf(r.X) != o {
					refuse(x, "expected *dst = (*dst)[:hi:max]")
				}
				sb.WriteString(fmt.Sprintf("%smatch sl_reslice3 dst %s %s with None => None | Some dst =>\n", ind, w.nat(r.High), w.nat(r.Max)))
				*closers++
			default:
				refuse(x, "unsupported right-hand side %s", src(r))
			}
			w.facts = nil
		case *ast.ExprStmt:
			c, ok := x.X.(*ast.CallExpr)
			if ok {
				if id, isI := c.Fun.(*ast.Ident); isI && id.Name == "copy" && len(c.Args) == 2 {
					d, s2 := w.starOf(c.Args[0]), w.starOf(c.Args[1])
					if d != nil && s2 != nil && w.slices[d] == "dst" && w.slices[s2] == "src" {
						sb.WriteString(ind + "let dst := sl_copy dst src in\n")
						continue
					}
				}
			}
			refuse(x, "unsupported statement %s", src(x))
		default:
			refuse(s, "unsupported statement %s", src(s))
		}
	}
	return sb.String()
}

func seSel(se *ast.SelectorExpr) *ast.Ident {
	if se == nil {
		return nil
	}
	return se.Sel
}

func (w *walker) cwrFun() string {
	ps := w.fd.Type.Params.List
	var names []*ast.Ident
	for _, f := range ps {
		names = append(names, f.Names...)
	}
	if len(names) != 2 {
		refuse(w.fd, "expected (dst, src *S)")
	}
	for i, n := range names {
		p, ok := info.Defs[n].Type().(*types.Pointer)
		if !ok {
			refuse(n, "expected a pointer to a slice")
		}
		if _, ok := p.Elem().Underlying().(*types.Slice); !ok {
			if tp, isTP := p.Elem().(*types.TypeParam); !isTP || !strings.Contains(tp.Constraint().String(), "[]") {
				refuse(n, "expected a pointer to a slice")
			}
		}
		w.slices[info.Defs[n]] = []string{"dst", "src"}[i]
	}
	n := 0
	body := w.cwrBlock(w.fd.Body.List, "  ", true, &n)
	return w.header("(rt : nat) (dst src : sl) ", "option (sl * bool)") + "  let ev := false in\n" + body + "  Some (dst, ev)" + strings.Repeat(" end", n) + ".\n"
}

// ---------------------------------------------------------------- driver

func writeOut(out, text string) {
	old, _ := os.ReadFile(out)
	if string(old) == text {
		return
	}
	if err := os.WriteFile(out, []byte(text), 0o644); err != nil {
		fmt.Fprintln(os.Stderr, "allocgen:", err)
		os.Exit(2)
	}
}

func stub(out, why string) {
	writeOut(out, "(* GENERATED by harness/cmd/allocgen - do not edit. *)\n(* REFUSED: "+strings.ReplaceAll(why, "*)", "* )")+" *)\n")
	fmt.Fprintln(os.Stderr, "allocgen: REFUSED:", why)
	os.Exit(1)
}

const prologue = `(* GENERATED by harness/cmd/allocgen from tree.go and context.go of the tree under test - do not edit.
   Statement-by-statement translation of the context sizing code: allocateContext, the slice of txn / clone / commit /
   updateMaxParams / updateMaxDepth / insert / update / remove / truncate that reads or writes size, maxParams, depth,
   and copyWithResize; primitives: AllocSem.v; bridge to Tree.v / Alloc.v: BridgeAlloc.v (docs/GenC16.md). *)
From FoxBase Require Import Bytes.
From FoxRoute Require Import Node Tree Alloc AllocSem.

`

func main() {
	repo, out := os.Getenv("VERIF_REPO"), ""
	for _, a := range os.Args[1:] {
		switch {
		case strings.HasPrefix(a, "repo="):
			repo = a[5:]
		case strings.HasPrefix(a, "out="):
			out = a[4:]
		}
	}
	if repo == "" {
		repo = "/repo"
	}
	if out == "" {
		fmt.Fprintln(os.Stderr, "usage: allocgen repo=<fox tree> out=<GenAlloc.v>")
		os.Exit(2)
	}
	repo, _ = filepath.Abs(repo)
	out, _ = filepath.Abs(out)
	pkgs, err := parser.ParseDir(fset, repo, func(fi os.FileInfo) bool {
		n := fi.Name()
		return !strings.HasSuffix(n, "_test.go") && !strings.HasPrefix(n, "verif_")
	}, 0)
	if err != nil {
		stub(out, "the tree does not parse: "+err.Error())
	}
	p := pkgs["fox"]
	if p == nil {
		stub(out, "package fox not found in "+repo)
	}
	var fnames []string
	for n := range p.Files {
		fnames = append(fnames, n)
	}
	sort.Strings(fnames)
	var files []*ast.File
	for _, n := range fnames {
		files = append(files, p.Files[n])
	}
	if err := os.Chdir(repo); err != nil {
		stub(out, err.Error())
	}
	var terrs []string
	conf := types.Config{Importer: importer.ForCompiler(fset, "source", nil), Error: func(err error) { terrs = append(terrs, err.Error()) }}
	info = &types.Info{Uses: map[*ast.Ident]types.Object{}, Defs: map[*ast.Ident]types.Object{},
		Selections: map[*ast.SelectorExpr]*types.Selection{}, Types: map[ast.Expr]types.TypeAndValue{}}
	conf.Check("github.com/tigerwill90/fox", fset, files, info)
	if len(terrs) > 0 {
		stub(out, "package fox does not type-check: "+terrs[0])
	}
	var all []*ast.FuncDecl
	keyOf := map[*ast.FuncDecl]string{}
	for _, f := range files {
		for _, d := range f.Decls {
			if fd, ok := d.(*ast.FuncDecl); ok && fd.Body != nil {
				k := recvName(fd) + "." + fd.Name.Name
				funcs[k] = fd
				keyOf[fd] = k
				all = append(all, fd)
			}
		}
	}
	// which functions write a counter (directly, or by calling a method of tXn / iTree that does)
	var global []string
	for _, fd := range all {
		k := keyOf[fd]
		if n := writesDirect(fd.Body); n != nil {
			writes[k] = true
			if specOf(k) == nil {
				global = append(global, fmt.Sprintf("%s: %s writes a counter of the tree / transaction and is not translated", pos(n), k))
			}
		}
		if n := litSetsCounter(fd.Body); n != nil && specOf(k) == nil {
			global = append(global, fmt.Sprintf("%s: %s builds a tree / transaction with counters and is not translated", pos(n), k))
		}
	}
	for changed := true; changed; {
		changed = false
		for _, fd := range all {
			k := keyOf[fd]
			if writes[k] {
				continue
			}
			ast.Inspect(fd.Body, func(n ast.Node) bool {
				if c, ok := n.(*ast.CallExpr); ok {
					if key, _ := ownerCall(c); key != "" && writes[key] {
						if sp := specOf(key); sp != nil && (sp.mode == "lit" || sp.mode == "commit" || sp.mode == "alloc") {
							return true // builds a new value, does not write the receiver's counters
						}
						writes[k] = true
						changed = true
					}
				}
				return true
			})
		}
	}
	var sb strings.Builder
	sb.WriteString(prologue)
	var refused []string
	for _, g := range global {
		refused = append(refused, "global: "+g)
		sb.WriteString("(* REFUSED global: " + g + " *)\n\n")
	}
	for _, sp := range specs {
		fd := funcs[sp.key]
		if fd == nil {
			refused = append(refused, sp.coq+": "+sp.key+" not found")
			sb.WriteString("(* REFUSED " + sp.coq + ": " + sp.key + " not found *)\n\n")
			continue
		}
		p0, p1 := fset.Position(fd.Pos()), fset.Position(fd.End())
		data, _ := os.ReadFile(p0.Filename)
		hdr := fmt.Sprintf("(* %s - %s:%d-%d  sha256=%x *)\n", strings.TrimPrefix(sp.key, "."), filepath.Base(p0.Filename), p0.Line, p1.Line, sha256.Sum256(data[p0.Offset:p1.Offset]))
		func() {
			defer func() {
				if r := recover(); r != nil {
					why, ok := r.(refusal)
					if !ok {
						panic(r)
					}
					refused = append(refused, sp.coq+": "+string(why))
					sb.WriteString(hdr + "(* REFUSED " + sp.coq + ": " + strings.ReplaceAll(string(why), "*)", "* )") + " *)\n\n")
				}
			}()
			w := &walker{sp: sp, fd: fd, names: map[types.Object]string{}, relevant: map[types.Object]bool{}, atomBase: map[string]types.Object{}, slices: map[types.Object]string{}, lenParam: map[types.Object]string{}}
			var text string
			switch sp.mode {
			case "alloc":
				text = w.allocFun()
			case "lit", "commit":
				text = w.litFun()
			case "cwr":
				text = w.cwrFun()
			default:
				text = w.sliceFun()
			}
			sb.WriteString(hdr + text + "\n")
		}()
	}
	writeOut(out, sb.String())
	for _, r := range refused {
		fmt.Fprintln(os.Stderr, "allocgen: REFUSED", r)
	}
	if len(refused) > 0 {
		os.Exit(1)
	}
	fmt.Printf("allocgen: %d definitions from %s\n", len(specs), repo)
}
