// clone.go: the shapes only (*cTx).Clone needs (kind "deep"): a struct VALUE built by a
// composite literal whose address is returned, its embedded recorder, method calls
// through the interface value c.w, the comma-ok type assertion c.w.(*recorder), a local
// Params slice made, filled by copy and escaping through &params, deep copies of the
// request and of the header map.
//
// Allocation: addresses are identities; the translation uses the model's convention for
// a function that allocates (Context.v, clone_gen): one block of five addresses taken at
// entry, one per KIND of object: request, header map, recorder, Params array, cTx.
package main

import (
	"go/ast"
	"go/token"
	"go/types"
	"strings"
)

const deepPrologue = "let a := next H in\nlet H := bump H 5 in\n" +
	"let ar := a in\nlet ah := S a in\nlet ac := S (S a) in\nlet aa := S (S (S a)) in\nlet ax := S (S (S (S a))) in\n"

// zero value of a cTx field, by kind
func zeroOf(f field) string {
	switch f.kind {
	case "writer", "reqptr", "slicep", "opaque", "routep", "treep", "query":
		return "None"
	case "foxp", "scope":
		return "0%N"
	case "bool":
		return "false"
	case "embedded":
		return "ac"
	}
	return "?"
}

// O.w.M() with O a loaded object: a call through the interface value
func (e *env) writerCall(x ast.Expr, method string) (*object, *field, bool) {
	c, ok := unparen(x).(*ast.CallExpr)
	if !ok || len(c.Args) != 0 {
		return nil, nil, false
	}
	se, ok := c.Fun.(*ast.SelectorExpr)
	if !ok || se.Sel.Name != method {
		return nil, nil, false
	}
	if _, isSel := unparen(se.X).(*ast.SelectorExpr); !isSel {
		return nil, nil, false
	}
	o, f := e.objField(se.X)
	if o == nil || f.kind != "writer" {
		return nil, nil, false
	}
	fn, ok := info.Uses[se.Sel].(*types.Func)
	if !ok || fn.Pkg() == nil {
		return nil, nil, false
	}
	return o, f, true
}

// cp := cTx{ F: E, ... }      /      params := make(Params, len(*O.F))
func (e *env) defineDeep(s *ast.AssignStmt, lhs, rhs ast.Expr, cont func() string) (string, bool) {
	if e.kind != "deep" {
		return "", false
	}
	id, ok := lhs.(*ast.Ident)
	if !ok {
		return "", false
	}
	if cl, ok := rhs.(*ast.CompositeLit); ok && cl.Type != nil && tstr(info.Types[cl.Type].Type) == "cTx" {
		for _, o := range e.objs {
			if o.local {
				refuse(s.Pos(), "a second struct value")
			}
		}
		vals := map[string]string{}
		pre := wrap(idw)
		for _, el := range cl.Elts {
			kv, ok := el.(*ast.KeyValueExpr)
			if !ok {
				refuse(el.Pos(), "positional composite literal")
			}
			key := kv.Key.(*ast.Ident).Name
			var f *field
			for i := range cTxModel {
				if cTxModel[i].goName == key {
					f = &cTxModel[i]
				}
			}
			if f == nil || f.kind == "embedded" {
				refuse(kv.Pos(), "literal element %s", key)
			}
			w, v := e.rhsDeep(f, kv.Value)
			p0 := pre
			pre = func(k string) string { return p0(w(k)) }
			vals[key] = v
		}
		var args []string
		for _, f := range cTxModel {
			if v, ok := vals[f.goName]; ok {
				args = append(args, paren(v))
			} else {
				args = append(args, zeroOf(f))
			}
		}
		k := info.Defs[id]
		e.objs[k] = &object{addr: "ax", rec: "y", model: cTxModel, local: true, emb: "yr", dirty: true}
		e.order = append(e.order, k)
		return pre(cmt(s) + "let y := mkCtx " + strings.Join(args, " ") + " in\nlet yr := zero_rec in\n" + cont()), true
	}
	if c, ok := rhs.(*ast.CallExpr); ok && builtin(c, "make") && len(c.Args) == 2 && tstr(info.Types[c.Args[0]].Type) == "Params" {
		if ln, ok := unparen(c.Args[1]).(*ast.CallExpr); ok && builtin(ln, "len") && len(ln.Args) == 1 {
			if st, ok := unparen(ln.Args[0]).(*ast.StarExpr); ok {
				if o, f := e.objField(st.X); o != nil && f.kind == "slicep" {
					n := coqName(id.Name)
					sv := fresh("s")
					e.locals[info.Defs[id]] = n
					return cmt(s) + "do " + sv + " <- deref (" + f.get + " " + o.rec + ");\nlet " + n + " := repeat zero_param (sl_len " + sv + ") in\n" + cont(), true
				}
			}
		}
	}
	return "", false
}

// values of the shapes Clone uses; falls back to the common ones
func (e *env) rhsDeep(f *field, x ast.Expr) (wrap, string) {
	x = unparen(x)
	switch f.kind {
	case "reqptr":
		// O.req.Clone(O.req.Context()): a deep copy of the request
		if c, ok := x.(*ast.CallExpr); ok && len(c.Args) == 1 {
			if se, ok := c.Fun.(*ast.SelectorExpr); ok {
				if fn, ok := info.Uses[se.Sel].(*types.Func); ok && fn.FullName() == "(*net/http.Request).Clone" {
					o, f2 := e.objField(se.X)
					if a, ok := unparen(c.Args[0]).(*ast.CallExpr); ok && o != nil && f2.kind == "reqptr" && len(a.Args) == 0 {
						if as, ok := a.Fun.(*ast.SelectorExpr); ok && as.Sel.Name == "Context" && src(as.X) == src(se.X) {
							rv := fresh("q")
							return func(k string) string {
								return cmt(x) + "do " + rv + " <- deref (" + f2.get + " " + o.rec + ");\nlet H := put_req H ar (reqs H " + rv + ") in\n" + k
							}, "Some ar"
						}
					}
				}
			}
		}
	case "under":
		// noopWriter{O.w.Header().Clone()}: a copy of the header map behind a writer that cannot be written
		if cl, ok := x.(*ast.CompositeLit); ok && cl.Type != nil && tstr(info.Types[cl.Type].Type) == "noopWriter" && len(cl.Elts) == 1 {
			if c, ok := unparen(cl.Elts[0]).(*ast.CallExpr); ok && len(c.Args) == 0 {
				if se, ok := c.Fun.(*ast.SelectorExpr); ok {
					if fn, ok := info.Uses[se.Sel].(*types.Func); ok && fn.FullName() == "(net/http.Header).Clone" {
						if o, f2, ok := e.writerCall(se.X, "Header"); ok {
							hv := fresh("h")
							return func(k string) string {
								return cmt(x) + "do " + hv + " <- w_Header H (" + f2.get + " " + o.rec + ");\nlet H := put_hdr H ah (hdrs H " + hv + ") in\n" + k
							}, "Some (true, ah)"
						}
					}
				}
			}
		}
	case "int":
		for _, m := range []string{"Status", "Size"} {
			if o, f2, ok := e.writerCall(x, m); ok {
				v := fresh("z")
				return func(k string) string {
					return "do " + v + " <- w_" + m + " H (" + f2.get + " " + o.rec + ");\n" + k
				}, v
			}
		}
	case "bool":
		// R.hijacked with R bound by `R, ok := O.w.(*recorder)`
		if se, ok := x.(*ast.SelectorExpr); ok && se.Sel.Name == "hijacked" {
			if id, ok := se.X.(*ast.Ident); ok {
				if v, ok := e.vals[objOf(id)]; ok && e.vtyp[objOf(id)] == "*recorder" {
					return idw, "r_hij (recs H " + v + ")"
				}
			}
		}
	case "writer":
		// noUnwrap{&O.rec}
		if cl, ok := x.(*ast.CompositeLit); ok && cl.Type != nil && tstr(info.Types[cl.Type].Type) == "noUnwrap" && len(cl.Elts) == 1 {
			if u, ok := unparen(cl.Elts[0]).(*ast.UnaryExpr); ok && u.Op == token.AND {
				if o2, f2 := e.objField(u.X); o2 != nil && f2.kind == "embedded" {
					return idw, "Some (true, " + f2.get + " " + o2.rec + ")"
				}
			}
		}
	case "slicep":
		// &L with L a local Params value: its storage is allocated where it escapes
		if u, ok := x.(*ast.UnaryExpr); ok && u.Op == token.AND {
			if id, ok := u.X.(*ast.Ident); ok {
				if l, ok := e.locals[objOf(id)]; ok {
					delete(e.locals, objOf(id))
					return func(k string) string { return "let H := put_arr H aa " + l + " in\n" + k }, "Some (mkSlice aa (List.length " + l + "))"
				}
			}
		}
	case "foxp":
		if o2, f2 := e.objField(x); o2 != nil && f2.kind == "foxp" {
			return idw, f2.get + " " + o2.rec
		}
	}
	return idw, e.rhs(f, x)
}

// O.F = E / O.rec.F = E for the shapes of Clone
func (e *env) assignDeep(s *ast.AssignStmt, lhs, rhs ast.Expr, cont func() string) (string, bool) {
	if e.kind != "deep" || s.Tok != token.ASSIGN {
		return "", false
	}
	// O.rec.F = E: a field of the embedded recorder of the struct value
	if se, ok := lhs.(*ast.SelectorExpr); ok {
		if inner, ok := unparen(se.X).(*ast.SelectorExpr); ok {
			if _, isId := inner.X.(*ast.Ident); isId {
				if o, f := e.objField(inner); o != nil && f.kind == "embedded" {
					if !o.local {
						refuse(s.Pos(), "assignment to the embedded recorder of a shared object")
					}
					for i := range recModel {
						if recModel[i].goName == se.Sel.Name {
							w, v := e.rhsDeep(&recModel[i], rhs)
							return w(cmt(s) + "let " + o.emb + " := " + recModel[i].set + " " + o.emb + " " + paren(v) + " in\n" + cont()), true
						}
					}
					refuse(se.Pos(), "field %s of recorder is not in the model", se.Sel.Name)
				}
			}
		}
	}
	if o, f := e.objField(lhs); o != nil && o.local {
		if f.set == "" {
			refuse(s.Pos(), "assignment to field %s, which the model treats as never assigned after allocation", f.goName)
		}
		w, v := e.rhsDeep(f, rhs)
		return w(cmt(s) + "let " + o.rec + " := " + f.set + " " + o.rec + " " + paren(v) + " in\n" + cont()), true
	}
	return "", false
}

// copy(L, *O.F) with L a local Params value
func (e *env) callDeep(s *ast.ExprStmt, c *ast.CallExpr, cont func() string) (string, bool) {
	if e.kind != "deep" || !builtin(c, "copy") || len(c.Args) != 2 {
		return "", false
	}
	id, ok := unparen(c.Args[0]).(*ast.Ident)
	if !ok {
		return "", false
	}
	l, ok := e.locals[objOf(id)]
	if !ok {
		return "", false
	}
	if st, ok := unparen(c.Args[1]).(*ast.StarExpr); ok {
		if o, f := e.objField(st.X); o != nil && f.kind == "slicep" {
			sv := fresh("s")
			return cmt(s) + "do " + sv + " <- deref (" + f.get + " " + o.rec + ");\nlet " + l + " := list_copy " + l + " (slice_read H " + sv + ") in\n" + cont(), true
		}
	}
	return "", false
}

// O.w.Written() as a condition
func (e *env) condDeep(x ast.Expr) (wrap, string, bool) {
	if e.kind != "deep" {
		return nil, "", false
	}
	if o, f, ok := e.writerCall(x, "Written"); ok {
		v := fresh("b")
		return func(k string) string { return "do " + v + " <- w_Written H (" + f.get + " " + o.rec + ");\n" + k }, v, true
	}
	return nil, "", false
}

// if R, ok := O.w.(*recorder); ok { A } ; rest
func (e *env) ifAssert(s *ast.IfStmt, rest []ast.Stmt, fall func(*env) string) string {
	as, ok := s.Init.(*ast.AssignStmt)
	if e.kind != "deep" || !ok || as.Tok != token.DEFINE || len(as.Lhs) != 2 || len(as.Rhs) != 1 || s.Else != nil {
		refuse(s.Pos(), "if with an init statement")
	}
	rid, ok1 := as.Lhs[0].(*ast.Ident)
	okid, ok2 := as.Lhs[1].(*ast.Ident)
	ta, ok3 := unparen(as.Rhs[0]).(*ast.TypeAssertExpr)
	cid, ok4 := unparen(s.Cond).(*ast.Ident)
	if !ok1 || !ok2 || !ok3 || !ok4 || ta.Type == nil || tstr(info.Types[ta.Type].Type) != "*recorder" || objOf(cid) != info.Defs[okid] {
		refuse(s.Pos(), "if with an init statement: only `if R, ok := c.w.(*recorder); ok`")
	}
	if _, isSel := unparen(ta.X).(*ast.SelectorExpr); !isSel {
		refuse(ta.Pos(), "type assertion operand")
	}
	o, f := e.objField(ta.X)
	if o == nil || f.kind != "writer" {
		refuse(ta.Pos(), "type assertion operand")
	}
	rv := coqName(rid.Name)
	e1 := e.clone()
	e1.vals[info.Defs[rid]] = rv
	e1.vtyp[info.Defs[rid]] = "*recorder"
	thenT := e1.block(s.Body.List, func(x *env) string { return x.block(rest, fall) })
	e2 := e.clone()
	elseT := e2.block(rest, fall)
	return "(* if " + strings.TrimSuffix(strings.TrimPrefix(cmt(as), "(* "), " *)\n") + "; ok *)\n" +
		"match w_as_recorder (" + f.get + " " + o.rec + ") with\n| Some " + rv + " =>\n" + indent(thenT) + "\n| None =>\n" + indent(elseT) + "\nend"
}

// return &cp
func (e *env) retDeep(s *ast.ReturnStmt) (string, bool) {
	if s == nil || len(s.Results) != 1 {
		return "", false
	}
	u, ok := unparen(s.Results[0]).(*ast.UnaryExpr)
	if !ok || u.Op != token.AND {
		return "", false
	}
	id, ok := u.X.(*ast.Ident)
	if !ok {
		return "", false
	}
	o := e.objs[objOf(id)]
	if o == nil || !o.local {
		return "", false
	}
	if len(e.locals) > 0 {
		refuse(s.Pos(), "a local slice is dropped")
	}
	return cmt(s) + "Ok (put_ctx (put_rec H (c_rec " + o.rec + ") " + o.emb + ") " + o.addr + " " + o.rec + ", " + o.addr + ")", true
}
