// ctxgen: tie A for C12.  Reads package fox from repo=<dir>, type-checks it
// (go/types, source importer, stdlib only) and rewrites out=<GenCtx.v>: the bodies
// of the context life-cycle methods of context.go
//
//	(*cTx).reset, resetNil, resetWithWriter, (*recorder).reset, copyWithResize,
//	(*cTx).CloneWith, Param, Params
//
// as Gallina definitions gen_<name> over the heap model of coq/C12/Context.v
// (meaning of the single statements: Context.v's cset_* / trunc_params / rec_reset /
// put_ctx / put_rec / slice_read and the primitives of coq/C12/CtxSem.v).
//
// The translation is derived from the syntax tree, statement by statement, in source
// order, through a whitelist of statement and expression shapes (docs/GenCtx.md).
// The field lists of cTx, recorder and Param are read from the type declarations and
// compared with what the model knows.  Anything else is REFUSED: the function gets a
// `(* REFUSED: ... *)` stub instead of a definition (so BridgeCtx.v cannot build
// against something stale) and the exit status is 3.
//
// usage: ctxgen repo=<dir> out=<file.v>
package main

import (
	"bytes"
	"crypto/sha256"
	"fmt"
	"go/ast"
	"go/constant"
	"go/importer"
	"go/parser"
	"go/printer"
	"go/token"
	"go/types"
	"os"
	"path/filepath"
	"sort"
	"strings"
)

const foxPath = "github.com/tigerwill90/fox"

var (
	fset = token.NewFileSet()
	info *types.Info
	pkg  *types.Package
)

type refusal struct {
	pos token.Pos
	msg string
}

func refuse(pos token.Pos, format string, a ...any) {
	panic(refusal{pos, fmt.Sprintf(format, a...)})
}

func src(n ast.Node) string {
	var b bytes.Buffer
	printer.Fprint(&b, fset, n)
	return strings.Join(strings.Fields(b.String()), " ")
}

// a Go fragment inside a Coq comment: no comment delimiters
func cmt(n ast.Node) string {
	s := src(n)
	s = strings.ReplaceAll(s, "(*", "( *")
	s = strings.ReplaceAll(s, "*)", "* )")
	return "(* " + s + " *)\n"
}

func tstr(t types.Type) string {
	return types.TypeString(t, func(p *types.Package) string {
		if p.Path() == foxPath {
			return ""
		}
		return p.Path()
	})
}

func indent(s string) string {
	ls := strings.Split(strings.TrimRight(s, "\n"), "\n")
	for i := range ls {
		ls[i] = "  " + ls[i]
	}
	return strings.Join(ls, "\n")
}

// ---------------------------------------------------------------- what the model knows

type field struct{ goName, goType, get, set, kind string }

// cTx (context.go) <-> record ctx of Context.v.  set == "": the model has no setter
// (tree, fox: "no reset"; rec: the embedded recorder, fixed address), assignment refused.
var cTxModel = []field{
	{"w", "ResponseWriter", "c_w", "cset_w", "writer"},
	{"req", "*net/http.Request", "c_req", "cset_req", "reqptr"},
	{"params", "*Params", "c_params", "cset_params", "slicep"},
	{"tsrParams", "*Params", "c_tsrp", "cset_tsrp", "slicep"},
	{"skipNds", "*skippedNodes", "c_skip", "cset_skip", "opaque"},
	{"route", "*Route", "c_route", "cset_route", "routep"},
	{"tree", "*iTree", "c_tree", "", "treep"},
	{"fox", "*Router", "c_fox", "", "foxp"},
	{"cachedQuery", "net/url.Values", "c_cq", "cset_cq", "query"},
	{"rec", "recorder", "c_rec", "", "embedded"},
	{"scope", "HandlerScope", "c_scope", "cset_scope", "scope"},
	{"tsr", "bool", "c_tsr", "cset_tsr", "bool"},
}

// recorder (response_writer.go) <-> record recorder of Context.v, setters in CtxSem.v
var recModel = []field{
	{"ResponseWriter", "net/http.ResponseWriter", "r_under", "rset_under", "under"},
	{"size", "int", "r_size", "rset_size", "int"},
	{"status", "int", "r_status", "rset_status", "int"},
	{"hijacked", "bool", "r_hij", "rset_hij", "bool"},
}

// Param (params.go / context.go) <-> param = bytes * bytes
var paramModel = []field{
	{"Key", "string", "p_Key", "", "string"},
	{"Value", "string", "p_Value", "", "string"},
}

// checkStruct: the declared fields are exactly the fields of the model, with the same types
func checkStruct(name string, model []field) string {
	o := pkg.Scope().Lookup(name)
	tn, ok := o.(*types.TypeName)
	if !ok {
		refuse(token.NoPos, "type %s not found", name)
	}
	st, ok := tn.Type().Underlying().(*types.Struct)
	if !ok {
		refuse(tn.Pos(), "type %s is not a struct", name)
	}
	known := map[string]field{}
	for _, f := range model {
		known[f.goName] = f
	}
	seen := map[string]bool{}
	var names []string
	for i := 0; i < st.NumFields(); i++ {
		f := st.Field(i)
		m, ok := known[f.Name()]
		if !ok {
			refuse(f.Pos(), "struct %s has a field %q that the model (Context.v) does not know", name, f.Name())
		}
		if got := tstr(f.Type()); got != m.goType {
			refuse(f.Pos(), "field %s.%s has type %s, the model was written for %s", name, f.Name(), got, m.goType)
		}
		seen[f.Name()] = true
		names = append(names, f.Name()+" "+tstr(f.Type()))
	}
	for _, f := range model {
		if !seen[f.goName] {
			refuse(tn.Pos(), "struct %s no longer has the field %q of the model", name, f.goName)
		}
	}
	return strings.Join(names, "; ")
}

var reserved = map[string]bool{"H": true, "x": true, "y": true, "a": true, "d": true, "s": true, "i": true, "n": true,
	"ps": true, "v": true, "tr": true, "cwr": true, "fresh": true, "e": true, "hd": true,
	"ar": true, "ah": true, "ac": true, "aa": true, "ax": true, "yr": true, "S": true, "q": true, "h": true, "z": true, "b": true,
	"in": true, "let": true, "fun": true, "match": true, "end": true, "if": true, "then": true, "else": true,
	"as": true, "return": true, "at": true, "do": true, "with": true, "fix": true, "forall": true, "exists": true,
	"Ok": true, "Panic": true, "Some": true, "None": true, "fst": true, "snd": true, "next": true}

func coqName(s string) string {
	if reserved[s] || strings.HasPrefix(s, "gen_") || strings.HasPrefix(s, "c_") || strings.HasPrefix(s, "cset_") {
		return s + "_g"
	}
	return s
}

// ---------------------------------------------------------------- translation environment

// a struct reached through a pointer, loaded into a Coq record variable
type object struct {
	addr  string // Coq variable holding its address ("" : passed as a record)
	rec   string // Coq variable holding the record
	model []field
	dirty bool   // assigned on the current path: stored back at return
	local bool   // a struct VALUE of the function (Clone's cp), allocated where its address escapes
	emb   string // Coq variable holding the embedded recorder of a local struct value
}

type param struct{ name, typ string }

type shared struct {
	oracles  []param  // objects handed out by the environment (sync.Pool)
	helpers  []string // loop functions, emitted before the definition
	nloops   int
	usesCwr  bool
	usesGrow bool
}

type env struct {
	kind    string // mut | clone | str | iter | cwr | recd
	fname   string
	objs    map[types.Object]*object
	order   []types.Object
	vals    map[types.Object]string // value variables: Go object -> Coq term
	vtyp    map[types.Object]string // their Go types
	slices  map[types.Object]string // *S parameters of copyWithResize: pointee held in a Coq variable
	facts   map[string]bool         // "A > B" known on the current path
	vparams []param                 // value parameters, in order (passed on to loop functions)
	inLoop  bool
	loopOp  string // source text of the range operand, available as `ps` inside the loop
	pooled  map[types.Object]bool
	locals  map[types.Object]string // local Params values (Clone): Go object -> Coq list variable
	sh      *shared
}

func (e *env) clone() *env {
	c := *e
	c.objs = map[types.Object]*object{}
	for k, v := range e.objs {
		o := *v
		c.objs[k] = &o
	}
	c.vals = map[types.Object]string{}
	for k, v := range e.vals {
		c.vals[k] = v
	}
	c.vtyp = map[types.Object]string{}
	for k, v := range e.vtyp {
		c.vtyp[k] = v
	}
	c.facts = map[string]bool{}
	for k, v := range e.facts {
		c.facts[k] = v
	}
	c.pooled = map[types.Object]bool{}
	for k, v := range e.pooled {
		c.pooled[k] = v
	}
	c.locals = map[types.Object]string{}
	for k, v := range e.locals {
		c.locals[k] = v
	}
	c.order = append([]types.Object(nil), e.order...)
	return &c
}

func unparen(x ast.Expr) ast.Expr {
	for {
		p, ok := x.(*ast.ParenExpr)
		if !ok {
			return x
		}
		x = p.X
	}
}

func objOf(id *ast.Ident) types.Object {
	if o := info.Uses[id]; o != nil {
		return o
	}
	return info.Defs[id]
}

// O.F with O a loaded object
func (e *env) objField(x ast.Expr) (*object, *field) {
	se, ok := unparen(x).(*ast.SelectorExpr)
	if !ok {
		return nil, nil
	}
	id, ok := se.X.(*ast.Ident)
	if !ok {
		return nil, nil
	}
	o := e.objs[objOf(id)]
	if o == nil {
		return nil, nil
	}
	for i := range o.model {
		if o.model[i].goName == se.Sel.Name {
			return o, &o.model[i]
		}
	}
	refuse(se.Pos(), "field %s of %s is not in the model", se.Sel.Name, id.Name)
	return nil, nil
}

type wrap func(string) string

func idw(s string) string { return s }

func isNil(x ast.Expr) bool {
	tv, ok := info.Types[x]
	return ok && tv.IsNil()
}

// the value assigned to field f of a loaded object
func (e *env) rhs(f *field, x ast.Expr) string {
	x = unparen(x)
	if isNil(x) {
		switch f.kind {
		case "writer", "reqptr", "slicep", "opaque", "routep", "query", "under":
			return "None"
		}
		refuse(x.Pos(), "nil assigned to field %s", f.goName)
	}
	// O2.F2 of the same Go type: a copy of the field
	if o2, f2 := e.objField(x); o2 != nil {
		if f2.goType != f.goType || f2.kind != f.kind {
			refuse(x.Pos(), "field %s assigned from field %s of another type", f.goName, f2.goName)
		}
		if f2.kind == "embedded" {
			refuse(x.Pos(), "copy of the embedded recorder")
		}
		return f2.get + " " + o2.rec
	}
	tv := info.Types[x]
	switch f.kind {
	case "writer":
		if id, ok := x.(*ast.Ident); ok {
			if v, ok := e.vals[objOf(id)]; ok && e.vtyp[objOf(id)] == "ResponseWriter" {
				return "Some (false, " + v + ")"
			}
		}
		if u, ok := x.(*ast.UnaryExpr); ok && u.Op == token.AND {
			if o2, f2 := e.objField(u.X); o2 != nil && f2.kind == "embedded" {
				return "Some (false, " + f2.get + " " + o2.rec + ")"
			}
		}
	case "reqptr":
		if id, ok := x.(*ast.Ident); ok {
			if v, ok := e.vals[objOf(id)]; ok && e.vtyp[objOf(id)] == "*net/http.Request" {
				return "Some " + v
			}
		}
	case "under":
		if id, ok := x.(*ast.Ident); ok {
			if v, ok := e.vals[objOf(id)]; ok && e.vtyp[objOf(id)] == "net/http.ResponseWriter" {
				return "Some (false, " + v + ")"
			}
		}
	case "scope":
		if tv.Value != nil && tstr(tv.Type) == "HandlerScope" {
			if n, ok := constant.Uint64Val(tv.Value); ok {
				return fmt.Sprintf("%d%%N", n)
			}
		}
	case "int":
		if tv.Value != nil && tv.Value.Kind() == constant.Int {
			if n, ok := constant.Int64Val(tv.Value); ok {
				return fmt.Sprintf("(%d)%%Z", n)
			}
		}
	case "bool":
		if tv.Value != nil && tv.Value.Kind() == constant.Bool {
			if constant.BoolVal(tv.Value) {
				return "true"
			}
			return "false"
		}
	}
	refuse(x.Pos(), "value `%s` assigned to field %s: shape not recognised", src(x), f.goName)
	return ""
}

func paren(s string) string {
	if strings.ContainsAny(s, " ") && !(strings.HasPrefix(s, "(") && strings.HasSuffix(s, ")") && strings.Count(s, "(") == 1) {
		return "(" + s + ")"
	}
	return s
}

// ---------------------------------------------------------------- expressions

// *P with P a slice-pointer parameter
func (e *env) slicePtr(x ast.Expr) (string, bool) {
	st, ok := unparen(x).(*ast.StarExpr)
	if !ok {
		return "", false
	}
	id, ok := st.X.(*ast.Ident)
	if !ok {
		return "", false
	}
	v, ok := e.slices[objOf(id)]
	return v, ok
}

func builtin(c *ast.CallExpr, name string) bool {
	id, ok := c.Fun.(*ast.Ident)
	if !ok || id.Name != name {
		return false
	}
	_, ok = info.Uses[id].(*types.Builtin)
	return ok
}

// lengths (nat)
func (e *env) natExpr(x ast.Expr) string {
	x = unparen(x)
	switch x := x.(type) {
	case *ast.CallExpr:
		if len(x.Args) == 1 {
			if v, ok := e.slicePtr(x.Args[0]); ok {
				if builtin(x, "len") {
					return "sl_len " + v
				}
				if builtin(x, "cap") {
					return "sl_cap H " + v
				}
			}
		}
	case *ast.BinaryExpr:
		if x.Op == token.SUB {
			// nat subtraction is Go's int subtraction only when the result is not negative
			if !e.facts[src(x.X)+" > "+src(x.Y)] {
				refuse(x.Pos(), "subtraction `%s` outside the then-branch of `if %s > %s`", src(x), src(x.X), src(x.Y))
			}
			return "(" + e.natExpr(x.X) + " - " + e.natExpr(x.Y) + ")"
		}
	}
	refuse(x.Pos(), "integer expression `%s`: shape not recognised", src(x))
	return ""
}

// strings (bytes); the wrapper binds the index expressions it evaluates (may panic)
func (e *env) strExpr(x ast.Expr) (wrap, string) {
	x = unparen(x)
	switch x := x.(type) {
	case *ast.BasicLit:
		if x.Kind == token.STRING && (x.Value == `""` || x.Value == "``") {
			return idw, "[]"
		}
	case *ast.Ident:
		if v, ok := e.vals[objOf(x)]; ok && e.vtyp[objOf(x)] == "string" {
			return idw, v
		}
	case *ast.SelectorExpr:
		var get string
		for _, f := range paramModel {
			if f.goName == x.Sel.Name {
				get = f.get
			}
		}
		if sel := info.Selections[x]; get != "" && sel != nil && sel.Kind() == types.FieldVal && tstr(sel.Recv()) == "Param" {
			w, p := e.paramExpr(x.X)
			return w, get + " " + p
		}
	}
	refuse(x.Pos(), "string expression `%s`: shape not recognised", src(x))
	return nil, ""
}

// a value of type Param: the range value variable, or (*O.F)[i] inside `for i := range *O.F`
func (e *env) paramExpr(x ast.Expr) (wrap, string) {
	x = unparen(x)
	switch x := x.(type) {
	case *ast.Ident:
		if v, ok := e.vals[objOf(x)]; ok && e.vtyp[objOf(x)] == "Param" {
			return idw, v
		}
	case *ast.IndexExpr:
		ix, ok := unparen(x.Index).(*ast.Ident)
		if e.inLoop && ok && src(unparen(x.X)) == e.loopOp {
			if v, ok := e.vals[objOf(ix)]; ok && e.vtyp[objOf(ix)] == "index" {
				n := fresh("e")
				return func(k string) string { return cmt(x) + "do " + n + " <- idx ps " + v + ";\n" + k }, n
			}
		}
	}
	refuse(x.Pos(), "Param expression `%s`: shape not recognised", src(x))
	return nil, ""
}

var freshCtr = map[string]int{}

func fresh(p string) string {
	freshCtr[p]++
	return fmt.Sprintf("%s%d", p, freshCtr[p])
}

// conditions (bool); fact: "A > B" established in the then-branch
func (e *env) cond(x ast.Expr) (w wrap, term string, fact string) {
	x = unparen(x)
	switch x := x.(type) {
	case *ast.UnaryExpr:
		if x.Op == token.NOT {
			w, t, _ := e.cond(x.X)
			return w, "negb " + paren(t), ""
		}
	case *ast.SelectorExpr:
		if o, f := e.objField(x); o != nil && f.kind == "bool" {
			return idw, f.get + " " + o.rec, ""
		}
	case *ast.BinaryExpr:
		tx := info.Types[x.X].Type
		switch x.Op {
		case token.EQL:
			if tx != nil && tstr(tx) == "string" {
				w1, a := e.strExpr(x.X)
				w2, b := e.strExpr(x.Y)
				return func(k string) string { return w1(w2(k)) }, "bytes_eqb " + paren(a) + " " + paren(b), ""
			}
		case token.GTR:
			if tx != nil && tstr(tx) == "int" {
				a, b := e.natExpr(x.X), e.natExpr(x.Y)
				return idw, "Nat.ltb " + paren(b) + " " + paren(a), src(x.X) + " > " + src(x.Y)
			}
		}
	case *ast.CallExpr:
		if w, t, ok := e.condDeep(x); ok {
			return w, t, ""
		}
		// yield(p): the value is handed to the consumer
		if id, ok := x.Fun.(*ast.Ident); ok && len(x.Args) == 1 && e.kind == "iter" {
			if v, ok := e.vals[objOf(id)]; ok && e.vtyp[objOf(id)] == "func(Param) bool" {
				w1, p := e.paramExpr(x.Args[0])
				return func(k string) string { return w1("emit " + p + " (\n" + indent(k) + ")") }, v + " " + p, ""
			}
		}
	}
	refuse(x.Pos(), "condition `%s`: shape not recognised", src(x))
	return nil, "", ""
}

// ---------------------------------------------------------------- statements

func (e *env) stores() string {
	h := "H"
	for _, k := range e.order {
		o := e.objs[k]
		if o.dirty && o.addr != "" {
			h = "put_ctx " + paren(h) + " " + o.addr + " " + o.rec
		}
	}
	return h
}

// the term for leaving the function (with its results)
func (e *env) ret(s *ast.ReturnStmt, pos token.Pos) string {
	var results []ast.Expr
	c := ""
	if s != nil {
		results = s.Results
		c = cmt(s)
	}
	switch e.kind {
	case "deep":
		if t, ok := e.retDeep(s); ok {
			return t
		}
	case "mut":
		if len(results) == 0 {
			return c + "Ok " + paren(e.stores())
		}
	case "clone":
		if len(results) == 1 {
			if id, ok := unparen(results[0]).(*ast.Ident); ok && e.pooled[objOf(id)] {
				return c + "Ok " + paren(e.stores())
			}
		}
	case "recd":
		if len(results) == 0 {
			for _, k := range e.order {
				return c + "Ok " + e.objs[k].rec
			}
		}
	case "cwr":
		if len(results) == 0 {
			var dst string
			for _, p := range e.vparams {
				if p.typ == "slice" {
					dst = p.name
					break
				}
			}
			return c + "Ok (H, " + dst + ")"
		}
	case "str":
		if len(results) == 1 {
			w, v := e.strExpr(results[0])
			if e.inLoop {
				return c + w("Ok (Some "+paren(v)+")")
			}
			return c + w("Ok "+paren(v))
		}
		if s == nil {
			refuse(pos, "missing return")
		}
	case "iter":
		if len(results) == 0 {
			if s == nil {
				return "Ok ([], false)"
			}
			return c + "Ok ([], true)"
		}
	}
	refuse(pos, "return statement: shape not recognised")
	return ""
}

func (e *env) block(list []ast.Stmt, fall func(*env) string) string {
	if len(list) == 0 {
		return fall(e)
	}
	s, rest := list[0], list[1:]
	cont := func() string { return e.block(rest, fall) }
	switch s := s.(type) {
	case *ast.AssignStmt:
		return e.assign(s, cont)
	case *ast.ExprStmt:
		return e.call(s, cont)
	case *ast.IfStmt:
		if s.Init != nil {
			return e.ifAssert(s, rest, fall)
		}
		w, c, fact := e.cond(s.Cond)
		e1 := e.clone()
		if fact != "" {
			e1.facts[fact] = true
		}
		thenT := e1.block(s.Body.List, func(x *env) string { return x.block(rest, fall) })
		e2 := e.clone()
		var elseT string
		switch el := s.Else.(type) {
		case nil:
			elseT = e2.block(rest, fall)
		case *ast.BlockStmt:
			elseT = e2.block(el.List, func(x *env) string { return x.block(rest, fall) })
		default:
			refuse(s.Else.Pos(), "else-if chain")
		}
		return w("(* if " + strings.TrimPrefix(cmt(s.Cond), "(* ") + "if " + c + " then (\n" + indent(thenT) + "\n) else (\n" + indent(elseT) + "\n)")
	case *ast.RangeStmt:
		return e.loop(s, cont)
	case *ast.ReturnStmt:
		if len(rest) > 0 {
			refuse(rest[0].Pos(), "statement after return")
		}
		return e.ret(s, s.Pos())
	}
	refuse(s.Pos(), "statement `%s`: shape not recognised", src(s))
	return ""
}

func (e *env) assign(s *ast.AssignStmt, cont func() string) string {
	if len(s.Lhs) != 1 || len(s.Rhs) != 1 {
		refuse(s.Pos(), "parallel assignment")
	}
	lhs, rhs := unparen(s.Lhs[0]), unparen(s.Rhs[0])
	if s.Tok == token.DEFINE {
		if t, ok := e.defineDeep(s, lhs, rhs, cont); ok {
			return t
		}
		return e.define(s, lhs, rhs, cont)
	}
	if t, ok := e.assignDeep(s, lhs, rhs, cont); ok {
		return t
	}
	if s.Tok != token.ASSIGN {
		refuse(s.Pos(), "assignment operator %s", s.Tok)
	}
	// O.F = E
	if o, f := e.objField(lhs); o != nil {
		if f.set == "" {
			refuse(s.Pos(), "assignment to field %s, which the model treats as never assigned after allocation", f.goName)
		}
		v := e.rhs(f, rhs)
		o.dirty = true
		return cmt(s) + "let " + o.rec + " := " + f.set + " " + o.rec + " " + paren(v) + " in\n" + cont()
	}
	if st, ok := lhs.(*ast.StarExpr); ok {
		// *O.F = (*O.F)[:0]
		if o, f := e.objField(st.X); o != nil {
			sl, ok := rhs.(*ast.SliceExpr)
			if ok && !sl.Slice3 && sl.Low == nil && sl.High != nil && src(unparen(sl.X)) == src(lhs) {
				if tv := info.Types[sl.High]; tv.Value != nil && tv.Value.String() == "0" {
					if f.goName != "params" {
						refuse(s.Pos(), "truncation of %s: the model only has trunc_params", f.goName)
					}
					o.dirty = true
					return cmt(s) + "do " + o.rec + " <- trunc_params " + o.rec + ";\n" + cont()
				}
			}
			refuse(s.Pos(), "assignment through %s: only `*c.params = (*c.params)[:0]` is recognised", src(lhs))
		}
		// *P = ... with P a slice-pointer parameter
		if v, ok := e.slicePtr(lhs); ok {
			if len(e.vparams) == 0 || e.vparams[0].name != v {
				refuse(s.Pos(), "assignment through %s: only the first pointer parameter is returned to the caller", src(lhs))
			}
			switch r := rhs.(type) {
			case *ast.CallExpr:
				// slices.Grow(*P, N)
				if se, ok := r.Fun.(*ast.SelectorExpr); ok && len(r.Args) == 2 {
					if fn, ok := info.Uses[se.Sel].(*types.Func); ok && fn.Pkg() != nil && fn.Pkg().Path() == "slices" && fn.Name() == "Grow" {
						if a, ok := e.slicePtr(r.Args[0]); ok && a == v {
							if e.sh.usesGrow {
								refuse(s.Pos(), "second allocating call (one fresh address per call of the function)")
							}
							e.sh.usesGrow = true
							n := e.natExpr(r.Args[1])
							return cmt(s) + "let hd := slices_Grow H " + v + " " + paren(n) + " fresh in\nlet H := fst hd in\nlet " + v + " := snd hd in\n" + cont()
						}
					}
				}
			case *ast.SliceExpr:
				// (*P)[:E1:E2]
				if a, ok := e.slicePtr(r.X); ok && a == v && r.Slice3 && r.Low == nil {
					hi, mx := e.natExpr(r.High), e.natExpr(r.Max)
					return cmt(s) + "do " + v + " <- sl_reslice3 H " + v + " " + paren(hi) + " " + paren(mx) + ";\n" + cont()
				}
			}
		}
	}
	refuse(s.Pos(), "assignment `%s`: shape not recognised", src(s))
	return ""
}

// cp := c.tree.ctx.Get().(*cTx)
func (e *env) define(s *ast.AssignStmt, lhs, rhs ast.Expr, cont func() string) string {
	id, ok := lhs.(*ast.Ident)
	ta, ok2 := rhs.(*ast.TypeAssertExpr)
	if ok && ok2 && ta.Type != nil && tstr(info.Types[ta.Type].Type) == "*cTx" && e.kind == "clone" {
		if call, ok := unparen(ta.X).(*ast.CallExpr); ok && len(call.Args) == 0 {
			if get, ok := call.Fun.(*ast.SelectorExpr); ok {
				if fn, ok := info.Uses[get.Sel].(*types.Func); ok && fn.FullName() == "(*sync.Pool).Get" {
					if pool, ok := get.X.(*ast.SelectorExpr); ok && pool.Sel.Name == "ctx" {
						if o, f := e.objField(pool.X); o != nil && f.kind == "treep" {
							name := coqName(id.Name)
							rec := "y"
							if len(e.objs) > 1 {
								refuse(s.Pos(), "a second pooled object")
							}
							e.sh.oracles = append(e.sh.oracles, param{name, "addr"})
							k := info.Defs[id]
							e.objs[k] = &object{addr: name, rec: rec, model: cTxModel}
							e.order = append(e.order, k)
							e.pooled[k] = true
							return cmt(s) + "do _ <- deref (" + f.get + " " + o.rec + ");\nlet " + rec + " := ctxs H " + name + " in\n" + cont()
						}
					}
				}
			}
		}
	}
	refuse(s.Pos(), "short variable declaration `%s`: only `cp := c.tree.ctx.Get().(*cTx)` is recognised", src(s))
	return ""
}

func (e *env) call(s *ast.ExprStmt, cont func() string) string {
	c, ok := s.X.(*ast.CallExpr)
	if !ok {
		refuse(s.Pos(), "expression statement")
	}
	if t, ok := e.callDeep(s, c, cont); ok {
		return t
	}
	// O.rec.reset(w)
	if se, ok := c.Fun.(*ast.SelectorExpr); ok && len(c.Args) == 1 {
		if fn, ok := info.Uses[se.Sel].(*types.Func); ok && fn.FullName() == "(*"+foxPath+".recorder).reset" {
			if o, f := e.objField(se.X); o != nil && f.kind == "embedded" {
				if id, ok := unparen(c.Args[0]).(*ast.Ident); ok {
					if v, ok := e.vals[objOf(id)]; ok && e.vtyp[objOf(id)] == "net/http.ResponseWriter" {
						return cmt(s) + "let H := put_rec H (" + f.get + " " + o.rec + ") (rec_reset " + v + ") in\n" + cont()
					}
				}
			}
		}
	}
	// copyWithResize(A.F, B.G)
	if id, ok := c.Fun.(*ast.Ident); ok && len(c.Args) == 2 {
		if fn, ok := info.Uses[id].(*types.Func); ok && fn.Pkg() != nil && fn.Pkg().Path() == foxPath && fn.Name() == "copyWithResize" &&
			fn.Type().(*types.Signature).Recv() == nil {
			o1, f1 := e.objField(c.Args[0])
			o2, f2 := e.objField(c.Args[1])
			if o1 != nil && o2 != nil && f1.kind == "slicep" && f2.kind == "slicep" {
				e.sh.usesCwr = true
				o1.dirty = true
				return cmt(s) +
					"do d <- deref (" + f1.get + " " + o1.rec + ");\n" +
					"do s <- deref (" + f2.get + " " + o2.rec + ");\n" +
					"let a := next H in\nlet H := bump H 1 in\n" +
					"do hd <- cwr H d s a;\nlet H := fst hd in\n" +
					"let " + o1.rec + " := " + f1.set + " " + o1.rec + " (Some (snd hd)) in\n" + cont()
			}
		}
		// copy(*P, *Q)
		if builtin(c, "copy") {
			d, ok1 := e.slicePtr(c.Args[0])
			q, ok2 := e.slicePtr(c.Args[1])
			if ok1 && ok2 {
				return cmt(s) + "let H := sl_copy H " + d + " " + q + " in\n" + cont()
			}
		}
	}
	refuse(s.Pos(), "call `%s`: shape not recognised", src(s))
	return ""
}

// for i := range *O.F { .. }   /   for _, p := range *O.F { .. }
func (e *env) loop(s *ast.RangeStmt, cont func() string) string {
	if e.inLoop {
		refuse(s.Pos(), "nested loop")
	}
	if e.kind != "str" && e.kind != "iter" {
		refuse(s.Pos(), "loop in a function of kind %s", e.kind)
	}
	if s.Tok != token.DEFINE {
		refuse(s.Pos(), "range without :=")
	}
	st, ok := unparen(s.X).(*ast.StarExpr)
	if !ok {
		refuse(s.X.Pos(), "range operand `%s`: only *c.params / *c.tsrParams", src(s.X))
	}
	o, f := e.objField(st.X)
	if o == nil || f.kind != "slicep" {
		refuse(s.X.Pos(), "range operand `%s`: only *c.params / *c.tsrParams", src(s.X))
	}
	e.sh.nloops++
	k := e.sh.nloops
	lname := fmt.Sprintf("%s_loop%d", e.fname, k)
	le := e.clone()
	le.inLoop = true
	le.loopOp = src(unparen(s.X))
	head := ""
	if id, ok := s.Key.(*ast.Ident); ok && id.Name != "_" {
		le.vals[info.Defs[id]] = "i"
		le.vtyp[info.Defs[id]] = "index"
	} else if s.Key != nil && !ok {
		refuse(s.Key.Pos(), "range key")
	}
	if s.Value != nil {
		id, ok := s.Value.(*ast.Ident)
		if !ok {
			refuse(s.Value.Pos(), "range value")
		}
		if id.Name != "_" {
			n := coqName(id.Name)
			le.vals[info.Defs[id]] = n
			le.vtyp[info.Defs[id]] = "Param"
			head = "do " + n + " <- idx ps i;\n"
		}
	}
	var pdecl, pargs []string
	for _, p := range e.vparams {
		pdecl = append(pdecl, "("+p.name+" : "+p.typ+")")
		pargs = append(pargs, p.name)
	}
	args := strings.Join(pargs, " ")
	recur := lname + " " + args + " ps (S i) n'"
	body := head + le.block(s.Body.List, func(*env) string { return recur })
	typ, zero := "res (option bytes)", "Ok None"
	if e.kind == "iter" {
		typ, zero = "res (list param * bool)", "Ok ([], false)"
	}
	fix := "(* the loop over " + strings.TrimSuffix(strings.TrimPrefix(cmt(s.X), "(* "), " *)\n") + " at " + filepath.Base(fset.Position(s.Pos()).Filename) +
		fmt.Sprintf(":%d; ps = the elements, i = index, n = iterations left *)\n", fset.Position(s.Pos()).Line) +
		"Fixpoint " + lname + " " + strings.Join(pdecl, " ") + " (ps : list param) (i n : nat) {struct n} : " + typ + " :=\n" +
		"  match n with\n  | O => " + zero + "\n  | S n' =>\n" + indent(indent(body)) + "\n  end.\n"
	e.sh.helpers = append(e.sh.helpers, fix)
	sv, psv, rv := fmt.Sprintf("s%d", k), fmt.Sprintf("ps%d", k), fmt.Sprintf("r%d", k)
	out := "(* for .. := range " + strings.TrimPrefix(cmt(s.X), "(* ") +
		"do " + sv + " <- deref (" + f.get + " " + o.rec + ");\nlet " + psv + " := slice_read H " + sv + " in\n"
	call := lname + " " + args + " " + psv + " 0 (List.length " + psv + ")"
	if e.kind == "str" {
		return out + "do " + rv + " <- " + call + ";\nmatch " + rv + " with\n| Some v => Ok v\n| None =>\n" + indent(cont()) + "\nend"
	}
	return out + "seq_tr (" + call + ") (\n" + indent(cont()) + ")"
}

// ---------------------------------------------------------------- functions

type target struct{ recv, name, coq, kind, file string }

var targets = []target{
	{"cTx", "reset", "gen_reset", "mut", "context.go"},
	{"cTx", "resetNil", "gen_resetNil", "mut", "context.go"},
	{"cTx", "resetWithWriter", "gen_resetWithWriter", "mut", "context.go"},
	{"recorder", "reset", "gen_recorder_reset", "recd", "response_writer.go"},
	{"", "copyWithResize", "gen_copyWithResize", "cwr", "context.go"},
	{"cTx", "CloneWith", "gen_CloneWith", "clone", "context.go"},
	{"cTx", "Param", "gen_Param", "str", "context.go"},
	{"cTx", "Params", "gen_Params", "iter", "context.go"},
	{"cTx", "Clone", "gen_Clone", "deep", "context.go"},
}

func recvName(fd *ast.FuncDecl) string {
	if fd.Recv == nil || len(fd.Recv.List) == 0 {
		return ""
	}
	t := fd.Recv.List[0].Type
	if s, ok := t.(*ast.StarExpr); ok {
		t = s.X
	} else {
		return "?" // value receivers are not in the whitelist
	}
	if id, ok := t.(*ast.Ident); ok {
		return id.Name
	}
	return "?"
}

func valueParam(t types.Type) (string, bool) {
	switch tstr(t) {
	case "net/http.ResponseWriter", "*net/http.Request", "ResponseWriter":
		return "addr", true
	case "string":
		return "bytes", true
	case "func(Param) bool":
		return "param -> bool", true
	}
	return "", false
}

func translate(t target, fd *ast.FuncDecl, okCwr bool) string {
	sh := &shared{}
	freshCtr = map[string]int{}
	e := &env{kind: t.kind, fname: t.coq, objs: map[types.Object]*object{}, vals: map[types.Object]string{}, vtyp: map[types.Object]string{},
		slices: map[types.Object]string{}, facts: map[string]bool{}, pooled: map[types.Object]bool{}, locals: map[types.Object]string{}, sh: sh}
	var recvAddr string
	if t.recv != "" {
		r := fd.Recv.List[0]
		if len(r.Names) != 1 {
			refuse(fd.Pos(), "anonymous receiver")
		}
		k := info.Defs[r.Names[0]]
		model := cTxModel
		if t.recv == "recorder" {
			model = recModel
		}
		recvAddr = coqName(r.Names[0].Name)
		o := &object{addr: recvAddr, rec: "x", model: model}
		if t.kind == "recd" {
			o.addr = ""
		}
		e.objs[k] = o
		e.order = append(e.order, k)
	}
	var sig []param
	for _, p := range fd.Type.Params.List {
		for _, id := range p.Names {
			k := info.Defs[id]
			if t.kind == "cwr" {
				if tstr(k.Type()) != "*S" {
					refuse(id.Pos(), "parameter %s of type %s", id.Name, tstr(k.Type()))
				}
				n := coqName(id.Name)
				e.slices[k] = n
				e.vparams = append(e.vparams, param{n, "slice"})
				sig = append(sig, param{n, "slice"})
				continue
			}
			ct, ok := valueParam(k.Type())
			if !ok {
				refuse(id.Pos(), "parameter %s of type %s", id.Name, tstr(k.Type()))
			}
			n := coqName(id.Name)
			e.vals[k] = n
			e.vtyp[k] = tstr(k.Type())
			e.vparams = append(e.vparams, param{n, ct})
			sig = append(sig, param{n, ct})
		}
	}
	body := fd.Body.List
	if t.kind == "iter" {
		// return func(yield func(Param) bool) { ... }
		var fl *ast.FuncLit
		if len(body) == 1 {
			if r, ok := body[0].(*ast.ReturnStmt); ok && len(r.Results) == 1 {
				fl, _ = r.Results[0].(*ast.FuncLit)
			}
		}
		if fl == nil || len(fl.Type.Params.List) != 1 || len(fl.Type.Params.List[0].Names) != 1 || fl.Type.Results != nil {
			refuse(fd.Pos(), "body is not `return func(yield func(Param) bool) { .. }`")
		}
		id := fl.Type.Params.List[0].Names[0]
		k := info.Defs[id]
		ct, ok := valueParam(k.Type())
		if !ok || ct != "param -> bool" {
			refuse(id.Pos(), "iterator parameter of type %s", tstr(k.Type()))
		}
		n := coqName(id.Name)
		e.vals[k] = n
		e.vtyp[k] = tstr(k.Type())
		e.vparams = append(e.vparams, param{n, ct})
		sig = append(sig, param{n, ct})
		body = fl.Body.List
	}
	term := e.block(body, func(x *env) string { return x.ret(nil, fd.Body.Rbrace) })

	pos, end := fset.Position(fd.Pos()), fset.Position(fd.End())
	var b strings.Builder
	text, _ := os.ReadFile(pos.Filename)
	sum := sha256.Sum256(text[pos.Offset:end.Offset])
	fmt.Fprintf(&b, "(* %s:%d-%d  sha256 %x *)\n", filepath.Base(pos.Filename), pos.Line, end.Line, sum[:8])
	for _, h := range sh.helpers {
		b.WriteString(h)
	}
	var ps []string
	add := func(p param) { ps = append(ps, "("+p.name+" : "+p.typ+")") }
	name := t.coq
	if sh.usesCwr {
		name += "_with"
		add(param{"cwr", "heap -> slice -> slice -> addr -> res (heap * slice)"})
	}
	var result, pre, post string
	switch t.kind {
	case "mut", "clone":
		add(param{"H", "heap"})
		add(param{recvAddr, "addr"})
		for _, o := range sh.oracles {
			add(o)
		}
		result, pre = "res heap", "let x := ctxs H "+recvAddr+" in\n"
	case "deep":
		add(param{"H", "heap"})
		add(param{recvAddr, "addr"})
		result, pre = "res (heap * addr)", "let x := ctxs H "+recvAddr+" in\n"+deepPrologue
	case "str":
		add(param{"H", "heap"})
		add(param{recvAddr, "addr"})
		result, pre = "res bytes", "let x := ctxs H "+recvAddr+" in\n"
	case "iter":
		add(param{"H", "heap"})
		add(param{recvAddr, "addr"})
		result, pre, post = "res (list param)", "let x := ctxs H "+recvAddr+" in\ndo tr <- (\n", ");\nOk (fst tr)"
		term = indent(term)
	case "recd":
		add(param{"x", "recorder"})
		result = "res recorder"
	case "cwr":
		add(param{"H", "heap"})
		result = "res (heap * slice)"
	}
	for _, p := range sig {
		add(p)
	}
	if t.kind == "cwr" {
		add(param{"fresh", "addr"})
	}
	fmt.Fprintf(&b, "Definition %s %s : %s :=\n%s.\n", name, strings.Join(ps, " "), result, indent(pre+term+post))
	if sh.usesCwr {
		// the callee: its hand-written model (bridged separately), or the generated definition
		fmt.Fprintf(&b, "Definition %s := %s_with (fun H d s a => Ok (copy_with_resize H d s a)).\n", t.coq, t.coq)
		if okCwr {
			fmt.Fprintf(&b, "Definition %s_linked := %s_with gen_copyWithResize.\n", t.coq, t.coq)
		} else {
			fmt.Fprintf(&b, "(* REFUSED: %s_linked: gen_copyWithResize was refused *)\n", t.coq)
		}
	}
	return b.String()
}

func main() {
	repo, out := "/repo", ""
	for _, a := range os.Args[1:] {
		switch {
		case strings.HasPrefix(a, "repo="):
			repo = a[5:]
		case strings.HasPrefix(a, "out="):
			out = a[4:]
		}
	}
	if out == "" {
		fmt.Fprintln(os.Stderr, "usage: ctxgen repo=<dir> out=<file.v>")
		os.Exit(2)
	}
	out, _ = filepath.Abs(out)
	fail := func(code int, format string, a ...any) {
		// nothing stale: a file that defines nothing, so the bridge cannot build
		msg := fmt.Sprintf(format, a...)
		os.WriteFile(out, []byte("(* GENERATED by harness/cmd/ctxgen -- do not edit *)\n(* REFUSED: "+strings.ReplaceAll(msg, "*)", "* )")+" *)\n"), 0o644)
		fmt.Fprintln(os.Stderr, "ctxgen: "+msg)
		os.Exit(code)
	}
	pkgs, err := parser.ParseDir(fset, repo, func(fi os.FileInfo) bool {
		n := fi.Name()
		return !strings.HasSuffix(n, "_test.go") && !strings.HasPrefix(n, "verif_")
	}, 0)
	if err != nil {
		fail(2, "parse: %v", err)
	}
	p := pkgs["fox"]
	if p == nil {
		fail(2, "package fox not found in %s", repo)
	}
	var names []string
	for n := range p.Files {
		names = append(names, n)
	}
	sort.Strings(names)
	var files []*ast.File
	for _, n := range names {
		files = append(files, p.Files[n])
	}
	if err := os.Chdir(repo); err != nil {
		fail(2, "%v", err)
	}
	var terrs []string
	conf := types.Config{Importer: importer.ForCompiler(fset, "source", nil), Error: func(err error) { terrs = append(terrs, err.Error()) }}
	info = &types.Info{Uses: map[*ast.Ident]types.Object{}, Defs: map[*ast.Ident]types.Object{},
		Selections: map[*ast.SelectorExpr]*types.Selection{}, Types: map[ast.Expr]types.TypeAndValue{}}
	pkg, _ = conf.Check(foxPath, fset, files, info)
	if len(terrs) > 0 {
		if len(terrs) > 5 {
			terrs = terrs[:5]
		}
		fail(2, "type errors: %s", strings.Join(terrs, "; "))
	}

	var b strings.Builder
	b.WriteString("(* GENERATED by harness/cmd/ctxgen from context.go / response_writer.go of the tree under test -- do not edit.\n" +
		"   One definition per Go function, statements in source order; meaning of the statements: Context.v, CtxSem.v. *)\n" +
		"From FoxBase Require Import Bytes.\nFrom FoxC12 Require Import Context CtxSem.\nFrom Coq Require Import ZArith List.\nOpen Scope list_scope.\n\n")
	nref := 0
	// the field lists
	func() {
		defer func() {
			if r := recover(); r != nil {
				rf, ok := r.(refusal)
				if !ok {
					panic(r)
				}
				where := ""
				if rf.pos.IsValid() {
					where = " at " + fset.Position(rf.pos).String()
				}
				fail(3, "REFUSED%s: %s", where, rf.msg)
			}
		}()
		for _, s := range []struct {
			n string
			m []field
		}{{"cTx", cTxModel}, {"recorder", recModel}, {"Param", paramModel}} {
			fmt.Fprintf(&b, "(* type %s struct { %s } : every field known to the model *)\n", s.n, checkStruct(s.n, s.m))
		}
	}()
	b.WriteString("\n")

	decls := map[string]*ast.FuncDecl{}
	for _, f := range files {
		for _, d := range f.Decls {
			if fd, ok := d.(*ast.FuncDecl); ok && fd.Body != nil {
				decls[recvName(fd)+"."+fd.Name.Name] = fd
			}
		}
	}
	okCwr := false
	for _, t := range targets {
		func() {
			defer func() {
				if r := recover(); r != nil {
					rf, ok := r.(refusal)
					if !ok {
						panic(r)
					}
					where := ""
					if rf.pos.IsValid() {
						ps := fset.Position(rf.pos)
						where = fmt.Sprintf(" at %s:%d:%d", filepath.Base(ps.Filename), ps.Line, ps.Column)
					}
					nref++
					msg := strings.ReplaceAll(strings.ReplaceAll(rf.msg, "(*", "( *"), "*)", "* )")
					fmt.Fprintf(&b, "(* REFUSED: %s%s: %s *)\n\n", t.coq, where, msg)
					fmt.Fprintf(os.Stderr, "ctxgen: REFUSED %s%s: %s\n", t.coq, where, rf.msg)
				}
			}()
			fd := decls[t.recv+"."+t.name]
			if fd == nil {
				refuse(token.NoPos, "function %s.%s not found (pointer receiver expected)", t.recv, t.name)
			}
			if filepath.Base(fset.Position(fd.Pos()).Filename) != t.file {
				refuse(fd.Pos(), "function moved out of %s", t.file)
			}
			s := translate(t, fd, okCwr)
			if t.kind == "cwr" {
				okCwr = true
			}
			b.WriteString(s + "\n")
		}()
	}
	text := []byte(b.String())
	if old, err := os.ReadFile(out); err != nil || !bytes.Equal(old, text) {
		tmp := out + ".tmp"
		if err := os.WriteFile(tmp, text, 0o644); err != nil {
			fmt.Fprintln(os.Stderr, "ctxgen:", err)
			os.Exit(2)
		}
		if err := os.Rename(tmp, out); err != nil {
			fmt.Fprintln(os.Stderr, "ctxgen:", err)
			os.Exit(2)
		}
	}
	if nref > 0 {
		fmt.Fprintf(os.Stderr, "ctxgen: %d function(s) refused\n", nref)
		os.Exit(3)
	}
	fmt.Printf("ctxgen: %d functions translated into %s\n", len(targets), out)
}
