// c17: runs fox.CleanPath on enumerated and random inputs and writes Coq case
// files comparing it with the model (FoxC17.Model) and the spec (FoxC17.Spec).
package main

import (
	"fmt"
	"net/http/httptest"
	"strings"

	"foxverif/hx"

	"github.com/tigerwill90/fox"
)

func run(p string) (out string, panicked bool) {
	defer func() {
		if r := recover(); r != nil {
			panicked = true
		}
	}()
	return fox.CleanPath(p), false
}

// redirRouter has redirecting trailing-slash routes whose slash-adjusted forms are
// reachable from short inputs over {/ . a}: a request p gets a 301/308 only if p is canonical.
var redirRouter = func() *fox.Router {
	f, err := fox.New(fox.WithRedirectTrailingSlash(true))
	hx.Fatal(err)
	h := func(c fox.Context) {}
	for _, p := range []string{"/a/", "/aa", "/a/a/", "/a/aa", "/{x}/a/a/", "/.a/", "/a./", "/..a", "/a/*{w}/a/", "/aaa/{y}/"} {
		f.MustHandle("GET", p, h)
		f.MustHandle("POST", p, h)
	}
	return f
}()

func redirected(p string) bool {
	w := httptest.NewRecorder()
	req := httptest.NewRequest("GET", "/", nil)
	req.URL.Path = p
	req.URL.RawPath = ""
	func() {
		defer func() { _ = recover() }()
		redirRouter.ServeHTTP(w, req)
	}()
	return w.Code == 301 || w.Code == 308
}

func enumerate(alpha []string, maxLen int, f func(string)) {
	var rec func(prefix string, depth int)
	rec = func(prefix string, depth int) {
		f(prefix)
		if depth == maxLen {
			return
		}
		for _, a := range alpha {
			rec(prefix+a, depth+1)
		}
	}
	rec("", 0)
}

func main() {
	args := hx.Args()
	out := args["out"]
	tier := args["tier"]
	shards := hx.Atoi(args["shards"], 8)
	rnd := hx.NewRand(hx.Seed())

	cs := &hx.Cases{
		Header: "From FoxBase Require Import Bytes.\nFrom FoxC17 Require Import Corr.\n",
		Type:   "case",
		Footer: "Definition mism := Eval vm_compute in mismatches cases.\nPrint mism.\n" +
			"Definition viol := Eval vm_compute in spec_violations cases.\nPrint viol.\n" +
			"Definition oof := Eval vm_compute in fuel_outs cases.\nPrint oof.\n",
	}
	st := &hx.Stats{Rule: "exhaustive strings over {/ . a} and {/ . a % C3A9(2 bytes)} up to a length bound + seeded random long inputs (lengths 100-300, straddling the 128-byte stack buffer) built from elements {'', '.', '..', 'ab', '...', '%2F', 'é', 'a.'} + exhaustive sequences of <= N elements over {'', '.', '..', 'a', 'ab'} (rooted and not) + random sequences of 3-12 prefix-related names {a, ab, abc, b, .a, a., ...} + a sweep of every length 124..134, rooted and not rooted, with the first modification at the head / middle / tail / nowhere + random byte strings (any byte value) + every string up to a length bound over {/ . a % 2 e} + all concatenations of <= 2 (core: 3) tokens and random concatenations of 2-10 tokens from a dictionary of percent-escapes and dot fragments {%2e %2E %2f %2F %2e%2e %25 %252e %00 % %2 2e .. ... ./ /. ...} (escapes are opaque bytes) + each of the 256 byte values in 9 path shapes + random names over all 256 byte values; non-trivial = input not already canonical (CleanPath(p) != p) or containing a dot element or a '%'; distinct = distinct input strings"}
	seen := map[string]bool{}
	// cases are buffered and emitted interleaved (stride = number of shards): hx.Cases.Write cuts
	// contiguous chunks, and the long inputs (expensive for coqc: time and memory) must not
	// all land in the same one or two shards
	var pending [][2]string
	nontrivial := 0
	add := func(p, kind string) {
		if seen[p] {
			return
		}
		seen[p] = true
		o, pan := run(p)
		red := "None"
		if len(p) > 0 && len(p) <= 24 && p[0] == '/' {
			if redirected(p) {
				red = "(Some true)"
				st.Count("redirect:issued")
			} else {
				red = "(Some false)"
				st.Count("redirect:not-issued")
			}
		}
		term := "(" + hx.Bytes(p) + ", " + hx.Opt(!pan, hx.Bytes(o)) + ", " + red + ")"
		pending = append(pending, [2]string{term, fmt.Sprintf("CleanPath(%s) = %s panic=%v", hx.Quote(p), hx.Quote(o), pan)})
		st.Count("kind:" + kind)
		st.Count(fmt.Sprintf("len:%03d-%03d", len(p)/32*32, len(p)/32*32+31))
		if pan {
			st.Count("outcome:panic")
		} else if o == p {
			st.Count("outcome:unchanged")
		} else {
			st.Count("outcome:changed")
		}
		if pan || o != p || strings.Contains(p, "/.") || strings.Contains(p, "%") {
			nontrivial++
		}
		if len(st.Samples) < 12 && (len(p) > 3 && o != p) && rnd.Pct(2) {
			st.Samples = append(st.Samples, fmt.Sprintf("CleanPath(%s) = %s", hx.Quote(p), hx.Quote(o)))
		}
	}

	l3, l5 := 7, 5
	nrand := 300
	if tier == "thorough" {
		l3, l5 = 9, 7
		nrand = 6000
	}
	enumerate([]string{"/", ".", "a"}, l3, func(s string) { add(s, "exh3") })
	enumerate([]string{"/", ".", "a", "%", "\xc3\xa9"}, l5, func(s string) { add(s, "exh5") })
	elems := []string{"", ".", "..", "ab", "...", "%2F", "\xc3\xa9", "a.", "..a", "abcdefgh"}
	for i := 0; i < nrand; i++ {
		target := rnd.Range(100, 300)
		if rnd.Pct(30) {
			target = rnd.Range(120, 136)
		}
		var sb strings.Builder
		if rnd.Pct(85) {
			sb.WriteByte('/')
		}
		for sb.Len() < target {
			sb.WriteString(hx.Pick(rnd, elems))
			sb.WriteByte('/')
		}
		s := sb.String()
		if rnd.Pct(50) {
			s = strings.TrimSuffix(s, "/")
		}
		add(s, "random-long")
	}
	// exhaustive element sequences: names sharing a prefix ("a", "ab") so that after a
	// ".." the next element is compared with stale bytes of p (lazy buffer) or buf
	lel := 4
	if tier == "thorough" {
		lel = 5
	}
	enumerate([]string{"\x00", "\x01", "\x02", "\x03", "\x04"}, lel, func(code string) {
		names := []string{"", ".", "..", "a", "ab"}
		parts := make([]string, len(code))
		for i := range code {
			parts[i] = names[code[i]]
		}
		body := strings.Join(parts, "/")
		add("/"+body, "exh-elems")
		add(body, "exh-elems")
	})
	// random short/medium paths over prefix-related names
	npre := 1500
	if tier == "thorough" {
		npre = 20000
	}
	pnames := []string{"", ".", "..", "..", "a", "ab", "abc", "b", ".a", "a.", "..."}
	for i := 0; i < npre; i++ {
		k := rnd.Range(3, 12)
		parts := make([]string, k)
		for j := range parts {
			parts[j] = hx.Pick(rnd, pnames)
		}
		body := strings.Join(parts, "/")
		if rnd.Pct(80) {
			body = "/" + body
		}
		add(body, "random-prefix-names")
	}
	// boundary sweep: every length 124..134 (bytes), rooted and not rooted, around
	// the 128-byte stack buffer (not rooted: n+1 > 128; rooted: len(s) > cap(buf)
	// on the first differing byte), with the first modification early, late or never
	fill := func(n int, rooted bool) string {
		var sb strings.Builder
		if rooted {
			sb.WriteByte('/')
		}
		for sb.Len() < n {
			sb.WriteString(hx.Pick(rnd, []string{"a", "bc", "def", "x.y", "%41", "\xc3\xa9", "..z"}))
			if sb.Len() < n {
				sb.WriteByte('/')
			}
		}
		return sb.String()[:n]
	}
	tails := []string{"", "/", "/.", "/..", "/../", "//", "/./", "/../..", "/a/../b", "/...", "/..a/"}
	heads := []string{"", "/", "//", "/./", "/../", "./", "../", "a/", ".", ".."}
	for n := 124; n <= 134; n++ {
		for _, rooted := range []bool{true, false} {
			for _, tl := range tails {
				if len(tl) < n {
					add(fill(n-len(tl), rooted)+tl, "boundary-tail")
				}
			}
			for _, hd := range heads {
				body := fill(n, true)
				if len(hd) < n {
					add(hd+body[len(hd):], "boundary-head")
				}
			}
			// one modification in the middle
			b := []byte(fill(n, rooted))
			k := rnd.Range(2, n-3)
			b[k], b[k+1] = '/', '/'
			add(string(b), "boundary-mid")
		}
	}
	// malformed stream: arbitrary bytes (NUL, 0xff, controls) mixed with '/' and '.'
	nmal := 400
	if tier == "thorough" {
		nmal = 4000
	}
	for i := 0; i < nmal; i++ {
		n := rnd.Range(1, 24)
		if rnd.Pct(10) {
			n = rnd.Range(125, 132)
		}
		b := make([]byte, n)
		for j := range b {
			switch rnd.Intn(6) {
			case 0, 1:
				b[j] = '/'
			case 2, 3:
				b[j] = '.'
			case 4:
				b[j] = byte('a' + rnd.Intn(3))
			default:
				b[j] = byte(rnd.Intn(256))
			}
		}
		add(string(b), "malformed-bytes")
	}
	// percent-escapes are three opaque bytes for CleanPath (byte-level, no decoding):
	// (1) every string up to a length bound over {/ . a % 2 e}
	l6 := 5
	if tier == "thorough" {
		l6 = 6
	}
	enumerate([]string{"/", ".", "a", "%", "2", "e"}, l6, func(s string) { add(s, "exh6-pct") })
	// (2) token dictionary: all concatenations of <= 3 tokens (rooted and not), then random
	// concatenations of 2-10 tokens (not only '/'-joined: tokens may glue into names)
	toks := []string{"/", ".", "..", "...", "./", "/.", "a", "ab", "%2e", "%2E", "%2f", "%2F",
		"%2e%2e", "%2E%2E", "%2e.", ".%2e", "%25", "%252e", "%00", "%c3%a9", "%", "%2", "2e", "%e2", "%2g", "+", "\\"}
	core := []string{"/", ".", "..", "a", "%2e", "%2E", "%2f", "%2e%2e", "%25", "%"}
	triples := func(d1, d2, d3 []string) {
		for _, a := range d1 {
			for _, b := range d2 {
				for _, c := range d3 {
					add("/"+a+b+c, "exh-tokens")
					add(a+b+c, "exh-tokens")
				}
			}
		}
	}
	triples(toks, append([]string{""}, toks...), []string{""}) // <= 2 tokens of the full dictionary
	triples(core, core, core)                                   // 3 tokens of the core dictionary
	if tier == "thorough" {
		triples(toks, toks, toks)
	}
	ntok := 1500
	if tier == "thorough" {
		ntok = 20000
	}
	for i := 0; i < ntok; i++ {
		k := rnd.Range(2, 10)
		var sb strings.Builder
		if rnd.Pct(75) {
			sb.WriteByte('/')
		}
		for j := 0; j < k; j++ {
			sb.WriteString(hx.Pick(rnd, toks))
			if rnd.Pct(50) {
				sb.WriteByte('/')
			}
		}
		add(sb.String(), "random-tokens")
	}
	// (3) every byte value 0..255 as an element byte, in positions that are copied,
	// backtracked over, compared with stale bytes of p, or followed by a dot element
	for v := 0; v < 256; v++ {
		c := string([]byte{byte(v)})
		for _, f := range []string{"/%s", "%s", "/a%s/", "/%s%s/../%s", "/a/%s/./b/..", "//%s/.", "/ab/../a%s/", "%s/../%s%s", "/.%s/..%s/"} {
			add(strings.ReplaceAll(f, "%s", c), "all-bytes")
		}
	}
	// random names over all 256 byte values, joined with dot elements
	nab := 600
	if tier == "thorough" {
		nab = 8000
	}
	for i := 0; i < nab; i++ {
		k := rnd.Range(2, 8)
		parts := make([]string, k)
		for j := range parts {
			switch rnd.Intn(5) {
			case 0:
				parts[j] = hx.Pick(rnd, []string{"", ".", "..", "..."})
			default:
				b := make([]byte, rnd.Range(1, 4))
				for x := range b {
					b[x] = byte(rnd.Intn(256))
				}
				parts[j] = string(b)
			}
		}
		body := strings.Join(parts, "/")
		if rnd.Pct(75) {
			body = "/" + body
		}
		add(body, "random-all-bytes")
	}
	if len(st.Samples) == 0 {
		st.Samples = append(st.Samples, "CleanPath(\"/a/../b/.\") = "+hx.Quote(fox.CleanPath("/a/../b/.")))
	}
	for b := 0; b < shards; b++ {
		for i := b; i < len(pending); i += shards {
			cs.Add(pending[i][0], pending[i][1])
		}
	}
	st.Evaluations = cs.Len()
	st.DistinctNontrivial = nontrivial
	st.Exhaustive = false
	st.Extra = map[string]any{"exhaustive_scopes": []string{
		fmt.Sprintf("all strings of length <= %d over {/ . a}", l3),
		fmt.Sprintf("all strings of <= %d symbols over {/ . a %% é}", l5),
		fmt.Sprintf("all '/'-joined sequences of <= %d elements over {'', '.', '..', 'a', 'ab'}, rooted and not rooted", lel),
		fmt.Sprintf("all strings of length <= %d over {/ . a %% 2 e}", l6),
		fmt.Sprintf("all concatenations of <= 2 tokens of a %d-token dictionary of percent-escapes and dot fragments and of 3 tokens of its %d-token core (thorough: 3 of the full dictionary), rooted and not rooted", len(toks), len(core)),
		"each byte value 0..255 substituted in 9 path shapes"}}
	hx.Fatal(cs.Write(out, shards))
	hx.Fatal(st.Write(out))
	fmt.Printf("c17: %d cases written to %s\n", cs.Len(), out)
}
