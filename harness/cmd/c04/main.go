// c04: transaction lifecycle histories on the real router. Every history is a
// list of steps (TxnSeq.step); after every step (also inside the function given
// to Updates/View) a reader goroutine takes a FULL observation of the router
// (sorted Iter().All(), Has for each pool route, Len). The observations made by
// the implementation are written next to the steps as Coq terms and compared
// with the model (TxnCorr.model_agrees) and the specification (TxnCorr.spec_ok).
package main

import (
	"errors"
	"fmt"
	"iter"
	"net/http"
	"net/http/httptest"
	"os"
	"runtime"
	"sort"
	"strconv"
	"strings"
	"time"

	"foxverif/hx"

	"github.com/tigerwill90/fox"
)

var methods = []string{"GET", "POST", "DELETE", "FOO"}
// 0..6: mixed pool (static + a few {p}); 7..14: nested static routes sharing prefixes (inner nodes with
// children); 15..23: one family of siblings below /a/ (a node whose children slice grows one by one).
// All conflict-free, so the plain map keyed by (method, pattern) stays the exact reference.
var patterns = []string{"/a", "/b/c", "/b/d", "/u/{id}", "/v/{name}/x", "/static/long/path", "/b/{x}/e",
	"/foo", "/foo/bar", "/foo/bar/x", "/foo/baz", "/foo/bar/y", "/fo", "/foo/bar/x/deep", "/foobar",
	"/a/a", "/a/b", "/a/c", "/a/d", "/a/e", "/a/f", "/a/g", "/a/h", "/a/i",
	"/pair0", "/pair1", "/pair2"} // 24..26: only used by the commit-race stream (race.go)
var reqPaths = []string{"/a", "/b/c", "/b/d", "/u/42", "/v/bob/x", "/static/long/path", "/b/zz/e",
	"/foo", "/foo/bar", "/foo/bar/x", "/foo/baz", "/foo/bar/y", "/fo", "/foo/bar/x/deep", "/foobar",
	"/a/a", "/a/b", "/a/c", "/a/d", "/a/e", "/a/f", "/a/g", "/a/h", "/a/i",
	"/pair0", "/pair1", "/pair2"}

const (
	nestedFirst, nestedLast = 7, 14
	sibFirst, sibLast       = 15, 23
)

type key struct{ m, p int }

func (k key) coq() string { return fmt.Sprintf("(%d,%d)", k.m, k.p) }

var outside = key{3, 6} // never registered: used by lock probes

type tagKey struct{}

func tagOf(r *fox.Route) (uint64, bool) {
	if r == nil {
		return 0, false
	}
	v, ok := r.Annotation(tagKey{}).(uint64)
	return v, ok
}

func keyOf(method, pattern string) key {
	k := key{99, 99} // unknown (only a corrupted router can show it): never equal to a model key
	for i, m := range methods {
		if m == method {
			k.m = i
		}
	}
	for i, p := range patterns {
		if p == pattern {
			k.p = i
		}
	}
	return k
}

// ---------- steps ----------

type wop struct {
	kind string // Handle Update Delete Truncate
	k    key
	tag  uint64
	ms   []int
	via  int // which API variant (Handle vs HandleRoute ...)
}

func (o wop) coq() string {
	switch o.kind {
	case "Handle", "Update":
		return fmt.Sprintf("(%s %s %s)", o.kind, o.k.coq(), hx.N(o.tag))
	case "Delete":
		return fmt.Sprintf("(Delete %s)", o.k.coq())
	}
	return "(Truncate " + hx.ListOf(o.ms, strconv.Itoa) + ")"
}

type rop struct {
	kind string // RHas RTag RFull
	k    key
	via  int
}

func (r rop) coq() string {
	if r.kind == "RFull" {
		return "RFull"
	}
	return fmt.Sprintf("(%s %s)", r.kind, r.k.coq())
}

type bstep struct {
	kind string // Begin TWrite TRead TCommit TAbort TSnapshot TIter Single RRead
	wr   bool
	h    int
	w    wop
	r    rop
}

func (b bstep) coq() string {
	switch b.kind {
	case "Begin":
		return "(Begin " + hx.Bool(b.wr) + ")"
	case "TWrite":
		return fmt.Sprintf("(TWrite %d %s)", b.h, b.w.coq())
	case "TRead":
		return fmt.Sprintf("(TRead %d %s)", b.h, b.r.coq())
	case "TCommit", "TAbort", "TSnapshot", "TIter":
		return fmt.Sprintf("(%s %d)", b.kind, b.h)
	case "Single":
		return "(Single " + b.w.coq() + ")"
	}
	return "(RRead " + b.r.coq() + ")"
}

type step struct {
	kind   string // Plain Updates View
	b      bstep
	body   []bstep
	ending string // RetNil RetErr PanicV Goexit
}

func (s step) coq() string {
	if s.kind == "Plain" {
		return "(Plain " + s.b.coq() + ")"
	}
	return "(" + s.kind + " " + hx.ListOf(s.body, bstep.coq) + " " + s.ending + ")"
}

// ---------- the implementation under test ----------

type handle struct {
	txn *fox.Txn
	it  *fox.Iter
}

type world struct {
	f       *fox.Router
	pool    []key
	handles []handle
	blocked []chan struct{} // lock probes still waiting for Router.mu
	lastErr error           // error of the last transaction write
	dead    string          // the implementation panicked (not ErrSettledTxn): stop the history here
}

var errBody = errors.New("c04: function returned an error")

type panicV struct{}

func mkHandler(tag uint64) fox.HandlerFunc {
	return func(c fox.Context) {
		c.Writer().Header().Set("X-Tag", strconv.FormatUint(tag, 10))
		c.Writer().WriteHeader(200)
	}
}

func errOut(err error) string {
	switch {
	case err == nil:
		return "WOk"
	case errors.Is(err, fox.ErrReadOnlyTxn):
		return "WErrReadOnly"
	case errors.Is(err, fox.ErrRouteExist):
		return "WErrExist"
	case errors.Is(err, fox.ErrRouteNotFound):
		return "WErrNotFound"
	}
	return "(* unexpected error: " + strings.ReplaceAll(err.Error(), "*)", "* )") + " *) WErrExist"
}

// a write through a transaction value
func (w *world) txnWrite(t *fox.Txn, o wop) (err error) {
	defer func() { w.lastErr = err }()
	m, p := methods[o.k.m%len(methods)], patterns[o.k.p%len(patterns)]
	switch o.kind {
	case "Handle":
		if o.via%2 == 0 {
			_, err := t.Handle(m, p, mkHandler(o.tag), fox.WithAnnotation(tagKey{}, o.tag))
			return err
		}
		rte, err := w.f.NewRoute(p, mkHandler(o.tag), fox.WithAnnotation(tagKey{}, o.tag))
		if err != nil {
			return err
		}
		return t.HandleRoute(m, rte)
	case "Update":
		if o.via%2 == 0 {
			_, err := t.Update(m, p, mkHandler(o.tag), fox.WithAnnotation(tagKey{}, o.tag))
			return err
		}
		rte, err := w.f.NewRoute(p, mkHandler(o.tag), fox.WithAnnotation(tagKey{}, o.tag))
		if err != nil {
			return err
		}
		return t.UpdateRoute(m, rte)
	case "Delete":
		_, err := t.Delete(m, p)
		return err
	}
	ms := make([]string, len(o.ms))
	for i, x := range o.ms {
		ms[i] = methods[x]
	}
	return t.Truncate(ms...)
}

// a write through the single-operation helpers of the router
func (w *world) routerWrite(o wop) error {
	m, p := methods[o.k.m%len(methods)], patterns[o.k.p%len(patterns)]
	switch o.kind {
	case "Handle":
		if o.via%2 == 0 {
			_, err := w.f.Handle(m, p, mkHandler(o.tag), fox.WithAnnotation(tagKey{}, o.tag))
			return err
		}
		rte, err := w.f.NewRoute(p, mkHandler(o.tag), fox.WithAnnotation(tagKey{}, o.tag))
		if err != nil {
			return err
		}
		return w.f.HandleRoute(m, rte)
	case "Update":
		if o.via%2 == 0 {
			_, err := w.f.Update(m, p, mkHandler(o.tag), fox.WithAnnotation(tagKey{}, o.tag))
			return err
		}
		rte, err := w.f.NewRoute(p, mkHandler(o.tag), fox.WithAnnotation(tagKey{}, o.tag))
		if err != nil {
			return err
		}
		return w.f.UpdateRoute(m, rte)
	}
	_, err := w.f.Delete(m, p)
	return err
}

type kv struct {
	k   key
	tag uint64
}

func fullObs(all iter.Seq2[string, *fox.Route], has func(key) bool, length int, pool []key, serve func(key) (uint64, bool)) string {
	var kvs []kv
	for m, r := range all {
		t, _ := tagOf(r)
		kvs = append(kvs, kv{keyOf(m, r.Pattern()), t})
	}
	sort.Slice(kvs, func(i, j int) bool {
		if kvs[i].k.m != kvs[j].k.m {
			return kvs[i].k.m < kvs[j].k.m
		}
		return kvs[i].k.p < kvs[j].k.p
	})
	if length < 0 {
		length = len(kvs)
	}
	hs := make([]string, len(pool))
	for i, k := range pool {
		hs[i] = hx.Bool(has(k))
	}
	sv := make([]string, len(pool))
	for i, k := range pool {
		t, ok := serve(k)
		sv[i] = hx.Opt(ok, hx.N(t))
	}
	return fmt.Sprintf("(ROFull %s %s %d %s)", hx.ListOf(kvs, func(e kv) string { return "(" + e.k.coq() + "," + hx.N(e.tag) + ")" }), hx.List(hs), length, hx.List(sv))
}

func optTag(t uint64, ok bool) string { return "(ROTag " + hx.Opt(ok, hx.N(t)) + ")" }

func one(s string) iter.Seq[string] { return func(y func(string) bool) { y(s) } }

func mkReq(k key) *http.Request {
	return httptest.NewRequest(methods[k.m], reqPaths[k.p], nil)
}

func (w *world) routerRead(r rop) string {
	f := w.f
	m, p := methods[r.k.m], patterns[r.k.p]
	switch r.kind {
	case "RHas":
		return "(ROBool " + hx.Bool(f.Has(m, p)) + ")"
	case "RTag":
		switch r.via % 4 {
		case 0:
			return optTag(tagOf(f.Route(m, p)))
		case 1:
			rec := httptest.NewRecorder()
			f.ServeHTTP(rec, mkReq(r.k))
			if rec.Code != 200 {
				return optTag(0, false)
			}
			t, err := strconv.ParseUint(rec.Header().Get("X-Tag"), 10, 64)
			return optTag(t, err == nil)
		case 2:
			rte, _ := f.Reverse(m, "", reqPaths[r.k.p])
			return optTag(tagOf(rte))
		default:
			req := mkReq(r.k)
			c := fox.NewTestContextOnly(httptest.NewRecorder(), req)
			rte, cc, _ := f.Lookup(c.Writer(), req)
			if cc != nil {
				cc.Close()
			}
			return optTag(tagOf(rte))
		}
	}
	it := f.Iter()
	return fullObs(it.All(), func(k key) bool { return f.Has(methods[k.m], patterns[k.p]) }, f.Len(), w.pool,
		func(k key) (uint64, bool) { // an actual request: status and identity of the handler that ran
			rec := httptest.NewRecorder()
			f.ServeHTTP(rec, mkReq(k))
			if rec.Code != 200 {
				return 0, false
			}
			t, err := strconv.ParseUint(rec.Header().Get("X-Tag"), 10, 64)
			return t, err == nil
		})
}

func (w *world) txnRead(h handle, r rop) string {
	if h.it != nil { // an iterator value: only iteration
		it := *h.it
		hasIt := func(k key) bool {
			for range it.Routes(one(methods[k.m]), patterns[k.p]) {
				return true
			}
			return false
		}
		switch r.kind {
		case "RHas":
			return "(ROBool " + hx.Bool(hasIt(r.k)) + ")"
		case "RTag":
			for _, rte := range it.Routes(one(methods[r.k.m]), patterns[r.k.p]) {
				return optTag(tagOf(rte))
			}
			return optTag(0, false)
		}
		return fullObs(it.All(), hasIt, -1, w.pool, func(k key) (uint64, bool) {
			for _, rte := range it.Reverse(one(methods[k.m]), "", reqPaths[k.p]) {
				return tagOf(rte)
			}
			return 0, false
		})
	}
	t := h.txn
	m, p := methods[r.k.m], patterns[r.k.p]
	switch r.kind {
	case "RHas":
		return "(ROBool " + hx.Bool(t.Has(m, p)) + ")"
	case "RTag":
		switch r.via % 3 {
		case 0:
			return optTag(tagOf(t.Route(m, p)))
		case 1:
			rte, _ := t.Reverse(m, "", reqPaths[r.k.p])
			return optTag(tagOf(rte))
		default:
			req := mkReq(r.k)
			c := fox.NewTestContextOnly(httptest.NewRecorder(), req)
			rte, cc, _ := t.Lookup(c.Writer(), req)
			if cc != nil {
				cc.Close()
			}
			return optTag(tagOf(rte))
		}
	}
	it := t.Iter()
	return fullObs(it.All(), func(k key) bool { return t.Has(methods[k.m], patterns[k.p]) }, t.Len(), w.pool,
		func(k key) (uint64, bool) {
			req := mkReq(k)
			c := fox.NewTestContextOnly(httptest.NewRecorder(), req)
			rte, cc, _ := t.Lookup(c.Writer(), req)
			if cc != nil {
				cc.Close()
			}
			return tagOf(rte)
		})
}

const lockWait = 40 * time.Millisecond
const longWait = 3 * time.Second

func clean(s string) string {
	s = strings.ReplaceAll(strings.ReplaceAll(s, "*)", "* )"), "(*", "( *")
	if len(s) > 300 {
		s = s[:300]
	}
	return strings.ReplaceAll(s, "\n", " ")
}

// runs fn in a goroutine; reports whether it returned within d. A panic of fn is re-raised in the caller.
func within(d time.Duration, fn func()) (done chan struct{}, ok bool) {
	done = make(chan struct{})
	var pv any
	go func() {
		defer close(done)
		defer func() { pv = recover() }()
		fn()
	}()
	select {
	case <-done:
		if pv != nil {
			panic(pv)
		}
		return done, true
	case <-time.After(d):
		return done, false
	}
}

// runBstep executes one step; expectFree tells how long to wait for the writer lock
// (the harness's own bookkeeping, not the model, decides only the waiting time).
func (w *world) runBstep(b bstep, expectFree bool) (obs string) {
	defer func() {
		if p := recover(); p != nil {
			if err, ok := p.(error); ok && errors.Is(err, fox.ErrSettledTxn) {
				obs = "OPanicSettled"
				return
			}
			// any other panic is the implementation's (e.g. a corrupted tree): a failing case, not a harness crash
			w.dead = clean(fmt.Sprint(p))
			obs = "(* implementation panicked: " + w.dead + " *) ONoHandle"
		}
	}()
	wait := lockWait
	if expectFree {
		wait = longWait
	}
	get := func(h int) (handle, bool) {
		if h < 0 || h >= len(w.handles) || (w.handles[h].txn == nil && w.handles[h].it == nil) {
			return handle{}, false
		}
		return w.handles[h], true
	}
	switch b.kind {
	case "Begin":
		var t *fox.Txn
		done, ok := within(wait, func() { t = w.f.Txn(b.wr) })
		if !ok {
			w.blocked = append(w.blocked, done)
			return "OBlocked"
		}
		w.handles = append(w.handles, handle{txn: t})
		return fmt.Sprintf("(OHandle %d)", len(w.handles)-1)
	case "TWrite":
		h, ok := get(b.h)
		if !ok || h.txn == nil {
			return "ONoHandle"
		}
		return "(OW " + errOut(w.txnWrite(h.txn, b.w)) + ")"
	case "TRead":
		h, ok := get(b.h)
		if !ok {
			return "ONoHandle"
		}
		return "(OR " + w.txnRead(h, b.r) + ")"
	case "TCommit", "TAbort":
		h, ok := get(b.h)
		if !ok || h.txn == nil {
			return "ONoHandle"
		}
		if b.kind == "TCommit" {
			h.txn.Commit()
		} else {
			h.txn.Abort()
		}
		return "OUnit"
	case "TSnapshot":
		h, ok := get(b.h)
		if !ok || h.txn == nil {
			return "ONoHandle"
		}
		s := h.txn.Snapshot()
		if s == nil {
			return "ONil"
		}
		w.handles = append(w.handles, handle{txn: s})
		return fmt.Sprintf("(OHandle %d)", len(w.handles)-1)
	case "TIter":
		h, ok := get(b.h)
		if !ok || h.txn == nil {
			return "ONoHandle"
		}
		it := h.txn.Iter()
		w.handles = append(w.handles, handle{it: &it})
		return fmt.Sprintf("(OHandle %d)", len(w.handles)-1)
	case "Single":
		var err error
		done, ok := within(wait, func() { err = w.routerWrite(b.w) })
		if !ok {
			w.blocked = append(w.blocked, done)
			return "OBlocked"
		}
		w.handles = append(w.handles, handle{}) // the helper's private transaction (model: a settled handle)
		return "(OW " + errOut(err) + ")"
	}
	// RRead: a different goroutine looks at the router
	var o string
	var pv any
	done := make(chan struct{})
	go func() {
		defer close(done)
		defer func() { pv = recover() }()
		o = w.routerRead(b.r)
	}()
	<-done
	if pv != nil {
		panic(pv)
	}
	return "(OR " + o + ")"
}

func (w *world) runStep(s step, writerOpen bool) (obs []string) {
	if s.kind == "Plain" {
		return []string{w.runBstep(s.b, !writerOpen)}
	}
	wr := s.kind == "Updates"
	var fin string
	var returned error
	started := false
	fn := func(t *fox.Txn) error {
		started = true
		w.handles = append(w.handles, handle{txn: t})
		var lastErr error
		for _, b := range s.body {
			o := w.runBstepNoRecover(b)
			obs = append(obs, o)
			if b.kind == "TWrite" && w.lastErr != nil {
				lastErr = w.lastErr
			}
		}
		switch s.ending {
		case "RetErr":
			if lastErr != nil { // the idiomatic `if err != nil { return err }`: fox's own error comes back
				returned = lastErr
				return lastErr
			}
			returned = errBody
			return errBody
		case "PanicV":
			panic(panicV{})
		case "Goexit":
			// fn never returns and does not panic: it ends its goroutine (what t.FailNow / require.* do).
			// Updates / View run in their own goroutine here (within), which the harness waits for.
			runtime.Goexit()
		}
		return nil
	}
	wait := longWait
	if wr && writerOpen {
		wait = lockWait
	}
	returnedToCaller := false
	done, ok := within(wait, func() {
		defer func() {
			p := recover()
			if p == nil && !returnedToCaller {
				// the goroutine is being ended by runtime.Goexit: Updates / View did not return
				if s.ending == "Goexit" {
					fin = "OFinGoexit"
				} else {
					fin = "(* the goroutine calling Updates/View was ended unexpectedly *) OFinBlocked"
				}
				return
			}
			if p != nil {
				if _, mine := p.(panicV); mine {
					fin = "OFinPanicV"
				} else if err, isErr := p.(error); isErr && errors.Is(err, fox.ErrSettledTxn) {
					obs = append(obs, "OPanicSettled")
					fin = "OFinPanicSettled"
				} else {
					w.dead = clean(fmt.Sprint(p))
					fin = "(* implementation panicked: " + w.dead + " *) OFinBlocked"
				}
			}
		}()
		var err error
		if wr {
			err = w.f.Updates(fn)
		} else {
			err = w.f.View(fn)
		}
		returnedToCaller = true
		if s.ending == "Goexit" {
			fin = "(* Updates/View returned although fn ended its goroutine *) OFinBlocked"
		} else if err == nil {
			fin = "OFinNil"
		} else if returned != nil && errors.Is(err, returned) {
			fin = "OFinErr"
		} else {
			fin = "(* unexpected error *) OFinBlocked"
		}
	})
	if !ok {
		w.blocked = append(w.blocked, done)
		_ = started
		return []string{"OFinBlocked"}
	}
	return append(obs, fin)
}

// inside fn a panic(ErrSettledTxn) must propagate to Updates/View
func (w *world) runBstepNoRecover(b bstep) string {
	switch b.kind {
	case "TWrite":
		if b.h >= 0 && b.h < len(w.handles) && w.handles[b.h].txn != nil {
			return "(OW " + errOut(w.txnWrite(w.handles[b.h].txn, b.w)) + ")"
		}
		return "ONoHandle"
	case "TRead":
		if b.h >= 0 && b.h < len(w.handles) && (w.handles[b.h].txn != nil || w.handles[b.h].it != nil) {
			return "(OR " + w.txnRead(w.handles[b.h], b.r) + ")"
		}
		return "ONoHandle"
	case "TIter":
		if b.h >= 0 && b.h < len(w.handles) && w.handles[b.h].txn != nil {
			it := w.handles[b.h].txn.Iter()
			w.handles = append(w.handles, handle{it: &it})
			return fmt.Sprintf("(OHandle %d)", len(w.handles)-1)
		}
		return "ONoHandle"
	}
	return w.runBstep(b, false) // these never panic with ErrSettledTxn
}

// ---------- generation ----------

type gen struct {
	rnd    *hx.Rand
	pool   []key
	tag    uint64
	nh     int   // handles handed out so far (harness bookkeeping)
	openW  int   // handle of the write transaction the harness opened and has not ended, or -1
	live   []int // read-only handles (snapshots, iterators, read transactions): never settle
	isIter map[int]bool // handles that are Iter values (no Txn methods)
	forced []wop        // scripted writes of the next transaction (directed families)
	real   []int // write-transaction handles the harness holds (possibly settled)
	steps  []step
	reg    map[key]bool // rough guess of what is registered, to bias towards successful ops
	nwrite int
}

func (g *gen) key() key {
	if g.rnd.Pct(4) {
		return outside
	}
	return hx.Pick(g.rnd, g.pool)
}

// the next write of the transaction under construction: scripted operations first (directed families)
func (g *gen) wop() wop {
	if len(g.forced) > 0 {
		o := g.forced[0]
		g.forced = g.forced[1:]
		g.tag++
		o.tag = g.tag
		o.via = g.rnd.Intn(2)
		return o
	}
	return g.randWop()
}

func (g *gen) randWop() wop {
	g.tag++
	o := wop{tag: g.tag, via: g.rnd.Intn(2), k: g.key()}
	switch x := g.rnd.Intn(100); {
	case x < 45:
		o.kind = "Handle"
		if o.k == outside { // the probe key is never registered (lock probes must stay harmless)
			o.k = hx.Pick(g.rnd, g.pool)
		}
		if g.rnd.Pct(70) { // prefer a route that is probably absent
			for i := 0; i < 4 && g.reg[o.k]; i++ {
				o.k = hx.Pick(g.rnd, g.pool)
			}
		}
	case x < 70:
		o.kind = "Update"
		if g.rnd.Pct(70) {
			for i := 0; i < 4 && !g.reg[o.k]; i++ {
				o.k = g.key()
			}
		}
	case x < 94:
		o.kind = "Delete"
		if g.rnd.Pct(70) {
			for i := 0; i < 4 && !g.reg[o.k]; i++ {
				o.k = g.key()
			}
		}
	default:
		o.kind = "Truncate"
		o.k = key{}
		if g.rnd.Pct(70) {
			n := g.rnd.Range(1, 2)
			for i := 0; i < n; i++ {
				o.ms = append(o.ms, g.rnd.Intn(len(methods)))
			}
		}
	}
	return o
}

func (g *gen) noteWrite(o wop) {
	switch o.kind {
	case "Handle":
		g.reg[o.k] = true
	case "Delete":
		delete(g.reg, o.k)
	case "Truncate":
		for k := range g.reg {
			if len(o.ms) == 0 {
				delete(g.reg, k)
			}
			for _, m := range o.ms {
				if k.m == m {
					delete(g.reg, k)
				}
			}
		}
	}
}

func (g *gen) rop() rop {
	switch x := g.rnd.Intn(100); {
	case x < 25:
		return rop{kind: "RHas", k: hx.Pick(g.rnd, g.pool)}
	case x < 60:
		return rop{kind: "RTag", k: hx.Pick(g.rnd, g.pool), via: g.rnd.Intn(12)}
	}
	return rop{kind: "RFull"}
}

var full = bstep{kind: "RRead", r: rop{kind: "RFull"}}

func (g *gen) plain(b bstep) {
	g.steps = append(g.steps, step{kind: "Plain", b: b}, step{kind: "Plain", b: full})
}

// a handle that is a *Txn (not an Iter value)
func (g *gen) anyTxn() int {
	for i := 0; i < 8; i++ {
		if h := g.anyHandle(); !g.isIter[h] {
			return h
		}
	}
	if len(g.real) > 0 {
		return g.real[0]
	}
	return 0
}

func (g *gen) anyHandle() int {
	if len(g.live) > 0 && (len(g.real) == 0 || g.rnd.Pct(60)) {
		return hx.Pick(g.rnd, g.live)
	}
	if len(g.real) > 0 {
		return hx.Pick(g.rnd, g.real)
	}
	return 0
}

// body of a managed transaction whose handle is h: own ops interleaved with nested reads.
// The generator's handle count must stay exact, so inside fn it never touches a handle
// that could panic unexpectedly: after the transaction settled itself (Commit/Abort
// inside fn) only no-ops, Snapshot (nil) or one final panicking operation follow.
func (g *gen) body(h int, wr bool, nops int, st *hx.Stats) []bstep {
	var b []bstep
	add := func(x bstep) { b = append(b, x, full) }
	settled := false
	for i := 0; i < nops; i++ {
		if settled {
			switch x := g.rnd.Intn(100); {
			case x < 25:
				add(bstep{kind: hx.Pick(g.rnd, []string{"TCommit", "TAbort"}), h: h})
			case x < 45:
				add(bstep{kind: "TSnapshot", h: h}) // nil: no new handle
			case x < 55:
				add(bstep{kind: "RRead", r: g.rop()})
			default:
				switch g.rnd.Intn(3) {
				case 0:
					add(bstep{kind: "TWrite", h: h, w: g.randWop()})
				case 1:
					add(bstep{kind: "TRead", h: h, r: g.rop()})
				default:
					add(bstep{kind: "TIter", h: h})
				}
				st.Count("nested:panic-settled-inside-fn")
				return b
			}
			continue
		}
		switch x := g.rnd.Intn(100); {
		case x < 55:
			o := g.wop()
			add(bstep{kind: "TWrite", h: h, w: o})
			if wr {
				g.noteWrite(o)
			}
		case x < 73:
			add(bstep{kind: "TRead", h: h, r: g.rop()})
		case x < 80:
			add(bstep{kind: "TSnapshot", h: h})
			g.live = append(g.live, g.nh)
			g.nh++
			st.Count("nested:snapshot")
		case x < 87:
			add(bstep{kind: "TIter", h: h})
			g.live = append(g.live, g.nh)
			g.isIter[g.nh] = true
			g.nh++
			st.Count("nested:iter")
		case x < 93:
			if len(g.live) > 0 {
				add(bstep{kind: "TRead", h: hx.Pick(g.rnd, g.live), r: g.rop()})
			}
		case x < 95:
			add(bstep{kind: "TCommit", h: h})
			settled = wr
			st.Count("nested:commit-inside-fn")
		case x < 97:
			add(bstep{kind: "TAbort", h: h})
			settled = wr
			st.Count("nested:abort-inside-fn")
		default:
			add(bstep{kind: "Begin", wr: false})
			g.live = append(g.live, g.nh)
			g.nh++
		}
	}
	return b
}

func (g *gen) managed(wr bool, nops int, ending string, st *hx.Stats) {
	h := g.nh
	g.nh++
	save := map[key]bool{}
	for k, v := range g.reg {
		save[k] = v
	}
	b := g.body(h, wr, nops, st)
	// handles created after a body panic do not exist: the generator avoids creating any after
	// the settling step (see body), so nh stays exact
	if !wr || ending != "RetNil" {
		g.reg = save
	}
	kind := "View"
	if wr {
		kind = "Updates"
		g.real = append(g.real, h)
	} else {
		g.live = append(g.live, h)
	}
	g.steps = append(g.steps, step{kind: kind, body: b, ending: ending}, step{kind: "Plain", b: full})
	st.Count("txn:" + kind + ":" + ending)
	st.Count(fmt.Sprintf("txn-ops:%02d", nops))
}

func (g *gen) unmanaged(nops int, ending string, st *hx.Stats) {
	h := g.nh
	g.nh++
	g.openW = h
	g.real = append(g.real, h)
	g.plain(bstep{kind: "Begin", wr: true})
	save := map[key]bool{}
	for k, v := range g.reg {
		save[k] = v
	}
	for i := 0; i < nops; i++ {
		switch x := g.rnd.Intn(100); {
		case x < 55:
			o := g.wop()
			g.plain(bstep{kind: "TWrite", h: h, w: o})
			g.noteWrite(o)
		case x < 70:
			g.plain(bstep{kind: "TRead", h: h, r: g.rop()})
		case x < 76:
			g.plain(bstep{kind: "TSnapshot", h: h})
			g.live = append(g.live, g.nh)
			g.nh++
			st.Count("nested:snapshot")
		case x < 82:
			g.plain(bstep{kind: "TIter", h: h})
			g.live = append(g.live, g.nh)
			g.isIter[g.nh] = true
			g.nh++
			st.Count("nested:iter")
		case x < 88:
			g.plain(bstep{kind: "TRead", h: g.anyHandle(), r: g.rop()})
		case x < 92:
			g.plain(bstep{kind: "Begin", wr: false})
			g.live = append(g.live, g.nh)
			g.nh++
		case x < 96:
			// lock probe while the write transaction is open: must block; harmless operation
			g.plain(bstep{kind: "Single", w: wop{kind: "Delete", k: outside}})
			st.Count("probe:lock-held")
		default:
			g.plain(bstep{kind: "TWrite", h: g.anyTxn(), w: g.randWop()}) // read-only / settled handles refuse
		}
	}
	switch ending {
	case "commit":
		g.plain(bstep{kind: "TCommit", h: h})
	case "abort":
		g.plain(bstep{kind: "TAbort", h: h})
		g.reg = save
	}
	g.openW = -1
	// use after settle, double endings
	for g.rnd.Pct(35) {
		switch g.rnd.Intn(6) {
		case 0:
			g.plain(bstep{kind: "TCommit", h: h})
		case 1:
			g.plain(bstep{kind: "TAbort", h: h})
		case 2:
			g.plain(bstep{kind: "TWrite", h: h, w: g.randWop()})
		case 3:
			g.plain(bstep{kind: "TRead", h: h, r: g.rop()})
		case 4:
			g.plain(bstep{kind: "TSnapshot", h: h})
		case 5:
			g.plain(bstep{kind: "TIter", h: h})
		}
		st.Count("use-after-settle")
	}
	st.Count("txn:unmanaged:" + ending)
	st.Count(fmt.Sprintf("txn-ops:%02d", nops))
}

func (g *gen) history(ntx int, st *hx.Stats, force func(i int) (kind string, nops int, ending string)) {
	for i := 0; i < ntx; i++ {
		kind, nops, ending := "", g.rnd.Intn(13), ""
		if force != nil {
			kind, nops, ending = force(i)
		}
		if kind == "" {
			switch x := g.rnd.Intn(100); {
			case x < 30:
				kind, ending = "unmanaged", hx.Pick(g.rnd, []string{"commit", "commit", "abort"})
			case x < 65:
				kind, ending = "updates", hx.Pick(g.rnd, []string{"RetNil", "RetErr", "PanicV", "Goexit"})
			case x < 75:
				kind, ending = "view", hx.Pick(g.rnd, []string{"RetNil", "RetErr", "PanicV", "Goexit"})
			case x < 90:
				kind = "single"
			default:
				kind = "reads"
			}
		}
		switch kind {
		case "unmanaged":
			g.unmanaged(nops, ending, st)
		case "updates":
			g.managed(true, nops, ending, st)
		case "view":
			g.managed(false, nops, ending, st)
		case "single":
			for j := 0; j <= nops%4; j++ {
				o := g.randWop()
				for o.kind == "Truncate" { // the router has no Truncate helper
					o = g.randWop()
				}
				g.plain(bstep{kind: "Single", w: o})
				g.nh++
				st.Count("single:" + o.kind)
				g.noteWrite(o) // rough
			}
		case "reads":
			g.plain(bstep{kind: "Begin", wr: false})
			g.live = append(g.live, g.nh)
			h := g.nh
			g.nh++
			for j := 0; j < 1+nops%3; j++ {
				g.plain(bstep{kind: "TRead", h: h, r: g.rop()})
				g.plain(bstep{kind: "RRead", r: g.rop()})
			}
			if g.rnd.Pct(50) {
				g.plain(bstep{kind: hx.Pick(g.rnd, []string{"TCommit", "TAbort"}), h: h})
				g.plain(bstep{kind: "TWrite", h: h, w: g.randWop()})
				g.plain(bstep{kind: "TRead", h: h, r: g.rop()})
				st.Count("readonly:commit/abort-then-use")
			}
		}
		// lock probe after every ending: a real write that must go through
		if g.rnd.Pct(50) {
			o := wop{kind: "Delete", k: outside}
			g.plain(bstep{kind: "Single", w: o})
			g.nh++
			st.Count("probe:lock-free")
		}
	}
}

// directed families (copy-on-write shapes the random generator rarely builds):
//
//	nested:   routes sharing prefixes are committed; then ONE cached transaction (Txn(true) / Updates)
//	          Updates an inner route that has children and then writes below it (Update / Handle / Delete);
//	siblings: /a/<c> are committed ONE BY ONE by the single-operation helpers (the parent's children slice
//	          grows by append), then one transaction inserts siblings that sort before / between / after the
//	          existing ones (and deletes one).
//
// followed by an ordinary random history on the same router.
func (g *gen) directed(family, kind, ending string, st *hx.Stats) {
	rnd := g.rnd
	var script []wop
	switch family {
	case "nested":
		m := g.pool[0].m
		k := func(p int) key { return key{m, p} }
		// 7 /foo  8 /foo/bar  9 /foo/bar/x  10 /foo/baz  11 /foo/bar/y  12 /fo  13 /foo/bar/x/deep  14 /foobar
		var pre []wop
		for _, p := range []int{7, 8, 9, 10, 11, 12, 13, 14} {
			if p <= 8 || rnd.Pct(65) {
				pre = append(pre, wop{kind: "Handle", k: k(p)})
			}
		}
		rnd2 := rnd.Fork()
		for i := range pre { // registration order varies
			j := i + rnd2.Intn(len(pre)-i)
			pre[i], pre[j] = pre[j], pre[i]
		}
		if rnd.Bool() {
			g.forced = pre
			g.managed(true, 2*len(pre)+4, "RetNil", st)
			g.forced = nil
		} else {
			for _, o := range pre {
				g.tag++
				o.tag = g.tag
				g.plain(bstep{kind: "Single", w: o})
				g.nh++
				g.noteWrite(o)
			}
		}
		inner := hx.Pick(rnd, []int{7, 7, 8})
		script = append(script, wop{kind: "Update", k: k(inner)})
		below := map[int][]int{7: {8, 9, 10, 11, 13}, 8: {9, 11, 13}}[inner]
		for i := 0; i < rnd.Range(1, 3); i++ {
			p := hx.Pick(rnd, below)
			script = append(script, wop{kind: hx.Pick(rnd, []string{"Update", "Update", "Handle", "Delete"}), k: k(p)})
		}
		if rnd.Pct(40) {
			script = append(script, wop{kind: "Update", k: k(8)}, wop{kind: "Update", k: k(hx.Pick(rnd, []int{9, 11}))})
		}
	case "siblings":
		m := g.pool[0].m
		sibs := g.pool[:len(g.pool)-1] // sorted by letter
		// commit all but 1-3 of them one by one; the held-back ones are inserted by the transaction
		held := map[int]bool{}
		for len(held) < rnd.Range(1, 3) && len(held) < len(sibs)-2 {
			held[rnd.Intn(len(sibs))] = true
		}
		if rnd.Pct(60) {
			held[0] = true // one that sorts before every committed sibling
		}
		order := []int{}
		for i := range sibs {
			if !held[i] {
				order = append(order, i)
			}
		}
		if rnd.Pct(30) { // not always in increasing order
			j := rnd.Intn(len(order))
			order[0], order[j] = order[j], order[0]
		}
		if rnd.Pct(30) {
			g.tag++
			o := wop{kind: "Handle", k: key{m, 0}, tag: g.tag}
			g.plain(bstep{kind: "Single", w: o})
			g.nh++
			g.noteWrite(o)
		}
		for _, i := range order {
			g.tag++
			o := wop{kind: "Handle", k: sibs[i], tag: g.tag, via: rnd.Intn(2)}
			g.plain(bstep{kind: "Single", w: o})
			g.nh++
			g.noteWrite(o)
		}
		for i := range sibs {
			if held[i] {
				script = append(script, wop{kind: "Handle", k: sibs[i]})
			}
		}
		if rnd.Pct(40) {
			script = append(script, wop{kind: "Delete", k: sibs[order[rnd.Intn(len(order))]]})
		}
		if rnd.Pct(40) {
			script = append(script, wop{kind: "Update", k: sibs[order[rnd.Intn(len(order))]]})
		}
	}
	g.forced = script
	nops := 2*len(script) + rnd.Intn(4)
	switch kind {
	case "unmanaged":
		g.unmanaged(nops, ending, st)
	default:
		g.managed(true, nops, ending, st)
	}
	g.forced = nil
	st.Count("directed:" + family + ":" + kind + ":" + ending)
	// lock probe, then life goes on
	g.plain(bstep{kind: "Single", w: wop{kind: "Delete", k: outside}})
	g.nh++
	g.history(rnd.Range(0, 2), st, nil)
}

func execute(steps []step, pool []key) (obs [][]string, cut int) {
	f, err := fox.New()
	hx.Fatal(err)
	w := &world{f: f, pool: pool}
	openW := -1
	for i, s := range steps {
		o := w.runStep(s, openW >= 0)
		obs = append(obs, o)
		// bookkeeping used only to choose waiting times
		if s.kind == "Plain" {
			switch s.b.kind {
			case "Begin":
				if s.b.wr && strings.HasPrefix(o[0], "(OHandle") {
					openW = len(w.handles) - 1
				}
			case "TCommit", "TAbort":
				if s.b.h == openW {
					openW = -1
				}
			}
		}
		blockedNow := o[len(o)-1] == "OFinBlocked" || (o[0] == "OBlocked" && openW < 0)
		if blockedNow || w.dead != "" { // lock not released / acquired, or the implementation panicked: stop here
			return obs, i + 1
		}
	}
	for _, c := range w.blocked {
		select {
		case <-c:
		case <-time.After(longWait):
		}
	}
	return obs, len(steps)
}

func main() {
	args := hx.Args()
	out := args["out"]
	tier := args["tier"]
	shards := hx.Atoi(args["shards"], 8)
	rnd := hx.NewRand(hx.Seed())

	cs := &hx.Cases{
		Header: "From FoxBase Require Import Bytes.\nFrom FoxTxn Require Import TxnSeq TxnCorr.\n",
		Type:   "tcase",
		Footer: "Definition mism := Eval vm_compute in mismatches cases.\nPrint mism.\n" +
			"Definition viol := Eval vm_compute in spec_violations cases.\nPrint viol.\n" +
			"Definition oof := Eval vm_compute in fuel_outs cases.\nPrint oof.\n",
	}
	st := &hx.Stats{Rule: "a case is one history on a fresh router: 1-5 transactions of 0-12 operations each (unmanaged Txn ended by Commit/Abort, Updates/View ended by nil / error / panic / runtime.Goexit after the generated prefix, single-operation helpers, read-only transactions), with nested Snapshot/Iter/reads, use-after-settle, double endings, lock probes, and a full router observation by another goroutine after every step (also inside fn); the 'prefix' family replays one operation list ended at EVERY prefix in each of the six ways; the 'commit-race' family is one (request, answer) pair observed while a writer goroutine commits multi-method transactions in a loop (the answer must be that of ONE committed state); non-trivial = the history contains at least one write transaction with >= 1 successful write; distinct = distinct step lists"}
	n := 300
	switch tier {
	case "thorough":
		n = 1200
	case "search":
		// the fallback search of a quick run (an obligation broke but no generated input failed): wider than
		// quick (fresh seed, longer prefixes, longer commit-race rounds) but bounded to a few minutes
		n = 360
	}
	// commit-race stream first (own PRNG stream: the history generators below are not shifted by it)
	raceStream(hx.NewRand(hx.Seed()^0x5ace5ace), tier, cs, st)
	seen := map[string]bool{}
	nontrivial := 0
	emit := func(g *gen, family string) {
		// a fatal runtime error (e.g. unlock of an unlocked mutex) cannot be recovered: leave the history
		// being executed where the check can find it
		_ = os.WriteFile("c04_current_history.txt", []byte("["+family+"] pool="+hx.ListOf(g.pool, key.coq)+"  "+hx.ListOf(g.steps, step.coq)), 0o644)
		obs, cut := execute(g.steps, g.pool)
		steps := g.steps[:cut]
		term := "(CHist (" + hx.ListOf(g.pool, key.coq) + ", " + hx.ListOf(steps, step.coq) + ", " +
			hx.ListOf(obs, func(o []string) string { return hx.List(o) }) + "))"
		sig := hx.ListOf(steps, step.coq)
		if seen[sig] {
			return
		}
		seen[sig] = true
		okw := false
		for _, o := range obs {
			for _, x := range o {
				if x == "(OW WOk)" {
					okw = true
				}
			}
		}
		if okw {
			nontrivial++
		}
		var hs []string
		for i, s := range steps {
			if s.kind == "Plain" && s.b.kind == "RRead" && s.b.r.kind == "RFull" {
				continue
			}
			hs = append(hs, s.coq()+" => "+strings.Join(obs[i], " "))
		}
		human := fmt.Sprintf("[%s] pool=%s  %s", family, hx.ListOf(g.pool, key.coq), strings.Join(hs, " ; "))
		if len(human) > 6000 {
			human = human[:6000] + " ..."
		}
		cs.Add(term, human)
		st.Count("family:" + family)
		st.Count(fmt.Sprintf("steps:%03d-%03d", len(steps)/40*40, len(steps)/40*40+39))
		if cut < len(g.steps) {
			st.Count("cut-short:blocked")
		}
		if len(st.Samples) < 6 && len(human) < 900 && okw {
			st.Samples = append(st.Samples, human)
		}
	}
	newGen := func(r *hx.Rand, family string) *gen {
		g := &gen{rnd: r, openW: -1, reg: map[key]bool{}, isIter: map[int]bool{}}
		switch family {
		case "nested": // every nested pattern for one method, two of them for a second method
			m := r.Intn(3)
			for p := nestedFirst; p <= nestedLast; p++ {
				g.pool = append(g.pool, key{m, p})
			}
			g.pool = append(g.pool, key{(m + 1) % 3, nestedFirst}, key{(m + 1) % 3, nestedFirst + 1})
			return g
		case "siblings": // 4-9 siblings /a/<c> (random letters) and /a itself
			m := r.Intn(3)
			n := r.Range(4, 9)
			ps := []int{}
			for p := sibFirst; p <= sibLast; p++ {
				ps = append(ps, p)
			}
			for i := 0; i < n; i++ {
				j := i + r.Intn(len(ps)-i)
				ps[i], ps[j] = ps[j], ps[i]
			}
			ps = ps[:n]
			sort.Ints(ps)
			for _, p := range ps {
				g.pool = append(g.pool, key{m, p})
			}
			g.pool = append(g.pool, key{m, 0})
			return g
		}
		// mixed pool: 8 distinct keys over the first seven patterns
		all := []key{}
		for m := range methods {
			for p := 0; p < 7; p++ {
				if (key{m, p}) != outside {
					all = append(all, key{m, p})
				}
			}
		}
		for i := 0; i < 8; i++ {
			j := i + r.Intn(len(all)-i)
			all[i], all[j] = all[j], all[i]
		}
		g.pool = append(g.pool, all[:8]...)
		return g
	}
	for i := 0; i < n; i++ {
		if i%10 == 9 {
			// prefix family: the same preamble and operation list, ended at every prefix in every way
			seed := rnd.U64()
			probe := newGen(hx.NewRand(seed), "mixed")
			total := probe.rnd.Range(1, 8)
			_ = total
			ways := [][2]string{{"unmanaged", "commit"}, {"unmanaged", "abort"}, {"updates", "RetNil"}, {"updates", "RetErr"}, {"updates", "PanicV"}, {"updates", "Goexit"}}
			nmax := 6
			switch tier {
			case "thorough":
				nmax = 12
			case "search":
				nmax = 8
			}
			for k := 0; k <= nmax; k++ {
				for _, wy := range ways {
					g := newGen(hx.NewRand(seed), "mixed")
					g.history(2, st, func(i int) (string, int, string) {
						if i == 0 {
							return "updates", 5, "RetNil" // preamble: populate
						}
						return wy[0], k, wy[1]
					})
					emit(g, "prefix")
				}
			}
			continue
		}
		fam := "mixed"
		switch i % 10 {
		case 1, 2:
			// directed families: one scripted scenario ended in each of the five ways
			seed := rnd.U64()
			name := map[int]string{1: "nested", 2: "siblings"}[i%10]
			for _, wy := range [][2]string{{"unmanaged", "commit"}, {"unmanaged", "abort"}, {"updates", "RetNil"}, {"updates", "RetErr"}, {"updates", "PanicV"}, {"updates", "Goexit"}} {
				g := newGen(hx.NewRand(seed), name)
				g.directed(name, wy[0], wy[1], st)
				emit(g, name+"-directed")
			}
			continue
		case 4:
			fam = "nested"
		case 6:
			fam = "siblings"
		}
		g := newGen(rnd.Fork(), fam)
		g.history(rnd.Range(1, 5), st, nil)
		emit(g, "random-"+fam)
	}
	st.Evaluations = cs.Len()
	st.DistinctNontrivial = nontrivial
	os.Remove("c04_current_history.txt")
	hx.Fatal(cs.Write(out, shards))
	hx.Fatal(st.Write(out))
	fmt.Printf("c04: %d histories written to %s\n", cs.Len(), out)
}
