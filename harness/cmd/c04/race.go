// commit-race stream (round 7): a request is a reader and must be answered from ONE committed state.
//
// The router is built WithNoMethod / WithAutoOptions, `pre` is committed, then a writer goroutine commits the
// transactions of `cycle` (each registers / updates / removes the SAME paths under several methods at once)
// again and again while reader goroutines send every request method to those paths. Every distinct
// (request, answer) pair becomes one case (TxnCorr.CReq); the committed states are computed in Coq from the
// operation lists written here, and the answer (status, handler identity, Allow header) must be the answer
// of one of them: never a 405 / OPTIONS answer whose Allow header names a strict subset of what one
// transaction registered together.
package main

import (
	"fmt"
	"net/http"
	"net/http/httptest"
	"sort"
	"strconv"
	"strings"
	"sync"
	"sync/atomic"
	"time"

	"foxverif/hx"

	"github.com/tigerwill90/fox"
)

const (
	racePatFirst = 24 // "/pair0"
	raceOptM     = 4  // request method OPTIONS (TxnCorr.optM); never registered
)

var raceReqMethods = []string{"GET", "POST", "DELETE", "FOO", "OPTIONS"}

type raceResp struct {
	m, p int
	coq  string // TxnCorr.resp
	text string // status + Allow as received
}

func parseAllow(h string) (idx []int, opt, ok bool) {
	if h == "" {
		return nil, false, false
	}
	for _, x := range strings.Split(h, ",") {
		x = strings.TrimSpace(x)
		if x == "OPTIONS" {
			opt = true
			continue
		}
		found := false
		for i, m := range methods {
			if m == x {
				idx = append(idx, i)
				found = true
			}
		}
		if !found {
			return nil, false, false
		}
	}
	sort.Ints(idx)
	return idx, opt, true
}

func classify(m int, rec *httptest.ResponseRecorder) (coq, text string) {
	allow := rec.Header().Get("Allow")
	text = strconv.Itoa(rec.Code)
	if allow != "" {
		text += " Allow: " + allow
	}
	switch rec.Code {
	case 200:
		if tg := rec.Header().Get("X-Tag"); tg != "" {
			if t, err := strconv.ParseUint(tg, 10, 64); err == nil {
				return "(RServed " + hx.N(t) + ")", text + " X-Tag: " + tg
			}
			return "ROther", text
		}
		if idx, opt, ok := parseAllow(allow); ok && opt && m == raceOptM {
			return "(ROptions " + hx.ListOf(idx, strconv.Itoa) + ")", text
		}
	case 404:
		if allow == "" {
			return "RNotFound", text
		}
	case 405:
		if idx, opt, ok := parseAllow(allow); ok {
			return "(RNotAllowed " + hx.ListOf(idx, strconv.Itoa) + " " + hx.Bool(opt) + ")", text
		}
	}
	return "ROther", text
}

func wopsCoq(ws []wop) string { return hx.ListOf(ws, wop.coq) }

// one round: returns the number of requests served
func raceRound(rnd *hx.Rand, d time.Duration, readers int, cs *hx.Cases, st *hx.Stats) int64 {
	nm, au := true, rnd.Bool()
	if rnd.Pct(15) {
		nm, au = false, true
	}
	var opts []fox.GlobalOption
	if nm {
		opts = append(opts, fox.WithNoMethod(true))
	}
	if au {
		opts = append(opts, fox.WithAutoOptions(true))
	}
	f, err := fox.New(opts...)
	hx.Fatal(err)
	w := &world{f: f}

	// the group written together: 2-3 methods x 1-2 paths; pre: optionally FOO on those paths, and unrelated routes
	np := rnd.Range(1, 2)
	ms := []int{0, 1, 2}
	if rnd.Pct(35) {
		drop := rnd.Intn(3)
		ms = append(ms[:drop:drop], ms[drop+1:]...)
	}
	tag := uint64(1000)
	var pre []wop
	for _, p := range []int{0, 7, 8} { // unrelated routes sharing no prefix with /pair
		tag++
		pre = append(pre, wop{kind: "Handle", k: key{rnd.Intn(3), p}, tag: tag})
	}
	for p := 0; p < np; p++ {
		if rnd.Pct(40) {
			tag++
			pre = append(pre, wop{kind: "Handle", k: key{3, racePatFirst + p}, tag: tag})
		}
	}
	var ins, upd, del []wop
	for p := 0; p < np; p++ {
		for _, m := range ms {
			k := key{m, racePatFirst + p}
			tag++
			ins = append(ins, wop{kind: "Handle", k: k, tag: tag, via: rnd.Intn(2)})
			tag++
			upd = append(upd, wop{kind: "Update", k: k, tag: tag, via: rnd.Intn(2)})
			del = append(del, wop{kind: "Delete", k: k})
		}
	}
	cycle := [][]wop{ins, del}
	if rnd.Pct(30) {
		cycle = [][]wop{ins, upd, del}
	}
	cfg := fmt.Sprintf("router(NoMethod=%v, AutoOptions=%v) pre=%s cycle=%s", nm, au, wopsCoq(pre),
		hx.ListOf(cycle, wopsCoq))

	var writeFailure atomic.Value
	commit := func(ws []wop, managed bool) {
		if managed {
			if err := f.Updates(func(t *fox.Txn) error {
				for _, o := range ws {
					if err := w.txnWrite(t, o); err != nil {
						return fmt.Errorf("%s: %w", o.coq(), err)
					}
				}
				return nil
			}); err != nil {
				writeFailure.Store(err.Error())
			}
			return
		}
		t := f.Txn(true)
		defer t.Abort()
		for _, o := range ws {
			if err := w.txnWrite(t, o); err != nil {
				writeFailure.Store(o.coq() + ": " + err.Error())
				return
			}
		}
		t.Commit()
	}
	commit(pre, true)

	var stop atomic.Bool
	var wg sync.WaitGroup
	var served, commits atomic.Int64
	managedWriter := rnd.Bool()
	wg.Add(1)
	go func() {
		defer wg.Done()
		defer func() {
			if p := recover(); p != nil {
				writeFailure.Store("writer panicked: " + clean(fmt.Sprint(p)))
			}
		}()
		for !stop.Load() && writeFailure.Load() == nil {
			for _, ws := range cycle {
				commit(ws, managedWriter)
				commits.Add(1)
			}
		}
	}()
	type obsKey struct {
		m, p      int
		coq, text string
	}
	seen := make([]map[obsKey]int, readers)
	for r := 0; r < readers; r++ {
		seen[r] = map[obsKey]int{}
		wg.Add(1)
		go func(r int) {
			defer wg.Done()
			var reqs []*http.Request
			var mp [][2]int
			for p := 0; p < np; p++ {
				for m := range raceReqMethods {
					reqs = append(reqs, httptest.NewRequest(raceReqMethods[m], patterns[racePatFirst+p], nil))
					mp = append(mp, [2]int{m, racePatFirst + p})
				}
			}
			i := r // readers start at different requests
			for !stop.Load() {
				i = (i + 1) % len(reqs)
				rec := httptest.NewRecorder()
				func() {
					defer func() {
						if p := recover(); p != nil {
							seen[r][obsKey{mp[i][0], mp[i][1], "ROther", "panic: " + clean(fmt.Sprint(p))}]++
						}
					}()
					f.ServeHTTP(rec, reqs[i])
					c, t := classify(mp[i][0], rec)
					seen[r][obsKey{mp[i][0], mp[i][1], c, t}]++
				}()
				served.Add(1)
			}
		}(r)
	}
	time.Sleep(d)
	stop.Store(true)
	wg.Wait()

	all := map[obsKey]int{}
	for _, m := range seen {
		for k, n := range m {
			all[k] += n
		}
	}
	if v := writeFailure.Load(); v != nil {
		all[obsKey{0, racePatFirst, "ROther", "a write of the writer goroutine failed: " + clean(v.(string))}]++
	}
	keys := make([]obsKey, 0, len(all))
	for k := range all {
		keys = append(keys, k)
	}
	sort.Slice(keys, func(i, j int) bool {
		a, b := keys[i], keys[j]
		if a.p != b.p {
			return a.p < b.p
		}
		if a.m != b.m {
			return a.m < b.m
		}
		return a.coq < b.coq
	})
	for _, k := range keys {
		term := fmt.Sprintf("(CReq %s %s %s %s %d %d %s)", hx.Bool(nm), hx.Bool(au), wopsCoq(pre), hx.ListOf(cycle, wopsCoq), k.m, k.p, k.coq)
		human := fmt.Sprintf("[commit-race] %s ; writer commits the cycle again and again (%d commits) while %d readers send requests ; request %s %s => %s (seen %d times)",
			cfg, commits.Load(), readers, raceReqMethods[k.m], patterns[k.p], k.text, all[k])
		cs.Add(term, human)
		st.Count("family:commit-race")
		st.Count("commit-race:answer:" + strings.SplitN(strings.Trim(k.coq, "()"), " ", 2)[0])
	}
	return served.Load()
}

func raceStream(rnd *hx.Rand, tier string, cs *hx.Cases, st *hx.Stats) {
	rounds, d := 4, 900*time.Millisecond
	switch tier {
	case "thorough":
		rounds, d = 8, 3*time.Second
	case "search":
		rounds, d = 6, 2*time.Second
	}
	var total int64
	for i := 0; i < rounds; i++ {
		total += raceRound(rnd.Fork(), d, 4, cs, st)
	}
	if st.Extra == nil {
		st.Extra = map[string]any{}
	}
	st.Extra["commit_race_requests"] = total
	st.Extra["commit_race_rounds"] = rounds
}
