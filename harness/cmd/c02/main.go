// c02: history correspondence for the routing tree (C02 exact map, C07 history
// independence). Every step observes outcome, the dump of the state visible to the
// caller (router or open transaction), All() and Len().
package main

import (
	"errors"
	"fmt"
	"sort"
	"strings"

	"foxverif/hx"
	"foxverif/rt"

	"github.com/tigerwill90/fox"
)

type forcedStep struct{ kind, method, pat string }

type world struct {
	obsCount int
	f        *fox.Router
	txn      *fox.Txn
	rid      map[*fox.Route]uint64
	next     uint64
}

func (w *world) handler() (fox.HandlerFunc, uint64) {
	w.next++
	return func(c fox.Context) {}, w.next
}

func (w *world) dump() (*fox.VerifTree, []string, int) {
	var t *fox.VerifTree
	var all []string
	var ln int
	if w.txn != nil {
		t = w.txn.VerifDump()
		w.obsCount++
		if w.obsCount%4 == 0 {
			// Txn.Iter() takes a snapshot, which resets the transaction's copy-on-write cache: observing
			// through it after every step would hide aliasing slips, so it is used only now and then
			for m, r := range w.txn.Iter().All() {
				all = append(all, "("+hx.Bytes(m)+", "+hx.Bytes(r.Pattern())+", "+hx.N(w.rid[r])+")")
			}
		} else {
			// the same list read off the dump (pre-order of every non-empty method root), no side effect
			byAddr := map[uintptr]uint64{}
			for r, id := range w.rid {
				byAddr[fox.VerifRouteAddr(r)] = id
			}
			var walk func(m string, n *fox.VerifNode)
			walk = func(m string, n *fox.VerifNode) {
				if n.Leaf {
					all = append(all, "("+hx.Bytes(m)+", "+hx.Bytes(n.Pattern)+", "+hx.N(byAddr[n.RouteAddr])+")")
				}
				for _, c := range n.Children {
					walk(m, c)
				}
			}
			for _, root := range t.Roots {
				if len(root.Children) > 0 {
					walk(root.Key, root)
				}
			}
		}
		ln = w.txn.Len()
	} else {
		t = w.f.VerifDump()
		for m, r := range w.f.Iter().All() {
			all = append(all, "("+hx.Bytes(m)+", "+hx.Bytes(r.Pattern())+", "+hx.N(w.rid[r])+")")
		}
		ln = w.f.Len()
	}
	return t, all, ln
}

func outcomeTerm(err error) (string, string) {
	var ce *fox.RouteConflictError
	switch {
	case err == nil:
		return "OutOk", "ok"
	case errors.As(err, &ce):
		return "(OutConflict " + hx.ListOf(ce.Matched, hx.Bytes) + ")", "conflict"
	case errors.Is(err, fox.ErrRouteExist):
		return "OutExist", "exist"
	case errors.Is(err, fox.ErrRouteNotFound):
		return "OutNotFound", "notfound"
	case errors.Is(err, fox.ErrInvalidRoute):
		return "OutInvalid", "invalid"
	}
	return "OutInvalid (* unexpected: " + err.Error() + " *)", "other"
}

func main() {
	args := hx.Args()
	out, tier := args["out"], args["tier"]
	shards := hx.Atoi(args["shards"], 16)
	rnd := hx.NewRand(hx.Seed() + 202)

	cs := &hx.Cases{
		Header: "From FoxBase Require Import Bytes.\nFrom FoxRoute Require Import Node Lookup Spec Tree MapSpec CorrHist Iter CorrIter CorrWF.\n",
		Type:   "c2case",
		Footer: "Definition mism := Eval vm_compute in c2_mismatches cases.\nPrint mism.\n" +
			"Definition viol := Eval vm_compute in c2_violations_wf cases.\nPrint viol.\n" +
			"Definition oof : list nat := [].\nPrint oof.\n",
	}
	st := &hx.Stats{Rule: "histories of 5-40 steps over a pool of 5-12 patterns drawn to collide (shared prefixes, same position with different wildcard names, hostnames splitting at labels) on methods GET/POST/FOO/BAR (plus invalid methods), steps = Handle/Update/Delete/Truncate (about 30% duplicate/missing/invalid) issued directly or inside transactions ended by Commit or Abort; non-trivial = history with at least one successful write and one failed call; distinct = distinct step sequences"}

	n := 120
	if tier == "thorough" {
		n = 4000
	}
	prop := args["prop"]
	if prop == "C07" {
		runC07(out, tier, shards, rnd)
		return
	}
	nontrivial := 0
	for hi := 0; hi < n; hi++ {
		var ropts []fox.GlobalOption
		maxP := 0
		if hi%7 == 2 {
			// a small wildcard limit: patterns over it (by a named parameter OR a catch-all) are invalid
			maxP = rnd.Range(1, 3)
			ropts = append(ropts, fox.WithMaxRouteParams(uint16(maxP)))
			st.Count("router:max-route-params")
		}
		f, err := fox.New(ropts...)
		hx.Fatal(err)
		w := &world{f: f, rid: map[*fox.Route]uint64{}}
		tr := newTracker() // what the calls' own results say is registered (independent of every read API)
		readFailures := 0
		pool := make([]string, rnd.Range(5, 12))
		hostPct := hx.Pick(rnd, []int{0, 0, 30, 70})
		for i := range pool {
			pool[i] = rt.Pattern(rnd, hostPct)
			if i > 0 && rnd.Pct(35) { // derive from an earlier one to force shared prefixes / conflicts
				b := pool[rnd.Intn(i)]
				switch rnd.Intn(6) {
				case 4, 5:
					// hostname patterns whose hosts are label-wise prefixes / extensions of each other
					// (the host/path boundary then falls in the middle of an existing host edge)
					if h, pth := rt.SplitPattern(b); h != "" {
						if i := strings.LastIndexByte(h, '.'); i > 0 && rnd.Bool() {
							b = h[:i] + pth
						} else {
							b = h + "." + hx.Pick(rnd, []string{"c", "com", "{g}"}) + pth
						}
					} else {
						b = hx.Pick(rnd, []string{"a.{h}", "{h}.b", "a.{h}.c", "{g}.{h}"}) + b
					}
				case 0:
					b = strings.Replace(b, "{x}", "{y}", 1)
				case 1:
					b = strings.Replace(b, "*{w}", "*{v}", 1)
				case 2:
					b = b + hx.Pick(rnd, []string{"/a", "/{x}", "b", "/"})
				case 3:
					if len(b) > 2 {
						b = b[:rnd.Range(1, len(b)-1)]
					}
				}
				pool[i] = b
			}
		}
		if hi%6 == 1 {
			ia := hx.Pick(rnd, []string{"/a/*{x}/b", "/f/*{p}/m", "a.b/a/*{x}/b"})
			fam := []string{ia, ia + "c", ia + "d", ia + "/*{y}/c/d1", ia + "/*{y}/c/d2", ia + "/*{y}/c/d1/e", ia + "/*{y}/c"}
			for i, f := range fam {
				if i < len(pool) {
					pool[i] = f
				} else {
					pool = append(pool, f)
				}
			}
			st.Count("pool:infix-family")
		}
		if hostPct > 0 && rnd.Pct(70) {
			// family of hostname patterns whose hosts extend each other label by label around a
			// parameter label: the host/path boundary of one falls inside the host edge of another
			hbase := hx.Pick(rnd, []string{"a.{b}", "{sub}.example", "x.{h}.y", "{g}.{h}"})
			tail := hx.Pick(rnd, []string{"/x", "/", "/{p}"})
			fam := []string{hbase + ".c" + tail, hbase + tail, hbase + ".c.d" + tail, hbase + ".com/"}
			for _, f := range fam[:rnd.Range(2, 4)] {
				pool[rnd.Intn(len(pool))] = f
			}
		}
		methods := []string{"GET", "POST", "FOO", "BAR"}
		steps := rnd.Range(5, 40)
		if hi%8 == 3 {
			// fan-out pool: 55-75 siblings under one node, so insert/delete cross the 50-children
			// switch between linear and binary edge search (getEdge / updateEdge)
			alpha := "0123456789ABCDEFGHIJKLMNOPQRSTUVWXYZabcdefghijklmnopqrstuvwxyz-_.~!$&'()+,;=:@"
			pre := hx.Pick(rnd, []string{"/", "/p/", "/{x}/", "/p"})
			nch := rnd.Range(55, 75)
			pool = pool[:0]
			for i := 0; i < nch; i++ {
				pool = append(pool, pre+string(alpha[(i*7+hi)%len(alpha)])+hx.Pick(rnd, []string{"", "/a", "b"}))
			}
			methods = []string{"GET"}
			steps = rnd.Range(90, 140)
			st.Count("pool:fanout")
		}
		var ops []string
		var human []string
		var forced []forcedStep
		okWrites, fails := 0, 0
		for si := 0; si < steps || len(forced) > 0; si++ {
			kind := ""
			switch r := rnd.Intn(100); {
			case r < 38:
				kind = "KHandle"
			case r < 52:
				kind = "KUpdate"
			case r < 80:
				kind = "KDelete"
			case r < 84:
				kind = "KTruncate"
			case r < 92:
				if w.txn == nil {
					kind = "KBegin"
				} else {
					kind = "KCommit"
				}
			default:
				if w.txn != nil {
					kind = "KAbort"
				} else {
					kind = "KHandle"
				}
			}
			method := hx.Pick(rnd, methods)
			if rnd.Pct(4) {
				method = hx.Pick(rnd, []string{"", "get", "G3T"})
			}
			pat := hx.Pick(rnd, pool)
			if hi%5 == 4 && si == 3 && w.txn == nil {
				// scripted scenario: nested routes committed one by one, then ONE cached transaction that
				// updates an inner route (a node with children) and writes below it, ended by abort or commit
				pre := hx.Pick(rnd, []string{"/foo", "/n/{x}", "a.b/foo"})
				below := hx.Pick(rnd, [][2]string{{"KHandle", "/baz"}, {"KDelete", "/bar"}, {"KUpdate", "/bar"}, {"KHandle", "/bar/y"}, {"KDelete", "/bar/x"}})
				end := "KAbort"
				if rnd.Pct(30) {
					end = "KCommit"
				}
				forced = append(forced, forcedStep{"KHandle", "GET", pre}, forcedStep{"KHandle", "GET", pre + "/bar"},
					forcedStep{"KHandle", "GET", pre + "/bar/x"}, forcedStep{"KBegin", "GET", pre},
					forcedStep{"KUpdate", "GET", pre}, forcedStep{below[0], "GET", pre + below[1]}, forcedStep{end, "GET", pre},
					forcedStep{"KDelete", "GET", pre + "/bar/x"})
				st.Count("scenario:nested-update-then-write-below")
			}
			if hi%6 == 1 && si == 2 && w.txn == nil {
				// scripted: an infix catch-all route with two routes below it, then its deletion: the node
				// stays as an intermediary node with > 1 children (its precomputed inode chain must lose the route)
				forced = append(forced, forcedStep{"KHandle", "GET", pool[0]}, forcedStep{"KHandle", "GET", pool[1]},
					forcedStep{"KHandle", "GET", pool[2]}, forcedStep{"KDelete", "GET", pool[0]}, forcedStep{"KHandle", "GET", pool[3]},
					forcedStep{"KHandle", "GET", pool[4]}, forcedStep{"KDelete", "GET", pool[3]})
				st.Count("scenario:infix-delete-keeps-node")
			}
			isForced := false
			if len(forced) > 0 {
				kind, method, pat = forced[0].kind, forced[0].method, forced[0].pat
				forced = forced[1:]
				isForced = true
				if (kind == "KCommit" || kind == "KAbort") && w.txn == nil {
					kind = "KDelete"
				}
				if kind == "KBegin" && w.txn != nil {
					kind = "KUpdate"
				}
			}
			if !isForced && (kind == "KDelete" || kind == "KUpdate") && rnd.Pct(55) {
				// aim at a registered route of the visible state
				var regs [][2]string
				for m, r := range f.Iter().All() { // published routes only: no snapshot of the open transaction
					regs = append(regs, [2]string{m, r.Pattern()})
				}
				if len(regs) > 0 {
					e := hx.Pick(rnd, regs)
					method, pat = e[0], e[1]
				}
			}
			if !isForced && rnd.Pct(5) {
				pat = hx.Pick(rnd, []string{"", "a", "/{", "/*{}", "/a{x}b", "/{x}{y}", "/*{a}/*{b}", "a..b/", "-a/"})
			}
			var tm []string
			var err error
			var removed *fox.Route
			var id uint64
			ps, hs, perr := f.VerifParseRoute(pat)
			if wild := strings.Count(pat, "{"); maxP > 0 && ((perr == nil && wild > maxP) || (errors.Is(perr, fox.ErrTooManyParams) && wild <= maxP)) && readFailures < 3 {
				// the harness' own count of wildcards against the configured limit
				readFailures++
				cs.Add("(CIter {| ic_tree := []; ic_set := []; ic_queries := [QHas (S2B \"validity\") (S2B \"wildcard limit not enforced\") true] |})",
					fmt.Sprintf("WILDCARD LIMIT: WithMaxRouteParams(%d), pattern %q has %d wildcards, parseRoute says: %v", maxP, pat, wild, perr))
				st.Count("limit:failures")
			}
			switch kind {
			case "KBegin":
				w.txn = f.Txn(true)
			case "KCommit":
				w.txn.Commit()
				w.txn = nil
			case "KAbort":
				w.txn.Abort()
				w.txn = nil
			case "KHandle":
				var h fox.HandlerFunc
				h, id = w.handler()
				var r *fox.Route
				if w.txn != nil {
					r, err = w.txn.Handle(method, pat, h)
				} else {
					r, err = f.Handle(method, pat, h)
				}
				if err == nil {
					w.rid[r] = id
				}
			case "KUpdate":
				var h fox.HandlerFunc
				h, id = w.handler()
				var r *fox.Route
				if w.txn != nil {
					r, err = w.txn.Update(method, pat, h)
				} else {
					r, err = f.Update(method, pat, h)
				}
				if err == nil {
					w.rid[r] = id
				}
			case "KDelete":
				if w.txn != nil {
					removed, err = w.txn.Delete(method, pat)
				} else {
					removed, err = f.Delete(method, pat)
				}
			case "KTruncate":
				for _, m := range methods {
					if rnd.Pct(30) {
						tm = append(tm, m)
					}
				}
				if rnd.Pct(15) {
					tm = append(tm, "NOPE")
				}
				if w.txn != nil {
					err = w.txn.Truncate(tm...)
				} else {
					err = f.Updates(func(txn *fox.Txn) error { return txn.Truncate(tm...) })
				}
			}
			switch kind {
			case "KBegin":
				tr.begin()
			case "KCommit":
				tr.commit()
			case "KAbort":
				tr.abort()
			case "KHandle":
				tr.add(method, pat, err)
			case "KDelete":
				tr.del(method, pat, err)
			case "KTruncate":
				if err == nil {
					if len(tm) == 0 {
						for k := range tr.cur() {
							delete(tr.cur(), k)
						}
					}
					for _, m := range tm {
						tr.truncate(m)
					}
				}
			}
			if bad := readsAgree(f, w.txn, tr, pool, methods, si%4 == 3); bad != "" && readFailures < 3 {
				readFailures++
				// a read API disagrees with the registered set: reported through a case whose specification
				// check fails (QHas of a key that ic_set does not contain, answered true)
				var set []string
				for k := range tr.cur() {
					set = append(set, hx.Pair(hx.Bytes(k[0]), hx.Bytes(k[1])))
				}
				sort.Strings(set)
				cs.Add("(CIter {| ic_tree := []; ic_set := "+hx.List(set)+"; ic_queries := [QHas (S2B \"read-API\") (S2B \"disagrees with the registered set\") true] |})",
					fmt.Sprintf("READ API DISAGREES WITH THE REGISTERED SET: %s ;; after step %d (%s %s %q) of history: %s", bad, si, kind, method, pat, strings.Join(human, " ; ")))
				st.Count("reads-agree:failures")
			}
			oterm, oname := outcomeTerm(err)
			if err == nil && (kind == "KHandle" || kind == "KUpdate" || kind == "KDelete") {
				okWrites++
			}
			if err != nil {
				fails++
			}
			t, all, ln := w.dump()
			rm := "None"
			if removed != nil {
				rm = "(Some " + hx.N(w.rid[removed]) + ")"
			}
			hsplit := 0
			if perr == nil && hs > 0 {
				hsplit = hs
			}
			ridf := func(v *fox.VerifNode) uint64 { return w.ridByAddr(v) }
			_ = ridf
			term := fmt.Sprintf("{| h_kind := %s; h_method := %s; h_pat := %s; h_valid := %s; h_pslen := %d; h_hostsplit := %d; h_rid := %s; h_methods := %s;\n     h_obs := {| o_out := %s; o_removed := %s; o_tree := %s; o_size := %s; o_maxp := %d; o_depth := %d; o_all := %s; o_len := %s |} |}",
				kind, hx.Bytes(method), hx.Bytes(pat), hx.Bool(perr == nil), ps, hsplit, hx.N(id), hx.ListOf(tm, hx.Bytes),
				oterm, rm, rt.RootsTerm(t, w.ridOf(t)), hx.Z(int64(t.Size)), t.MaxParams, t.Depth, hx.List(all), hx.Z(int64(ln)))
			ops = append(ops, term)
			human = append(human, fmt.Sprintf("%s %s %q %v -> %s", kind, method, pat, tm, oname))
			st.Count("op:" + kind)
			st.Count("out:" + oname)
		}
		if w.txn != nil {
			w.txn.Abort()
		}
		cs.Add("(CHist "+hx.List(ops)+")", strings.Join(human, " ; "))
		if okWrites > 0 && fails > 0 {
			nontrivial++
		}
		// read-API case on the final published tree of this history
		{
			var set, qs, hq []string
			var regs [][2]string
			for m, r := range f.Iter().All() {
				set = append(set, hx.Pair(hx.Bytes(m), hx.Bytes(r.Pattern())))
				regs = append(regs, [2]string{m, r.Pattern()})
			}
			var ms []string
			for m := range f.Iter().Methods() {
				ms = append(ms, m)
			}
			qs = append(qs, "(QMethods "+hx.ListOf(ms, hx.Bytes)+")")
			for k := 0; k < 14; k++ {
				m, p := hx.Pick(rnd, methods), hx.Pick(rnd, pool)
				if len(regs) > 0 && rnd.Pct(50) {
					e := hx.Pick(rnd, regs)
					m, p = e[0], e[1]
				}
				if perr := func() error { _, _, e := f.VerifParseRoute(p); return e }(); perr != nil {
					continue
				}
				has := f.Has(m, p)
				qs = append(qs, "(QHas "+hx.Bytes(m)+" "+hx.Bytes(p)+" "+hx.Bool(has)+")")
				hq = append(hq, fmt.Sprintf("Has(%s,%q)=%v", m, p, has))
				st.Count(fmt.Sprintf("has:%v", has))
				pre := p[:rnd.Intn(len(p)+1)]
				var got []string
				for _, r := range f.Iter().Prefix(func(yield func(string) bool) { yield(m) }, pre) {
					got = append(got, r.Pattern())
				}
				qs = append(qs, "(QPrefix "+hx.Bytes(m)+" "+hx.Bytes(pre)+" "+hx.ListOf(got, hx.Bytes)+")")
				hq = append(hq, fmt.Sprintf("Prefix(%s,%q)=%v", m, pre, got))
				st.Count(fmt.Sprintf("prefix-hits:%d", min(len(got), 5)))
			}
			term := "(CIter {| ic_tree := " + rt.RootsTerm(f.VerifDump(), nil) + "; ic_set := " + hx.List(set) + "; ic_queries := " + hx.List(qs) + " |})"
			cs.Add(term, fmt.Sprintf("registered=%v queries: %s", regs, strings.Join(hq, " ; ")))
		}
		if len(st.Samples) < 3 {
			st.Samples = append(st.Samples, strings.Join(human, " ; "))
		}
	}
	st.Evaluations = cs.Len()
	st.DistinctNontrivial = nontrivial
	hx.Fatal(cs.Write(out, shards))
	hx.Fatal(st.Write(out))
	fmt.Printf("c02: %d histories\n", cs.Len())
}

// route ids are attached by route object address
func (w *world) ridOf(t *fox.VerifTree) func(*fox.VerifNode) uint64 {
	byAddr := map[uintptr]uint64{}
	for r, id := range w.rid {
		byAddr[fox.VerifRouteAddr(r)] = id
	}
	return func(v *fox.VerifNode) uint64 { return byAddr[v.RouteAddr] }
}
func (w *world) ridByAddr(v *fox.VerifNode) uint64 { return 0 }

// ---------- C07: history independence ----------

type entry struct {
	method, pat string
}

// tracker keeps, independently of the router, the set of routes that COMMITTED successful operations
// registered: what a sequential map would hold. An aborted transaction must leave it unchanged.
type tracker struct {
	committed map[[2]string]bool
	pending   map[[2]string]bool // inside an open transaction
}

func newTracker() *tracker { return &tracker{committed: map[[2]string]bool{}} }
func (t *tracker) cur() map[[2]string]bool {
	if t.pending != nil {
		return t.pending
	}
	return t.committed
}
func (t *tracker) begin() {
	t.pending = map[[2]string]bool{}
	for k := range t.committed {
		t.pending[k] = true
	}
}
func (t *tracker) commit() { t.committed, t.pending = t.pending, nil }
func (t *tracker) abort()  { t.pending = nil }
func (t *tracker) add(m, p string, err error) {
	if err == nil {
		t.cur()[[2]string{m, p}] = true
	}
}
func (t *tracker) del(m, p string, err error) {
	if err == nil {
		delete(t.cur(), [2]string{m, p})
	}
}
func (t *tracker) truncate(m string) {
	for k := range t.cur() {
		if k[0] == m {
			delete(t.cur(), k)
		}
	}
}

func mutate(rnd *hx.Rand, f *fox.Router, pool []string, methods []string, steps int, tr *tracker) {
	var txn *fox.Txn
	if rnd.Pct(35) {
		// nested routes, then a cached transaction updating an inner route and writing below it, aborted
		pre := hx.Pick(rnd, []string{"/foo", "/n/{x}", "a.b/foo"})
		m := methods[0]
		for _, p := range []string{pre, pre + "/bar", pre + "/bar/x"} {
			_, err := f.Handle(m, p, rt.Noop)
			tr.add(m, p, err)
		}
		t := f.Txn(true)
		tr.begin()
		t.Update(m, pre, rt.Noop)
		switch rnd.Intn(3) {
		case 0:
			_, err := t.Handle(m, pre+"/baz", rt.Noop)
			tr.add(m, pre+"/baz", err)
		case 1:
			_, err := t.Delete(m, pre+"/bar")
			tr.del(m, pre+"/bar", err)
		default:
			t.Update(m, pre+"/bar", rt.Noop)
			_, err := t.Delete(m, pre+"/bar/x")
			tr.del(m, pre+"/bar/x", err)
		}
		if rnd.Pct(75) {
			t.Abort()
			tr.abort()
		} else {
			t.Commit()
			tr.commit()
		}
	}
	txnRead := func(t *fox.Txn) {
		// a point-in-time read of the open transaction (resets its copy-on-write cache)
		switch rnd.Intn(3) {
		case 0:
			for range t.Iter().All() {
				break
			}
		case 1:
			if s := t.Snapshot(); s != nil {
				s.Len()
				s.Abort()
			}
		}
	}
	if rnd.Pct(35) && len(tr.committed) > 0 {
		// scripted: a SIZE-NEUTRAL transaction (one registered route deleted, one new route added), read
		// through Iter()/Snapshot() after its last write, then committed
		var reg [][2]string
		for k := range tr.committed {
			reg = append(reg, k)
		}
		sort.Slice(reg, func(i, j int) bool { return reg[i][0]+reg[i][1] < reg[j][0]+reg[j][1] })
		a := hx.Pick(rnd, reg)
		t := f.Txn(true)
		tr.begin()
		_, err := t.Delete(a[0], a[1])
		tr.del(a[0], a[1], err)
		for _, p := range pool {
			if !tr.cur()[[2]string{a[0], p}] && p != a[1] {
				if _, err := t.Handle(a[0], p, rt.Noop); err == nil {
					tr.add(a[0], p, nil)
					break
				}
			}
		}
		txnRead(t)
		t.Commit()
		tr.commit()
	}
	for i := 0; i < steps; i++ {
		m, p := hx.Pick(rnd, methods), hx.Pick(rnd, pool)
		if txn != nil && rnd.Pct(8) {
			txnRead(txn)
		}
		switch r := rnd.Intn(100); {
		case r < 45:
			var err error
			if txn != nil {
				_, err = txn.Handle(m, p, rt.Noop)
			} else {
				_, err = f.Handle(m, p, rt.Noop)
			}
			tr.add(m, p, err)
		case r < 55:
			if txn != nil {
				txn.Update(m, p, rt.Noop)
			} else {
				f.Update(m, p, rt.Noop)
			}
		case r < 82:
			var err error
			if txn != nil {
				_, err = txn.Delete(m, p)
			} else {
				_, err = f.Delete(m, p)
			}
			tr.del(m, p, err)
		case r < 85:
			if txn != nil {
				txn.Truncate(m)
			} else {
				f.Updates(func(t *fox.Txn) error { return t.Truncate(m) })
			}
			tr.truncate(m)
		case r < 93:
			if txn == nil {
				txn = f.Txn(true)
				tr.begin()
			} else if rnd.Bool() {
				if rnd.Pct(40) {
					txnRead(txn)
				}
				txn.Commit()
				tr.commit()
				txn = nil
			} else {
				txn.Abort()
				tr.abort()
				txn = nil
			}
		default:
			if txn != nil {
				txn.Abort()
				tr.abort()
				txn = nil
			}
		}
	}
	if txn != nil {
		if rnd.Bool() {
			txn.Commit()
			tr.commit()
		} else {
			txn.Abort()
			tr.abort()
		}
	}
}

func runC07(out, tier string, shards int, rnd *hx.Rand) {
	cs := &hx.Cases{
		Header: "From FoxBase Require Import Bytes.\nFrom FoxRoute Require Import Node Lookup Spec Tree MapSpec CorrHist CorrWF.\n",
		Type:   "c7case",
		Footer: "Definition mism := Eval vm_compute in c7_mismatches cases.\nPrint mism.\n" +
			"Definition viol := Eval vm_compute in c7_violations_wf cases.\nPrint viol.\n" +
			"Definition oof : list nat := [].\nPrint oof.\n",
	}
	st := &hx.Stats{Rule: "pairs of routers: A after a random mutation history (Handle/Update/Delete/Truncate, committed and aborted transactions, 10-60 steps over a colliding pattern pool, hostnames in part of the pools), B freshly filled with A's final set in a random order (all permutations for sets of <= 4 routes in the thorough tier); compared by tree dump and by Lookup (route, params, tsr) and ServeHTTP (status, Allow set) on probes derived from every pattern for every method; non-trivial = final set has >= 3 routes and the history contained a successful delete; distinct = distinct (history, fill order)"}
	n := 150
	if tier == "thorough" {
		n = 5000
	}
	nontrivial := 0
	opts := []fox.GlobalOption{fox.WithNoMethod(true), fox.WithAutoOptions(true), fox.WithRedirectTrailingSlash(true)}
	c07OrderSweep(rnd, opts, cs, st, tier)
	for ci := 0; ci < n; ci++ {
		func() {
			var trace []string
			defer func() {
				if r := recover(); r != nil {
					// the implementation panicked (or corrupted itself so badly that the harness could not
					// continue): that is a failing history by itself
					cs.Add("{| c7_set := []; c7_treeA := []; c7_treeB := [Node (S2B \"panic\") None []]; c7_depthB := 0; c7_maxpB := 0; c7_probes_equal := false |}",
						fmt.Sprintf("FAILING HISTORY (the implementation panicked, or router A lost / leaked a route): %v after: %s", r, strings.Join(trace, " ; ")))
					st.Count("case:panic")
				}
			}()
			a, err := fox.New(opts...)
			hx.Fatal(err)
			pool := make([]string, rnd.Range(4, 10))
			hostPct := hx.Pick(rnd, []int{0, 0, 30, 70})
			for i := range pool {
				pool[i] = rt.Pattern(rnd, hostPct)
				if i > 0 && rnd.Pct(30) {
					pool[i] = pool[rnd.Intn(i)] + hx.Pick(rnd, []string{"/a", "/{x}", "b", "/"})
				}
			}
			methods := []string{"GET", "POST", "FOO", "BAR"}[:rnd.Range(1, 4)]
			if ci%4 == 2 {
				// infix catch-all families: one or two infix catch-alls followed by static text inside ONE node
				// key, with siblings below (the precomputed inode chain of such a node must follow every
				// later insert / delete / update that walks through or rebuilds the node)
				ia := hx.Pick(rnd, []string{"/a/*{x}/b", "/f/*{p}/m", "a.b/a/*{x}/b"})
				pool = []string{ia, ia + "c", ia + "d", ia + "/*{y}/c/d1", ia + "/*{y}/c/d2", ia + "/*{y}/c/d1/e", ia + "/*{y}/c", ia + "/k/{z}"}
				st.Count("pool:infix-family")
			}
			if ci%3 == 1 {
				// sibling pool: many children under one node, inserted a few at a time, so that children
				// arrays with spare capacity exist when a later (possibly aborted) transaction inserts a
				// sibling that sorts before the existing ones
				pre := hx.Pick(rnd, []string{"/", "/p/", "/{x}/", "a.b/"})
				letters := "mtwabzkq0c"
				pool = pool[:0]
				for _, c := range letters[:rnd.Range(4, len(letters))] {
					pool = append(pool, pre+string(c))
				}
				st.Count("pool:siblings")
			}
			before := a.Len()
			tr := newTracker()
			if ci%4 == 2 {
				// scripted: the infix route with two children below it, then its deletion (the node stays as
				// an intermediary node with > 1 children; its precomputed inode must lose the route too)
				m := methods[0]
				for _, p := range []string{pool[0], pool[1], pool[2]} {
					_, err := a.Handle(m, p, rt.Noop)
					tr.add(m, p, err)
				}
				if rnd.Pct(70) {
					_, err := a.Delete(m, pool[0])
					tr.del(m, pool[0], err)
				}
			}
			if ci%3 == 1 {
				// scripted prelude: k siblings committed one by one, then an ABORTED transaction inserting
				// siblings that sort before them (a copy-on-write slip corrupts the live tree here)
				k := rnd.Range(3, 7)
				trace = append(trace, fmt.Sprintf("Handle %v one by one; then a transaction inserting %v and %q, aborted with probability 3/4", pool[:min(k, len(pool))], pool[min(k, len(pool)):], pool[0][:len(pool[0])-1]+"A"))
				for i := 0; i < k && i < len(pool); i++ {
					_, err := a.Handle(methods[0], pool[i], rt.Noop)
					tr.add(methods[0], pool[i], err)
				}
				txn := a.Txn(true)
				tr.begin()
				for i := k; i < len(pool); i++ {
					_, err := txn.Handle(methods[0], pool[i], rt.Noop)
					tr.add(methods[0], pool[i], err)
				}
				extra := pool[0][:len(pool[0])-1] + "A"
				_, err := txn.Handle(methods[0], extra, rt.Noop)
				tr.add(methods[0], extra, err)
				if rnd.Pct(75) {
					txn.Abort()
					tr.abort()
				} else {
					txn.Commit()
					tr.commit()
				}
				mutate(rnd, a, pool, methods, rnd.Range(0, 6), tr)
			} else {
				mutate(rnd, a, pool, methods, rnd.Range(10, 60), tr)
			}
			_ = before
			var set []entry
			listed := map[[2]string]bool{}
			for m, r := range a.Iter().All() {
				listed[[2]string{m, r.Pattern()}] = true
			}
			for k := range tr.committed {
				set = append(set, entry{k[0], k[1]})
			}
			sort.Slice(set, func(i, j int) bool { return set[i].method+" "+set[i].pat < set[j].method+" "+set[j].pat })
			if len(listed) != len(tr.committed) {
				panic(fmt.Sprintf("router A lists %d routes but the committed operations registered %d: listed=%v committed=%v", len(listed), len(tr.committed), listed, tr.committed))
			}
			for k := range tr.committed {
				if !listed[k] {
					panic(fmt.Sprintf("router A does not list the committed route %v", k))
				}
			}
			// random permutation
			for i := len(set) - 1; i > 0; i-- {
				j := rnd.Intn(i + 1)
				set[i], set[j] = set[j], set[i]
			}
			b, err := fox.New(opts...)
			hx.Fatal(err)
			var items []string
			for _, e := range set {
				if _, err := b.Handle(e.method, e.pat, rt.Noop); err != nil {
					panic(fmt.Sprintf("router A lists %s %s (All) but a fresh router rejects it: %v", e.method, e.pat, err))
				}
				ps, hs, _ := b.VerifParseRoute(e.pat)
				if hs < 0 {
					hs = 0
				}
				items = append(items, fmt.Sprintf("(%s, %s, %d, %d)", hx.Bytes(e.method), hx.Bytes(e.pat), ps, hs))
			}
			equal := true
			var diff string
			probes := 0
			probeSrc := append([]entry{}, set...)
			for _, p := range pool {
				probeSrc = append(probeSrc, entry{methods[0], p})
			}
			for _, e := range probeSrc {
				for k := 0; k < 4; k++ {
					h, p := rt.SplitPattern(rt.Instantiate(rnd, e.pat, false))
					if k > 0 {
						p = rt.PerturbPath(rnd, p)
					}
					if k == 3 {
						h = rt.PerturbHost(rnd, h)
					}
					if p == "" {
						p = "/"
					}
					for _, m := range append(methods, "OPTIONS") {
						probes++
						la, lb := rt.Lookup(a, m, h, p), rt.Lookup(b, m, h, p)
						sa, aa := rt.Serve(a, m, h, p)
						sb, ab := rt.Serve(b, m, h, p)
						if fmt.Sprint(la) != fmt.Sprint(lb) || sa != sb || aa != ab {
							equal = false
							diff = fmt.Sprintf("%s host=%q path=%q: A=%v %d %q B=%v %d %q", m, h, p, la, sa, aa, lb, sb, ab)
						}
					}
				}
			}
			da, db := a.VerifDump(), b.VerifDump()
			term := fmt.Sprintf("{| c7_set := %s; c7_treeA := %s; c7_treeB := %s; c7_depthB := %d; c7_maxpB := %d; c7_probes_equal := %s |}",
				hx.List(items), rt.RootsTerm(da, nil), rt.RootsTerm(db, nil), db.Depth, db.MaxParams, hx.Bool(equal))
			human := fmt.Sprintf("final set (fill order) %v; probes=%d equal=%v %s", set, probes, equal, diff)
			cs.Add(term, human)
			st.Count(fmt.Sprintf("setsize:%02d", min(len(set), 12)))
			if len(set) >= 3 {
				nontrivial++
			}
			if len(st.Samples) < 3 && len(set) >= 3 {
				st.Samples = append(st.Samples, human)
			}
		}()
	}
	st.Evaluations = cs.Len()
	st.DistinctNontrivial = nontrivial
	hx.Fatal(cs.Write(out, shards))
	hx.Fatal(st.Write(out))
	fmt.Printf("c02[C07]: %d pairs\n", cs.Len())
}

// c07Cuts derives from one pattern the family of related patterns that share tree nodes with it:
// its prefixes at every syntactic boundary (before '{' and '*', after '}', after '/', and for the
// hostname part after '.'), the pattern itself and short extensions. Only patterns a fresh router
// accepts are kept.
func c07Cuts(opts []fox.GlobalOption, p string) []string {
	var cand []string
	add := func(q string) {
		if q == "" {
			return
		}
		for _, c := range cand {
			if c == q {
				return
			}
		}
		cand = append(cand, q)
	}
	hostEnd := 0
	if p[0] != '/' {
		hostEnd = strings.IndexByte(p, '/')
	}
	for i := 1; i <= len(p); i++ {
		cut := i == len(p) || p[i] == '{' || p[i] == '*' || p[i-1] == '}' || p[i-1] == '/' || (i < hostEnd && p[i-1] == '.')
		if !cut {
			continue
		}
		q := p[:i]
		if i < hostEnd {
			// a hostname prefix needs a path: whole labels only
			q = strings.TrimSuffix(q, ".")
			add(q + "/")
			continue
		}
		add(q)
		add(strings.TrimSuffix(q, "/"))
	}
	add(p + "/")
	add(p + "/x")
	add(p + "x")
	add(p[:len(p)-1] + "~")
	var out []string
	for _, q := range cand {
		f, err := fox.New(opts...)
		hx.Fatal(err)
		if _, err := f.Handle("GET", q, rt.Noop); err == nil {
			out = append(out, q)
		}
	}
	return out
}

// c07OrderSweep: EXHAUSTIVE small histories. For every family of related patterns, every ordered pair
// and ordered triple is registered one by one (rejected registrations are skipped), optionally followed
// by the deletion of the first one; the resulting router must equal (tree dump, Lookup and ServeHTTP on
// probes derived from the whole family) the router freshly filled with the same final set in sorted
// order. Comparisons are done here; every failing history, and one passing history per family, is
// emitted as a case so that the model side checks them too.
func c07OrderSweep(rnd *hx.Rand, opts []fox.GlobalOption, cs *hx.Cases, st *hx.Stats, tier string) {
	bases := []string{
		"/files/*{path}", "/files/{id}/x", "/a/*{x}/b/*{y}/c", "/u/{a}/{b}", "/s/ab{x}", "/s/ab*{x}",
		"a.{b}.c/p", "{a}.b.c/{x}", "a.b{c}.d/", "ab.c/x/*{y}", "/x/{a}/y/*{b}/z",
	}
	extra := 4
	if tier == "thorough" {
		extra = 40
	}
	for i := 0; i < extra; i++ {
		bases = append(bases, rt.Pattern(rnd, hx.Pick(rnd, []int{0, 0, 50})))
	}
	failing, histories := 0, 0
	var fams [][]string
	for _, base := range bases {
		all := c07Cuts(opts, base)
		if len(all) > 8 {
			// long patterns: the shortest prefixes and the most specific members as two families
			fams = append(fams, all[:8], all[len(all)-8:])
		} else {
			fams = append(fams, all)
		}
	}
	// mixed families: a {param} AND a *{catch-all} edge (and static edges) under one node, with the node's
	// own pattern and routes below: the node is rebuilt by inserts that end exactly on it, split it or delete it
	for _, mixed := range [][]string{
		{"/users/", "/users", "/users/{id}", "/users/*{path}", "/users/{id}/", "/users/new", "/users/{id}/x"},
		{"/f/{a}", "/f/*{b}", "/f/", "/f/x", "/f/{a}/y", "/f/x{a}", "/f/x*{b}"},
		{"a.b/", "a.b/{p}", "a.b/*{w}", "{s}.b/", "{s}.b/{p}", "a.b/x", "a.b/{p}/"},
		{"/{a}", "/*{b}", "/", "/x", "/{a}/", "/x/{c}", "/x/*{d}"},
	} {
		var fam []string
		for _, q := range mixed {
			f, _ := fox.New(opts...)
			if _, err := f.Handle("GET", q, rt.Noop); err == nil {
				fam = append(fam, q)
			}
		}
		fams = append(fams, fam)
	}
	for _, fam := range fams {
		if len(fam) < 2 {
			continue
		}
		st.Count("order-sweep:families")
		type probe struct{ h, p string }
		var probes []probe
		for _, q := range fam {
			for k := 0; k < 3; k++ {
				h, p := rt.SplitPattern(rt.Instantiate(rnd, q, false))
				if k == 1 {
					p = rt.PerturbPath(rnd, p)
				}
				if k == 2 {
					// the slash-toggled request
					if strings.HasSuffix(p, "/") && len(p) > 1 {
						p = p[:len(p)-1]
					} else {
						p += "/"
					}
				}
				if p == "" {
					p = "/"
				}
				probes = append(probes, probe{h, p})
			}
		}
		emittedOK := false
		run := func(order []int, del bool) {
			histories++
			var human string
			var term string
			ok := true
			func() {
				defer func() {
					if r := recover(); r != nil {
						ok = false
						term = "{| c7_set := []; c7_treeA := []; c7_treeB := [Node (S2B \"panic\") None []]; c7_depthB := 0; c7_maxpB := 0; c7_probes_equal := false |}"
						human = fmt.Sprintf("FAILING HISTORY (panic %v): family %v order %v delete-first=%v", r, fam, order, del)
					}
				}()
				a, err := fox.New(opts...)
				hx.Fatal(err)
				final := map[string]bool{}
				var trace []string
				for _, i := range order {
					if _, err := a.Handle("GET", fam[i], rt.Noop); err == nil {
						final[fam[i]] = true
						trace = append(trace, "Handle "+fam[i])
					}
				}
				if del && final[fam[order[0]]] {
					if _, err := a.Delete("GET", fam[order[0]]); err != nil {
						panic(fmt.Sprintf("Delete of the registered %s failed: %v", fam[order[0]], err))
					}
					delete(final, fam[order[0]])
					trace = append(trace, "Delete "+fam[order[0]])
				}
				var set []string
				for q := range final {
					set = append(set, q)
				}
				sort.Strings(set)
				b, err := fox.New(opts...)
				hx.Fatal(err)
				var items []string
				for _, q := range set {
					if _, err := b.Handle("GET", q, rt.Noop); err != nil {
						panic(fmt.Sprintf("the set %v was accepted in order %v but a fresh router filled in sorted order rejects %s: %v", set, trace, q, err))
					}
					ps, hs, _ := b.VerifParseRoute(q)
					if hs < 0 {
						hs = 0
					}
					items = append(items, fmt.Sprintf("(%s, %s, %d, %d)", hx.Bytes("GET"), hx.Bytes(q), ps, hs))
				}
				// a second reference filled in the reverse order (a fault shared by A and the sorted fill, which
				// may use the very same order, shows against it)
				b2, err := fox.New(opts...)
				hx.Fatal(err)
				for i := len(set) - 1; i >= 0; i-- {
					if _, err := b2.Handle("GET", set[i], rt.Noop); err != nil {
						panic(fmt.Sprintf("the set %v is accepted in sorted order but rejected in reverse order at %s: %v", set, set[i], err))
					}
				}
				var diff string
				for _, pr := range probes {
					for _, m := range []string{"GET", "POST", "OPTIONS"} {
						l2 := rt.Lookup(b2, m, pr.h, pr.p)
						s2, a2 := rt.Serve(b2, m, pr.h, pr.p)
						if lb0 := rt.Lookup(b, m, pr.h, pr.p); fmt.Sprint(l2) != fmt.Sprint(lb0) {
							ok = false
							diff = fmt.Sprintf("two FRESH fills (sorted / reverse order) differ: %s host=%q path=%q: %v vs %v", m, pr.h, pr.p, lb0, l2)
						}
						_, _ = s2, a2
						la, lb := rt.Lookup(a, m, pr.h, pr.p), rt.Lookup(b, m, pr.h, pr.p)
						sa, aa := rt.Serve(a, m, pr.h, pr.p)
						sb, ab := rt.Serve(b, m, pr.h, pr.p)
						if fmt.Sprint(la) != fmt.Sprint(lb) || sa != sb || aa != ab {
							ok = false
							diff = fmt.Sprintf("%s host=%q path=%q: A=%v %d %q B=%v %d %q", m, pr.h, pr.p, la, sa, aa, lb, sb, ab)
						}
					}
				}
				for _, q := range fam {
					if a.Has("GET", q) != final[q] || b.Has("GET", q) != final[q] {
						ok = false
						diff = fmt.Sprintf("Has(GET,%q): A=%v B=%v registered=%v", q, a.Has("GET", q), b.Has("GET", q), final[q])
					}
				}
				da, db := a.VerifDump(), b.VerifDump()
				ta, tb := rt.RootsTerm(da, nil), rt.RootsTerm(db, nil)
				if ta != tb {
					ok = false
					if diff == "" {
						diff = "tree dumps differ"
					}
				}
				term = fmt.Sprintf("{| c7_set := %s; c7_treeA := %s; c7_treeB := %s; c7_depthB := %d; c7_maxpB := %d; c7_probes_equal := %s |}",
					hx.List(items), ta, tb, db.Depth, db.MaxParams, hx.Bool(ok))
				human = fmt.Sprintf("order sweep: history [%s] vs fresh fill in sorted order %v; equal=%v %s", strings.Join(trace, "; "), set, ok, diff)
			}()
			if !ok {
				failing++
				if failing <= 8 {
					cs.Add(term, human)
				}
			} else if !emittedOK && len(order) == 3 && del {
				emittedOK = true
				cs.Add(term, human)
			}
		}
		n := len(fam)
		for i := 0; i < n; i++ {
			for j := 0; j < n; j++ {
				if i == j {
					continue
				}
				run([]int{i, j}, false)
				run([]int{i, j}, true)
				for k := 0; k < n; k++ {
					if k == i || k == j {
						continue
					}
					run([]int{i, j, k}, false)
					run([]int{i, j, k}, true)
				}
			}
		}
	}
	// permutation families: sets of 5 overlapping patterns ({param} and *{catch-all} siblings next to static
	// text on consecutive levels, so a lookup keeps several alternatives pending), ALL 120 insertion orders,
	// half of them on a router that first held (and lost) a few deep routes; reference = sorted order
	permFams := [][]string{
		{"/a/b", "/a/{p2}", "/a/*{c2}", "/{p1}", "/*{c1}"},
		{"/a/b/c", "/a/{p}/c", "/a/*{w}", "/{q}/b/d", "/*{v}"},
		{"h.x/a/b", "h.x/a/{p}", "h.x/*{w}", "{s}.x/a/b", "/a/*{c}"},
	}
	nperm := 2
	if tier == "thorough" {
		nperm = 12
	}
	for i := 0; i < nperm; i++ {
		ov, _ := rt.OverlapSet(rnd, 9)
		var fam []string
		seen := map[string]bool{}
		for _, q := range ov {
			f, _ := fox.New(opts...)
			if _, err := f.Handle("GET", q, rt.Noop); err == nil && !seen[q] && len(fam) < 5 {
				seen[q] = true
				fam = append(fam, q)
			}
		}
		if len(fam) == 5 {
			permFams = append(permFams, fam)
		}
	}
	for _, fam := range permFams {
		st.Count("order-sweep:perm-families")
		type probe struct{ h, p string }
		var probes []probe
		for _, q := range fam {
			for k := 0; k < 6; k++ {
				h, p := rt.SplitPattern(rt.Instantiate(rnd, q, false))
				switch k {
				case 1:
					p += "x" // the last static text fails late
				case 2:
					p = rt.PerturbPath(rnd, p)
				case 3:
					if i := strings.LastIndexByte(p, '/'); i > 0 {
						p = p[:i] + "x" + p[i:]
					}
				case 4:
					p += "/y"
				}
				probes = append(probes, probe{h, p})
			}
		}
		sorted := append([]string(nil), fam...)
		sort.Strings(sorted)
		ref, err := fox.New(opts...)
		hx.Fatal(err)
		refOK := true
		for _, q := range sorted {
			if _, err := ref.Handle("GET", q, rt.Noop); err != nil {
				refOK = false
			}
		}
		if !refOK {
			continue
		}
		perm := []int{0, 1, 2, 3, 4}
		var rec func(k int)
		cnt := 0
		rec = func(k int) {
			if k == len(perm) {
				cnt++
				histories++
				a, err := fox.New(opts...)
				hx.Fatal(err)
				var trace []string
				if cnt%2 == 0 {
					// depth / size counters raised by routes that are gone again
					deep := []string{"/z/1/2/3/4/5", "/z/1/2/3/4/6", "/z/1/{k}/3", "/z/1/2/*{r}"}
					for _, q := range deep {
						a.Handle("GET", q, rt.Noop)
					}
					for _, q := range deep {
						a.Delete("GET", q)
					}
					trace = append(trace, "Handle+Delete 4 deep routes under /z")
				}
				for _, i := range perm {
					if _, err := a.Handle("GET", fam[i], rt.Noop); err != nil {
						return // this order is refused (conflict rules are order dependent only for invalid sets)
					}
					trace = append(trace, "Handle "+fam[i])
				}
				ok, diff := true, ""
				for _, pr := range probes {
					for _, m := range []string{"GET", "OPTIONS"} {
						la, lb := rt.Lookup(a, m, pr.h, pr.p), rt.Lookup(ref, m, pr.h, pr.p)
						sa, aa := rt.Serve(a, m, pr.h, pr.p)
						sb, ab := rt.Serve(ref, m, pr.h, pr.p)
						if fmt.Sprint(la) != fmt.Sprint(lb) || sa != sb || aa != ab {
							ok = false
							diff = fmt.Sprintf("%s host=%q path=%q: A=%v %d %q B=%v %d %q", m, pr.h, pr.p, la, sa, aa, lb, sb, ab)
						}
					}
				}
				if !ok {
					failing++
					if failing <= 8 {
						var items []string
						for _, q := range sorted {
							ps, hs, _ := ref.VerifParseRoute(q)
							if hs < 0 {
								hs = 0
							}
							items = append(items, fmt.Sprintf("(%s, %s, %d, %d)", hx.Bytes("GET"), hx.Bytes(q), ps, hs))
						}
						da, db := a.VerifDump(), ref.VerifDump()
						cs.Add(fmt.Sprintf("{| c7_set := %s; c7_treeA := %s; c7_treeB := %s; c7_depthB := %d; c7_maxpB := %d; c7_probes_equal := false |}",
							hx.List(items), rt.RootsTerm(da, nil), rt.RootsTerm(db, nil), db.Depth, db.MaxParams),
							fmt.Sprintf("order sweep (permutations): history [%s] vs fresh fill in sorted order %v; equal=false %s", strings.Join(trace, "; "), sorted, diff))
					}
				}
				return
			}
			for i := k; i < len(perm); i++ {
				perm[k], perm[i] = perm[i], perm[k]
				rec(k + 1)
				perm[k], perm[i] = perm[i], perm[k]
			}
		}
		rec(0)
	}
	st.Count(fmt.Sprintf("order-sweep:histories=%d", histories))
	st.Count(fmt.Sprintf("order-sweep:failing=%d", failing))
}

// readsAgree compares every read API that answers "is (method, pattern) registered / how many routes"
// with the tracker (the set implied by the results of the write calls themselves): Router.Has / Route /
// Len / Iter().Routes / Iter().All on the published state against the committed set, and, when a write
// transaction is open, Txn.Has / Route / Len against the transaction's own set; withSnap additionally
// takes Txn.Snapshot() (which resets the copy-on-write cache, hence not at every step) and a read-only
// transaction. Returns a description of the first disagreement, or "".
func readsAgree(f *fox.Router, txn *fox.Txn, tr *tracker, pool, methods []string, withSnap bool) (bad string) {
	defer func() {
		if r := recover(); r != nil {
			bad = fmt.Sprintf("a read API panicked: %v", r)
		}
	}()
	type view struct {
		name  string
		has   func(m, p string) bool
		route func(m, p string) *fox.Route
		ln    func() int
		set   map[[2]string]bool
	}
	views := []view{{"Router", f.Has, f.Route, f.Len, tr.committed}}
	if txn != nil {
		views = append(views, view{"Txn(write)", txn.Has, txn.Route, txn.Len, tr.cur()})
		if withSnap {
			if snap := txn.Snapshot(); snap != nil {
				defer snap.Abort()
				views = append(views, view{"Txn(write).Snapshot()", snap.Has, snap.Route, snap.Len, tr.cur()})
			}
		}
	}
	if withSnap {
		ro := f.Txn(false)
		defer ro.Abort()
		views = append(views, view{"Txn(false)", ro.Has, ro.Route, ro.Len, tr.committed})
	}
	keys := map[[2]string]bool{}
	for _, v := range views {
		for k := range v.set {
			keys[k] = true
		}
	}
	for _, m := range methods {
		for _, p := range pool {
			keys[[2]string{m, p}] = true
		}
	}
	for _, v := range views {
		if got := v.ln(); got != len(v.set) {
			return fmt.Sprintf("%s.Len()=%d but %d routes are registered in that state", v.name, got, len(v.set))
		}
		for k := range keys {
			if got := v.has(k[0], k[1]); got != v.set[k] {
				return fmt.Sprintf("%s.Has(%s,%q)=%v registered=%v", v.name, k[0], k[1], got, v.set[k])
			}
			r := v.route(k[0], k[1])
			if (r != nil) != v.set[k] || (r != nil && r.Pattern() != k[1]) {
				return fmt.Sprintf("%s.Route(%s,%q) non-nil=%v registered=%v", v.name, k[0], k[1], r != nil, v.set[k])
			}
		}
	}
	// iterators of the open write transaction and of its snapshot (Txn.Iter snapshots the transaction:
	// not at every step)
	if txn != nil && withSnap {
		its := map[string]fox.Iter{"Txn(write).Iter()": txn.Iter()}
		if snap := txn.Snapshot(); snap != nil {
			defer snap.Abort()
			its["Txn(write).Snapshot().Iter()"] = snap.Iter()
		}
		for name, it := range its {
			n := 0
			for m, r := range it.All() {
				n++
				if !tr.cur()[[2]string{m, r.Pattern()}] {
					return fmt.Sprintf("%s.All() yields %s %q which is not registered in the transaction", name, m, r.Pattern())
				}
			}
			if n != len(tr.cur()) {
				return fmt.Sprintf("%s.All() yields %d routes, the transaction holds %d", name, n, len(tr.cur()))
			}
			for k := range keys {
				cnt := 0
				for range it.Routes(func(yield func(string) bool) { yield(k[0]) }, k[1]) {
					cnt++
				}
				want := 0
				if tr.cur()[k] {
					want = 1
				}
				if cnt != want {
					return fmt.Sprintf("%s.Routes(%s,%q) yields %d routes, registered in the transaction=%v", name, k[0], k[1], cnt, tr.cur()[k])
				}
			}
		}
	}
	// iterators of the published state
	it := f.Iter()
	n := 0
	for m, r := range it.All() {
		n++
		if !tr.committed[[2]string{m, r.Pattern()}] {
			return fmt.Sprintf("Iter().All() yields %s %q which is not registered", m, r.Pattern())
		}
	}
	if n != len(tr.committed) {
		return fmt.Sprintf("Iter().All() yields %d routes, %d are registered", n, len(tr.committed))
	}
	// Prefix over SEVERAL methods at once (all registered methods, in the iterator's own order, and the
	// reverse order): exactly the registered routes whose pattern starts with the prefix
	prefixes := map[string]bool{"": true, "/": true}
	for k := range keys {
		prefixes[k[1][:(len(k[1])+1)/2]] = true
		prefixes[k[1]] = true
	}
	var allMethods []string
	for m := range it.Methods() {
		allMethods = append(allMethods, m)
	}
	for _, rev := range []bool{false, true} {
		ms := append([]string(nil), allMethods...)
		if rev {
			for i, j := 0, len(ms)-1; i < j; i, j = i+1, j-1 {
				ms[i], ms[j] = ms[j], ms[i]
			}
		}
		for pre := range prefixes {
			got := map[[2]string]int{}
			for m, r := range it.Prefix(func(yield func(string) bool) {
				for _, m := range ms {
					if !yield(m) {
						return
					}
				}
			}, pre) {
				got[[2]string{m, r.Pattern()}]++
			}
			want := 0
			for k := range tr.committed {
				if strings.HasPrefix(k[1], pre) {
					want++
					if got[k] != 1 {
						return fmt.Sprintf("Iter().Prefix(%v,%q) yields %s %q %d times, it is registered", ms, pre, k[0], k[1], got[k])
					}
				}
			}
			if len(got) != want {
				return fmt.Sprintf("Iter().Prefix(%v,%q) yields %d distinct routes, %d registered routes have that prefix: %v", ms, pre, len(got), want, got)
			}
		}
	}
	for k := range keys {
		cnt := 0
		for m, r := range it.Routes(func(yield func(string) bool) { yield(k[0]) }, k[1]) {
			cnt++
			if m != k[0] || r.Pattern() != k[1] {
				return fmt.Sprintf("Iter().Routes(%s,%q) yields %s %q", k[0], k[1], m, r.Pattern())
			}
		}
		want := 0
		if tr.committed[k] {
			want = 1
		}
		if cnt != want {
			return fmt.Sprintf("Iter().Routes(%s,%q) yields %d routes, registered=%v", k[0], k[1], cnt, tr.committed[k])
		}
	}
	return ""
}
