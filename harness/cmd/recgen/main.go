// recgen: tie A for C14. Reads package fox from repo=<dir> (default $VERIF_REPO,
// /repo), type-checks it with go/types (source importer, stdlib only) and
// rewrites out=<file> (coq/C14/GenRec.v): the bodies of the methods of
// `recorder` (response_writer.go) as Gallina definitions gen_rec_* over the state
// and the underlying-writer automaton of coq/C14/Model.v.
//
// The translation is derived from the syntax tree, statement by statement, in
// source order, through a whitelist of shapes (see docs/GenRec.md); every
// statement becomes one `let` (or one `if`) over r : rstate, u : ustate and the
// locals, so a dropped, added or reordered statement or a changed operator is a
// different term.  Anything outside the whitelist is REFUSED: the definition is
// replaced by a `(* REFUSED: ... *)` stub and the exit status is 3.
//
// usage: recgen repo=<dir> out=<file.v>
package main

import (
	"bytes"
	"crypto/sha256"
	"fmt"
	"go/ast"
	"go/constant"
	"go/importer"
	"go/parser"
	"go/token"
	"go/types"
	"os"
	"path/filepath"
	"sort"
	"strings"
)

const foxPath = "github.com/tigerwill90/fox"

var (
	fset = token.NewFileSet()
	info *types.Info
	pkg  *types.Package
)

// ---------------------------------------------------------------- vocabulary

type ctype int

const (
	tZ ctype = iota
	tNat
	tBool
	tErr
	tBytes
	tSource
	tUstate
	tOpaque
)

var ctypeName = map[ctype]string{tZ: "Z", tNat: "nat", tBool: "bool", tErr: "err", tBytes: "bytes", tSource: "source", tUstate: "ustate"}

type rkind int

const (
	kState    rkind = iota // ()                          -> state
	kGetZ                  // (int)                       -> Z        (no state change allowed)
	kGetBool               // (bool)                      -> bool     (no state change allowed)
	kGetU                  // (http.ResponseWriter)       -> ustate   (no state change allowed)
	kStErr                 // (error)                     -> state * err
	kStNatErr              // (int|int64, error)          -> state * nat * err
	kStErr2                // (net.Conn, *bufio.ReadWriter, error) -> state * err (the two values are not modelled)
)

var rkindType = map[rkind]string{kState: "state", kGetZ: "Z", kGetBool: "bool", kGetU: "ustate",
	kStErr: "state * err", kStNatErr: "state * nat * err", kStErr2: "state * err"}

// methods of *recorder, in output order (callees before callers)
var methods = []struct{ goName, coqName string }{
	{"reset", "gen_rec_reset"},
	{"Status", "gen_rec_status"},
	{"Written", "gen_rec_written"},
	{"Size", "gen_rec_size"},
	{"Unwrap", "gen_rec_unwrap"},
	{"WriteHeader", "gen_rec_write_header"},
	{"Write", "gen_rec_write"},
	{"WriteString", "gen_rec_write_string"},
	{"ReadFrom", "gen_rec_read_from"},
	{"FlushError", "gen_rec_flush_error"},
	{"Push", "gen_rec_push"},
	{"Hijack", "gen_rec_hijack"},
	{"SetReadDeadline", "gen_rec_set_read_deadline"},
	{"SetWriteDeadline", "gen_rec_set_write_deadline"},
	{"EnableFullDuplex", "gen_rec_enable_full_duplex"},
}

// optional interfaces of the underlying writer: the single method of the asserted
// interface type -> capability flag of ucfg, event of the automaton
type capinfo struct {
	method  string
	params  []string
	results []string
	flag    string // boolean term over cfg
	k       string // cap constructor ("" for ReadFrom)
}

var capTable = []capinfo{
	{"ReadFrom", []string{"io.Reader"}, []string{"int64", "error"}, "c_rf cfg", ""},
	{"FlushError", nil, []string{"error"}, "offers_flush_error cfg", "KFlushError"},
	{"Flush", nil, nil, "offers_flusher cfg", "KFlush"},
	{"Hijack", nil, []string{"net.Conn", "*bufio.ReadWriter", "error"}, "c_hij cfg", "KHijack"},
	{"Push", []string{"string", "*net/http.PushOptions"}, []string{"error"}, "c_push cfg", "KPush"},
	{"SetReadDeadline", []string{"time.Time"}, []string{"error"}, "c_rdl cfg", "KRdl"},
	{"SetWriteDeadline", []string{"time.Time"}, []string{"error"}, "c_wdl cfg", "KWdl"},
	{"EnableFullDuplex", nil, []string{"error"}, "c_dup cfg", "KDup"},
}

type refusal struct {
	pos token.Pos
	msg string
}

type local struct {
	name string
	ty   ctype
	used bool
}

type done struct {
	coqName       string
	usesP, usesCf bool
	kind          rkind
	nparams       int
}

// ---------------------------------------------------------------- translator of one method

type tr struct {
	fd      *ast.FuncDecl
	recv    types.Object
	kind    rkind
	named   []types.Object // named results (nil when unnamed)
	locals  map[types.Object]*local
	order   []*local // parameters in declaration order
	caps    map[types.Object]*capinfo
	plumb   map[types.Object]string // "caller" | "bufp" | "buf"
	usesP   bool
	usesCfg bool
	noLocal int // > 0: inside a fall-through block packed as (r, u): locals may not be assigned
}

var (
	translated        = map[string]*done{}
	foxConsts         = map[string]string{} // gen_<name> -> value
	constOrder        []string
	errNotSupportedOK = -1 // -1 unknown, 0 refused, 1 validated
)

const unreachable = "<<MISSING-RETURN>>"

func (t *tr) refuse(n ast.Node, f string, a ...any) {
	panic(refusal{n.Pos(), fmt.Sprintf(f, a...)})
}

func src(n ast.Node) string {
	p := fset.Position(n.Pos())
	e := fset.Position(n.End())
	b, err := os.ReadFile(p.Filename)
	if err != nil || e.Offset > len(b) {
		return "?"
	}
	return strings.Join(strings.Fields(string(b[p.Offset:e.Offset])), " ")
}

func qual(p *types.Package) string { return p.Path() }

func typeStr(t types.Type) string { return types.TypeString(t, qual) }

func indent(s string) string {
	return "  " + strings.ReplaceAll(s, "\n", "\n  ")
}

func unparen(e ast.Expr) ast.Expr {
	for {
		p, ok := e.(*ast.ParenExpr)
		if !ok {
			return e
		}
		e = p.X
	}
}

// ---- recognisers over go/types

func (t *tr) isRecv(e ast.Expr) bool {
	id, ok := unparen(e).(*ast.Ident)
	return ok && info.Uses[id] == t.recv
}

// r.<field> of the recorder
func (t *tr) recvField(e ast.Expr) (string, bool) {
	se, ok := unparen(e).(*ast.SelectorExpr)
	if !ok || !t.isRecv(se.X) {
		return "", false
	}
	sel := info.Selections[se]
	if sel == nil || sel.Kind() != types.FieldVal || len(sel.Index()) != 1 {
		return "", false
	}
	return se.Sel.Name, true
}

func (t *tr) isEmbedded(e ast.Expr) bool {
	f, ok := t.recvField(e)
	return ok && f == "ResponseWriter"
}

func pkgFunc(e ast.Expr, path, name string) bool {
	var id *ast.Ident
	switch f := unparen(e).(type) {
	case *ast.SelectorExpr:
		id = f.Sel
	case *ast.Ident:
		id = f
	default:
		return false
	}
	fn, ok := info.Uses[id].(*types.Func)
	if !ok || fn.Pkg() == nil || fn.Pkg().Path() != path || fn.Name() != name {
		return false
	}
	return fn.Type().(*types.Signature).Recv() == nil
}

func pkgVar(e ast.Expr, path, name string) bool {
	var id *ast.Ident
	switch f := unparen(e).(type) {
	case *ast.SelectorExpr:
		id = f.Sel
	case *ast.Ident:
		id = f
	default:
		return false
	}
	v, ok := info.Uses[id].(*types.Var)
	return ok && v.Pkg() != nil && v.Pkg().Path() == path && v.Name() == name && v.Parent() == v.Pkg().Scope()
}

func capOf(ty types.Type) *capinfo {
	it, ok := ty.Underlying().(*types.Interface)
	if !ok || it.NumMethods() != 1 {
		return nil
	}
	m := it.Method(0)
	sig := m.Type().(*types.Signature)
	for i := range capTable {
		c := &capTable[i]
		if c.method != m.Name() || sig.Params().Len() != len(c.params) || sig.Results().Len() != len(c.results) || sig.Variadic() {
			continue
		}
		ok := true
		for j := 0; j < sig.Params().Len(); j++ {
			ok = ok && typeStr(sig.Params().At(j).Type()) == c.params[j]
		}
		for j := 0; j < sig.Results().Len(); j++ {
			ok = ok && typeStr(sig.Results().At(j).Type()) == c.results[j]
		}
		if ok {
			return c
		}
	}
	return nil
}

// ---- expressions

func fmtZ(v int64) string {
	if v < 0 {
		return fmt.Sprintf("(%d)", v)
	}
	return fmt.Sprintf("%d", v)
}

// integer constant expression -> (term, type); fox constants become gen_<name>
func (t *tr) intConst(e ast.Expr, want ctype) (string, bool) {
	tv, ok := info.Types[e]
	if !ok || tv.Value == nil || tv.Value.Kind() != constant.Int {
		return "", false
	}
	v, exact := constant.Int64Val(tv.Value)
	if !exact {
		t.refuse(e, "integer constant out of range: %s", src(e))
	}
	var id *ast.Ident
	switch x := unparen(e).(type) {
	case *ast.Ident:
		id = x
	case *ast.SelectorExpr:
		id = x.Sel
	case *ast.BasicLit:
	default:
		t.refuse(e, "constant expression that is neither a literal nor a named constant: %s", src(e))
	}
	if want == tNat {
		if id != nil || v < 0 || v > 200 {
			t.refuse(e, "constant %s where a byte count (nat) is expected", src(e))
		}
		return fmt.Sprintf("%d%%nat", v), true
	}
	if id != nil {
		c, ok := info.Uses[id].(*types.Const)
		if !ok {
			t.refuse(e, "not a constant: %s", src(e))
		}
		if c.Pkg() != nil && c.Pkg().Path() == foxPath {
			name := "gen_" + c.Name()
			if _, seen := foxConsts[name]; !seen {
				constOrder = append(constOrder, name)
			}
			foxConsts[name] = fmtZ(v)
			return name, true
		}
		if c.Pkg() != nil && c.Pkg().Path() == "net/http" {
			return fmt.Sprintf("%s (* http.%s *)", fmtZ(v), c.Name()), true
		}
		t.refuse(e, "constant of an unexpected package: %s", src(e))
	}
	return fmtZ(v), true
}

func isIntType(ty types.Type) bool {
	b, ok := ty.Underlying().(*types.Basic)
	return ok && b.Info()&types.IsInteger != 0
}

// native translation of an integer expression: (term, tZ|tNat, isConst)
func (t *tr) intNative(e ast.Expr) (string, ctype, bool) {
	e = unparen(e)
	if tv, ok := info.Types[e]; ok && tv.Value != nil {
		s, ok := t.intConst(e, tZ)
		if !ok {
			t.refuse(e, "not an integer constant: %s", src(e))
		}
		return s, tZ, true
	}
	if f, ok := t.recvField(e); ok {
		switch f {
		case "size":
			return "r_size r", tZ, false
		case "status":
			return "r_status r", tZ, false
		}
		t.refuse(e, "field %s is not an integer field of the recorder", f)
	}
	switch x := e.(type) {
	case *ast.Ident:
		if l := t.locals[info.Uses[x]]; l != nil && (l.ty == tZ || l.ty == tNat) {
			l.used = true
			return l.name, l.ty, false
		}
		t.refuse(e, "unknown integer variable %s", x.Name)
	case *ast.CallExpr:
		if id, ok := x.Fun.(*ast.Ident); ok && len(x.Args) == 1 {
			if b, ok := info.Uses[id].(*types.Builtin); ok && b.Name() == "len" {
				return "List.length " + t.bytesExpr(x.Args[0]), tNat, false
			}
		}
		if tv, ok := info.Types[x.Fun]; ok && tv.IsType() && isIntType(tv.Type) && len(x.Args) == 1 {
			// integer conversion (int(n), int64(n)): values are byte counts, no truncation modelled
			if at, ok := info.Types[x.Args[0]]; ok && isIntType(at.Type) {
				s, ty, c := t.intNative(x.Args[0])
				return s, ty, c
			}
		}
		t.refuse(e, "unrecognised call in an integer expression: %s", src(e))
	case *ast.BinaryExpr:
		if x.Op == token.ADD || x.Op == token.SUB {
			a, ta, _ := t.intNative(x.X)
			b, tb, _ := t.intNative(x.Y)
			op := "+"
			if x.Op == token.SUB {
				op = "-"
			}
			if ta == tNat && tb == tNat {
				if x.Op == token.SUB {
					t.refuse(e, "subtraction of byte counts: %s", src(e))
				}
				return fmt.Sprintf("(%s + %s)%%nat", a, b), tNat, false
			}
			return fmt.Sprintf("%s %s %s", coerce(a, ta, tZ), op, coerce(b, tb, tZ)), tZ, false
		}
	}
	t.refuse(e, "unrecognised integer expression: %s", src(e))
	return "", tZ, false
}

func coerce(s string, from, to ctype) string {
	if from == to {
		return s
	}
	if from == tNat && to == tZ {
		if strings.ContainsAny(s, " ") {
			return "Z.of_nat (" + s + ")"
		}
		return "Z.of_nat " + s
	}
	panic(refusal{token.NoPos, "cannot use a Z where a nat is expected: " + s})
}

func atom(s string) string {
	if strings.ContainsAny(s, " ") && !(strings.HasPrefix(s, "(") && strings.HasSuffix(s, ")") && strings.Count(s, "(") == 1) {
		return "(" + s + ")"
	}
	return s
}

func (t *tr) intExpr(e ast.Expr, want ctype) string {
	if tv, ok := info.Types[unparen(e)]; ok && tv.Value != nil {
		s, ok := t.intConst(unparen(e), want)
		if !ok {
			t.refuse(e, "not an integer constant: %s", src(e))
		}
		return s
	}
	s, ty, _ := t.intNative(e)
	if ty == tZ && want == tNat {
		t.refuse(e, "%s is a Z where a byte count (nat) is expected", src(e))
	}
	return coerce(s, ty, want)
}

func (t *tr) bytesExpr(e ast.Expr) string {
	e = unparen(e)
	switch x := e.(type) {
	case *ast.Ident:
		if l := t.locals[info.Uses[x]]; l != nil && l.ty == tBytes {
			l.used = true
			return l.name
		}
	case *ast.CallExpr:
		// []byte(s) / string(b)
		if tv, ok := info.Types[x.Fun]; ok && tv.IsType() && len(x.Args) == 1 {
			ts := typeStr(tv.Type)
			if ts == "[]byte" || ts == "string" {
				return t.bytesExpr(x.Args[0])
			}
		}
	}
	t.refuse(e, "unrecognised byte-string expression: %s", src(e))
	return ""
}

func (t *tr) sourceExpr(e ast.Expr) string {
	if x, ok := unparen(e).(*ast.Ident); ok {
		if l := t.locals[info.Uses[x]]; l != nil && l.ty == tSource {
			l.used = true
			return l.name
		}
	}
	t.refuse(e, "unrecognised io.Reader expression: %s", src(e))
	return ""
}

func isErrorType(ty types.Type) bool { return ty != nil && typeStr(ty) == "error" }

func (t *tr) errExpr(e ast.Expr) string {
	e = unparen(e)
	if tv, ok := info.Types[e]; ok && tv.IsNil() {
		return "ENil"
	}
	if pkgVar(e, "net/http", "ErrHijacked") {
		return "EHijacked"
	}
	if pkgVar(e, "net/http", "ErrNotSupported") {
		return "ENotSupported"
	}
	switch x := e.(type) {
	case *ast.Ident:
		if l := t.locals[info.Uses[x]]; l != nil && l.ty == tErr {
			l.used = true
			return l.name
		}
	case *ast.CallExpr:
		if pkgFunc(x.Fun, foxPath, "ErrNotSupported") && len(x.Args) == 0 {
			if errNotSupportedOK != 1 {
				t.refuse(e, "fox.ErrNotSupported is not `return fmt.Errorf(\"%%w\", http.ErrNotSupported)`")
			}
			return "ENotSupported"
		}
	}
	t.refuse(e, "unrecognised error expression: %s", src(e))
	return ""
}

func (t *tr) boolExpr(e ast.Expr) string {
	e = unparen(e)
	if tv, ok := info.Types[e]; ok && tv.Value != nil && tv.Value.Kind() == constant.Bool {
		if _, isId := e.(*ast.Ident); !isId {
			t.refuse(e, "constant boolean expression: %s", src(e))
		}
		if constant.BoolVal(tv.Value) {
			return "true"
		}
		return "false"
	}
	if f, ok := t.recvField(e); ok {
		if f == "hijacked" {
			return "r_hij r"
		}
		t.refuse(e, "field %s is not a boolean field of the recorder", f)
	}
	switch x := e.(type) {
	case *ast.UnaryExpr:
		if x.Op == token.NOT {
			return "negb " + atom(t.boolExpr(x.X))
		}
	case *ast.BinaryExpr:
		switch x.Op {
		case token.LAND:
			return fmt.Sprintf("%s && %s", atom(t.boolExpr(x.X)), atom(t.boolExpr(x.Y)))
		case token.LOR:
			return fmt.Sprintf("%s || %s", atom(t.boolExpr(x.X)), atom(t.boolExpr(x.Y)))
		case token.EQL, token.NEQ, token.LSS, token.LEQ, token.GTR, token.GEQ:
			lt := info.Types[x.X].Type
			rt := info.Types[x.Y].Type
			if isErrorType(lt) || isErrorType(rt) {
				// err == nil / err != nil
				var v ast.Expr
				if info.Types[unparen(x.Y)].IsNil() {
					v = x.X
				} else if info.Types[unparen(x.X)].IsNil() {
					v = x.Y
				}
				if v == nil || (x.Op != token.EQL && x.Op != token.NEQ) {
					t.refuse(e, "errors are only compared with nil: %s", src(e))
				}
				s := "is_nil " + atom(t.errExpr(v))
				if x.Op == token.NEQ {
					s = "negb (" + s + ")"
				}
				return s
			}
			if !isIntType(lt) || !isIntType(rt) {
				t.refuse(e, "comparison of non-integers: %s", src(e))
			}
			a, ta, ca := t.intNative(x.X)
			b, tb, cb := t.intNative(x.Y)
			// a constant takes the type of the other operand
			if ca && !cb && tb == tNat {
				a, ta = t.intExpr(x.X, tNat), tNat
			}
			if cb && !ca && ta == tNat {
				b, tb = t.intExpr(x.Y, tNat), tNat
			}
			if ta == tNat && tb == tNat {
				fn := map[token.Token]string{token.EQL: "Nat.eqb %s %s", token.NEQ: "negb (Nat.eqb %s %s)", token.LSS: "Nat.ltb %s %s",
					token.LEQ: "Nat.leb %s %s", token.GTR: "Nat.ltb %[2]s %[1]s", token.GEQ: "Nat.leb %[2]s %[1]s"}[x.Op]
				return fmt.Sprintf(fn, atom(a), atom(b))
			}
			a, b = coerce(a, ta, tZ), coerce(b, tb, tZ)
			fn := map[token.Token]string{token.EQL: "%s =? %s", token.NEQ: "negb (%s =? %s)", token.LSS: "%s <? %s",
				token.LEQ: "%s <=? %s", token.GTR: "%s >? %s", token.GEQ: "%s >=? %s"}[x.Op]
			return fmt.Sprintf(fn, a, b)
		}
	}
	t.refuse(e, "unrecognised boolean expression: %s", src(e))
	return ""
}

// ---- calls with an effect on (r, u)

type ckind int

const (
	cNone ckind = iota
	cU          // ustate
	cUE         // ustate * err
	cUNE        // ustate * nat * err
	cSt         // state
	cStNE       // state * nat * err
)

// passThrough: the arguments of a delegated optional method must be the
// parameters of the enclosing method, in order (they are not modelled)
func (t *tr) passThrough(ce *ast.CallExpr) {
	ps := t.fd.Type.Params.List
	var objs []types.Object
	for _, f := range ps {
		for _, n := range f.Names {
			objs = append(objs, info.Defs[n])
		}
	}
	if len(ce.Args) != len(objs) || ce.Ellipsis != token.NoPos {
		t.refuse(ce, "delegated call does not pass the method's parameters through: %s", src(ce))
	}
	for i, a := range ce.Args {
		id, ok := unparen(a).(*ast.Ident)
		if !ok || info.Uses[id] != objs[i] {
			t.refuse(ce, "delegated call does not pass the method's parameters through: %s", src(ce))
		}
	}
}

func (t *tr) call(ce *ast.CallExpr) (ckind, string) {
	if ce.Ellipsis != token.NoPos {
		return cNone, ""
	}
	se, ok := unparen(ce.Fun).(*ast.SelectorExpr)
	if !ok {
		return cNone, ""
	}
	// methods of the embedded http.ResponseWriter
	if t.isEmbedded(se.X) {
		sel := info.Selections[se]
		if sel == nil || sel.Kind() != types.MethodVal {
			t.refuse(ce, "unrecognised use of the embedded writer: %s", src(ce))
		}
		switch se.Sel.Name {
		case "WriteHeader":
			if len(ce.Args) == 1 {
				return cU, "uw_header u " + atom(t.intExpr(ce.Args[0], tZ))
			}
		case "Write":
			if len(ce.Args) == 1 {
				t.usesP = true
				return cUNE, "uw_write P u " + atom(t.bytesExpr(ce.Args[0]))
			}
		}
		t.refuse(ce, "call on the embedded writer outside the whitelist: %s", src(ce))
	}
	// methods of an asserted optional interface
	if id, ok := unparen(se.X).(*ast.Ident); ok {
		if c := t.caps[info.Uses[id]]; c != nil {
			if se.Sel.Name != c.method {
				t.refuse(ce, "method %s called on a value asserted to offer %s", se.Sel.Name, c.method)
			}
			t.usesP = true
			if c.method == "ReadFrom" {
				if len(ce.Args) != 1 {
					t.refuse(ce, "ReadFrom arity")
				}
				return cUNE, "uw_read_from P u " + atom(t.sourceExpr(ce.Args[0]))
			}
			t.passThrough(ce)
			return cUE, "uw_cap P u " + c.k
		}
	}
	// the recorder's own methods
	if t.isRecv(se.X) {
		sel := info.Selections[se]
		if sel != nil && sel.Kind() == types.MethodVal && len(sel.Index()) == 1 {
			d := translated[se.Sel.Name]
			if d == nil {
				t.refuse(ce, "call of recorder.%s, which is not translated (yet)", se.Sel.Name)
			}
			switch se.Sel.Name {
			case "WriteHeader":
				if len(ce.Args) == 1 && !d.usesP && !d.usesCf && d.nparams == 1 {
					return cSt, d.coqName + " (r, u) " + atom(t.intExpr(ce.Args[0], tZ))
				}
			}
			t.refuse(ce, "call of recorder.%s outside the whitelist: %s", se.Sel.Name, src(ce))
		}
		t.refuse(ce, "promoted method of the embedded writer called through the recorder: %s", src(ce))
	}
	// io.WriteString(r.ResponseWriter, s)
	if pkgFunc(se, "io", "WriteString") && len(ce.Args) == 2 && t.isEmbedded(ce.Args[0]) {
		t.usesP, t.usesCfg = true, true
		return cUNE, "uw_write_string P cfg u " + atom(t.bytesExpr(ce.Args[1]))
	}
	// io.CopyBuffer(onlyWrite{r}, src, buf)
	if pkgFunc(se, "io", "CopyBuffer") && len(ce.Args) == 3 {
		cl, ok := unparen(ce.Args[0]).(*ast.CompositeLit)
		if !ok || len(cl.Elts) != 1 || !t.isRecv(cl.Elts[0]) || !onlyWriteOK(info.Types[cl].Type) {
			t.refuse(ce, "io.CopyBuffer destination is not onlyWrite{<receiver>} (a struct embedding only io.Writer): %s", src(ce))
		}
		bid, ok := unparen(ce.Args[2]).(*ast.Ident)
		if !ok || t.plumb[info.Uses[bid]] != "buf" {
			t.refuse(ce, "io.CopyBuffer buffer is not the pooled copy buffer: %s", src(ce))
		}
		d := translated["Write"]
		if d == nil || !d.usesP || d.usesCf || d.nparams != 1 || d.kind != kStNatErr {
			t.refuse(ce, "io.CopyBuffer onto the recorder needs the translated recorder.Write")
		}
		t.usesP = true
		return cStNE, "io_copy_buffer (" + d.coqName + " P) (r, u) " + atom(t.sourceExpr(ce.Args[1]))
	}
	return cNone, ""
}

func onlyWriteOK(ty types.Type) bool {
	if ty == nil {
		return false
	}
	n, ok := ty.(*types.Named)
	if !ok || n.Obj().Pkg() == nil || n.Obj().Pkg().Path() != foxPath || n.NumMethods() != 0 {
		return false
	}
	s, ok := n.Underlying().(*types.Struct)
	return ok && s.NumFields() == 1 && s.Field(0).Embedded() && typeStr(s.Field(0).Type()) == "io.Writer"
}

// ---- statements

func (t *tr) lhsLocal(e ast.Expr, want ctype, define bool) string {
	id, ok := unparen(e).(*ast.Ident)
	if !ok {
		t.refuse(e, "assignment target is not a variable: %s", src(e))
	}
	if id.Name == "_" {
		return "_"
	}
	if t.noLocal > 0 {
		t.refuse(e, "assignment to the local %s inside a block whose effect is packed as (r, u)", id.Name)
	}
	var obj types.Object
	if define {
		obj = info.Defs[id]
		if obj == nil {
			obj = info.Uses[id] // redeclaration in a := with another new variable
		}
	} else {
		obj = info.Uses[id]
	}
	l := t.locals[obj]
	if l == nil {
		if !define {
			t.refuse(e, "assignment to an unknown variable %s", id.Name)
		}
		l = &local{name: "v_" + id.Name, ty: want}
		t.locals[obj] = l
	}
	if l.ty != want {
		t.refuse(e, "variable %s has the wrong type for this assignment", id.Name)
	}
	for _, p := range t.order {
		if p == l {
			t.refuse(e, "assignment to the parameter %s", id.Name)
		}
	}
	return l.name
}

func (t *tr) stateWrite(n ast.Node) {
	if t.kind == kGetZ || t.kind == kGetBool || t.kind == kGetU {
		t.refuse(n, "a getter may not change the recorder or call the underlying writer: %s", src(n))
	}
}

// is this statement log output only?  caller := relevantCaller() / log.Printf("..", caller.X..)
func (t *tr) logging(s ast.Stmt) bool {
	switch x := s.(type) {
	case *ast.AssignStmt:
		if x.Tok == token.DEFINE && len(x.Lhs) == 1 && len(x.Rhs) == 1 {
			ce, ok := x.Rhs[0].(*ast.CallExpr)
			if ok && len(ce.Args) == 0 && pkgFunc(ce.Fun, foxPath, "relevantCaller") {
				if id, ok := x.Lhs[0].(*ast.Ident); ok && info.Defs[id] != nil {
					t.plumb[info.Defs[id]] = "caller"
					return true
				}
			}
		}
	case *ast.ExprStmt:
		ce, ok := x.X.(*ast.CallExpr)
		if !ok || !pkgFunc(ce.Fun, "log", "Printf") || len(ce.Args) == 0 || ce.Ellipsis != token.NoPos {
			return false
		}
		if bl, ok := ce.Args[0].(*ast.BasicLit); !ok || bl.Kind != token.STRING {
			return false
		}
		for _, a := range ce.Args[1:] {
			if !t.callerField(a) {
				if c2, ok := a.(*ast.CallExpr); !ok || !pkgFunc(c2.Fun, "path", "Base") || len(c2.Args) != 1 || !t.callerField(c2.Args[0]) {
					return false
				}
			}
		}
		return true
	}
	return false
}

func (t *tr) callerField(e ast.Expr) bool {
	se, ok := e.(*ast.SelectorExpr)
	if !ok {
		return false
	}
	id, ok := se.X.(*ast.Ident)
	return ok && t.plumb[info.Uses[id]] == "caller" && (se.Sel.Name == "Function" || se.Sel.Name == "File" || se.Sel.Name == "Line")
}

// pooled copy buffer: bufp := copyBufPool.Get().(*[]byte) / buf := *bufp / copyBufPool.Put(bufp)
func (t *tr) plumbing(s ast.Stmt) bool {
	switch x := s.(type) {
	case *ast.AssignStmt:
		if x.Tok != token.DEFINE || len(x.Lhs) != 1 || len(x.Rhs) != 1 {
			return false
		}
		id, ok := x.Lhs[0].(*ast.Ident)
		if !ok || info.Defs[id] == nil {
			return false
		}
		if ta, ok := x.Rhs[0].(*ast.TypeAssertExpr); ok && ta.Type != nil && typeStr(info.Types[ta.Type].Type) == "*[]byte" {
			if ce, ok := ta.X.(*ast.CallExpr); ok && len(ce.Args) == 0 {
				if se, ok := ce.Fun.(*ast.SelectorExpr); ok && se.Sel.Name == "Get" && pkgVar(se.X, foxPath, "copyBufPool") {
					t.plumb[info.Defs[id]] = "bufp"
					return true
				}
			}
		}
		if st, ok := x.Rhs[0].(*ast.StarExpr); ok {
			if pid, ok := st.X.(*ast.Ident); ok && t.plumb[info.Uses[pid]] == "bufp" {
				t.plumb[info.Defs[id]] = "buf"
				return true
			}
		}
	case *ast.ExprStmt:
		ce, ok := x.X.(*ast.CallExpr)
		if !ok || len(ce.Args) != 1 {
			return false
		}
		if se, ok := ce.Fun.(*ast.SelectorExpr); ok && se.Sel.Name == "Put" && pkgVar(se.X, foxPath, "copyBufPool") {
			if pid, ok := ce.Args[0].(*ast.Ident); ok && t.plumb[info.Uses[pid]] == "bufp" {
				return true
			}
		}
	}
	return false
}

func containsReturn(n ast.Node) bool {
	found := false
	if n == nil {
		return false
	}
	ast.Inspect(n, func(m ast.Node) bool {
		if _, ok := m.(*ast.ReturnStmt); ok {
			found = true
		}
		if _, ok := m.(*ast.FuncLit); ok {
			return false
		}
		return !found
	})
	return found
}

func (t *tr) seq(stmts []ast.Stmt, tail string) string {
	if len(stmts) == 0 {
		return tail
	}
	return t.stmt(stmts[0], func() string { return t.seq(stmts[1:], tail) })
}

func (t *tr) bindCall(k ckind, term string, names ...string) string {
	switch k {
	case cU:
		return "let u := " + term + " in"
	case cUE:
		return fmt.Sprintf("let '(u, %s) := %s in", names[0], term)
	case cUNE:
		return fmt.Sprintf("let '(u, %s, %s) := %s in", names[0], names[1], term)
	case cSt:
		return "let '(r, u) := " + term + " in"
	case cStNE:
		return fmt.Sprintf("let '((r, u), %s, %s) := %s in", names[0], names[1], term)
	}
	panic("bindCall")
}

func (t *tr) ret(vals ...string) string {
	switch t.kind {
	case kState:
		return "(r, u)"
	case kStErr, kStErr2:
		return "((r, u), " + vals[0] + ")"
	case kStNatErr:
		return "((r, u), " + vals[0] + ", " + vals[1] + ")"
	}
	return vals[0]
}

func (t *tr) bareReturn(n ast.Node) string {
	switch t.kind {
	case kState:
		return "(r, u)"
	case kStErr, kStNatErr:
		if t.named != nil {
			var vs []string
			for _, o := range t.named {
				l := t.locals[o]
				l.used = true
				vs = append(vs, l.name)
			}
			return t.ret(vs...)
		}
	}
	t.refuse(n, "bare return without named results")
	return ""
}

func (t *tr) ifForm(n ast.Node, cond string, body *ast.BlockStmt, els ast.Stmt, rest func() string) string {
	var elseStmts []ast.Stmt
	switch e := els.(type) {
	case nil:
	case *ast.BlockStmt:
		elseStmts = e.List
	case *ast.IfStmt:
		elseStmts = []ast.Stmt{e}
	default:
		t.refuse(n, "unrecognised else branch")
	}
	if !containsReturn(body) && (els == nil || !containsReturn(els)) {
		// both branches fall through: their effect is the new (r, u)
		t.stateWrite(n)
		t.noLocal++
		a := t.seq(body.List, "(r, u)")
		b := t.seq(elseStmts, "(r, u)")
		t.noLocal--
		return fmt.Sprintf("let '(r, u) :=\n  if %s then\n%s\n  else\n%s in\n%s", cond, indent(indent(a)), indent(indent(b)), rest())
	}
	// a branch returns: the continuation is placed in the branches that fall through
	r := rest()
	a := t.seq(body.List, r)
	b := t.seq(elseStmts, r)
	return fmt.Sprintf("if %s then\n%s\nelse\n%s", cond, indent(a), b)
}

func (t *tr) stmt(s ast.Stmt, rest func() string) string {
	if t.logging(s) || t.plumbing(s) {
		return rest()
	}
	switch x := s.(type) {
	case *ast.EmptyStmt:
		return rest()

	case *ast.ReturnStmt:
		if len(x.Results) == 0 {
			return t.bareReturn(x)
		}
		// return <delegated call>
		if len(x.Results) == 1 {
			if ce, ok := unparen(x.Results[0]).(*ast.CallExpr); ok {
				if k, term := t.call(ce); k != cNone {
					t.stateWrite(x)
					switch {
					case k == cUE && (t.kind == kStErr || t.kind == kStErr2):
						return t.bindCall(k, term, "ret_err") + "\n" + t.ret("ret_err")
					case (k == cUNE || k == cStNE) && t.kind == kStNatErr:
						return t.bindCall(k, term, "ret_n", "ret_err") + "\n" + t.ret("ret_n", "ret_err")
					}
					t.refuse(x, "returned call does not fit the result type: %s", src(x))
				}
			}
		}
		switch t.kind {
		case kGetZ:
			if len(x.Results) == 1 {
				return t.intExpr(x.Results[0], tZ)
			}
		case kGetBool:
			if len(x.Results) == 1 {
				return t.boolExpr(x.Results[0])
			}
		case kGetU:
			if len(x.Results) == 1 && t.isEmbedded(x.Results[0]) {
				return "u"
			}
		case kStErr:
			if len(x.Results) == 1 {
				return t.ret(t.errExpr(x.Results[0]))
			}
		case kStErr2:
			if len(x.Results) == 3 && info.Types[unparen(x.Results[0])].IsNil() && info.Types[unparen(x.Results[1])].IsNil() {
				return t.ret(t.errExpr(x.Results[2]))
			}
		case kStNatErr:
			if len(x.Results) == 2 {
				return t.ret(t.intExpr(x.Results[0], tNat), t.errExpr(x.Results[1]))
			}
		}
		t.refuse(x, "unrecognised return: %s", src(x))

	case *ast.ExprStmt:
		ce, ok := unparen(x.X).(*ast.CallExpr)
		if !ok {
			t.refuse(x, "unrecognised statement: %s", src(x))
		}
		k, term := t.call(ce)
		if k == cNone {
			t.refuse(x, "unrecognised call statement: %s", src(x))
		}
		t.stateWrite(x)
		return t.bindCall(k, term, "_", "_") + "\n" + rest()

	case *ast.IncDecStmt:
		t.refuse(x, "unrecognised statement: %s", src(x))

	case *ast.AssignStmt:
		// n, err = <call> / n, err := <call> / err = <call>
		if len(x.Rhs) == 1 && (x.Tok == token.ASSIGN || x.Tok == token.DEFINE) {
			if ce, ok := unparen(x.Rhs[0]).(*ast.CallExpr); ok {
				if k, term := t.call(ce); k != cNone {
					t.stateWrite(x)
					def := x.Tok == token.DEFINE
					switch {
					case (k == cUNE || k == cStNE) && len(x.Lhs) == 2:
						return t.bindCall(k, term, t.lhsLocal(x.Lhs[0], tNat, def), t.lhsLocal(x.Lhs[1], tErr, def)) + "\n" + rest()
					case k == cUE && len(x.Lhs) == 1:
						return t.bindCall(k, term, t.lhsLocal(x.Lhs[0], tErr, def)) + "\n" + rest()
					}
					t.refuse(x, "call results do not fit the assignment: %s", src(x))
				}
			}
		}
		if len(x.Lhs) != 1 || len(x.Rhs) != 1 {
			t.refuse(x, "unrecognised assignment: %s", src(x))
		}
		f, ok := t.recvField(x.Lhs[0])
		if !ok {
			t.refuse(x, "unrecognised assignment (only fields of the recorder are assigned): %s", src(x))
		}
		t.stateWrite(x)
		switch {
		case (f == "size" || f == "status") && x.Tok == token.ASSIGN:
			return fmt.Sprintf("let r := set_%s r %s in\n%s", f, atom(t.intExpr(x.Rhs[0], tZ)), rest())
		case (f == "size" || f == "status") && (x.Tok == token.ADD_ASSIGN || x.Tok == token.SUB_ASSIGN):
			op := "+"
			if x.Tok == token.SUB_ASSIGN {
				op = "-"
			}
			return fmt.Sprintf("let r := set_%s r (r_%s r %s %s) in\n%s", f, f, op, atom(t.intExpr(x.Rhs[0], tZ)), rest())
		case f == "hijacked" && x.Tok == token.ASSIGN:
			return fmt.Sprintf("let r := set_hij r %s in\n%s", atom(t.boolExpr(x.Rhs[0])), rest())
		case f == "ResponseWriter" && x.Tok == token.ASSIGN:
			if id, ok := unparen(x.Rhs[0]).(*ast.Ident); ok {
				if l := t.locals[info.Uses[id]]; l != nil && l.ty == tUstate {
					l.used = true
					return fmt.Sprintf("let u := %s in\n%s", l.name, rest())
				}
			}
		}
		t.refuse(x, "unrecognised assignment: %s", src(x))

	case *ast.IfStmt:
		// log output guarded by a pure condition
		if x.Init == nil && x.Else == nil && len(x.Body.List) > 0 {
			all := true
			for _, b := range x.Body.List {
				all = all && t.logging(b)
			}
			if all {
				_ = t.boolExpr(x.Cond) // must be a recognised pure condition
				return rest()
			}
		}
		if x.Init == nil {
			return t.ifForm(x, t.boolExpr(x.Cond), x.Body, x.Else, rest)
		}
		// if v, ok := r.ResponseWriter.(I); ok { .. }
		as, ok := x.Init.(*ast.AssignStmt)
		if !ok || as.Tok != token.DEFINE || len(as.Lhs) != 2 || len(as.Rhs) != 1 {
			t.refuse(x, "unrecognised if-initialiser: %s", src(x.Init))
		}
		ta, ok := as.Rhs[0].(*ast.TypeAssertExpr)
		if !ok || ta.Type == nil || !t.isEmbedded(ta.X) {
			t.refuse(x, "unrecognised if-initialiser: %s", src(x.Init))
		}
		c := capOf(info.Types[ta.Type].Type)
		if c == nil {
			t.refuse(x, "type assertion to an interface that is not a modelled capability: %s", src(ta.Type))
		}
		vid, ok1 := as.Lhs[0].(*ast.Ident)
		okid, ok2 := as.Lhs[1].(*ast.Ident)
		cid, ok3 := unparen(x.Cond).(*ast.Ident)
		if !ok1 || !ok2 || !ok3 || info.Defs[okid] == nil || info.Uses[cid] != info.Defs[okid] {
			t.refuse(x, "the condition is not the ok of the type assertion: %s", src(x.Cond))
		}
		if x.Else != nil {
			t.refuse(x, "else branch after a type assertion")
		}
		if vid.Name != "_" {
			t.caps[info.Defs[vid]] = c
		}
		t.usesCfg = true
		return t.ifForm(x, c.flag, x.Body, nil, rest)

	case *ast.TypeSwitchStmt:
		if x.Init != nil {
			t.refuse(x, "type switch with an initialiser")
		}
		var tax ast.Expr
		switch a := x.Assign.(type) {
		case *ast.AssignStmt:
			if len(a.Rhs) == 1 {
				if ta, ok := a.Rhs[0].(*ast.TypeAssertExpr); ok {
					tax = ta.X
				}
			}
		case *ast.ExprStmt:
			if ta, ok := a.X.(*ast.TypeAssertExpr); ok {
				tax = ta.X
			}
		}
		if tax == nil || !t.isEmbedded(tax) {
			t.refuse(x, "type switch on something else than the embedded writer")
		}
		t.usesCfg = true
		r := rest()
		type arm struct{ cond, body string }
		var arms []arm
		dflt := r
		for _, cl := range x.Body.List {
			cc := cl.(*ast.CaseClause)
			if containsBreakOrFallthrough(cc) {
				t.refuse(cc, "break / fallthrough in a type switch")
			}
			if cc.List == nil {
				dflt = t.seq(cc.Body, r)
				continue
			}
			if len(cc.List) != 1 {
				t.refuse(cc, "case with several types")
			}
			c := capOf(info.Types[cc.List[0]].Type)
			if c == nil {
				t.refuse(cc, "case type is not a modelled capability: %s", src(cc.List[0]))
			}
			if obj := info.Implicits[cc]; obj != nil {
				t.caps[obj] = c
			}
			arms = append(arms, arm{c.flag, t.seq(cc.Body, r)})
		}
		out := dflt
		for i := len(arms) - 1; i >= 0; i-- {
			out = fmt.Sprintf("if %s then\n%s\nelse\n%s", arms[i].cond, indent(arms[i].body), out)
		}
		return out
	}
	t.refuse(s, "unrecognised statement: %s", src(s))
	return ""
}

func containsBreakOrFallthrough(n ast.Node) bool {
	found := false
	ast.Inspect(n, func(m ast.Node) bool {
		if b, ok := m.(*ast.BranchStmt); ok && (b.Tok == token.BREAK || b.Tok == token.FALLTHROUGH || b.Tok == token.GOTO) {
			found = true
		}
		return !found
	})
	return found
}

// ---- one method

func paramType(ty types.Type) ctype {
	switch typeStr(ty) {
	case "int":
		return tZ
	case "[]byte", "string":
		return tBytes
	case "io.Reader":
		return tSource
	case "net/http.ResponseWriter":
		return tUstate
	}
	return tOpaque
}

func resultKind(sig *types.Signature) (rkind, bool) {
	var rs []string
	for i := 0; i < sig.Results().Len(); i++ {
		rs = append(rs, typeStr(sig.Results().At(i).Type()))
	}
	switch strings.Join(rs, ",") {
	case "":
		return kState, true
	case "int":
		return kGetZ, true
	case "bool":
		return kGetBool, true
	case "net/http.ResponseWriter":
		return kGetU, true
	case "error":
		return kStErr, true
	case "int,error", "int64,error":
		return kStNatErr, true
	case "net.Conn,*bufio.ReadWriter,error":
		return kStErr2, true
	}
	return 0, false
}

func translate(fd *ast.FuncDecl, coqName string) (text string, d *done, err *refusal) {
	defer func() {
		if x := recover(); x != nil {
			if r, ok := x.(refusal); ok {
				if r.pos == token.NoPos {
					r.pos = fd.Pos()
				}
				err = &r
				return
			}
			panic(x)
		}
	}()
	t := &tr{fd: fd, locals: map[types.Object]*local{}, caps: map[types.Object]*capinfo{}, plumb: map[types.Object]string{}}
	fn := info.Defs[fd.Name].(*types.Func)
	sig := fn.Type().(*types.Signature)
	if len(fd.Recv.List[0].Names) == 1 {
		t.recv = info.Defs[fd.Recv.List[0].Names[0]]
	}
	if _, ok := sig.Recv().Type().(*types.Pointer); !ok {
		t.refuse(fd, "value receiver")
	}
	k, ok := resultKind(sig)
	if !ok {
		t.refuse(fd, "unrecognised result types: %s", typeStr(sig.Results()))
	}
	t.kind = k
	if sig.Variadic() {
		t.refuse(fd, "variadic method")
	}
	for i := 0; i < sig.Params().Len(); i++ {
		p := sig.Params().At(i)
		l := &local{name: "v_" + p.Name(), ty: paramType(p.Type())}
		if p.Name() != "" && p.Name() != "_" {
			t.locals[p] = l
		}
		t.order = append(t.order, l)
	}
	pre := ""
	if sig.Results().Len() > 0 && sig.Results().At(0).Name() != "" {
		if k != kStNatErr && k != kStErr {
			t.refuse(fd, "named results of an unexpected shape")
		}
		tys := []ctype{tNat, tErr}
		zero := []string{"0%nat", "ENil"}
		if k == kStErr {
			tys, zero = tys[1:], zero[1:]
		}
		for i := 0; i < sig.Results().Len(); i++ {
			o := sig.Results().At(i)
			if o.Name() == "_" {
				t.refuse(fd, "blank named result")
			}
			t.locals[o] = &local{name: "v_" + o.Name(), ty: tys[i]}
			t.named = append(t.named, o)
			pre += fmt.Sprintf("let v_%s := %s in\n", o.Name(), zero[i])
		}
	}
	tail := unreachable
	if k == kState {
		tail = "(r, u)"
	}
	body := t.seq(fd.Body.List, tail)
	if strings.Contains(body, unreachable) {
		t.refuse(fd, "a path reaches the end of the body without a return")
	}
	var ps []string
	if t.usesP {
		ps = append(ps, "(P : policy)")
	}
	if t.usesCfg {
		ps = append(ps, "(cfg : ucfg)")
	}
	ps = append(ps, "(st : state)")
	np := 0
	for _, l := range t.order {
		if l.used && l.ty != tOpaque {
			ps = append(ps, fmt.Sprintf("(%s : %s)", l.name, ctypeName[l.ty]))
			np++
		}
	}
	text = fmt.Sprintf("Definition %s %s : %s :=\n  let '(r, u) := st in\n%s.\n", coqName, strings.Join(ps, " "), rkindType[k], indent(pre+body))
	return text, &done{coqName: coqName, usesP: t.usesP, usesCf: t.usesCfg, kind: k, nparams: np}, nil
}

// fox.ErrNotSupported must be: return fmt.Errorf("%w", http.ErrNotSupported)
func checkErrNotSupported(fd *ast.FuncDecl) bool {
	if fd.Recv != nil || fd.Body == nil || len(fd.Body.List) != 1 || fd.Type.Params.NumFields() != 0 {
		return false
	}
	rs, ok := fd.Body.List[0].(*ast.ReturnStmt)
	if !ok || len(rs.Results) != 1 {
		return false
	}
	ce, ok := rs.Results[0].(*ast.CallExpr)
	if !ok || !pkgFunc(ce.Fun, "fmt", "Errorf") || len(ce.Args) != 2 {
		return false
	}
	bl, ok := ce.Args[0].(*ast.BasicLit)
	return ok && bl.Value == `"%w"` && pkgVar(ce.Args[1], "net/http", "ErrNotSupported")
}

// ---------------------------------------------------------------- main

func die(code int, f string, a ...any) {
	fmt.Fprintf(os.Stderr, "recgen: "+f+"\n", a...)
	os.Exit(code)
}

func recvTypeName(fd *ast.FuncDecl) string {
	if fd.Recv == nil || len(fd.Recv.List) == 0 {
		return ""
	}
	ty := fd.Recv.List[0].Type
	if s, ok := ty.(*ast.StarExpr); ok {
		ty = s.X
	}
	if id, ok := ty.(*ast.Ident); ok {
		return id.Name
	}
	return ""
}

func isRecorderField(se *ast.SelectorExpr) bool {
	sel := info.Selections[se]
	if sel == nil || sel.Kind() != types.FieldVal {
		return false
	}
	v, ok := sel.Obj().(*types.Var)
	if !ok || !v.IsField() {
		return false
	}
	rec := pkg.Scope().Lookup("recorder")
	if rec == nil {
		return false
	}
	st, ok := rec.Type().Underlying().(*types.Struct)
	if !ok {
		return false
	}
	for i := 0; i < st.NumFields(); i++ {
		if st.Field(i) == v {
			return true
		}
	}
	return false
}

func main() {
	out := ""
	repo := os.Getenv("VERIF_REPO")
	if repo == "" {
		repo = "/repo"
	}
	for _, a := range os.Args[1:] {
		if strings.HasPrefix(a, "out=") {
			out = a[4:]
		}
		if strings.HasPrefix(a, "repo=") {
			repo = a[5:]
		}
	}
	if out == "" {
		die(2, "usage: recgen repo=<dir> out=<file.v>")
	}
	out, _ = filepath.Abs(out)
	repo, _ = filepath.Abs(repo)
	// nothing stale: whatever happens below, the previous output is gone
	os.Remove(out)
	fail := func(code int, f string, a ...any) {
		msg := fmt.Sprintf(f, a...)
		os.WriteFile(out, []byte("(* GENERATED by harness/cmd/recgen -- DO NOT EDIT *)\n(* REFUSED: "+strings.ReplaceAll(msg, "*)", "* )")+" *)\n"), 0o644)
		die(code, "REFUSED: %s", msg)
	}

	pkgs, err := parser.ParseDir(fset, repo, func(fi os.FileInfo) bool {
		n := fi.Name()
		return !strings.HasSuffix(n, "_test.go") && !strings.HasPrefix(n, "verif_")
	}, 0)
	if err != nil {
		fail(2, "parse: %v", err)
	}
	p := pkgs["fox"]
	if p == nil {
		fail(2, "package fox not found in %s", repo)
	}
	names := make([]string, 0, len(p.Files))
	for n := range p.Files {
		names = append(names, n)
	}
	sort.Strings(names)
	var files []*ast.File
	for _, n := range names {
		files = append(files, p.Files[n])
	}
	if err := os.Chdir(repo); err != nil {
		fail(2, "%v", err)
	}
	var terrs []string
	conf := types.Config{Importer: importer.ForCompiler(fset, "source", nil), Error: func(err error) {
		terrs = append(terrs, err.Error())
	}}
	info = &types.Info{Uses: map[*ast.Ident]types.Object{}, Defs: map[*ast.Ident]types.Object{},
		Selections: map[*ast.SelectorExpr]*types.Selection{}, Types: map[ast.Expr]types.TypeAndValue{},
		Implicits: map[ast.Node]types.Object{}}
	pkg, _ = conf.Check(foxPath, fset, files, info)
	if len(terrs) > 0 {
		fail(2, "type errors: %s", strings.Join(terrs, "; "))
	}

	// the recorder type itself
	rec := pkg.Scope().Lookup("recorder")
	if rec == nil {
		fail(3, "type recorder not found")
	}
	st, ok := rec.Type().Underlying().(*types.Struct)
	if !ok {
		fail(3, "recorder is not a struct")
	}
	var fields []string
	for i := 0; i < st.NumFields(); i++ {
		f := st.Field(i)
		s := f.Name() + " " + typeStr(f.Type())
		if f.Embedded() {
			s = "embedded " + s
		}
		fields = append(fields, s)
	}
	wantFields := "embedded ResponseWriter net/http.ResponseWriter; size int; status int; hijacked bool"
	if strings.Join(fields, "; ") != wantFields {
		fail(3, "recorder has fields {%s}, the model knows {%s}", strings.Join(fields, "; "), wantFields)
	}

	// collect the methods, validate ErrNotSupported, list foreign writers of the recorder's fields
	decls := map[string]*ast.FuncDecl{}
	var unknown []string
	foreign := map[string]bool{}
	for _, f := range files {
		for _, dcl := range f.Decls {
			fd, ok := dcl.(*ast.FuncDecl)
			if !ok || fd.Body == nil {
				continue
			}
			q := fd.Name.Name
			if rn := recvTypeName(fd); rn != "" {
				q = rn + "." + q
			}
			if recvTypeName(fd) == "recorder" {
				known := false
				for _, m := range methods {
					known = known || m.goName == fd.Name.Name
				}
				if !known {
					unknown = append(unknown, fd.Name.Name)
				}
				decls[fd.Name.Name] = fd
				continue
			}
			if fd.Recv == nil && fd.Name.Name == "ErrNotSupported" {
				if checkErrNotSupported(fd) {
					errNotSupportedOK = 1
				} else {
					errNotSupportedOK = 0
				}
			}
			ast.Inspect(fd.Body, func(n ast.Node) bool {
				switch x := n.(type) {
				case *ast.AssignStmt:
					for _, l := range x.Lhs {
						if se, ok := unparen(l).(*ast.SelectorExpr); ok && isRecorderField(se) {
							foreign[q] = true
						}
					}
				case *ast.IncDecStmt:
					if se, ok := unparen(x.X).(*ast.SelectorExpr); ok && isRecorderField(se) {
						foreign[q] = true
					}
				case *ast.UnaryExpr:
					if se, ok := unparen(x.X).(*ast.SelectorExpr); ok && x.Op == token.AND && isRecorderField(se) {
						foreign[q] = true
					}
				case *ast.CompositeLit:
					if tv, ok := info.Types[x]; ok && tv.Type != nil && typeStr(tv.Type) == foxPath+".recorder" {
						foreign[q] = true
					}
				}
				return true
			})
		}
	}

	var b bytes.Buffer
	var refusals []string
	fmt.Fprintf(&b, "(* GENERATED by harness/cmd/recgen from response_writer.go of the tree under test -- DO NOT EDIT.\n")
	fmt.Fprintf(&b, "   The methods of `recorder`, translated statement by statement in source order over the state\n")
	fmt.Fprintf(&b, "   (rstate * ustate) and the underlying-writer automaton of Model.v; primitives: RecSem.v.\n")
	fmt.Fprintf(&b, "   Equality with the hand-written model: BridgeRec.v, BridgeRecFixed.v; statements: Props_GenRec.v. *)\n")
	fmt.Fprintf(&b, "From FoxBase Require Import Bytes.\nFrom FoxC14 Require Import Types Model RecSem.\nFrom Coq Require Import String List ZArith Bool.\nImport ListNotations.\nOpen Scope Z_scope.\n\n")

	var defs []string
	for _, u := range unknown {
		msg := fmt.Sprintf("recorder.%s: a method of the recorder that the model does not know", u)
		refusals = append(refusals, msg)
	}
	for _, m := range methods {
		fd := decls[m.goName]
		if fd == nil {
			refusals = append(refusals, fmt.Sprintf("%s: recorder.%s not found", m.coqName, m.goName))
			defs = append(defs, fmt.Sprintf("(* REFUSED: %s: recorder.%s not found *)\n", m.coqName, m.goName))
			continue
		}
		p0, p1 := fset.Position(fd.Pos()), fset.Position(fd.End())
		raw, _ := os.ReadFile(p0.Filename)
		sum := sha256.Sum256(raw[p0.Offset:p1.Offset])
		hdr := fmt.Sprintf("(* recorder.%s: %s:%d-%d sha256=%x *)\n", m.goName, filepath.Base(p0.Filename), p0.Line, p1.Line, sum[:8])
		text, d, r := translate(fd, m.coqName)
		if r != nil {
			pos := fset.Position(r.pos)
			msg := fmt.Sprintf("%s: %s:%d: %s", m.coqName, filepath.Base(pos.Filename), pos.Line, r.msg)
			refusals = append(refusals, msg)
			defs = append(defs, hdr+"(* REFUSED: "+strings.ReplaceAll(msg, "*)", "* )")+" *)\n")
			continue
		}
		translated[m.goName] = d
		defs = append(defs, hdr+text)
	}
	for _, c := range constOrder {
		fmt.Fprintf(&b, "Definition %s : Z := %s.\n", c, foxConsts[c])
	}
	fmt.Fprintf(&b, "\n")
	for _, u := range unknown {
		fmt.Fprintf(&b, "(* REFUSED: recorder.%s: a method of the recorder that the model does not know *)\n\n", u)
	}
	for _, d := range defs {
		fmt.Fprintf(&b, "%s\n", d)
	}
	// functions outside the recorder's methods that assign a field of a recorder or build one
	var fw []string
	for q := range foreign {
		fw = append(fw, q)
	}
	sort.Strings(fw)
	fmt.Fprintf(&b, "(* functions of package fox, other than the methods above, that assign a field of a recorder, take its\n   address or build a recorder literal *)\n")
	fmt.Fprintf(&b, "Definition gen_rec_foreign_writers : list string := [")
	for i, q := range fw {
		if i > 0 {
			fmt.Fprintf(&b, "; ")
		}
		fmt.Fprintf(&b, "\"%s\"%%string", q)
	}
	fmt.Fprintf(&b, "].\n")
	if err := os.WriteFile(out, b.Bytes(), 0o644); err != nil {
		die(2, "%v", err)
	}
	if len(refusals) > 0 {
		for _, r := range refusals {
			fmt.Fprintf(os.Stderr, "recgen: REFUSED %s\n", r)
		}
		os.Exit(3)
	}
	fmt.Printf("recgen: %d methods of recorder translated from %s -> %s\n", len(defs), repo, out)
}
