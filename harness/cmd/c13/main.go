// c13: middleware composition (scope filtering, order, route chains, Update,
// Route.Handle / HandleMiddleware, DefaultOptions, slice sharing, concurrent
// NewRoute).  Runs fox on generated configurations and writes Coq case files
// comparing the observations with the model (FoxC13.Model) and the specification
// (FoxC13.Spec).
package main

import (
	"bytes"
	"encoding/json"
	"errors"
	"fmt"
	"net/http"
	"net/http/httptest"
	"os"
	"os/exec"
	"runtime"
	"sort"
	"strings"
	"sync"

	"foxverif/hx"

	"github.com/tigerwill90/fox"
)

// ---------- configuration as data (also the wire format to the race child) ----------

type Mw struct {
	Nil bool `json:"nil,omitempty"`
	ID  int  `json:"id"`
}
type GOpt struct {
	Kind  string `json:"kind"` // mw | for | default | other | flag | custom
	Scope uint8  `json:"scope,omitempty"`
	Ms    []Mw   `json:"ms,omitempty"`
	Other int    `json:"other,omitempty"`
	Flag  string `json:"flag,omitempty"` // FRedirect | FIgnore | FNoMethod | FAutoOptions
	B     bool   `json:"b,omitempty"`
	K     string `json:"k,omitempty"` // custom handler for KNoRoute | KNoMethod | KOptions
}
type TsOpt struct {
	Redirect bool // else ignore
	B        bool
}
type Op struct {
	Kind string `json:"kind"` // handle | update | serve | rhandle | rhandlemw
	Key  int    `json:"key"`
	Hid  int    `json:"hid,omitempty"`
	Ms   []Mw   `json:"ms,omitempty"`
	Ts   []TsOpt
	Var  int // handle / update through 0: Router.Handle/Update, 1: Txn in Updates, 2: NewRoute + HandleRoute/UpdateRoute
	K    int `json:"k,omitempty"` // request shape for serve: 0 exact 1 tsr 2 nomatch 3 post 4 options
}

var shapeNames = []string{"SExact", "STsr", "SNoMatch", "SPost", "SOptions"}

// optCache makes one fox.Option VALUE per distinct WithMiddleware argument list, so that the same value is
// applied to routes and to routers (possibly several) within a scenario; nil = a fresh value per use.
type optCache map[string]fox.Option

func (c optCache) withMiddleware(rec *recorder, ms []Mw) fox.Option {
	if c == nil {
		return fox.WithMiddleware(mws(rec, ms)...)
	}
	key := hx.ListOf(ms, mwTerm)
	if o, ok := c[key]; ok {
		return o
	}
	o := fox.WithMiddleware(mws(rec, ms)...)
	c[key] = o
	return o
}

// ---------- event recording ----------

type recorder struct {
	mu     sync.Mutex
	evs    []string
	seen   *fox.HandlerScope
	noSeen bool
}

func (r *recorder) emit(ev string, c fox.Context) {
	r.mu.Lock()
	defer r.mu.Unlock()
	if r.seen == nil && !r.noSeen {
		s := c.Scope()
		r.seen = &s
	}
	r.evs = append(r.evs, ev)
}
func (r *recorder) reset(noSeen bool) { r.evs, r.seen, r.noSeen = nil, nil, noSeen }

func userMw(rec *recorder, id int) fox.MiddlewareFunc {
	return func(next fox.HandlerFunc) fox.HandlerFunc {
		return func(c fox.Context) {
			rec.emit(fmt.Sprintf("Enter (User %d)", id), c)
			next(c)
			rec.emit(fmt.Sprintf("Exit (User %d)", id), c)
		}
	}
}
func runHandler(rec *recorder, hid int) fox.HandlerFunc {
	return func(c fox.Context) { rec.emit(fmt.Sprintf("Run %d", hid), c) }
}
func mws(rec *recorder, ms []Mw) []fox.MiddlewareFunc {
	out := make([]fox.MiddlewareFunc, len(ms))
	for i, m := range ms {
		if !m.Nil {
			out[i] = userMw(rec, m.ID)
		}
	}
	return out
}

// classOf identifies a registered middleware function by the name of its code
// (closures of one function literal may be compiled several times when the
// enclosing function is inlined, so code pointers are not comparable, names are).
func classOf(pc uintptr) string {
	fn := runtime.FuncForPC(pc)
	if fn == nil {
		return "CUnknown"
	}
	name := fn.Name()
	switch {
	case strings.Contains(name, "CustomRecoveryWithLogHandler"):
		return "CRecovery"
	case strings.Contains(name, "LoggerWithHandler"):
		return "CLogger"
	case strings.Contains(name, "userMw"):
		return "CUser"
	}
	return "CUnknown" // does not type-check in Coq on purpose: reported as a case-evaluation problem
}

// ---------- building a router from the data ----------

func buildRouter(rec *recorder, gopts []GOpt, cache optCache) (*fox.Router, error, bool) {
	var opts []fox.GlobalOption
	for _, g := range gopts {
		switch g.Kind {
		case "mw":
			opts = append(opts, cache.withMiddleware(rec, g.Ms))
		case "for":
			opts = append(opts, fox.WithMiddlewareFor(fox.HandlerScope(g.Scope), mws(rec, g.Ms)...))
		case "default":
			opts = append(opts, fox.DefaultOptions())
		case "other":
			switch g.Other % 3 {
			case 0:
				opts = append(opts, fox.WithMaxRouteParams(100))
			case 1:
				opts = append(opts, fox.WithClientIPResolver(nil))
			default:
				opts = append(opts, fox.WithMaxRouteParamKeyBytes(100))
			}
		case "flag":
			switch g.Flag {
			case "FRedirect":
				opts = append(opts, fox.WithRedirectTrailingSlash(g.B))
			case "FIgnore":
				opts = append(opts, fox.WithIgnoreTrailingSlash(g.B))
			case "FNoMethod":
				opts = append(opts, fox.WithNoMethod(g.B))
			default:
				opts = append(opts, fox.WithAutoOptions(g.B))
			}
		case "custom":
			switch g.K {
			case "KNoRoute":
				opts = append(opts, fox.WithNoRouteHandler(runHandler(rec, 1)))
			case "KNoMethod":
				opts = append(opts, fox.WithNoMethodHandler(runHandler(rec, 2)))
			default:
				opts = append(opts, fox.WithOptionsHandler(runHandler(rec, 3)))
			}
		}
	}
	var (
		f        *fox.Router
		err      error
		panicked bool
	)
	func() {
		defer func() {
			if r := recover(); r != nil {
				panicked = true
			}
		}()
		f, err = fox.New(opts...)
	}()
	return f, err, panicked
}

func errTerm(err error) string {
	switch {
	case err == nil:
		return "None"
	case errors.Is(err, fox.ErrInvalidConfig):
		return "(Some ErrInvalidConfig)"
	case errors.Is(err, fox.ErrRouteExist):
		return "(Some ErrRouteExist)"
	case errors.Is(err, fox.ErrRouteNotFound):
		return "(Some ErrRouteNotFound)"
	}
	return "(Some ErrOther)"
}

// ---------- pattern shapes: what a key is registered as, and the requests that hit it ----------

type patShape struct {
	Pattern, Host, Path string
	NoTsr               bool // a request with one more slash is matched directly (suffix catch-all): no STsr requests
}

const nShapes = 12

func shapeFor(key, kind int) patShape {
	k := fmt.Sprintf("/k%d", key)
	switch kind {
	case 1:
		return patShape{Pattern: k + "/{id}", Path: k + "/42"}
	case 2:
		return patShape{Pattern: k + "/pre{id}", Path: k + "/pre42"}
	case 3:
		return patShape{Pattern: k + "/{id}/edit", Path: k + "/42/edit"}
	case 4: // catch-all at the end
		return patShape{Pattern: k + "/files/*{path}", Path: k + "/files/a/b.txt", NoTsr: true}
	case 5: // infix catch-all with static text after it
		return patShape{Pattern: k + "/files/*{path}/raw", Path: k + "/files/a/b/raw"}
	case 6: // two infix catch-alls
		return patShape{Pattern: k + "/*{a}/x/*{b}/y", Path: k + "/p/q/x/r/y"}
	case 7: // infix catch-all starting inside a segment
		return patShape{Pattern: k + "/v*{p}/end", Path: k + "/va/b/end"}
	case 8:
		return patShape{Pattern: fmt.Sprintf("h%d.example.com%s/x", key, k), Host: fmt.Sprintf("h%d.example.com", key), Path: k + "/x"}
	case 9: // hostname wildcard + infix catch-all
		return patShape{Pattern: fmt.Sprintf("{sub}.h%d.com%s/*{p}/z", key, k), Host: fmt.Sprintf("a.h%d.com", key), Path: k + "/m/n/z"}
	case 10:
		return patShape{Pattern: k + "/{a}/*{b}/t/{c}", Path: k + "/1/2/3/t/4"}
	case 11: // param then catch-all at the end
		return patShape{Pattern: k + "/{a}/f*{rest}", Path: k + "/1/fa/b", NoTsr: true}
	}
	return patShape{Pattern: k, Path: k}
}

type patSet [3]patShape

var defaultPats = patSet{shapeFor(0, 0), shapeFor(1, 0), shapeFor(2, 0)}

// curPats is the pattern set of the router whose operations are being executed
var curPats = defaultPats

func pattern(key int) string { return curPats[key].Pattern }

func request(shape, key int) *http.Request {
	p := curPats[key]
	var r *http.Request
	switch shape {
	case 0:
		r = httptest.NewRequest(http.MethodGet, p.Path, nil)
	case 1:
		r = httptest.NewRequest(http.MethodGet, p.Path+"/", nil)
	case 2:
		r = httptest.NewRequest(http.MethodGet, "/zz/nothing/here", nil)
	case 3:
		r = httptest.NewRequest(http.MethodPost, p.Path, nil)
	default:
		r = httptest.NewRequest(http.MethodOptions, p.Path, nil)
	}
	if p.Host != "" {
		r.Host = p.Host
	}
	return r
}

func traceTerm(rec *recorder) string {
	seen := "None"
	if rec.seen != nil {
		seen = fmt.Sprintf("(Some %s)", hx.N(uint64(*rec.seen)))
	}
	return fmt.Sprintf("(ObsTrace %s %s)", hx.List(rec.evs), seen)
}

// runOp executes one operation and returns (observation term, alias term)
func runOp(f *fox.Router, rec *recorder, o Op, cache optCache) (obs string, alias string) {
	alias = "None"
	defer func() {
		if r := recover(); r != nil {
			obs, alias = "ObsPanic", "None"
		}
	}()
	switch o.Kind {
	case "handle", "update":
		var (
			rte *fox.Route
			err error
		)
		ropts := []fox.RouteOption{cache.withMiddleware(rec, o.Ms)}
		for _, t := range o.Ts {
			if t.Redirect {
				ropts = append(ropts, fox.WithRedirectTrailingSlash(t.B))
			} else {
				ropts = append(ropts, fox.WithIgnoreTrailingSlash(t.B))
			}
		}
		h := runHandler(rec, o.Hid)
		switch o.Var % 3 {
		case 0: // Router.Handle / Router.Update
			if o.Kind == "handle" {
				rte, err = f.Handle(http.MethodGet, pattern(o.Key), h, ropts...)
			} else {
				rte, err = f.Update(http.MethodGet, pattern(o.Key), h, ropts...)
			}
		case 1: // Txn.Handle / Txn.Update in a managed write transaction
			err = f.Updates(func(txn *fox.Txn) error {
				var e error
				if o.Kind == "handle" {
					rte, e = txn.Handle(http.MethodGet, pattern(o.Key), h, ropts...)
				} else {
					rte, e = txn.Update(http.MethodGet, pattern(o.Key), h, ropts...)
				}
				return e
			})
		default: // NewRoute + HandleRoute / UpdateRoute
			rte, err = f.NewRoute(pattern(o.Key), h, ropts...)
			if err == nil {
				if o.Kind == "handle" {
					err = f.HandleRoute(http.MethodGet, rte)
				} else {
					err = f.UpdateRoute(http.MethodGet, rte)
				}
			}
		}
		if err == nil {
			rm, gm := fox.VerifRouteMws(rte), fox.VerifRouterMws(f)
			alias = fmt.Sprintf("(Some (%s, %d, %s))", hx.Bool(rm.Data == gm.Data), rm.Len, hx.Bool(rm.Cap == rm.Len))
		}
		return "(ObsErr " + errTerm(err) + ")", alias
	case "serve":
		rec.reset(false)
		f.ServeHTTP(httptest.NewRecorder(), request(o.K, o.Key))
		return traceTerm(rec), alias
	default:
		rte := f.Route(http.MethodGet, pattern(o.Key))
		if rte == nil {
			return "ObsNoRoute", alias
		}
		rec.reset(true)
		c := fox.NewTestContextOnly(httptest.NewRecorder(), request(0, o.Key))
		if o.Kind == "rhandle" {
			rte.Handle(c)
		} else {
			rte.HandleMiddleware(c)
		}
		return traceTerm(rec), alias
	}
}

// ---------- Coq terms ----------

func mwTerm(m Mw) string {
	if m.Nil {
		return "None"
	}
	return fmt.Sprintf("(Some (User %d))", m.ID)
}
func goptTerm(g GOpt) string {
	switch g.Kind {
	case "mw":
		return "(GMw " + hx.ListOf(g.Ms, mwTerm) + ")"
	case "for":
		return fmt.Sprintf("(GMwFor %s %s)", hx.N(uint64(g.Scope)), hx.ListOf(g.Ms, mwTerm))
	case "default":
		return "GDefault"
	case "flag":
		return fmt.Sprintf("(GFlag %s %s)", g.Flag, hx.Bool(g.B))
	case "custom":
		return fmt.Sprintf("(GCustomH %s)", g.K)
	}
	return "GOther"
}
func tsTerm(t TsOpt) string {
	if t.Redirect {
		return "(TRedirect " + hx.Bool(t.B) + ")"
	}
	return "(TIgnore " + hx.Bool(t.B) + ")"
}
func opTerm(o Op) string {
	switch o.Kind {
	case "handle":
		return fmt.Sprintf("(OHandle %d %d %s %s)", o.Key, o.Hid, hx.ListOf(o.Ms, mwTerm), hx.ListOf(o.Ts, tsTerm))
	case "update":
		return fmt.Sprintf("(OUpdate %d %d %s %s)", o.Key, o.Hid, hx.ListOf(o.Ms, mwTerm), hx.ListOf(o.Ts, tsTerm))
	case "serve":
		return fmt.Sprintf("(OServe %s %d)", shapeNames[o.K], o.Key)
	case "rhandle":
		return fmt.Sprintf("(ORouteHandle %d)", o.Key)
	}
	return fmt.Sprintf("(ORouteHandleMw %d)", o.Key)
}

// ---------- generators ----------

type gen struct {
	rnd    *hx.Rand
	nextID int
	used   []int
}

func (g *gen) id() int {
	if len(g.used) > 0 && g.rnd.Pct(8) {
		return hx.Pick(g.rnd, g.used) // the same function registered twice
	}
	g.nextID++
	g.used = append(g.used, g.nextID)
	return g.nextID
}
func (g *gen) ms(lo, hi, nilPct int) []Mw {
	n := g.rnd.Range(lo, hi)
	out := make([]Mw, n)
	for i := range out {
		if g.rnd.Pct(nilPct) {
			out[i] = Mw{Nil: true}
		} else {
			out[i] = Mw{ID: g.id()}
		}
	}
	return out
}

var scopeConsts = []uint8{uint8(fox.RouteHandler), uint8(fox.NoRouteHandler), uint8(fox.NoMethodHandler), uint8(fox.RedirectHandler), uint8(fox.OptionsHandler)}

func (g *gen) scope() uint8 {
	switch r := g.rnd.Intn(100); {
	case r < 30:
		return hx.Pick(g.rnd, scopeConsts)
	case r < 60:
		return hx.Pick(g.rnd, scopeConsts) | hx.Pick(g.rnd, scopeConsts)
	case r < 70:
		return uint8(fox.AllHandlers)
	case r < 75:
		return 0
	default:
		return uint8(g.rnd.Intn(256))
	}
}
var flagNames = []string{"FRedirect", "FIgnore", "FNoMethod", "FAutoOptions"}
var customKinds = []string{"KNoRoute", "KNoMethod", "KOptions"}

func (g *gen) gopts(nilPct int) []GOpt {
	n := g.rnd.Range(0, 5)
	if g.rnd.Pct(10) {
		n = g.rnd.Range(6, 9)
	}
	var out []GOpt
	for i := 0; i < n; i++ {
		switch r := g.rnd.Intn(100); {
		case r < 30:
			out = append(out, GOpt{Kind: "mw", Ms: g.ms(1, 3, nilPct)})
		case r < 58:
			out = append(out, GOpt{Kind: "for", Scope: g.scope(), Ms: g.ms(1, 2, nilPct)})
		case r < 66:
			out = append(out, GOpt{Kind: "default"})
		case r < 72:
			out = append(out, GOpt{Kind: "other", Other: g.rnd.Intn(3)})
		case r < 92:
			out = append(out, GOpt{Kind: "flag", Flag: hx.Pick(g.rnd, flagNames), B: g.rnd.Pct(65)})
		default:
			out = append(out, GOpt{Kind: "custom", K: hx.Pick(g.rnd, customKinds)})
		}
	}
	// most of the time also switch features on (independently, at seeded positions) so that every handler kind is reached often
	if g.rnd.Pct(60) {
		var extra []GOpt
		switch g.rnd.Intn(3) {
		case 0:
			extra = append(extra, GOpt{Kind: "flag", Flag: "FRedirect", B: true})
		case 1:
			extra = append(extra, GOpt{Kind: "flag", Flag: "FIgnore", B: true})
		}
		if g.rnd.Pct(70) {
			extra = append(extra, GOpt{Kind: "flag", Flag: "FNoMethod", B: true})
		}
		if g.rnd.Pct(70) {
			extra = append(extra, GOpt{Kind: "flag", Flag: "FAutoOptions", B: true})
		}
		if g.rnd.Pct(60) {
			extra = append(extra, GOpt{Kind: "custom", K: "KNoRoute"})
		}
		for _, e := range extra {
			pos := g.rnd.Intn(len(out) + 1)
			out = append(out, GOpt{})
			copy(out[pos+1:], out[pos:])
			out[pos] = e
		}
	}
	return out
}
func (g *gen) ts() []TsOpt {
	if g.rnd.Pct(45) {
		return nil
	}
	n := g.rnd.Range(1, 2)
	out := make([]TsOpt, n)
	for i := range out {
		out[i] = TsOpt{Redirect: g.rnd.Bool(), B: g.rnd.Pct(75)}
	}
	return out
}
var varNames = []string{"Router", "Txn", "NewRoute+Route"}

func (g *gen) pats() patSet {
	return patSet{shapeFor(0, g.rnd.Intn(nShapes)), shapeFor(1, g.rnd.Intn(nShapes)), shapeFor(2, g.rnd.Intn(nShapes))}
}

func (g *gen) ops(pats patSet) []Op {
	n := g.rnd.Range(2, 8)
	var out []Op
	hid := 10
	reg := map[int]bool{} // keys probably registered so far (ignores failures: only steers the choice of keys)
	pickKey := func(wantReg bool, pct int) int {
		key := g.rnd.Intn(3)
		if g.rnd.Pct(pct) {
			for k := 0; k < 3; k++ {
				if reg[(key+k)%3] == wantReg {
					return (key + k) % 3
				}
			}
		}
		return key
	}
	for i := 0; i < n; i++ {
		switch r := g.rnd.Intn(100); {
		case r < 35:
			hid++
			key := pickKey(false, 75)
			out = append(out, Op{Kind: "handle", Key: key, Hid: hid, Ms: g.ms(0, 3, 3), Ts: g.ts(), Var: g.rnd.Intn(3)}, Op{Kind: "serve", Key: key, K: 0})
			reg[key] = true
		case r < 55:
			hid++
			key := pickKey(true, 80)
			// every update is followed by a real request for the route (and sometimes the route-only chain)
			out = append(out, Op{Kind: "update", Key: key, Hid: hid, Ms: g.ms(0, 3, 3), Ts: g.ts(), Var: g.rnd.Intn(3)}, Op{Kind: "serve", Key: key, K: 0})
			if g.rnd.Bool() {
				out = append(out, Op{Kind: "rhandlemw", Key: key})
			}
		case r < 88:
			key, k := pickKey(true, 70), g.rnd.Intn(5)
			if k == 1 && pats[key].NoTsr {
				k = 0
			}
			out = append(out, Op{Kind: "serve", Key: key, K: k})
		case r < 94:
			out = append(out, Op{Kind: "rhandle", Key: pickKey(true, 70)})
		default:
			out = append(out, Op{Kind: "rhandlemw", Key: pickKey(true, 70)})
		}
	}
	// closing sweep on one key: all five kinds and both direct calls
	key := pickKey(true, 85)
	for k := 0; k < 5; k++ {
		if k == 1 && pats[key].NoTsr {
			continue
		}
		out = append(out, Op{Kind: "serve", Key: key, K: k})
	}
	out = append(out, Op{Kind: "rhandlemw", Key: key}, Op{Kind: "rhandle", Key: key})
	return out
}

// ---------- the race child ----------

type raceSpec struct {
	GOpts []GOpt `json:"gopts"`
	Fa    []int  `json:"fa"`
	Fb    []int  `json:"fb"`
	Iter  int    `json:"iter"`
	Seed  uint64 `json:"seed"`
}
type raceOut struct {
	Ta, Tb         []string
	SeenA, SeenB   int
	DistinctA      int
	DistinctB      int
	RouterMwsCap   int
	RouterMwsLen   int
	Err            string
	RaceEnabled    bool
	RoutesPerGroup int
}

func idsToMs(ids []int) []Mw {
	out := make([]Mw, len(ids))
	for i, id := range ids {
		out[i] = Mw{ID: id}
	}
	return out
}

func raceChild(specJSON string) {
	var sp raceSpec
	if err := json.Unmarshal([]byte(specJSON), &sp); err != nil {
		fmt.Println(`{"Err":"bad spec"}`)
		return
	}
	rec := &recorder{}
	f, err, pan := buildRouter(rec, sp.GOpts, nil)
	out := raceOut{RaceEnabled: raceEnabled, RoutesPerGroup: sp.Iter}
	if err != nil || pan {
		out.Err = fmt.Sprint("router: ", err, pan)
		b, _ := json.Marshal(out)
		fmt.Println(string(b))
		return
	}
	gm := fox.VerifRouterMws(f)
	out.RouterMwsCap, out.RouterMwsLen = gm.Cap, gm.Len
	routes := [2][]*fox.Route{make([]*fox.Route, sp.Iter), make([]*fox.Route, sp.Iter)}
	lists := [2][]int{sp.Fa, sp.Fb}
	var wg sync.WaitGroup
	start := make(chan struct{})
	for gi := 0; gi < 2; gi++ {
		wg.Add(1)
		go func(gi int) {
			defer wg.Done()
			<-start
			for i := 0; i < sp.Iter; i++ {
				// public, lock-free API: two goroutines create routes with their own middleware
				rte, err := f.NewRoute(fmt.Sprintf("/g%d/r%d", gi, i), runHandler(rec, 10+gi), fox.WithMiddleware(mws(rec, idsToMs(lists[gi]))...))
				if err == nil {
					routes[gi][i] = rte
				}
			}
		}(gi)
	}
	close(start)
	wg.Wait()
	// register and serve every created route sequentially; report per group the trace all routes share, or a minority trace
	traces := [2]map[string]int{{}, {}}
	seen := [2]map[string]int{{}, {}}
	for gi := 0; gi < 2; gi++ {
		for i, rte := range routes[gi] {
			if rte == nil {
				traces[gi]["<NewRoute failed>"]++
				continue
			}
			if err := f.HandleRoute(http.MethodGet, rte); err != nil {
				traces[gi]["<HandleRoute failed>"]++
				continue
			}
			rec.reset(false)
			f.ServeHTTP(httptest.NewRecorder(), httptest.NewRequest(http.MethodGet, fmt.Sprintf("/g%d/r%d", gi, i), nil))
			key := strings.Join(rec.evs, "; ")
			traces[gi][key]++
			if rec.seen != nil {
				seen[gi][key] = int(*rec.seen)
			} else {
				seen[gi][key] = -1
			}
		}
	}
	pick := func(m map[string]int) (string, int) {
		keys := hx.SortedKeys(m)
		sort.SliceStable(keys, func(i, j int) bool { return m[keys[i]] < m[keys[j]] })
		return keys[0], len(keys)
	}
	ka, na := pick(traces[0])
	kb, nb := pick(traces[1])
	split := func(s string) []string {
		if s == "" {
			return []string{}
		}
		return strings.Split(s, "; ")
	}
	out.Ta, out.Tb, out.DistinctA, out.DistinctB = split(ka), split(kb), na, nb
	out.SeenA, out.SeenB = seen[0][ka], seen[1][kb]
	b, _ := json.Marshal(out)
	fmt.Println(string(b))
}

func runRace(sp raceSpec) (raceOut, bool, string) {
	b, _ := json.Marshal(sp)
	cmd := exec.Command(os.Args[0], "racechild="+string(b))
	cmd.Env = append(os.Environ(), "GORACE=halt_on_error=0 exitcode=66")
	var so, se bytes.Buffer
	cmd.Stdout, cmd.Stderr = &so, &se
	err := cmd.Run()
	race := strings.Contains(se.String(), "DATA RACE")
	if ee, ok := err.(*exec.ExitError); ok && ee.ExitCode() == 66 {
		race = true
	}
	var out raceOut
	// the Logger middleware of DefaultOptions writes to stdout as well: the result is the last JSON line
	lines := strings.Split(strings.TrimSpace(so.String()), "\n")
	if jerr := json.Unmarshal([]byte(lines[len(lines)-1]), &out); jerr != nil {
		out.Err = "child output unreadable: " + jerr.Error() + " stderr: " + tail(se.String(), 300)
	}
	where := ""
	if race {
		for _, l := range strings.Split(se.String(), "\n") {
			if strings.Contains(l, ".go:") && strings.Contains(l, "fox") {
				where = strings.TrimSpace(l)
				break
			}
		}
	}
	return out, race, where
}

func perm(r *hx.Rand, n int) []int {
	p := make([]int, n)
	for i := range p {
		p[i] = i
	}
	for i := n - 1; i > 0; i-- {
		j := r.Intn(i + 1)
		p[i], p[j] = p[j], p[i]
	}
	return p
}

func tail(s string, n int) string {
	if len(s) > n {
		return s[len(s)-n:]
	}
	return s
}

// ---------- main ----------

func main() {
	args := hx.Args()
	if sp, ok := args["racechild"]; ok {
		raceChild(sp)
		return
	}
	out := args["out"]
	tier := args["tier"]
	shards := hx.Atoi(args["shards"], 8)
	rnd := hx.NewRand(hx.Seed())

	cs := &hx.Cases{
		Header: "From FoxBase Require Import Bytes.\nFrom FoxC13 Require Import Types Corr.\n",
		Type:   "case",
		Footer: "Definition mism := Eval vm_compute in mismatches cases.\nPrint mism.\n" +
			"Definition viol := Eval vm_compute in spec_violations cases.\nPrint viol.\n" +
			"Definition oof := Eval vm_compute in fuel_outs cases.\nPrint oof.\n",
	}
	st := &hx.Stats{Rule: "sequential cases: seeded lists of 0-9 global options (WithMiddleware 1-3 fns, WithMiddlewareFor with constant / union / arbitrary uint8 / zero masks, DefaultOptions, unrelated options; nil entries in a separate stream) x 2-8 Handle/Update (through Router, Txn in Updates, or NewRoute+HandleRoute/UpdateRoute; each followed by a real request) /request/Route.Handle(Middleware) operations on 3 keys registered under seeded pattern shapes (static, {param}, prefix{param}, param+suffix, catch-all at the end, infix catch-all, two infix catch-alls, mid-segment infix catch-all, hostname, hostname wildcard + infix catch-all); exhaustive: 12 pattern shapes x 3 creation paths with two updates + a closing sweep of all five handler kinds; exhaustive: every scope mask 0..255 x five kinds; race cases: 2 goroutines x N NewRoute with route middleware under 0-7 global entries, in a child process under the race detector. non-trivial = at least one request whose trace contains a middleware event, or an error outcome, or a race case; distinct = distinct (options, operations) pairs"}
	seenCases := map[string]bool{}
	nontrivial := 0

	scopeKind := map[string]string{"(128)%N": "KRoute", "(64)%N": "KNoRoute", "(32)%N": "KNoMethod", "(16)%N": "KRedirect", "(8)%N": "KOptions"}
	type routerRun struct {
		gopts                  []GOpt
		rec                    *recorder
		cache                  optCache
		f                      *fox.Router
		newErr, mwsTerm, kind  string
		ops                    []Op
		opTerms, human         []string
		nt                     bool
		pats                   patSet
	}
	newRun := func(gopts []GOpt, kind string, rec *recorder, cache optCache) *routerRun {
		r := &routerRun{gopts: gopts, rec: rec, cache: cache, kind: kind, mwsTerm: "[]", pats: defaultPats}
		f, err, pan := buildRouter(rec, gopts, cache)
		r.newErr = errTerm(err)
		if pan {
			r.newErr = "(Some ErrOther)"
			err = errors.New("panic")
		}
		if err != nil {
			r.nt = true
			st.Count("new:error")
			return r
		}
		r.f = f
		gm := fox.VerifRouterMws(f)
		ents := make([]string, len(gm.Entries))
		for i, e := range gm.Entries {
			ents[i] = fmt.Sprintf("(%s, %s, %s)", classOf(e.PC), hx.N(uint64(e.Scope)), hx.Bool(e.Global))
		}
		r.mwsTerm = hx.List(ents)
		st.Count(fmt.Sprintf("globals:len=%d", gm.Len))
		if gm.Cap > gm.Len {
			st.Count("globals:spare-capacity")
		}
		return r
	}
	exec := func(r *routerRun, ops []Op) {
		if r.f == nil {
			return
		}
		curPats = r.pats
		for _, o := range ops {
			obs, alias := runOp(r.f, r.rec, o, r.cache)
			r.ops = append(r.ops, o)
			r.opTerms = append(r.opTerms, fmt.Sprintf("(%s, %s, %s)", opTerm(o), obs, alias))
			via := ""
			if o.Kind == "handle" || o.Kind == "update" {
				via = " via " + varNames[o.Var%3]
				st.Count("create-via:" + varNames[o.Var%3])
				st.Count("pattern-shape:" + r.pats[o.Key].Pattern[strings.Index(r.pats[o.Key].Pattern, "/k")+3:])
			}
			r.human = append(r.human, opTerm(o)+via+" => "+obs+" alias="+alias)
			st.Count("op:" + o.Kind)
			if o.Kind == "serve" {
				st.Count("request:" + shapeNames[o.K])
				reached := "unobserved(no emitter)"
				for sc, k := range scopeKind {
					if strings.HasSuffix(obs, "(Some "+sc+"))") {
						reached = k
					}
				}
				st.Count("reached:" + reached)
			}
			if (o.Kind == "handle" || o.Kind == "update") && len(o.Ts) > 0 {
				st.Count("route-ts-options")
			}
			if strings.Contains(obs, "Enter") || strings.Contains(obs, "Some Err") {
				r.nt = true
			}
			if strings.Contains(obs, "Some Err") {
				st.Count("outcome:" + strings.Trim(strings.TrimPrefix(obs, "(ObsErr (Some "), ")"))
			}
		}
	}
	emit := func(r *routerRun) {
		gterm := hx.ListOf(r.gopts, goptTerm)
		term := fmt.Sprintf("(CSeq %s %s %s %s)", gterm, r.newErr, r.mwsTerm, hx.List(r.opTerms))
		key := gterm + "|" + hx.ListOf(r.ops, opTerm) + "|" + r.kind
		if seenCases[key] {
			return
		}
		seenCases[key] = true
		if r.nt {
			nontrivial++
		}
		h := fmt.Sprintf("[%s] fox.New(%s) err=%s router.mws=%s; keys 0,1,2 = GET %s, %s, %s; ops: %s", r.kind, gterm, r.newErr, r.mwsTerm,
			r.pats[0].Pattern, r.pats[1].Pattern, r.pats[2].Pattern, strings.Join(r.human, " ;; "))
		cs.Add(term, h)
		st.Count("kind:" + r.kind)
		for _, o := range r.gopts {
			st.Count("gopt:" + o.Kind)
		}
		if len(st.Samples) < 8 && r.nt && rnd.Pct(3) {
			st.Samples = append(st.Samples, h)
		}
	}
	addSeqP := func(gopts []GOpt, pats patSet, ops []Op, kind string) {
		r := newRun(gopts, kind, &recorder{}, nil)
		r.pats = pats
		exec(r, ops)
		emit(r)
	}
	addSeq := func(gopts []GOpt, ops []Op, kind string) { addSeqP(gopts, defaultPats, ops, kind) }
	sweep := func(key int) []Op {
		var ops []Op
		for k := 0; k < 5; k++ {
			ops = append(ops, Op{Kind: "serve", Key: key, K: k})
		}
		return append(ops, Op{Kind: "rhandlemw", Key: key}, Op{Kind: "rhandle", Key: key})
	}
	allOn := []GOpt{{Kind: "flag", Flag: "FRedirect", B: true}, {Kind: "flag", Flag: "FNoMethod", B: true}, {Kind: "flag", Flag: "FAutoOptions", B: true},
		{Kind: "custom", K: "KNoRoute"}, {Kind: "custom", K: "KNoMethod"}, {Kind: "custom", K: "KOptions"}}

	nseq, nnil, iter, nshared := 400, 60, 150, 60
	raceGlobals := []int{0, 1, 2, 3, 5, 7}
	if tier == "thorough" {
		nseq, nnil, iter, nshared = 6000, 600, 600, 600
		raceGlobals = []int{0, 1, 2, 3, 4, 5, 6, 7, 8, 9}
	}
	// exhaustive: every mask, all five kinds (all features on)
	for m := 0; m < 256; m++ {
		gopts := append([]GOpt{{Kind: "for", Scope: uint8(m), Ms: []Mw{{ID: 1}}}}, allOn...)
		ops := []Op{{Kind: "handle", Key: 0, Hid: 11, Ms: []Mw{{ID: 2}}}}
		for k := 0; k < 5; k++ {
			ops = append(ops, Op{Kind: "serve", Key: 0, K: k})
		}
		addSeq(gopts, ops, "exhaustive-mask")
		// the same mask with a nil middleware, alone and after a valid one: New must fail whatever the mask is
		addSeq([]GOpt{{Kind: "for", Scope: uint8(m), Ms: []Mw{{Nil: true}}}}, nil, "exhaustive-mask-nil")
		addSeq([]GOpt{{Kind: "for", Scope: uint8(m), Ms: []Mw{{ID: 1}, {Nil: true}}}}, nil, "exhaustive-mask-nil")
	}
	// exhaustive: every pattern shape x every way of creating / updating a route; the chain is observed through real
	// requests after the creation and after each of two updates
	for kind := 0; kind < nShapes; kind++ {
		for v := 0; v < 3; v++ {
			pats := patSet{shapeFor(0, kind), shapeFor(1, (kind+5)%nShapes), shapeFor(2, 0)}
			gopts := append([]GOpt{{Kind: "mw", Ms: []Mw{{ID: 1}}}}, allOn...)
			obsv := func(key int) []Op {
				ops := []Op{{Kind: "serve", Key: key, K: 0}}
				if !pats[key].NoTsr {
					ops = append(ops, Op{Kind: "serve", Key: key, K: 1})
				}
				return append(ops, Op{Kind: "serve", Key: key, K: 3}, Op{Kind: "rhandlemw", Key: key}, Op{Kind: "rhandle", Key: key})
			}
			ops := []Op{{Kind: "handle", Key: 0, Hid: 11, Ms: []Mw{{ID: 2}}, Var: v}, {Kind: "handle", Key: 1, Hid: 12, Ms: []Mw{{ID: 3}}, Var: (v + 1) % 3}}
			ops = append(ops, obsv(0)...)
			ops = append(ops, Op{Kind: "update", Key: 0, Hid: 13, Ms: []Mw{{ID: 4}, {ID: 5}}, Var: v})
			ops = append(ops, obsv(0)...)
			ops = append(ops, Op{Kind: "update", Key: 1, Hid: 14, Ms: nil, Var: (v + 2) % 3})
			ops = append(ops, obsv(1)...)
			ops = append(ops, Op{Kind: "update", Key: 0, Hid: 15, Ms: []Mw{{ID: 6}}, Ts: []TsOpt{{Redirect: false, B: true}}, Var: (v + 1) % 3})
			ops = append(ops, obsv(0)...)
			addSeqP(gopts, pats, ops, "exhaustive-shapes")
		}
	}
	// exhaustive: every combination of the feature switches, independent of the middleware scopes:
	// global trailing-slash mode x per-route trailing-slash option x NoMethod x AutoOptions, with one middleware
	// per scope constant and one for all scopes; all five request shapes
	scoped := []GOpt{{Kind: "mw", Ms: []Mw{{ID: 6}}}}
	for i, sc := range scopeConsts {
		scoped = append(scoped, GOpt{Kind: "for", Scope: sc, Ms: []Mw{{ID: i + 1}}})
	}
	globalTS := [][]GOpt{nil, {{Kind: "flag", Flag: "FRedirect", B: true}}, {{Kind: "flag", Flag: "FIgnore", B: true}}}
	routeTS := [][]TsOpt{nil, {{Redirect: true, B: true}}, {{Redirect: false, B: true}}, {{Redirect: true, B: false}}, {{Redirect: false, B: false}}}
	noMethod := [][]GOpt{nil, {{Kind: "flag", Flag: "FNoMethod", B: true}}, {{Kind: "custom", K: "KNoMethod"}}}
	autoOpt := [][]GOpt{nil, {{Kind: "flag", Flag: "FAutoOptions", B: true}}, {{Kind: "custom", K: "KOptions"}}, {{Kind: "default"}}}
	for _, gt := range globalTS {
		for _, rt := range routeTS {
			for _, nm := range noMethod {
				for _, ao := range autoOpt {
					var gopts []GOpt
					// seeded order of the independent groups
					groups := [][]GOpt{scoped, gt, nm, ao}
					for len(groups) > 0 {
						i := rnd.Intn(len(groups))
						gopts = append(gopts, groups[i]...)
						groups = append(groups[:i], groups[i+1:]...)
					}
					ops := append([]Op{{Kind: "handle", Key: 0, Hid: 11, Ms: []Mw{{ID: 7}}, Ts: rt}}, sweep(0)...)
					addSeq(gopts, ops, "exhaustive-flags")
				}
			}
		}
	}
	for i := 0; i < nseq; i++ {
		g := &gen{rnd: rnd}
		pats := g.pats()
		addSeqP(g.gopts(0), pats, g.ops(pats), "random")
	}
	for i := 0; i < nnil; i++ {
		g := &gen{rnd: rnd}
		pats := g.pats()
		addSeqP(g.gopts(12), pats, g.ops(pats), "random-nil")
	}

	// one Option VALUE used in several places: routes and routers, in every order
	for i := 0; i < nshared; i++ {
		g := &gen{rnd: rnd}
		rec, cache := &recorder{}, optCache{}
		pool := [][]Mw{g.ms(1, 2, 0), g.ms(1, 3, 0)}
		if rnd.Pct(40) {
			pool = append(pool, g.ms(1, 1, 0))
		}
		feat := func() []GOpt { // feature switches and scoped middleware around the shared option
			out := append([]GOpt(nil), allOn...)
			if rnd.Pct(50) {
				out = append(out, GOpt{Kind: "for", Scope: g.scope(), Ms: g.ms(1, 1, 0)})
			}
			return out
		}
		globalUse := func(n int) []GOpt {
			out := feat()
			for _, k := range perm(rnd, len(pool))[:n] {
				pos := rnd.Intn(len(out) + 1)
				out = append(out, GOpt{})
				copy(out[pos+1:], out[pos:])
				out[pos] = GOpt{Kind: "mw", Ms: pool[k]}
			}
			return out
		}
		hid := 10
		routeUse := func(key int, kind string) []Op {
			hid++
			return []Op{{Kind: kind, Key: key, Hid: hid, Ms: hx.Pick(rnd, pool), Ts: g.ts()}}
		}
		var runs []*routerRun
		order := rnd.Intn(4)
		switch order {
		case 0: // route -> global: router A uses the values on routes, then router B (and C) registers them globally
			a := newRun(feat(), "shared:route-then-global/A", rec, cache)
			exec(a, append(append(routeUse(0, "handle"), routeUse(1, "handle")...), sweep(0)...))
			b := newRun(globalUse(len(pool)), "shared:route-then-global/B", rec, cache)
			exec(b, append(routeUse(0, "handle"), sweep(0)...))
			exec(a, append(routeUse(1, "update"), sweep(1)...))
			c := newRun(globalUse(1), "shared:route-then-global/C", rec, cache)
			exec(c, append(routeUse(2, "handle"), sweep(2)...))
			runs = []*routerRun{a, b, c}
		case 1: // global -> route
			a := newRun(globalUse(len(pool)), "shared:global-then-route/A", rec, cache)
			exec(a, append(append(routeUse(0, "handle"), routeUse(1, "handle")...), sweep(0)...))
			b := newRun(globalUse(1), "shared:global-then-route/B", rec, cache)
			exec(b, append(routeUse(0, "handle"), sweep(0)...))
			exec(a, sweep(1))
			runs = []*routerRun{a, b}
		case 2: // route -> route in one router, then the same router shape again (a constructor called twice)
			gl := globalUse(1)
			mk := func(tag string) *routerRun {
				r := newRun(gl, "shared:constructor-twice/"+tag, rec, cache)
				ops := []Op{{Kind: "handle", Key: 0, Hid: 11, Ms: pool[0]}, {Kind: "handle", Key: 1, Hid: 12, Ms: pool[0], Ts: g.ts()}, {Kind: "handle", Key: 2, Hid: 13, Ms: pool[1]}}
				exec(r, append(append(ops, sweep(0)...), sweep(1)...))
				return r
			}
			runs = []*routerRun{mk("first"), mk("second")}
		default: // two routers alternating: every value is used globally in one and on routes in the other
			a := newRun(append(feat(), GOpt{Kind: "mw", Ms: pool[0]}), "shared:alternating/A", rec, cache)
			b := newRun(append(feat(), GOpt{Kind: "mw", Ms: pool[1]}), "shared:alternating/B", rec, cache)
			exec(a, []Op{{Kind: "handle", Key: 0, Hid: 11, Ms: pool[1]}})
			exec(b, []Op{{Kind: "handle", Key: 0, Hid: 12, Ms: pool[0]}})
			c := newRun(globalUse(len(pool)), "shared:alternating/C", rec, cache)
			exec(a, sweep(0))
			exec(b, sweep(0))
			exec(c, append([]Op{{Kind: "handle", Key: 0, Hid: 13, Ms: pool[0]}}, sweep(0)...))
			runs = []*routerRun{a, b, c}
		}
		for _, r := range runs {
			emit(r)
		}
	}

	// concurrent NewRoute under the race detector
	raceRuns, raceSeen := 0, 0
	for _, ng := range raceGlobals {
		for _, def := range []bool{false, true} {
			if def && ng != 1 && ng != 3 {
				continue
			}
			var gopts []GOpt
			g := &gen{rnd: rnd}
			for len(gopts) < ng {
				if rnd.Pct(50) {
					gopts = append(gopts, GOpt{Kind: "mw", Ms: []Mw{{ID: g.id()}}})
				} else {
					gopts = append(gopts, GOpt{Kind: "for", Scope: uint8(fox.RouteHandler) | g.scope(), Ms: []Mw{{ID: g.id()}}})
				}
			}
			if def {
				pos := rnd.Intn(len(gopts) + 1)
				gopts = append(gopts[:pos:pos], append([]GOpt{{Kind: "default"}}, gopts[pos:]...)...)
			}
			fa, fb := []int{100 + rnd.Intn(20)}, []int{130 + rnd.Intn(20)}
			if rnd.Pct(40) {
				fa = append(fa, 121)
			}
			if rnd.Pct(40) {
				fb = append(fb, 151, 152)
			}
			ro, race, where := runRace(raceSpec{GOpts: gopts, Fa: fa, Fb: fb, Iter: iter, Seed: rnd.U64()})
			if ro.Err != "" {
				hx.Fatal(fmt.Errorf("race child: %s", ro.Err))
			}
			raceRuns++
			if race {
				raceSeen++
			}
			obs := func(t []string, seen int) string {
				s := "None"
				if seen >= 0 && len(t) > 0 {
					s = fmt.Sprintf("(Some %s)", hx.N(uint64(seen)))
				}
				return fmt.Sprintf("(ObsTrace %s %s)", hx.List(t), s)
			}
			idl := func(ids []int) string {
				return hx.ListOf(ids, func(i int) string { return fmt.Sprintf("(User %d)", i) })
			}
			term := fmt.Sprintf("(CRace %s %s %s %s %s %s)", hx.ListOf(gopts, goptTerm), idl(fa), idl(fb), hx.Bool(race), obs(ro.Ta, ro.SeenA), obs(ro.Tb, ro.SeenB))
			h := fmt.Sprintf("2 goroutines x %d NewRoute on fox.New(%s) [router.mws len=%d cap=%d], route middleware A=%v B=%v: data race=%v %s; distinct chains among A routes=%d, B routes=%d; A chain %v; B chain %v",
				iter, hx.ListOf(gopts, goptTerm), ro.RouterMwsLen, ro.RouterMwsCap, fa, fb, race, where, ro.DistinctA, ro.DistinctB, ro.Ta, ro.Tb)
			cs.Add(term, h)
			nontrivial++
			st.Count("kind:race")
			st.Count(fmt.Sprintf("race:globals=%d", ro.RouterMwsLen))
			if ro.RouterMwsCap > ro.RouterMwsLen {
				st.Count("race:spare-capacity")
			}
			if len(st.Samples) < 10 && ro.RouterMwsCap > ro.RouterMwsLen {
				st.Samples = append(st.Samples, h)
			}
			if !ro.RaceEnabled {
				st.Count("race:detector-off")
			}
		}
	}
	if len(st.Samples) == 0 {
		st.Samples = append(st.Samples, "(no sample drawn)")
	}
	st.Evaluations = cs.Len()
	st.DistinctNontrivial = nontrivial
	st.Exhaustive = false
	st.Extra = map[string]any{
		"exhaustive_scopes":          []string{"every HandlerScope mask 0..255 for one scoped middleware x the five handler kinds"},
		"race_detector":              raceEnabled,
		"race_child_runs":            raceRuns,
		"race_child_runs_with_race":  raceSeen,
		"newroute_calls_per_goroutine": iter,
	}
	hx.Fatal(cs.Write(out, shards))
	hx.Fatal(st.Write(out))
	fmt.Printf("c13: %d cases written to %s\n", cs.Len(), out)
}
