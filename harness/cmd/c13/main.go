// c13: middleware composition (scope filtering, order, route chains, Update,
// Route.Handle / HandleMiddleware, DefaultOptions, slice sharing, concurrent
// NewRoute).  Runs fox on generated configurations and writes Coq case files
// comparing the observations with the model (FoxC13.Model) and the specification
// (FoxC13.Spec).
package main

import (
	"bytes"
	"encoding/json"
	"errors"
	"fmt"
	"net/http"
	"net/http/httptest"
	"os"
	"os/exec"
	"runtime"
	"sort"
	"strings"
	"sync"

	"foxverif/hx"

	"github.com/tigerwill90/fox"
)

// ---------- configuration as data (also the wire format to the race child) ----------

type Mw struct {
	Nil bool `json:"nil,omitempty"`
	ID  int  `json:"id"`
}
type GOpt struct {
	Kind  string `json:"kind"` // mw | for | default | other
	Scope uint8  `json:"scope,omitempty"`
	Ms    []Mw   `json:"ms,omitempty"`
	Other int    `json:"other,omitempty"`
}
type Op struct {
	Kind string `json:"kind"` // handle | update | serve | rhandle | rhandlemw
	Key  int    `json:"key"`
	Hid  int    `json:"hid,omitempty"`
	Ms   []Mw   `json:"ms,omitempty"`
	K    int    `json:"k,omitempty"` // handler kind for serve: 0 route 1 noroute 2 nomethod 3 redirect 4 options
}

var kindNames = []string{"KRoute", "KNoRoute", "KNoMethod", "KRedirect", "KOptions"}

// ---------- event recording ----------

type recorder struct {
	mu     sync.Mutex
	evs    []string
	seen   *fox.HandlerScope
	noSeen bool
}

func (r *recorder) emit(ev string, c fox.Context) {
	r.mu.Lock()
	defer r.mu.Unlock()
	if r.seen == nil && !r.noSeen {
		s := c.Scope()
		r.seen = &s
	}
	r.evs = append(r.evs, ev)
}
func (r *recorder) reset(noSeen bool) { r.evs, r.seen, r.noSeen = nil, nil, noSeen }

func userMw(rec *recorder, id int) fox.MiddlewareFunc {
	return func(next fox.HandlerFunc) fox.HandlerFunc {
		return func(c fox.Context) {
			rec.emit(fmt.Sprintf("Enter (User %d)", id), c)
			next(c)
			rec.emit(fmt.Sprintf("Exit (User %d)", id), c)
		}
	}
}
func runHandler(rec *recorder, hid int) fox.HandlerFunc {
	return func(c fox.Context) { rec.emit(fmt.Sprintf("Run %d", hid), c) }
}
func mws(rec *recorder, ms []Mw) []fox.MiddlewareFunc {
	out := make([]fox.MiddlewareFunc, len(ms))
	for i, m := range ms {
		if !m.Nil {
			out[i] = userMw(rec, m.ID)
		}
	}
	return out
}

// classOf identifies a registered middleware function by the name of its code
// (closures of one function literal may be compiled several times when the
// enclosing function is inlined, so code pointers are not comparable, names are).
func classOf(pc uintptr) string {
	fn := runtime.FuncForPC(pc)
	if fn == nil {
		return "CUnknown"
	}
	name := fn.Name()
	switch {
	case strings.Contains(name, "CustomRecoveryWithLogHandler"):
		return "CRecovery"
	case strings.Contains(name, "LoggerWithHandler"):
		return "CLogger"
	case strings.Contains(name, "userMw"):
		return "CUser"
	}
	return "CUnknown" // does not type-check in Coq on purpose: reported as a case-evaluation problem
}

// ---------- building a router from the data ----------

func buildRouter(rec *recorder, gopts []GOpt, rnd *hx.Rand) (*fox.Router, error, bool) {
	var opts []fox.GlobalOption
	for _, g := range gopts {
		switch g.Kind {
		case "mw":
			opts = append(opts, fox.WithMiddleware(mws(rec, g.Ms)...))
		case "for":
			opts = append(opts, fox.WithMiddlewareFor(fox.HandlerScope(g.Scope), mws(rec, g.Ms)...))
		case "default":
			opts = append(opts, fox.DefaultOptions())
		case "other":
			switch g.Other % 3 {
			case 0:
				opts = append(opts, fox.WithMaxRouteParams(100))
			case 1:
				opts = append(opts, fox.WithClientIPResolver(nil))
			default:
				opts = append(opts, fox.WithMaxRouteParamKeyBytes(100))
			}
		}
	}
	// options that make every handler kind reachable and observable; they register no middleware
	// and are inserted at seeded positions among the others
	enabling := []fox.GlobalOption{
		fox.WithNoMethod(true), fox.WithAutoOptions(true), fox.WithRedirectTrailingSlash(true),
		fox.WithNoRouteHandler(runHandler(rec, 1)), fox.WithNoMethodHandler(runHandler(rec, 2)), fox.WithOptionsHandler(runHandler(rec, 3)),
	}
	for _, e := range enabling {
		pos := rnd.Intn(len(opts) + 1)
		opts = append(opts, nil)
		copy(opts[pos+1:], opts[pos:])
		opts[pos] = e
	}
	var (
		f        *fox.Router
		err      error
		panicked bool
	)
	func() {
		defer func() {
			if r := recover(); r != nil {
				panicked = true
			}
		}()
		f, err = fox.New(opts...)
	}()
	return f, err, panicked
}

func errTerm(err error) string {
	switch {
	case err == nil:
		return "None"
	case errors.Is(err, fox.ErrInvalidConfig):
		return "(Some ErrInvalidConfig)"
	case errors.Is(err, fox.ErrRouteExist):
		return "(Some ErrRouteExist)"
	case errors.Is(err, fox.ErrRouteNotFound):
		return "(Some ErrRouteNotFound)"
	}
	return "(Some ErrOther)"
}

func pattern(key int) string { return fmt.Sprintf("/k%d", key) }

func request(k, key int) *http.Request {
	switch k {
	case 0:
		return httptest.NewRequest(http.MethodGet, pattern(key), nil)
	case 1:
		return httptest.NewRequest(http.MethodGet, "/zz/nothing/here", nil)
	case 2:
		return httptest.NewRequest(http.MethodPost, pattern(key), nil)
	case 3:
		return httptest.NewRequest(http.MethodGet, pattern(key)+"/", nil)
	default:
		return httptest.NewRequest(http.MethodOptions, pattern(key), nil)
	}
}

func traceTerm(rec *recorder) string {
	seen := "None"
	if rec.seen != nil {
		seen = fmt.Sprintf("(Some %s)", hx.N(uint64(*rec.seen)))
	}
	return fmt.Sprintf("(ObsTrace %s %s)", hx.List(rec.evs), seen)
}

// runOp executes one operation and returns (observation term, alias term)
func runOp(f *fox.Router, rec *recorder, o Op) (obs string, alias string) {
	alias = "None"
	defer func() {
		if r := recover(); r != nil {
			obs, alias = "ObsPanic", "None"
		}
	}()
	switch o.Kind {
	case "handle", "update":
		var (
			rte *fox.Route
			err error
		)
		if o.Kind == "handle" {
			rte, err = f.Handle(http.MethodGet, pattern(o.Key), runHandler(rec, o.Hid), fox.WithMiddleware(mws(rec, o.Ms)...))
		} else {
			rte, err = f.Update(http.MethodGet, pattern(o.Key), runHandler(rec, o.Hid), fox.WithMiddleware(mws(rec, o.Ms)...))
		}
		if err == nil {
			rm, gm := fox.VerifRouteMws(rte), fox.VerifRouterMws(f)
			alias = fmt.Sprintf("(Some (%s, %d, %s))", hx.Bool(rm.Data == gm.Data), rm.Len, hx.Bool(rm.Cap == rm.Len))
		}
		return "(ObsErr " + errTerm(err) + ")", alias
	case "serve":
		rec.reset(false)
		f.ServeHTTP(httptest.NewRecorder(), request(o.K, o.Key))
		return traceTerm(rec), alias
	default:
		rte := f.Route(http.MethodGet, pattern(o.Key))
		if rte == nil {
			return "ObsNoRoute", alias
		}
		rec.reset(true)
		c := fox.NewTestContextOnly(httptest.NewRecorder(), httptest.NewRequest(http.MethodGet, pattern(o.Key), nil))
		if o.Kind == "rhandle" {
			rte.Handle(c)
		} else {
			rte.HandleMiddleware(c)
		}
		return traceTerm(rec), alias
	}
}

// ---------- Coq terms ----------

func mwTerm(m Mw) string {
	if m.Nil {
		return "None"
	}
	return fmt.Sprintf("(Some (User %d))", m.ID)
}
func goptTerm(g GOpt) string {
	switch g.Kind {
	case "mw":
		return "(GMw " + hx.ListOf(g.Ms, mwTerm) + ")"
	case "for":
		return fmt.Sprintf("(GMwFor %s %s)", hx.N(uint64(g.Scope)), hx.ListOf(g.Ms, mwTerm))
	case "default":
		return "GDefault"
	}
	return "GOther"
}
func opTerm(o Op) string {
	switch o.Kind {
	case "handle":
		return fmt.Sprintf("(OHandle %d %d %s)", o.Key, o.Hid, hx.ListOf(o.Ms, mwTerm))
	case "update":
		return fmt.Sprintf("(OUpdate %d %d %s)", o.Key, o.Hid, hx.ListOf(o.Ms, mwTerm))
	case "serve":
		return fmt.Sprintf("(OServe %s %d)", kindNames[o.K], o.Key)
	case "rhandle":
		return fmt.Sprintf("(ORouteHandle %d)", o.Key)
	}
	return fmt.Sprintf("(ORouteHandleMw %d)", o.Key)
}

// ---------- generators ----------

type gen struct {
	rnd    *hx.Rand
	nextID int
	used   []int
}

func (g *gen) id() int {
	if len(g.used) > 0 && g.rnd.Pct(8) {
		return hx.Pick(g.rnd, g.used) // the same function registered twice
	}
	g.nextID++
	g.used = append(g.used, g.nextID)
	return g.nextID
}
func (g *gen) ms(lo, hi, nilPct int) []Mw {
	n := g.rnd.Range(lo, hi)
	out := make([]Mw, n)
	for i := range out {
		if g.rnd.Pct(nilPct) {
			out[i] = Mw{Nil: true}
		} else {
			out[i] = Mw{ID: g.id()}
		}
	}
	return out
}

var scopeConsts = []uint8{uint8(fox.RouteHandler), uint8(fox.NoRouteHandler), uint8(fox.NoMethodHandler), uint8(fox.RedirectHandler), uint8(fox.OptionsHandler)}

func (g *gen) scope() uint8 {
	switch r := g.rnd.Intn(100); {
	case r < 30:
		return hx.Pick(g.rnd, scopeConsts)
	case r < 60:
		return hx.Pick(g.rnd, scopeConsts) | hx.Pick(g.rnd, scopeConsts)
	case r < 70:
		return uint8(fox.AllHandlers)
	case r < 75:
		return 0
	default:
		return uint8(g.rnd.Intn(256))
	}
}
func (g *gen) gopts(nilPct int) []GOpt {
	n := g.rnd.Range(0, 5)
	if g.rnd.Pct(10) {
		n = g.rnd.Range(6, 9)
	}
	var out []GOpt
	for i := 0; i < n; i++ {
		switch r := g.rnd.Intn(100); {
		case r < 40:
			out = append(out, GOpt{Kind: "mw", Ms: g.ms(1, 3, nilPct)})
		case r < 75:
			out = append(out, GOpt{Kind: "for", Scope: g.scope(), Ms: g.ms(1, 2, nilPct)})
		case r < 87:
			out = append(out, GOpt{Kind: "default"})
		default:
			out = append(out, GOpt{Kind: "other", Other: g.rnd.Intn(3)})
		}
	}
	return out
}
func (g *gen) ops() []Op {
	n := g.rnd.Range(2, 8)
	var out []Op
	hid := 10
	reg := map[int]bool{} // keys probably registered so far (ignores failures: only steers the choice of keys)
	pickKey := func(wantReg bool, pct int) int {
		key := g.rnd.Intn(3)
		if g.rnd.Pct(pct) {
			for k := 0; k < 3; k++ {
				if reg[(key+k)%3] == wantReg {
					return (key + k) % 3
				}
			}
		}
		return key
	}
	for i := 0; i < n; i++ {
		switch r := g.rnd.Intn(100); {
		case r < 35:
			hid++
			key := pickKey(false, 75)
			out = append(out, Op{Kind: "handle", Key: key, Hid: hid, Ms: g.ms(0, 3, 3)})
			reg[key] = true
		case r < 55:
			hid++
			out = append(out, Op{Kind: "update", Key: pickKey(true, 80), Hid: hid, Ms: g.ms(0, 3, 3)})
		case r < 88:
			out = append(out, Op{Kind: "serve", Key: pickKey(true, 70), K: g.rnd.Intn(5)})
		case r < 94:
			out = append(out, Op{Kind: "rhandle", Key: pickKey(true, 70)})
		default:
			out = append(out, Op{Kind: "rhandlemw", Key: pickKey(true, 70)})
		}
	}
	// closing sweep on one key: all five kinds and both direct calls
	key := pickKey(true, 85)
	for k := 0; k < 5; k++ {
		out = append(out, Op{Kind: "serve", Key: key, K: k})
	}
	out = append(out, Op{Kind: "rhandlemw", Key: key}, Op{Kind: "rhandle", Key: key})
	return out
}

// ---------- the race child ----------

type raceSpec struct {
	GOpts []GOpt `json:"gopts"`
	Fa    []int  `json:"fa"`
	Fb    []int  `json:"fb"`
	Iter  int    `json:"iter"`
	Seed  uint64 `json:"seed"`
}
type raceOut struct {
	Ta, Tb         []string
	SeenA, SeenB   int
	DistinctA      int
	DistinctB      int
	RouterMwsCap   int
	RouterMwsLen   int
	Err            string
	RaceEnabled    bool
	RoutesPerGroup int
}

func idsToMs(ids []int) []Mw {
	out := make([]Mw, len(ids))
	for i, id := range ids {
		out[i] = Mw{ID: id}
	}
	return out
}

func raceChild(specJSON string) {
	var sp raceSpec
	if err := json.Unmarshal([]byte(specJSON), &sp); err != nil {
		fmt.Println(`{"Err":"bad spec"}`)
		return
	}
	rec := &recorder{}
	f, err, pan := buildRouter(rec, sp.GOpts, hx.NewRand(sp.Seed))
	out := raceOut{RaceEnabled: raceEnabled, RoutesPerGroup: sp.Iter}
	if err != nil || pan {
		out.Err = fmt.Sprint("router: ", err, pan)
		b, _ := json.Marshal(out)
		fmt.Println(string(b))
		return
	}
	gm := fox.VerifRouterMws(f)
	out.RouterMwsCap, out.RouterMwsLen = gm.Cap, gm.Len
	routes := [2][]*fox.Route{make([]*fox.Route, sp.Iter), make([]*fox.Route, sp.Iter)}
	lists := [2][]int{sp.Fa, sp.Fb}
	var wg sync.WaitGroup
	start := make(chan struct{})
	for gi := 0; gi < 2; gi++ {
		wg.Add(1)
		go func(gi int) {
			defer wg.Done()
			<-start
			for i := 0; i < sp.Iter; i++ {
				// public, lock-free API: two goroutines create routes with their own middleware
				rte, err := f.NewRoute(fmt.Sprintf("/g%d/r%d", gi, i), runHandler(rec, 10+gi), fox.WithMiddleware(mws(rec, idsToMs(lists[gi]))...))
				if err == nil {
					routes[gi][i] = rte
				}
			}
		}(gi)
	}
	close(start)
	wg.Wait()
	// register and serve every created route sequentially; report per group the trace all routes share, or a minority trace
	traces := [2]map[string]int{{}, {}}
	seen := [2]map[string]int{{}, {}}
	for gi := 0; gi < 2; gi++ {
		for i, rte := range routes[gi] {
			if rte == nil {
				traces[gi]["<NewRoute failed>"]++
				continue
			}
			if err := f.HandleRoute(http.MethodGet, rte); err != nil {
				traces[gi]["<HandleRoute failed>"]++
				continue
			}
			rec.reset(false)
			f.ServeHTTP(httptest.NewRecorder(), httptest.NewRequest(http.MethodGet, fmt.Sprintf("/g%d/r%d", gi, i), nil))
			key := strings.Join(rec.evs, "; ")
			traces[gi][key]++
			if rec.seen != nil {
				seen[gi][key] = int(*rec.seen)
			} else {
				seen[gi][key] = -1
			}
		}
	}
	pick := func(m map[string]int) (string, int) {
		keys := hx.SortedKeys(m)
		sort.SliceStable(keys, func(i, j int) bool { return m[keys[i]] < m[keys[j]] })
		return keys[0], len(keys)
	}
	ka, na := pick(traces[0])
	kb, nb := pick(traces[1])
	split := func(s string) []string {
		if s == "" {
			return []string{}
		}
		return strings.Split(s, "; ")
	}
	out.Ta, out.Tb, out.DistinctA, out.DistinctB = split(ka), split(kb), na, nb
	out.SeenA, out.SeenB = seen[0][ka], seen[1][kb]
	b, _ := json.Marshal(out)
	fmt.Println(string(b))
}

func runRace(sp raceSpec) (raceOut, bool, string) {
	b, _ := json.Marshal(sp)
	cmd := exec.Command(os.Args[0], "racechild="+string(b))
	cmd.Env = append(os.Environ(), "GORACE=halt_on_error=0 exitcode=66")
	var so, se bytes.Buffer
	cmd.Stdout, cmd.Stderr = &so, &se
	err := cmd.Run()
	race := strings.Contains(se.String(), "DATA RACE")
	if ee, ok := err.(*exec.ExitError); ok && ee.ExitCode() == 66 {
		race = true
	}
	var out raceOut
	// the Logger middleware of DefaultOptions writes to stdout as well: the result is the last JSON line
	lines := strings.Split(strings.TrimSpace(so.String()), "\n")
	if jerr := json.Unmarshal([]byte(lines[len(lines)-1]), &out); jerr != nil {
		out.Err = "child output unreadable: " + jerr.Error() + " stderr: " + tail(se.String(), 300)
	}
	where := ""
	if race {
		for _, l := range strings.Split(se.String(), "\n") {
			if strings.Contains(l, ".go:") && strings.Contains(l, "fox") {
				where = strings.TrimSpace(l)
				break
			}
		}
	}
	return out, race, where
}

func tail(s string, n int) string {
	if len(s) > n {
		return s[len(s)-n:]
	}
	return s
}

// ---------- main ----------

func main() {
	args := hx.Args()
	if sp, ok := args["racechild"]; ok {
		raceChild(sp)
		return
	}
	out := args["out"]
	tier := args["tier"]
	shards := hx.Atoi(args["shards"], 8)
	rnd := hx.NewRand(hx.Seed())

	cs := &hx.Cases{
		Header: "From FoxBase Require Import Bytes.\nFrom FoxC13 Require Import Types Corr.\n",
		Type:   "case",
		Footer: "Definition mism := Eval vm_compute in mismatches cases.\nPrint mism.\n" +
			"Definition viol := Eval vm_compute in spec_violations cases.\nPrint viol.\n" +
			"Definition oof := Eval vm_compute in fuel_outs cases.\nPrint oof.\n",
	}
	st := &hx.Stats{Rule: "sequential cases: seeded lists of 0-9 global options (WithMiddleware 1-3 fns, WithMiddlewareFor with constant / union / arbitrary uint8 / zero masks, DefaultOptions, unrelated options; nil entries in a separate stream) x 2-8 Handle/Update/request/Route.Handle(Middleware) operations on 3 keys + a closing sweep of all five handler kinds; exhaustive: every scope mask 0..255 x five kinds; race cases: 2 goroutines x N NewRoute with route middleware under 0-7 global entries, in a child process under the race detector. non-trivial = at least one request whose trace contains a middleware event, or an error outcome, or a race case; distinct = distinct (options, operations) pairs"}
	seenCases := map[string]bool{}
	nontrivial := 0

	addSeq := func(g *gen, gopts []GOpt, ops []Op, kind string) {
		rec := &recorder{}
		f, err, pan := buildRouter(rec, gopts, rnd)
		gterm := hx.ListOf(gopts, goptTerm)
		var opTerms, human []string
		mwsTerm := "[]"
		nt := false
		newErr := errTerm(err)
		if pan {
			newErr = "(Some ErrOther)"
			err = errors.New("panic")
		}
		if err == nil {
			gm := fox.VerifRouterMws(f)
			ents := make([]string, len(gm.Entries))
			for i, e := range gm.Entries {
				ents[i] = fmt.Sprintf("(%s, %s, %s)", classOf(e.PC), hx.N(uint64(e.Scope)), hx.Bool(e.Global))
			}
			mwsTerm = hx.List(ents)
			st.Count(fmt.Sprintf("globals:len=%d", gm.Len))
			if gm.Cap > gm.Len {
				st.Count("globals:spare-capacity")
			}
			for _, o := range ops {
				obs, alias := runOp(f, rec, o)
				opTerms = append(opTerms, fmt.Sprintf("(%s, %s, %s)", opTerm(o), obs, alias))
				human = append(human, opTerm(o)+" => "+obs+" alias="+alias)
				st.Count("op:" + o.Kind)
				if o.Kind == "serve" {
					st.Count("serve:" + kindNames[o.K])
				}
				if strings.Contains(obs, "Enter") || strings.Contains(obs, "Some Err") {
					nt = true
				}
				if strings.Contains(obs, "Some Err") {
					st.Count("outcome:" + strings.Trim(strings.TrimPrefix(obs, "(ObsErr (Some "), ")"))
				}
			}
		} else {
			nt = true
			st.Count("new:error")
			ops = nil
		}
		term := fmt.Sprintf("(CSeq %s %s %s %s)", gterm, newErr, mwsTerm, hx.List(opTerms))
		key := gterm + "|" + hx.ListOf(ops, opTerm)
		if seenCases[key] {
			return
		}
		seenCases[key] = true
		if nt {
			nontrivial++
		}
		h := fmt.Sprintf("fox.New(%s) err=%s router.mws=%s; ops: %s", gterm, newErr, mwsTerm, strings.Join(human, " ;; "))
		cs.Add(term, h)
		st.Count("kind:" + kind)
		for _, o := range gopts {
			st.Count("gopt:" + o.Kind)
		}
		if len(st.Samples) < 8 && nt && rnd.Pct(3) {
			st.Samples = append(st.Samples, h)
		}
	}

	nseq, nnil, iter := 500, 80, 150
	raceGlobals := []int{0, 1, 2, 3, 5, 7}
	if tier == "thorough" {
		nseq, nnil, iter = 6000, 600, 600
		raceGlobals = []int{0, 1, 2, 3, 4, 5, 6, 7, 8, 9}
	}
	// exhaustive: every mask, all five kinds
	for m := 0; m < 256; m++ {
		g := &gen{rnd: rnd}
		gopts := []GOpt{{Kind: "for", Scope: uint8(m), Ms: []Mw{{ID: 1}}}}
		ops := []Op{{Kind: "handle", Key: 0, Hid: 11, Ms: []Mw{{ID: 2}}}}
		for k := 0; k < 5; k++ {
			ops = append(ops, Op{Kind: "serve", Key: 0, K: k})
		}
		addSeq(g, gopts, ops, "exhaustive-mask")
	}
	for i := 0; i < nseq; i++ {
		g := &gen{rnd: rnd}
		addSeq(g, g.gopts(0), g.ops(), "random")
	}
	for i := 0; i < nnil; i++ {
		g := &gen{rnd: rnd}
		addSeq(g, g.gopts(12), g.ops(), "random-nil")
	}

	// concurrent NewRoute under the race detector
	raceRuns, raceSeen := 0, 0
	for _, ng := range raceGlobals {
		for _, def := range []bool{false, true} {
			if def && ng != 1 && ng != 3 {
				continue
			}
			var gopts []GOpt
			g := &gen{rnd: rnd}
			for len(gopts) < ng {
				if rnd.Pct(50) {
					gopts = append(gopts, GOpt{Kind: "mw", Ms: []Mw{{ID: g.id()}}})
				} else {
					gopts = append(gopts, GOpt{Kind: "for", Scope: uint8(fox.RouteHandler) | g.scope(), Ms: []Mw{{ID: g.id()}}})
				}
			}
			if def {
				pos := rnd.Intn(len(gopts) + 1)
				gopts = append(gopts[:pos:pos], append([]GOpt{{Kind: "default"}}, gopts[pos:]...)...)
			}
			fa, fb := []int{100 + rnd.Intn(20)}, []int{130 + rnd.Intn(20)}
			if rnd.Pct(40) {
				fa = append(fa, 121)
			}
			if rnd.Pct(40) {
				fb = append(fb, 151, 152)
			}
			ro, race, where := runRace(raceSpec{GOpts: gopts, Fa: fa, Fb: fb, Iter: iter, Seed: rnd.U64()})
			if ro.Err != "" {
				hx.Fatal(fmt.Errorf("race child: %s", ro.Err))
			}
			raceRuns++
			if race {
				raceSeen++
			}
			obs := func(t []string, seen int) string {
				s := "None"
				if seen >= 0 && len(t) > 0 {
					s = fmt.Sprintf("(Some %s)", hx.N(uint64(seen)))
				}
				return fmt.Sprintf("(ObsTrace %s %s)", hx.List(t), s)
			}
			idl := func(ids []int) string {
				return hx.ListOf(ids, func(i int) string { return fmt.Sprintf("(User %d)", i) })
			}
			term := fmt.Sprintf("(CRace %s %s %s %s %s %s)", hx.ListOf(gopts, goptTerm), idl(fa), idl(fb), hx.Bool(race), obs(ro.Ta, ro.SeenA), obs(ro.Tb, ro.SeenB))
			h := fmt.Sprintf("2 goroutines x %d NewRoute on fox.New(%s) [router.mws len=%d cap=%d], route middleware A=%v B=%v: data race=%v %s; distinct chains among A routes=%d, B routes=%d; A chain %v; B chain %v",
				iter, hx.ListOf(gopts, goptTerm), ro.RouterMwsLen, ro.RouterMwsCap, fa, fb, race, where, ro.DistinctA, ro.DistinctB, ro.Ta, ro.Tb)
			cs.Add(term, h)
			nontrivial++
			st.Count("kind:race")
			st.Count(fmt.Sprintf("race:globals=%d", ro.RouterMwsLen))
			if ro.RouterMwsCap > ro.RouterMwsLen {
				st.Count("race:spare-capacity")
			}
			if len(st.Samples) < 10 && ro.RouterMwsCap > ro.RouterMwsLen {
				st.Samples = append(st.Samples, h)
			}
			if !ro.RaceEnabled {
				st.Count("race:detector-off")
			}
		}
	}
	if len(st.Samples) == 0 {
		st.Samples = append(st.Samples, "(no sample drawn)")
	}
	st.Evaluations = cs.Len()
	st.DistinctNontrivial = nontrivial
	st.Exhaustive = false
	st.Extra = map[string]any{
		"exhaustive_scopes":          []string{"every HandlerScope mask 0..255 for one scoped middleware x the five handler kinds"},
		"race_detector":              raceEnabled,
		"race_child_runs":            raceRuns,
		"race_child_runs_with_race":  raceSeen,
		"newroute_calls_per_goroutine": iter,
	}
	hx.Fatal(cs.Write(out, shards))
	hx.Fatal(st.Write(out))
	fmt.Printf("c13: %d cases written to %s\n", cs.Len(), out)
}
