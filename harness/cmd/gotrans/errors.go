package main

// errors.go — `error` results (tie A for parseRoute, docs/Gen.md "error results").
//
// A Go value of type error is translated to GoSemErr.go_error = option (list bytes):
//
//	nil                                   go_nil_error          (None)
//	fmt.Errorf("..%w..%w..", ErrA, ErrB)  go_errorf [ErrA; ErrB] (Some [names])
//
// i.e. a non-nil error is observed only through errors.Is against package-level sentinel
// variables: the list holds the names of the sentinels it wraps (the %w operands, in order).
// The message text and the operands of the other verbs are not part of the value, but those
// operands ARE evaluated (`string(url[i+1])` indexes url): their evaluation is kept, so an
// out-of-range index there is the outcome Panic.
//
// Accepted only in `return` position (resultExpr is called by returnStmt); an error value
// anywhere else is refused.  A sentinel must be a package-level `var X = errors.New("const")`
// that is never assigned and whose address is never taken anywhere in the package, so two
// different names are two different error values for the whole run.

import (
	"go/ast"
	"go/constant"
	"go/token"
	"go/types"
	"strings"
)

const tErr ckind = 100 // the predeclared interface type error

func init() {
	for _, w := range strings.Fields(`go_error go_nil_error go_errorf go_errors_Is go_uint_add go_uint_sub`) {
		reserved[w] = true
	}
}

func errCtype(T types.Type) (ctype, bool) {
	if types.Identical(T, types.Universe.Lookup("error").Type()) {
		return ctype{k: tErr}, true
	}
	return ctype{}, false
}

// resultExpr translates one operand of a return statement whose result has representation want.
func (f *fnCtx) resultExpr(e ast.Expr, want ctype) val {
	if want.k != tErr {
		return f.expr(e)
	}
	e = unparen(e)
	if isNil(f, e) {
		return val{s: "go_nil_error", pure: true, t: want}
	}
	if c, ok := e.(*ast.CallExpr); ok && f.isPkgFunc(c.Fun, "fmt", "Errorf") {
		return f.errorf(c)
	}
	f.refuse(e, "an error result must be nil or fmt.Errorf(<constant format>, ...)")
	return val{}
}

func (f *fnCtx) isPkgFunc(fun ast.Expr, pkg, name string) bool {
	sel, ok := fun.(*ast.SelectorExpr)
	if !ok || sel.Sel.Name != name {
		return false
	}
	id, ok := sel.X.(*ast.Ident)
	if !ok {
		return false
	}
	pn, ok := f.p.info.Uses[id].(*types.PkgName)
	return ok && pn.Imported().Path() == pkg
}

// verbs lists the verb letters of a fmt format string, one per operand; formats with
// `*` widths or explicit argument indexes are refused (the operand/verb pairing would differ).
func (f *fnCtx) verbs(format string, at ast.Node) []byte {
	var vs []byte
	for i := 0; i < len(format); i++ {
		if format[i] != '%' {
			continue
		}
		i++
		for i < len(format) && strings.IndexByte("+-# 0123456789.", format[i]) >= 0 {
			i++
		}
		if i >= len(format) {
			f.refuse(at, "format string ends inside a verb")
		}
		switch c := format[i]; {
		case c == '%':
		case c == '*' || c == '[':
			f.refuse(at, "format string with '*' or explicit argument indexes")
		case c >= 'a' && c <= 'z' || c >= 'A' && c <= 'Z':
			vs = append(vs, c)
		default:
			f.refuse(at, "unrecognised verb %%%c", c)
		}
	}
	return vs
}

func (f *fnCtx) errorf(c *ast.CallExpr) val {
	if c.Ellipsis.IsValid() || len(c.Args) == 0 {
		f.refuse(c, "unsupported fmt.Errorf call")
	}
	tv, ok := f.p.info.Types[c.Args[0]]
	if !ok || tv.Value == nil || tv.Value.Kind() != constant.String {
		f.refuse(c.Args[0], "fmt.Errorf with a format that is not a constant string")
	}
	vs := f.verbs(constant.StringVal(tv.Value), c.Args[0])
	if len(vs) != len(c.Args)-1 {
		f.refuse(c, "fmt.Errorf: %d verbs for %d operands", len(vs), len(c.Args)-1)
	}
	var wrapped []string
	var effects []val
	for i, a := range c.Args[1:] {
		if vs[i] == 'w' {
			wrapped = append(wrapped, coqString(f.sentinel(a)))
			continue
		}
		// not wrapped: only the evaluation of the operand matters
		if _, isIface := f.typeOf(a).Underlying().(*types.Interface); isIface {
			f.refuse(a, "operand of interface type formatted with %%%c (its methods would run)", vs[i])
		}
		if v, ok := f.effects(a); ok {
			effects = append(effects, v)
		}
	}
	term := "go_errorf [" + strings.Join(wrapped, "; ") + "]"
	t := ctype{k: tErr}
	if len(effects) == 0 {
		return val{s: term, pure: true, t: t}
	}
	f.needImpure(c)
	s := "Ret " + paren(term)
	for i := len(effects) - 1; i >= 0; i-- {
		s = "bind " + paren(effects[i].s) + " (fun _ => " + s + ")"
	}
	return val{s: s, t: t}
}

// effects translates an operand whose value is discarded; ok = false when evaluating it
// cannot panic.  string(<byte / integer / string / []byte expression>) cannot panic itself.
func (f *fnCtx) effects(e ast.Expr) (val, bool) {
	e = unparen(e)
	if tv, ok := f.p.info.Types[e]; ok && tv.Value != nil {
		return val{}, false
	}
	if c, ok := e.(*ast.CallExpr); ok && len(c.Args) == 1 && !c.Ellipsis.IsValid() {
		if tv, ok := f.p.info.Types[c.Fun]; ok && tv.IsType() {
			if b, ok := tv.Type.Underlying().(*types.Basic); ok && b.Info()&types.IsString != 0 {
				switch u := f.typeOf(c.Args[0]).Underlying().(type) {
				case *types.Basic:
					if u.Info()&(types.IsInteger|types.IsString) != 0 {
						return f.effects(c.Args[0])
					}
				case *types.Slice:
					if eb, ok := u.Elem().Underlying().(*types.Basic); ok && eb.Kind() == types.Uint8 {
						return f.effects(c.Args[0])
					}
				}
			}
			f.refuse(e, "unsupported conversion in a formatted operand")
		}
	}
	v := f.expr(e)
	if v.pure {
		return val{}, false
	}
	return v, true
}

// sentinel checks that e names a package-level error variable initialised by errors.New("...")
// and never written in the package; it returns the variable's name.
func (f *fnCtx) sentinel(e ast.Expr) string {
	id, ok := unparen(e).(*ast.Ident)
	if !ok {
		f.refuse(e, "the operand of %%w must be a package-level sentinel error variable")
	}
	v, ok := f.p.info.Uses[id].(*types.Var)
	if !ok || v.Pkg() != f.p.pkg || v.Parent() != f.p.pkg.Scope() {
		f.refuse(e, "%s is not a package-level variable of package %s", id.Name, f.p.name)
	}
	if _, isErr := errCtype(v.Type()); !isErr {
		f.refuse(e, "%s is not of type error", id.Name)
	}
	vs := f.p.declNode(v)
	if len(vs.Names) != len(vs.Values) {
		f.refuse(e, "%s: unsupported declaration shape", id.Name)
	}
	for i, n := range vs.Names {
		if f.p.info.Defs[n] != v {
			continue
		}
		c, ok := vs.Values[i].(*ast.CallExpr)
		if !ok || !f.isPkgFunc(c.Fun, "errors", "New") || len(c.Args) != 1 {
			f.refuse(e, "%s is not initialised by errors.New(..)", id.Name)
		}
		if tv, ok := f.p.info.Types[c.Args[0]]; !ok || tv.Value == nil {
			f.refuse(e, "%s: errors.New of a non-constant", id.Name)
		}
	}
	is := func(x ast.Expr) bool {
		xi, ok := unparen(x).(*ast.Ident)
		return ok && f.p.info.Uses[xi] == v
	}
	for _, file := range f.p.files {
		ast.Inspect(file, func(n ast.Node) bool {
			switch x := n.(type) {
			case *ast.AssignStmt:
				for _, l := range x.Lhs {
					if is(l) {
						f.refuse(x, "sentinel %s is assigned", id.Name)
					}
				}
			case *ast.UnaryExpr:
				if x.Op == token.AND && is(x.X) {
					f.refuse(x, "address of sentinel %s taken", id.Name)
				}
			case *ast.RangeStmt:
				if x.Tok == token.ASSIGN && (x.Key != nil && is(x.Key) || x.Value != nil && is(x.Value)) {
					f.refuse(x, "sentinel %s is assigned by a range clause", id.Name)
				}
			}
			return true
		})
	}
	return v.Name()
}
