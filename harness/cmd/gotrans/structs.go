package main

// structs.go — a local slice of a small struct type that is only ever built by append and returned
// (tie A for parseWildcard, docs/Gen.md "record lists").
//
//	type param struct { key string; end int; catchAll bool }
//	var params []param                                   let params : list (bytes * Z * bool) := [] in
//	params = append(params, param{key: e1, end: e2})     let params := params ++ [(e1, e2, false)] in
//	return params                                        Ret params
//
// A value of type []T (T a named struct type of the package whose fields all have a basic type:
// string, bool, an integer type) is represented by the list of its elements, each element by the
// tuple of its fields in DECLARATION order; fields omitted from a keyed literal are zero values.
//
// Go slices are references and append may write into the spare capacity of a shared backing array;
// a Coq list is a value.  The representation is exact as long as no second slice header for the same
// array is ever live, so the translator refuses every use of such a variable except
//
//	var x []T                    (no initialiser)
//	x = append(x, T{...})        (the SAME variable on both sides, exactly one composite literal)
//	return x                     (as an operand of return)
//
// in particular y := x, x[i], x[i].f = v, len(x), range x, x == nil, passing x to a function,
// append(x, a, b), append(x, ys...), &T{..} and a parameter of type []T are all refused
// (checkRecUses runs over the whole body before anything is translated).

import (
	"go/ast"
	"go/token"
	"go/types"
	"strings"
)

const tRecs ckind = 101 // []T, T a struct of basic-typed fields: list of tuples

type recInfo struct {
	named  *types.Named
	fields []string
	ftypes []ctype
}

func (r *recInfo) elemString() string {
	parts := make([]string, len(r.ftypes))
	for i, c := range r.ftypes {
		parts[i] = c.String()
	}
	if len(parts) == 1 {
		return parts[0]
	}
	return "(" + strings.Join(parts, " * ") + ")"
}

// recCtype recognises []T (unnamed slice type, T as above); anything else: not ours.
func (f *fnCtx) recCtype(T types.Type) (ctype, bool) {
	sl, ok := T.(*types.Slice)
	if !ok {
		return ctype{}, false
	}
	n, ok := sl.Elem().(*types.Named)
	if !ok || n.Obj().Pkg() != f.p.pkg || n.TypeArgs().Len() > 0 {
		return ctype{}, false
	}
	if _, viewed := f.d.Views[n.Obj().Name()]; viewed {
		return ctype{}, false
	}
	st, ok := n.Underlying().(*types.Struct)
	if !ok || st.NumFields() == 0 {
		return ctype{}, false
	}
	ri := &recInfo{named: n}
	for i := 0; i < st.NumFields(); i++ {
		fl := st.Field(i)
		if fl.Embedded() || fl.Name() == "_" {
			return ctype{}, false
		}
		b, ok := fl.Type().Underlying().(*types.Basic)
		if !ok || b.Info()&(types.IsString|types.IsBoolean|types.IsInteger) == 0 {
			return ctype{}, false // no slices, pointers, nested structs: they would alias
		}
		c, ok := f.tryCtype(fl.Type())
		if !ok || (c.k != tBytes && c.k != tZ && c.k != tBool && c.k != tByte) {
			return ctype{}, false
		}
		ri.fields = append(ri.fields, fl.Name())
		ri.ftypes = append(ri.ftypes, c)
	}
	return ctype{k: tRecs, rec: ri}, true
}

func (f *fnCtx) isRecType(T types.Type) bool {
	if T == nil {
		return false
	}
	_, ok := f.recCtype(T)
	return ok
}

func (f *fnCtx) objOf(id *ast.Ident) types.Object {
	if o := f.p.info.Defs[id]; o != nil {
		return o
	}
	return f.p.info.Uses[id]
}

// appendForm recognises  x = append(x, T{...})  with x a variable of a record-list type.
func (f *fnCtx) appendForm(s *ast.AssignStmt) (x *ast.Ident, arg0 *ast.Ident, lit *ast.CompositeLit, ok bool) {
	if s.Tok != token.ASSIGN || len(s.Lhs) != 1 || len(s.Rhs) != 1 {
		return nil, nil, nil, false
	}
	l, ok1 := s.Lhs[0].(*ast.Ident)
	c, ok2 := s.Rhs[0].(*ast.CallExpr)
	if !ok1 || !ok2 || c.Ellipsis.IsValid() || len(c.Args) != 2 {
		return nil, nil, nil, false
	}
	fn, ok := c.Fun.(*ast.Ident)
	if !ok {
		return nil, nil, nil, false
	}
	if b, ok := f.p.info.Uses[fn].(*types.Builtin); !ok || b.Name() != "append" {
		return nil, nil, nil, false
	}
	a0, ok := c.Args[0].(*ast.Ident)
	if !ok {
		return nil, nil, nil, false
	}
	cl, ok := c.Args[1].(*ast.CompositeLit)
	if !ok {
		return nil, nil, nil, false
	}
	o := f.p.info.Uses[l]
	if o == nil || f.p.info.Uses[a0] != o {
		return nil, nil, nil, false
	}
	v, isVar := o.(*types.Var)
	if !isVar || v.IsField() || v.Parent() == f.p.pkg.Scope() || !f.isRecType(v.Type()) {
		return nil, nil, nil, false
	}
	return l, a0, cl, true
}

// checkRecUses refuses every occurrence of a variable of a record-list type outside the three
// accepted forms (see the comment at the top of the file).
func (f *fnCtx) checkRecUses(fd *ast.FuncDecl) {
	var sigFields []*ast.Field
	if fd.Recv != nil {
		sigFields = append(sigFields, fd.Recv.List...)
	}
	sigFields = append(sigFields, fd.Type.Params.List...)
	for _, fl := range sigFields {
		if f.isRecType(f.p.info.TypeOf(fl.Type)) {
			f.refuse(fl, "parameter of a slice-of-struct type (only a local variable built by append and returned is accepted)")
		}
	}
	allowed := map[*ast.Ident]bool{}
	ast.Inspect(fd.Body, func(n ast.Node) bool {
		switch x := n.(type) {
		case *ast.FuncLit:
			return true
		case *ast.AssignStmt:
			if l, a0, _, ok := f.appendForm(x); ok {
				allowed[l], allowed[a0] = true, true
			}
		case *ast.ReturnStmt:
			for _, r := range x.Results {
				if id, ok := r.(*ast.Ident); ok {
					allowed[id] = true
				}
			}
		case *ast.DeclStmt:
			if gd, ok := x.Decl.(*ast.GenDecl); ok && gd.Tok == token.VAR {
				for _, sp := range gd.Specs {
					if vs, ok := sp.(*ast.ValueSpec); ok && len(vs.Values) == 0 {
						for _, id := range vs.Names {
							allowed[id] = true
						}
					}
				}
			}
		}
		return true
	})
	ast.Inspect(fd.Body, func(n ast.Node) bool {
		id, ok := n.(*ast.Ident)
		if !ok || allowed[id] {
			return true
		}
		if v, ok := f.objOf(id).(*types.Var); ok && !v.IsField() && f.isRecType(v.Type()) {
			f.refuse(id, "%s has a slice-of-struct type: only `var %s []T`, `%s = append(%s, T{...})` and `return %s` are accepted (anything else could alias its backing array)",
				id.Name, id.Name, id.Name, id.Name, id.Name)
		}
		return true
	})
	// composite literals of such element types, and expressions of such a slice type, only inside the append form
	litOK := map[*ast.CompositeLit]bool{}
	callOK := map[*ast.CallExpr]bool{}
	ast.Inspect(fd.Body, func(n ast.Node) bool {
		if as, ok := n.(*ast.AssignStmt); ok {
			if _, _, cl, ok := f.appendForm(as); ok {
				litOK[cl] = true
				callOK[as.Rhs[0].(*ast.CallExpr)] = true
			}
		}
		return true
	})
	ast.Inspect(fd.Body, func(n ast.Node) bool {
		switch x := n.(type) {
		case *ast.CompositeLit:
			if litOK[x] {
				return true
			}
			if T := f.p.info.TypeOf(x); T != nil {
				if f.isRecType(T) || f.isRecType(types.NewSlice(T)) {
					f.refuse(x, "composite literal of a struct / slice-of-struct type outside `x = append(x, T{...})`")
				}
			}
		case *ast.CallExpr:
			if !callOK[x] && f.isRecType(f.p.info.TypeOf(x)) {
				f.refuse(x, "call producing a slice-of-struct value outside `x = append(x, T{...})`")
			}
		case *ast.SliceExpr:
			if f.isRecType(f.p.info.TypeOf(x)) {
				f.refuse(x, "slice expression on a slice of structs")
			}
		}
		return true
	})
}

// recAssign translates  x = append(x, T{...}).  Any other assignment that involves a record-list
// value was refused by checkRecUses; (.., false) = not ours.
func (f *fnCtx) recAssign(s *ast.AssignStmt, sc scope, next func(scope) string) (string, bool) {
	l, _, cl, ok := f.appendForm(s)
	if !ok {
		for _, e := range append(append([]ast.Expr{}, s.Lhs...), s.Rhs...) {
			if tv, ok := f.p.info.Types[e]; ok && f.isRecType(tv.Type) {
				if id, isId := e.(*ast.Ident); !isId || id.Name != "_" {
					f.refuse(s, "assignment involving a slice of structs outside `x = append(x, T{...})`")
				}
			}
		}
		return "", false
	}
	o := f.lhsVar(l)
	ct := f.ctypeOfObj(o, l)
	if ct.k != tRecs {
		f.refuse(s, "internal: %s is not a record list", l.Name)
	}
	ri := ct.rec
	if T := f.p.info.TypeOf(cl); T == nil || !types.Identical(T, ri.named) {
		f.refuse(cl, "the appended value must be a composite literal of type %s", ri.named.Obj().Name())
	}
	vals := make([]*val, len(ri.fields))
	keyed := 0
	for _, e := range cl.Elts {
		if _, ok := e.(*ast.KeyValueExpr); ok {
			keyed++
		}
	}
	if keyed != 0 && keyed != len(cl.Elts) {
		f.refuse(cl, "mixed keyed / positional composite literal")
	}
	if keyed == 0 && len(cl.Elts) != 0 && len(cl.Elts) != len(ri.fields) {
		f.refuse(cl, "positional composite literal with %d of %d fields", len(cl.Elts), len(ri.fields))
	}
	for i, e := range cl.Elts {
		ix, ve := i, e
		if kv, ok := e.(*ast.KeyValueExpr); ok {
			k, ok := kv.Key.(*ast.Ident)
			if !ok {
				f.refuse(kv, "composite literal key is not a field name")
			}
			ix = -1
			for j, n := range ri.fields {
				if n == k.Name {
					ix = j
				}
			}
			if ix < 0 {
				f.refuse(kv, "unknown field %s", k.Name)
			}
			ve = kv.Value
		}
		if vals[ix] != nil {
			f.refuse(e, "field %s given twice", ri.fields[ix])
		}
		v := f.expr(ve)
		if v.t.String() != ri.ftypes[ix].String() {
			f.refuse(ve, "field %s: value has representation %s, expected %s", ri.fields[ix], v.t, ri.ftypes[ix])
		}
		vals[ix] = &v
	}
	vs := make([]val, len(vals))
	for i := range vals {
		if vals[i] == nil { // a field omitted from the literal is the zero value of its type
			vs[i] = val{s: ri.ftypes[i].zero(), pure: true, t: ri.ftypes[i]}
		} else {
			vs[i] = *vals[i]
		}
	}
	xs := f.nameOf(o)
	v := f.seq(vs, ct, func(a []string) string { return xs + " ++ [" + tuple(a) + "]" })
	return f.letOrBind(xs, v, next(sc)), true
}
