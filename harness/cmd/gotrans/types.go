package main

import (
	"fmt"
	"go/ast"
	"go/constant"
	"go/types"
	"strings"
)

// ---- Coq-side types ----
type ckind int

const (
	tBytes ckind = iota // string, []byte
	tZ                  // int, rune, named integer types
	tByte               // byte / uint8 (unnamed)
	tBool
	tList // array or slice of elem
	tOpt  // pointer to a viewed struct
	tBuf  // a mutable []byte buffer (local variable, or the target of a *[]byte parameter): GoSem.gobuf = backing array + length
)

type ctype struct {
	k    ckind
	elem *ctype
	rec  *recInfo // structs.go: tRecs only
}

func (c ctype) String() string {
	switch c.k {
	case tBytes:
		return "bytes"
	case tZ:
		return "Z"
	case tByte:
		return "ascii"
	case tBool:
		return "bool"
	case tList:
		return "(list " + c.elem.String() + ")"
	case tOpt:
		return "(option " + c.elem.String() + ")"
	case tBuf:
		return "gobuf"
	case tErr: // errors.go
		return "go_error"
	case tRecs: // structs.go
		return "(list " + c.rec.elemString() + ")"
	}
	return "?"
}

func (c ctype) zero() string {
	switch c.k {
	case tBytes, tList:
		return "[]"
	case tZ:
		return "0"
	case tByte:
		return "(ascii_of_N 0)"
	case tBool:
		return "false"
	case tOpt:
		return "None"
	case tBuf:
		return "buf_nil"
	case tErr: // errors.go
		return "go_nil_error"
	case tRecs: // structs.go
		return "[]"
	}
	return "?"
}

// classify maps a Go type to its Coq representation, or refuses.
func (f *fnCtx) ctypeOf(T types.Type, at ast.Node) ctype {
	c, ok := f.tryCtype(T)
	if !ok {
		die("%s: %s: unsupported type %s", f.p.pos(at), f.d.Name, T)
	}
	return c
}

// isByteSlice: exactly []byte (unnamed element type uint8).
func isByteSlice(T types.Type) bool {
	sl, ok := T.Underlying().(*types.Slice)
	return ok && types.Identical(sl.Elem(), types.Typ[types.Uint8])
}

// isByteSlicePtr: *[]byte
func isByteSlicePtr(T types.Type) bool {
	pt, ok := T.Underlying().(*types.Pointer)
	return ok && isByteSlice(pt.Elem())
}

// ctypeOfObj is the representation of a variable.  A []byte PARAMETER passed by value is only ever
// read (index assignment to it is refused) and is represented by its contents (bytes).  A LOCAL
// []byte variable and the target of a *[]byte parameter are mutable buffers: gobuf (backing array
// up to the capacity + length), under the aliasing discipline of buf.go.
func (f *fnCtx) ctypeOfObj(o types.Object, at ast.Node) ctype {
	if f.isBufVar(o) {
		return ctype{k: tBuf}
	}
	return f.ctypeOf(o.Type(), at)
}

func (f *fnCtx) isBufVar(o types.Object) bool {
	if o == nil {
		return false
	}
	if _, ok := o.(*types.Var); !ok {
		return false
	}
	if f.outParam[o] {
		return true
	}
	return isByteSlice(o.Type()) && !f.byval[o] && o.Parent() != f.p.pkg.Scope()
}

func (f *fnCtx) tryCtype(T types.Type) (ctype, bool) {
	if c, ok := errCtype(T); ok { // errors.go: the predeclared type error
		return c, true
	}
	if c, ok := f.recCtype(T); ok { // structs.go: []T, T a struct of basic-typed fields
		return c, true
	}
	if types.Identical(T, types.Typ[types.Uint8]) {
		return ctype{k: tByte}, true
	}
	switch u := T.Underlying().(type) {
	case *types.Basic:
		switch {
		case u.Info()&types.IsString != 0:
			return ctype{k: tBytes}, true
		case u.Info()&types.IsBoolean != 0:
			return ctype{k: tBool}, true
		case u.Info()&types.IsInteger != 0:
			return ctype{k: tZ}, true
		}
	case *types.Slice:
		e, ok := f.tryCtype(u.Elem())
		if !ok {
			return ctype{}, false
		}
		if e.k == tByte {
			return ctype{k: tBytes}, true
		}
		return ctype{k: tList, elem: &e}, true
	case *types.Array:
		e, ok := f.tryCtype(u.Elem())
		if !ok || e.k == tByte {
			return ctype{}, false
		}
		return ctype{k: tList, elem: &e}, true
	case *types.Pointer:
		if n, ok := u.Elem().(*types.Named); ok {
			if fld, ok := f.d.Views[n.Obj().Name()]; ok {
				if st, ok := n.Underlying().(*types.Struct); ok {
					for i := 0; i < st.NumFields(); i++ {
						if st.Field(i).Name() == fld {
							e, ok := f.tryCtype(st.Field(i).Type())
							if !ok {
								return ctype{}, false
							}
							return ctype{k: tOpt, elem: &e}, true
						}
					}
				}
			}
		}
	}
	return ctype{}, false
}

// ---- constants ----
func coqString(s string) string {
	if s == "" {
		return "[]"
	}
	printable := true
	for i := 0; i < len(s); i++ {
		if s[i] < 0x20 || s[i] > 0x7e || s[i] == '"' {
			printable = false
		}
	}
	if printable {
		return "(S2B \"" + s + "\")"
	}
	parts := make([]string, len(s))
	for i := 0; i < len(s); i++ {
		parts[i] = fmt.Sprint(s[i])
	}
	return "(B [" + strings.Join(parts, ";") + "]%N)"
}

func coqByte(b byte) string {
	if b >= 0x21 && b <= 0x7e && b != '"' {
		return "\"" + string(rune(b)) + "\""
	}
	return fmt.Sprintf("(ascii_of_N %d)", b)
}

func coqZ(v int64) string {
	if v < 0 {
		return fmt.Sprintf("(%d)", v)
	}
	return fmt.Sprint(v)
}

func (f *fnCtx) constant(v constant.Value, c ctype, at ast.Node) string {
	switch c.k {
	case tBytes:
		if v.Kind() == constant.String {
			return coqString(constant.StringVal(v))
		}
	case tZ:
		if x, ok := constant.Int64Val(constant.ToInt(v)); ok {
			return coqZ(x)
		}
	case tByte:
		if x, ok := constant.Int64Val(constant.ToInt(v)); ok && x >= 0 && x <= 255 {
			return coqByte(byte(x))
		}
	case tBool:
		if v.Kind() == constant.Bool {
			if constant.BoolVal(v) {
				return "true"
			}
			return "false"
		}
	}
	die("%s: %s: unsupported constant %s", f.p.pos(at), f.d.Name, v)
	return ""
}

// ---- names ----
var reserved = map[string]bool{}

func init() {
	for _, w := range strings.Fields(`as at cofix else end exists exists2 fix for forall fun if IF in let match mod
		return Set Prop Type then using where with by len bind Ret Panic OutOfFuel bytes Z N nat bool list option
		Some None true false negb andb orb fst snd length rev firstn skipn map app nil cons
		go_index go_slice go_slice_from go_slice_to go_deref go_isnil bz byte_ltb byte_leb go_uint_shr
		strings_IndexByte strings_LastIndexByte strings_HasPrefix strings_HasSuffix strings_TrimPrefix
		strings_TrimSuffix strings_Contains decode_rune bytes_eqb S2B B ascii ascii_of_N O S
		gobuf buf_nil buf_len buf_cap buf_make buf_reslice_to buf_index buf_set buf_copy buf_string b_arr b_len
		zero_byte list_set repeat`) {
		reserved[w] = true
	}
}

func (f *fnCtx) nameOf(o types.Object) string {
	if n, ok := f.names[o]; ok {
		return n
	}
	base := o.Name()
	if reserved[base] || strings.HasPrefix(base, "gen_") {
		base += "_"
	}
	n := base
	for i := 2; f.taken[n]; i++ {
		n = fmt.Sprintf("%s'%d", base, i)
	}
	f.taken[n] = true
	f.names[o] = n
	return n
}

func (f *fnCtx) fresh() string {
	for {
		f.tmp++
		n := fmt.Sprintf("v'%d", f.tmp)
		if !f.taken[n] {
			f.taken[n] = true
			return n
		}
	}
}

func indent(s string, n int) string {
	pad := strings.Repeat(" ", n)
	lines := strings.Split(s, "\n")
	for i, l := range lines {
		if l != "" {
			lines[i] = pad + l
		}
	}
	return strings.Join(lines, "\n")
}
