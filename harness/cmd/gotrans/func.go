package main

import (
	"fmt"
	"go/ast"
	"go/token"
	"go/types"
	"strings"
)

type pparam struct {
	name string
	t    ctype
}

type fnCtx struct {
	p       *pkgInfo
	d       *directive
	out     *output
	gen     string // gen_<Name>
	pure    bool
	res     []ctype
	names   map[types.Object]string
	taken   map[string]bool
	local   map[types.Object]bool   // variables of the function (parameters, results, locals)
	roots   map[types.Object]string // struct-typed parameters, flattened into path parameters
	paths   []pparam
	pathIx  map[string]bool
	frozen  bool           // second pass: the set of path parameters is fixed
	params  []types.Object // scalar parameters in declaration order
	named   []types.Object // named results
	tmp     int
	nloop   int
	inLoop  int
	helpers []string

	// mutable []byte buffers (buf.go)
	byval     map[types.Object]bool         // []byte parameters passed by value: read-only, represented as bytes
	outParam  map[types.Object]bool         // *[]byte parameters: the callee returns the new slice
	outs      []types.Object                // the same, in declaration order (appended to the results)
	aliasOf   map[types.Object]types.Object // b -> buf for `b := *buf`
	stale     map[types.Object]bool         // alias variables whose Coq value no longer reflects the Go slice (flow-sensitive)
	noReturn  int                           // > 0 while translating the body of a nested (state-returning) loop
	declRes   int                           // number of declared results (f.res = declared results ++ out parameters)
	file      string
}

func (f *fnCtx) pathParam(name string, t ctype) {
	if f.pathIx[name] {
		return
	}
	if f.frozen {
		die("internal: path parameter %s discovered in the second pass", name)
	}
	if f.taken[name] {
		die("%s: flattened parameter name %s clashes with a variable", f.d.Name, name)
	}
	f.pathIx[name] = true
	f.paths = append(f.paths, pparam{name, t})
}

func (f *fnCtx) resType() string {
	var r string
	switch len(f.res) {
	case 1:
		r = f.res[0].String()
	default:
		parts := make([]string, len(f.res))
		for i, c := range f.res {
			parts[i] = c.String()
		}
		r = "(" + strings.Join(parts, " * ") + ")"
	}
	if f.pure {
		return r
	}
	return "outcome " + r
}

// scope: the variables visible at a program point, in declaration order
type scope []types.Object

func (s scope) with(o types.Object) scope {
	n := make(scope, len(s), len(s)+1)
	copy(n, s)
	return append(n, o)
}

// binders renders the parameter list of a loop helper / the main definition.
func (f *fnCtx) binders(sc scope) string {
	var sb strings.Builder
	for _, pp := range f.paths {
		fmt.Fprintf(&sb, " (%s : %s)", pp.name, pp.t)
	}
	for _, o := range sc {
		fmt.Fprintf(&sb, " (%s : %s)", f.nameOf(o), f.ctypeOfObj(o, nil))
	}
	return sb.String()
}

func (f *fnCtx) actuals(sc scope) string {
	var parts []string
	for _, pp := range f.paths {
		parts = append(parts, pp.name)
	}
	for _, o := range sc {
		parts = append(parts, f.nameOf(o))
	}
	return strings.Join(parts, " ")
}

func isStructish(T types.Type) bool {
	if p, ok := T.Underlying().(*types.Pointer); ok {
		T = p.Elem()
	}
	_, ok := T.Underlying().(*types.Struct)
	return ok
}

// impureBody decides whether the function needs the outcome monad.
func (f *fnCtx) impureNode(n ast.Node) bool {
	imp := false
	ast.Inspect(n, func(n ast.Node) bool {
		switch x := n.(type) {
		case *ast.IndexExpr, *ast.SliceExpr, *ast.ForStmt, *ast.RangeStmt, *ast.StarExpr:
			imp = true
		case *ast.SelectorExpr:
			if tv, ok := f.p.info.Types[x.X]; ok && tv.Type != nil {
				if _, ok := tv.Type.Underlying().(*types.Pointer); ok {
					imp = true
				}
			}
		case *ast.CallExpr:
			if id, ok := x.Fun.(*ast.Ident); ok {
				switch o := f.p.info.Uses[id].(type) {
				case *types.Builtin:
					if o.Name() == "panic" || o.Name() == "make" || o.Name() == "copy" {
						imp = true
					}
				case *types.Func:
					if sg, ok := f.out.funcs[f.p.name+"."+o.Name()]; ok && !sg.pure {
						imp = true
					}
				}
			}
		}
		return !imp
	})
	return imp
}

func newCtx(out *output, p *pkgInfo, d *directive) *fnCtx {
	return &fnCtx{p: p, d: d, out: out, gen: "gen_" + d.Name, names: map[types.Object]string{}, taken: map[string]bool{},
		local: map[types.Object]bool{}, roots: map[types.Object]string{}, pathIx: map[string]bool{},
		byval: map[types.Object]bool{}, outParam: map[types.Object]bool{}, aliasOf: map[types.Object]types.Object{},
		stale: map[types.Object]bool{}, file: d.File}
}

// declare registers the parameters (and receiver) of fd.
func (f *fnCtx) declare(fd *ast.FuncDecl, only map[types.Object]bool) {
	var fields []*ast.Field
	if fd.Recv != nil {
		fields = append(fields, fd.Recv.List...)
	}
	fields = append(fields, fd.Type.Params.List...)
	for _, fl := range fields {
		for _, id := range fl.Names {
			o := f.p.info.Defs[id]
			if o == nil || id.Name == "_" {
				continue
			}
			if only != nil && !only[o] {
				continue
			}
			if isByteSlicePtr(o.Type()) && fd.Recv == nil {
				// buf *[]byte: the function is translated as RETURNING the new slice (after its declared results)
				f.outParam[o] = true
				f.outs = append(f.outs, o)
				f.local[o] = true
				f.nameOf(o)
				f.params = append(f.params, o)
			} else if _, ok := f.tryCtype(o.Type()); ok {
				if isByteSlice(o.Type()) {
					f.byval[o] = true
				}
				f.local[o] = true
				f.nameOf(o)
				f.params = append(f.params, o)
			} else if isStructish(o.Type()) {
				f.taken[id.Name] = true
				f.roots[o] = id.Name
			} else {
				die("%s: %s: parameter %s has unsupported type %s", f.p.pos(id), f.d.Name, id.Name, o.Type())
			}
		}
	}
}

func emitFunc(out *output, p *pkgInfo, d *directive) {
	fd := p.findFunc(d.Func)
	if fd.Type.TypeParams != nil {
		die("%s: generic function", d.Name)
	}
	var paths []pparam
	var text string
	var f *fnCtx
	for pass := 0; pass < 2; pass++ {
		f = newCtx(out, p, d)
		f.declare(fd, nil)
		f.checkRecUses(fd) // structs.go
		if pass == 1 {
			f.frozen = true
			for _, pp := range paths {
				f.pathIx[pp.name] = true
				f.taken[pp.name] = true
			}
			f.paths = paths
		}
		if (fd.Type.Results == nil || len(fd.Type.Results.List) == 0) && len(f.outs) == 0 {
			die("%s: function without result", d.Name)
		}
		var resList []*ast.Field
		if fd.Type.Results != nil {
			resList = fd.Type.Results.List
		}
		for _, fl := range resList {
			n := len(fl.Names)
			if n == 0 {
				n = 1
			}
			for i := 0; i < n; i++ {
				f.res = append(f.res, f.ctypeOf(p.info.TypeOf(fl.Type), fl.Type))
			}
			for _, id := range fl.Names {
				o := p.info.Defs[id]
				f.local[o] = true
				f.named = append(f.named, o)
			}
		}
		f.declRes = len(f.res)
		for range f.outs {
			f.res = append(f.res, ctype{k: tBuf})
		}
		f.pure = !f.impureNode(fd.Body) && len(f.outs) == 0
		sc := scope(f.params)
		pre := ""
		for _, o := range f.named {
			pre += "let " + f.nameOf(o) + " : " + f.ctypeOfObj(o, nil).String() + " := " + f.ctypeOfObj(o, nil).zero() + " in\n"
			sc = sc.with(o)
		}
		k := kont{normal: func() string {
			if f.declRes == 0 && len(f.outs) > 0 {
				// a function without declared results returns at the end of its body: the out parameters
				return f.returnOuts(nil)
			}
			die("%s: %s: control may reach the end of the function", p.pos(fd.Body), d.Name)
			return ""
		}}
		text = pre + f.stmts(fd.Body.List, sc, k)
		paths = f.paths
	}
	recvless := fd.Recv == nil && len(f.roots) == 0
	what := "func " + d.Func
	out.sb.WriteString(header(p, fd, what))
	for _, h := range f.helpers {
		out.sb.WriteString(h + "\n")
	}
	fmt.Fprintf(out.sb, "Definition %s%s : %s :=\n%s.\n\n", f.gen, f.binders(scope(f.params)), f.resType(), indent(text, 2))
	sg := &sig{coq: f.gen, pure: f.pure, res: f.res, recvless: recvless, file: d.File, declRes: f.declRes}
	for i, o := range f.params {
		if f.outParam[o] {
			sg.outIdx = append(sg.outIdx, i)
		}
	}
	if len(sg.outIdx) > 0 && len(f.params) != fd.Type.Params.NumFields() {
		die("%s: out parameters together with flattened struct parameters", d.Name)
	}
	out.funcs[p.name+"."+d.Func] = sg
}

// emitGuard extracts the condition of the N-th if statement (source order) of a function
// as a boolean function of the parameters it mentions.
func emitGuard(out *output, p *pkgInfo, d *directive) {
	fd := p.findFunc(d.Func)
	var ifs []*ast.IfStmt
	ast.Inspect(fd.Body, func(n ast.Node) bool {
		if _, ok := n.(*ast.FuncLit); ok {
			return false
		}
		if s, ok := n.(*ast.IfStmt); ok {
			ifs = append(ifs, s)
		}
		return true
	})
	if d.IfN >= len(ifs) {
		die("%s: %s has only %d if statements, directive asks for #%d", d.Name, d.Func, len(ifs), d.IfN)
	}
	st := ifs[d.IfN]
	if st.Init != nil {
		die("%s: %s: if statement with an init clause", p.pos(st), d.Name)
	}
	// every identifier of the condition must be a parameter of the function or a constant
	used := map[types.Object]bool{}
	params := map[types.Object]bool{}
	for _, fl := range fd.Type.Params.List {
		for _, id := range fl.Names {
			params[p.info.Defs[id]] = true
		}
	}
	ast.Inspect(st.Cond, func(n ast.Node) bool {
		if id, ok := n.(*ast.Ident); ok {
			if v, ok := p.info.Uses[id].(*types.Var); ok && !v.IsField() {
				if !params[v] {
					die("%s: %s: the condition mentions %s, which is not a parameter of %s", p.pos(id), d.Name, id.Name, d.Func)
				}
				used[v] = true
			}
		}
		return true
	})
	f := newCtx(out, p, d)
	f.declare(&ast.FuncDecl{Type: &ast.FuncType{Params: fd.Type.Params}}, used)
	f.res = []ctype{{k: tBool}}
	f.pure = !f.impureNode(st.Cond)
	v := f.expr(st.Cond)
	if v.t.k != tBool {
		die("%s: condition is not boolean", d.Name)
	}
	body := v.s
	if !f.pure && v.pure {
		body = "Ret " + paren(v.s)
	}
	out.sb.WriteString(header(p, st.Cond, fmt.Sprintf("condition of if statement #%d of func %s", d.IfN, d.Func)))
	fmt.Fprintf(out.sb, "Definition %s%s : %s :=\n  %s.\n\n", f.gen, f.binders(scope(f.params)), f.resType(), body)
}

func (p *pkgInfo) lookup(name string) types.Object {
	o := p.pkg.Scope().Lookup(name)
	if o == nil {
		die("package-level object %s not found in package %s", name, p.name)
	}
	return o
}

// declNode finds the ValueSpec declaring a package-level object.
func (p *pkgInfo) declNode(o types.Object) *ast.ValueSpec {
	for _, f := range p.files {
		for _, d := range f.Decls {
			gd, ok := d.(*ast.GenDecl)
			if !ok {
				continue
			}
			for _, s := range gd.Specs {
				if vs, ok := s.(*ast.ValueSpec); ok {
					for _, id := range vs.Names {
						if p.info.Defs[id] == o {
							return vs
						}
					}
				}
			}
		}
	}
	die("declaration of %s not found", o.Name())
	return nil
}

func emitConst(out *output, p *pkgInfo, d *directive) {
	c, ok := p.lookup(d.Func).(*types.Const)
	if !ok {
		die("%s: %s is not a constant", d.Name, d.Func)
	}
	f := newCtx(out, p, d)
	ct := f.ctypeOf(c.Type(), nil)
	vs := p.declNode(c)
	_, file, l0, _ := p.text(vs)
	// an iota constant's text does not determine its value: the value itself is the generated fact
	fmt.Fprintf(out.sb, "(* const %s — %s:%d *)\nDefinition gen_%s : %s := %s.\n\n", d.Func, file, l0, d.Name, ct, f.constant(c.Val(), ct, vs))
}

// emitVar translates `var x = [..]string{consts...}` after checking that x is never written,
// sliced or has its address taken anywhere in the package.
func emitVar(out *output, p *pkgInfo, d *directive) {
	v, ok := p.lookup(d.Func).(*types.Var)
	if !ok {
		die("%s: %s is not a variable", d.Name, d.Func)
	}
	f := newCtx(out, p, d)
	ct := f.ctypeOf(v.Type(), nil)
	if ct.k != tList || ct.elem.k != tBytes {
		die("%s: only arrays / slices of strings are supported", d.Name)
	}
	vs := p.declNode(v)
	if len(vs.Names) != 1 || len(vs.Values) != 1 {
		die("%s: unsupported declaration shape", d.Name)
	}
	cl, ok := vs.Values[0].(*ast.CompositeLit)
	if !ok {
		die("%s: initialiser is not a composite literal", d.Name)
	}
	var elems []string
	for _, e := range cl.Elts {
		tv, ok := p.info.Types[e]
		if _, isKV := e.(*ast.KeyValueExpr); isKV || !ok || tv.Value == nil {
			die("%s: %s: element is not a constant", p.pos(e), d.Name)
		}
		elems = append(elems, f.constant(tv.Value, *ct.elem, e))
	}
	if at, ok := v.Type().Underlying().(*types.Array); ok {
		if int(at.Len()) < len(elems) {
			die("%s: array literal longer than the array", d.Name)
		}
		for int(at.Len()) > len(elems) { // missing elements of an array literal are zero values
			elems = append(elems, ct.elem.zero())
		}
	}
	// never written
	root := func(e ast.Expr) types.Object {
		for {
			switch x := e.(type) {
			case *ast.ParenExpr:
				e = x.X
			case *ast.IndexExpr:
				e = x.X
			case *ast.SliceExpr:
				e = x.X
			case *ast.Ident:
				return p.info.Uses[x]
			default:
				return nil
			}
		}
	}
	for _, file := range p.files {
		ast.Inspect(file, func(n ast.Node) bool {
			switch x := n.(type) {
			case *ast.AssignStmt:
				for _, l := range x.Lhs {
					if root(l) == v {
						die("%s: %s: %s is assigned", p.pos(x), d.Name, d.Func)
					}
				}
			case *ast.IncDecStmt:
				if root(x.X) == v {
					die("%s: %s: %s is modified", p.pos(x), d.Name, d.Func)
				}
			case *ast.UnaryExpr:
				if x.Op == token.AND && root(x.X) == v {
					die("%s: %s: address of %s taken", p.pos(x), d.Name, d.Func)
				}
			case *ast.SliceExpr:
				if root(x.X) == v {
					die("%s: %s: %s is sliced (aliasing)", p.pos(x), d.Name, d.Func)
				}
			case *ast.RangeStmt:
				for _, l := range []ast.Expr{x.Key, x.Value} {
					if l != nil && x.Tok == token.ASSIGN && root(l) == v {
						die("%s: %s: %s is assigned by a range clause", p.pos(x), d.Name, d.Func)
					}
				}
			}
			return true
		})
	}
	out.sb.WriteString(header(p, vs, "var "+d.Func))
	fmt.Fprintf(out.sb, "Definition gen_%s : %s :=\n  [%s].\n\n", d.Name, ct, strings.Join(elems, "; "))
	out.vars[v] = "gen_" + d.Name
}
