package main

// Mutable []byte buffers.
//
// A LOCAL []byte variable, and the slice a `*[]byte` parameter points to, is represented by the
// value GoSem.gobuf = (backing array from the start of the slice up to its capacity, length).
// Go slices are references; a value representation is exact only while no two live variables can
// observe each other's writes.  The translator therefore enforces an aliasing discipline and
// REFUSES everything outside it:
//
//   - a buffer variable x is only ever assigned  make([]byte, n[, c])  or a reslice of ITSELF
//     x = x[:k]  (k <= cap, the backing array is kept: the bytes between len and cap reappear);
//     x[a:], x[a:b], 3-index slices, `y := x`, `y := x[:k]`, append, passing x by value: refused;
//   - the only alias is `b := *buf` / `b = *buf` for a `*[]byte` parameter buf: b then has the very
//     same slice header as *buf (synced).  A write through b (b[i] = c, copy(b, ..)) updates both.
//     Assigning *buf (make / reslice) or writing through *buf makes b STALE; a stale variable may not
//     be read or written until it is re-synced by `b = *buf`.  The stale set is tracked per program
//     point; control-flow joins and loop back edges with different stale sets are refused;
//   - `g(&x, ..)` for a translated g with a `*[]byte` parameter: g is translated as returning the new
//     slice, the call rebinds x (and makes aliases of x stale).  &x anywhere else: refused;
//   - copy(dst, src) only as a statement, dst a buffer variable, src a string expression (no overlap);
//   - string(x), string(x[:k]), len(x), cap(x), x[i] read the buffer.

import (
	"go/ast"
	"go/token"
	"go/types"
	"sort"
	"strings"
)

func (f *fnCtx) staleKey() string {
	var ns []string
	for o, st := range f.stale {
		if st {
			ns = append(ns, f.nameOf(o))
		}
	}
	sort.Strings(ns)
	return strings.Join(ns, ",")
}

func (f *fnCtx) saveStale() map[types.Object]bool {
	m := map[types.Object]bool{}
	for o, st := range f.stale {
		m[o] = st
	}
	return m
}

func (f *fnCtx) restoreStale(m map[types.Object]bool) {
	f.stale = map[types.Object]bool{}
	for o, st := range m {
		f.stale[o] = st
	}
}

// bufVar resolves an expression that denotes a buffer VARIABLE: x, (x), *buf, (*buf).
func (f *fnCtx) bufVar(e ast.Expr) (types.Object, bool) {
	switch x := unparen(e).(type) {
	case *ast.Ident:
		o := f.p.info.Uses[x]
		if o == nil {
			o = f.p.info.Defs[x]
		}
		if o != nil && f.isBufVar(o) && !f.outParam[o] {
			return o, true
		}
	case *ast.StarExpr:
		if id, ok := unparen(x.X).(*ast.Ident); ok {
			if o := f.p.info.Uses[id]; o != nil && f.outParam[o] {
				return o, true
			}
		}
	}
	return nil, false
}

// readBuf: the Coq name of a buffer variable that is read here.
func (f *fnCtx) readBuf(o types.Object, at ast.Node) string {
	if !f.local[o] {
		f.refuse(at, "[]byte variable %s is not a local variable of the function", o.Name())
	}
	if f.stale[o] {
		f.refuse(at, "%s is read after the slice it aliases was reassigned or written (stale alias)", o.Name())
	}
	return f.nameOf(o)
}

// wrote: the buffer variable o was just rebound to its new value (through a write or an assignment);
// returns the lets that propagate the value to the variables with the same slice header and marks the others stale.
// sameHeader: the write went through o and kept its header (index assignment, copy), so a synced alias /
// the aliased parameter sees the same new value; otherwise (make, reslice, callee) aliases become stale.
func (f *fnCtx) wrote(o types.Object, sameHeader bool) string {
	lets := ""
	if tgt, isAlias := f.aliasOf[o]; isAlias {
		// o is b (synced, checked by the caller): *buf has the same header and the same backing array
		if !sameHeader {
			die("internal: alias variable %s reassigned", o.Name())
		}
		lets += "let " + f.nameOf(tgt) + " := " + f.nameOf(o) + " in\n"
		for b, t := range f.aliasOf {
			if t == tgt && b != o {
				f.stale[b] = true
			}
		}
		return lets
	}
	for b, t := range f.aliasOf {
		if t == o {
			f.stale[b] = true
		}
	}
	return lets
}

// returnOuts: `return e1, .., ek` in a function with *[]byte parameters returns (e1, .., ek, buf..).
func (f *fnCtx) returnOuts(s *ast.ReturnStmt) string {
	var vs []val
	if s != nil {
		if len(s.Results) == 0 && f.declRes > 0 {
			if len(f.named) != f.declRes {
				f.refuse(s, "bare return without named results")
			}
			for _, o := range f.named {
				vs = append(vs, val{s: f.nameOf(o), pure: true, t: f.ctypeOfObj(o, s)})
			}
		} else {
			if len(s.Results) != f.declRes {
				f.refuse(s, "return of a multi-value call")
			}
			for i, r := range s.Results {
				v := f.expr(r)
				if v.t.String() != f.res[i].String() {
					f.refuse(r, "returned value has representation %s, expected %s", v.t, f.res[i])
				}
				vs = append(vs, v)
			}
		}
	}
	for _, o := range f.outs {
		vs = append(vs, val{s: f.nameOf(o), pure: true, t: ctype{k: tBuf}})
	}
	v := f.seq(vs, ctype{}, tuple)
	if v.pure {
		return f.ret(v.s)
	}
	return v.s
}

// bufCallStmt translates the expression statements  copy(x, s)  and  g(&x, ..).
func (f *fnCtx) bufCallStmt(c *ast.CallExpr, sc scope, next func(scope) string) (string, bool) {
	id, ok := c.Fun.(*ast.Ident)
	if !ok || c.Ellipsis.IsValid() {
		return "", false
	}
	switch o := f.p.info.Uses[id].(type) {
	case *types.Builtin:
		if o.Name() != "copy" || len(c.Args) != 2 {
			return "", false
		}
		f.needImpure(c)
		dst, ok := f.bufVar(c.Args[0])
		if !ok {
			f.refuse(c, "copy: the destination must be a []byte buffer variable")
		}
		if b, isStr := f.typeOf(c.Args[1]).Underlying().(*types.Basic); !isStr || b.Info()&types.IsString == 0 {
			f.refuse(c, "copy: the source must be a string (a []byte source could overlap the destination)")
		}
		src := f.expr(c.Args[1])
		if src.t.k != tBytes {
			f.refuse(c, "copy: unsupported source")
		}
		dn := f.readBuf(dst, c)
		tmp := f.fresh()
		lets := f.wrote(dst, true)
		body := "let " + dn + " := buf_copy " + dn + " " + tmp + " in\n" + lets + next(sc)
		return f.letOrBind(tmp, src, body), true
	case *types.Func:
		if o.Pkg() != f.p.pkg {
			return "", false
		}
		sg, ok := f.out.funcs[f.p.name+"."+o.Name()]
		if !ok || !sg.recvless || len(sg.outIdx) == 0 {
			return "", false
		}
		if sg.file != f.file {
			f.refuse(c, "call of %s, which is generated into another file", o.Name())
		}
		if sg.declRes != 0 {
			f.refuse(c, "call of %s discards its results", o.Name())
		}
		f.needImpure(c)
		isOut := map[int]bool{}
		for _, i := range sg.outIdx {
			isOut[i] = true
		}
		vs := make([]val, len(c.Args))
		var targets []types.Object
		for i, a := range c.Args {
			if isOut[i] {
				u, ok := unparen(a).(*ast.UnaryExpr)
				if !ok || u.Op != token.AND {
					f.refuse(a, "the *[]byte argument must be &x for a []byte buffer variable x")
				}
				x, ok := f.bufVar(u.X)
				if !ok {
					f.refuse(a, "the *[]byte argument must be &x for a []byte buffer variable x")
				}
				if _, isAlias := f.aliasOf[x]; isAlias {
					f.refuse(a, "address of an alias variable")
				}
				for _, t := range targets {
					if t == x {
						f.refuse(a, "the same buffer is passed twice")
					}
				}
				targets = append(targets, x)
				vs[i] = val{s: f.readBuf(x, a), pure: true, t: ctype{k: tBuf}}
				continue
			}
			vs[i] = f.expr(a)
			if vs[i].t.k == tBuf {
				f.refuse(a, "a []byte buffer passed by value")
			}
		}
		v := f.seqImpure(vs, ctype{}, func(a []string) string { return strings.TrimSpace(sg.coq + " " + strings.Join(a, " ")) })
		names := make([]string, len(targets))
		for i, t := range targets {
			names[i] = f.nameOf(t)
			f.wrote(t, false)
		}
		pat := names[0]
		if len(names) > 1 {
			pat = "'(" + strings.Join(names, ", ") + ")"
		}
		return "bind " + paren(v.s) + " (fun " + pat + " =>\n" + next(sc) + ")", true
	}
	return "", false
}

// bufAssign translates the assignments whose target is a buffer: x = make(..), x = x[:k], b := *buf,
// *buf = .., x[i] = c.  ok = false: not a buffer assignment (the generic code handles / refuses it).
func (f *fnCtx) bufAssign(s *ast.AssignStmt, sc scope, next func(scope) string) (string, bool) {
	if len(s.Lhs) != 1 || len(s.Rhs) != 1 {
		for _, l := range s.Lhs {
			if _, isIdx := unparen(l).(*ast.IndexExpr); isIdx {
				f.refuse(s, "index assignment in a parallel assignment")
			}
			if _, isStar := unparen(l).(*ast.StarExpr); isStar {
				f.refuse(s, "assignment through a pointer in a parallel assignment")
			}
		}
		return "", false
	}
	lhs, rhs := unparen(s.Lhs[0]), unparen(s.Rhs[0])
	// x[i] = c
	if ix, ok := lhs.(*ast.IndexExpr); ok {
		if s.Tok != token.ASSIGN {
			f.refuse(s, "unsupported assignment operator %s on an element", s.Tok)
		}
		x, ok := f.bufVar(ix.X)
		if !ok {
			f.refuse(s, "index assignment to something that is not a local []byte buffer")
		}
		f.needImpure(s)
		xn := f.readBuf(x, s)
		i, c := f.expr(ix.Index), f.expr(rhs)
		if i.t.k != tZ || c.t.k != tByte {
			f.refuse(s, "unsupported index assignment")
		}
		v := f.seqImpure([]val{i, c}, ctype{k: tBuf}, func(a []string) string { return "buf_set " + xn + " " + a[0] + " " + a[1] })
		lets := f.wrote(x, true)
		return "bind " + paren(v.s) + " (fun " + xn + " =>\n" + lets + next(sc) + ")", true
	}
	var x types.Object
	isNew := false
	switch l := lhs.(type) {
	case *ast.Ident:
		if l.Name == "_" {
			return "", false
		}
		o := f.p.info.Defs[l]
		if o != nil {
			isNew = true
		} else {
			o = f.p.info.Uses[l]
		}
		if o == nil || !f.isBufVar(o) {
			return "", false
		}
		if f.outParam[o] {
			f.refuse(s, "assignment to the pointer parameter %s itself", l.Name)
		}
		if !isNew && !f.local[o] {
			f.refuse(s, "assignment to %s, which is not a local variable", l.Name)
		}
		x = o
	case *ast.StarExpr:
		o, ok := f.bufVar(l)
		if !ok {
			f.refuse(s, "assignment through a pointer that is not a *[]byte parameter")
		}
		x = o
	default:
		return "", false
	}
	if s.Tok != token.ASSIGN && s.Tok != token.DEFINE {
		f.refuse(s, "unsupported assignment operator %s on a []byte buffer", s.Tok)
	}
	f.needImpure(s)
	sc2 := sc
	declare := func() {
		if isNew {
			f.local[x] = true
			sc2 = sc.with(x)
		}
	}
	// b := *buf / b = *buf
	if st, ok := rhs.(*ast.StarExpr); ok {
		tgt, ok := f.bufVar(st)
		if !ok || f.outParam[x] {
			f.refuse(s, "unsupported assignment of a []byte buffer (it would alias)")
		}
		if old, had := f.aliasOf[x]; had && old != tgt {
			f.refuse(s, "%s aliases two different buffers", x.Name())
		}
		if !isNew {
			if _, had := f.aliasOf[x]; !had {
				f.refuse(s, "%s owns a buffer and cannot become an alias", x.Name())
			}
		}
		tn := f.readBuf(tgt, s)
		f.aliasOf[x] = tgt
		f.stale[x] = false
		declare()
		return "let " + f.nameOf(x) + " := " + tn + " in\n" + next(sc2), true
	}
	if _, isAlias := f.aliasOf[x]; isAlias {
		f.refuse(s, "the alias variable %s may only be assigned the buffer it aliases", x.Name())
	}
	var v val
	switch r := rhs.(type) {
	case *ast.CallExpr:
		if va, isAppend := f.appendBuf(x, isNew, r); isAppend { // append.go: x = append(x, ..) / strconv.AppendInt(x, .., 16)
			v = va
			break
		}
		v = f.makeBuf(r)
	case *ast.SliceExpr:
		src, ok := f.bufVar(r.X)
		if !ok || src != x || isNew {
			f.refuse(s, "a []byte buffer may only be resliced into itself (x = x[:k]): anything else would alias")
		}
		v = f.resliceBuf(r)
	default:
		f.refuse(s, "unsupported assignment of a []byte buffer (accepted: make, x = x[:k], b = *buf)")
	}
	f.wrote(x, false)
	declare()
	return f.letOrBind(f.nameOf(x), v, next(sc2)), true
}

// makeBuf: make([]byte, n) / make([]byte, n, c)
func (f *fnCtx) makeBuf(c *ast.CallExpr) val {
	id, ok := c.Fun.(*ast.Ident)
	if ok {
		if b, isB := f.p.info.Uses[id].(*types.Builtin); !isB || b.Name() != "make" {
			ok = false
		}
	}
	if !ok || (len(c.Args) != 2 && len(c.Args) != 3) || !isByteSlice(f.typeOf(c.Args[0])) {
		f.refuse(c, "unsupported value for a []byte buffer (accepted: make([]byte, n[, c]))")
	}
	if _, named := f.typeOf(c.Args[0]).(*types.Named); named {
		f.refuse(c, "make of a named slice type")
	}
	n := f.expr(c.Args[1])
	if n.t.k != tZ || !f.isInt(c.Args[1]) {
		f.refuse(c, "make: the length must be an int")
	}
	if len(c.Args) == 2 {
		return f.seqImpure([]val{n}, ctype{k: tBuf}, func(a []string) string { return "buf_make " + a[0] + " " + a[0] })
	}
	k := f.expr(c.Args[2])
	if k.t.k != tZ || !f.isInt(c.Args[2]) {
		f.refuse(c, "make: the capacity must be an int")
	}
	return f.seqImpure([]val{n, k}, ctype{k: tBuf}, func(a []string) string { return "buf_make " + a[0] + " " + a[1] })
}

// resliceBuf: x[:k] on a buffer variable (within the capacity; the backing array is kept)
func (f *fnCtx) resliceBuf(r *ast.SliceExpr) val {
	x, ok := f.bufVar(r.X)
	if !ok {
		f.refuse(r, "slice expression on a []byte value that is not a buffer variable")
	}
	if r.Slice3 || r.Low != nil || r.High == nil {
		f.refuse(r, "on a []byte buffer only x[:k] is accepted (a lower bound moves the start of the backing array)")
	}
	f.capObserved(x, r, "x[:k]") // append.go
	xn := f.readBuf(x, r)
	k := f.expr(r.High)
	if k.t.k != tZ {
		f.refuse(r, "unsupported slice bound")
	}
	return f.seqImpure([]val{k}, ctype{k: tBuf}, func(a []string) string { return "buf_reslice_to " + xn + " " + a[0] })
}

// writes reports whether the variable o may be written in n: assigned, ++/--, element assigned,
// address taken (callee with a *[]byte parameter), destination of copy, assigned through (for a pointer parameter).
func (f *fnCtx) writes(n ast.Node, o types.Object) bool {
	hit := false
	root := func(e ast.Expr) bool {
		for {
			switch x := e.(type) {
			case *ast.ParenExpr:
				e = x.X
			case *ast.IndexExpr:
				e = x.X
			case *ast.StarExpr:
				e = x.X
			case *ast.Ident:
				return f.p.info.Uses[x] == o || f.p.info.Defs[x] == o
			default:
				return false
			}
		}
	}
	ast.Inspect(n, func(n ast.Node) bool {
		switch x := n.(type) {
		case *ast.AssignStmt:
			for _, l := range x.Lhs {
				hit = hit || root(l)
			}
		case *ast.IncDecStmt:
			hit = hit || root(x.X)
		case *ast.RangeStmt:
			if x.Tok == token.ASSIGN {
				hit = hit || (x.Key != nil && root(x.Key)) || (x.Value != nil && root(x.Value))
			}
		case *ast.UnaryExpr:
			if x.Op == token.AND {
				hit = hit || root(x.X)
			}
		case *ast.CallExpr:
			if id, ok := x.Fun.(*ast.Ident); ok && len(x.Args) > 0 {
				if b, ok := f.p.info.Uses[id].(*types.Builtin); ok && b.Name() == "copy" {
					hit = hit || root(x.Args[0])
				}
			}
		}
		return true
	})
	// a write through an alias b of o (b := *o) is a write of o as well
	for b, t := range f.aliasOf {
		if t == o && b != o {
			hit = hit || f.writesDirect(n, b)
		}
	}
	return hit
}

func (f *fnCtx) writesDirect(n ast.Node, o types.Object) bool {
	saved := f.aliasOf
	f.aliasOf = map[types.Object]types.Object{}
	defer func() { f.aliasOf = saved }()
	return f.writes(n, o)
}

// nestedFor translates a `for` loop that is nested in another loop.  The helper of the enclosing loop
// is a Fixpoint on its own fuel, so the inner loop cannot take "the rest of the enclosing iteration" as
// its continuation; it is emitted as a separate Fixpoint that RETURNS the variables of the enclosing
// scope it writes:   gen_f_loopK fuel vars : outcome (written vars),   and the enclosing code continues
// with  bind (gen_f_loopK fuel vars) (fun '(written vars) => rest).   `return` inside such a loop is refused.
func (f *fnCtx) nestedFor(s *ast.ForStmt, sc scope, after kont) string {
	f.nloop++
	num := f.nloop
	hname := f.gen + "_loop" + itoa(num)
	var state []types.Object
	for _, o := range sc {
		if f.writes(s, o) {
			state = append(state, o)
		}
	}
	if len(state) == 0 {
		f.refuse(s, "nested loop that writes no variable of the enclosing scope")
	}
	stNames := make([]string, len(state))
	stTypes := make([]string, len(state))
	for i, o := range state {
		stNames[i] = f.nameOf(o)
		stTypes[i] = f.ctypeOfObj(o, s).String()
	}
	resT := stTypes[0]
	if len(state) > 1 {
		resT = "(" + strings.Join(stTypes, " * ") + ")"
	}
	retState := func() string {
		for _, o := range state {
			if f.stale[o] {
				f.refuse(s, "stale alias %s leaves a nested loop", o.Name())
			}
		}
		return "Ret " + paren(tuple(stNames))
	}
	entry := ""
	run := func(sc1 scope) string {
		entry = f.staleKey()
		fuel, ok := "", false
		if s.Init != nil && s.Cond != nil && s.Post != nil {
			fuel, ok = f.countingFuel(s)
		}
		if !ok {
			fuel, ok = f.d.Fuel[num]
			if !ok {
				f.refuse(s, "loop #%d has no syntactic bound: give a fuel expression in the directive", num)
			}
		}
		checkExit := func() string {
			if f.staleKey() != entry {
				f.refuse(s, "the alias state of []byte variables at an exit of the nested loop differs from the one at its entry")
			}
			return retState()
		}
		iter := func() string {
			if f.staleKey() != entry {
				f.refuse(s, "the alias state of []byte variables at the end of the loop body differs from the one at loop entry")
			}
			call := strings.TrimSpace(hname + " fuel'1 " + f.actuals(sc1))
			if s.Post == nil {
				return call
			}
			return f.stmts([]ast.Stmt{s.Post}, sc1, kont{normal: func() string { return call }})
		}
		saved := f.saveStale()
		f.inLoop++
		f.noReturn++
		body := f.stmts(s.Body.List, sc1, kont{normal: iter, brk: checkExit, cont: iter})
		f.noReturn--
		f.inLoop--
		f.restoreStale(saved)
		step := "match fuel'0 with\n| O => OutOfFuel\n| S fuel'1 =>\n" + indent(body, 2) + "\nend"
		var text string
		if s.Cond == nil {
			text = step
		} else {
			text = f.ifThenElse(f.expr(s.Cond), step, retState())
		}
		f.helpers = append(f.helpers, "Fixpoint "+hname+" (fuel'0 : nat)"+f.binders(sc1)+" {struct fuel'0} : outcome "+resT+" :=\n"+indent(text, 2)+".\n")
		pat := stNames[0]
		if len(state) > 1 {
			pat = "'(" + strings.Join(stNames, ", ") + ")"
		}
		call := strings.TrimSpace(hname + " (" + fuel + ") " + f.actuals(sc1))
		return "bind (" + call + ") (fun " + pat + " =>\n" + after.normal() + ")"
	}
	if s.Init == nil {
		return run(sc)
	}
	as, ok := s.Init.(*ast.AssignStmt)
	if !ok {
		f.refuse(s.Init, "unsupported loop initialisation")
	}
	return f.assign(as, sc, run)
}

func itoa(n int) string {
	if n == 0 {
		return "0"
	}
	s := ""
	for n > 0 {
		s = string(rune('0'+n%10)) + s
		n /= 10
	}
	return s
}
