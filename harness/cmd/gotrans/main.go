// gotrans (tie A): translates a fixed list of small pure Go functions of the fox
// sources ($VERIF_REPO, default /repo) into Gallina (coq/Gen/GenFuns.v) on every
// run.  coq/Gen/Bridge.v proves the hand-written models used by the property
// proofs equal to these generated definitions, so any edit to one of the Go
// functions re-opens a proof obligation.
//
// The accepted Go subset is deliberately small (see docs/Gen.md); anything else
// => exit 1 with a message naming the position ("broken tie").  Semantics of the
// emitted primitives: coq/Gen/GoSem.v.
//
// usage: gotrans [repo=<fox tree>] out=<GenFuns.v> [sem=<GenSemCheck.v>]
package main

import (
	"bytes"
	"crypto/sha256"
	"fmt"
	"go/ast"
	"go/importer"
	"go/parser"
	"go/token"
	"go/types"
	"io/fs"
	"os"
	"path/filepath"
	"sort"
	"strings"
)

// refusal: the source is outside the accepted subset. A refusal inside one directive drops that
// definition only (the bridges that mention it then fail to compile); anywhere else it is fatal.
type refusal struct{ msg string }

func die(format string, a ...any) {
	panic(refusal{fmt.Sprintf(format, a...)})
}

type kind int

const (
	kFunc  kind = iota // a whole function or method
	kGuard             // the N-th if-condition of a function, as a boolean function of its parameters
	kVar               // a package-level array/slice of constant strings that is never written
	kConst             // a named constant
)

type directive struct {
	Name  string // Coq name: gen_<Name>
	Pkg   string // "fox" | "netutil"
	Func  string // "f" or "Recv.f" (receiver type name without *), or the var / const name
	Kind  kind
	IfN   int               // kGuard: index (source order) of the if statement whose condition is extracted
	Fuel  map[int]string    // loop number (1-based, source order) -> Coq fuel expression, for loops without a syntactic bound
	Views map[string]string // struct type name -> the only field through which it is observed
	File  string            // generated file (in the directory of out=) the definition goes to; "" = the out= file
}

// The directive table. Order matters: callees before callers.
var directives = []directive{
	{Name: "verb", Pkg: "fox", Func: "verb", Kind: kConst},
	{Name: "commonVerbs", Pkg: "fox", Func: "commonVerbs", Kind: kVar},
	{Name: "exactMatch", Pkg: "fox", Func: "exactMatch", Kind: kConst},
	{Name: "incompleteMatchToEndOfEdge", Pkg: "fox", Func: "incompleteMatchToEndOfEdge", Kind: kConst},
	{Name: "incompleteMatchToMiddleOfEdge", Pkg: "fox", Func: "incompleteMatchToMiddleOfEdge", Kind: kConst},
	{Name: "keyEndMidEdge", Pkg: "fox", Func: "keyEndMidEdge", Kind: kConst},
	{Name: "RouteHandler", Pkg: "fox", Func: "RouteHandler", Kind: kConst},
	{Name: "NoRouteHandler", Pkg: "fox", Func: "NoRouteHandler", Kind: kConst},
	{Name: "NoMethodHandler", Pkg: "fox", Func: "NoMethodHandler", Kind: kConst},
	{Name: "RedirectHandler", Pkg: "fox", Func: "RedirectHandler", Kind: kConst},
	{Name: "OptionsHandler", Pkg: "fox", Func: "OptionsHandler", Kind: kConst},

	{Name: "FixTrailingSlash", Pkg: "fox", Func: "FixTrailingSlash"},
	{Name: "validOptionalPort", Pkg: "netutil", Func: "validOptionalPort"},
	{Name: "SplitHostPort", Pkg: "netutil", Func: "SplitHostPort"},
	{Name: "splitHostPort", Pkg: "netutil", Func: "splitHostPort"},
	{Name: "StripHostPort", Pkg: "netutil", Func: "StripHostPort"},
	{Name: "linearSearch", Pkg: "fox", Func: "linearSearch"},
	{Name: "compare", Pkg: "fox", Func: "compare"},
	{Name: "binarySearch", Pkg: "fox", Func: "binarySearch", Fuel: map[int]string{1: "S (List.length keys)"}},
	{Name: "commonPrefix", Pkg: "fox", Func: "commonPrefix"},
	{Name: "isRemovable", Pkg: "fox", Func: "isRemovable"},
	{Name: "methodIndex", Pkg: "fox", Func: "roots.methodIndex", Views: map[string]string{"node": "key"}},
	{Name: "classify", Pkg: "fox", Func: "searchResult.classify"},
	{Name: "isExactMatch", Pkg: "fox", Func: "searchResult.isExactMatch"},
	{Name: "level", Pkg: "fox", Func: "level"},
	{Name: "scopeToString", Pkg: "fox", Func: "scopeToString"},
	{Name: "redirectGuard", Pkg: "fox", Func: "cTx.Redirect", Kind: kGuard, IfN: 0},
	{Name: "informationalGuard", Pkg: "fox", Func: "recorder.WriteHeader", Kind: kGuard, IfN: 2},

	// path.go CleanPath / bufApp (C17) go to their own file, so that a refusal or a broken bridge there
	// cannot disturb the consumers of GenFuns.v.  Loops of CleanPath in source order: #1 the main loop
	// (fuel n+2, as coq/C17/Model.v), #2 / #3 the two backtracking loops (w decreases to 1), #4 the
	// element copy loop (r increases to n).
	{Name: "bufApp", Pkg: "fox", Func: "bufApp", File: "GenPath.v"},
	{Name: "CleanPath", Pkg: "fox", Func: "CleanPath", File: "GenPath.v",
		Fuel: map[int]string{1: "S (S (Z.to_nat n))", 2: "Z.to_nat w", 3: "Z.to_nat w", 4: "S (Z.to_nat n)"}},

	// C10: the route pattern validator, into its own file (GenParse.v); fuel: the loop `for i < len(url)` advances i on every path
	{Name: "parseRoute", Pkg: "fox", Func: "Router.parseRoute", File: "GenParse.v", Fuel: map[int]string{1: "S (List.length url)"}},

	// GenWild.v: parseWildcard (node.go; a local []param built by append: structs.go; the loop `for i < len(segment)` advances i
	// on every path), isBlacklistedHeader with the table it ranges over (recovery.go, http_consts.go; strings.EqualFold: fold.go),
	// netutil.SplitHostZone (C18)
	{Name: "parseWildcard", Pkg: "fox", Func: "parseWildcard", File: "GenWild.v", Fuel: map[int]string{1: "S (List.length segment)"}},
	{Name: "blacklistedHeader", Pkg: "fox", Func: "blacklistedHeader", Kind: kVar, File: "GenWild.v"},
	{Name: "isBlacklistedHeader", Pkg: "fox", Func: "isBlacklistedHeader", File: "GenWild.v"},
	{Name: "SplitHostZone", Pkg: "netutil", Func: "SplitHostZone", File: "GenWild.v"},
	// C08 / C18: the escaping of the redirect Location (append on a local []byte, strconv.AppendInt: append.go) and
	// clientip's matched-quote trimmer, into GenEsc.v
	{Name: "hexEscapeNonASCII", Pkg: "fox", Func: "hexEscapeNonASCII", File: "GenEsc.v"},
	{Name: "trimMatchedEnds", Pkg: "clientip", Func: "trimMatchedEnds", File: "GenEsc.v"},
}

// extraFiles: the generated files besides out= (same directory), in a fixed order
func extraFiles() []string {
	var fs []string
	seen := map[string]bool{}
	for _, d := range directives {
		if d.File != "" && !seen[d.File] {
			seen[d.File] = true
			fs = append(fs, d.File)
		}
	}
	return fs
}

type pkgInfo struct {
	name  string
	dir   string
	fset  *token.FileSet
	files []*ast.File
	info  *types.Info
	pkg   *types.Package
	src   map[string][]byte // file name -> contents
}

func loadPkg(fset *token.FileSet, imp types.Importer, dir, name, path string) *pkgInfo {
	pkgs, err := parser.ParseDir(fset, dir, func(fi fs.FileInfo) bool {
		n := fi.Name()
		return !strings.HasSuffix(n, "_test.go") && !strings.HasPrefix(n, "verif_")
	}, parser.ParseComments)
	if err != nil {
		die("parse %s: %v", dir, err)
	}
	p := pkgs[name]
	if p == nil {
		die("package %s not found in %s", name, dir)
	}
	names := make([]string, 0, len(p.Files))
	for n := range p.Files {
		names = append(names, n)
	}
	sort.Strings(names)
	pi := &pkgInfo{name: name, dir: dir, fset: fset, src: map[string][]byte{}}
	for _, n := range names {
		pi.files = append(pi.files, p.Files[n])
		b, err := os.ReadFile(n)
		if err != nil {
			die("%v", err)
		}
		pi.src[n] = b
	}
	nerr := 0
	conf := types.Config{Importer: imp, Error: func(err error) {
		nerr++
		fmt.Fprintln(os.Stderr, "gotrans: type error:", err)
	}}
	pi.info = &types.Info{Uses: map[*ast.Ident]types.Object{}, Defs: map[*ast.Ident]types.Object{},
		Selections: map[*ast.SelectorExpr]*types.Selection{}, Types: map[ast.Expr]types.TypeAndValue{}}
	pi.pkg, _ = conf.Check(path, fset, pi.files, pi.info)
	if nerr > 0 {
		die("package %s does not type-check", name)
	}
	return pi
}

// text returns the source text of a node and its position range.
func (p *pkgInfo) text(n ast.Node) (txt string, file string, l0, l1 int) {
	a, b := p.fset.Position(n.Pos()), p.fset.Position(n.End())
	src := p.src[a.Filename]
	rel, _ := filepath.Rel(p.dir, a.Filename)
	if p.name == "clientip" {
		rel = "clientip/" + rel
	} else if p.name != "fox" {
		rel = "internal/" + p.name + "/" + rel
	}
	return string(src[a.Offset:b.Offset]), rel, a.Line, b.Line
}

func (p *pkgInfo) pos(n ast.Node) string {
	if n == nil {
		return p.name
	}
	a := p.fset.Position(n.Pos())
	return fmt.Sprintf("%s:%d:%d", filepath.Base(a.Filename), a.Line, a.Column)
}

func (p *pkgInfo) findFunc(q string) *ast.FuncDecl {
	recv, fn := "", q
	if i := strings.IndexByte(q, '.'); i >= 0 {
		recv, fn = q[:i], q[i+1:]
	}
	var found *ast.FuncDecl
	for _, f := range p.files {
		for _, d := range f.Decls {
			fd, ok := d.(*ast.FuncDecl)
			if !ok || fd.Name.Name != fn || fd.Body == nil {
				continue
			}
			r := ""
			if fd.Recv != nil && len(fd.Recv.List) == 1 {
				t := fd.Recv.List[0].Type
				if s, ok := t.(*ast.StarExpr); ok {
					t = s.X
				}
				if id, ok := t.(*ast.Ident); ok {
					r = id.Name
				}
			}
			if r != recv {
				continue
			}
			if found != nil {
				die("two declarations of %s", q)
			}
			found = fd
		}
	}
	if found == nil {
		die("function %s not found in package %s", q, p.name)
	}
	return found
}

type output struct {
	sb    *bytes.Buffer            // the file the current directive writes to
	bufs  map[string]*bytes.Buffer // generated file name ("" = out=) -> contents
	cur   string
	funcs map[string]*sig // Go qualified name "pkg.Func" -> signature of the generated function
	vars  map[types.Object]string
}

type sig struct {
	coq      string
	pure     bool
	res      []ctype
	recvless bool // callable from other translated functions (no flattened struct parameters)
	file     string // generated file the definition lives in ("" = GenFuns.v)
	declRes  int    // declared results; res = declared results ++ one gobuf per *[]byte parameter
	outIdx   []int  // positions of the *[]byte parameters (the call site passes &x and rebinds x)
}

func header(p *pkgInfo, n ast.Node, what string) string {
	txt, file, l0, l1 := p.text(n)
	return fmt.Sprintf("(* %s — %s:%d-%d  sha256=%x *)\n", what, file, l0, l1, sha256.Sum256([]byte(txt)))
}

var stubFile string

func main() {
	defer func() {
		if r := recover(); r != nil {
			rf, ok := r.(refusal)
			if !ok {
				panic(r)
			}
			fmt.Fprintln(os.Stderr, "gotrans: REFUSED:", rf.msg)
			if stubFile != "" { // leave nothing stale from an earlier run behind
				msg := strings.NewReplacer("(*", "( *", "*)", "* )", "\"", "'").Replace(rf.msg)
				os.WriteFile(stubFile, []byte("(* GENERATED by harness/cmd/gotrans — REFUSED: "+msg+" *)\n"), 0o644)
				for _, x := range extraFiles() {
					os.WriteFile(filepath.Join(filepath.Dir(stubFile), x), []byte("(* GENERATED by harness/cmd/gotrans — REFUSED: "+msg+" *)\n"), 0o644)
				}
			}
			os.Exit(1)
		}
	}()
	args := map[string]string{}
	for _, a := range os.Args[1:] {
		if i := strings.IndexByte(a, '='); i > 0 {
			args[a[:i]] = a[i+1:]
		}
	}
	repo := args["repo"]
	if repo == "" {
		repo = os.Getenv("VERIF_REPO")
	}
	if repo == "" {
		repo = "/repo"
	}
	repo, _ = filepath.Abs(repo)
	outFile := args["out"]
	if outFile == "" {
		die("usage: gotrans [repo=<dir>] out=<GenFuns.v> [sem=<GenSemCheck.v>]")
	}
	outFile, _ = filepath.Abs(outFile)
	stubFile = outFile
	semFile := args["sem"]
	if semFile != "" {
		semFile, _ = filepath.Abs(semFile)
	}
	if err := os.Chdir(repo); err != nil {
		die("%v", err)
	}
	fset := token.NewFileSet()
	imp := importer.ForCompiler(fset, "source", nil)
	pkgs := map[string]*pkgInfo{
		"netutil": loadPkg(fset, imp, filepath.Join(repo, "internal", "netutil"), "netutil", "github.com/tigerwill90/fox/internal/netutil"),
		"fox":     loadPkg(fset, imp, repo, "fox", "github.com/tigerwill90/fox"),
		"clientip": loadPkg(fset, imp, filepath.Join(repo, "clientip"), "clientip", "github.com/tigerwill90/fox/clientip"),
	}

	refused := 0
	out := &output{funcs: map[string]*sig{}, vars: map[types.Object]string{}, bufs: map[string]*bytes.Buffer{}}
	const prologue = "(* GENERATED by harness/cmd/gotrans from the fox sources on every run — do not edit.\n" +
		"   Each definition is the translation of the Go text named in the comment above it\n" +
		"   (file, line range, SHA-256 of that text).  Semantics of the primitives: GoSem.v. *)\n" +
		"From FoxBase Require Import Bytes.\nFrom FoxGen Require Import GoSem.\n" +
		"Open Scope char_scope.\nOpen Scope bool_scope.\nOpen Scope Z_scope.\n\n"
	for _, fn := range append([]string{""}, extraFiles()...) {
		out.bufs[fn] = &bytes.Buffer{}
		out.bufs[fn].WriteString(prologueFor(fn, prologue)) // outfiles.go
	}
	for i := range directives {
		d := &directives[i]
		p := pkgs[d.Pkg]
		if p == nil {
			die("directive %s: unknown package %s", d.Name, d.Pkg)
		}
		out.sb, out.cur = out.bufs[d.File], d.File
		func() {
			mark := out.sb.Len()
			defer func() {
				if r := recover(); r != nil {
					rf, ok := r.(refusal)
					if !ok {
						panic(r)
					}
					out.sb.Truncate(mark)
					msg := strings.NewReplacer("(*", "( *", "*)", "* )", "\"", "'").Replace(rf.msg)
					fmt.Fprintf(out.sb, "(* REFUSED gen_%s — %s *)\n\n", d.Name, msg)
					fmt.Fprintf(os.Stderr, "gotrans: REFUSED gen_%s: %s\n", d.Name, rf.msg)
					refused++
				}
			}()
			switch d.Kind {
			case kConst:
				emitConst(out, p, d)
			case kVar:
				emitVar(out, p, d)
			case kFunc:
				emitFunc(out, p, d)
			case kGuard:
				emitGuard(out, p, d)
			}
		}()
	}
	write(outFile, out.bufs[""].Bytes())
	for _, x := range extraFiles() {
		write(filepath.Join(filepath.Dir(outFile), x), out.bufs[x].Bytes())
	}
	if semFile != "" {
		write(semFile, []byte(semCheck()))
	}
	if refused > 0 {
		fmt.Fprintf(os.Stderr, "gotrans: %d definition(s) refused (outside the accepted Go subset)\n", refused)
		os.Exit(1)
	}
	fmt.Printf("gotrans: %d definitions translated\n", len(directives))
}

func write(file string, b []byte) {
	if old, err := os.ReadFile(file); err == nil && bytes.Equal(old, b) {
		fmt.Printf("gotrans: %s up to date\n", filepath.Base(file))
		return
	}
	if err := os.WriteFile(file, b, 0o644); err != nil {
		die("%v", err)
	}
	fmt.Printf("gotrans: %s rewritten\n", filepath.Base(file))
}
