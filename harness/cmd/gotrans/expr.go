package main

import (
	"go/ast"
	"go/token"
	"go/types"
	"strings"
)

// val is a translated expression: a Coq term of type t (pure) or outcome t (impure).
type val struct {
	s    string
	pure bool
	t    ctype
}

func (f *fnCtx) refuse(at ast.Node, format string, a ...any) {
	die("%s: %s: "+format, append([]any{f.p.pos(at), f.d.Name}, a...)...)
}

// ret wraps a pure term as a result of the function under translation.
func (f *fnCtx) ret(s string) string {
	if f.pure {
		return s
	}
	return "Ret " + paren(s)
}

func paren(s string) string {
	if s == "" {
		return s
	}
	simple := true
	for _, c := range s {
		if !(c == '_' || c == '\'' || c >= '0' && c <= '9' || c >= 'a' && c <= 'z' || c >= 'A' && c <= 'Z') {
			simple = false
		}
	}
	if simple || s == "[]" || (s[0] == '(' && matching(s)) || (s[0] == '"' && len(s) == 3) {
		return s
	}
	return "(" + s + ")"
}

// matching reports whether the '(' at s[0] closes at the last byte of s.
func matching(s string) bool {
	depth := 0
	inStr := false
	for i := 0; i < len(s); i++ {
		switch {
		case s[i] == '"':
			inStr = !inStr
		case inStr:
		case s[i] == '(':
			depth++
		case s[i] == ')':
			depth--
			if depth == 0 {
				return i == len(s)-1
			}
		}
	}
	return false
}

// seq evaluates vals (left to right; all panics are one outcome, so the order is immaterial)
// and builds a result from their values.
func (f *fnCtx) seq(vs []val, t ctype, build func(a []string) string) val {
	allPure := true
	for _, v := range vs {
		allPure = allPure && v.pure
	}
	args := make([]string, len(vs))
	if allPure {
		for i, v := range vs {
			args[i] = paren(v.s)
		}
		return val{s: build(args), pure: true, t: t}
	}
	f.needImpure(nil)
	var pre []string
	for i, v := range vs {
		if v.pure {
			args[i] = paren(v.s)
		} else {
			n := f.fresh()
			args[i] = n
			pre = append(pre, "bind "+paren(v.s)+" (fun "+n+" => ")
		}
	}
	return val{s: strings.Join(pre, "") + "Ret " + paren(build(args)) + strings.Repeat(")", len(pre)), t: t}
}

// impure: a term that is already of type outcome t built from pure arguments
func (f *fnCtx) seqImpure(vs []val, t ctype, build func(a []string) string) val {
	f.needImpure(nil)
	args := make([]string, len(vs))
	var pre []string
	for i, v := range vs {
		if v.pure {
			args[i] = paren(v.s)
		} else {
			n := f.fresh()
			args[i] = n
			pre = append(pre, "bind "+paren(v.s)+" (fun "+n+" => ")
		}
	}
	return val{s: strings.Join(pre, "") + build(args) + strings.Repeat(")", len(pre)), t: t}
}

func (f *fnCtx) needImpure(at ast.Node) {
	if f.pure {
		die("internal: %s was classified pure but needs the outcome monad", f.d.Name)
	}
}

func (f *fnCtx) typeOf(e ast.Expr) types.Type {
	tv, ok := f.p.info.Types[e]
	if !ok {
		if id, ok := e.(*ast.Ident); ok {
			if o := f.p.info.Uses[id]; o != nil {
				return o.Type()
			}
			if o := f.p.info.Defs[id]; o != nil {
				return o.Type()
			}
		}
		f.refuse(e, "no type information")
	}
	return tv.Type
}

func isNil(f *fnCtx, e ast.Expr) bool {
	tv, ok := f.p.info.Types[e]
	return ok && tv.IsNil()
}

func (f *fnCtx) expr(e ast.Expr) val {
	if tv, ok := f.p.info.Types[e]; ok && tv.Value != nil {
		c := f.ctypeOf(tv.Type, e)
		return val{s: f.constant(tv.Value, c, e), pure: true, t: c}
	}
	switch x := e.(type) {
	case *ast.ParenExpr:
		return f.expr(x.X)
	case *ast.Ident:
		o := f.p.info.Uses[x]
		if o == nil {
			f.refuse(e, "unresolved identifier %s", x.Name)
		}
		if v, ok := o.(*types.Var); ok {
			if _, isRoot := f.roots[o]; isRoot {
				f.refuse(e, "struct parameter %s used as a whole", x.Name)
			}
			if f.isBufVar(o) {
				if f.outParam[o] {
					f.refuse(e, "pointer parameter %s used other than as *%s", x.Name, x.Name)
				}
				return val{s: f.readBuf(o, e), pure: true, t: ctype{k: tBuf}}
			}
			if n, ok := f.names[o]; ok && f.local[o] {
				return val{s: n, pure: true, t: f.ctypeOf(v.Type(), e)}
			}
			if g, ok := f.out.vars[o]; ok {
				return val{s: g, pure: true, t: f.ctypeOf(v.Type(), e)}
			}
		}
		f.refuse(e, "identifier %s is neither a local variable, a constant nor a translated package variable", x.Name)
	case *ast.StarExpr:
		if o, ok := f.bufVar(x); ok {
			return val{s: f.readBuf(o, e), pure: true, t: ctype{k: tBuf}}
		}
		f.refuse(e, "unsupported pointer dereference")
	case *ast.UnaryExpr:
		if x.Op == token.AND {
			f.refuse(e, "address-of outside a call g(&x, ..) statement of a translated function with a *[]byte parameter")
		}
		a := f.expr(x.X)
		switch {
		case x.Op == token.NOT && a.t.k == tBool:
			return f.seq([]val{a}, a.t, func(s []string) string { return "negb " + s[0] })
		case x.Op == token.SUB && a.t.k == tZ && f.isInt(x.X):
			return f.seq([]val{a}, a.t, func(s []string) string { return "- " + s[0] })
		case x.Op == token.ADD && a.t.k == tZ:
			return a
		}
		f.refuse(e, "unsupported unary operator %s", x.Op)
	case *ast.BinaryExpr:
		return f.binary(x)
	case *ast.CallExpr:
		return f.call(x)
	case *ast.IndexExpr:
		s, i := f.expr(x.X), f.expr(x.Index)
		if s.t.k == tBuf && i.t.k == tZ {
			if _, isVar := f.bufVar(x.X); !isVar {
				f.refuse(e, "index of a []byte value that is not a buffer variable")
			}
			return f.seqImpure([]val{s, i}, ctype{k: tByte}, func(a []string) string { return "buf_index " + a[0] + " " + a[1] })
		}
		if (s.t.k != tBytes && s.t.k != tList) || i.t.k != tZ {
			f.refuse(e, "unsupported index expression")
		}
		if _, isMap := f.typeOf(x.X).Underlying().(*types.Map); isMap {
			f.refuse(e, "map index")
		}
		et := ctype{k: tByte}
		if s.t.k == tList {
			et = *s.t.elem
		}
		return f.seqImpure([]val{s, i}, et, func(a []string) string { return "go_index " + a[0] + " " + a[1] })
	case *ast.SliceExpr:
		return f.slice(x)
	case *ast.SelectorExpr:
		return f.selector(x)
	}
	f.refuse(e, "unsupported expression %T", e)
	return val{}
}

func (f *fnCtx) isInt(e ast.Expr) bool {
	return types.Identical(f.typeOf(e), types.Typ[types.Int])
}

func (f *fnCtx) slice(x *ast.SliceExpr) val {
	if x.Slice3 {
		f.refuse(x, "3-index slice")
	}
	if _, isBuf := f.bufVar(x.X); isBuf {
		return f.resliceBuf(x)
	}
	s := f.expr(x.X)
	if s.t.k == tBuf {
		f.refuse(x, "slice expression on a []byte value that is not a buffer variable")
	}
	_, isStr := f.typeOf(x.X).Underlying().(*types.Basic)
	if s.t.k != tBytes && s.t.k != tList {
		f.refuse(x, "slice of unsupported operand")
	}
	if !isStr && x.High != nil {
		// s[a:b] on a slice is bounded by cap(s), which is not modelled
		f.refuse(x, "slice expression with an upper bound on a non-string operand")
	}
	if _, isArr := f.typeOf(x.X).Underlying().(*types.Array); isArr {
		f.refuse(x, "slice of an array")
	}
	switch {
	case x.Low == nil && x.High == nil:
		return s
	case x.High == nil:
		a := f.expr(x.Low)
		return f.seqImpure([]val{s, a}, s.t, func(v []string) string { return "go_slice_from " + v[0] + " " + v[1] })
	case x.Low == nil:
		b := f.expr(x.High)
		return f.seqImpure([]val{s, b}, s.t, func(v []string) string { return "go_slice_to " + v[0] + " " + v[1] })
	}
	a, b := f.expr(x.Low), f.expr(x.High)
	return f.seqImpure([]val{s, a, b}, s.t, func(v []string) string { return "go_slice " + v[0] + " " + v[1] + " " + v[2] })
}

func (f *fnCtx) binary(x *ast.BinaryExpr) val {
	tb := ctype{k: tBool}
	switch x.Op {
	case token.LAND, token.LOR:
		a, b := f.expr(x.X), f.expr(x.Y)
		op := " && "
		if x.Op == token.LOR {
			op = " || "
		}
		if b.pure {
			return f.seq([]val{a}, tb, func(s []string) string { return s[0] + op + paren(b.s) })
		}
		// short circuit: the right operand is evaluated only if needed
		return f.seqImpure([]val{a}, tb, func(s []string) string {
			if x.Op == token.LAND {
				return "if " + s[0] + " then " + b.s + " else Ret false"
			}
			return "if " + s[0] + " then Ret true else " + b.s
		})
	case token.EQL, token.NEQ:
		if isNil(f, x.Y) || isNil(f, x.X) {
			p := x.X
			if isNil(f, x.X) {
				p = x.Y
			}
			v := f.nilTest(p)
			if x.Op == token.NEQ {
				return f.seq([]val{v}, tb, func(s []string) string { return "negb " + s[0] })
			}
			return v
		}
		fallthrough
	case token.LSS, token.LEQ, token.GTR, token.GEQ:
		a, b := f.expr(x.X), f.expr(x.Y)
		if a.t.k != b.t.k {
			f.refuse(x, "comparison of different representations")
		}
		var fn func(s []string) string
		switch a.t.k {
		case tZ:
			op := map[token.Token]string{token.EQL: "=?", token.LSS: "<?", token.LEQ: "<=?", token.GTR: ">?", token.GEQ: ">=?"}[x.Op]
			if x.Op == token.NEQ {
				fn = func(s []string) string { return "negb (" + s[0] + " =? " + s[1] + ")" }
			} else {
				fn = func(s []string) string { return s[0] + " " + op + " " + s[1] }
			}
		case tByte:
			switch x.Op {
			case token.EQL:
				fn = func(s []string) string { return "Ascii.eqb " + s[0] + " " + s[1] }
			case token.NEQ:
				fn = func(s []string) string { return "negb (Ascii.eqb " + s[0] + " " + s[1] + ")" }
			case token.LSS:
				fn = func(s []string) string { return "byte_ltb " + s[0] + " " + s[1] }
			case token.LEQ:
				fn = func(s []string) string { return "byte_leb " + s[0] + " " + s[1] }
			case token.GTR:
				fn = func(s []string) string { return "byte_ltb " + s[1] + " " + s[0] }
			case token.GEQ:
				fn = func(s []string) string { return "byte_leb " + s[1] + " " + s[0] }
			}
		case tBytes:
			switch x.Op {
			case token.EQL:
				fn = func(s []string) string { return "bytes_eqb " + s[0] + " " + s[1] }
			case token.NEQ:
				fn = func(s []string) string { return "negb (bytes_eqb " + s[0] + " " + s[1] + ")" }
			}
		case tBool:
			switch x.Op {
			case token.EQL:
				fn = func(s []string) string { return "Bool.eqb " + s[0] + " " + s[1] }
			case token.NEQ:
				fn = func(s []string) string { return "negb (Bool.eqb " + s[0] + " " + s[1] + ")" }
			}
		}
		if fn == nil {
			f.refuse(x, "unsupported comparison %s on %s", x.Op, a.t)
		}
		return f.seq([]val{a, b}, tb, fn)
	case token.ADD, token.SUB:
		a, b := f.expr(x.X), f.expr(x.Y)
		if a.t.k == tZ && b.t.k == tZ && f.isInt(x) {
			op := " + "
			if x.Op == token.SUB {
				op = " - "
			}
			return f.seq([]val{a, b}, a.t, func(s []string) string { return s[0] + op + s[1] })
		}
		if x.Op == token.ADD && a.t.k == tBytes && b.t.k == tBytes {
			if _, isStr := f.typeOf(x).Underlying().(*types.Basic); isStr {
				return f.seq([]val{a, b}, a.t, func(s []string) string { return s[0] + " ++ " + s[1] })
			}
		}
	}
	f.refuse(x, "unsupported binary operator %s (arithmetic is accepted on int only)", x.Op)
	return val{}
}

// nilTest translates `p == nil`.
func (f *fnCtx) nilTest(p ast.Expr) val {
	if name, flags, ok := f.path(p); ok {
		if _, isPtr := f.typeOf(p).Underlying().(*types.Pointer); !isPtr {
			f.refuse(p, "nil test on a non-pointer")
		}
		f.pathParam(name+"_nil", ctype{k: tBool})
		return f.guarded(flags, name+"_nil", ctype{k: tBool})
	}
	v := f.expr(p)
	if v.t.k != tOpt {
		f.refuse(p, "nil test on an unsupported operand")
	}
	return f.seq([]val{v}, ctype{k: tBool}, func(s []string) string { return "go_isnil " + s[0] })
}

func (f *fnCtx) guarded(flags []string, term string, t ctype) val {
	if len(flags) == 0 {
		return val{s: term, pure: true, t: t}
	}
	f.needImpure(nil)
	return val{s: "if " + strings.Join(flags, " || ") + " then Panic else Ret " + paren(term), t: t}
}

// path recognises a selector chain rooted at a struct-typed parameter; it returns the
// flattened parameter name and the nil flags of the pointers that are dereferenced.
func (f *fnCtx) path(e ast.Expr) (name string, flags []string, ok bool) {
	switch x := e.(type) {
	case *ast.ParenExpr:
		return f.path(x.X)
	case *ast.Ident:
		o := f.p.info.Uses[x]
		if o == nil {
			return "", nil, false
		}
		if n, isRoot := f.roots[o]; isRoot {
			return n, nil, true
		}
	case *ast.SelectorExpr:
		n, fl, ok := f.path(x.X)
		if !ok {
			return "", nil, false
		}
		sel := f.p.info.Selections[x]
		if sel == nil || sel.Kind() != types.FieldVal || len(sel.Index()) != 1 {
			f.refuse(x, "unsupported selection (method value or embedded field)")
		}
		if _, isPtr := f.typeOf(x.X).Underlying().(*types.Pointer); isPtr {
			f.pathParam(n+"_nil", ctype{k: tBool})
			fl = append(fl, n+"_nil")
		}
		return n + "_" + x.Sel.Name, fl, true
	}
	return "", nil, false
}

func (f *fnCtx) selector(x *ast.SelectorExpr) val {
	if name, flags, ok := f.path(x); ok {
		c, ok := f.tryCtype(f.typeOf(x))
		if !ok || c.k == tOpt || c.k == tList {
			f.refuse(x, "field %s of type %s is not observable as a scalar", name, f.typeOf(x))
		}
		f.pathParam(name, c)
		return f.guarded(flags, name, c)
	}
	// field of a viewed struct reached through a pointer value
	if pt, ok := f.typeOf(x.X).Underlying().(*types.Pointer); ok {
		if n, ok := pt.Elem().(*types.Named); ok {
			if fld, ok := f.d.Views[n.Obj().Name()]; ok {
				if fld != x.Sel.Name {
					f.refuse(x, "type %s is observed through field %s only", n.Obj().Name(), fld)
				}
				v := f.expr(x.X)
				return f.seqImpure([]val{v}, *v.t.elem, func(s []string) string { return "go_deref " + s[0] })
			}
		}
	}
	f.refuse(x, "unsupported selector expression")
	return val{}
}

var stringsFuncs = map[string]struct {
	args []ckind
	res  ckind
}{
	"HasPrefix":     {[]ckind{tBytes, tBytes}, tBool},
	"HasSuffix":     {[]ckind{tBytes, tBytes}, tBool},
	"Contains":      {[]ckind{tBytes, tBytes}, tBool},
	"TrimPrefix":    {[]ckind{tBytes, tBytes}, tBytes},
	"TrimSuffix":    {[]ckind{tBytes, tBytes}, tBytes},
	"IndexByte":     {[]ckind{tBytes, tByte}, tZ},
	"LastIndexByte": {[]ckind{tBytes, tByte}, tZ},
}

func (f *fnCtx) call(x *ast.CallExpr) val {
	if x.Ellipsis.IsValid() {
		f.refuse(x, "variadic call")
	}
	// conversions: only int(uint(e) >> k)
	if tv, ok := f.p.info.Types[x.Fun]; ok && tv.IsType() {
		if types.Identical(tv.Type, types.Typ[types.Int]) && len(x.Args) == 1 {
			if sh, ok := unparen(x.Args[0]).(*ast.BinaryExpr); ok && sh.Op == token.SHR {
				if cv, ok := unparen(sh.X).(*ast.CallExpr); ok && len(cv.Args) == 1 {
					if tv2, ok := f.p.info.Types[cv.Fun]; ok && tv2.IsType() && types.Identical(tv2.Type, types.Typ[types.Uint]) && f.isInt(cv.Args[0]) {
						if kv, ok := f.p.info.Types[sh.Y]; ok && kv.Value != nil {
							k := f.constant(kv.Value, ctype{k: tZ}, sh.Y)
							if k != "0" && !strings.HasPrefix(k, "(") {
								a := f.expr(cv.Args[0])
								return f.seq([]val{a}, ctype{k: tZ}, func(s []string) string { return "go_uint_shr " + s[0] + " " + k })
							}
						}
					}
				}
			}
		}
		// string(buf) / string(buf[:k]): the bytes of the buffer up to its length (a copy: no aliasing)
		if b, isB := tv.Type.Underlying().(*types.Basic); isB && b.Kind() == types.String && len(x.Args) == 1 && isByteSlice(f.typeOf(x.Args[0])) {
			a := f.expr(x.Args[0])
			if a.t.k == tBuf {
				return f.seq([]val{a}, ctype{k: tBytes}, func(s []string) string { return "buf_string " + s[0] })
			}
		}
		if v, ok := f.convExt(x, tv.Type); ok { // uints.go: value-preserving integer conversions
			return v
		}
		if v, ok := f.convByte(x, tv.Type); ok { // append.go: int64(<byte>) / int(<byte>)
			return v
		}
		f.refuse(x, "unsupported conversion (only int(uint(e) >> k), string(<[]byte buffer>) and value-preserving conversions from unsigned types are accepted)")
	}
	switch fn := x.Fun.(type) {
	case *ast.Ident:
		o := f.p.info.Uses[fn]
		if b, ok := o.(*types.Builtin); ok {
			switch b.Name() {
			case "len":
				a := f.expr(x.Args[0])
				if a.t.k == tBuf {
					if _, isVar := f.bufVar(x.Args[0]); !isVar {
						f.refuse(x, "len of a []byte value that is not a buffer variable")
					}
					return f.seq([]val{a}, ctype{k: tZ}, func(s []string) string { return "buf_len " + s[0] })
				}
				if a.t.k != tBytes && a.t.k != tList {
					f.refuse(x, "len of unsupported operand")
				}
				return f.seq([]val{a}, ctype{k: tZ}, func(s []string) string { return "len " + s[0] })
			case "cap":
				if o, isVar := f.bufVar(x.Args[0]); isVar {
					f.capObserved(o, x, "cap") // append.go
					a := f.expr(x.Args[0])
					return f.seq([]val{a}, ctype{k: tZ}, func(s []string) string { return "buf_cap " + s[0] })
				}
			case "min", "max":
				if len(x.Args) == 2 && f.isInt(x) {
					a, c := f.expr(x.Args[0]), f.expr(x.Args[1])
					nm := "Z." + b.Name()
					return f.seq([]val{a, c}, ctype{k: tZ}, func(s []string) string { return nm + " " + s[0] + " " + s[1] })
				}
			}
			f.refuse(x, "unsupported builtin %s", b.Name())
		}
		if fo, ok := o.(*types.Func); ok && fo.Pkg() == f.p.pkg {
			if sg, ok := f.out.funcs[f.p.name+"."+fo.Name()]; ok && sg.recvless {
				return f.callGen(x, sg)
			}
		}
		f.refuse(x, "call of %s, which is not a translated function (add a directive before this one)", fn.Name)
	case *ast.SelectorExpr:
		if id, ok := fn.X.(*ast.Ident); ok {
			if pn, ok := f.p.info.Uses[id].(*types.PkgName); ok && pn.Imported().Path() == "strings" {
				if fn.Sel.Name == "EqualFold" { // fold.go
					return f.equalFold(x)
				}
				sf, ok := stringsFuncs[fn.Sel.Name]
				if !ok || len(x.Args) != len(sf.args) {
					f.refuse(x, "unsupported function strings.%s", fn.Sel.Name)
				}
				vs := make([]val, len(x.Args))
				for i, a := range x.Args {
					vs[i] = f.expr(a)
					if vs[i].t.k != sf.args[i] {
						f.refuse(a, "argument %d of strings.%s has an unsupported type", i, fn.Sel.Name)
					}
				}
				return f.seq(vs, ctype{k: sf.res}, func(s []string) string { return "strings_" + fn.Sel.Name + " " + strings.Join(s, " ") })
			}
		}
	}
	f.refuse(x, "unsupported call")
	return val{}
}

func (f *fnCtx) callGen(x *ast.CallExpr, sg *sig) val {
	if len(sg.res) != 1 {
		f.refuse(x, "multi-value call in a single-value context")
	}
	if sg.file != f.file {
		f.refuse(x, "call of a function that is generated into another file")
	}
	if len(sg.outIdx) > 0 {
		f.refuse(x, "call of a function with a *[]byte parameter in an expression (only as a statement)")
	}
	vs := make([]val, len(x.Args))
	for i, a := range x.Args {
		vs[i] = f.expr(a)
		if vs[i].t.k == tBuf {
			f.refuse(a, "a []byte buffer passed by value")
		}
	}
	build := func(s []string) string { return strings.TrimSpace(sg.coq + " " + strings.Join(s, " ")) }
	if sg.pure {
		return f.seq(vs, sg.res[0], build)
	}
	return f.seqImpure(vs, sg.res[0], build)
}

func unparen(e ast.Expr) ast.Expr {
	for {
		p, ok := e.(*ast.ParenExpr)
		if !ok {
			return e
		}
		e = p.X
	}
}
