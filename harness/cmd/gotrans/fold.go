package main

// fold.go — strings.EqualFold (tie A for isBlacklistedHeader, docs/Gen.md "EqualFold").
//
//	strings.EqualFold(a, b)      strings_EqualFold a b : outcome bool      (coq/Gen/GoSemWild.v)
//
// Go's EqualFold is Unicode SIMPLE CASE FOLDING on the decoded runes (invalid UTF-8 decodes to
// U+FFFD, width 1), not ASCII folding.  GoSemWild.v models it exactly wherever at least one of the
// two runes compared is below 0x80 or the two runes are equal: ASCII letters fold to the other case,
// and the only non-ASCII runes whose fold orbit contains an ASCII letter are U+212A KELVIN SIGN
// (K, k) and U+017F LATIN SMALL LETTER LONG S (S, s).  Two DIFFERENT runes that are both >= 0x80 would
// need the Unicode tables, which are not modelled: the primitive then yields the third outcome
// (Unmodelled := OutOfFuel, "never a Go behaviour"), which every bridge theorem must prove unreachable
// (it is, as soon as one operand is an ASCII-only string, such as the constant table blacklistedHeader).
//
// The two facts about the Unicode tables are CHECKED against unicode.SimpleFold of the toolchain that
// builds gotrans, for every rune, on every run (foldFacts: a mismatch is a refusal), and the primitive is
// sampled against the real strings.EqualFold (semCheckWild -> the prologue of GenWild.v).
//
// An operand may be string(x) for a []byte PARAMETER x passed by value: such a parameter is read-only
// and represented by its contents, and the conversion copies, so it is the identity on the model.

import (
	"fmt"
	"go/ast"
	"go/types"
	"strings"
	"unicode"
	"unicode/utf8"
)

func init() {
	for _, w := range strings.Fields(`strings_EqualFold rune_fold_eq rune_lower equal_fold_loop Unmodelled`) {
		reserved[w] = true
	}
}

// stringArg: e, or string(x) for a by-value []byte parameter x.
func (f *fnCtx) stringArg(e ast.Expr) val {
	if c, ok := unparen(e).(*ast.CallExpr); ok && len(c.Args) == 1 && !c.Ellipsis.IsValid() {
		if tv, ok := f.p.info.Types[c.Fun]; ok && tv.IsType() {
			if b, isB := tv.Type.Underlying().(*types.Basic); isB && b.Kind() == types.String {
				if id, ok := unparen(c.Args[0]).(*ast.Ident); ok {
					if o := f.p.info.Uses[id]; o != nil && f.byval[o] && isByteSlice(o.Type()) {
						return f.expr(id) // bytes
					}
				}
			}
		}
	}
	return f.expr(e)
}

func (f *fnCtx) equalFold(x *ast.CallExpr) val {
	if len(x.Args) != 2 {
		f.refuse(x, "strings.EqualFold with %d arguments", len(x.Args))
	}
	if f.pure {
		f.refuse(x, "strings.EqualFold in a function classified pure (no loop / index): its model returns an outcome")
	}
	vs := make([]val, 2)
	for i, a := range x.Args {
		if b, ok := f.typeOf(a).Underlying().(*types.Basic); !ok || b.Info()&types.IsString == 0 {
			f.refuse(a, "argument %d of strings.EqualFold is not a string", i)
		}
		vs[i] = f.stringArg(a)
		if vs[i].t.k != tBytes {
			f.refuse(a, "argument %d of strings.EqualFold has an unsupported representation", i)
		}
	}
	return f.seqImpure(vs, ctype{k: tBool}, func(s []string) string { return "strings_EqualFold " + s[0] + " " + s[1] })
}

// foldFacts checks, against unicode.SimpleFold, the two facts GoSemWild.v relies on:
// (1) the fold orbit of an ASCII rune r is {r} for a non-letter, {upper, lower} for a letter other
// than k / s, {K, k, U+212A} and {S, s, U+017F}; (2) hence no other rune >= 0x80 is fold-equivalent to
// an ASCII rune.
func foldFacts() {
	orbit := func(r rune) map[rune]bool {
		m := map[rune]bool{r: true}
		for x := unicode.SimpleFold(r); x != r; x = unicode.SimpleFold(x) {
			m[x] = true
		}
		return m
	}
	for r := rune(0); r < 0x80; r++ {
		want := map[rune]bool{r: true}
		switch {
		case 'A' <= r && r <= 'Z':
			want[r+32] = true
		case 'a' <= r && r <= 'z':
			want[r-32] = true
		}
		switch r {
		case 'K', 'k':
			want[0x212A] = true
		case 'S', 's':
			want[0x17F] = true
		}
		got := orbit(r)
		if len(got) != len(want) {
			die("fold.go: the simple-fold orbit of U+%04X in this toolchain is %v, GoSemWild.v assumes %v", r, got, want)
		}
		for x := range want {
			if !got[x] {
				die("fold.go: the simple-fold orbit of U+%04X in this toolchain is %v, GoSemWild.v assumes %v", r, got, want)
			}
		}
	}
	for r := rune(0x80); r <= unicode.MaxRune; r++ {
		if r == 0x212A || r == 0x17F {
			continue
		}
		for x := unicode.SimpleFold(r); x != r; x = unicode.SimpleFold(x) {
			if x < 0x80 {
				die("fold.go: U+%04X folds to the ASCII rune U+%04X in this toolchain; GoSemWild.v knows only U+212A and U+017F", r, x)
			}
		}
	}
}

// modelled: does GoSemWild.strings_EqualFold decide (s, t) without the Unicode tables?  Mirrors the
// Coq definition: rune by rune, stop at the first pair that differs.
func foldModelled(s, t string) bool {
	for len(s) > 0 && len(t) > 0 {
		sr, sw := utf8.DecodeRuneInString(s)
		tr, tw := utf8.DecodeRuneInString(t)
		if sr != tr {
			if sr >= 0x80 && tr >= 0x80 {
				return false
			}
			lo := func(r rune) rune {
				switch {
				case r == 0x212A:
					return 'k'
				case r == 0x17F:
					return 's'
				case 'A' <= r && r <= 'Z':
					return r + 32
				}
				return r
			}
			if lo(sr) != lo(tr) {
				return true // decided: not equal
			}
		}
		s, t = s[sw:], t[tw:]
	}
	return true
}

// semCheckWild renders samples of the real strings.EqualFold as boolean terms over GoSemWild.v.
func semCheckWild() string {
	foldFacts()
	bs := func(s string) string {
		if s == "" {
			return "[]"
		}
		p := make([]string, len(s))
		for i := 0; i < len(s); i++ {
			p[i] = fmt.Sprint(s[i])
		}
		return "(B [" + strings.Join(p, ";") + "]%N)"
	}
	bl := map[bool]string{true: "true", false: "false"}
	names := []string{"Authorization", "Proxy-Authorization", "X-Vault-Token", "Cookie", "Set-Cookie", "X-CSRF-Token", "", "k", "S", "a-b_c.9"}
	const kelvin, longS = "\u212a", "\u017f"
	var pairs [][2]string
	add := func(a, b string) { pairs = append(pairs, [2]string{a, b}, [2]string{b, a}) }
	for _, n := range names {
		variants := []string{n, strings.ToUpper(n), strings.ToLower(n), n + "x", "x" + n, n + "\x80", n + kelvin, n + longS}
		if len(n) > 0 {
			variants = append(variants, n[:len(n)-1], n[1:], n[:len(n)-1]+"\xff", n[:len(n)-1]+"\xc5", n[:len(n)-1]+"\xe2\x84")
		}
		// every k / K -> KELVIN SIGN, every s / S -> LONG S, one at a time and all at once
		for i := 0; i < len(n); i++ {
			switch n[i] {
			case 'k', 'K':
				variants = append(variants, n[:i]+kelvin+n[i+1:], strings.ToUpper(n[:i])+kelvin+strings.ToLower(n[i+1:]))
			case 's', 'S':
				variants = append(variants, n[:i]+longS+n[i+1:], strings.ToLower(n[:i])+longS+strings.ToUpper(n[i+1:]))
			case 'o':
				variants = append(variants, n[:i]+"0"+n[i+1:], n[:i]+"\u00f6"+n[i+1:], n[:i]+"\xc3"+n[i+1:]) // not fold-equivalent; \u00f6 is 2 bytes; a lone lead byte
			case '-':
				variants = append(variants, n[:i]+"_"+n[i+1:], n[:i]+"\r"+n[i+1:], n[:i]+"M"+n[i+1:]) // '-' ^ 0x20 = '\r', '-' + 0x20 = 'M'
			}
		}
		r := strings.NewReplacer("k", kelvin, "K", kelvin, "s", longS, "S", longS)
		variants = append(variants, r.Replace(n))
		for _, v := range variants {
			add(n, v)
		}
	}
	// '@' / '`', '[' / '{': adjacent to the letters but not letters; equal non-ASCII runes; invalid bytes (both U+FFFD)
	for _, p := range [][2]string{{"@", "`"}, {"[", "{"}, {"Z", "z"}, {"A", "a"}, {"\u00e9x", "\u00e9X"}, {"\xff", "\xff"}, {"\xffk", "\xff" + kelvin},
		{"\xff", "\ufffd"}, {"\xff\xfe", "\ufffd\ufffd"}, {kelvin, "K"}, {kelvin, "k"}, {kelvin, kelvin}, {longS, "S"}, {longS, "s"}, {longS, kelvin},
		{"\xe2\x84", "k"}, {"\xc5", "s"}, {"\xe2\x84\xaa", "\xe2\x84\xab"}, {"ab", "a"}, {"", "\x00"}, {"\x00", "\x00"}, {"\x7f", "\x7f"}, {"\x7f", "\x5f"}} {
		add(p[0], p[1])
	}
	var items []string
	seen := map[[2]string]bool{}
	skipped := 0
	for _, p := range pairs {
		if seen[p] {
			continue
		}
		seen[p] = true
		if !foldModelled(p[0], p[1]) {
			// two different runes >= 0x80: the model answers Unmodelled, whatever Go says
			items = append(items, fmt.Sprintf("fold_unmodelled (strings_EqualFold %s %s)", bs(p[0]), bs(p[1])))
			skipped++
			continue
		}
		items = append(items, fmt.Sprintf("fold_is (strings_EqualFold %s %s) %s", bs(p[0]), bs(p[1]), bl[strings.EqualFold(p[0], p[1])]))
	}
	var sb strings.Builder
	fmt.Fprintf(&sb, "(* %d samples of the real strings.EqualFold replayed against GoSemWild.v on every run (%d of them in the\n"+
		"   unmodelled region: two different runes >= 0x80); the two facts about the Unicode tables that GoSemWild.v relies on\n"+
		"   were checked against unicode.SimpleFold for every rune when this file was generated (fold.go: foldFacts). *)\n", len(items), skipped)
	sb.WriteString("Definition fold_is (o : outcome bool) (b : bool) : bool := match o with Ret x => Bool.eqb x b | _ => false end.\n" +
		"Definition fold_unmodelled (o : outcome bool) : bool := match o with OutOfFuel => true | _ => false end.\n")
	fmt.Fprintf(&sb, "Definition sem_samples_wild : list bool :=\n  [%s].\n\n", strings.Join(items, ";\n   "))
	sb.WriteString("Lemma sem_samples_wild_ok : forallb (fun b => b) sem_samples_wild = true.\nProof. vm_compute. reflexivity. Qed.\n\n")
	return sb.String()
}

// wildPrologue: the header of GenWild.v (outfiles.go: prologueFor).
func wildPrologue() string {
	return "(* GENERATED by harness/cmd/gotrans from the fox sources on every run — do not edit.\n" +
		"   Each definition is the translation of the Go text named in the comment above it\n" +
		"   (file, line range, SHA-256 of that text).  Semantics of the primitives: GoSem.v, GoSemWild.v. *)\n" +
		"From FoxBase Require Import Bytes.\nFrom FoxGen Require Import GoSem GoSemWild.\n" +
		"Open Scope char_scope.\nOpen Scope bool_scope.\nOpen Scope Z_scope.\n\n" +
		semCheckWild()
}
