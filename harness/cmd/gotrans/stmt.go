package main

import (
	"fmt"
	"go/ast"
	"go/token"
	"go/types"
	"strings"
)

// kont: what happens after a statement list (normal), on break, on continue.
// Continuations are duplicated where control joins (if / switch / break); they are
// memoised, so every statement is translated once and the copies are textually equal.
type kont struct{ normal, brk, cont func() string }

func memo(g func() string) func() string {
	done, s := false, ""
	return func() string {
		if !done {
			s, done = g(), true
		}
		return s
	}
}

// memoK: a memoised continuation is translated once, under the alias state (buf.go) of its first
// use; reaching it again under a different alias state is refused.
func (f *fnCtx) memoK(g func() string) func() string {
	done, s, key := false, "", ""
	return func() string {
		if !done {
			key = f.staleKey()
			s, done = g(), true
		} else if key != f.staleKey() {
			die("%s: a control-flow join is reached with different alias states of []byte variables (%q / %q)", f.d.Name, key, f.staleKey())
		}
		return s
	}
}

func (f *fnCtx) letOrBind(name string, v val, body string) string {
	if v.pure {
		return "let " + name + " := " + v.s + " in\n" + body
	}
	return "bind " + paren(v.s) + " (fun " + name + " =>\n" + body + ")"
}

func (f *fnCtx) stmts(list []ast.Stmt, sc scope, k kont) string {
	if len(list) == 0 {
		return k.normal()
	}
	st, rest := list[0], list[1:]
	next := func(sc scope) string { return f.stmts(rest, sc, k) }
	after := kont{normal: f.memoK(func() string { return next(sc) }), brk: k.brk, cont: k.cont}
	switch s := st.(type) {
	case *ast.EmptyStmt:
		return next(sc)
	case *ast.ReturnStmt:
		return f.returnStmt(s)
	case *ast.ExprStmt:
		if c, ok := s.X.(*ast.CallExpr); ok {
			if id, ok := c.Fun.(*ast.Ident); ok {
				if b, ok := f.p.info.Uses[id].(*types.Builtin); ok && b.Name() == "panic" {
					f.needImpure(s)
					return "Panic"
				}
			}
		}
		if c, ok := s.X.(*ast.CallExpr); ok {
			if t, ok := f.bufCallStmt(c, sc, next); ok {
				return t
			}
		}
		if c, ok := s.X.(*ast.CallExpr); ok {
			if id, ok := c.Fun.(*ast.Ident); ok {
				if fo, ok := f.p.info.Uses[id].(*types.Func); ok {
					f.refuse(s, "call statement of %s, which is not a translated function with a *[]byte parameter (refused, or no directive before this one)", fo.Name())
				}
			}
		}
		f.refuse(s, "expression statement")
	case *ast.AssignStmt:
		return f.assign(s, sc, next)
	case *ast.IncDecStmt:
		id, ok := s.X.(*ast.Ident)
		if ok {
			if t, handled := f.incDecUint(s, id); handled { // uints.go: ++/-- on uint16/32/64 wraps
				return t + next(sc)
			}
		}
		if !ok || !f.isInt(s.X) {
			f.refuse(s, "++/-- on something that is not an int variable")
		}
		o := f.lhsVar(id)
		op := " + 1"
		if s.Tok == token.DEC {
			op = " - 1"
		}
		return "let " + f.nameOf(o) + " := " + f.nameOf(o) + op + " in\n" + next(sc)
	case *ast.DeclStmt:
		return f.decl(s, sc, next)
	case *ast.BlockStmt:
		return f.stmts(s.List, sc, after)
	case *ast.IfStmt:
		if s.Init != nil {
			inner := *s
			inner.Init = nil
			return f.stmts([]ast.Stmt{s.Init, &inner}, sc, after)
		}
		c := f.expr(s.Cond)
		saved := f.saveStale()
		thenT := f.stmts(s.Body.List, sc, after)
		f.restoreStale(saved)
		var elseT string
		switch e := s.Else.(type) {
		case nil:
			elseT = after.normal()
		case *ast.BlockStmt:
			elseT = f.stmts(e.List, sc, after)
		default:
			elseT = f.stmts([]ast.Stmt{e}, sc, after)
		}
		return f.ifThenElse(c, thenT, elseT)
	case *ast.SwitchStmt:
		return f.switchStmt(s, sc, after)
	case *ast.ForStmt:
		return f.forStmt(s, sc, after)
	case *ast.RangeStmt:
		return f.rangeStmt(s, sc, after)
	case *ast.BranchStmt:
		if s.Label != nil {
			f.refuse(s, "labelled branch")
		}
		switch s.Tok {
		case token.BREAK:
			if k.brk != nil {
				return k.brk()
			}
		case token.CONTINUE:
			if k.cont != nil {
				return k.cont()
			}
		}
		f.refuse(s, "unsupported branch statement %s", s.Tok)
	}
	f.refuse(st, "unsupported statement %T", st)
	return ""
}

func (f *fnCtx) ifThenElse(c val, thenT, elseT string) string {
	if c.t.k != tBool {
		die("internal: non-boolean condition")
	}
	if c.pure {
		return "if " + c.s + " then\n" + indent(thenT, 2) + "\nelse\n" + indent(elseT, 2)
	}
	n := f.fresh()
	return "bind " + paren(c.s) + " (fun " + n + " =>\n" + "if " + n + " then\n" + indent(thenT, 2) + "\nelse\n" + indent(elseT, 2) + ")"
}

func (f *fnCtx) returnStmt(s *ast.ReturnStmt) string {
	if f.noReturn > 0 {
		f.refuse(s, "return inside a nested loop")
	}
	if len(f.outs) > 0 {
		return f.returnOuts(s)
	}
	if len(s.Results) == 0 {
		if len(f.named) != len(f.res) {
			f.refuse(s, "bare return without named results")
		}
		parts := make([]string, len(f.named))
		for i, o := range f.named {
			parts[i] = f.nameOf(o)
		}
		return f.ret(tuple(parts))
	}
	if len(s.Results) != len(f.res) {
		f.refuse(s, "return of a multi-value call")
	}
	vs := make([]val, len(s.Results))
	for i, r := range s.Results {
		vs[i] = f.resultExpr(r, f.res[i]) // errors.go: nil / fmt.Errorf for an error result, else f.expr
		if vs[i].t.String() != f.res[i].String() {
			f.refuse(r, "returned value has representation %s, expected %s", vs[i].t, f.res[i])
		}
	}
	if len(vs) == 1 && !vs[0].pure {
		return vs[0].s
	}
	v := f.seq(vs, ctype{}, tuple)
	if v.pure {
		return f.ret(v.s)
	}
	return v.s
}

func tuple(parts []string) string {
	if len(parts) == 1 {
		return parts[0]
	}
	return "(" + strings.Join(parts, ", ") + ")"
}

// lhsVar resolves an assignable identifier: a local variable of the function.
func (f *fnCtx) lhsVar(id *ast.Ident) types.Object {
	o := f.p.info.Defs[id]
	if o == nil {
		o = f.p.info.Uses[id]
	}
	if o == nil {
		f.refuse(id, "unresolved identifier %s", id.Name)
	}
	if f.p.info.Defs[id] == nil && !f.local[o] {
		f.refuse(id, "assignment to %s, which is not a local variable", id.Name)
	}
	return o
}

func (f *fnCtx) assign(s *ast.AssignStmt, sc scope, next func(scope) string) string {
	type target struct {
		o     types.Object // nil for _
		isNew bool
	}
	if t, ok := f.bufAssign(s, sc, next); ok {
		return t
	}
	if t, ok := f.recAssign(s, sc, next); ok { // structs.go: x = append(x, T{...})
		return t
	}
	tg := make([]target, len(s.Lhs))
	for i, l := range s.Lhs {
		id, ok := l.(*ast.Ident)
		if !ok {
			f.refuse(l, "assignment to something that is not a variable")
		}
		if id.Name == "_" {
			continue
		}
		o := f.lhsVar(id)
		tg[i] = target{o: o, isNew: f.p.info.Defs[id] != nil}
	}
	bindNames := func() ([]string, scope) {
		names := make([]string, len(tg))
		sc2 := sc
		for i, t := range tg {
			if t.o == nil {
				names[i] = "_"
				continue
			}
			if t.isNew {
				f.ctypeOfObj(t.o, s.Lhs[i])
				f.local[t.o] = true
				sc2 = sc2.with(t.o)
			}
			names[i] = f.nameOf(t.o)
		}
		return names, sc2
	}
	switch s.Tok {
	case token.ADD_ASSIGN, token.SUB_ASSIGN:
		if len(s.Lhs) != 1 || len(s.Rhs) != 1 || tg[0].o == nil || !f.isInt(s.Lhs[0]) {
			f.refuse(s, "unsupported compound assignment")
		}
		op := token.ADD
		if s.Tok == token.SUB_ASSIGN {
			op = token.SUB
		}
		// x op= e  is  x = x op (e)
		a, b := f.expr(s.Lhs[0]), f.expr(s.Rhs[0])
		sym := " + "
		if op == token.SUB {
			sym = " - "
		}
		v := f.seq([]val{a, b}, a.t, func(x []string) string { return x[0] + sym + x[1] })
		return f.letOrBind(f.nameOf(tg[0].o), v, next(sc))
	case token.DEFINE, token.ASSIGN:
	default:
		f.refuse(s, "unsupported assignment operator %s", s.Tok)
	}
	if len(s.Rhs) == 1 && len(s.Lhs) > 1 {
		// x, y := g(..) with g a translated multi-value function
		call, ok := s.Rhs[0].(*ast.CallExpr)
		if !ok {
			f.refuse(s, "unsupported multi-value assignment")
		}
		id, ok := call.Fun.(*ast.Ident)
		var sg *sig
		if ok {
			if fo, ok := f.p.info.Uses[id].(*types.Func); ok && fo.Pkg() == f.p.pkg {
				sg = f.out.funcs[f.p.name+"."+fo.Name()]
			}
		}
		if sg == nil || !sg.recvless || len(sg.res) != len(s.Lhs) || len(sg.outIdx) > 0 || sg.file != f.file {
			f.refuse(s, "multi-value assignment from something that is not a translated function")
		}
		vs := make([]val, len(call.Args))
		for i, a := range call.Args {
			vs[i] = f.expr(a)
		}
		build := func(a []string) string { return strings.TrimSpace(sg.coq + " " + strings.Join(a, " ")) }
		names, sc2 := bindNames()
		pat := "'(" + strings.Join(names, ", ") + ")"
		if sg.pure {
			v := f.seq(vs, ctype{}, build)
			if v.pure {
				return "let " + pat + " := " + v.s + " in\n" + next(sc2)
			}
			return "bind " + paren(v.s) + " (fun " + pat + " =>\n" + next(sc2) + ")"
		}
		v := f.seqImpure(vs, ctype{}, build)
		return "bind " + paren(v.s) + " (fun " + pat + " =>\n" + next(sc2) + ")"
	}
	if len(s.Lhs) != len(s.Rhs) {
		f.refuse(s, "unsupported assignment shape")
	}
	vs := make([]val, len(s.Rhs))
	for i, r := range s.Rhs {
		vs[i] = f.expr(r) // evaluated before any target is rebound
		if tg[i].o != nil {
			want := f.ctypeOfObj(tg[i].o, s.Lhs[i])
			if want.k == tBuf || vs[i].t.k == tBuf {
				f.refuse(r, "assignment of a []byte buffer outside the accepted forms (make, x = x[:k], b = *buf): it would alias")
			}
			if want.String() != vs[i].t.String() {
				f.refuse(r, "assigned value has representation %s, expected %s", vs[i].t, want)
			}
		}
	}
	names, sc2 := bindNames()
	body := next(sc2)
	if len(vs) == 1 {
		n := names[0]
		if n == "_" {
			if vs[0].pure {
				return body
			}
			n = f.fresh()
		}
		return f.letOrBind(n, vs[0], body)
	}
	// parallel assignment: all right-hand sides first
	tmps := make([]string, len(vs))
	for i := range vs {
		tmps[i] = f.fresh()
	}
	for i := len(vs) - 1; i >= 0; i-- {
		if names[i] != "_" {
			body = "let " + names[i] + " := " + tmps[i] + " in\n" + body
		}
	}
	for i := len(vs) - 1; i >= 0; i-- {
		body = f.letOrBind(tmps[i], vs[i], body)
	}
	return body
}

func (f *fnCtx) decl(s *ast.DeclStmt, sc scope, next func(scope) string) string {
	gd, ok := s.Decl.(*ast.GenDecl)
	if ok && gd.Tok == token.CONST {
		// a constant local to the function: every use is resolved to its value by go/types
		for _, sp := range gd.Specs {
			for _, id := range sp.(*ast.ValueSpec).Names {
				if _, isConst := f.p.info.Defs[id].(*types.Const); !isConst && id.Name != "_" {
					f.refuse(s, "unsupported const declaration")
				}
			}
		}
		return next(sc)
	}
	if !ok || gd.Tok != token.VAR {
		f.refuse(s, "unsupported declaration")
	}
	type b struct {
		name string
		v    val
	}
	var bs []b
	for _, sp := range gd.Specs {
		vs := sp.(*ast.ValueSpec)
		if len(vs.Values) != 0 && len(vs.Values) != len(vs.Names) {
			f.refuse(s, "unsupported var declaration shape")
		}
		// initialisers are evaluated before the names come into scope
		vals := make([]val, len(vs.Names))
		for i, id := range vs.Names {
			o := f.p.info.Defs[id]
			ct := f.ctypeOfObj(o, id)
			if ct.k == tBuf && len(vs.Values) != 0 {
				f.refuse(id, "var declaration of a []byte buffer with an initialiser (use :=)")
			}
			if len(vs.Values) == 0 {
				vals[i] = val{s: ct.zero(), pure: true, t: ct}
			} else {
				vals[i] = f.expr(vs.Values[i])
				if vals[i].t.String() != ct.String() {
					f.refuse(id, "initialiser has representation %s, expected %s", vals[i].t, ct)
				}
			}
		}
		if len(vs.Names) > 1 && len(vs.Values) != 0 {
			f.refuse(s, "multi-variable var declaration with initialisers")
		}
		for i, id := range vs.Names {
			o := f.p.info.Defs[id]
			if id.Name == "_" {
				continue
			}
			f.local[o] = true
			sc = sc.with(o)
			nm := f.nameOf(o)
			if len(vs.Values) == 0 {
				nm += " : " + vals[i].t.String()
			}
			bs = append(bs, b{nm, vals[i]})
		}
	}
	body := next(sc)
	for i := len(bs) - 1; i >= 0; i-- {
		body = f.letOrBind(bs[i].name, bs[i].v, body)
	}
	return body
}

func (f *fnCtx) eqVals(a, b val, at ast.Node) val {
	tb := ctype{k: tBool}
	if a.t.k != b.t.k {
		f.refuse(at, "switch case of a different representation")
	}
	switch a.t.k {
	case tZ:
		return f.seq([]val{a, b}, tb, func(s []string) string { return s[0] + " =? " + s[1] })
	case tByte:
		return f.seq([]val{a, b}, tb, func(s []string) string { return "Ascii.eqb " + s[0] + " " + s[1] })
	case tBytes:
		return f.seq([]val{a, b}, tb, func(s []string) string { return "bytes_eqb " + s[0] + " " + s[1] })
	case tBool:
		return f.seq([]val{a, b}, tb, func(s []string) string { return "Bool.eqb " + s[0] + " " + s[1] })
	}
	f.refuse(at, "switch on an unsupported type")
	return val{}
}

func (f *fnCtx) switchStmt(s *ast.SwitchStmt, sc scope, after kont) string {
	if s.Init != nil {
		inner := *s
		inner.Init = nil
		return f.stmts([]ast.Stmt{s.Init, &inner}, sc, after)
	}
	k := kont{normal: after.normal, brk: after.normal, cont: after.cont}
	var tag *val
	pre := func(body string) string { return body }
	if s.Tag != nil {
		t := f.expr(s.Tag)
		n := f.fresh()
		tv := val{s: n, pure: true, t: t.t}
		tag = &tv
		pre = func(body string) string { return f.letOrBind(n, t, body) }
	}
	var def *ast.CaseClause
	type arm struct {
		c    val
		body string
	}
	var arms []arm
	for _, st := range s.Body.List {
		cc := st.(*ast.CaseClause)
		for _, b := range cc.Body {
			if br, ok := b.(*ast.BranchStmt); ok && br.Tok == token.FALLTHROUGH {
				f.refuse(br, "fallthrough")
			}
		}
		if cc.List == nil {
			if def != nil {
				f.refuse(cc, "two default clauses")
			}
			def = cc
			continue
		}
		var c val
		for i, e := range cc.List {
			v := f.expr(e)
			if tag != nil {
				v = f.eqVals(*tag, v, e)
			}
			if v.t.k != tBool {
				f.refuse(e, "unsupported case expression (must be boolean)")
			}
			if !v.pure && (len(cc.List) > 1 || tag != nil) {
				// a case expression that can panic is evaluated only when the earlier ones are false
				f.refuse(e, "case expression that can panic in a case list / tagged switch")
			}
			if i == 0 {
				c = v
			} else {
				c = val{s: paren(c.s) + " || " + paren(v.s), pure: true, t: v.t}
			}
		}
		saved := f.saveStale()
		arms = append(arms, arm{c, f.stmts(cc.Body, sc, k)})
		f.restoreStale(saved)
	}
	var body string
	if def != nil {
		body = f.stmts(def.Body, sc, k)
	} else {
		body = k.normal()
	}
	for i := len(arms) - 1; i >= 0; i-- {
		if arms[i].c.pure {
			body = "if " + arms[i].c.s + " then\n" + indent(arms[i].body, 2) + "\nelse " + body
		} else {
			// Go evaluates the case expressions top to bottom and stops at the first true one
			body = f.ifThenElse(arms[i].c, arms[i].body, body)
		}
	}
	return pre(body)
}

// assigned reports whether o is written anywhere in n.
func (f *fnCtx) assigned(n ast.Node, o types.Object) bool {
	hit := false
	is := func(e ast.Expr) bool {
		id, ok := e.(*ast.Ident)
		return ok && (f.p.info.Uses[id] == o || f.p.info.Defs[id] == o)
	}
	ast.Inspect(n, func(n ast.Node) bool {
		switch x := n.(type) {
		case *ast.AssignStmt:
			for _, l := range x.Lhs {
				hit = hit || is(l)
			}
		case *ast.IncDecStmt:
			hit = hit || is(x.X)
		case *ast.RangeStmt:
			if x.Tok == token.ASSIGN {
				hit = hit || (x.Key != nil && is(x.Key)) || (x.Value != nil && is(x.Value))
			}
		}
		return true
	})
	return hit
}

// countingFuel recognises  for i := a; i OP N; i++ / i--  where neither i nor the
// variables of N are written in the body; the number of iterations is then bounded
// by the distance between i and N at loop entry.
func (f *fnCtx) countingFuel(s *ast.ForStmt) (string, bool) {
	as, ok := s.Init.(*ast.AssignStmt)
	if !ok || as.Tok != token.DEFINE || len(as.Lhs) != 1 || len(as.Rhs) != 1 {
		return "", false
	}
	id, ok := as.Lhs[0].(*ast.Ident)
	if !ok {
		return "", false
	}
	iv := f.p.info.Defs[id]
	if iv == nil || !types.Identical(iv.Type(), types.Typ[types.Int]) {
		return "", false
	}
	cond, ok := s.Cond.(*ast.BinaryExpr)
	if !ok {
		return "", false
	}
	cid, ok := cond.X.(*ast.Ident)
	if !ok || f.p.info.Uses[cid] != iv {
		return "", false
	}
	post, ok := s.Post.(*ast.IncDecStmt)
	if !ok {
		return "", false
	}
	pid, ok := post.X.(*ast.Ident)
	if !ok || f.p.info.Uses[pid] != iv {
		return "", false
	}
	if f.assigned(s.Body, iv) {
		return "", false
	}
	stable := true
	ast.Inspect(cond.Y, func(n ast.Node) bool {
		if x, ok := n.(*ast.Ident); ok {
			if v, ok := f.p.info.Uses[x].(*types.Var); ok && (f.writes(s.Body, v) || v == iv) {
				stable = false
			}
		}
		return true
	})
	if !stable {
		return "", false
	}
	n := f.expr(cond.Y)
	if !n.pure || n.t.k != tZ {
		return "", false
	}
	i := f.nameOf(iv)
	switch {
	case post.Tok == token.INC && cond.Op == token.LSS:
		return "Z.to_nat (" + n.s + " - " + i + ")", true
	case post.Tok == token.INC && cond.Op == token.LEQ:
		return "Z.to_nat (" + n.s + " - " + i + " + 1)", true
	case post.Tok == token.DEC && cond.Op == token.GTR:
		return "Z.to_nat (" + i + " - " + paren(n.s) + ")", true
	case post.Tok == token.DEC && cond.Op == token.GEQ:
		return "Z.to_nat (" + i + " - " + paren(n.s) + " + 1)", true
	}
	return "", false
}

func (f *fnCtx) enterLoop(at ast.Node) (name string, num int) {
	if f.inLoop > 0 {
		if _, isFor := at.(*ast.ForStmt); !isFor {
			f.refuse(at, "nested range loop")
		}
	}
	f.nloop++
	return fmt.Sprintf("%s_loop%d", f.gen, f.nloop), f.nloop
}

// outside runs a continuation that lies outside the loop being translated.
func (f *fnCtx) outside(g func() string) func() string {
	// g is a memoised continuation (memoK): it is translated once, at its first use; later uses
	// only re-check the alias state
	return func() string {
		old, oldNR := f.inLoop, f.noReturn
		f.inLoop, f.noReturn = 0, 0
		defer func() { f.inLoop, f.noReturn = old, oldNR }()
		return g()
	}
}

func (f *fnCtx) forStmt(s *ast.ForStmt, sc scope, after kont) string {
	f.needImpure(s)
	if f.inLoop > 0 {
		return f.nestedFor(s, sc, after)
	}
	hname, num := f.enterLoop(s)
	rest := f.outside(after.normal)
	entry := ""
	run := func(sc1 scope) string {
		entry = f.staleKey()
		fuel, ok := "", false
		if s.Init != nil && s.Cond != nil && s.Post != nil {
			fuel, ok = f.countingFuel(s)
		}
		if !ok {
			fuel, ok = f.d.Fuel[num]
			if !ok {
				f.refuse(s, "loop #%d has no syntactic bound: give a fuel expression in the directive", num)
			}
		}
		iter0 := memo(func() string {
			call := strings.TrimSpace(hname + " fuel'1 " + f.actuals(sc1))
			if s.Post == nil {
				return call
			}
			return f.stmts([]ast.Stmt{s.Post}, sc1, kont{normal: func() string { return call }})
		})
		iter := func() string {
			if f.staleKey() != entry {
				f.refuse(s, "the alias state of []byte variables at the end of the loop body differs from the one at loop entry")
			}
			return iter0()
		}
		saved := f.saveStale()
		f.inLoop++
		body := f.stmts(s.Body.List, sc1, kont{normal: iter, brk: rest, cont: iter})
		f.inLoop--
		f.restoreStale(saved)
		step := "match fuel'0 with\n| O => OutOfFuel\n| S fuel'1 =>\n" + indent(body, 2) + "\nend"
		var text string
		if s.Cond == nil {
			text = step
		} else {
			text = f.ifThenElse(f.expr(s.Cond), step, rest())
		}
		f.helpers = append(f.helpers, fmt.Sprintf("Fixpoint %s (fuel'0 : nat)%s {struct fuel'0} : %s :=\n%s.\n",
			hname, f.binders(sc1), f.resType(), indent(text, 2)))
		return strings.TrimSpace(hname + " (" + fuel + ") " + f.actuals(sc1))
	}
	if s.Init == nil {
		return run(sc)
	}
	as, ok := s.Init.(*ast.AssignStmt)
	if !ok {
		f.refuse(s.Init, "unsupported loop initialisation")
	}
	return f.assign(as, sc, run)
}

func (f *fnCtx) rangeStmt(s *ast.RangeStmt, sc scope, after kont) string {
	f.needImpure(s)
	hname, _ := f.enterLoop(s)
	rest := f.outside(after.normal)
	if s.Tok == token.ASSIGN {
		f.refuse(s, "range clause assigning to existing variables")
	}
	x := f.expr(s.X)
	isString := false
	if b, ok := f.typeOf(s.X).Underlying().(*types.Basic); ok && b.Info()&types.IsString != 0 {
		isString = true
	}
	if !isString && x.t.k != tList {
		f.refuse(s, "range over something that is neither a string nor an array / slice of a supported element type")
	}
	// loop variables
	sc1 := sc
	lets := ""
	bindVar := func(e ast.Expr, from string) {
		if e == nil {
			return
		}
		id, ok := e.(*ast.Ident)
		if !ok {
			f.refuse(e, "unsupported range variable")
		}
		if id.Name == "_" {
			return
		}
		o := f.p.info.Defs[id]
		f.ctypeOfObj(o, id)
		f.local[o] = true
		sc1 = sc1.with(o)
		lets += "let " + f.nameOf(o) + " := " + from + " in\n"
	}
	bindVar(s.Key, "i'0")
	xs := f.fresh()
	var helper, call string
	entry := f.staleKey()
	saved := f.saveStale()
	backEdge := func() {
		if f.staleKey() != entry {
			f.refuse(s, "the alias state of []byte variables at the end of the loop body differs from the one at loop entry")
		}
	}
	if isString {
		bindVar(s.Value, "r'0")
		iter := func() string {
			backEdge()
			return strings.TrimSpace(hname + " fuel'1 (skipn w'0 s'0) (i'0 + Z.of_nat w'0) " + f.actuals(sc))
		}
		f.inLoop++
		body := f.stmts(s.Body.List, sc1, kont{normal: iter, brk: rest, cont: iter})
		f.inLoop--
		f.restoreStale(saved)
		helper = fmt.Sprintf("Fixpoint %s (fuel'0 : nat) (s'0 : bytes) (i'0 : Z)%s {struct fuel'0} : %s :=\n"+
			"  match s'0 with\n  | [] =>\n%s\n  | _ :: _ =>\n    match fuel'0 with\n    | O => OutOfFuel\n    | S fuel'1 =>\n      let '(r'0, w'0) := decode_rune s'0 in\n%s\n    end\n  end.\n",
			hname, f.binders(sc), f.resType(), indent(rest(), 4), indent(lets+body, 6))
		call = strings.TrimSpace(hname + " (List.length " + xs + ") " + xs + " 0 " + f.actuals(sc))
	} else {
		bindVar(s.Value, "x'0")
		iter := func() string {
			backEdge()
			return strings.TrimSpace(hname + " l'1 (i'0 + 1) " + f.actuals(sc))
		}
		f.inLoop++
		body := f.stmts(s.Body.List, sc1, kont{normal: iter, brk: rest, cont: iter})
		f.inLoop--
		f.restoreStale(saved)
		helper = fmt.Sprintf("Fixpoint %s (l'0 : %s) (i'0 : Z)%s {struct l'0} : %s :=\n"+
			"  match l'0 with\n  | [] =>\n%s\n  | x'0 :: l'1 =>\n%s\n  end.\n",
			hname, x.t, f.binders(sc), f.resType(), indent(rest(), 4), indent(lets+body, 4))
		call = strings.TrimSpace(hname + " " + xs + " 0 " + f.actuals(sc))
	}
	f.helpers = append(f.helpers, helper)
	return f.letOrBind(xs, x, call)
}
