package main

// append.go — `append` on a LOCAL []byte buffer, strconv.AppendInt(.., 16), int64(<byte>), and the
// prologue of GenEsc.v (hexEscapeNonASCII, trimMatchedEnds) with its samples of the real primitives.
//
// Accepted (statements only; everything else about append stays REFUSED):
//
//	x = append(x, s...)               s a STRING expression           buf_append x s
//	x = append(x, c)                  c a byte expression             buf_append_byte x c
//	x = strconv.AppendInt(x, v, 16)   v of type int64, base the       go_append_int16 x v
//	                                  constant 16
//	int64(c) / int(c)                 c a byte                        bz c
//
// The result must be assigned to the very variable that is appended to (anything else would alias:
// `y := append(x, ..)` shares x's array when it fits), x must be a local buffer that is neither a
// *[]byte parameter nor an alias of one, the appended operand may not be a []byte (it could overlap
// the destination), and only one operand is appended.
//
// When append exceeds the capacity Go allocates a new array whose capacity the runtime chooses
// (not specified by the language); GoSemEsc.buf_append gives it exactly the needed capacity.  The
// capacity of a variable that is appended to is therefore not faithful, and every operation that
// could observe it is refused on such a variable anywhere in the function: cap(x), x[:k]
// (bounded by cap, shows the bytes behind len), &x (a callee could do either).  What remains
// (string(x), len(x), x[i], x[i] = c, copy(x, s), further appends) depends on the first len bytes only.

import (
	"fmt"
	"go/ast"
	"go/constant"
	"go/token"
	"go/types"
	"strconv"
	"strings"
)

func init() {
	for _, w := range strings.Fields("buf_append buf_append_byte go_append_int16 hex_digit hex_digits format_int16") {
		reserved[w] = true
	}
}

// appendKind classifies a call: "append", "AppendInt" or "".
func (f *fnCtx) appendKind(c *ast.CallExpr) string {
	switch fn := c.Fun.(type) {
	case *ast.Ident:
		if b, ok := f.p.info.Uses[fn].(*types.Builtin); ok && b.Name() == "append" {
			return "append"
		}
	case *ast.SelectorExpr:
		if id, ok := fn.X.(*ast.Ident); ok {
			if pn, ok := f.p.info.Uses[id].(*types.PkgName); ok && pn.Imported().Path() == "strconv" && fn.Sel.Name == "AppendInt" {
				return "AppendInt"
			}
		}
	}
	return ""
}

var appendedCache = map[*fnCtx]map[types.Object]bool{}

// appended: the []byte variables of the function under translation that are the target of an
// append / strconv.AppendInt somewhere in its body.
func (f *fnCtx) appended() map[types.Object]bool {
	if m, ok := appendedCache[f]; ok {
		return m
	}
	m := map[types.Object]bool{}
	appendedCache[f] = m
	if f.d.Kind != kFunc {
		return m
	}
	fd := f.p.findFunc(f.d.Func)
	ast.Inspect(fd.Body, func(n ast.Node) bool {
		as, ok := n.(*ast.AssignStmt)
		if !ok {
			return true
		}
		for i, r := range as.Rhs {
			c, ok := unparen(r).(*ast.CallExpr)
			if !ok || f.appendKind(c) == "" {
				continue
			}
			if i < len(as.Lhs) {
				if id, ok := unparen(as.Lhs[i]).(*ast.Ident); ok {
					if o := f.p.info.Uses[id]; o != nil {
						m[o] = true
					} else if o := f.p.info.Defs[id]; o != nil {
						m[o] = true
					}
				}
			}
			if len(c.Args) > 0 {
				if id, ok := unparen(c.Args[0]).(*ast.Ident); ok {
					if o := f.p.info.Uses[id]; o != nil {
						m[o] = true
					}
				}
			}
		}
		return true
	})
	return m
}

// capObserved refuses an operation that observes the capacity of a variable that is appended to.
func (f *fnCtx) capObserved(o types.Object, at ast.Node, what string) {
	if f.appended()[o] {
		f.refuse(at, "%s on %s, which is appended to: its capacity after a growth is chosen by the runtime and not modelled", what, o.Name())
	}
}

// appendBuf translates the right-hand side of  x = append(x, ..)  /  x = strconv.AppendInt(x, v, 16).
// ok = false: the call is neither (the caller goes on with make).
func (f *fnCtx) appendBuf(x types.Object, isNew bool, c *ast.CallExpr) (val, bool) {
	kind := f.appendKind(c)
	if kind == "" {
		return val{}, false
	}
	if len(c.Args) == 0 {
		f.refuse(c, "%s without arguments", kind)
	}
	src, ok := f.bufVar(c.Args[0])
	if !ok || src != x || isNew {
		f.refuse(c, "the result of %s must be assigned to the local []byte buffer it appends to (x = %s(x, ..)): anything else would alias", kind, kind)
	}
	if f.outParam[x] {
		f.refuse(c, "%s through a *[]byte parameter (the caller could observe the capacity)", kind)
	}
	if _, isAlias := f.aliasOf[x]; isAlias {
		f.refuse(c, "%s on an alias variable", kind)
	}
	// &x anywhere in the function would hand the (unfaithful) capacity to a callee
	fd := f.p.findFunc(f.d.Func)
	ast.Inspect(fd.Body, func(n ast.Node) bool {
		if u, ok := n.(*ast.UnaryExpr); ok && u.Op == token.AND {
			if id, ok := unparen(u.X).(*ast.Ident); ok && f.p.info.Uses[id] == x {
				f.refuse(u, "address of %s, which is appended to", x.Name())
			}
		}
		return true
	})
	xn := f.readBuf(x, c)
	tb := ctype{k: tBuf}
	switch kind {
	case "append":
		if len(c.Args) != 2 {
			f.refuse(c, "append with other than one appended operand")
		}
		a := c.Args[1]
		if c.Ellipsis.IsValid() {
			if b, isStr := f.typeOf(a).Underlying().(*types.Basic); !isStr || b.Info()&types.IsString == 0 {
				f.refuse(c, "append(x, y...): y must be a string (a []byte operand could overlap the destination)")
			}
			v := f.expr(a)
			if v.t.k != tBytes {
				f.refuse(a, "append: unsupported operand")
			}
			return f.seq([]val{v}, tb, func(s []string) string { return "buf_append " + xn + " " + s[0] }), true
		}
		if !types.Identical(f.typeOf(a), types.Typ[types.Uint8]) {
			f.refuse(a, "append(x, c): c must be a byte")
		}
		v := f.expr(a)
		if v.t.k != tByte {
			f.refuse(a, "append: unsupported operand")
		}
		return f.seq([]val{v}, tb, func(s []string) string { return "buf_append_byte " + xn + " " + s[0] }), true
	case "AppendInt":
		if len(c.Args) != 3 || c.Ellipsis.IsValid() {
			f.refuse(c, "unsupported call of strconv.AppendInt")
		}
		bv, ok := f.p.info.Types[c.Args[2]]
		if !ok || bv.Value == nil {
			f.refuse(c.Args[2], "strconv.AppendInt: the base must be a constant")
		}
		if base, exact := constant.Int64Val(constant.ToInt(bv.Value)); !exact || base != 16 {
			f.refuse(c.Args[2], "strconv.AppendInt: only base 16 is modelled (go_append_int16)")
		}
		if !types.Identical(f.typeOf(c.Args[1]), types.Typ[types.Int64]) {
			f.refuse(c.Args[1], "strconv.AppendInt: the value must be an int64")
		}
		v := f.expr(c.Args[1])
		if v.t.k != tZ {
			f.refuse(c.Args[1], "strconv.AppendInt: unsupported value")
		}
		return f.seq([]val{v}, tb, func(s []string) string { return "go_append_int16 " + xn + " " + s[0] }), true
	}
	return val{}, false
}

// convByte: int64(c) / int(c) for a byte c is value preserving: bz c.
func (f *fnCtx) convByte(x *ast.CallExpr, dst types.Type) (val, bool) {
	if len(x.Args) != 1 {
		return val{}, false
	}
	if !types.Identical(dst, types.Typ[types.Int64]) && !types.Identical(dst, types.Typ[types.Int]) {
		return val{}, false
	}
	if !types.Identical(f.typeOf(x.Args[0]), types.Typ[types.Uint8]) {
		return val{}, false
	}
	v := f.expr(x.Args[0])
	if v.t.k != tByte {
		return val{}, false
	}
	return f.seq([]val{v}, ctype{k: tZ}, func(s []string) string { return "bz " + s[0] }), true
}

// prologueEsc: the header of GenEsc.v.
func prologueEsc() string {
	return "(* GENERATED by harness/cmd/gotrans from the fox sources on every run — do not edit.\n" +
		"   Each definition is the translation of the Go text named in the comment above it\n" +
		"   (file, line range, SHA-256 of that text).  Semantics of the primitives: GoSem.v, GoSemEsc.v. *)\n" +
		"From FoxBase Require Import Bytes.\nFrom FoxGen Require Import GoSem GoSemEsc.\n" +
		"Open Scope char_scope.\nOpen Scope bool_scope.\nOpen Scope Z_scope.\n\n" +
		semCheckEsc("esc")
}

// semCheckEsc renders samples of the real append / strconv.AppendInt against GoSemEsc.v.
// A Go slice is rendered as (b[:cap(b)], len(b)); the bytes behind len are not zero.
func semCheckEsc(key string) string {
	bs := func(s string) string {
		if s == "" {
			return "[]"
		}
		p := make([]string, len(s))
		for i := 0; i < len(s); i++ {
			p[i] = fmt.Sprint(s[i])
		}
		return "(B [" + strings.Join(p, ";") + "]%N)"
	}
	render := func(b []byte) string {
		return fmt.Sprintf("{| b_arr := %s; b_len := %d |}", bs(string(b[:cap(b)])), len(b))
	}
	mk := func(n, c int) []byte {
		b := make([]byte, c)
		for i := range b {
			b[i] = byte('a' + i)
		}
		return b[:n]
	}
	var items []string
	// observe: string(r), len(r); and, when append did not reallocate, the whole array up to cap
	observe := func(term string, before, r []byte) {
		items = append(items, fmt.Sprintf("bytes_eqb (buf_string (%s)) %s && (buf_len (%s) =? %d)", term, bs(string(r)), term, len(r)))
		if cap(before) > 0 && cap(r) == cap(before) && &before[:1][0] == &r[:1][0] {
			items = append(items, fmt.Sprintf("bytes_eqb (b_arr (%s)) %s", term, bs(string(r[:cap(r)]))))
		}
	}
	for _, nc := range [][2]int{{0, 0}, {0, 3}, {2, 3}, {3, 3}, {1, 8}, {0, 1}} {
		for _, x := range []string{"", "X", "XY", "XYZ", "XYZXYZXYZ"} {
			b := mk(nc[0], nc[1])
			st := render(b)
			r := append(b, x...)
			observe("buf_append "+st+" "+bs(x), b, r)
		}
		b := mk(nc[0], nc[1])
		st := render(b)
		r := append(b, '%')
		observe(fmt.Sprintf("buf_append_byte %s (ascii_of_N %d)", st, '%'), b, r)
		// append twice: the second append sees the result of the first
		b = mk(nc[0], nc[1])
		r1 := append(b, "PQ"...)
		r2 := append(r1, 'R')
		observe(fmt.Sprintf("buf_append_byte (buf_append %s %s) (ascii_of_N %d)", st, bs("PQ"), 'R'), b, r2)
	}
	// strconv.AppendInt(b, int64(c), 16) for every byte value c
	for c := 0; c < 256; c++ {
		b := mk(1, 4)
		r := strconv.AppendInt(b, int64(byte(c)), 16)
		items = append(items, fmt.Sprintf("bytes_eqb (buf_string (go_append_int16 %s (bz (ascii_of_N %d)))) %s", render(b), c, bs(string(r))))
		items = append(items, fmt.Sprintf("(bz (ascii_of_N %d) =? %d)", c, int64(byte(c))))
	}
	for _, v := range []int64{256, 4095, 4096, 65535, 1 << 32, 1<<63 - 1, -1, -15, -16, -255, -1 << 63, 0xabcdef, 0x123456789} {
		r := strconv.AppendInt(nil, v, 16)
		items = append(items, fmt.Sprintf("bytes_eqb (buf_string (go_append_int16 buf_nil (%d))) %s", v, bs(string(r))))
	}
	var sb strings.Builder
	fmt.Fprintf(&sb, "(* samples of the real Go primitives modelled by GoSemEsc.v (append on []byte, strconv.AppendInt(.., 16)\n"+
		"   for all 256 byte values), replayed on every run *)\n"+
		"Definition sem_samples_%s : list bool :=\n  [%s].\n\n", key, strings.Join(items, ";\n   "))
	fmt.Fprintf(&sb, "Definition sem_sample_count_%s : N := %d.\n\n", key, len(items))
	fmt.Fprintf(&sb, "Lemma sem_samples_%s_ok : forallb (fun b => b) sem_samples_%s = true.\nProof. vm_compute. reflexivity. Qed.\n\n", key, key)
	return sb.String()
}
