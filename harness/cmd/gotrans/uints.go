package main

// uints.go — sized unsigned integers (uint16 / uint32 / uint64 / uint; uint8 is `ascii`).
//
// A value of type uintN is represented by a Z in [0, 2^N); parameters (flattened struct
// fields) of such a type are ASSUMED to be in that range (the bridge theorems carry the
// hypothesis).  Translated operations:
//
//	x++ / x--                       go_uint_add N x 1 / go_uint_sub N x 1   (wraps modulo 2^N)
//	uintM(x), x : uintN, N <= M     x        (value preserving)
//	int(x) / int64(x), x : uintN,   x        (value preserving; int is 64 bits, as for
//	    N < 64                                int(uint(e) >> k))
//	T(x), x : T                     x
//	comparisons                     on Z (already accepted for every integer representation)
//
// Any other arithmetic on unsigned types stays refused (binary + and - are accepted on int only).

import (
	"fmt"
	"go/ast"
	"go/token"
	"go/types"
)

// uintBits returns the width of an unsigned integer type represented by Z (not uint8).
func uintBits(T types.Type) (int, bool) {
	b, ok := T.Underlying().(*types.Basic)
	if !ok {
		return 0, false
	}
	switch b.Kind() {
	case types.Uint16:
		return 16, true
	case types.Uint32:
		return 32, true
	case types.Uint64, types.Uint:
		return 64, true
	}
	return 0, false
}

func (f *fnCtx) incDecUint(s *ast.IncDecStmt, id *ast.Ident) (string, bool) {
	bits, ok := uintBits(f.typeOf(s.X))
	if !ok {
		return "", false
	}
	o := f.lhsVar(id)
	fn := "go_uint_add"
	if s.Tok == token.DEC {
		fn = "go_uint_sub"
	}
	n := f.nameOf(o)
	return fmt.Sprintf("let %s := %s %d %s 1 in\n", n, fn, bits, n), true
}

// convExt: value-preserving conversions between integer types whose representation is Z.
func (f *fnCtx) convExt(x *ast.CallExpr, dst types.Type) (val, bool) {
	if len(x.Args) != 1 {
		return val{}, false
	}
	src := f.typeOf(x.Args[0])
	sc, ok1 := f.tryCtype(src)
	dc, ok2 := f.tryCtype(dst)
	if !ok1 || !ok2 || sc.k != tZ || dc.k != tZ {
		return val{}, false
	}
	sb, sUns := uintBits(src)
	db, dUns := uintBits(dst)
	preserving := types.Identical(src, dst)
	if sUns && dUns && sb <= db {
		preserving = true
	}
	if sUns && sb < 64 {
		if b, ok := dst.Underlying().(*types.Basic); ok && (b.Kind() == types.Int || b.Kind() == types.Int64) {
			preserving = true
		}
	}
	if !preserving {
		return val{}, false
	}
	v := f.expr(x.Args[0])
	v.t = dc
	return v, true
}
