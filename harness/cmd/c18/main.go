// c18: runs fox's client-IP resolvers (package clientip) on generated header
// line lists x resolver parameters x attacker prefixes, and clientip.ParseIPAddr
// on every generated entry text, and writes Coq case files comparing the
// observed results with the model (FoxC18.Model) and the specification
// (FoxC18.Spec) through FoxC18.Corr.
package main

import (
	"encoding/json"
	"errors"
	"fmt"
	"math"
	"math/big"
	"net"
	"net/http"
	"net/http/httptest"
	"os"
	"strings"
	"unicode/utf8"

	"foxverif/cmd/c18gen/ranges"
	"foxverif/hx"

	"github.com/tigerwill90/fox"
	"github.com/tigerwill90/fox/clientip"
)

// cb renders a Go string as a Coq term of type bytes.  Number literals are slow
// to elaborate (about 85 us each), so everything that may stand in a Coq string
// literal (any valid UTF-8, each byte becoming one ascii) goes into (S2B "...");
// only invalid bytes, NUL and CR are written as (B [n;...]%N) segments.
func cb(s string) string {
	var segs []string
	var lit strings.Builder
	var raw []string
	flushLit := func() {
		if lit.Len() > 0 {
			segs = append(segs, "S2B \""+lit.String()+"\"")
			lit.Reset()
		}
	}
	flushRaw := func() {
		if len(raw) > 0 {
			segs = append(segs, "B ["+strings.Join(raw, ";")+"]%N")
			raw = nil
		}
	}
	for i := 0; i < len(s); {
		r, n := utf8.DecodeRuneInString(s[i:])
		if (r == utf8.RuneError && n == 1) || r == 0 || r == '\r' {
			flushLit()
			raw = append(raw, fmt.Sprint(int(s[i])))
			i++
			continue
		}
		flushRaw()
		if r == '"' {
			lit.WriteString("\"\"")
		} else {
			lit.WriteString(s[i : i+n])
		}
		i += n
	}
	flushLit()
	flushRaw()
	switch len(segs) {
	case 0:
		return "(S2B \"\")"
	case 1:
		return "(" + segs[0] + ")"
	}
	return "(" + strings.Join(segs, " ++ ") + ")"
}

// ---------------------------------------------------------------- resolver descriptions

type optFlag struct {
	kind int // 0 loopback, 1 link-local, 2 private net
	on   bool
}

type rdesc struct {
	kind    string // remote single leftmost rnp count range chain
	fwd     bool
	n       uint
	opts    []optFlag
	zero    bool     // leftmost / count: the zero value of the struct, built without the constructor (reads Header[""])
	rangeOK bool     // range: the TrustedIPRange resolver succeeds
	ranges  []string // range: arguments of AddressesAndRangesToIPNets
	subs    []*rdesc
}

const singleHeader = "X-Real-Ip"

var errRangeResolver = errors.New("harness: range resolver failure")

func key(fwd bool) clientip.HeaderKey {
	if fwd {
		return clientip.ForwardedKey
	}
	return clientip.XForwardedForKey
}

func (d *rdesc) build() (fox.ClientIPResolver, error) {
	switch d.kind {
	case "remote":
		return clientip.NewRemoteAddr(), nil
	case "single":
		return clientip.NewSingleIPHeader(singleHeader)
	case "leftmost":
		if d.zero {
			return clientip.LeftmostNonPrivate{}, nil
		}
		var opts []clientip.BlacklistRangeOption
		for _, o := range d.opts {
			switch o.kind {
			case 0:
				opts = append(opts, clientip.ExcludeLoopback(o.on))
			case 1:
				opts = append(opts, clientip.ExcludeLinkLocal(o.on))
			default:
				opts = append(opts, clientip.ExcludePrivateNet(o.on))
			}
		}
		return clientip.NewLeftmostNonPrivate(key(d.fwd), d.n, opts...)
	case "rnp":
		var opts []clientip.TrustedRangeOption
		for _, o := range d.opts {
			switch o.kind {
			case 0:
				opts = append(opts, clientip.TrustLoopback(o.on))
			case 1:
				opts = append(opts, clientip.TrustLinkLocal(o.on))
			default:
				opts = append(opts, clientip.TrustPrivateNet(o.on))
			}
		}
		return clientip.NewRightmostNonPrivate(key(d.fwd), opts...)
	case "count":
		if d.zero {
			return clientip.RightmostTrustedCount{}, nil
		}
		return clientip.NewRightmostTrustedCount(key(d.fwd), d.n)
	case "range":
		if !d.rangeOK {
			return clientip.NewRightmostTrustedRange(key(d.fwd), clientip.TrustedIPRangeFunc(func() ([]net.IPNet, error) {
				return nil, errRangeResolver
			}))
		}
		nets, err := buildNets(d.ranges)
		if err != nil {
			return nil, err
		}
		return clientip.NewRightmostTrustedRange(key(d.fwd), clientip.TrustedIPRangeFunc(func() ([]net.IPNet, error) {
			return nets, nil
		}))
	case "chain":
		var subs []fox.ClientIPResolver
		for _, s := range d.subs {
			r, err := s.build()
			if err != nil {
				return nil, err
			}
			subs = append(subs, r)
		}
		return clientip.NewChain(subs...), nil
	}
	return nil, fmt.Errorf("unknown kind %q", d.kind)
}

func coqOpts(opts []optFlag) string {
	return hx.ListOf(opts, func(o optFlag) string {
		return hx.Pair([]string{"OLoopback", "OLinkLocal", "OPrivateNet"}[o.kind], hx.Bool(o.on))
	})
}

func bigN(b *big.Int) string { return "(" + b.String() + ")%N" }

// the net.IPNet values a TrustedIPRange returns for the arguments: AddressesAndRangesToIPNets,
// except "!a.b.c.d/n": a legal but non-canonical net.IPNet whose IP keeps its host bits
// (what net.InterfaceAddrs or IPNet{IP: ip, Mask: n.Mask} of ParseCIDR's results give)
func buildNets(args []string) ([]net.IPNet, error) {
	var out []net.IPNet
	for _, a := range args {
		if strings.HasPrefix(a, "!") {
			ip, n, err := net.ParseCIDR(a[1:])
			if err != nil {
				return nil, err
			}
			out = append(out, net.IPNet{IP: ip, Mask: n.Mask})
			continue
		}
		ns, err := clientip.AddressesAndRangesToIPNets(a)
		if err != nil {
			return nil, err
		}
		out = append(out, ns...)
	}
	return out, nil
}

// ... and as model cidrs
func coqNets(args []string) (string, error) {
	nets, err := buildNets(args)
	if err != nil {
		return "", err
	}
	items := make([]string, 0, len(nets))
	for _, n := range nets {
		r, err := ranges.FromIPNet(n)
		if err != nil {
			return "", err
		}
		items = append(items, fmt.Sprintf("(V%d, %s, %s)", r.Fam, bigN(r.Addr), hx.N(uint64(r.Len))))
	}
	return hx.List(items), nil
}

func (d *rdesc) coq() (string, error) {
	switch d.kind {
	case "remote":
		return "RRemoteAddr", nil
	case "single":
		return "RSingle", nil
	case "leftmost":
		return fmt.Sprintf("(RLeftmost %s %s %s)", hx.Bool(d.fwd), hx.N(uint64(d.n)), coqOpts(d.opts)), nil
	case "rnp":
		return fmt.Sprintf("(RRightNonPrivate %s %s)", hx.Bool(d.fwd), coqOpts(d.opts)), nil
	case "count":
		return fmt.Sprintf("(RTrustedCount %s %s)", hx.Bool(d.fwd), hx.N(uint64(d.n))), nil
	case "range":
		if !d.rangeOK {
			return fmt.Sprintf("(RTrustedRange %s None)", hx.Bool(d.fwd)), nil
		}
		ns, err := coqNets(d.ranges)
		if err != nil {
			return "", err
		}
		return fmt.Sprintf("(RTrustedRange %s (Some %s))", hx.Bool(d.fwd), ns), nil
	case "chain":
		items := []string{}
		for _, s := range d.subs {
			c, err := s.coq()
			if err != nil {
				return "", err
			}
			items = append(items, c)
		}
		return "(RChain " + hx.List(items) + ")", nil
	}
	return "", fmt.Errorf("unknown kind")
}

func (d *rdesc) human() string {
	h := map[bool]string{false: "XFF", true: "Forwarded"}[d.fwd]
	switch d.kind {
	case "remote", "single":
		return d.kind
	case "leftmost":
		if d.zero {
			return "LeftmostNonPrivate{}"
		}
		return fmt.Sprintf("leftmost(%s,limit=%d,opts=%v)", h, d.n, d.opts)
	case "rnp":
		return fmt.Sprintf("rightmost-non-private(%s,opts=%v)", h, d.opts)
	case "count":
		if d.zero {
			return "RightmostTrustedCount{}"
		}
		return fmt.Sprintf("rightmost-trusted-count(%s,%d)", h, d.n)
	case "range":
		if !d.rangeOK {
			return fmt.Sprintf("rightmost-trusted-range(%s,<resolver error>)", h)
		}
		return fmt.Sprintf("rightmost-trusted-range(%s,%v)", h, d.ranges)
	default:
		parts := []string{}
		for _, s := range d.subs {
			parts = append(parts, s.human())
		}
		return "chain[" + strings.Join(parts, "; ") + "]"
	}
}

// the header a (non-chain) resolver reads: 0 XFF, 1 Forwarded, 2 single, -1 none
func (d *rdesc) reads() int {
	switch d.kind {
	case "leftmost", "rnp", "count", "range":
		if d.fwd {
			return 1
		}
		return 0
	case "single":
		return 2
	}
	return -1
}

// ---------------------------------------------------------------- running the implementation

type reqDesc struct {
	xff, fwd, single []string
	remote           string
}

func (r reqDesc) coq() string {
	l := func(xs []string) string { return hx.ListOf(xs, cb) }
	return fmt.Sprintf("{| xff := %s; forwarded := %s; single := %s; remote := %s |}", l(r.xff), l(r.fwd), l(r.single), cb(r.remote))
}

func (r reqDesc) human() string {
	return fmt.Sprintf("XFF=%q Forwarded=%q %s=%q RemoteAddr=%q", r.xff, r.fwd, singleHeader, r.single, r.remote)
}

func (r reqDesc) httpRequest(emptyAsNil bool) *http.Request {
	req := httptest.NewRequest(http.MethodGet, "/", nil)
	set := func(k string, v []string) {
		if len(v) == 0 {
			if !emptyAsNil {
				req.Header[k] = []string{} // present but empty
			}
			return
		}
		req.Header[k] = append([]string(nil), v...)
	}
	set("X-Forwarded-For", r.xff)
	set("", r.xff) // what a zero-value LeftmostNonPrivate{} / RightmostTrustedCount{} (headerName "") reads, as an XFF list
	set("Forwarded", r.fwd)
	set(singleHeader, r.single)
	req.RemoteAddr = r.remote
	return req
}

func attack(lines, extra []string, text *string) []string {
	out := append([]string(nil), extra...)
	if text != nil {
		if len(lines) == 0 {
			return append(out, *text)
		}
		out = append(out, *text+","+lines[0])
		return append(out, lines[1:]...)
	}
	return append(out, lines...)
}

func (r reqDesc) attacked(hdr int, extra []string, text *string) reqDesc {
	a := r
	switch hdr {
	case 0:
		a.xff = attack(r.xff, extra, text)
	case 1:
		a.fwd = attack(r.fwd, extra, text)
	default:
		a.single = attack(r.single, extra, text)
	}
	return a
}

type outcome struct {
	ip       *net.IPAddr
	err      error
	panicked bool
	pval     any
}

// via: 0 resolver.ClientIP(ctx) on a test context; 1 Context.ClientIP in a handler of a
// router configured with the global option; 2 same with the route option
func observe(res fox.ClientIPResolver, req *http.Request, via int) (o outcome) {
	defer func() {
		if p := recover(); p != nil {
			o = outcome{panicked: true, pval: p}
		}
	}()
	w := httptest.NewRecorder()
	switch via {
	case 0:
		c := fox.NewTestContextOnly(w, req)
		ip, err := res.ClientIP(c)
		return outcome{ip: ip, err: err}
	default:
		var f *fox.Router
		var err error
		called := false
		h := func(c fox.Context) {
			called = true
			o.ip, o.err = c.ClientIP()
		}
		if via == 1 {
			f, err = fox.New(fox.WithClientIPResolver(res))
			hx.Fatal(err)
			_, err = f.Handle(http.MethodGet, "/", h)
		} else {
			f, err = fox.New()
			hx.Fatal(err)
			_, err = f.Handle(http.MethodGet, "/", h, fox.WithClientIPResolver(res))
		}
		hx.Fatal(err)
		f.ServeHTTP(w, req)
		if !called {
			hx.Fatal(fmt.Errorf("handler not reached"))
		}
		return o
	}
}

func leafKind(e error) string {
	switch {
	case errors.Is(e, clientip.ErrRemoteAddress):
		if errors.Is(e, clientip.ErrInvalidIpAddress) {
			return "ERemoteInvalid"
		}
		if errors.Is(e, clientip.ErrUnspecifiedIpAddress) {
			return "ERemoteUnspecified"
		}
	case errors.Is(e, fox.ErrNoClientIPResolver):
		return "ENoResolver"
	case strings.HasPrefix(e.Error(), "chain resolver: no resolver configured"):
		// clientip.ErrChain, matched by text so that the harness still builds against a tree that predates it
		return "EChainEmpty"
	case errors.Is(e, clientip.ErrSingleIPHeader):
		return "ESingleNotFound"
	case errors.Is(e, clientip.ErrLeftmostNonPrivate):
		return "ELeftmost"
	case errors.Is(e, clientip.ErrRightmostNonPrivate):
		return "ERightNonPrivate"
	case errors.Is(e, clientip.ErrRightmostTrustedCount):
		if strings.Contains(e.Error(), "expected at least") {
			return "ECountFewer"
		}
		if strings.Contains(e.Error(), "invalid IP address from the first trusted proxy") {
			return "ECountInvalid"
		}
	case errors.Is(e, clientip.ErrRightmostTrustedRange):
		if errors.Is(e, errRangeResolver) {
			return "ERangeResolver"
		}
		return "ERangeNoValid"
	case e == clientip.ErrInvalidIpAddress:
		return "EInvalidIP"
	case e == clientip.ErrUnspecifiedIpAddress:
		return "EUnspecifiedIP"
	}
	return "EOther"
}

func flatten(e error, out *[]string) {
	if fmt.Sprintf("%T", e) == "*errors.joinError" {
		for _, s := range e.(interface{ Unwrap() []error }).Unwrap() {
			flatten(s, out)
		}
		return
	}
	*out = append(*out, leafKind(e))
}

func coqAddr(ip *net.IPAddr) string {
	fam, b := "V6", []byte(ip.IP.To16())
	if v4 := ip.IP.To4(); v4 != nil {
		fam, b = "V4", v4
	}
	if b == nil {
		return fmt.Sprintf("((V6, (0)%%N), %s)", cb("<malformed net.IP>"))
	}
	return fmt.Sprintf("((%s, %s), %s)", fam, bigN(new(big.Int).SetBytes(b)), cb(ip.Zone))
}

func (o outcome) coq() string {
	switch {
	case o.panicked:
		return "Panic"
	case o.err != nil:
		var ks []string
		flatten(o.err, &ks)
		return "(Err " + hx.List(ks) + ")"
	case o.ip == nil:
		return "NoResult"
	}
	return "(Ok " + coqAddr(o.ip) + ")"
}

func (o outcome) human() string {
	switch {
	case o.panicked:
		return fmt.Sprintf("PANIC(%v)", o.pval)
	case o.err != nil:
		return "error(" + strings.ReplaceAll(o.err.Error(), "\n", " | ") + ")"
	case o.ip == nil:
		return "(nil, nil)"
	}
	return o.ip.String()
}

func (o outcome) class() string {
	switch {
	case o.panicked:
		return "panic"
	case o.err != nil:
		return "error"
	case o.ip == nil:
		return "nil-nil"
	}
	return "address"
}

// ---------------------------------------------------------------- generators

type gen struct {
	rnd      *hx.Rand
	boundary []string // addresses at the edges of every default table entry
	atoms    map[string]bool
}

func ipString(fam int, v *big.Int) string {
	n := 4
	if fam == 6 {
		n = 16
	}
	b := v.FillBytes(make([]byte, n))
	return net.IP(b).String()
}

func boundaryAddrs(tabs map[string][]ranges.Range) []string {
	seen := map[string]bool{}
	var out []string
	add := func(fam int, v *big.Int) {
		max := new(big.Int).Lsh(big.NewInt(1), uint(map[int]int{4: 32, 6: 128}[fam]))
		if v.Sign() < 0 || v.Cmp(max) >= 0 {
			return
		}
		s := ipString(fam, v)
		if fam == 6 && strings.Contains(s, ".") && !strings.Contains(s, ":") {
			return // a v6 value that prints as v4 (v4-mapped): skip
		}
		if !seen[s] {
			seen[s] = true
			out = append(out, s)
		}
	}
	for _, name := range ranges.Names {
		for _, r := range tabs[name] {
			size := new(big.Int).Lsh(big.NewInt(1), uint(r.Bits()-r.Len))
			last := new(big.Int).Add(r.Addr, new(big.Int).Sub(size, big.NewInt(1)))
			add(r.Fam, new(big.Int).Sub(r.Addr, big.NewInt(1)))
			add(r.Fam, r.Addr)
			add(r.Fam, new(big.Int).Add(r.Addr, big.NewInt(1)))
			add(r.Fam, new(big.Int).Add(r.Addr, new(big.Int).Rsh(size, 1)))
			add(r.Fam, last)
			add(r.Fam, new(big.Int).Add(last, big.NewInt(1)))
		}
	}
	return out
}

var (
	publicV4  = []string{"8.8.8.8", "1.1.1.1", "203.0.114.7", "192.18.0.1", "192.19.255.254", "9.9.9.9", "172.32.0.1", "100.128.0.1", "223.255.255.255", "11.0.0.0"}
	privateV4 = []string{"10.0.0.1", "10.255.255.255", "192.168.1.1", "172.16.0.1", "172.31.255.255", "127.0.0.1", "169.254.10.20", "100.64.0.1", "198.18.0.1", "198.19.255.255", "192.0.2.1", "224.0.0.1", "255.255.255.255", "0.1.2.3"}
	publicV6  = []string{"2606:4700:4700::1111", "2a00:1450:4001:81b::200e", "2400:cb00:2048:1::c629:d7a2", "2001:4860:4860::8888", "2003::1", "2001:200::1", "64:ff9b::808:808", "2620:fe::fe"}
	privateV6 = []string{"::1", "fc00::1", "fd12:3456:789a:1::1", "fe80::1", "febf::1", "2001:db8::1", "2001::1", "2001:2::5", "2002:c000:204::1", "ff02::1", "100::1"}
	// members of the families the Trust*/Exclude* options switch on and off
	optFamilies = []string{"127.0.0.1", "127.255.255.254", "::1", "169.254.0.1", "169.254.255.255", "fe80::1", "fe80::abcd:1", "10.0.0.1", "192.168.0.1", "fc00::1", "2001:db8::2"}
	mappedV6    = []string{"::ffff:10.0.0.1", "::ffff:8.8.8.8", "::ffff:808:808", "0:0:0:0:0:ffff:192.168.0.1", "::ffff:127.0.0.1"}
	unspec      = []string{"0.0.0.0", "::", "::ffff:0.0.0.0", "0:0:0:0:0:0:0:0", "::0", "::ffff:0:0"}
	invalid     = []string{"", "unknown", "_hidden", "1.2.3", "1.2.3.4.5", "256.1.1.1", "01.2.3.4", "1.2.3.04", "1..2.3", ".1.2.3", "1.2.3.", ":::", "1:2:3:4:5:6:7:8:9",
		"12345::", "g::1", "1::2::3", "1:2:3:4:5:6:7::", "1:2:3:4:5:6:7:8::", "::1:2:3:4:5:6:7:8", "::1.2.3.4", "1:2:3:4:5:6:1.2.3.4", "1:2:3:4:5:6:7:1.2.3.4", "1:2:3:4:5:1.2.3.4",
		"::ffff:1.2.3", "::ffff:1.2.3.4.5", "1:", ":1", "::1:", "fe80::1%", "%eth0", "fe80::1%a%b", "1.2.3.4%eth0", "%", "[", "]", "[]", "[]:", "\"", "\"\"", "\"[", "]\"", "[::1", "::1]", "[[::1]]", "[::1]]:80",
		"[::1]:80:90", "[::1]x:80", "1.2.3.4:80:90", "host.example.com", "localhost:80", "0x7f.1", "1.2.3.4/24", "10.0.0.1 10.0.0.2", "\xff\xfe", "1.1.1.\xc2\xa01", "FFFF:ffff:FfFf::AbCd"}
	spaces = []string{" ", "  ", "\t", " \t ", "\n", "\r\n", "\v", "\f", "\u00a0", "\u0085", "\u1680", "\u2000", "\u2003", "\u200a", "\u2028", "\u2029", "\u202f", "\u205f", "\u3000", "\u200b", "\u180e", "\u2007 \u00a0", "\xc2", "\xe2\x80", "\x85", "\xa0"}
)

func (g *gen) baseAddr() string {
	r := g.rnd
	switch p := r.Intn(100); {
	case p < 14:
		return hx.Pick(r, publicV4)
	case p < 24:
		return hx.Pick(r, optFamilies)
	case p < 36:
		return hx.Pick(r, privateV4)
	case p < 46:
		return hx.Pick(r, publicV6)
	case p < 56:
		return hx.Pick(r, privateV6)
	case p < 61:
		return hx.Pick(r, mappedV6)
	case p < 65:
		return hx.Pick(r, unspec)
	case p < 85:
		return hx.Pick(r, g.boundary)
	case p < 92:
		return fmt.Sprintf("%d.%d.%d.%d", r.Intn(256), r.Intn(256), r.Intn(256), r.Intn(256))
	default:
		parts := make([]string, 8)
		for i := range parts {
			parts[i] = fmt.Sprintf("%x", r.Intn(65536))
		}
		s := strings.Join(parts, ":")
		if r.Pct(40) {
			i := r.Intn(6)
			s = strings.Join(parts[:i+1], ":") + "::" + strings.Join(parts[i+2+r.Intn(6-i):], ":")
		}
		return s
	}
}

// an address text as it may appear in a header: ports, brackets, zones
func (g *gen) decorated() string {
	r := g.rnd
	a := g.baseAddr()
	v6 := strings.Contains(a, ":")
	switch p := r.Intn(100); {
	case p < 45:
		return a
	case p < 55:
		if v6 {
			return "[" + a + "]:" + hx.Pick(r, []string{"80", "443", "65535", "0", "", "http", "99999"})
		}
		return a + ":" + hx.Pick(r, []string{"80", "8080", "", "x", "65536"})
	case p < 62:
		return "[" + a + "]"
	case p < 70:
		z := hx.Pick(r, []string{"eth0", "1", "en0%x", "a b", "z]"})
		switch q := r.Intn(100); {
		case q < 35:
			return "[" + a + "%" + z + "]:" + hx.Pick(r, []string{"80", "4711"})
		case q < 65:
			return "[" + a + "%" + z + "]" // brackets, zone, no port
		}
		return a + "%" + z
	case p < 75:
		return a + ":" + hx.Pick(r, []string{"80", "443"}) // unbracketed v6 with "port", v4 with port
	case p < 80:
		return "[" + a + "]:" + "80" // brackets around v4 too
	default:
		return a
	}
}

var mutAlphabet = []byte("0123456789abcdefF:.[]%\" ;=,\t-_xg/\\\x00\x7f\x80\xc2\xa0\xff")

func (g *gen) mutate(s string) string {
	r := g.rnd
	b := []byte(s)
	for k := r.Range(1, 2); k > 0; k-- {
		c := hx.Pick(r, mutAlphabet)
		switch op := r.Intn(3); {
		case op == 0 || len(b) == 0:
			i := r.Intn(len(b) + 1)
			b = append(b[:i], append([]byte{c}, b[i:]...)...)
		case op == 1:
			i := r.Intn(len(b))
			b = append(b[:i], b[i+1:]...)
		default:
			b[r.Intn(len(b))] = c
		}
	}
	return string(b)
}

// one address text (entry payload), valid or not; never contains a comma unless mutated
func (g *gen) atom() string {
	r := g.rnd
	var s string
	switch p := r.Intn(100); {
	case p < 72:
		s = g.decorated()
	case p < 88:
		s = hx.Pick(r, invalid)
	default:
		s = g.mutate(g.decorated())
	}
	g.atoms[s] = true
	return s
}

func (g *gen) pad(s string) string {
	r := g.rnd
	if r.Pct(25) {
		s = hx.Pick(r, spaces) + s
	}
	if r.Pct(25) {
		s = s + hx.Pick(r, spaces)
	}
	return s
}

// one list item of the given header kind
func (g *gen) item(fwd bool) string {
	r := g.rnd
	a := g.atom()
	if !fwd {
		if r.Pct(3) {
			return "for=" + a // a Forwarded element in an XFF header
		}
		return g.pad(a)
	}
	quote := func(s string) string {
		switch p := r.Intn(100); {
		case p < 45 || (p < 80 && strings.ContainsAny(s, ":[")):
			return "\"" + s + "\""
		case p < 84:
			return s
		case p < 88:
			return "\"" + s
		case p < 92:
			return s + "\""
		case p < 96:
			return "\"\"" + s + "\"\""
		default:
			return "'" + s + "'"
		}
	}
	forKey := func() string { return hx.Pick(r, []string{"for", "for", "for", "For", "FOR", "fOr", "foR"}) }
	other := func() string {
		return hx.Pick(r, []string{"proto=http", "by=203.0.113.43", "host=example.com", "proto=https", "by=\"[2001:db8::9]:1\"", "secret=x",
			"ext=abc", "a=b", "x-id=\"q;r\"", "Host=h", "BY=_gw", "PROTO=HTTP", "", " ", "for", "=", "=1.1.1.1", "forx=1.1.1.1", "fo=2.2.2.2", "xfor=3.3.3.3", "by=" + g.atom()})
	}
	forSection := func(v string) string {
		if r.Pct(6) { // degenerate values: lone quote / bracket, nothing at all
			return forKey() + "=" + hx.Pick(r, []string{"\"", "\"\"", "\"\"\"", " \" ", "[", "]", "[]", "\"[\"", "\"]\"", "\"[]\"", "", " ", "%", ":", "\"%\"", "\"\t\""})
		}
		switch p := r.Intn(100); {
		case p < 88:
			return forKey() + "=" + quote(v)
		case p < 94: // spaces around '='
			return hx.Pick(r, []string{"for =", "for= ", " for=", "for\t=", "for=\t"}) + quote(v)
		default:
			return forKey() + "=" + g.pad(quote(g.pad(v)))
		}
	}
	var parts []string
	switch p := r.Intn(100); {
	case p < 30: // for only
		parts = []string{forSection(a)}
	case p < 90: // 1..7 sections, for= at any position, possibly twice, possibly absent
		k := hx.Pick(r, []int{1, 2, 2, 3, 3, 4, 4, 4, 5, 5, 5, 6, 6, 7})
		parts = make([]string, k)
		for i := range parts {
			parts[i] = other()
		}
		if !r.Pct(7) {
			parts[r.Intn(k)] = forSection(a)
			if r.Pct(15) { // a duplicate for= (the first one counts)
				parts[r.Intn(k)] = forSection(g.atom())
			}
		}
	case p < 94: // no for at all
		parts = []string{other(), other()}
	case p < 97:
		parts = []string{a} // bare address in a Forwarded header
	default:
		parts = []string{forSection(a), ""} // trailing semicolon
	}
	sep := hx.Pick(r, []string{";", ";", "; ", " ;", " ; "})
	return g.pad(strings.Join(parts, sep))
}

func (g *gen) line(fwd bool, maxItems int) string {
	r := g.rnd
	n := r.Range(1, maxItems)
	items := make([]string, n)
	for i := range items {
		items[i] = g.item(fwd)
	}
	sep := hx.Pick(r, []string{",", ", ", ", ", " , "})
	s := strings.Join(items, sep)
	if r.Pct(3) {
		s += ","
	}
	if r.Pct(3) {
		s = "," + s
	}
	if r.Pct(2) {
		s = g.mutate(s)
	}
	return s
}

func (g *gen) lines(fwd bool) []string {
	r := g.rnd
	var n int
	switch p := r.Intn(100); {
	case p < 8:
		n = 0
	case p < 60:
		n = 1
	case p < 88:
		n = 2
	default:
		n = 3
	}
	out := make([]string, n)
	for i := range out {
		out[i] = g.line(fwd, 4)
		if r.Pct(2) {
			out[i] = ""
		}
	}
	return out
}

func (g *gen) request() reqDesc {
	r := g.rnd
	rq := reqDesc{xff: g.lines(false), fwd: g.lines(true)}
	for n := []int{0, 1, 1, 1, 2, 3}[r.Intn(6)]; n > 0; n-- {
		s := g.atom()
		if r.Pct(10) {
			s = g.pad(s)
		}
		if r.Pct(5) {
			s = s + ", " + g.atom()
		}
		rq.single = append(rq.single, s)
	}
	if r.Pct(12) { // blank instance(s) of the single-IP header, last or in the middle
		rq.single = append(rq.single, "")
		if r.Pct(30) {
			rq.single = append(rq.single, hx.Pick(r, []string{"", " ", g.atom()}))
		}
	}
	switch p := r.Intn(100); {
	case p < 60:
		a := g.baseAddr()
		if strings.Contains(a, ":") {
			rq.remote = "[" + a + "]:" + fmt.Sprint(r.Range(1, 65535))
		} else {
			rq.remote = a + ":" + fmt.Sprint(r.Range(1, 65535))
		}
	case p < 70:
		rq.remote = hx.Pick(r, []string{"@", "", " @", "unix", "pipe"})
	default:
		rq.remote = g.atom()
	}
	g.atoms[rq.remote] = true
	return rq
}

func (g *gen) opts() []optFlag {
	r := g.rnd
	n := []int{0, 0, 0, 1, 1, 2, 3, 4}[r.Intn(8)]
	o := make([]optFlag, n)
	for i := range o {
		o[i] = optFlag{kind: r.Intn(3), on: r.Pct(70)}
	}
	return o
}

var rangeArgs = []string{"10.0.0.0/8", "192.168.0.0/16", "172.16.0.0/12", "127.0.0.1", "8.8.8.0/24", "1.1.1.1", "203.0.114.0/23", "100.64.0.0/10", "0.0.0.0/0", "128.0.0.0/1",
	"::1", "fc00::/7", "fe80::/10", "2001:db8::/32", "2606:4700::/32", "::/0", "2000::/3", "::ffff:10.0.0.0/104", "::ffff:8.8.8.8", "192.0.2.77/24", "2001:db8:1:2:3:4:5:6/64", "255.255.255.255/32", "9.9.9.9/31",
	"!10.0.0.7/8", "!192.168.1.77/16", "!172.20.3.4/12", "!127.0.0.1/8", "!8.8.8.8/24", "!fe80::1234/10", "!2001:db8::5/32", "!fc00::abcd/7", "!::ffff:10.1.2.3/104"}

func (g *gen) resolver(depth int) *rdesc {
	r := g.rnd
	p := r.Intn(100)
	if depth > 0 && p >= 88 {
		p = r.Intn(88)
	}
	fwd := r.Pct(50)
	switch {
	case p < 6:
		return &rdesc{kind: "remote"}
	case p < 14:
		return &rdesc{kind: "single"}
	case p < 30:
		if r.Pct(4) {
			return &rdesc{kind: "leftmost", zero: true} // limit 0, header "", no ranges
		}
		return &rdesc{kind: "leftmost", fwd: fwd, n: hx.Pick(r, []uint{1, 1, 2, 3, 4, 5, 8, 100, 1 << 31, 1<<63 - 1, 1 << 63, 1<<63 + 1, math.MaxUint}), opts: g.opts()}
	case p < 50:
		return &rdesc{kind: "rnp", fwd: fwd, opts: g.opts()}
	case p < 68:
		if r.Pct(4) {
			return &rdesc{kind: "count", zero: true} // trustedCount 0: trustedCount-1 wraps to MaxUint
		}
		return &rdesc{kind: "count", fwd: fwd, n: hx.Pick(r, []uint{1, 1, 1, 2, 2, 3, 4, 5, 7, 30, 1 << 31, 1<<63 - 1, 1 << 63, 1<<63 + 1, math.MaxUint})}
	case p < 88:
		d := &rdesc{kind: "range", fwd: fwd, rangeOK: !r.Pct(6)}
		for n := r.Intn(5); n > 0; n-- {
			if r.Pct(25) {
				d.ranges = append(d.ranges, hx.Pick(r, g.boundary))
			} else {
				d.ranges = append(d.ranges, hx.Pick(r, rangeArgs))
			}
		}
		return d
	default:
		d := &rdesc{kind: "chain"}
		for n := []int{0, 1, 2, 2, 3, 3, 4}[r.Intn(7)]; n > 0; n-- {
			if depth == 0 && r.Pct(15) {
				sub := &rdesc{kind: "chain"}
				for m := r.Intn(3); m > 0; m-- {
					sub.subs = append(sub.subs, g.resolver(2))
				}
				d.subs = append(d.subs, sub)
			} else {
				d.subs = append(d.subs, g.resolver(depth+1))
			}
		}
		return d
	}
}

// attacker material for a header kind: extra lines and/or text for the first line
func (g *gen) prefix(fwd bool) (extra []string, text *string) {
	r := g.rnd
	spoof := func() string {
		if fwd {
			return g.item(true)
		}
		switch p := r.Intn(100); {
		case p < 30:
			return hx.Pick(r, privateV4)
		case p < 50:
			return hx.Pick(r, publicV4)
		case p < 60:
			return hx.Pick(r, invalid)
		default:
			return g.item(false)
		}
	}
	mode := r.Intn(3) // 0 lines, 1 text, 2 both
	if mode != 1 {
		for n := r.Range(1, 2); n > 0; n-- {
			items := []string{}
			for k := r.Range(1, 3); k > 0; k-- {
				items = append(items, spoof())
			}
			extra = append(extra, strings.Join(items, hx.Pick(r, []string{",", ", "})))
		}
	}
	if mode != 0 {
		items := []string{}
		for k := r.Range(0, 3); k > 0; k-- {
			items = append(items, spoof())
		}
		t := strings.Join(items, hx.Pick(r, []string{",", ", "}))
		if r.Pct(15) {
			t = hx.Pick(r, []string{"\"", "for=\"", "for=\"1.1.1.1", "[", "1.1.1.1;for=", ";;;;", " ", "", "\"\"", "for=1.2.3.4;", "\\"}) + t
		}
		text = &t
	}
	return
}

// a small fixed set of prefixes applied systematically to a share of the base cases
func systematicPrefixes(fwd bool) (out []struct {
	extra []string
	text  *string
}) {
	w := func(s string) string {
		if fwd {
			return "for=" + s
		}
		return s
	}
	texts := []string{"", w("1.1.1.1"), w("10.0.0.1"), "x", w("1.1.1.1") + "," + w("10.0.0.1"), w("10.0.0.1") + ", " + w("8.8.8.8") + " ", "\"", w("\"[2001:db8::1]")}
	for _, t := range texts {
		t := t
		out = append(out, struct {
			extra []string
			text  *string
		}{nil, &t})
		out = append(out, struct {
			extra []string
			text  *string
		}{[]string{t}, nil})
	}
	t := w("127.0.0.1")
	out = append(out, struct {
		extra []string
		text  *string
	}{[]string{w("9.9.9.9"), w("192.168.0.1") + "," + w("nonsense")}, &t})
	return
}

// ---------------------------------------------------------------- main

func main() {
	args := hx.Args()
	out := args["out"]
	tier := args["tier"]
	shards := hx.Atoi(args["shards"], 8)
	seed := hx.Seed()
	if rp := args["replay"]; rp != "" {
		// a replay file written by bin/check names the seed and tier of the run that failed;
		// generation is deterministic, so regenerating with them re-creates the failing cases
		var v struct {
			Seed uint64 `json:"seed"`
			Tier string `json:"tier"`
		}
		b, err := os.ReadFile(rp)
		hx.Fatal(err)
		hx.Fatal(json.Unmarshal(b, &v))
		seed = v.Seed
		if v.Tier != "" {
			tier = v.Tier
		}
	}
	if tier == "thorough" && shards < 64 {
		shards = 64 // keep each coqc process under ~1 GB
	}
	// hx.NewRand(s) and hx.NewRand(s+1) produce the same stream shifted by one draw; mix the seed first
	rnd := hx.NewRand(hx.NewRand(seed).U64())
	repo := os.Getenv("VERIF_REPO")
	if repo == "" {
		repo = "/repo"
	}
	tabs, err := ranges.Load(repo)
	hx.Fatal(err)

	cs := &hx.Cases{
		Header: "From FoxBase Require Import Bytes.\nFrom FoxC18 Require Import Cidr Types Model Corr.\nOpen Scope N_scope.\n",
		Type:   "case",
		Footer: "Definition mism := Eval vm_compute in mismatches cases.\nPrint mism.\n" +
			"Definition viol := Eval vm_compute in spec_violations cases.\nPrint viol.\n" +
			"Definition oof := Eval vm_compute in fuel_outs cases.\nPrint oof.\n",
	}
	st := &hx.Stats{Rule: "resolver cases: header line lists (0-3 lines x 1-4 items) of X-Forwarded-For, Forwarded and a single-IP header built from valid/invalid/private/public IPv4/IPv6 texts " +
		"(incl. the edges of every entry of the four default tables), ports, brackets, zones, quotes, Forwarded parameters, Unicode/ASCII spaces, byte mutations " +
		"x resolver (kind, header, count, limit, options, trusted ranges, chains) x attacker prefix (none / extra lines / text before the first comma / both; " +
		"systematic set on a share of the bases, random otherwise), each run on the attacked and on the untouched request; " +
		"parse cases: ParseIPAddr on every distinct entry text generated. " +
		"through-fox cases: Context.ClientIP called by a middleware in every handler scope of one router (router-wide resolver or none, two routes with their own resolver, two without) over a sequence of requests (pooled contexts recycled); " +
		"non-trivial = any through-fox case, resolver case whose header under attack has >= 2 entries in total or whose result is an address, or parse case that is not plain dotted-quad; distinct = distinct Coq case terms"}
	g := &gen{rnd: rnd, boundary: boundaryAddrs(tabs), atoms: map[string]bool{}}

	seen := map[string]bool{}
	nontrivial := 0
	observations := 0
	type entry struct{ term, human string }
	var all []entry
	type atk struct {
		hdr   int
		extra []string
		text  *string
		kind  string
	}
	addGroup := func(rq reqDesc, d *rdesc, attacks []atk, kind string) {
		res, err := d.build()
		if err != nil {
			st.Count("skipped:constructor-error")
			return
		}
		rc, err := d.coq()
		if err != nil {
			st.Count("skipped:range-args")
			return
		}
		via := 0
		switch p := rnd.Intn(100); {
		case p < 20:
			via = 1
		case p < 30:
			via = 2
		}
		nilHdr := rnd.Pct(50)
		count := func(o outcome, hdr int, rr reqDesc, k string) {
			observations++
			st.Count("stream:" + k)
			st.Count("resolver:" + d.kind)
			st.Count("outcome:" + o.class())
			st.Count(fmt.Sprintf("via:%d", via))
			var ls []string
			switch hdr {
			case 0:
				ls = rr.xff
			case 1:
				ls = rr.fwd
			default:
				ls = rr.single
			}
			entries := 0
			for _, l := range ls {
				entries += strings.Count(l, ",") + 1
			}
			st.Count(fmt.Sprintf("entries:%02d", min(entries, 12)))
			if entries >= 2 || o.class() == "address" {
				nontrivial++
			}
		}
		ob := observe(res, rq.httpRequest(nilHdr), via)
		count(ob, max(d.reads(), 0), rq, kind)
		var aterms, ahuman []string
		dedup := map[string]bool{}
		for _, a := range attacks {
			tterm, th := "None", "<none>"
			if a.text != nil {
				tterm, th = "(Some "+cb(*a.text)+")", hx.Quote(*a.text)
			}
			head := fmt.Sprintf("(%s, %s, %s", hx.N(uint64(a.hdr)), hx.ListOf(a.extra, cb), tterm)
			if dedup[head] {
				continue
			}
			dedup[head] = true
			ra := rq.attacked(a.hdr, a.extra, a.text)
			o := observe(res, ra.httpRequest(nilHdr), via)
			count(o, a.hdr, ra, a.kind)
			if o.coq() == ob.coq() {
				st.Count("attack:result-unchanged")
			} else {
				st.Count("attack:result-changed")
			}
			aterms = append(aterms, head+", "+o.coq()+")")
			ahuman = append(ahuman, fmt.Sprintf("attacker{header=%d extra-lines=%q text-before-first-comma=%s} => %s", a.hdr, a.extra, th, o.human()))
		}
		term := fmt.Sprintf("CResolve %s %s %s %s", rq.coq(), rc, ob.coq(), hx.List(aterms))
		if seen[term] {
			return
		}
		seen[term] = true
		human := fmt.Sprintf("%s on {%s} => %s (via=%d)", d.human(), rq.human(), ob.human(), via)
		if len(ahuman) > 0 {
			human += " ;; " + strings.Join(ahuman, " ;; ")
		}
		all = append(all, entry{term, human})
		if len(st.Samples) < 10 && ob.class() == "address" && len(attacks) > 0 && len(human) < 900 && rnd.Pct(2) {
			st.Samples = append(st.Samples, human)
		}
	}

	// fixed cases: the witness of the fixed range typo, and the documented examples
	fixed := []struct {
		rq reqDesc
		d  *rdesc
	}{
		{reqDesc{xff: []string{"1.1.1.1, 192.18.0.1"}}, &rdesc{kind: "rnp"}},
		{reqDesc{xff: []string{"192.18.0.1, 1.1.1.1"}}, &rdesc{kind: "leftmost", n: 2}},
		{reqDesc{fwd: []string{"For=\"[2001:db8:cafe::17%zone]:4711\"", "for=192.0.2.60;proto=http; by=203.0.113.43"}}, &rdesc{kind: "count", fwd: true, n: 2}},
		{reqDesc{xff: []string{"4.4.4.4, 10.0.0.1"}, single: []string{"3.3.3.3", "5.5.5.5"}, remote: "192.0.2.1:8080"}, &rdesc{kind: "chain", subs: []*rdesc{{kind: "single"}, {kind: "remote"}}}},
		// degenerate entries: lone quote / bracket as for-value, blank last instance of the single-IP header,
		// a trusted range whose IP keeps host bits
		{reqDesc{fwd: []string{"for=9.9.9.9, for=\""}}, &rdesc{kind: "count", fwd: true, n: 1}},
		{reqDesc{fwd: []string{"for=\", for=9.9.9.9"}}, &rdesc{kind: "leftmost", fwd: true, n: 3}},
		{reqDesc{fwd: []string{"for=9.9.9.9, for=["}}, &rdesc{kind: "rnp", fwd: true}},
		{reqDesc{single: []string{"6.6.6.6", ""}}, &rdesc{kind: "single"}},
		{reqDesc{single: []string{"6.6.6.6", "", ""}}, &rdesc{kind: "single"}},
		{reqDesc{xff: []string{"6.6.6.6, 9.9.9.9, 10.0.0.3"}}, &rdesc{kind: "range", rangeOK: true, ranges: []string{"!10.0.0.7/8"}}},
		{reqDesc{xff: []string{"6.6.6.6, [2607:f8b0:4004:83f::18%eth0]"}, fwd: []string{"for=6.6.6.6, for=\"[2607:f8b0:4004:83f::18%eth0]\""}}, &rdesc{kind: "rnp"}},
		{reqDesc{xff: []string{"6.6.6.6, [2607:f8b0:4004:83f::18%eth0]"}, fwd: []string{"for=6.6.6.6, for=\"[2607:f8b0:4004:83f::18%eth0]\""}}, &rdesc{kind: "count", fwd: true, n: 1}},
		// boundary parameters (all of uint) and zero-value structs
		{reqDesc{xff: []string{"10.0.0.1, 8.8.8.8"}}, &rdesc{kind: "leftmost", n: math.MaxUint}},
		{reqDesc{xff: []string{"10.0.0.1, 8.8.8.8"}}, &rdesc{kind: "leftmost", n: 1 << 63}},
		{reqDesc{xff: []string{"10.0.0.1, 8.8.8.8"}}, &rdesc{kind: "leftmost", n: 1<<63 - 1}},
		{reqDesc{xff: []string{"10.0.0.1, 8.8.8.8"}}, &rdesc{kind: "count", n: math.MaxUint}},
		{reqDesc{xff: []string{"10.0.0.1, 8.8.8.8"}}, &rdesc{kind: "count", n: 1 << 63}},
		{reqDesc{xff: []string{"10.0.0.1, 8.8.8.8"}}, &rdesc{kind: "count", n: 1<<63 + 1}},
		{reqDesc{xff: []string{"10.0.0.1, 8.8.8.8"}}, &rdesc{kind: "count", zero: true}},
		{reqDesc{xff: []string{"10.0.0.1, 8.8.8.8"}}, &rdesc{kind: "leftmost", zero: true}},
		{reqDesc{xff: []string{"8.8.8.8"}, remote: "1.2.3.4:1"}, &rdesc{kind: "chain", subs: []*rdesc{{kind: "count", zero: true}, {kind: "leftmost", n: math.MaxUint}}}},
		// witnesses of the fixed defect c18_empty_chain (a2abf08): must now satisfy the specification
		{reqDesc{remote: "1.2.3.4:1"}, &rdesc{kind: "chain"}},
		{reqDesc{remote: "1.2.3.4:1"}, &rdesc{kind: "chain", subs: []*rdesc{{kind: "chain"}, {kind: "remote"}}}},
		{reqDesc{xff: []string{"8.8.8.8"}, remote: "@"}, &rdesc{kind: "chain", subs: []*rdesc{{kind: "remote"}, {kind: "chain"}}}},
	}
	for _, f := range fixed {
		h := max(f.d.reads(), 0)
		t := "6.6.6.6"
		addGroup(f.rq, f.d, []atk{{h, []string{"7.7.7.7"}, &t, "fixed"}}, "fixed")
	}

	// exhaustive in the shape of a Forwarded element: 1..7 sections, for= at every position (and absent),
	// x quoting x the strategies reading Forwarded; a spoofed element stands to its left
	for k := 1; k <= 7; k++ {
		for pos := 0; pos <= k; pos++ { // pos == k: no for= section
			for _, q := range []string{"9.9.9.9", "\"9.9.9.9\"", "\"[2001:db8::9]:443\"", "FOR"} {
				secs := make([]string, k)
				for i := range secs {
					secs[i] = []string{"by=203.0.113.43", "host=example.com", "proto=https", "ext=abc", "a=b", "c=d", "e=f"}[i]
				}
				if pos < k {
					if q == "FOR" {
						secs[pos] = "FOR=9.9.9.9"
					} else {
						secs[pos] = "for=" + q
					}
				}
				rq := reqDesc{fwd: []string{"for=6.6.6.6, " + strings.Join(secs, ";")}}
				for _, d := range []*rdesc{{kind: "count", fwd: true, n: 1}, {kind: "rnp", fwd: true}, {kind: "range", fwd: true, rangeOK: true, ranges: []string{"10.0.0.0/8"}}, {kind: "leftmost", fwd: true, n: 2}} {
					addGroup(rq, d, nil, "forwarded-sections-exhaustive")
				}
			}
		}
	}

	// exhaustive in the option lists: every list of up to 2 (thorough: 3) Trust*/Exclude* options
	// x both non-private strategies x headers that put a member of each family in the deciding position
	famHeaders := [][]string{
		{"8.8.8.8, 127.0.0.1, 169.254.0.1, 10.0.0.1"}, {"8.8.8.8, 10.0.0.1, 127.0.0.1, 169.254.0.1"},
		{"8.8.8.8, 169.254.0.1, 10.0.0.1, 127.0.0.1"}, {"fe80::1, ::1", "fc00::1, 9.9.9.9"}, {"::1, fc00::1, fe80::1"},
	}
	maxOpts := 2
	if tier == "thorough" {
		maxOpts = 3
	}
	var optLists [][]optFlag
	var recOpts func(cur []optFlag)
	recOpts = func(cur []optFlag) {
		optLists = append(optLists, append([]optFlag(nil), cur...))
		if len(cur) == maxOpts {
			return
		}
		for k := 0; k < 3; k++ {
			for _, on := range []bool{true, false} {
				recOpts(append(cur, optFlag{k, on}))
			}
		}
	}
	recOpts(nil)
	for _, ol := range optLists {
		for _, hs := range famHeaders {
			rev := make([]string, len(hs))
			for i, l := range hs {
				parts := strings.Split(l, ", ")
				for a, b := 0, len(parts)-1; a < b; a, b = a+1, b-1 {
					parts[a], parts[b] = parts[b], parts[a]
				}
				rev[len(hs)-1-i] = strings.Join(parts, ", ")
			}
			addGroup(reqDesc{xff: hs}, &rdesc{kind: "rnp", opts: ol}, nil, "options-exhaustive")
			addGroup(reqDesc{xff: rev}, &rdesc{kind: "leftmost", n: 4, opts: ol}, nil, "options-exhaustive")
		}
	}

	nbase, natk, sysPct := 1500, 2, 6
	if tier == "thorough" {
		nbase, natk, sysPct = 10000, 3, 5
	}
	for i := 0; i < nbase; i++ {
		rq := g.request()
		d := g.resolver(0)
		hdr := d.reads()
		if hdr < 0 {
			hdr = rnd.Intn(3)
		}
		var attacks []atk
		if rnd.Pct(sysPct) {
			for _, p := range systematicPrefixes(hdr == 1) {
				attacks = append(attacks, atk{hdr, p.extra, p.text, "systematic-prefix"})
			}
		} else {
			for k := 0; k < natk; k++ {
				extra, text := g.prefix(hdr == 1)
				attacks = append(attacks, atk{hdr, extra, text, "random-prefix"})
			}
		}
		addGroup(rq, d, attacks, "base")
	}

	// Context.ClientIP THROUGH fox: one router (router-wide resolver or none, routes with and without
	// their own WithClientIPResolver), a middleware in every handler scope calling c.ClientIP(), and a
	// SEQUENCE of requests served one after the other so that pooled contexts are recycled between
	// route / redirect / no-route / no-method / options handlers
	nscen, nreq := 50, 16
	if tier == "thorough" {
		nscen, nreq = 400, 20
	}
	for sc := 0; sc < nscen; sc++ {
		type rec struct {
			scope  fox.HandlerScope
			call   string // how Context.ClientIP was reached
			second bool   // after c.SetRequest with the second set of headers
			o      outcome
		}
		var recs []rec
		var second *http.Request // headers / remote address installed with c.SetRequest half way through
		audit := func(next fox.HandlerFunc) fox.HandlerFunc {
			return func(c fox.Context) {
				probe := func(after bool) {
					add := func(call string, x fox.Context) {
						for i := 1; i <= 2; i++ { // twice: a memoised answer must still be this request's
							ip, err := x.ClientIP()
							recs = append(recs, rec{c.Scope(), fmt.Sprintf("%s call %d", call, i), after, outcome{ip: ip, err: err}})
						}
					}
					add("c.ClientIP()", c)
					add("c.Clone().ClientIP()", c.Clone())
					cc := c.CloneWith(c.Writer(), c.Request())
					add("c.CloneWith(c.Writer(), c.Request()).ClientIP()", cc)
					cc.Close()
				}
				probe(false)
				if second != nil {
					r2 := c.Request().Clone(c.Request().Context())
					r2.Header = second.Header
					r2.RemoteAddr = second.RemoteAddr
					c.SetRequest(r2)
					probe(true)
				}
				next(c)
			}
		}
		mk := func() (*rdesc, fox.ClientIPResolver, string) {
			for {
				d := g.resolver(0)
				res, err := d.build()
				if err != nil {
					continue
				}
				t, err := d.coq()
				if err != nil {
					continue
				}
				return d, res, t
			}
		}
		opts := []fox.GlobalOption{fox.WithRedirectTrailingSlash(true), fox.WithNoMethod(true), fox.WithAutoOptions(true), fox.WithMiddlewareFor(fox.AllHandlers, audit)}
		globTerm, globHuman := "None", "<none>"
		if !rnd.Pct(30) {
			d, res, t := mk()
			opts = append(opts, fox.WithClientIPResolver(res))
			globTerm, globHuman = "(Some "+t+")", d.human()
		}
		f, err := fox.New(opts...)
		hx.Fatal(err)
		okh := func(c fox.Context) { _ = c.String(http.StatusOK, "ok") }
		d1, r1, t1 := mk()
		d2, r2, t2 := mk()
		_, err = f.Handle(http.MethodGet, "/ra", okh, fox.WithClientIPResolver(r1))
		hx.Fatal(err)
		_, err = f.Handle(http.MethodGet, "/rb/", okh, fox.WithClientIPResolver(r2))
		hx.Fatal(err)
		_, err = f.Handle(http.MethodGet, "/rc", okh)
		hx.Fatal(err)
		_, err = f.Handle(http.MethodGet, "/rd/", okh)
		hx.Fatal(err)
		type shot struct {
			method, path string
			scope        fox.HandlerScope
			route        string // Coq term of the scope: option (option resolver)
			label        string
		}
		shots := []shot{
			{http.MethodGet, "/ra", fox.RouteHandler, "(Some (Some " + t1 + "))", "route /ra with its own resolver " + d1.human()},
			{http.MethodGet, "/rb/", fox.RouteHandler, "(Some (Some " + t2 + "))", "route /rb/ with its own resolver " + d2.human()},
			{http.MethodGet, "/rc", fox.RouteHandler, "(Some None)", "route /rc without own resolver"},
			{http.MethodGet, "/rd/", fox.RouteHandler, "(Some None)", "route /rd/ without own resolver"},
			{http.MethodGet, "/rb", fox.RedirectHandler, "None", "redirect /rb -> /rb/"},
			{http.MethodGet, "/rd", fox.RedirectHandler, "None", "redirect /rd -> /rd/"},
			{http.MethodGet, "/ra/", fox.RedirectHandler, "None", "redirect /ra/ -> /ra"},
			{http.MethodGet, "/nope", fox.NoRouteHandler, "None", "no route"},
			{http.MethodPost, "/ra", fox.NoMethodHandler, "None", "method not allowed on /ra"},
			{http.MethodOptions, "/rb/", fox.OptionsHandler, "None", "automatic OPTIONS on /rb/"},
		}
		prev := "<first request>"
		for k := 0; k < nreq; k++ {
			sh := hx.Pick(rnd, shots)
			if k%2 == 1 && rnd.Pct(60) { // often: a route with its own resolver, then a handler without route
				sh = shots[4+rnd.Intn(6)]
			} else if k%2 == 0 && rnd.Pct(60) {
				sh = shots[rnd.Intn(2)]
			}
			rq := g.request()
			nilHdr := rnd.Pct(50)
			req := rq.httpRequest(nilHdr)
			req.Method = sh.method
			req.URL.Path = sh.path
			req.RequestURI = sh.path
			rq2 := g.request() // a different client: other headers, other remote address
			second = nil
			if rnd.Pct(60) {
				second = rq2.httpRequest(nilHdr)
			}
			recs = recs[:0]
			panicked := false
			func() {
				defer func() {
					if recover() != nil {
						panicked = true
					}
				}()
				f.ServeHTTP(httptest.NewRecorder(), req)
			}()
			want := 6
			if second != nil {
				want = 12
			}
			if panicked {
				recs = append(recs[:0], rec{sh.scope, "serving", false, outcome{panicked: true, pval: "panic while serving"}})
			} else if len(recs) != want || recs[0].scope != sh.scope {
				hx.Fatal(fmt.Errorf("through-fox stream: %s %s produced %d audited calls (first scope %v), expected %d in scope %v", sh.method, sh.path, len(recs), recs[0].scope, want, sh.scope))
			}
			for _, rc := range recs {
				cur, which := rq, "the request as received"
				if rc.second {
					cur, which = rq2, "the request installed with c.SetRequest (other headers and remote address)"
				}
				term := fmt.Sprintf("CVia %s %s %s %s", globTerm, sh.route, cur.coq(), rc.o.coq())
				observations++
				st.Count("stream:through-fox")
				st.Count("outcome:" + rc.o.class())
				if seen[term] { // the six calls on one request normally agree: one term
					continue
				}
				seen[term] = true
				human := fmt.Sprintf("%s in [%s] on %s (router-wide resolver %s; previous request on this router: %s) {%s} => %s",
					rc.call, sh.label, which, globHuman, prev, cur.human(), rc.o.human())
				all = append(all, entry{term, human})
				nontrivial++
			}
			prev = sh.label
			st.Count("through-fox:" + strings.SplitN(sh.label, " ", 2)[0])
		}
	}

	// ParseIPAddr on every entry text generated above (and mutations of them)
	atoms := hx.SortedKeys(g.atoms)
	maxParse := 5000
	if tier == "thorough" {
		maxParse = 40000
	}
	for len(atoms) > maxParse { // drop random ones, deterministically
		i := rnd.Intn(len(atoms))
		atoms[i] = atoms[len(atoms)-1]
		atoms = atoms[:len(atoms)-1]
	}
	for _, s := range atoms {
		for k := 0; k < 2; k++ {
			if k == 1 {
				s = g.mutate(s)
			}
			term, human := parseCase(s)
			if seen[term] {
				continue
			}
			seen[term] = true
			all = append(all, entry{term, human})
			observations++
			st.Count("stream:parse")
			if net.ParseIP(s) == nil || strings.Contains(s, ":") {
				nontrivial++
			}
		}
	}
	// interleave the streams so that the shards cost about the same
	for i := len(all) - 1; i > 0; i-- {
		j := rnd.Intn(i + 1)
		all[i], all[j] = all[j], all[i]
	}
	for _, e := range all {
		cs.Add(e.term, e.human)
	}
	if len(st.Samples) == 0 {
		st.Samples = append(st.Samples, all[0].human)
	}
	st.Evaluations = observations
	st.DistinctNontrivial = nontrivial
	st.Exhaustive = false
	st.Extra = map[string]any{"case_terms": cs.Len(), "exhaustive_scopes": []string{"Forwarded element with 1..7 sections x for= at every position or absent x 4 spellings x {count 1, rightmost-non-private, trusted-range, leftmost}", fmt.Sprintf("all Trust*/Exclude* option lists of length <= %d x {rightmost-non-private, leftmost-non-private} x %d family headers", maxOpts, len(famHeaders))}, "note": "evaluations = runs of the implementation compared with model and spec (one per base request, one per attack, one per ParseIPAddr call); a case term groups a base request with its attacks"}
	hx.Fatal(cs.Write(out, shards))
	hx.Fatal(st.Write(out))
	fmt.Printf("c18: %d observations in %d case terms written to %s\n", observations, cs.Len(), out)
}

func parseCase(s string) (term, human string) {
	var ip *net.IPAddr
	var err error
	panicked := false
	func() {
		defer func() {
			if recover() != nil {
				panicked = true
			}
		}()
		ip, err = clientip.ParseIPAddr(s)
	}()
	var obs, h string
	switch {
	case panicked:
		obs, h = "PPanic", "PANIC"
	case err == nil && ip != nil:
		obs, h = "(POk "+coqAddr(ip)+")", ip.String()
	case errors.Is(err, clientip.ErrUnspecifiedIpAddress):
		obs, h = "PUnspec", "unspecified"
	case errors.Is(err, clientip.ErrInvalidIpAddress):
		obs, h = "PInvalid", "invalid"
	default:
		obs, h = "PPanic", fmt.Sprintf("unexpected (%v, %v)", ip, err)
	}
	return fmt.Sprintf("CParse %s %s", cb(s), obs), fmt.Sprintf("ParseIPAddr(%s) = %s", hx.Quote(s), h)
}
