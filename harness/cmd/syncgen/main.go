// syncgen: tie A for C04/C05. Reads the fox package from $VERIF_REPO (default
// /repo), type-checks it with go/types (source importer, stdlib only) and
// rewrites coq/Txn/GenSync.v: for each function of a fixed list, the
// source-ordered list of synchronisation events, each tagged with the stack of
// enclosing syntactic contexts ("if <cond>", "else <cond>", "loop", "deferred").
// It also emits sync_sites: every place in the (untagged) package that touches
// Router.mu / Router.tree / Txn.rootTxn or calls getRoot.
//
// The translator REFUSES (exit 3) any shape it does not know: switch/select/go/
// goto/labels or non-deferred function literals in a listed function, any use of
// Router.mu or Router.tree other than mu.Lock/mu.Unlock/tree.Load/tree.Store,
// any assignment to Txn.rootTxn other than `= nil`, a missing listed function.
//
// usage: syncgen out=<file.v>
package main

import (
	"bytes"
	"fmt"
	"go/ast"
	"go/importer"
	"go/parser"
	"go/printer"
	"go/token"
	"go/types"
	"os"
	"sort"
	"strings"
)

var (
	fset = token.NewFileSet()
	info *types.Info
)

// functions whose skeleton is emitted (qualified Recv.Name), in output order
var listed = []string{
	"Router.txnWith", "Router.Txn", "Txn.Commit", "Txn.Abort", "Txn.Snapshot", "Txn.Iter",
	"Router.Updates", "Router.View",
	"Router.Handle", "Router.Update", "Router.Delete", "Router.HandleRoute", "Router.UpdateRoute",
	"Router.getRoot", "Router.ServeHTTP", "Router.Lookup", "Router.Reverse", "Router.Route", "Router.Has",
	"Router.Len", "Router.Iter",
	"tXn.commit", "tXn.clone", "tXn.snapshot", "iTree.txn",
	"Txn.Handle", "Txn.Update", "Txn.Delete", "Txn.HandleRoute", "Txn.UpdateRoute", "Txn.Truncate",
}

// calls to these (in addition to the listed ones) are recorded as Call events
var alsoTracked = []string{"tXn.insert", "tXn.update", "tXn.remove", "tXn.truncate"}

type event struct {
	ctx []string
	ev  string // Coq term of type sev
}

func refuse(pos token.Pos, format string, a ...any) {
	fmt.Fprintf(os.Stderr, "syncgen: REFUSED at %s: %s\n", fset.Position(pos), fmt.Sprintf(format, a...))
	os.Exit(3)
}

func src(n ast.Node) string {
	var b bytes.Buffer
	printer.Fprint(&b, fset, n)
	return strings.Join(strings.Fields(b.String()), " ")
}

func coqStr(s string) string { return "\"" + strings.ReplaceAll(s, "\"", "\"\"") + "\"" }

func recvName(fd *ast.FuncDecl) string {
	if fd.Recv == nil || len(fd.Recv.List) == 0 {
		return ""
	}
	t := fd.Recv.List[0].Type
	if s, ok := t.(*ast.StarExpr); ok {
		t = s.X
	}
	if ix, ok := t.(*ast.IndexExpr); ok {
		t = ix.X
	}
	if id, ok := t.(*ast.Ident); ok {
		return id.Name
	}
	return "?"
}

func qual(fd *ast.FuncDecl) string {
	if r := recvName(fd); r != "" {
		return r + "." + fd.Name.Name
	}
	return fd.Name.Name
}

// qualified name of a called package-level function / method of package fox
func calleeName(ce *ast.CallExpr) (string, bool) {
	var id *ast.Ident
	switch f := ce.Fun.(type) {
	case *ast.Ident:
		id = f
	case *ast.SelectorExpr:
		id = f.Sel
	default:
		return "", false
	}
	fn, ok := info.Uses[id].(*types.Func)
	if !ok || fn.Pkg() == nil || fn.Pkg().Path() != "github.com/tigerwill90/fox" {
		return "", false
	}
	sig := fn.Type().(*types.Signature)
	if sig.Recv() == nil {
		return fn.Name(), true
	}
	t := sig.Recv().Type()
	if p, ok := t.(*types.Pointer); ok {
		t = p.Elem()
	}
	if n, ok := t.(*types.Named); ok {
		return n.Obj().Name() + "." + fn.Name(), true
	}
	return "", false
}

// fieldOf reports whether e is a selector denoting field <field> of struct type <owner>
func fieldOf(e ast.Expr, owner, field string) bool {
	se, ok := e.(*ast.SelectorExpr)
	if !ok || se.Sel.Name != field {
		return false
	}
	sel := info.Selections[se]
	if sel == nil || sel.Kind() != types.FieldVal {
		return false
	}
	t := sel.Recv()
	if p, ok := t.(*types.Pointer); ok {
		t = p.Elem()
	}
	n, ok := t.(*types.Named)
	return ok && n.Obj().Name() == owner && n.Obj().Pkg().Path() == "github.com/tigerwill90/fox"
}

type walker struct {
	fn      string
	tracked map[string]bool
	strict  bool // listed function: refuse unknown statement shapes
	events  []event
	handled map[ast.Node]bool // selector nodes consumed by a recognised event
}

func (w *walker) emit(ctx []string, ev string) {
	w.events = append(w.events, event{append([]string(nil), ctx...), ev})
}

func (w *walker) expr(e ast.Expr, ctx []string) {
	if e == nil {
		return
	}
	switch x := e.(type) {
	case *ast.CallExpr:
		// receiver and arguments are evaluated before the call itself
		if se, ok := x.Fun.(*ast.SelectorExpr); ok {
			switch {
			case fieldOf(se.X, "Router", "mu"):
				w.handled[se.X] = true
				w.expr(se.X.(*ast.SelectorExpr).X, ctx)
				switch se.Sel.Name {
				case "Lock":
					w.emit(ctx, "Lock")
				case "Unlock":
					w.emit(ctx, "Unlock")
				default:
					refuse(x.Pos(), "%s: unknown operation mu.%s", w.fn, se.Sel.Name)
				}
				return
			case fieldOf(se.X, "Router", "tree"):
				w.handled[se.X] = true
				w.expr(se.X.(*ast.SelectorExpr).X, ctx)
				for _, a := range x.Args {
					w.expr(a, ctx)
				}
				switch se.Sel.Name {
				case "Load":
					w.emit(ctx, "Load")
				case "Store":
					w.emit(ctx, "Store")
				default:
					refuse(x.Pos(), "%s: unknown operation tree.%s", w.fn, se.Sel.Name)
				}
				return
			}
			w.expr(se.X, ctx)
		} else if _, ok := x.Fun.(*ast.FuncLit); ok {
			if w.strict {
				refuse(x.Pos(), "%s: immediately-invoked function literal", w.fn)
			}
			w.expr(x.Fun, ctx)
		}
		for _, a := range x.Args {
			w.expr(a, ctx)
		}
		if id, ok := x.Fun.(*ast.Ident); ok {
			if b, ok := info.Uses[id].(*types.Builtin); ok {
				switch b.Name() {
				case "recover":
					w.emit(ctx, "Recover")
				case "panic":
					if inCtx(ctx, "deferred") {
						w.emit(ctx, "Repanic")
					} else {
						w.emit(ctx, "Panic "+coqStr(src(x.Args[0])))
					}
				}
				return
			}
			if v, ok := info.Uses[id].(*types.Var); ok {
				if _, isSig := v.Type().Underlying().(*types.Signature); isSig && !v.IsField() {
					w.emit(ctx, "CallFn")
					return
				}
			}
		}
		if name, ok := calleeName(x); ok && w.tracked[name] {
			w.emit(ctx, "Call "+coqStr(name))
		}
	case *ast.FuncLit:
		// a function value (not run here): its events are tagged "funclit"
		w.block(x.Body.List, append(ctx, "funclit"))
	case *ast.SelectorExpr:
		w.expr(x.X, ctx)
	case *ast.ParenExpr:
		w.expr(x.X, ctx)
	case *ast.StarExpr:
		w.expr(x.X, ctx)
	case *ast.UnaryExpr:
		w.expr(x.X, ctx)
	case *ast.BinaryExpr:
		w.expr(x.X, ctx)
		w.expr(x.Y, ctx)
	case *ast.IndexExpr:
		w.expr(x.X, ctx)
		w.expr(x.Index, ctx)
	case *ast.SliceExpr:
		w.expr(x.X, ctx)
		w.expr(x.Low, ctx)
		w.expr(x.High, ctx)
		w.expr(x.Max, ctx)
	case *ast.TypeAssertExpr:
		w.expr(x.X, ctx)
	case *ast.CompositeLit:
		for _, el := range x.Elts {
			w.expr(el, ctx)
		}
	case *ast.KeyValueExpr:
		w.expr(x.Value, ctx)
	case *ast.Ident, *ast.BasicLit, *ast.ArrayType, *ast.MapType, *ast.FuncType, *ast.InterfaceType, *ast.StructType, *ast.ChanType, *ast.Ellipsis, *ast.IndexListExpr:
	default:
		refuse(e.Pos(), "%s: unknown expression %T", w.fn, e)
	}
}

func inCtx(ctx []string, s string) bool {
	for _, c := range ctx {
		if c == s {
			return true
		}
	}
	return false
}

func (w *walker) block(list []ast.Stmt, ctx []string) {
	for _, s := range list {
		w.stmt(s, ctx)
	}
}

func (w *walker) stmt(s ast.Stmt, ctx []string) {
	switch x := s.(type) {
	case nil:
	case *ast.ExprStmt:
		w.expr(x.X, ctx)
	case *ast.AssignStmt:
		for _, r := range x.Rhs {
			w.expr(r, ctx)
		}
		for i, l := range x.Lhs {
			switch {
			case fieldOf(l, "Txn", "rootTxn"):
				w.handled[l] = true
				if id, ok := x.Rhs[min(i, len(x.Rhs)-1)].(*ast.Ident); ok && id.Name == "nil" && len(x.Lhs) == len(x.Rhs) {
					w.emit(ctx, "ClearTxn")
				} else {
					refuse(x.Pos(), "%s: assignment to Txn.rootTxn other than nil", w.fn)
				}
			case fieldOf(l, "tXn", "writable"):
				if id, ok := x.Rhs[min(i, len(x.Rhs)-1)].(*ast.Ident); ok && id.Name == "nil" && len(x.Lhs) == len(x.Rhs) {
					w.emit(ctx, "ResetWritable")
				}
			default:
				w.expr(l, ctx)
			}
		}
	case *ast.DeclStmt:
		if gd, ok := x.Decl.(*ast.GenDecl); ok {
			for _, sp := range gd.Specs {
				if vs, ok := sp.(*ast.ValueSpec); ok {
					for _, v := range vs.Values {
						w.expr(v, ctx)
					}
				}
			}
		}
	case *ast.IncDecStmt:
		w.expr(x.X, ctx)
	case *ast.ReturnStmt:
		for _, r := range x.Results {
			w.expr(r, ctx)
		}
		rs := make([]string, len(x.Results))
		for i, r := range x.Results {
			rs[i] = src(r)
			if len(rs[i]) > 40 {
				rs[i] = "_"
			}
		}
		w.emit(ctx, "Return "+coqStr(strings.Join(rs, ", ")))
	case *ast.BlockStmt:
		w.block(x.List, ctx)
	case *ast.IfStmt:
		w.stmt(x.Init, ctx)
		w.expr(x.Cond, ctx)
		c := src(x.Cond)
		if x.Init != nil {
			c = src(x.Init) + "; " + c
		}
		w.block(x.Body.List, append(ctx, "if "+c))
		if x.Else != nil {
			w.stmt(x.Else, append(ctx, "else "+c))
		}
	case *ast.ForStmt:
		w.stmt(x.Init, ctx)
		lc := append(ctx, "loop")
		w.expr(x.Cond, lc)
		w.block(x.Body.List, lc)
		w.stmt(x.Post, lc)
	case *ast.RangeStmt:
		w.expr(x.X, ctx)
		w.block(x.Body.List, append(ctx, "loop"))
	case *ast.DeferStmt:
		if fl, ok := x.Call.Fun.(*ast.FuncLit); ok {
			if len(x.Call.Args) != 0 {
				refuse(x.Pos(), "%s: deferred literal with arguments", w.fn)
			}
			w.emit(ctx, "DeferFn")
			w.block(fl.Body.List, append(ctx, "deferred"))
			return
		}
		if se, ok := x.Call.Fun.(*ast.SelectorExpr); ok {
			w.expr(se.X, ctx)
		}
		for _, a := range x.Call.Args {
			w.expr(a, ctx)
		}
		if name, ok := calleeName(x.Call); ok {
			w.emit(ctx, "Defer "+coqStr(name))
		} else {
			w.emit(ctx, "Defer "+coqStr(src(x.Call.Fun)))
		}
	case *ast.BranchStmt:
		if x.Tok == token.GOTO || x.Label != nil {
			if w.strict {
				refuse(x.Pos(), "%s: goto / labelled branch", w.fn)
			}
		}
	case *ast.EmptyStmt:
	case *ast.SwitchStmt, *ast.TypeSwitchStmt, *ast.SelectStmt, *ast.GoStmt, *ast.LabeledStmt, *ast.SendStmt:
		if w.strict {
			refuse(s.Pos(), "%s: statement shape %T not understood", w.fn, s)
		}
		// non-listed functions (sync_sites scan): walk conservatively
		ast.Inspect(s, func(n ast.Node) bool {
			if e, ok := n.(ast.Expr); ok {
				if ce, ok := e.(*ast.CallExpr); ok {
					w.expr(ce, append(ctx, "unstructured"))
					return false
				}
			}
			return true
		})
	default:
		refuse(s.Pos(), "%s: unknown statement %T", w.fn, s)
	}
}

func main() {
	out := ""
	for _, a := range os.Args[1:] {
		if strings.HasPrefix(a, "out=") {
			out = a[4:]
		}
	}
	repo := os.Getenv("VERIF_REPO")
	if repo == "" {
		repo = "/repo"
	}
	pkgs, err := parser.ParseDir(fset, repo, func(fi os.FileInfo) bool {
		n := fi.Name()
		// production build only: no tests, no verif-tagged hook files
		return !strings.HasSuffix(n, "_test.go") && !strings.HasPrefix(n, "verif_")
	}, 0)
	if err != nil {
		fmt.Fprintln(os.Stderr, "syncgen: parse:", err)
		os.Exit(2)
	}
	p := pkgs["fox"]
	if p == nil {
		fmt.Fprintln(os.Stderr, "syncgen: package fox not found in", repo)
		os.Exit(2)
	}
	names := make([]string, 0, len(p.Files))
	for n := range p.Files {
		names = append(names, n)
	}
	sort.Strings(names)
	var files []*ast.File
	for _, n := range names {
		files = append(files, p.Files[n])
	}
	if err := os.Chdir(repo); err != nil {
		fmt.Fprintln(os.Stderr, err)
		os.Exit(2)
	}
	nerr := 0
	conf := types.Config{Importer: importer.ForCompiler(fset, "source", nil), Error: func(err error) {
		nerr++
		fmt.Fprintln(os.Stderr, "syncgen: type error:", err)
	}}
	info = &types.Info{Uses: map[*ast.Ident]types.Object{}, Defs: map[*ast.Ident]types.Object{},
		Selections: map[*ast.SelectorExpr]*types.Selection{}, Types: map[ast.Expr]types.TypeAndValue{}}
	pkgTypes, _ := conf.Check("github.com/tigerwill90/fox", fset, files, info)
	if nerr > 0 {
		os.Exit(2)
	}

	// loaders: every function of the package from which Router.tree.Load is reachable through
	// static calls (package-level functions and methods; function literals included)
	callees := map[string]map[string]bool{}
	direct := map[string]bool{}
	var order []string
	for _, f := range files {
		for _, d := range f.Decls {
			fd, ok := d.(*ast.FuncDecl)
			if !ok || fd.Body == nil {
				continue
			}
			q := qual(fd)
			order = append(order, q)
			if callees[q] == nil {
				callees[q] = map[string]bool{}
			}
			ast.Inspect(fd.Body, func(n ast.Node) bool {
				ce, ok := n.(*ast.CallExpr)
				if !ok {
					return true
				}
				if se, ok := ce.Fun.(*ast.SelectorExpr); ok && se.Sel.Name == "Load" && fieldOf(se.X, "Router", "tree") {
					direct[q] = true
				}
				if name, ok := calleeName(ce); ok {
					callees[q][name] = true
				}
				return true
			})
		}
	}
	loaders := map[string]bool{}
	for q := range direct {
		loaders[q] = true
	}
	for changed := true; changed; {
		changed = false
		for q, cs := range callees {
			if loaders[q] {
				continue
			}
			for c := range cs {
				if loaders[c] {
					loaders[q] = true
					changed = true
					break
				}
			}
		}
	}

	tracked := map[string]bool{}
	for _, n := range listed {
		tracked[n] = true
	}
	for n := range loaders {
		tracked[n] = true
	}
	for _, n := range alsoTracked {
		tracked[n] = true
	}
	isListed := map[string]bool{}
	for _, n := range listed {
		isListed[n] = true
	}

	skels := map[string][]event{}
	type site struct{ fn, ev string }
	var sites []site
	for _, f := range files {
		for _, d := range f.Decls {
			fd, ok := d.(*ast.FuncDecl)
			if !ok || fd.Body == nil {
				continue
			}
			q := qual(fd)
			w := &walker{fn: q, tracked: tracked, strict: isListed[q], handled: map[ast.Node]bool{}}
			w.block(fd.Body.List, nil)
			if isListed[q] {
				if _, dup := skels[q]; dup {
					refuse(fd.Pos(), "duplicate declaration of %s", q)
				}
				skels[q] = w.events
			}
			for _, e := range w.events {
				switch {
				case e.ev == "Lock" || e.ev == "Unlock" || e.ev == "Load" || e.ev == "Store" || e.ev == "ClearTxn" ||
					e.ev == "Call \"Router.getRoot\"":
					sites = append(sites, site{q, e.ev})
				}
			}
			// any other mention of Router.mu / Router.tree / Txn.rootTxn-as-lvalue escapes the protocol
			ast.Inspect(fd.Body, func(n ast.Node) bool {
				se, ok := n.(*ast.SelectorExpr)
				if !ok || w.handled[se] {
					return true
				}
				if fieldOf(se, "Router", "mu") || fieldOf(se, "Router", "tree") {
					refuse(se.Pos(), "%s: Router.%s used outside Lock/Unlock/Load/Store", q, se.Sel.Name)
				}
				return true
			})
		}
	}
	for _, n := range listed {
		if _, ok := skels[n]; !ok {
			fmt.Fprintf(os.Stderr, "syncgen: REFUSED: listed function %s not found\n", n)
			os.Exit(3)
		}
	}

	// ---- shared state of Router: (1) every field whose type comes from sync / sync/atomic, (2) every function that
	// assigns a Router field after construction (New and the With*/DefaultOptions configuration functions run
	// before the router is shared and are excluded). A NEW atomic / mutex field, or a field written on a write
	// path, changes these lists and re-opens the obligation.
	var syncFields [][2]string
	qualifier := func(p *types.Package) string { return p.Name() }
	var mentionsSync func(t types.Type, depth int) bool
	mentionsSync = func(t types.Type, depth int) bool {
		if depth > 6 {
			return false
		}
		switch x := t.(type) {
		case *types.Named:
			if o := x.Obj(); o != nil && o.Pkg() != nil && (o.Pkg().Path() == "sync" || o.Pkg().Path() == "sync/atomic") {
				return true
			}
			return mentionsSync(x.Underlying(), depth+1)
		case *types.Pointer:
			return mentionsSync(x.Elem(), depth+1)
		case *types.Slice:
			return mentionsSync(x.Elem(), depth+1)
		case *types.Array:
			return mentionsSync(x.Elem(), depth+1)
		case *types.Map:
			return mentionsSync(x.Elem(), depth+1) || mentionsSync(x.Key(), depth+1)
		case *types.Chan:
			return true
		case *types.Struct:
			for i := 0; i < x.NumFields(); i++ {
				if mentionsSync(x.Field(i).Type(), depth+1) {
					return true
				}
			}
		}
		return false
	}
	if obj := pkgTypes.Scope().Lookup("Router"); obj != nil {
		if st, ok := obj.Type().Underlying().(*types.Struct); ok {
			for i := 0; i < st.NumFields(); i++ {
				f := st.Field(i)
				if mentionsSync(f.Type(), 0) {
					syncFields = append(syncFields, [2]string{f.Name(), types.TypeString(f.Type(), qualifier)})
				}
			}
		} else {
			fmt.Fprintln(os.Stderr, "syncgen: REFUSED: Router is not a struct")
			os.Exit(3)
		}
	} else {
		fmt.Fprintln(os.Stderr, "syncgen: REFUSED: type Router not found")
		os.Exit(3)
	}
	routerField := func(e ast.Expr) (string, bool) {
		for {
			switch x := e.(type) {
			case *ast.ParenExpr:
				e = x.X
				continue
			case *ast.StarExpr:
				e = x.X
				continue
			case *ast.IndexExpr:
				e = x.X
				continue
			case *ast.SliceExpr:
				e = x.X
				continue
			}
			break
		}
		for { // a.b.c = ... writes field b of a when a.b is a Router field holding a struct value
			se, ok := e.(*ast.SelectorExpr)
			if !ok {
				return "", false
			}
			if sel := info.Selections[se]; sel != nil && sel.Kind() == types.FieldVal {
				t := sel.Recv()
				if p, ok := t.(*types.Pointer); ok {
					t = p.Elem()
				}
				if n, ok := t.(*types.Named); ok && n.Obj().Name() == "Router" && n.Obj().Pkg().Path() == "github.com/tigerwill90/fox" {
					return se.Sel.Name, true
				}
			}
			e = se.X
		}
	}
	var fieldWriters [][2]string
	seenFW := map[[2]string]bool{}
	for _, f := range files {
		for _, d := range f.Decls {
			fd, ok := d.(*ast.FuncDecl)
			if !ok || fd.Body == nil {
				continue
			}
			q := qual(fd)
			if q == "New" || strings.HasPrefix(q, "With") || q == "DefaultOptions" {
				continue
			}
			ast.Inspect(fd.Body, func(n ast.Node) bool {
				var lhs []ast.Expr
				switch x := n.(type) {
				case *ast.AssignStmt:
					lhs = x.Lhs
				case *ast.IncDecStmt:
					lhs = []ast.Expr{x.X}
				}
				for _, l := range lhs {
					if name, ok := routerField(l); ok {
						k := [2]string{q, name}
						if !seenFW[k] {
							seenFW[k] = true
							fieldWriters = append(fieldWriters, k)
						}
					}
				}
				return true
			})
		}
	}

	var sb strings.Builder
	sb.WriteString("(* GENERATED by harness/cmd/syncgen from the fox sources (" + "VERIF_REPO" + "); do not edit.\n")
	sb.WriteString("   Source-ordered synchronisation events of the transaction / read entry points. *)\n")
	sb.WriteString("Require Import String List.\nImport ListNotations.\nOpen Scope string_scope.\n\n")
	sb.WriteString("Inductive sev : Type :=\n  | Lock | Unlock | Load | Store\n  | Defer (f : string) | DeferFn | Recover | Repanic | Panic (v : string)\n  | ClearTxn | ResetWritable | Return (r : string) | Call (f : string) | CallFn.\n\n")
	sb.WriteString("(* (enclosing syntactic contexts, outermost first; event) *)\nDefinition gev : Type := (list string * sev)%type.\n\n")
	for _, n := range listed {
		sb.WriteString("Definition skel_" + strings.ReplaceAll(n, ".", "_") + " : list gev := [")
		for i, e := range skels[n] {
			if i > 0 {
				sb.WriteString(";")
			}
			cs := make([]string, len(e.ctx))
			for j, c := range e.ctx {
				cs[j] = coqStr(c)
			}
			ev := e.ev
			if strings.Contains(ev, " ") {
				ev = "(" + ev + ")"
			}
			sb.WriteString("\n  ([" + strings.Join(cs, "; ") + "], " + ev + ")")
		}
		sb.WriteString("\n].\n\n")
	}
	sb.WriteString("(* every function of the production package that touches Router.mu, Router.tree,\n   clears Txn.rootTxn or calls getRoot, in file/source order *)\n")
	sb.WriteString("Definition sync_sites : list (string * sev) := [")
	for i, s := range sites {
		if i > 0 {
			sb.WriteString(";")
		}
		ev := s.ev
		if strings.Contains(ev, " ") {
			ev = "(" + ev + ")"
		}
		sb.WriteString("\n  (" + coqStr(s.fn) + ", " + ev + ")")
	}
	sb.WriteString("\n].\n\n")
	sb.WriteString("(* every function of the production package from which Router.tree.Load is reachable through\n   static calls, in file/source order: a call of any of them is a load of the published tree *)\n")
	sb.WriteString("Definition loaders : list string := [")
	first := true
	seenL := map[string]bool{}
	for _, q := range order {
		if loaders[q] && !seenL[q] {
			seenL[q] = true
			if !first {
				sb.WriteString("; ")
			}
			first = false
			sb.WriteString(coqStr(q))
		}
	}
	sb.WriteString("].\n\n")
	sb.WriteString("(* every field of Router whose type involves sync / sync/atomic (name, type): the state shared between\n   goroutines after construction *)\n")
	sb.WriteString("Definition router_sync_fields : list (string * string) := [")
	for i, f := range syncFields {
		if i > 0 {
			sb.WriteString("; ")
		}
		sb.WriteString("(" + coqStr(f[0]) + ", " + coqStr(f[1]) + ")")
	}
	sb.WriteString("].\n\n")
	sb.WriteString("(* every (function, field) that assigns a Router field outside construction (New, With*, DefaultOptions) *)\n")
	sb.WriteString("Definition router_field_writers : list (string * string) := [")
	for i, f := range fieldWriters {
		if i > 0 {
			sb.WriteString("; ")
		}
		sb.WriteString("(" + coqStr(f[0]) + ", " + coqStr(f[1]) + ")")
	}
	sb.WriteString("].\n")

	if out == "" {
		fmt.Print(sb.String())
		return
	}
	old, _ := os.ReadFile(out)
	if string(old) != sb.String() { // keep mtime when unchanged (incremental make)
		if err := os.WriteFile(out, []byte(sb.String()), 0o644); err != nil {
			fmt.Fprintln(os.Stderr, err)
			os.Exit(2)
		}
	}
	fmt.Printf("syncgen: %d skeletons, %d sync sites -> %s\n", len(listed), len(sites), out)
}
