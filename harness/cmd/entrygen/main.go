// entrygen - tie A for property C01 (docs/GenC01.md): translates the entry-point wrappers around the matcher
// (Router/Txn Lookup, Reverse, Route, Has; Iter.Reverse; iTree.lookup; Router.getRoot; cTx.resetNil,
// resetWithWriter, Close) statement by statement into Gallina over coq/Route/EntrySem.v.  The matcher
// (roots.lookup and below) is the oracle e_lookup.  Anything outside the accepted shapes is REFUSED (exit 1).
//
//	entrygen repo=<fox tree> out=<coq/Route/GenEntry.v>
package main

import (
	"crypto/sha256"
	"fmt"
	"go/ast"
	"go/importer"
	"go/parser"
	"go/token"
	"go/types"
	"os"
	"path/filepath"
	"sort"
	"strings"
)

var (
	fset = token.NewFileSet()
	info *types.Info
)

const foxp = "github.com/tigerwill90/fox."

// Go type -> kind of the model value
var kinds = map[string]string{
	"string": "bytes", "bool": "bool",
	"*" + foxp + "iTree": "itree", "*" + foxp + "cTx": "cctx", "*" + foxp + "node": "nodeptr",
	"*" + foxp + "Router": "router", "*" + foxp + "Txn": "txn", foxp + "Iter": "iter",
	"*net/http.Request": "req", foxp + "ResponseWriter": "writer", foxp + "roots": "roots",
	"*" + foxp + "tXn": "rtxnptr", "*" + foxp + "Route": "routeptr", "*net/url.URL": "url",
	"iter.Seq[string]": "methods", "func(string, *" + foxp + "Route) bool": "yield",
	foxp + "ContextCloser": "closer", "sync.Pool": "pool",
	"sync/atomic.Pointer[" + foxp + "iTree]": "atomictree",
	"*net/url.Values": "unobs", "net/url.Values": "unobs", foxp + "HandlerScope": "unobs", "*" + foxp + "Params": "paramsptr",
	foxp + "Params": "params",
}
var coqType = map[string]string{
	"bytes": "bytes", "bool": "bool", "itree": "itree", "cctx": "cctx", "nodeptr": "option node", "router": "router_v",
	"txn": "txn_v", "iter": "iter_v", "req": "req", "writer": "writer", "roots": "roots", "methods": "list bytes",
	"yield": "bytes -> option route -> bool", "routeptr": "option route",
}

// (kind of X, field) -> (kind of X.f, projection)
var fields = map[string][2]string{
	"itree.root": {"roots", "it_root"}, "itree.ctx": {"pool", ""}, "router.tree": {"atomictree", ""},
	"txn.rootTxn": {"rtxnptr", "txn_root"}, "rtxnptr.tree": {"itree", "tx_tree"}, "rtxnptr.root": {"roots", "tx_root"},
	"iter.tree": {"itree", "iter_tree"}, "iter.root": {"roots", "iter_root"},
	"req.Method": {"bytes", "rq_method"}, "req.Host": {"bytes", "rq_host"}, "req.URL": {"url", ""},
	"url.Path": {"bytes", "rq_path"}, "url.RawPath": {"bytes", "rq_rawpath"},
	"nodeptr.route": {"routeptr", "nroute"}, "cctx.tree": {"itree", "cx_tree"},
	"routeptr.pattern": {"bytes", "rpat"}, "routeptr.redirectTrailingSlash": {"bool", "e_redirect E"},
	"routeptr.ignoreTrailingSlash": {"bool", "e_ignore E"},
}

// assignable fields of *cTx
var ctxFields = map[string][2]string{ // field -> (kind, setter)
	"route": {"routeptr", "set_cx_route"}, "tsr": {"bool", "set_cx_tsr"},
	"req": {"req", "set_cx_unobserved F_req"}, "w": {"writer", "set_cx_unobserved F_w"},
	"cachedQuery": {"unobs", "set_cx_unobserved F_cachedQuery"}, "scope": {"unobs", "set_cx_unobserved F_scope"},
}

type spec struct{ goName, coq, mode string }

// mode: reset (returns the context), pure, lres, close, route, reverse, lookup, bool, iter
var specs = []spec{
	{"cTx.resetNil", "gen_cTx_resetNil", "reset"},
	{"cTx.resetWithWriter", "gen_cTx_resetWithWriter", "reset"},
	{"cTx.Close", "gen_cTx_Close", "close"},
	{"Router.getRoot", "gen_Router_getRoot", "pure"},
	{"iTree.lookup", "gen_iTree_lookup", "lres"},
	{"Router.Route", "gen_Router_Route", "route"},
	{"Router.Has", "gen_Router_Has", "bool"},
	{"Router.Reverse", "gen_Router_Reverse", "reverse"},
	{"Router.Lookup", "gen_Router_Lookup", "lookup"},
	{"Txn.Route", "gen_Txn_Route", "route"},
	{"Txn.Has", "gen_Txn_Has", "bool"},
	{"Txn.Reverse", "gen_Txn_Reverse", "reverse"},
	{"Txn.Lookup", "gen_Txn_Lookup", "lookup"},
	{"Iter.Reverse", "gen_Iter_Reverse", "iter"},
}
var resType = map[string]string{"route": "gres (option route)", "bool": "gres bool", "reverse": "gres (option route * bool)",
	"lookup": "gres (option route * option cctx * bool)", "iter": "gres (cctx * yields)", "body": "gres (bool * cctx * yields)",
	"reset": "cctx", "close": "list pev", "pure": "itree", "lres": "lres"}

type refusal string

func refuse(n ast.Node, f string, a ...any) {
	p := fset.Position(n.Pos())
	panic(refusal(fmt.Sprintf("%s:%d: %s", filepath.Base(p.Filename), p.Line, fmt.Sprintf(f, a...))))
}

func kindOf(e ast.Expr) string {
	t := info.TypeOf(e)
	if t == nil {
		return ""
	}
	return kinds[t.String()]
}

func recvName(fd *ast.FuncDecl) string {
	if fd.Recv == nil || len(fd.Recv.List) == 0 {
		return ""
	}
	t := fd.Recv.List[0].Type
	if s, ok := t.(*ast.StarExpr); ok {
		t = s.X
	}
	if id, ok := t.(*ast.Ident); ok {
		return id.Name
	}
	return ""
}

type tr struct {
	sp     spec
	nonNil map[string]string // Go expression known to be a non-nil pointer -> Coq variable holding the pointee
	extra  []string          // definitions emitted before the main one (loop body, loop)
	sig    string            // parameter names of an iter wrapper, for the loop plumbing
	sigT   string
}

func render(e ast.Expr) string { return types.ExprString(e) }

func isNil(e ast.Expr) bool {
	id, ok := e.(*ast.Ident)
	if !ok {
		return false
	}
	_, isnil := info.Uses[id].(*types.Nil)
	return isnil
}

// field selection checked against go/types: the selector must be a struct field whose Go type has the kind the table expects
func (t *tr) field(s *ast.SelectorExpr) (kind, proj, xk string) {
	xk = kindOf(s.X)
	ent, ok := fields[xk+"."+s.Sel.Name]
	if !ok {
		refuse(s, "field %s of a %q value is not in the table", render(s), xk)
	}
	sel := info.Selections[s]
	if sel == nil || sel.Kind() != types.FieldVal {
		refuse(s, "%s is not a field selection", render(s))
	}
	if k := kinds[sel.Obj().Type().String()]; k != ent[0] {
		refuse(s, "field %s has Go type %s, expected a %s", render(s), sel.Obj().Type(), ent[0])
	}
	return ent[0], ent[1], xk
}

// value of a pointer-free expression
func (t *tr) expr(e ast.Expr) string {
	switch x := e.(type) {
	case *ast.ParenExpr:
		return t.expr(x.X)
	case *ast.Ident:
		switch obj := info.Uses[x].(type) {
		case *types.Const:
			if x.Name == "true" || x.Name == "false" {
				return x.Name
			}
		case *types.Nil:
			return "None"
		case *types.Var:
			k := kindOf(x)
			if obj.IsField() || k == "" || k == "nodeptr" || k == "rtxnptr" {
				refuse(x, "use of %s (%s)", x.Name, info.TypeOf(x))
			}
			return x.Name
		}
		refuse(x, "identifier %s", x.Name)
	case *ast.BasicLit:
		if x.Kind == token.STRING && !strings.ContainsAny(x.Value[1:len(x.Value)-1], "\"\\`") && x.Value[0] == '"' {
			return "(S2B " + x.Value + ")"
		}
		refuse(x, "literal %s", x.Value)
	case *ast.UnaryExpr:
		if x.Op == token.NOT {
			return "(negb " + t.expr(x.X) + ")"
		}
	case *ast.SelectorExpr:
		k, proj, xk := t.field(x)
		if proj == "" || k == "pool" {
			refuse(x, "%s is not a value", render(x))
		}
		switch xk {
		case "nodeptr", "rtxnptr":
			v, ok := t.nonNil[render(x.X)]
			if !ok {
				refuse(x, "%s: %s is not known to be non-nil here (would panic on nil)", render(x), render(x.X))
			}
			return "(" + proj + " " + v + ")"
		case "routeptr":
			refuse(x, "%s: read through a *Route outside a condition", render(x))
		case "url":
			return "(" + proj + " " + t.expr(x.X.(*ast.SelectorExpr).X) + ")"
		}
		return "(" + proj + " " + t.expr(x.X) + ")"
	case *ast.CallExpr:
		if s, ok := x.Fun.(*ast.SelectorExpr); ok {
			if id, ok := s.X.(*ast.Ident); ok {
				if pn, ok := info.Uses[id].(*types.PkgName); ok && pn.Imported().Path() == "cmp" && s.Sel.Name == "Or" &&
					len(x.Args) == 2 && kindOf(x.Args[0]) == "bytes" && kindOf(x.Args[1]) == "bytes" {
					return "(go_cmp_or_str " + t.expr(x.Args[0]) + " " + t.expr(x.Args[1]) + ")"
				}
			}
			// fox.tree.Load()
			if s.Sel.Name == "Load" && len(x.Args) == 0 {
				if in, ok := s.X.(*ast.SelectorExpr); ok {
					if k, _, xk := t.field(in); k == "atomictree" && xk == "router" {
						return "(rt_tree " + t.expr(in.X) + ")"
					}
				}
			}
			if s.Sel.Name == "getRoot" && len(x.Args) == 0 && kindOf(s.X) == "router" {
				return "(gen_Router_getRoot " + t.expr(s.X) + ")"
			}
		}
	case *ast.BinaryExpr:
		if b, ok := t.lenTest(x); ok {
			return b
		}
	}
	refuse(e, "expression %s is outside the accepted shapes", render(e))
	return ""
}

// len(s) > 0, len(s) != 0, 0 < len(s) on a string
func (t *tr) lenTest(x *ast.BinaryExpr) (string, bool) {
	l, r, op := x.X, x.Y, x.Op
	if op == token.LSS {
		l, r, op = r, l, token.GTR
	}
	// x != "" (either side) is the same test as len(x) > 0
	if op == token.NEQ {
		for _, p := range [][2]ast.Expr{{l, r}, {r, l}} {
			if tv, ok := info.Types[p[1]]; ok && tv.Value != nil && tv.Value.ExactString() == `""` && kindOf(p[0]) == "bytes" {
				return "(str_nonempty " + t.expr(p[0]) + ")", true
			}
		}
	}
	c, ok := l.(*ast.CallExpr)
	if !ok || len(c.Args) != 1 || (op != token.GTR && op != token.NEQ) {
		return "", false
	}
	if id, ok := c.Fun.(*ast.Ident); !ok || id.Name != "len" || info.Uses[id] != types.Universe.Lookup("len") {
		return "", false
	}
	if tv, ok := info.Types[r]; !ok || tv.Value == nil || tv.Value.ExactString() != "0" || kindOf(c.Args[0]) != "bytes" {
		return "", false
	}
	return "(str_nonempty " + t.expr(c.Args[0]) + ")", true
}

// the matcher call: t.lookup(method, hostPort, path, c, lazy) on an *iTree, or r.lookup(t, method, hostPort, path, c, lazy) on roots
func (t *tr) lookupCall(e ast.Expr) string {
	c, ok := e.(*ast.CallExpr)
	if !ok {
		refuse(e, "expected a lookup call")
	}
	s, ok := c.Fun.(*ast.SelectorExpr)
	if !ok || s.Sel.Name != "lookup" {
		refuse(e, "expected a lookup call, got %s", render(c.Fun))
	}
	want := []string{"bytes", "bytes", "bytes", "cctx", "bool"}
	head := ""
	switch kindOf(s.X) {
	case "itree":
		head = "gen_iTree_lookup E " + t.expr(s.X)
	case "roots":
		want = append([]string{"itree"}, want...)
		if len(c.Args) < 1 {
			refuse(e, "roots.lookup without a tree")
		}
		head = "e_lookup E " + t.expr(c.Args[0]) + " " + t.expr(s.X)
	default:
		refuse(e, "lookup on %s", info.TypeOf(s.X))
	}
	if len(c.Args) != len(want) {
		refuse(e, "lookup with %d arguments", len(c.Args))
	}
	for i, a := range c.Args {
		if kindOf(a) != want[i] {
			refuse(a, "argument %d of lookup is a %s", i, info.TypeOf(a))
		}
		if want[i] != "itree" {
			head += " " + t.expr(a)
		}
	}
	return head
}

func (t *tr) with(key, v string, f func() string) string {
	old, had := t.nonNil[key]
	t.nonNil[key] = v
	s := f()
	if had {
		t.nonNil[key] = old
	} else {
		delete(t.nonNil, key)
	}
	return s
}

// a string/bool operand of a condition that may read through a *Route (n.route.pattern): k receives its value
func (t *tr) operand(e ast.Expr, k func(string) string) string {
	if s, ok := e.(*ast.SelectorExpr); ok && kindOf(s.X) == "routeptr" {
		_, proj, _ := t.field(s)
		p := t.expr(s.X)
		v := strings.NewReplacer(".", "_").Replace(render(s.X)) + "_v"
		return "deref " + p + " (fun " + v + " =>\n  " + k("("+proj+" "+v+")") + ")"
	}
	return k(t.expr(e))
}

// if e then T else F, with Go's evaluation order, short-circuiting and nil dereferences
func (t *tr) cond(e ast.Expr, T, F func() string) string {
	switch x := e.(type) {
	case *ast.ParenExpr:
		return t.cond(x.X, T, F)
	case *ast.UnaryExpr:
		if x.Op == token.NOT {
			return t.cond(x.X, F, T)
		}
	case *ast.CallExpr:
		if id, ok := x.Fun.(*ast.Ident); ok && kindOf(id) == "yield" && len(x.Args) == 2 && t.sp.mode == "body" {
			a, b := t.expr(x.Args[0]), t.expr(x.Args[1])
			return "let ys := yield_rec " + a + " " + b + " ys in\n  if " + id.Name + " " + a + " " + b + " then " + T() + "\n  else " + F()
		}
	case *ast.BinaryExpr:
		switch x.Op {
		case token.LAND:
			return t.cond(x.X, func() string { return t.cond(x.Y, T, F) }, F)
		case token.LOR:
			return t.cond(x.X, T, func() string { return t.cond(x.Y, T, F) })
		case token.EQL, token.NEQ:
			l, r := x.X, x.Y
			if isNil(l) {
				l, r = r, l
			}
			if isNil(r) {
				k := kindOf(l)
				if k != "nodeptr" && k != "rtxnptr" {
					refuse(x, "nil test on %s", info.TypeOf(l))
				}
				var p string
				if id, ok := l.(*ast.Ident); ok {
					p = id.Name
				} else if s, ok := l.(*ast.SelectorExpr); ok {
					_, proj, _ := t.field(s)
					p = "(" + proj + " " + t.expr(s.X) + ")"
				} else {
					refuse(l, "nil test on %s", render(l))
				}
				key := render(l)
				v := strings.NewReplacer(".", "_").Replace(key) + "_v"
				some, none := T, F
				if x.Op == token.EQL {
					some, none = F, T
				}
				return "match " + p + " with\n  | Some " + v + " => " + t.with(key, v, some) + "\n  | None => " + none() + "\n  end"
			}
			if kindOf(l) == "bytes" && kindOf(r) == "bytes" {
				if x.Op == token.NEQ {
					T, F = F, T
				}
				return t.operand(l, func(a string) string {
					return t.operand(r, func(b string) string {
						return "if bytes_eqb " + a + " " + b + " then " + T() + "\n  else " + F()
					})
				})
			}
		}
	}
	if kindOf(e) != "bool" {
		refuse(e, "condition %s", render(e))
	}
	return t.operand(e, func(a string) string { return "if " + a + " then " + T() + "\n  else " + F() })
}

func (t *tr) fallthru(at ast.Node) string {
	switch t.sp.mode {
	case "reset":
		return "c"
	case "close":
		return "pl"
	case "body":
		return "GRet (false, c, ys) pl"
	case "iter":
		return "GRet (c, ys) pl"
	}
	refuse(at, "control reaches the end of %s", t.sp.goName)
	return ""
}

func isCtx(e ast.Expr) bool {
	id, ok := e.(*ast.Ident)
	return ok && id.Name == "c" && kindOf(e) == "cctx"
}

// X.ctx  (the sync.Pool of an *iTree)
func (t *tr) poolOf(e ast.Expr) (string, bool) {
	s, ok := e.(*ast.SelectorExpr)
	if !ok || s.Sel.Name != "ctx" || kindOf(s.X) != "itree" {
		return "", false
	}
	if k, _, _ := t.field(s); k != "pool" {
		return "", false
	}
	return t.expr(s.X), true
}

func (t *tr) seq(ss []ast.Stmt, at ast.Node) string {
	if len(ss) == 0 {
		return t.fallthru(at)
	}
	s, rest := ss[0], ss[1:]
	next := func() string { return t.seq(rest, s) }
	switch x := s.(type) {
	case *ast.AssignStmt:
		return t.assign(x, next)
	case *ast.ExprStmt:
		c, ok := x.X.(*ast.CallExpr)
		if !ok {
			break
		}
		if id, ok := c.Fun.(*ast.Ident); ok && id.Name == "panic" && info.Uses[id] == types.Universe.Lookup("panic") {
			if a, ok := c.Args[0].(*ast.Ident); ok && a.Name == "ErrSettledTxn" { // never returns: what follows the enclosing block is not reached
				return "GSettled"
			}
			refuse(x, "panic(%s)", render(c.Args[0]))
		}
		sel, ok := c.Fun.(*ast.SelectorExpr)
		if !ok {
			break
		}
		if isCtx(sel.X) && t.sp.mode != "reset" {
			switch {
			case sel.Sel.Name == "resetNil" && len(c.Args) == 0:
				return "let c := gen_cTx_resetNil c in\n  " + next()
			case sel.Sel.Name == "resetWithWriter" && len(c.Args) == 2 && kindOf(c.Args[0]) == "writer" && kindOf(c.Args[1]) == "req":
				return "let c := gen_cTx_resetWithWriter c " + t.expr(c.Args[0]) + " " + t.expr(c.Args[1]) + " in\n  " + next()
			}
		}
		if p, ok := t.poolOf(sel.X); ok && sel.Sel.Name == "Put" && len(c.Args) == 1 && isCtx(c.Args[0]) {
			return "let pl := pool_put " + p + " c pl in\n  " + next()
		}
	case *ast.DeferStmt:
		if sel, ok := x.Call.Fun.(*ast.SelectorExpr); ok && t.sp.mode == "iter" && isCtx(sel.X) && sel.Sel.Name == "Close" && len(x.Call.Args) == 0 {
			return "gbind (" + next() + ")\n  (* deferred *) (fun '(c, ys) pl => let pl := gen_cTx_Close c pl in GRet (c, ys) pl)"
		}
	case *ast.RangeStmt:
		if t.sp.mode == "iter" && len(rest) == 0 && x.Value == nil && x.Tok == token.DEFINE && kindOf(x.X) == "methods" {
			if k, ok := x.Key.(*ast.Ident); ok && k.Name == "method" {
				if id, ok := x.X.(*ast.Ident); ok && id.Name == "methods" {
					t.loop(x)
					return "gbind (" + t.sp.coq + "_loop " + t.sig + " methods c ys pl) (fun '(c, ys) pl =>\n  " + next() + ")"
				}
			}
		}
	case *ast.IfStmt:
		if x.Init != nil {
			break
		}
		// if b { v = E }  with nothing else: a conditional value
		if x.Else == nil && len(x.Body.List) == 1 {
			if a, ok := x.Body.List[0].(*ast.AssignStmt); ok && a.Tok == token.ASSIGN && len(a.Lhs) == 1 && len(a.Rhs) == 1 {
				if id, ok := a.Lhs[0].(*ast.Ident); ok && kindOf(id) == "bytes" {
					return "let " + id.Name + " := (if " + t.expr(x.Cond) + " then " + t.expr(a.Rhs[0]) + " else " + id.Name + ") in\n  " + next()
				}
			}
		}
		var els []ast.Stmt
		if x.Else != nil {
			b, ok := x.Else.(*ast.BlockStmt)
			if !ok {
				break
			}
			els = b.List
		}
		for _, b := range [][]ast.Stmt{x.Body.List, els} {
			for _, q := range b {
				if a, ok := q.(*ast.AssignStmt); ok && a.Tok == token.DEFINE && !returns(b) {
					refuse(a, "declaration inside a block that falls through")
				}
			}
		}
		join := func(b []ast.Stmt) func() string {
			return func() string { return t.seq(append(append([]ast.Stmt{}, b...), rest...), s) }
		}
		return t.cond(x.Cond, join(x.Body.List), join(els))
	case *ast.ReturnStmt:
		return t.ret(x)
	}
	refuse(s, "statement outside the accepted shapes")
	return ""
}

func returns(b []ast.Stmt) bool {
	if len(b) == 0 {
		return false
	}
	switch x := b[len(b)-1].(type) {
	case *ast.ReturnStmt:
		return true
	case *ast.ExprStmt:
		if c, ok := x.X.(*ast.CallExpr); ok {
			if id, ok := c.Fun.(*ast.Ident); ok && id.Name == "panic" {
				return true
			}
		}
	}
	return false
}

func (t *tr) assign(x *ast.AssignStmt, next func() string) string {
	if len(x.Lhs) == 2 && len(x.Rhs) == 1 && x.Tok == token.DEFINE {
		a, ok1 := x.Lhs[0].(*ast.Ident)
		b, ok2 := x.Lhs[1].(*ast.Ident)
		c, ok3 := x.Rhs[0].(*ast.CallExpr)
		if ok1 && ok2 && ok3 {
			if id, ok := c.Fun.(*ast.Ident); ok && id.Name == "SplitHostPath" && len(c.Args) == 1 && kindOf(c.Args[0]) == "bytes" {
				if f, ok := info.Uses[id].(*types.Func); ok && f.Pkg().Path()+"." == foxp {
					return "let '(" + a.Name + ", " + b.Name + ") := e_split E " + t.expr(c.Args[0]) + " in\n  " + next()
				}
			}
			if a.Name == "n" && b.Name == "tsr" && kindOf(a) == "nodeptr" && kindOf(b) == "bool" {
				return "call_lookup (" + t.lookupCall(c) + ") c (fun n tsr c =>\n  " + next() + ")"
			}
		}
	}
	if len(x.Lhs) != 1 || len(x.Rhs) != 1 {
		refuse(x, "assignment shape")
	}
	switch l := x.Lhs[0].(type) {
	case *ast.Ident:
		if l.Name == "c" || l.Name == "pl" || l.Name == "E" || l.Name == "ys" {
			// c := X.ctx.Get().(*cTx)
			if ta, ok := x.Rhs[0].(*ast.TypeAssertExpr); ok && l.Name == "c" && x.Tok == token.DEFINE && kindOf(ta) == "cctx" {
				if c, ok := ta.X.(*ast.CallExpr); ok && len(c.Args) == 0 {
					if s, ok := c.Fun.(*ast.SelectorExpr); ok && s.Sel.Name == "Get" {
						if p, ok := t.poolOf(s.X); ok {
							return "let '(c, pl) := pool_get E " + p + " pl in\n  " + next()
						}
					}
				}
			}
			refuse(x, "assignment to %s", l.Name)
		}
		k := kindOf(l)
		if k != "bytes" && k != "bool" && k != "itree" && k != "roots" {
			refuse(x, "local %s of type %s", l.Name, info.TypeOf(l))
		}
		if kindOf(x.Rhs[0]) != k {
			refuse(x, "assignment changes the kind of %s", l.Name)
		}
		return "let " + l.Name + " := " + t.expr(x.Rhs[0]) + " in\n  " + next()
	case *ast.SelectorExpr:
		if x.Tok == token.ASSIGN && isCtx(l.X) {
			ent, ok := ctxFields[l.Sel.Name]
			sel := info.Selections[l]
			if !ok || sel == nil || kinds[sel.Obj().Type().String()] != ent[0] {
				refuse(x, "context field %s", l.Sel.Name)
			}
			if strings.HasPrefix(ent[1], "set_cx_unobserved") {
				switch r := x.Rhs[0].(type) {
				case *ast.Ident:
					_ = r // identifier, constant or nil: no effect
				default:
					refuse(x, "right-hand side of an unobserved field must be an identifier")
				}
				return "let c := " + ent[1] + " c in\n  " + next()
			}
			var v string
			if ent[0] == "routeptr" && !isNil(x.Rhs[0]) {
				s, ok := x.Rhs[0].(*ast.SelectorExpr)
				if !ok || kindOf(s) != "routeptr" {
					refuse(x, "route value %s", render(x.Rhs[0]))
				}
				v = t.expr(s)
			} else {
				v = t.expr(x.Rhs[0])
			}
			return "let c := " + ent[1] + " " + v + " c in\n  " + next()
		}
	case *ast.StarExpr:
		// *c.params = (*c.params)[:0]
		if render(x.Lhs[0]) == "*c.params" && render(x.Rhs[0]) == "(*c.params)[:0]" && x.Tok == token.ASSIGN && kindOf(l.X) == "paramsptr" && kindOf(x.Rhs[0]) == "params" {
			if isCtx(l.X.(*ast.SelectorExpr).X) {
				return "let c := set_cx_params (slice_to0 (cx_params c)) c in\n  " + next()
			}
		}
	}
	refuse(x, "assignment %s outside the accepted shapes", render(x.Lhs[0]))
	return ""
}

func (t *tr) routeVal(e ast.Expr) string {
	if isNil(e) {
		return "None"
	}
	if kindOf(e) != "routeptr" {
		refuse(e, "expected a *Route")
	}
	return t.expr(e)
}

func (t *tr) ret(x *ast.ReturnStmt) string {
	r := x.Results
	switch t.sp.mode {
	case "body":
		if len(r) == 0 {
			return "GRet (true, c, ys) pl"
		}
	case "pure":
		if len(r) == 1 {
			return t.expr(r[0])
		}
	case "lres":
		if len(r) == 1 {
			return t.lookupCall(r[0])
		}
	case "route":
		if len(r) == 1 {
			return "GRet " + t.routeVal(r[0]) + " pl"
		}
	case "reverse":
		if len(r) == 2 && kindOf(r[1]) == "bool" {
			return "GRet (" + t.routeVal(r[0]) + ", " + t.expr(r[1]) + ") pl"
		}
	case "lookup":
		if len(r) == 3 && kindOf(r[2]) == "bool" {
			cc := "None"
			if isCtx(r[1]) {
				cc = "Some c"
			} else if !isNil(r[1]) {
				refuse(r[1], "context result %s", render(r[1]))
			}
			return "GRet (" + t.routeVal(r[0]) + ", " + cc + ", " + t.expr(r[2]) + ") pl"
		}
	case "bool":
		// return X.Route(method, pattern) != nil
		if len(r) == 1 {
			if b, ok := r[0].(*ast.BinaryExpr); ok && (b.Op == token.NEQ || b.Op == token.EQL) && isNil(b.Y) {
				if c, ok := b.X.(*ast.CallExpr); ok && len(c.Args) == 2 && kindOf(c.Args[0]) == "bytes" && kindOf(c.Args[1]) == "bytes" {
					if s, ok := c.Fun.(*ast.SelectorExpr); ok && s.Sel.Name == "Route" && (kindOf(s.X) == "router" || kindOf(s.X) == "txn") {
						callee := map[string]string{"router": "gen_Router_Route", "txn": "gen_Txn_Route"}[kindOf(s.X)]
						v := "ptr_not_nil v"
						if b.Op == token.EQL {
							v = "negb (ptr_not_nil v)"
						}
						return "gbind (" + callee + " E " + t.expr(s.X) + " " + t.expr(c.Args[0]) + " " + t.expr(c.Args[1]) + " pl) (fun v pl => GRet (" + v + ") pl)"
					}
				}
			}
		}
	}
	refuse(x, "return statement outside the accepted shapes of a %q function", t.sp.mode)
	return ""
}

// for method := range methods { B }: B becomes <name>_body, the iteration with the early return <name>_loop
func (t *tr) loop(x *ast.RangeStmt) {
	b := &tr{sp: spec{t.sp.goName, t.sp.coq + "_body", "body"}, nonNil: t.nonNil}
	body := b.seq(x.Body.List, x)
	n := t.sp.coq
	t.extra = append(t.extra,
		"Definition "+n+"_body "+t.sigT+" (method : bytes) (c : cctx) (ys : yields) (pl : list pev) : "+resType["body"]+" :=\n  "+body+".\n",
		"Fixpoint "+n+"_loop "+t.sigT+" (methods : list bytes) (c : cctx) (ys : yields) (pl : list pev) : "+resType["iter"]+" :=\n"+
			"  match methods with\n  | [] => GRet (c, ys) pl\n  | method :: methods' =>\n"+
			"      gbind ("+n+"_body "+t.sig+" method c ys pl)\n"+
			"        (fun '(stop, c, ys) pl => if (stop : bool) then GRet (c, ys) pl else "+n+"_loop "+t.sig+" methods' c ys pl)\n  end.\n")
}

func (t *tr) fun(fd *ast.FuncDecl) string {
	var ps, names []string
	add := func(id *ast.Ident) {
		k := kindOf(id)
		if coqType[k] == "" {
			refuse(id, "parameter %s of type %s", id.Name, info.TypeOf(id))
		}
		if id.Name == "E" || id.Name == "pl" || id.Name == "ys" || (id.Name == "c") != (k == "cctx") {
			refuse(id, "parameter name %s", id.Name)
		}
		ps = append(ps, "("+id.Name+" : "+coqType[k]+")")
		names = append(names, id.Name)
	}
	for _, f := range fd.Recv.List {
		for _, id := range f.Names {
			add(id)
		}
	}
	for _, f := range fd.Type.Params.List {
		for _, id := range f.Names {
			add(id)
		}
	}
	m := t.sp.mode
	body := fd.Body.List
	pre := ""
	useE := m != "reset" && m != "close" && m != "pure"
	usePl := useE && m != "lres" || m == "close"
	if m == "iter" {
		// return func(yield func(string, *Route) bool) { ... }
		if len(body) != 1 {
			refuse(fd, "Iter.Reverse must be a single return of a function literal")
		}
		r, ok := body[0].(*ast.ReturnStmt)
		if !ok || len(r.Results) != 1 {
			refuse(fd, "Iter.Reverse must return a function literal")
		}
		fl, ok := r.Results[0].(*ast.FuncLit)
		if !ok || len(fl.Type.Params.List) != 1 || len(fl.Type.Params.List[0].Names) != 1 || fl.Type.Params.List[0].Names[0].Name != "yield" {
			refuse(fd, "Iter.Reverse must return func(yield ...)")
		}
		var lp, ln []string
		for i, p := range ps {
			if names[i] != "methods" {
				lp, ln = append(lp, p), append(ln, names[i])
			}
		}
		add(fl.Type.Params.List[0].Names[0])
		t.sigT = "(E : env) " + strings.Join(lp, " ") + " " + ps[len(ps)-1]
		t.sig = "E " + strings.Join(ln, " ") + " yield"
		body = fl.Body.List
		pre = "let ys : yields := [] in\n  "
	}
	head := "Definition " + t.sp.coq
	if useE {
		head += " (E : env)"
	}
	head += " " + strings.Join(ps, " ")
	if usePl {
		head += " (pl : list pev)"
	}
	text := t.seq(body, fd)
	return strings.Join(t.extra, "\n") + ifs(len(t.extra) > 0, "\n") + head + " : " + resType[m] + " :=\n  " + pre + text + ".\n"
}

func ifs(b bool, s string) string {
	if b {
		return s
	}
	return ""
}

func writeOut(out, text string) {
	old, _ := os.ReadFile(out)
	if string(old) == text {
		return
	}
	if err := os.WriteFile(out, []byte(text), 0o644); err != nil {
		fmt.Fprintln(os.Stderr, "entrygen:", err)
		os.Exit(2)
	}
}

func stub(out, why string) {
	writeOut(out, "(* GENERATED by harness/cmd/entrygen - do not edit. *)\n(* REFUSED: "+strings.ReplaceAll(why, "*)", "* )")+" *)\n")
	fmt.Fprintln(os.Stderr, "entrygen: REFUSED:", why)
	os.Exit(1)
}

const prologue = `(* GENERATED by harness/cmd/entrygen from fox.go, txn.go, iter.go, tree.go and context.go of the tree under test - do not edit.
   Statement-by-statement translation of the entry-point wrappers around the matcher; primitives: EntrySem.v;
   bridge to the hand-written entry-point models of LazyProofs2.v: BridgeEntry.v (docs/GenC01.md). *)
From FoxBase Require Import Bytes.
From FoxRoute Require Import Node Lookup EntrySem.
Require Import List String.
Import ListNotations.
Open Scope string_scope.

`

func main() {
	repo, out := os.Getenv("VERIF_REPO"), ""
	for _, a := range os.Args[1:] {
		switch {
		case strings.HasPrefix(a, "repo="):
			repo = a[5:]
		case strings.HasPrefix(a, "out="):
			out = a[4:]
		}
	}
	if repo == "" {
		repo = "/repo"
	}
	if out == "" {
		fmt.Fprintln(os.Stderr, "usage: entrygen repo=<fox tree> out=<GenEntry.v>")
		os.Exit(2)
	}
	repo, _ = filepath.Abs(repo)
	out, _ = filepath.Abs(out)
	pkgs, err := parser.ParseDir(fset, repo, func(fi os.FileInfo) bool {
		n := fi.Name()
		return !strings.HasSuffix(n, "_test.go") && !strings.HasPrefix(n, "verif_")
	}, 0)
	if err != nil {
		stub(out, "the tree does not parse: "+err.Error())
	}
	p := pkgs["fox"]
	if p == nil {
		stub(out, "package fox not found in "+repo)
	}
	var fnames []string
	for n := range p.Files {
		fnames = append(fnames, n)
	}
	sort.Strings(fnames)
	var files []*ast.File
	for _, n := range fnames {
		files = append(files, p.Files[n])
	}
	if err := os.Chdir(repo); err != nil {
		stub(out, err.Error())
	}
	var terrs []string
	conf := types.Config{Importer: importer.ForCompiler(fset, "source", nil), Error: func(err error) { terrs = append(terrs, err.Error()) }}
	info = &types.Info{Uses: map[*ast.Ident]types.Object{}, Defs: map[*ast.Ident]types.Object{},
		Selections: map[*ast.SelectorExpr]*types.Selection{}, Types: map[ast.Expr]types.TypeAndValue{}}
	conf.Check("github.com/tigerwill90/fox", fset, files, info)
	if len(terrs) > 0 {
		stub(out, "package fox does not type-check: "+terrs[0])
	}
	funcs := map[string]*ast.FuncDecl{}
	for _, f := range files {
		for _, d := range f.Decls {
			if fd, ok := d.(*ast.FuncDecl); ok && fd.Body != nil && fd.Recv != nil {
				funcs[recvName(fd)+"."+fd.Name.Name] = fd
			}
		}
	}
	var sb strings.Builder
	sb.WriteString(prologue)
	var refused []string
	for _, sp := range specs {
		fd := funcs[sp.goName]
		if fd == nil {
			refused = append(refused, sp.coq+": "+sp.goName+" not found")
			sb.WriteString("(* REFUSED " + sp.coq + ": " + sp.goName + " not found *)\n\n")
			continue
		}
		p0, p1 := fset.Position(fd.Pos()), fset.Position(fd.End())
		data, _ := os.ReadFile(p0.Filename)
		hdr := fmt.Sprintf("(* %s - %s:%d-%d  sha256=%x *)\n", sp.goName, filepath.Base(p0.Filename), p0.Line, p1.Line, sha256.Sum256(data[p0.Offset:p1.Offset]))
		func() {
			defer func() {
				if r := recover(); r != nil {
					why, ok := r.(refusal)
					if !ok {
						panic(r)
					}
					refused = append(refused, sp.coq+": "+string(why))
					sb.WriteString(hdr + "(* REFUSED " + sp.coq + ": " + strings.ReplaceAll(string(why), "*)", "* )") + " *)\n\n")
				}
			}()
			t := &tr{sp: sp, nonNil: map[string]string{}}
			text := t.fun(fd)
			sb.WriteString(hdr + text + "\n")
		}()
	}
	writeOut(out, sb.String())
	for _, r := range refused {
		fmt.Fprintln(os.Stderr, "entrygen: REFUSED", r)
	}
	if len(refused) > 0 {
		os.Exit(1)
	}
	fmt.Printf("entrygen: %d definitions from %s\n", len(specs), repo)
}
