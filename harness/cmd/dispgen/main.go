// dispgen: tie A for the dispatch half of C08 / C11 (and the redirect clause of C17).
//
// Reads package fox from repo=<dir> (default $VERIF_REPO, /repo), type-checks it with go/types
// (source importer, stdlib only) and translates the BODY of (*Router).ServeHTTP (fox.go), statement
// by statement, into the Gallina definition gen_serve_http_at / gen_serve_http of
// out=<coq/Dispatch/GenServe.v>, over the Section parameters and the types of coq/Dispatch/Dispatch.v.
// (*cTx).reset (context.go) is translated into gen_ctx_reset the same way.
//
// Nothing is emitted from a template: the walker (seq / ifStmt / forStmt / cond / str) only knows a
// whitelist of statement and expression shapes (docs/GenServe.md); anything else is REFUSED: exit 1,
// the output file is replaced by a `(* REFUSED: ... *)` stub (nothing stale is left), and
// coq/Dispatch/BridgeServe.v no longer compiles.  The meaning of the emitted primitives is
// coq/Dispatch/ServeSem.v (hand-written, trusted together with this program).
package main

import (
	"crypto/sha256"
	"fmt"
	"go/ast"
	"go/constant"
	"go/importer"
	"go/parser"
	"go/token"
	"go/types"
	"os"
	"sort"
	"strings"
)

// ------------------------------------------------------------------ variables

type vkind int

const (
	kStr vkind = iota
	kBool
	kNode  // *node, read through n.route: option R
	kCtx   // *cTx: ctx R
	kSB    // strings.Builder used as ", "-joined list: list bytes
	kAllow // hidden: the Allow header of the response: option (list bytes)
)

func (k vkind) coq() string {
	switch k {
	case kStr:
		return "bytes"
	case kBool:
		return "bool"
	case kNode:
		return "option R"
	case kCtx:
		return "ctx R"
	case kSB:
		return "list bytes"
	}
	return "option (list bytes)"
}

type vinfo struct {
	name string
	kind vkind
	seq  int // declaration order
}

type sbst struct{ sep, nonEmpty bool }

// flow-sensitive facts the translator relies on (checked, not emitted)
type flow struct {
	cst      int  // c: 0 not acquired, 1 taken from the pool, 2 reset (usable), 3 returned to the pool
	recorded bool // the non-lazy lookup has run
	sb       map[*vinfo]sbst
}

func (f flow) clone() flow {
	g := f
	g.sb = map[*vinfo]sbst{}
	for k, v := range f.sb {
		g.sb[k] = v
	}
	return g
}

const (
	mRes  = iota // the term is the result of ServeHTTP
	mLoop        // the term is the state of the enclosing loop (outc S)
)

type cont struct {
	mode    int
	fall    func(fl flow) string
	funcEnd bool
}

type refusal string

type tr struct {
	fset *token.FileSet
	info *types.Info
	pkg  *types.Package

	vars   map[types.Object]*vinfo
	used   map[string]bool
	nvar   int
	writes []*vinfo // every (re)binding emitted, in emission order
	allow  *vinfo

	recv, w, r types.Object // fox, w, r
	tree, c    types.Object
	pathObj    types.Object // the variable passed as path to tree.lookup (frozen after the first call)
	loopVar    types.Object
	rtName     string
	njoin      int
	nlookups   int
}

func (t *tr) refuse(pos token.Pos, f string, a ...any) {
	p := t.fset.Position(pos)
	panic(refusal(fmt.Sprintf("%s:%d: %s", shortName(p.Filename), p.Line, fmt.Sprintf(f, a...))))
}

func shortName(s string) string {
	if i := strings.LastIndexByte(s, '/'); i >= 0 {
		return s[i+1:]
	}
	return s
}

var reserved = map[string]bool{
	"rq": true, "c0": true, "rec_params": true, "rec_tsr_params": true, "lookup": true, "lookup_at": true,
	"roots": true, "opts": true, "ignoreTS": true, "redirectTS": true, "cleanfn": true, "R": true, "allow": true,
	"fst": true, "snd": true, "root": true, "ctx": true, "request": true, "result": true, "scope": true,
	"in": true, "at": true, "end": true, "fun": true, "let": true, "match": true, "if": true, "then": true,
	"else": true, "with": true, "as": true, "return": true, "using": true, "Type": true, "Set": true, "Prop": true,
	"forall": true, "exists": true, "fix": true, "cofix": true, "where": true, "for": true, "o_clean": true,
	"map": true, "filter": true, "app": true, "nil": true, "cons": true, "true": true, "false": true,
	"negb": true, "nonempty": true, "slash": true, "star": true, "mGET": true, "mOPTIONS": true, "mCONNECT": true,
	"special": true, "allowed": true, "scrub": true, "param": true, "bytes": true, "list": true, "option": true,
}

func (t *tr) fresh(base string) string {
	ok := func(s string) bool {
		if reserved[s] || t.used[s] || strings.HasPrefix(s, "join") || strings.HasPrefix(s, "gen_") {
			return false
		}
		for i, ch := range s {
			if !(ch == '_' || ch >= 'a' && ch <= 'z' || ch >= 'A' && ch <= 'Z' || i > 0 && ch >= '0' && ch <= '9') {
				return false
			}
		}
		return s != "_"
	}
	s := base
	for i := 1; !ok(s); i++ {
		s = fmt.Sprintf("%s_%d", base, i)
		if i > 1000 {
			s = fmt.Sprintf("v_%d", i)
		}
	}
	t.used[s] = true
	return s
}

func (t *tr) declare(obj types.Object, k vkind) *vinfo {
	if _, dup := t.vars[obj]; dup {
		t.refuse(obj.Pos(), "variable %s declared twice", obj.Name())
	}
	t.nvar++
	v := &vinfo{name: t.fresh(obj.Name()), kind: k, seq: t.nvar}
	t.vars[obj] = v
	t.writes = append(t.writes, v)
	return v
}

// bind: the Coq name of a variable that is being assigned (logged: join points and loops abstract
// exactly the variables bound since they started)
func (t *tr) bind(v *vinfo) string {
	t.writes = append(t.writes, v)
	return v.name
}

// variables declared before `nvar0` that were bound after mark `w0`, in declaration order
func (t *tr) writtenSince(w0, nvar0 int) []*vinfo {
	seen := map[*vinfo]bool{}
	var out []*vinfo
	for _, v := range t.writes[w0:] {
		if v.seq <= nvar0 && !seen[v] {
			seen[v] = true
			out = append(out, v)
		}
	}
	sort.Slice(out, func(i, j int) bool { return out[i].seq < out[j].seq })
	return out
}

// ------------------------------------------------------------------ expression helpers

func unparen(e ast.Expr) ast.Expr {
	for {
		p, ok := e.(*ast.ParenExpr)
		if !ok {
			return e
		}
		e = p.X
	}
}

// chain: x.a.b -> (object of x, [a b])
func (t *tr) chain(e ast.Expr) (types.Object, []string, bool) {
	var sels []string
	e = unparen(e)
	for {
		switch x := e.(type) {
		case *ast.SelectorExpr:
			sels = append([]string{x.Sel.Name}, sels...)
			e = unparen(x.X)
		case *ast.Ident:
			obj := t.info.Uses[x]
			if obj == nil {
				return nil, nil, false
			}
			return obj, sels, true
		default:
			return nil, nil, false
		}
	}
}

func eqs(a []string, b ...string) bool {
	if len(a) != len(b) {
		return false
	}
	for i := range a {
		if a[i] != b[i] {
			return false
		}
	}
	return true
}

func (t *tr) isObj(e ast.Expr, obj types.Object) bool {
	id, ok := unparen(e).(*ast.Ident)
	return ok && obj != nil && t.info.Uses[id] == obj
}

func (t *tr) isChain(e ast.Expr, root types.Object, sels ...string) bool {
	o, s, ok := t.chain(e)
	return ok && root != nil && o == root && eqs(s, sels...)
}

func (t *tr) isNil(e ast.Expr) bool {
	id, ok := unparen(e).(*ast.Ident)
	if !ok {
		return false
	}
	_, isnil := t.info.Uses[id].(*types.Nil)
	return isnil
}

func (t *tr) boolLit(e ast.Expr) (string, bool) {
	id, ok := unparen(e).(*ast.Ident)
	if !ok {
		return "", false
	}
	if c, ok := t.info.Uses[id].(*types.Const); ok && c.Parent() == types.Universe && (id.Name == "true" || id.Name == "false") {
		return id.Name, true
	}
	return "", false
}

func (t *tr) intConst(e ast.Expr) (int64, bool) {
	tv, ok := t.info.Types[e]
	if !ok || tv.Value == nil || tv.Value.Kind() != constant.Int {
		return 0, false
	}
	return constant.Int64Val(tv.Value)
}

func (t *tr) builtinCall(e ast.Expr, name string) (*ast.CallExpr, bool) {
	c, ok := unparen(e).(*ast.CallExpr)
	if !ok {
		return nil, false
	}
	id, ok := c.Fun.(*ast.Ident)
	if !ok || id.Name != name {
		return nil, false
	}
	_, isb := t.info.Uses[id].(*types.Builtin)
	return c, isb
}

// tree.root[i].<field> inside a loop over tree.root
func (t *tr) rootElem(e ast.Expr) (string, bool) {
	se, ok := unparen(e).(*ast.SelectorExpr)
	if !ok {
		return "", false
	}
	ix, ok := unparen(se.X).(*ast.IndexExpr)
	if !ok || !t.isChain(ix.X, t.tree, "root") {
		return "", false
	}
	if t.loopVar == nil || !t.isObj(ix.Index, t.loopVar) {
		t.refuse(e.Pos(), "tree.root[..] is only accepted as tree.root[i] inside `for i := 0; i < len(tree.root); i++`")
	}
	return se.Sel.Name, true
}

func (t *tr) strConst(pos token.Pos, s string) string {
	switch s {
	case "CONNECT":
		return "mCONNECT"
	case "OPTIONS":
		return "mOPTIONS"
	case "GET":
		return "mGET"
	case "/":
		return "slash"
	case "*":
		return "star"
	case "":
		return "(@nil Ascii.ascii)"
	}
	for _, ch := range []byte(s) {
		if ch < 0x20 || ch > 0x7e || ch == '"' {
			t.refuse(pos, "string constant %q: only printable ASCII without quotes is emitted", s)
		}
	}
	return fmt.Sprintf("(S2B %q)", s)
}

// str: a string-valued expression that cannot panic
func (t *tr) str(e ast.Expr) (string, bool) {
	e = unparen(e)
	if tv, ok := t.info.Types[e]; ok && tv.Value != nil && tv.Value.Kind() == constant.String {
		return t.strConst(e.Pos(), constant.StringVal(tv.Value)), true
	}
	if id, ok := e.(*ast.Ident); ok {
		if v := t.vars[t.info.Uses[id]]; v != nil && v.kind == kStr {
			return v.name, true
		}
		return "", false
	}
	if f, ok := t.rootElem(e); ok {
		if f == "key" {
			return "(fst " + t.rtName + ")", true
		}
		return "", false
	}
	switch {
	case t.isChain(e, t.r, "Method"):
		return "(r_method rq)", true
	case t.isChain(e, t.r, "URL", "Path"):
		return "(r_urlpath rq)", true
	case t.isChain(e, t.r, "URL", "RawPath"):
		return "(r_rawpath rq)", true
	}
	return "", false
}

func (t *tr) sbOf(e ast.Expr) *vinfo {
	id, ok := unparen(e).(*ast.Ident)
	if !ok {
		return nil
	}
	if v := t.vars[t.info.Uses[id]]; v != nil && v.kind == kSB {
		return v
	}
	return nil
}

// x.M(args) with x a variable
func (t *tr) methodCall(e ast.Expr) (recv ast.Expr, name string, args []ast.Expr, ok bool) {
	c, ok := unparen(e).(*ast.CallExpr)
	if !ok {
		return nil, "", nil, false
	}
	se, ok := c.Fun.(*ast.SelectorExpr)
	if !ok {
		return nil, "", nil, false
	}
	return se.X, se.Sel.Name, c.Args, true
}

// sb.Len() > 0 : returns the builder
func (t *tr) sbLenPositive(e ast.Expr) *vinfo {
	b, ok := unparen(e).(*ast.BinaryExpr)
	if !ok || b.Op != token.GTR {
		return nil
	}
	if z, ok := t.intConst(b.Y); !ok || z != 0 {
		return nil
	}
	rx, name, args, ok := t.methodCall(b.X)
	if !ok || name != "Len" || len(args) != 0 {
		return nil
	}
	return t.sbOf(rx)
}

func (t *tr) nodeVar(e ast.Expr) *vinfo {
	id, ok := unparen(e).(*ast.Ident)
	if !ok {
		return nil
	}
	if v := t.vars[t.info.Uses[id]]; v != nil && v.kind == kNode {
		return v
	}
	return nil
}

// cond: a condition as a term of type outc bool (Go's evaluation order and short-circuit kept)
func (t *tr) cond(e ast.Expr) string {
	e = unparen(e)
	switch x := e.(type) {
	case *ast.UnaryExpr:
		if x.Op == token.NOT {
			return "b_not (" + t.cond(x.X) + ")"
		}
	case *ast.Ident:
		if s, ok := t.boolLit(x); ok {
			return "Val " + s
		}
		if v := t.vars[t.info.Uses[x]]; v != nil && v.kind == kBool {
			return "Val " + v.name
		}
	case *ast.SelectorExpr:
		obj, sels, ok := t.chain(x)
		if ok {
			if v := t.vars[obj]; v != nil && v.kind == kNode && len(sels) == 2 && sels[0] == "route" {
				switch sels[1] {
				case "ignoreTrailingSlash":
					return "node_flag ignoreTS " + v.name
				case "redirectTrailingSlash":
					return "node_flag redirectTS " + v.name
				}
			}
			if obj == t.recv && len(sels) == 1 {
				switch sels[0] {
				case "handleOptions":
					return "Val (handleOptions opts)"
				case "handleMethodNotAllowed":
					return "Val (handleMethodNotAllowed opts)"
				}
			}
		}
	case *ast.BinaryExpr:
		switch x.Op {
		case token.LAND:
			return "b_and (" + t.cond(x.X) + ") (" + t.cond(x.Y) + ")"
		case token.LOR:
			return "b_or (" + t.cond(x.X) + ") (" + t.cond(x.Y) + ")"
		case token.EQL, token.NEQ:
			wrap := func(s string) string {
				if x.Op == token.NEQ {
					return "negb (" + s + ")"
				}
				return s
			}
			// n == nil / n != nil
			if t.isNil(x.Y) || t.isNil(x.X) {
				other := x.X
				if t.isNil(x.X) {
					other = x.Y
				}
				if v := t.nodeVar(other); v != nil {
					if x.Op == token.NEQ {
						return "Val (is_some " + v.name + ")"
					}
					return "Val (negb (is_some " + v.name + "))"
				}
				break
			}
			// comparison with CleanPath(p)
			if p, ok := t.cleanCall(x.Y); ok {
				if a, ok := t.str(x.X); ok {
					return "clean_cmp (cleanfn " + p + ") (fun o_clean => " + wrap("bytes_eqb "+a+" o_clean") + ")"
				}
				break
			}
			if p, ok := t.cleanCall(x.X); ok {
				if b, ok := t.str(x.Y); ok {
					return "clean_cmp (cleanfn " + p + ") (fun o_clean => " + wrap("bytes_eqb o_clean "+b) + ")"
				}
				break
			}
			a, oka := t.str(x.X)
			b, okb := t.str(x.Y)
			if oka && okb {
				return "Val (" + wrap("bytes_eqb "+a+" "+b) + ")"
			}
		case token.GTR:
			if z, ok := t.intConst(x.Y); !ok || z != 0 {
				break
			}
			if sb := t.sbLenPositive(x); sb != nil {
				return "Val (nonempty " + sb.name + ")"
			}
			if c, ok := t.builtinCall(x.X, "len"); ok && len(c.Args) == 1 {
				if s, ok := t.str(c.Args[0]); ok {
					return "Val (nonempty " + s + ")"
				}
				if f, ok := t.rootElem(c.Args[0]); ok && f == "children" {
					return "Val (snd " + t.rtName + ")"
				}
			}
		}
	}
	t.refuse(e.Pos(), "condition outside the accepted shapes: %s", t.src(e))
	return ""
}

func (t *tr) cleanCall(e ast.Expr) (string, bool) {
	c, ok := unparen(e).(*ast.CallExpr)
	if !ok || len(c.Args) != 1 {
		return "", false
	}
	id, ok := c.Fun.(*ast.Ident)
	if !ok {
		return "", false
	}
	f, ok := t.info.Uses[id].(*types.Func)
	if !ok || f.Pkg() != t.pkg || f.Name() != "CleanPath" || f.Type().(*types.Signature).Recv() != nil {
		return "", false
	}
	p, ok := t.str(c.Args[0])
	return p, ok
}

func (t *tr) src(n ast.Node) string {
	p0, p1 := t.fset.Position(n.Pos()), t.fset.Position(n.End())
	b, err := os.ReadFile(p0.Filename)
	if err != nil || p1.Offset > len(b) {
		return "?"
	}
	s := string(b[p0.Offset:p1.Offset])
	if i := strings.IndexByte(s, '\n'); i >= 0 {
		s = s[:i] + " ..."
	}
	return s
}

// nonNegative: an int expression built from non-negative constants, len(..), min, +, * (sb.Grow panics on < 0)
func (t *tr) nonNegative(e ast.Expr) bool {
	e = unparen(e)
	if z, ok := t.intConst(e); ok {
		return z >= 0
	}
	switch x := e.(type) {
	case *ast.BinaryExpr:
		return (x.Op == token.ADD || x.Op == token.MUL) && t.nonNegative(x.X) && t.nonNegative(x.Y)
	case *ast.CallExpr:
		if c, ok := t.builtinCall(x, "min"); ok {
			for _, a := range c.Args {
				if !t.nonNegative(a) {
					return false
				}
			}
			return len(c.Args) > 0
		}
		if c, ok := t.builtinCall(x, "len"); ok && len(c.Args) == 1 {
			_, isStr := t.str(c.Args[0])
			return isStr || t.isChain(c.Args[0], t.tree, "root")
		}
	}
	return false
}

// ------------------------------------------------------------------ statements

func (t *tr) panicTerm(mode int) (string, string) {
	if mode == mLoop {
		return "Pan", "Fuel"
	}
	return "DPanic", "DOutOfFuel"
}

func ifName(mode int) string {
	if mode == mLoop {
		return "if_out"
	}
	return "if_res"
}

func (t *tr) needCtx(pos token.Pos, fl flow, what string) {
	switch fl.cst {
	case 0:
		t.refuse(pos, "%s before the context is taken from the pool (c := tree.ctx.Get().(*cTx))", what)
	case 1:
		t.refuse(pos, "%s before c.reset(w, r)", what)
	case 3:
		t.refuse(pos, "%s after tree.ctx.Put(c)", what)
	}
}

// tree.lookup(M, r.Host, path, c, lazy)
func (t *tr) lookupCall(e ast.Expr, fl *flow) (term string, lazy bool, ok bool) {
	rx, name, args, ok := t.methodCall(e)
	if !ok || name != "lookup" || !t.isObj(rx, t.tree) || t.tree == nil {
		return "", false, false
	}
	if len(args) != 5 {
		t.refuse(e.Pos(), "tree.lookup: 5 arguments expected")
	}
	t.needCtx(e.Pos(), *fl, "tree.lookup")
	m, okm := t.str(args[0])
	if !okm {
		t.refuse(args[0].Pos(), "tree.lookup: the method argument must be r.Method, tree.root[i].key or a local string, not %s", t.src(args[0]))
	}
	if !t.isChain(args[1], t.r, "Host") {
		t.refuse(args[1].Pos(), "tree.lookup: the host argument must be r.Host, not %s", t.src(args[1]))
	}
	pid, okp := unparen(args[2]).(*ast.Ident)
	var pv *vinfo
	if okp {
		pv = t.vars[t.info.Uses[pid]]
	}
	if pv == nil || pv.kind != kStr {
		t.refuse(args[2].Pos(), "tree.lookup: the path argument must be the local path variable, not %s", t.src(args[2]))
	}
	if t.pathObj == nil {
		t.pathObj = t.info.Uses[pid]
	} else if t.pathObj != t.info.Uses[pid] {
		t.refuse(args[2].Pos(), "tree.lookup: every call must look up the same path variable")
	}
	if !t.isObj(args[3], t.c) {
		t.refuse(args[3].Pos(), "tree.lookup: the context argument must be c")
	}
	lz, okl := t.boolLit(args[4])
	if !okl {
		t.refuse(args[4].Pos(), "tree.lookup: the lazy flag must be the literal true or false")
	}
	lazy = lz == "true"
	if t.loopVar != nil && !lazy {
		t.refuse(args[4].Pos(), "tree.lookup inside the Allow loop must be lazy (a non-lazy lookup overwrites c.params / c.tsrParams)")
	}
	if !fl.recorded && lazy {
		t.refuse(args[4].Pos(), "the first tree.lookup must be non-lazy (lazy = false): it records the route parameters")
	}
	if fl.recorded && !lazy {
		t.refuse(args[4].Pos(), "a second non-lazy tree.lookup would overwrite the recorded parameters: lazy must be true here")
	}
	t.nlookups++
	return "lookup_at " + pv.name + " " + m, lazy, true
}

// handlerCall: n.route.hall(c) / fox.<special>(c).  Returns the handler term and the node to dereference.
func (t *tr) handlerCall(e ast.Expr) (h string, deref *vinfo, ok bool) {
	c, isCall := unparen(e).(*ast.CallExpr)
	if !isCall {
		return "", nil, false
	}
	obj, sels, okc := t.chain(c.Fun)
	if !okc {
		return "", nil, false
	}
	isHandlerField := func() bool {
		se, ok := c.Fun.(*ast.SelectorExpr)
		if !ok {
			return false
		}
		sel := t.info.Selections[se]
		if sel == nil || sel.Kind() != types.FieldVal {
			return false
		}
		n, ok := sel.Obj().Type().(*types.Named)
		return ok && n.Obj().Name() == "HandlerFunc" && n.Obj().Pkg() == t.pkg
	}
	if v := t.vars[obj]; v != nil && v.kind == kNode && len(sels) == 2 && sels[0] == "route" && isHandlerField() {
		if sels[1] != "hall" {
			t.refuse(e.Pos(), "handler call %s.route.%s: only hall (the route's handler with ALL middleware) is the model's HRoute", obj.Name(), sels[1])
		}
		h, deref = "HRoute", v
	} else if obj == t.recv && len(sels) == 1 && isHandlerField() {
		switch sels[0] {
		case "tsrRedirect":
			h = "HRedirect"
		case "autoOptions":
			h = "HOptions"
		case "noMethod":
			h = "HNoMethod"
		case "noRoute":
			h = "HNoRoute"
		default:
			t.refuse(e.Pos(), "handler call fox.%s: unknown handler field", sels[0])
		}
	} else {
		return "", nil, false
	}
	if len(c.Args) != 1 || !t.isObj(c.Args[0], t.c) {
		t.refuse(e.Pos(), "handler call %s: the argument must be the context c", t.src(e))
	}
	return h, deref, true
}

func (t *tr) isPut(s ast.Stmt) bool {
	es, ok := s.(*ast.ExprStmt)
	if !ok {
		return false
	}
	rx, name, args, ok := t.methodCall(es.X)
	return ok && name == "Put" && t.isChain(rx, t.tree, "ctx") && len(args) == 1 && t.isObj(args[0], t.c)
}

var scopes = map[string]bool{"RouteHandler": true, "NoRouteHandler": true, "NoMethodHandler": true, "RedirectHandler": true, "OptionsHandler": true}

// c.<field> = rhs  /  *c.params = (*c.params)[:0]   -> (setter term applied to the new value, node to dereference)
func (t *tr) ctxAssign(lhs, rhs ast.Expr) (string, *vinfo, bool) {
	if st, ok := unparen(lhs).(*ast.StarExpr); ok {
		for _, f := range []string{"params", "tsrParams"} {
			if !t.isChain(st.X, t.c, f) {
				continue
			}
			sl, ok := unparen(rhs).(*ast.SliceExpr)
			if ok && sl.Low == nil && sl.Max == nil && sl.High != nil {
				if z, okz := t.intConst(sl.High); okz && z == 0 {
					if st2, ok := unparen(sl.X).(*ast.StarExpr); ok && t.isChain(st2.X, t.c, f) {
						return "set_c_" + f + " %s []", nil, true
					}
				}
			}
			t.refuse(lhs.Pos(), "*c.%s may only be truncated: *c.%s = (*c.%s)[:0]", f, f, f)
		}
		return "", nil, false
	}
	obj, sels, ok := t.chain(lhs)
	if !ok || obj != t.c || t.c == nil || len(sels) != 1 {
		return "", nil, false
	}
	switch sels[0] {
	case "route":
		if t.isNil(rhs) {
			return "set_c_route %s None", nil, true
		}
		if o2, s2, ok := t.chain(rhs); ok && eqs(s2, "route") {
			if v := t.vars[o2]; v != nil && v.kind == kNode {
				return "set_c_route %s (Some " + v.name + "_route)", v, true
			}
		}
		t.refuse(rhs.Pos(), "c.route may only be assigned n.route or nil, not %s", t.src(rhs))
	case "tsr":
		if s, ok := t.boolLit(rhs); ok {
			return "set_c_tsr %s " + s, nil, true
		}
		if id, ok := unparen(rhs).(*ast.Ident); ok {
			if v := t.vars[t.info.Uses[id]]; v != nil && v.kind == kBool {
				return "set_c_tsr %s " + v.name, nil, true
			}
		}
		t.refuse(rhs.Pos(), "c.tsr may only be assigned a boolean variable or literal, not %s", t.src(rhs))
	case "scope":
		if id, ok := unparen(rhs).(*ast.Ident); ok {
			if c, ok := t.info.Uses[id].(*types.Const); ok && c.Pkg() == t.pkg && scopes[c.Name()] {
				if n, ok := c.Type().(*types.Named); ok && n.Obj().Name() == "HandlerScope" {
					return "set_c_scope %s " + c.Name(), nil, true
				}
			}
		}
		t.refuse(rhs.Pos(), "c.scope may only be assigned one of the five HandlerScope constants, not %s", t.src(rhs))
	}
	return "", nil, false
}

const sepConst = ", "

func (t *tr) isSepString(e ast.Expr) bool {
	tv, ok := t.info.Types[unparen(e)]
	return ok && tv.Value != nil && tv.Value.Kind() == constant.String && constant.StringVal(tv.Value) == sepConst
}

// if sb.Len() > 0 { sb.WriteString(", ") }
func (t *tr) sepIdiom(s *ast.IfStmt) *vinfo {
	if s.Init != nil || s.Else != nil || len(s.Body.List) != 1 {
		return nil
	}
	sb := t.sbLenPositive(s.Cond)
	if sb == nil {
		return nil
	}
	es, ok := s.Body.List[0].(*ast.ExprStmt)
	if !ok {
		return nil
	}
	rx, name, args, ok := t.methodCall(es.X)
	if !ok || name != "WriteString" || t.sbOf(rx) != sb || len(args) != 1 || !t.isSepString(args[0]) {
		return nil
	}
	return sb
}

func (t *tr) checkNoPendingSep(pos token.Pos, fl flow, where string) {
	for v, st := range fl.sb {
		if st.sep {
			t.refuse(pos, "%s: a separator \", \" was written to %s and is not followed by an element (not the join pattern)", where, v.name)
		}
	}
}

func (t *tr) seq(stmts []ast.Stmt, fl flow, k cont) string {
	if len(stmts) == 0 {
		return k.fall(fl)
	}
	s, rest := stmts[0], stmts[1:]
	pan, _ := t.panicTerm(k.mode)
	next := func() string { return t.seq(rest, fl, k) }
	switch x := s.(type) {
	case *ast.EmptyStmt:
		return next()

	case *ast.DeclStmt:
		gd, ok := x.Decl.(*ast.GenDecl)
		if !ok || gd.Tok != token.VAR {
			t.refuse(s.Pos(), "declaration statement other than var")
		}
		out := ""
		for _, sp := range gd.Specs {
			vs := sp.(*ast.ValueSpec)
			if len(vs.Values) != 0 {
				t.refuse(vs.Pos(), "var with an initial value (write x := v)")
			}
			for _, id := range vs.Names {
				obj := t.info.Defs[id]
				switch ty := obj.Type().String(); {
				case ty == "bool":
					out += "let " + t.declare(obj, kBool).name + " := false in\n"
				case ty == "string":
					out += "let " + t.declare(obj, kStr).name + " := (@nil Ascii.ascii) in\n"
				case ty == "*"+t.pkg.Path()+".node":
					out += "let " + t.declare(obj, kNode).name + " := (@None R) in\n"
				case ty == "strings.Builder":
					v := t.declare(obj, kSB)
					fl.sb[v] = sbst{}
					out += "let " + v.name + " := (@nil bytes) in\n"
				default:
					t.refuse(id.Pos(), "var %s of type %s", id.Name, ty)
				}
			}
		}
		return out + next()

	case *ast.AssignStmt:
		return t.assign(x, rest, fl, k)

	case *ast.ExprStmt:
		// handler call; tree.ctx.Put(c); return | end of function
		if h, deref, ok := t.handlerCall(x.X); ok {
			t.needCtx(s.Pos(), fl, "handler call")
			if k.mode != mRes {
				t.refuse(s.Pos(), "handler call inside a loop")
			}
			if !fl.recorded {
				t.refuse(s.Pos(), "handler call before the route lookup")
			}
			t.checkNoPendingSep(s.Pos(), fl, "handler call")
			if len(rest) == 0 || !t.isPut(rest[0]) {
				t.refuse(s.Pos(), "the handler call must be followed directly by tree.ctx.Put(c)")
			}
			switch {
			case len(rest) == 1 && k.funcEnd:
			case len(rest) == 2 && isBareReturn(rest[1]):
			default:
				t.refuse(rest[0].Pos(), "tree.ctx.Put(c) after a handler call must be followed by `return` (or the end of ServeHTTP) and nothing else")
			}
			cv := t.vars[t.c]
			if deref != nil {
				return fmt.Sprintf("match %s with\n| Some %s_route => Done {| o_handler := HRoute %s_route; o_ctx := %s; o_allow := %s |}\n| None => %s\nend",
					deref.name, deref.name, deref.name, cv.name, t.allow.name, pan)
			}
			return fmt.Sprintf("Done {| o_handler := %s; o_ctx := %s; o_allow := %s |}", h, cv.name, t.allow.name)
		}
		if t.isPut(s) {
			t.refuse(s.Pos(), "tree.ctx.Put(c) that does not directly follow a handler call (the context would be released before / without the handler)")
		}
		rx, name, args, ok := t.methodCall(x.X)
		if !ok {
			break
		}
		// c.reset(w, r)
		if name == "reset" && t.isObj(rx, t.c) && t.c != nil {
			if fl.cst != 1 {
				t.refuse(s.Pos(), "c.reset must come exactly once, right after the context is taken from the pool")
			}
			if len(args) != 2 || !t.isObj(args[0], t.w) || !t.isObj(args[1], t.r) {
				t.refuse(s.Pos(), "c.reset must be called with (w, r)")
			}
			fl.cst = 2
			return "let " + t.bind(t.vars[t.c]) + " := gen_ctx_reset " + t.vars[t.c].name + " in\n" + next()
		}
		if sb := t.sbOf(rx); sb != nil {
			st := fl.sb[sb]
			switch name {
			case "Grow":
				if len(args) != 1 || !t.nonNegative(args[0]) {
					t.refuse(s.Pos(), "sb.Grow: the argument must be visibly non-negative (Grow panics otherwise)")
				}
				return next()
			case "WriteString":
				if len(args) != 1 {
					break
				}
				if t.isSepString(args[0]) {
					if st.sep {
						t.refuse(s.Pos(), "two separators in a row")
					}
					if !st.nonEmpty {
						t.refuse(s.Pos(), "unconditional separator where %s is not known to be non-empty (not the join pattern)", sb.name)
					}
					st.sep = true
					fl.sb[sb] = st
					return next()
				}
				el, ok := t.str(args[0])
				if !ok {
					t.refuse(args[0].Pos(), "sb.WriteString: the element must be tree.root[i].key or a string constant, not %s", t.src(args[0]))
				}
				if !st.sep {
					t.refuse(s.Pos(), "an element is written to %s without the separator logic `if sb.Len() > 0 { sb.WriteString(\", \") }` before it (not the join pattern)", sb.name)
				}
				st.sep, st.nonEmpty = false, true
				fl.sb[sb] = st
				n0 := sb.name
				return "let " + t.bind(sb) + " := " + n0 + " ++ [" + el + "] in\n" + next()
			}
		}
		// w.Header().Set(HeaderAllow, sb.String())
		if name == "Set" && len(args) == 2 {
			if hx, hn, ha, ok := t.methodCall(rx); ok && hn == "Header" && len(ha) == 0 && t.isObj(hx, t.w) {
				tv := t.info.Types[unparen(args[0])]
				if tv.Value == nil || tv.Value.Kind() != constant.String || constant.StringVal(tv.Value) != "Allow" {
					t.refuse(s.Pos(), "w.Header().Set: only the Allow header is modelled")
				}
				sx, sn, sa, ok := t.methodCall(args[1])
				var sb *vinfo
				if ok && sn == "String" && len(sa) == 0 {
					sb = t.sbOf(sx)
				}
				if sb == nil {
					t.refuse(s.Pos(), "w.Header().Set(HeaderAllow, ..): the value must be sb.String()")
				}
				t.checkNoPendingSep(s.Pos(), fl, "sb.String()")
				return "let " + t.bind(t.allow) + " := Some " + sb.name + " in\n" + next()
			}
		}

	case *ast.IfStmt:
		return t.ifStmt(x, rest, fl, k)

	case *ast.ForStmt:
		return t.forStmt(x, rest, fl, k)

	case *ast.ReturnStmt:
		t.refuse(s.Pos(), "return that does not follow `<handler>(c); tree.ctx.Put(c)`: every path of the model ends in a handler call")
	}
	t.refuse(s.Pos(), "statement outside the accepted shapes: %s", t.src(s))
	return ""
}

func cmt(s string) string {
	return strings.ReplaceAll(strings.ReplaceAll(s, "(*", "( *"), "*)", "* )")
}

func isBareReturn(s ast.Stmt) bool {
	r, ok := s.(*ast.ReturnStmt)
	return ok && len(r.Results) == 0
}

func (t *tr) assign(x *ast.AssignStmt, rest []ast.Stmt, fl flow, k cont) string {
	pan, _ := t.panicTerm(k.mode)
	next := func() string { return t.seq(rest, fl, k) }
	if x.Tok != token.ASSIGN && x.Tok != token.DEFINE {
		t.refuse(x.Pos(), "assignment operator %s", x.Tok)
	}
	// n, tsr = tree.lookup(..)
	if len(x.Lhs) == 2 && len(x.Rhs) == 1 {
		if out, ok := t.lookupAssign(x, &fl); ok {
			return out + next()
		}
		t.refuse(x.Pos(), "two-value assignment other than n, tsr = tree.lookup(..)")
	}
	if len(x.Lhs) != 1 || len(x.Rhs) != 1 {
		t.refuse(x.Pos(), "parallel assignment")
	}
	lhs, rhs := x.Lhs[0], x.Rhs[0]
	// c.field = .. / *c.params = (*c.params)[:0]
	if x.Tok == token.ASSIGN {
		if f, deref, ok := t.ctxAssign(lhs, rhs); ok {
			t.needCtx(x.Pos(), fl, "assignment to the context")
			cv := t.vars[t.c]
			old := cv.name
			line := "let " + t.bind(cv) + " := " + fmt.Sprintf(f, old) + " in\n"
			if deref != nil {
				return "match " + deref.name + " with\n| Some " + deref.name + "_route =>\n" + line + next() + "\n| None => " + pan + "\nend"
			}
			return line + next()
		}
	}
	id, ok := unparen(lhs).(*ast.Ident)
	if !ok {
		t.refuse(x.Pos(), "assignment outside the accepted shapes: %s", t.src(x))
	}
	var obj types.Object
	if x.Tok == token.DEFINE {
		obj = t.info.Defs[id]
		if obj == nil {
			t.refuse(x.Pos(), ":= that redeclares nothing new")
		}
	} else {
		obj = t.info.Uses[id]
	}
	// tree := fox.getRoot()
	if c, ok := unparen(rhs).(*ast.CallExpr); ok && len(c.Args) == 0 && t.isChain(c.Fun, t.recv, "getRoot") {
		if x.Tok != token.DEFINE || t.tree != nil || t.loopVar != nil {
			t.refuse(x.Pos(), "the root must be loaded exactly once: tree := fox.getRoot()")
		}
		t.tree = obj
		return "(* " + cmt(t.src(x)) + " : one snapshot of the routing tree for the whole request: roots, lookup_at *)\n" + next()
	}
	// c := tree.ctx.Get().(*cTx)
	if ta, ok := unparen(rhs).(*ast.TypeAssertExpr); ok {
		rx, name, args, okc := t.methodCall(ta.X)
		if okc && name == "Get" && len(args) == 0 && t.isChain(rx, t.tree, "ctx") && t.tree != nil &&
			t.info.Types[ta.Type].Type.String() == "*"+t.pkg.Path()+".cTx" {
			if x.Tok != token.DEFINE || t.c != nil || fl.cst != 0 || t.loopVar != nil {
				t.refuse(x.Pos(), "the context must be taken from the pool exactly once")
			}
			t.c = obj
			fl.cst = 1
			return "let " + t.declare(obj, kCtx).name + " := c0 in\n" + next()
		}
		t.refuse(x.Pos(), "type assertion other than tree.ctx.Get().(*cTx)")
	}
	// string and bool locals
	var v *vinfo
	if x.Tok == token.ASSIGN {
		v = t.vars[obj]
		if v == nil {
			t.refuse(x.Pos(), "assignment to %s, which is not a local variable of the accepted kinds", id.Name)
		}
	}
	kindOf := func() vkind {
		if v != nil {
			return v.kind
		}
		switch obj.Type().String() {
		case "string":
			return kStr
		case "bool":
			return kBool
		}
		t.refuse(x.Pos(), "local variable %s of type %s", id.Name, obj.Type())
		return 0
	}
	switch kindOf() {
	case kStr:
		if obj == t.pathObj {
			t.refuse(x.Pos(), "%s is assigned after it was passed to tree.lookup: every lookup of one request must see the same path", id.Name)
		}
		val, ok := t.str(rhs)
		if !ok {
			t.refuse(rhs.Pos(), "string expression outside the accepted shapes: %s", t.src(rhs))
		}
		if v == nil {
			return "let " + t.declare(obj, kStr).name + " := " + val + " in\n" + next()
		}
		return "let " + t.bind(v) + " := " + val + " in\n" + next()
	case kBool:
		val, ok := t.boolLit(rhs)
		if !ok {
			t.refuse(rhs.Pos(), "a boolean local may only be assigned true or false, not %s", t.src(rhs))
		}
		if v == nil {
			return "let " + t.declare(obj, kBool).name + " := " + val + " in\n" + next()
		}
		return "let " + t.bind(v) + " := " + val + " in\n" + next()
	}
	t.refuse(x.Pos(), "assignment outside the accepted shapes: %s", t.src(x))
	return ""
}

// n, tsr = tree.lookup(..)   /   n, tsr := tree.lookup(..)
func (t *tr) lookupAssign(x *ast.AssignStmt, fl *flow) (string, bool) {
	term, lazy, ok := t.lookupCall(x.Rhs[0], fl)
	if !ok {
		return "", false
	}
	out := ""
	if !lazy {
		cv := t.vars[t.c]
		old := cv.name
		out = "let " + t.bind(cv) + " := ctx_record " + old + " rec_params rec_tsr_params in\n"
		fl.recorded = true
	}
	var names [2]string
	for i, l := range x.Lhs {
		id, ok := unparen(l).(*ast.Ident)
		if !ok {
			t.refuse(l.Pos(), "tree.lookup must be assigned to two variables")
		}
		want := []vkind{kNode, kBool}[i]
		if obj := t.info.Defs[id]; x.Tok == token.DEFINE && obj != nil {
			names[i] = t.declare(obj, want).name
		} else if v := t.vars[t.info.Uses[id]]; v != nil && v.kind == want {
			names[i] = t.bind(v)
		} else {
			t.refuse(l.Pos(), "tree.lookup must be assigned to a *node and a bool local")
		}
	}
	return out + "let '(" + names[0] + ", " + names[1] + ") := lookup_pair (" + term + ") in\n", true
}

func binders(vs []*vinfo) (params, args string) {
	for _, v := range vs {
		params += " (" + v.name + " : " + v.kind.coq() + ")"
		args += " " + v.name
	}
	return
}

func (t *tr) meet(pos token.Pos, fs []flow) flow {
	out := fs[0].clone()
	for _, f := range fs[1:] {
		if f.cst != out.cst || f.recorded != out.recorded {
			t.refuse(pos, "control-flow paths join with the context / the lookup in different states")
		}
		for v, st := range out.sb {
			st2, ok := f.sb[v]
			if !ok {
				delete(out.sb, v)
				continue
			}
			if st.sep != st2.sep {
				t.refuse(pos, "control-flow paths join with and without a pending separator on %s (not the join pattern)", v.name)
			}
			st.nonEmpty = st.nonEmpty && st2.nonEmpty
			out.sb[v] = st
		}
	}
	return out
}

func (t *tr) ifStmt(s *ast.IfStmt, rest []ast.Stmt, fl flow, k cont) string {
	// the separator half of the join pattern
	if sb := t.sepIdiom(s); sb != nil {
		st := fl.sb[sb]
		if st.sep {
			t.refuse(s.Pos(), "two separators in a row")
		}
		st.sep = true
		fl.sb[sb] = st
		return t.seq(rest, fl, k)
	}
	w0, nv0 := len(t.writes), t.nvar
	prefix := ""
	if s.Init != nil {
		as, ok := s.Init.(*ast.AssignStmt)
		if !ok || as.Tok != token.DEFINE || len(as.Lhs) != 2 || len(as.Rhs) != 1 {
			t.refuse(s.Init.Pos(), "if-initialiser other than n, tsr := tree.lookup(..)")
		}
		p, ok := t.lookupAssign(as, &fl)
		if !ok {
			t.refuse(s.Init.Pos(), "if-initialiser other than n, tsr := tree.lookup(..)")
		}
		prefix = p // the variables of the initialiser are declared after nv0: local to the if
	}
	c := t.cond(s.Cond)
	thenFl := fl.clone()
	if sb := t.sbLenPositive(s.Cond); sb != nil {
		st := thenFl.sb[sb]
		st.nonEmpty = true
		thenFl.sb[sb] = st
	}
	t.njoin++
	jn := fmt.Sprintf("join%d", t.njoin)
	ph := "\x00" + jn + "\x00"
	var falls []flow
	kk := k
	if len(rest) > 0 {
		kk = cont{mode: k.mode, funcEnd: false, fall: func(f flow) string { falls = append(falls, f.clone()); return ph }}
	}
	thenStr := t.seq(s.Body.List, thenFl, kk)
	var elseStr string
	switch e := s.Else.(type) {
	case nil:
		elseStr = kk.fall(fl.clone())
	case *ast.BlockStmt:
		elseStr = t.seq(e.List, fl.clone(), kk)
	case *ast.IfStmt:
		elseStr = t.seq([]ast.Stmt{e}, fl.clone(), kk)
	default:
		t.refuse(s.Else.Pos(), "else branch of an unknown shape")
	}
	term := prefix + ifName(k.mode) + " (" + c + ")\n(" + thenStr + ")\n(" + elseStr + ")"
	if len(rest) == 0 {
		return term
	}
	switch len(falls) {
	case 0:
		t.refuse(rest[0].Pos(), "unreachable statement")
		return ""
	case 1:
		return strings.Replace(term, ph, t.seq(rest, falls[0], k), 1)
	}
	jfl := t.meet(s.Pos(), falls)
	vs := t.writtenSince(w0, nv0)
	restStr := t.seq(rest, jfl, k)
	params, args := binders(vs)
	if len(vs) == 0 {
		return "let " + jn + " :=\n" + restStr + " in\n" + strings.ReplaceAll(term, ph, jn)
	}
	return "let " + jn + " := fun" + params + " =>\n" + restStr + " in\n" + strings.ReplaceAll(term, ph, jn+args)
}

// for i := 0; i < len(tree.root); i++ { .. }
func (t *tr) forStmt(s *ast.ForStmt, rest []ast.Stmt, fl flow, k cont) string {
	if t.loopVar != nil {
		t.refuse(s.Pos(), "nested loop")
	}
	if t.tree == nil {
		t.refuse(s.Pos(), "loop before tree := fox.getRoot()")
	}
	ini, ok := s.Init.(*ast.AssignStmt)
	if !ok || ini.Tok != token.DEFINE || len(ini.Lhs) != 1 || len(ini.Rhs) != 1 {
		t.refuse(s.Pos(), "loop header: only `for i := 0; i < len(tree.root); i++`")
	}
	iid, ok := ini.Lhs[0].(*ast.Ident)
	if z, okz := t.intConst(ini.Rhs[0]); !ok || !okz || z != 0 {
		t.refuse(s.Pos(), "loop header: only `for i := 0; i < len(tree.root); i++`")
	}
	iobj := t.info.Defs[iid]
	cnd, ok := s.Cond.(*ast.BinaryExpr)
	if !ok || cnd.Op != token.LSS || !t.isObj(cnd.X, iobj) {
		t.refuse(s.Pos(), "loop header: only `for i := 0; i < len(tree.root); i++`")
	}
	if lc, ok := t.builtinCall(cnd.Y, "len"); !ok || len(lc.Args) != 1 || !t.isChain(lc.Args[0], t.tree, "root") {
		t.refuse(s.Pos(), "loop header: only `for i := 0; i < len(tree.root); i++`")
	}
	if inc, ok := s.Post.(*ast.IncDecStmt); !ok || inc.Tok != token.INC || !t.isObj(inc.X, iobj) {
		t.refuse(s.Pos(), "loop header: only `for i := 0; i < len(tree.root); i++`")
	}
	t.checkNoPendingSep(s.Pos(), fl, "loop entry")
	t.loopVar = iobj
	t.rtName = t.fresh("rt")
	w0, nv0 := len(t.writes), t.nvar
	ph := "\x00loop\x00"
	var falls []flow
	body := t.seq(s.Body.List, fl.clone(), cont{mode: mLoop, fall: func(f flow) string { falls = append(falls, f.clone()); return ph }})
	rt := t.rtName
	t.loopVar, t.rtName = nil, ""
	vs := t.writtenSince(w0, nv0)
	if len(vs) == 0 || len(falls) == 0 {
		t.refuse(s.Pos(), "loop without effect on the modelled state")
	}
	for _, f := range falls {
		t.checkNoPendingSep(s.Pos(), f, "end of the loop body")
		if f.cst != fl.cst || f.recorded != fl.recorded {
			t.refuse(s.Pos(), "the loop body changes the state of the context / lookup")
		}
	}
	tuple, ty := vs[0].name, vs[0].kind.coq()
	for _, v := range vs[1:] {
		tuple += ", " + v.name
		ty += " * " + v.kind.coq()
	}
	pat := tuple
	if len(vs) > 1 {
		tuple = "(" + tuple + ")"
		pat = "'" + tuple
	}
	body = strings.ReplaceAll(body, ph, "Val "+tuple)
	pan, fuel := t.panicTerm(k.mode)
	// after the loop: the facts of the entry (sb only grows: what was known non-empty still is)
	restStr := t.seq(rest, fl, k)
	return fmt.Sprintf("(* %s *)\nmatch loop_roots (S := (%s)%%type) (fun %s %s =>\n%s) roots %s with\n| Val %s =>\n%s\n| Pan => %s\n| Fuel => %s\nend",
		cmt(t.src(s)), ty, pat, rt, body, tuple, tuple, restStr, pan, fuel)
}

// ------------------------------------------------------------------ (*cTx).reset

var resetIgnored = map[string]string{
	"req": "the request", "w": "the response writer", "cachedQuery": "the parsed query cache", "rec": "the response recorder",
}

func (t *tr) resetBody(fd *ast.FuncDecl) string {
	out := ""
	for _, s := range fd.Body.List {
		switch x := s.(type) {
		case *ast.ExprStmt:
			rx, name, args, ok := t.methodCall(x.X)
			if ok && name == "reset" && t.isChain(rx, t.c, "rec") && len(args) == 1 {
				out += "(* " + cmt(t.src(s)) + " : response recorder, not part of the model *)\n"
				continue
			}
		case *ast.AssignStmt:
			if x.Tok == token.ASSIGN && len(x.Lhs) == 1 && len(x.Rhs) == 1 {
				if f, deref, ok := t.ctxAssign(x.Lhs[0], x.Rhs[0]); ok && deref == nil {
					out += "let c := " + fmt.Sprintf(f, "c") + " in\n"
					continue
				}
				if obj, sels, ok := t.chain(x.Lhs[0]); ok && obj == t.c && len(sels) == 1 && resetIgnored[sels[0]] != "" && t.pureResetRhs(x.Rhs[0]) {
					out += "(* " + cmt(t.src(s)) + " : " + resetIgnored[sels[0]] + ", not part of the model *)\n"
					continue
				}
			}
		}
		t.refuse(s.Pos(), "(*cTx).reset: statement outside the accepted shapes: %s", t.src(s))
	}
	return out + "c"
}

func (t *tr) pureResetRhs(e ast.Expr) bool {
	e = unparen(e)
	if t.isNil(e) {
		return true
	}
	if _, ok := e.(*ast.Ident); ok {
		return true
	}
	if u, ok := e.(*ast.UnaryExpr); ok && u.Op == token.AND {
		_, _, ok := t.chain(u.X)
		return ok
	}
	return false
}

// ------------------------------------------------------------------ driver

func indent(s string) string {
	var b strings.Builder
	depth := 0
	for _, line := range strings.Split(s, "\n") {
		line = strings.TrimSpace(line)
		if line == "" {
			continue
		}
		d := depth
		if strings.HasPrefix(line, ")") || strings.HasPrefix(line, "end") {
			d--
		}
		if d < 0 {
			d = 0
		}
		if d > 30 {
			d = 30
		}
		b.WriteString(strings.Repeat("  ", d+2))
		b.WriteString(line)
		b.WriteByte('\n')
		inComment := false
		for i := 0; i < len(line); i++ {
			switch {
			case strings.HasPrefix(line[i:], "(*"):
				inComment = true
			case strings.HasPrefix(line[i:], "*)"):
				inComment = false
			case inComment:
			case line[i] == '(':
				depth++
			case line[i] == ')':
				depth--
			case strings.HasPrefix(line[i:], "match ") && (i == 0 || line[i-1] == ' ' || line[i-1] == '('):
				depth++
			case strings.HasPrefix(line[i:], "end") && (i == 0 || line[i-1] == ' ') && (i+3 == len(line) || line[i+3] == ')' || line[i+3] == ' '):
				depth--
			}
		}
	}
	return b.String()
}

func funcText(fset *token.FileSet, fd *ast.FuncDecl) (file string, l0, l1 int, sum string) {
	p0, p1 := fset.Position(fd.Pos()), fset.Position(fd.End())
	b, _ := os.ReadFile(p0.Filename)
	if p1.Offset <= len(b) {
		sum = fmt.Sprintf("%x", sha256.Sum256(b[p0.Offset:p1.Offset]))
	}
	return shortName(p0.Filename), p0.Line, p1.Line, sum
}

func recvName(fd *ast.FuncDecl) string {
	if fd.Recv == nil || len(fd.Recv.List) != 1 {
		return ""
	}
	ty := fd.Recv.List[0].Type
	if st, ok := ty.(*ast.StarExpr); ok {
		ty = st.X
	}
	if id, ok := ty.(*ast.Ident); ok {
		return id.Name
	}
	return ""
}

func stub(out, msg string) {
	msg = strings.ReplaceAll(msg, "*)", "* )")
	msg = strings.ReplaceAll(msg, "(*", "( *")
	body := "(* GENERATED by harness/cmd/dispgen -- DO NOT EDIT. *)\n(* REFUSED: " + msg + " *)\n"
	if out != "" {
		if err := os.WriteFile(out, []byte(body), 0o644); err != nil {
			fmt.Fprintln(os.Stderr, "dispgen:", err)
		}
	}
	fmt.Fprintln(os.Stderr, "dispgen: REFUSED: "+msg)
	os.Exit(1)
}

func main() {
	repo, out := os.Getenv("VERIF_REPO"), ""
	for _, a := range os.Args[1:] {
		switch {
		case strings.HasPrefix(a, "repo="):
			repo = a[5:]
		case strings.HasPrefix(a, "out="):
			out = a[4:]
		}
	}
	if repo == "" {
		repo = "/repo"
	}
	fset := token.NewFileSet()
	pkgs, err := parser.ParseDir(fset, repo, func(fi os.FileInfo) bool {
		n := fi.Name()
		return !strings.HasSuffix(n, "_test.go") && !strings.HasPrefix(n, "verif_")
	}, parser.ParseComments)
	if err != nil {
		stub(out, "package fox does not parse: "+err.Error())
	}
	p := pkgs["fox"]
	if p == nil {
		stub(out, "package fox not found in "+repo)
	}
	var names []string
	for n := range p.Files {
		names = append(names, n)
	}
	sort.Strings(names)
	var files []*ast.File
	for _, n := range names {
		files = append(files, p.Files[n])
	}
	if err := os.Chdir(repo); err != nil {
		stub(out, err.Error())
	}
	var terr []string
	conf := types.Config{Importer: importer.ForCompiler(fset, "source", nil), Error: func(err error) { terr = append(terr, err.Error()) }}
	info := &types.Info{Uses: map[*ast.Ident]types.Object{}, Defs: map[*ast.Ident]types.Object{},
		Selections: map[*ast.SelectorExpr]*types.Selection{}, Types: map[ast.Expr]types.TypeAndValue{}}
	pkg, _ := conf.Check("github.com/tigerwill90/fox", fset, files, info)
	if len(terr) > 0 {
		stub(out, "package fox does not type-check: "+terr[0])
	}

	var serve, reset *ast.FuncDecl
	for _, f := range files {
		for _, d := range f.Decls {
			fd, ok := d.(*ast.FuncDecl)
			if !ok || fd.Body == nil {
				continue
			}
			switch {
			case fd.Name.Name == "ServeHTTP" && recvName(fd) == "Router":
				serve = fd
			case fd.Name.Name == "reset" && recvName(fd) == "cTx":
				reset = fd
			}
		}
	}
	if serve == nil || reset == nil {
		stub(out, "(*Router).ServeHTTP or (*cTx).reset not found")
	}

	var genReset, genServe string
	nlook, njoin := 0, 0
	func() {
		defer func() {
			if r := recover(); r != nil {
				if m, ok := r.(refusal); ok {
					stub(out, string(m))
				}
				panic(r)
			}
		}()
		newTr := func() *tr {
			t := &tr{fset: fset, info: info, pkg: pkg, vars: map[types.Object]*vinfo{}, used: map[string]bool{}}
			t.allow = &vinfo{name: "allow", kind: kAllow, seq: 0}
			return t
		}
		// (*cTx).reset
		t := newTr()
		if len(reset.Recv.List[0].Names) != 1 {
			t.refuse(reset.Pos(), "(*cTx).reset: unnamed receiver")
		}
		t.c = info.Defs[reset.Recv.List[0].Names[0]]
		genReset = t.resetBody(reset)

		// (*Router).ServeHTTP
		t = newTr()
		sig := info.Defs[serve.Name].Type().(*types.Signature)
		if len(serve.Recv.List[0].Names) != 1 || sig.Params().Len() != 2 || sig.Results().Len() != 0 ||
			sig.Params().At(0).Type().String() != "net/http.ResponseWriter" || sig.Params().At(1).Type().String() != "*net/http.Request" {
			t.refuse(serve.Pos(), "ServeHTTP: unexpected signature")
		}
		t.recv = info.Defs[serve.Recv.List[0].Names[0]]
		t.w, t.r = sig.Params().At(0), sig.Params().At(1)
		for _, o := range []types.Object{t.recv, t.w, t.r} {
			if o.Name() == "_" || o.Name() == "" {
				t.refuse(serve.Pos(), "ServeHTTP: unnamed parameter")
			}
		}
		// w, r and fox are never assigned: the whitelist has no shape for it
		fl := flow{sb: map[*vinfo]sbst{}}
		genServe = "let allow := (@None (list bytes)) in\n" + t.seq(serve.Body.List, fl, cont{mode: mRes, funcEnd: true,
			fall: func(flow) string {
				t.refuse(serve.End(), "control reaches the end of ServeHTTP without `<handler>(c); tree.ctx.Put(c)`")
				return ""
			}})
		if t.nlookups == 0 {
			t.refuse(serve.Pos(), "no route lookup")
		}
		nlook, njoin = t.nlookups, t.njoin
	}()

	var b strings.Builder
	f1, a1, b1, s1 := funcText(fset, reset)
	f2, a2, b2, s2 := funcText(fset, serve)
	b.WriteString("(* GENERATED by harness/cmd/dispgen from the Go sources under test -- DO NOT EDIT.\n")
	b.WriteString("   Statement-by-statement translation of Router.ServeHTTP and cTx.reset; the primitives are\n")
	b.WriteString("   defined in ServeSem.v, the types and the Section parameters are those of Dispatch.v.\n")
	b.WriteString("   BridgeServe.v proves gen_serve_http = Dispatch.serve_http for all arguments. *)\n")
	b.WriteString("From FoxBase Require Import Bytes.\nFrom FoxDispatch Require Import Dispatch ServeSem.\nOpen Scope char_scope.\n\n")
	b.WriteString("Section GenServe.\n  Context {R : Type}.\n  Variable ignoreTS redirectTS : R -> bool.\n  Variable cleanfn : bytes -> cres.\n")
	b.WriteString("  Variable opts : options.\n  Variable roots : list root.\n\n")
	fmt.Fprintf(&b, "  (* cTx.reset  %s:%d-%d  sha256 %s *)\n", f1, a1, b1, s1)
	b.WriteString("  Definition gen_ctx_reset (c : ctx R) : ctx R :=\n" + indent(genReset))
	b.WriteString("  .\n\n")
	b.WriteString("  (* lookup_at path m = tree.lookup(m, r.Host, path, c, _): the path argument is kept so that\n")
	b.WriteString("     BridgeServe.gen_lookup_path can PROVE that every call passes the request path *)\n")
	b.WriteString("  Section At.\n  Variable lookup_at : bytes -> bytes -> option (R * bool).\n\n")
	fmt.Fprintf(&b, "  (* Router.ServeHTTP  %s:%d-%d  sha256 %s *)\n", f2, a2, b2, s2)
	b.WriteString("  Definition gen_serve_http_at (rq : request) (c0 : ctx R) (rec_params rec_tsr_params : list param) : result R :=\n")
	b.WriteString(indent(genServe))
	b.WriteString("  .\n  End At.\n\n")
	b.WriteString("  Variable lookup : bytes -> option (R * bool).\n")
	b.WriteString("  Definition gen_serve_http := gen_serve_http_at (fun _ m => lookup m).\nEnd GenServe.\n")
	if out == "" {
		fmt.Print(b.String())
		return
	}
	if err := os.WriteFile(out, []byte(b.String()), 0o644); err != nil {
		fmt.Fprintln(os.Stderr, "dispgen:", err)
		os.Exit(2)
	}
	fmt.Printf("dispgen: %s:%d-%d ServeHTTP, %s:%d-%d reset -> %s (%d lookups, %d join points)\n", f2, a2, b2, f1, a1, b1, out, nlook, njoin)
}
