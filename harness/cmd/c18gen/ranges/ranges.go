// Package ranges extracts the default CIDR tables of fox's clientip package
// from the source text (go/ast), refusing any shape it does not recognise.
// It is used by c18gen (tie A: coq/C18/GenRanges.v) and by the c18 harness
// (boundary addresses of every table entry).
package ranges

import (
	"bytes"
	"fmt"
	"go/ast"
	"go/parser"
	"go/printer"
	"go/token"
	"math/big"
	"net"
	"path/filepath"
	"strconv"
	"strings"
)

// Range is one table entry: family (4 or 6), network address, prefix length.
type Range struct {
	Src  string // the literal as written, e.g. "10.0.0.0/8"
	Fam  int
	Addr *big.Int
	Len  int
}

// Bits is the address width of the family.
func (r Range) Bits() int {
	if r.Fam == 4 {
		return 32
	}
	return 128
}

// Names of the tables, in the order they are emitted.
var Names = []string{"privateAndLocalRanges", "privateRange", "loopbackRanges", "linkLocalRanges"}

const wantMustParseCIDR = `func mustParseCIDR(s string) net.IPNet {
	_, ipNet, err := net.ParseCIDR(s)
	if err != nil {
		panic(err)
	}
	return *ipNet
}`

const wantContained = `func isIPContainedInRanges(ip net.IP, ranges []net.IPNet) bool {
	for _, r := range ranges {
		if r.Contains(ip) {
			return true
		}
	}
	return false
}`

func src(fset *token.FileSet, n ast.Node) string {
	var b bytes.Buffer
	_ = printer.Fprint(&b, fset, n)
	return b.String()
}

func isIPNetSlice(e ast.Expr) bool {
	at, ok := e.(*ast.ArrayType)
	if !ok || at.Len != nil {
		return false
	}
	se, ok := at.Elt.(*ast.SelectorExpr)
	if !ok {
		return false
	}
	x, ok := se.X.(*ast.Ident)
	return ok && x.Name == "net" && se.Sel.Name == "IPNet"
}

// Consts are the numeric constants of the entry parser extracted from the source.
type Consts struct {
	ForwardedMaxParts int // the N of iterutil.Take(iterutil.SplitStringSeq(fwd, ";"), N) in parseForwardedListItem
}

const wantForLoop = `iterutil.Take(iterutil.SplitStringSeq(fwd, ";"), %s)`

// forwardedLoop finds the single `for fp := range iterutil.Take(iterutil.SplitStringSeq(fwd, ";"), <int literal>)`
// statement of parseForwardedListItem; any other way of enumerating the parameters is refused.
func forwardedLoop(fset *token.FileSet, path string, d *ast.FuncDecl) (int, error) {
	n, found := 0, 0
	var bad error
	ast.Inspect(d.Body, func(x ast.Node) bool {
		switch st := x.(type) {
		case *ast.RangeStmt:
			found++
			call, ok := st.X.(*ast.CallExpr)
			if !ok || len(call.Args) != 2 {
				bad = fmt.Errorf("%s: parseForwardedListItem ranges over %s, not over "+wantForLoop, path, src(fset, st.X), "<n>")
				return false
			}
			lit, ok := call.Args[1].(*ast.BasicLit)
			if !ok || lit.Kind != token.INT || src(fset, st.X) != fmt.Sprintf(wantForLoop, lit.Value) {
				bad = fmt.Errorf("%s: parseForwardedListItem ranges over %s, not over "+wantForLoop, path, src(fset, st.X), "<n>")
				return false
			}
			v, err := strconv.Atoi(lit.Value)
			if err != nil || v < 1 || v > 64 {
				bad = fmt.Errorf("%s: parseForwardedListItem: unusable part limit %s", path, lit.Value)
				return false
			}
			n = v
		case *ast.ForStmt:
			found += 2 // a classic for loop is a shape we do not know
		}
		return true
	})
	if bad != nil {
		return 0, bad
	}
	if found != 1 {
		return 0, fmt.Errorf("%s: parseForwardedListItem: expected exactly one range loop over the parameters, found another loop structure", path)
	}
	return n, nil
}

// Load parses <repo>/clientip/clientip.go and returns the tables only (the pinned function
// bodies are not examined: the harness must run on trees where they changed).
func Load(repo string) (map[string][]Range, error) {
	return load(repo, nil)
}

// LoadAll parses <repo>/clientip/clientip.go.
func LoadAll(repo string) (map[string][]Range, Consts, error) {
	var consts Consts
	t, err := load(repo, &consts)
	return t, consts, err
}

func load(repo string, consts *Consts) (map[string][]Range, error) {
	path := filepath.Join(repo, "clientip", "clientip.go")
	fset := token.NewFileSet()
	f, err := parser.ParseFile(fset, path, nil, parser.SkipObjectResolution)
	if err != nil {
		return nil, err
	}
	tables := map[string][]Range{}
	seenFn := map[string]bool{}
	for _, d := range f.Decls {
		switch d := d.(type) {
		case *ast.FuncDecl:
			if d.Recv != nil {
				continue
			}
			switch d.Name.Name {
			case "mustParseCIDR":
				if consts == nil {
					seenFn[d.Name.Name] = true
					continue
				}
				d.Doc = nil
				if got := src(fset, d); got != wantMustParseCIDR {
					return nil, fmt.Errorf("%s: mustParseCIDR has an unrecognised body:\n%s", path, got)
				}
				seenFn[d.Name.Name] = true
			case "parseForwardedListItem":
				if consts == nil {
					seenFn[d.Name.Name] = true
					continue
				}
				n, err := forwardedLoop(fset, path, d)
				if err != nil {
					return nil, err
				}
				consts.ForwardedMaxParts = n
				seenFn[d.Name.Name] = true
			case "isIPContainedInRanges":
				if consts == nil {
					seenFn[d.Name.Name] = true
					continue
				}
				d.Doc = nil
				if got := src(fset, d); got != wantContained {
					return nil, fmt.Errorf("%s: isIPContainedInRanges has an unrecognised body:\n%s", path, got)
				}
				seenFn[d.Name.Name] = true
			}
		case *ast.GenDecl:
			if d.Tok != token.VAR {
				continue
			}
			for _, sp := range d.Specs {
				vs := sp.(*ast.ValueSpec)
				for i, v := range vs.Values {
					cl, ok := v.(*ast.CompositeLit)
					if !ok || !isIPNetSlice(cl.Type) {
						// any other mention of net.IPNet in a package-level initialiser is a shape we do not know
						if strings.Contains(src(fset, v), "net.IPNet") {
							return nil, fmt.Errorf("%s: package-level initialiser mentioning net.IPNet of unknown shape: %s", path, src(fset, v))
						}
						continue
					}
					if len(vs.Names) != len(vs.Values) {
						return nil, fmt.Errorf("%s: multi-value var spec", path)
					}
					name := vs.Names[i].Name
					known := false
					for _, n := range Names {
						known = known || n == name
					}
					if !known {
						return nil, fmt.Errorf("%s: unexpected []net.IPNet table %q", path, name)
					}
					if _, dup := tables[name]; dup {
						return nil, fmt.Errorf("%s: table %q declared twice", path, name)
					}
					rs := []Range{}
					for _, el := range cl.Elts {
						call, ok := el.(*ast.CallExpr)
						if !ok || len(call.Args) != 1 {
							return nil, fmt.Errorf("%s: %s: element is not mustParseCIDR(\"...\"): %s", path, name, src(fset, el))
						}
						fn, ok := call.Fun.(*ast.Ident)
						lit, ok2 := call.Args[0].(*ast.BasicLit)
						if !ok || !ok2 || fn.Name != "mustParseCIDR" || lit.Kind != token.STRING {
							return nil, fmt.Errorf("%s: %s: element is not mustParseCIDR(\"...\"): %s", path, name, src(fset, el))
						}
						s, err := strconv.Unquote(lit.Value)
						if err != nil {
							return nil, fmt.Errorf("%s: %s: %v", path, name, err)
						}
						r, err := parseCIDR(s)
						if err != nil {
							return nil, fmt.Errorf("%s: %s: %v", path, name, err)
						}
						rs = append(rs, r)
					}
					tables[name] = rs
				}
			}
		}
	}
	for _, n := range Names {
		if _, ok := tables[n]; !ok {
			return nil, fmt.Errorf("%s: table %q not found", path, n)
		}
	}
	for _, n := range []string{"mustParseCIDR", "isIPContainedInRanges", "parseForwardedListItem"} {
		if !seenFn[n] {
			return nil, fmt.Errorf("%s: func %s not found", path, n)
		}
	}
	return tables, nil
}

// parseCIDR uses the same stdlib function as the code and projects the
// resulting net.IPNet (what IPNet.Contains compares against).
func parseCIDR(s string) (Range, error) {
	_, n, err := net.ParseCIDR(s)
	if err != nil {
		return Range{}, err
	}
	r, err := FromIPNet(*n)
	r.Src = s
	return r, err
}

// FromIPNet projects a net.IPNet to (family, network number, prefix length) the
// way IPNet.Contains reads it (net.networkNumberAndMask): an IPv4 or
// IPv4-mapped network number is taken as 4 bytes, and a 16-byte mask over it
// loses its first 12 bytes.  Non-canonical masks are refused.
func FromIPNet(n net.IPNet) (Range, error) {
	ones, bits := n.Mask.Size()
	if bits == 0 || (len(n.IP) != net.IPv4len && len(n.IP) != net.IPv6len) {
		return Range{}, fmt.Errorf("%v: non-canonical mask or address length", n)
	}
	ip := n.IP
	fam := 6
	if v4 := ip.To4(); v4 != nil {
		ip, fam = v4, 4
	}
	switch {
	case bits == 32 && fam == 6:
		return Range{}, fmt.Errorf("%v: 4-byte mask on a 16-byte address", n)
	case bits == 128 && fam == 4:
		ones = max(0, ones-96)
	}
	masked := ip.Mask(net.CIDRMask(ones, len(ip)*8))
	if masked == nil {
		return Range{}, fmt.Errorf("%v: cannot mask", n)
	}
	return Range{Src: n.String(), Fam: fam, Addr: new(big.Int).SetBytes(masked), Len: ones}, nil
}
