// c20gen (tie A for C20): translates the Go function `level` of <repo>/logger.go
// into a Coq function in coq/C20/GenFuns.v.
//
// Accepted Go subset (anything else => exit 1, "broken tie"):
//
//	func level(<id> int) slog.Level {
//	    switch {
//	    case <bexpr>: return slog.Level<X>
//	    ...
//	    default: return slog.Level<X>
//	    }
//	}
//
// where <bexpr> ::= <bexpr> && <bexpr> | <bexpr> || <bexpr> | (<bexpr>) | !<bexpr>
//
//	| <aexpr> (<|<=|>|>=|==|!=) <aexpr>
//
// and   <aexpr> ::= <id> | integer literal | http.Status<Name> (resolved from net/http).
//
// The case clauses are translated in source order into nested `if`s (a tagless Go
// switch evaluates its cases top to bottom, first true wins); the default clause,
// wherever it stands in the source, becomes the final else.
//
// usage: c20gen repo=<fox tree> out=<GenFuns.v>
package main

import (
	"bytes"
	"fmt"
	"go/ast"
	"go/parser"
	"go/token"
	"net/http"
	"os"
	"path/filepath"
	"strconv"
	"strings"
)

func die(format string, a ...any) {
	fmt.Fprintf(os.Stderr, "c20gen: "+format+"\n", a...)
	os.Exit(1)
}

var levels = map[string]string{"LevelDebug": "LevelDebug", "LevelInfo": "LevelInfo", "LevelWarn": "LevelWarn", "LevelError": "LevelError"}

// a few net/http status names a maintainer might use instead of literals
var httpStatus = map[string]int{
	"StatusContinue": http.StatusContinue, "StatusSwitchingProtocols": http.StatusSwitchingProtocols,
	"StatusOK": http.StatusOK, "StatusMultipleChoices": http.StatusMultipleChoices,
	"StatusBadRequest": http.StatusBadRequest, "StatusInternalServerError": http.StatusInternalServerError,
}

func aexpr(e ast.Expr, param string) string {
	switch x := e.(type) {
	case *ast.ParenExpr:
		return aexpr(x.X, param)
	case *ast.Ident:
		if x.Name == param {
			return param
		}
	case *ast.BasicLit:
		if x.Kind == token.INT {
			v, err := strconv.ParseInt(x.Value, 0, 64)
			if err == nil && v >= 0 {
				return strconv.FormatInt(v, 10)
			}
		}
	case *ast.SelectorExpr:
		if p, ok := x.X.(*ast.Ident); ok && p.Name == "http" {
			if v, ok := httpStatus[x.Sel.Name]; ok {
				return strconv.Itoa(v)
			}
		}
	}
	die("unsupported arithmetic expression %T in level()", e)
	return ""
}

func bexpr(e ast.Expr, param string) string {
	switch x := e.(type) {
	case *ast.ParenExpr:
		return bexpr(x.X, param)
	case *ast.UnaryExpr:
		if x.Op == token.NOT {
			return "(negb " + bexpr(x.X, param) + ")"
		}
	case *ast.BinaryExpr:
		switch x.Op {
		case token.LAND:
			return "(" + bexpr(x.X, param) + " && " + bexpr(x.Y, param) + ")"
		case token.LOR:
			return "(" + bexpr(x.X, param) + " || " + bexpr(x.Y, param) + ")"
		case token.LSS, token.LEQ, token.GTR, token.GEQ, token.EQL, token.NEQ:
			a, b := aexpr(x.X, param), aexpr(x.Y, param)
			switch x.Op {
			case token.LSS:
				return "(" + a + " <? " + b + ")"
			case token.LEQ:
				return "(" + a + " <=? " + b + ")"
			case token.GTR:
				return "(" + a + " >? " + b + ")"
			case token.GEQ:
				return "(" + a + " >=? " + b + ")"
			case token.EQL:
				return "(" + a + " =? " + b + ")"
			case token.NEQ:
				return "(negb (" + a + " =? " + b + "))"
			}
		}
	}
	die("unsupported boolean expression %T in level()", e)
	return ""
}

func retLevel(body []ast.Stmt) string {
	if len(body) != 1 {
		die("case body of level() is not a single return")
	}
	r, ok := body[0].(*ast.ReturnStmt)
	if !ok || len(r.Results) != 1 {
		die("case body of level() is not a single-value return")
	}
	sel, ok := r.Results[0].(*ast.SelectorExpr)
	if !ok {
		die("level() returns something that is not slog.Level<X>")
	}
	p, ok := sel.X.(*ast.Ident)
	if !ok || p.Name != "slog" {
		die("level() returns something that is not slog.Level<X>")
	}
	l, ok := levels[sel.Sel.Name]
	if !ok {
		die("unknown slog level %s", sel.Sel.Name)
	}
	return l
}

func main() {
	args := map[string]string{}
	for _, a := range os.Args[1:] {
		if i := strings.IndexByte(a, '='); i > 0 {
			args[a[:i]] = a[i+1:]
		}
	}
	repo, out := args["repo"], args["out"]
	if repo == "" || out == "" {
		die("usage: c20gen repo=<dir> out=<file>")
	}
	fset := token.NewFileSet()
	f, err := parser.ParseFile(fset, filepath.Join(repo, "logger.go"), nil, 0)
	if err != nil {
		die("%v", err)
	}
	var fn *ast.FuncDecl
	for _, d := range f.Decls {
		if fd, ok := d.(*ast.FuncDecl); ok && fd.Recv == nil && fd.Name.Name == "level" {
			fn = fd
		}
	}
	if fn == nil {
		die("func level not found in logger.go")
	}
	ps := fn.Type.Params.List
	if len(ps) != 1 || len(ps[0].Names) != 1 {
		die("level: expected exactly one parameter")
	}
	if id, ok := ps[0].Type.(*ast.Ident); !ok || id.Name != "int" {
		die("level: parameter is not an int")
	}
	param := ps[0].Names[0].Name
	if fn.Type.Results == nil || len(fn.Type.Results.List) != 1 {
		die("level: expected one result")
	}
	if len(fn.Body.List) != 1 {
		die("level: body is not a single switch statement")
	}
	sw, ok := fn.Body.List[0].(*ast.SwitchStmt)
	if !ok || sw.Init != nil || sw.Tag != nil {
		die("level: body is not a tagless switch")
	}
	var sb strings.Builder
	pos := fset.Position(fn.Pos())
	fmt.Fprintf(&sb, "(* GENERATED by harness/cmd/c20gen from logger.go (func level, line %d) on every run of\n   bin/check C20 — do not edit.  Tagless switch => first true case wins. *)\n", pos.Line)
	sb.WriteString("From Coq Require Import ZArith Bool.\nFrom FoxC20 Require Import Types.\nOpen Scope Z_scope.\nOpen Scope bool_scope.\n\n")
	fmt.Fprintf(&sb, "Definition level (%s : Z) : slog_level :=\n", param)
	def := ""
	ncase := 0
	for _, st := range sw.Body.List {
		cc, ok := st.(*ast.CaseClause)
		if !ok {
			die("level: unexpected statement in switch")
		}
		if cc.List == nil {
			if def != "" {
				die("level: two default clauses")
			}
			def = retLevel(cc.Body)
			continue
		}
		conds := make([]string, len(cc.List))
		for i, e := range cc.List {
			conds[i] = bexpr(e, param)
		}
		fmt.Fprintf(&sb, "  if %s then %s else\n", strings.Join(conds, " || "), retLevel(cc.Body))
		ncase++
	}
	if def == "" {
		die("level: switch has no default clause and the function would fall off its end")
	}
	fmt.Fprintf(&sb, "  %s.\n\nDefinition level_case_count : nat := %d.\n", def, ncase)
	newb := []byte(sb.String())
	if old, err := os.ReadFile(out); err == nil && bytes.Equal(old, newb) {
		fmt.Println("c20gen: GenFuns.v up to date")
		return
	}
	if err := os.WriteFile(out, newb, 0o644); err != nil {
		die("%v", err)
	}
	fmt.Println("c20gen: GenFuns.v rewritten")
}
