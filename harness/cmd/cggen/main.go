// cggen: regenerates coq/C06/GenCallGraph.v — the guarded call graph of package
// fox and of the module-internal packages it imports — from $VERIF_REPO (default
// /repo), using go/ast + go/types only (standard library; packages outside the
// module are type-checked from source by go/importer "source").
//
// What is generated (see docs/C06.md for the full list of rules):
//
//   - one node per function / method with a body, per function literal ("f$k",
//     closures are their own nodes), one pseudo node per package for the
//     package-level initialisers, and one synthetic node "m$result" for every
//     exported method of an entry type that returns a function value (the user
//     will call that value: modelled as a call through a function value);
//   - per node its "slots": bool parameters that are never assigned / address
//     taken, and (methods) bool fields of the receiver struct that are never
//     assigned outside composite literals ("recv.write");
//   - per call site an edge (guard, callee, args): guard = conjunction of
//     (slot, value) coming from enclosing `if slot` / `if !slot` (also && / ||
//     and the early-return idiom); args = per callee slot a constant, a
//     pass-through of a caller slot, or unknown;
//   - calls through function values: edges to every address-taken function,
//     method value or function literal of identical signature; calls through
//     interfaces: edges to that method of every package type implementing the
//     interface; calls that leave the analysed packages: edges to everything
//     the callee could call back given the static types it receives
//     (interfaces -> package implementers' externally callable methods, func
//     types -> address-taken functions of that signature);
//   - blocking leaves: Acquire(lock object) for sync.Mutex/RWMutex Lock/RLock
//     (lock object = the struct field / package variable, resolved with
//     go/types), ChanOp, Select, CondWait, WaitGroupWait.
//
// Unknown shapes (a mutex reached through a local variable / parameter, a
// mutex used as a value, sync.Locker, assembly stubs, type errors) make the
// generator exit non-zero: the tie is reported broken.
//
// Usage: cggen out=<GenCallGraph.v> [json=<summary.json>]
package main

import (
	"encoding/json"
	"fmt"
	"go/ast"
	"go/build"
	"go/constant"
	"go/importer"
	"go/parser"
	"go/token"
	"go/types"
	"os"
	"path/filepath"
	"regexp"
	"sort"
	"strings"
)

// ---------------------------------------------------------------- loading

type apkg struct {
	path, short string
	files       []*ast.File
	info        *types.Info
	pkg         *types.Package
}

type loader struct {
	fset    *token.FileSet
	repo    string
	modpath string
	std     types.ImporterFrom
	pkgs    map[string]*apkg
	order   []*apkg
	errs    []string
}

func (l *loader) Import(path string) (*types.Package, error) { return l.ImportFrom(path, l.repo, 0) }

func (l *loader) ImportFrom(path, dir string, mode types.ImportMode) (*types.Package, error) {
	if path == l.modpath || strings.HasPrefix(path, l.modpath+"/") {
		p, err := l.load(path)
		if err != nil {
			return nil, err
		}
		return p.pkg, nil
	}
	return l.std.ImportFrom(path, l.repo, mode)
}

func (l *loader) load(path string) (*apkg, error) {
	if p, ok := l.pkgs[path]; ok {
		if p.pkg == nil {
			return nil, fmt.Errorf("import cycle through %s", path)
		}
		return p, nil
	}
	p := &apkg{path: path}
	l.pkgs[path] = p
	dir := filepath.Join(l.repo, strings.TrimPrefix(path, l.modpath))
	bp, err := build.Default.ImportDir(dir, 0)
	if err != nil {
		return nil, err
	}
	names := append([]string{}, bp.GoFiles...)
	sort.Strings(names)
	for _, n := range names {
		f, err := parser.ParseFile(l.fset, filepath.Join(dir, n), nil, parser.SkipObjectResolution)
		if err != nil {
			return nil, err
		}
		p.files = append(p.files, f)
	}
	p.info = &types.Info{
		Uses:       map[*ast.Ident]types.Object{},
		Defs:       map[*ast.Ident]types.Object{},
		Selections: map[*ast.SelectorExpr]*types.Selection{},
		Types:      map[ast.Expr]types.TypeAndValue{},
		Instances:  map[*ast.Ident]types.Instance{},
	}
	conf := types.Config{Importer: l, Error: func(err error) { l.errs = append(l.errs, err.Error()) }}
	pkg, _ := conf.Check(path, l.fset, p.files, p.info)
	p.pkg = pkg
	p.short = pkg.Name()
	l.order = append(l.order, p) // dependencies first
	return p, nil
}

// ---------------------------------------------------------------- graph

type gterm struct {
	slot int
	val  bool
}
type guard []gterm

func (g guard) with(t ...gterm) guard {
	out := append(guard{}, g...)
	for _, x := range t {
		dup := false
		for _, y := range out {
			if x == y {
				dup = true
			}
		}
		if !dup {
			out = append(out, x)
		}
	}
	return out
}

func (g guard) key() string {
	s := make([]string, len(g))
	for i, t := range g {
		s[i] = fmt.Sprintf("%d=%v", t.slot, t.val)
	}
	sort.Strings(s)
	return strings.Join(s, ",")
}

const (
	argUnk   = -1
	argFalse = -2
	argTrue  = -3
	// >= 0: pass-through of the caller's slot with that index
)

type edge struct {
	g      guard
	callee int
	args   []int
	why    string
}

type leaf struct {
	g    guard
	kind string // Acquire ChanOp Select CondWait WaitGroupWait Sleep SpinLoad
	lock int
	pos  string
}

type pending struct {
	g     guard
	kind  string // "dyn" (call through function value), "iface", "ext"
	sig   *types.Signature
	iface *types.Interface
	meth  string
	tys   []types.Type
	pos   string
	desc  string
	pkg   string // package that declares the external callee / interface
}

type slot struct {
	name string
	obj  types.Object // parameter variable or receiver field
}

type node struct {
	id      int
	name    string
	pos     string
	slots   []slot
	edges   []edge
	leaves  []leaf
	pend    []pending
	fn      *types.Func
	recvVar *types.Var
	recvT   *types.Named
	synth   bool
	// shared-state skeleton
	reads     map[string]bool // fields of the shared struct types / package variables read here
	writes    map[string]bool // ... written here (assignment, ++, &x, atomic Store/Add/Swap/CAS)
	loads     bool            // performs an atomic Load / CompareAndSwap itself
	loopCalls []loopCall      // static calls made from inside a loop
	loops     int             // for/range statements (function literals included), top-level functions only
	atomics   int             // calls into sync/atomic (function literals included)
}

type loopCall struct {
	g      guard
	callee int
	pos    token.Pos
}

type addrTaken struct {
	node int
	sig  *types.Signature
}

type gen struct {
	l         *loader
	analysed  map[*types.Package]*apkg
	nodes     []*node
	byFunc    map[*types.Func]*node
	byLit     map[*ast.FuncLit]*node
	litCount  map[*node]int
	addr      []addrTaken
	locks     []string
	lockID    map[string]int
	named     []*types.Named // package-level named non-interface types of analysed packages
	badField  map[*types.Var]bool
	okMutex   map[ast.Expr]bool
	refusals  []string
	results   [][2]int
	exported  []int
	entryType map[string]bool
	fields    []string
	flags     []string
}

func (g *gen) refuse(pos token.Pos, format string, a ...any) {
	g.refusals = append(g.refusals, fmt.Sprintf("%s: %s", g.l.fset.Position(pos), fmt.Sprintf(format, a...)))
}

func (g *gen) pos(p token.Pos) string {
	ps := g.l.fset.Position(p)
	rel, err := filepath.Rel(g.l.repo, ps.Filename)
	if err != nil {
		rel = ps.Filename
	}
	return fmt.Sprintf("%s:%d", rel, ps.Line)
}

func (g *gen) newNode(name string, p token.Pos) *node {
	n := &node{id: len(g.nodes), name: name}
	if p.IsValid() {
		n.pos = g.pos(p)
	}
	g.nodes = append(g.nodes, n)
	return n
}

func (g *gen) pkgPrefix(p *apkg) string {
	if p.path == g.l.modpath {
		return ""
	}
	return p.short + "."
}

func recvNamed(t types.Type) *types.Named {
	if p, ok := t.(*types.Pointer); ok {
		t = p.Elem()
	}
	if a, ok := t.(*types.Alias); ok {
		t = types.Unalias(a)
	}
	n, _ := t.(*types.Named)
	return n
}

func unparen(e ast.Expr) ast.Expr {
	for {
		p, ok := e.(*ast.ParenExpr)
		if !ok {
			return e
		}
		e = p.X
	}
}

func isBool(t types.Type) bool {
	b, ok := t.Underlying().(*types.Basic)
	return ok && b.Kind() == types.Bool
}

// ---------------------------------------------------------------- pass 0: which bool params / fields may serve as slots

// scanAssignments records bool struct fields and variables that are assigned,
// inc/dec'ed or address-taken anywhere: those are not usable as slots.
func (g *gen) scanAssignments() map[types.Object]bool {
	bad := map[types.Object]bool{}
	for _, p := range g.l.order {
		mark := func(e ast.Expr) {
			e = unparen(e)
			// whole-struct assignment (*t = T{...}, s.f = T{...}): every field of the struct may change
			through := false
			switch e.(type) {
			case *ast.StarExpr, *ast.SelectorExpr, *ast.IndexExpr:
				through = true
			}
			if tv, ok := p.info.Types[e]; ok && tv.Type != nil && through {
				if st, ok := tv.Type.Underlying().(*types.Struct); ok {
					for i := 0; i < st.NumFields(); i++ {
						bad[st.Field(i)] = true
					}
				}
			}
			switch x := e.(type) {
			case *ast.Ident:
				if o := p.info.Uses[x]; o != nil {
					bad[o] = true
				}
				// a plain `x = ...` on a parameter: Uses; `x := ...` defines a new object (Defs): harmless
			case *ast.SelectorExpr:
				if s := p.info.Selections[x]; s != nil && s.Kind() == types.FieldVal {
					bad[s.Obj()] = true
				}
			}
		}
		for _, f := range p.files {
			ast.Inspect(f, func(n ast.Node) bool {
				switch x := n.(type) {
				case *ast.AssignStmt:
					for _, l := range x.Lhs {
						mark(l)
					}
				case *ast.IncDecStmt:
					mark(x.X)
				case *ast.UnaryExpr:
					if x.Op == token.AND {
						mark(x.X)
					}
				case *ast.RangeStmt:
					if x.Tok == token.ASSIGN {
						if x.Key != nil {
							mark(x.Key)
						}
						if x.Value != nil {
							mark(x.Value)
						}
					}
				}
				return true
			})
		}
	}
	return bad
}

// ---------------------------------------------------------------- pass 1: nodes

func (g *gen) declareFuncs(bad map[types.Object]bool) {
	for _, p := range g.l.order {
		g.newNode(g.pkgPrefix(p)+"<init>", token.NoPos) // package-level initialisers
		for _, f := range p.files {
			for _, d := range f.Decls {
				fd, ok := d.(*ast.FuncDecl)
				if !ok {
					continue
				}
				obj, _ := p.info.Defs[fd.Name].(*types.Func)
				if obj == nil {
					continue
				}
				if fd.Body == nil {
					g.refuse(fd.Pos(), "function %s has no Go body (assembly / linkname): unknown shape", fd.Name.Name)
					continue
				}
				name := g.pkgPrefix(p)
				sig := obj.Type().(*types.Signature)
				var rn *types.Named
				if sig.Recv() != nil {
					rn = recvNamed(sig.Recv().Type())
					if rn != nil {
						name += rn.Obj().Name() + "."
					}
				}
				name += fd.Name.Name
				if fd.Name.Name == "init" && sig.Recv() == nil {
					name += fmt.Sprintf("#%s", g.pos(fd.Pos()))
				}
				n := g.newNode(name, fd.Pos())
				n.fn = obj
				n.recvT = rn
				g.byFunc[obj] = n
				// slots: bool parameters
				for i := 0; i < sig.Params().Len(); i++ {
					v := sig.Params().At(i)
					if isBool(v.Type()) && v.Name() != "" && v.Name() != "_" && !bad[v] && !(sig.Variadic() && i == sig.Params().Len()-1) {
						n.slots = append(n.slots, slot{name: v.Name(), obj: v})
					}
				}
				// slots: bool fields of the receiver struct that are never assigned
				if rn != nil && sig.Recv().Name() != "" && sig.Recv().Name() != "_" && !bad[sig.Recv()] {
					if st, ok := rn.Underlying().(*types.Struct); ok && g.analysed[rn.Obj().Pkg()] != nil {
						n.recvVar = sig.Recv()
						for i := 0; i < st.NumFields(); i++ {
							fv := st.Field(i)
							if isBool(fv.Type()) && !fv.Embedded() && !bad[fv] {
								n.slots = append(n.slots, slot{name: "recv." + fv.Name(), obj: fv})
							}
						}
					}
				}
			}
		}
	}
}

// ---------------------------------------------------------------- pass 2: bodies

type fctx struct {
	g *gen
	p *apkg
	n *node
	// identifiers already handled as part of a selector / call
	skipIdent map[*ast.Ident]bool
	callFun   map[ast.Expr]bool
	loop      int               // lexical loop depth
	written   map[ast.Expr]bool // selector / identifier expressions in a writing position
}

func (c *fctx) slotIndex(e ast.Expr) (int, bool) {
	e = unparen(e)
	switch x := e.(type) {
	case *ast.Ident:
		o := c.p.info.Uses[x]
		for i, s := range c.n.slots {
			if s.obj == o && o != nil && !strings.HasPrefix(s.name, "recv.") {
				return i, true
			}
		}
	case *ast.SelectorExpr:
		id, ok := unparen(x.X).(*ast.Ident)
		if !ok || c.n.recvVar == nil || c.p.info.Uses[id] != c.n.recvVar {
			return 0, false
		}
		s := c.p.info.Selections[x]
		if s == nil || s.Kind() != types.FieldVal {
			return 0, false
		}
		for i, sl := range c.n.slots {
			if sl.obj == s.Obj() && strings.HasPrefix(sl.name, "recv.") {
				return i, true
			}
		}
	}
	return 0, false
}

// condTerms returns the slot literals known to hold when cond is true and when it is false.
func (c *fctx) condTerms(cond ast.Expr) (whenTrue, whenFalse []gterm) {
	cond = unparen(cond)
	if i, ok := c.slotIndex(cond); ok {
		return []gterm{{i, true}}, []gterm{{i, false}}
	}
	switch x := cond.(type) {
	case *ast.UnaryExpr:
		if x.Op == token.NOT {
			t, f := c.condTerms(x.X)
			return f, t
		}
	case *ast.BinaryExpr:
		lt, lf := c.condTerms(x.X)
		rt, rf := c.condTerms(x.Y)
		switch x.Op {
		case token.LAND:
			return append(lt, rt...), nil
		case token.LOR:
			return nil, append(lf, rf...)
		}
	}
	return nil, nil
}

func (c *fctx) terminates(b *ast.BlockStmt) bool {
	if b == nil || len(b.List) == 0 {
		return false
	}
	switch s := b.List[len(b.List)-1].(type) {
	case *ast.ReturnStmt:
		return true
	case *ast.ExprStmt:
		if call, ok := s.X.(*ast.CallExpr); ok {
			if id, ok := unparen(call.Fun).(*ast.Ident); ok {
				if b, ok := c.p.info.Uses[id].(*types.Builtin); ok && b.Name() == "panic" {
					return true
				}
			}
		}
	}
	return false
}

func (c *fctx) stmts(list []ast.Stmt, gd guard) {
	for _, s := range list {
		gd = c.stmt(s, gd)
	}
}

// stmt walks one statement under guard gd and returns the guard that holds for
// the statements following it in the same block.
func (c *fctx) stmt(s ast.Stmt, gd guard) guard {
	switch x := s.(type) {
	case nil:
	case *ast.BlockStmt:
		c.stmts(x.List, gd)
	case *ast.IfStmt:
		if x.Init != nil {
			c.stmt(x.Init, gd)
		}
		c.exprs(x.Cond, gd)
		t, f := c.condTerms(x.Cond)
		c.stmts(x.Body.List, gd.with(t...))
		thenTerm := c.terminates(x.Body)
		elseTerm := false
		switch e := x.Else.(type) {
		case *ast.BlockStmt:
			c.stmts(e.List, gd.with(f...))
			elseTerm = c.terminates(e)
		case *ast.IfStmt:
			c.stmt(e, gd.with(f...))
		}
		if thenTerm && !elseTerm {
			return gd.with(f...)
		}
		if elseTerm && !thenTerm {
			return gd.with(t...)
		}
	case *ast.ForStmt:
		if x.Init != nil {
			c.stmt(x.Init, gd)
		}
		c.loop++
		if x.Cond != nil {
			c.exprs(x.Cond, gd)
			// a loop whose condition reads router-level mutable state (a field of Router, a package
			// variable) waits for somebody else to change it
			ast.Inspect(x.Cond, func(y ast.Node) bool {
				switch z := y.(type) {
				case *ast.FuncLit:
					return false
				case *ast.SelectorExpr:
					if strings.HasPrefix(c.fieldName(z), "fox.Router.") {
						c.leaf(gd, "SpinLoad", 0, z.Pos())
					}
				case *ast.Ident:
					if v, ok := c.p.info.Uses[z].(*types.Var); ok && v.Pkg() != nil && c.g.analysed[v.Pkg()] != nil && v.Parent() == v.Pkg().Scope() {
						if _, isIface := v.Type().Underlying().(*types.Interface); !isIface {
							c.leaf(gd, "SpinLoad", 0, z.Pos())
						}
					}
				}
				return true
			})
		}
		if x.Post != nil {
			c.stmt(x.Post, gd)
		}
		c.stmts(x.Body.List, gd)
		c.loop--
	case *ast.RangeStmt:
		c.exprs(x.X, gd)
		if tv, ok := c.p.info.Types[x.X]; ok && tv.Type != nil {
			switch u := tv.Type.Underlying().(type) {
			case *types.Chan:
				c.leaf(gd, "ChanOp", 0, x.Pos())
			case *types.Signature:
				// range-over-func: calls the function value with a synthesised yield
				c.n.pend = append(c.n.pend, pending{g: gd, kind: "dyn", sig: u, pos: c.g.pos(x.Pos()), desc: "range over func"})
			}
		}
		if x.Tok == token.ASSIGN {
			c.markWritten(x.Key)
			c.markWritten(x.Value)
		}
		c.loop++
		c.stmts(x.Body.List, gd)
		c.loop--
	case *ast.SwitchStmt:
		if x.Init != nil {
			c.stmt(x.Init, gd)
		}
		if x.Tag != nil {
			c.exprs(x.Tag, gd)
		}
		for _, cl := range x.Body.List {
			cc := cl.(*ast.CaseClause)
			for _, e := range cc.List {
				c.exprs(e, gd)
			}
			c.stmts(cc.Body, gd)
		}
	case *ast.TypeSwitchStmt:
		if x.Init != nil {
			c.stmt(x.Init, gd)
		}
		c.stmt(x.Assign, gd)
		for _, cl := range x.Body.List {
			c.stmts(cl.(*ast.CaseClause).Body, gd)
		}
	case *ast.SelectStmt:
		c.leaf(gd, "Select", 0, x.Pos())
		for _, cl := range x.Body.List {
			cc := cl.(*ast.CommClause)
			if cc.Comm != nil {
				c.stmt(cc.Comm, gd)
			}
			c.stmts(cc.Body, gd)
		}
	case *ast.LabeledStmt:
		return c.stmt(x.Stmt, gd)
	case *ast.GoStmt:
		c.exprs(x.Call, gd)
	case *ast.DeferStmt:
		c.exprs(x.Call, gd)
	case *ast.SendStmt:
		c.leaf(gd, "ChanOp", 0, x.Pos())
		c.exprs(x.Chan, gd)
		c.exprs(x.Value, gd)
	case *ast.AssignStmt:
		if x.Tok != token.DEFINE {
			for _, l := range x.Lhs {
				c.markWritten(l)
			}
		}
		c.exprs(x, gd)
	case *ast.IncDecStmt:
		c.markWritten(x.X)
		c.exprs(x, gd)
	case *ast.ExprStmt, *ast.ReturnStmt, *ast.DeclStmt, *ast.BranchStmt, *ast.EmptyStmt:
		c.exprs(x, gd)
	default:
		c.g.refuse(s.Pos(), "statement of unknown shape %T", s)
	}
	return gd
}

func (c *fctx) leaf(gd guard, kind string, lock int, p token.Pos) {
	c.n.leaves = append(c.n.leaves, leaf{g: gd, kind: kind, lock: lock, pos: c.g.pos(p)})
}

// markWritten records the field / variable that an assignment target designates:
// x.f = .., x.f[i] = .., *x.f = .., x.f.g = .. (struct-valued f) all write f.
func (c *fctx) markWritten(e ast.Expr) {
	for e != nil {
		e = unparen(e)
		switch x := e.(type) {
		case *ast.IndexExpr:
			e = x.X
		case *ast.StarExpr:
			e = x.X
		case *ast.SliceExpr:
			e = x.X
		case *ast.SelectorExpr:
			if c.written == nil {
				c.written = map[ast.Expr]bool{}
			}
			c.written[x] = true
			// x.f.g = ..: if f holds a struct by value, f is written too
			if tv, ok := c.p.info.Types[x.X]; ok && tv.Type != nil {
				if _, isStruct := tv.Type.Underlying().(*types.Struct); isStruct {
					e = x.X
					continue
				}
			}
			return
		case *ast.Ident:
			if c.written == nil {
				c.written = map[ast.Expr]bool{}
			}
			c.written[x] = true
			return
		default:
			return
		}
	}
}

// sharedTypes: the long-lived structures through which readers and writers of a router meet.
var sharedTypes = map[string]bool{"Router": true, "Txn": true, "iTree": true}

// fieldName names a field of a shared struct type of the root package, "" otherwise.
func (c *fctx) fieldName(sel *ast.SelectorExpr) string {
	s := c.p.info.Selections[sel]
	if s == nil || s.Kind() != types.FieldVal {
		return ""
	}
	owner := recvNamed(s.Recv())
	if owner == nil {
		return ""
	}
	t := owner
	ix := s.Index()
	for _, i := range ix[:len(ix)-1] { // promoted through embedded structs: the declaring struct owns the field
		st, ok := t.Underlying().(*types.Struct)
		if !ok {
			return ""
		}
		t = recvNamed(st.Field(i).Type())
		if t == nil {
			return ""
		}
	}
	if t.Obj().Pkg() == nil || t.Obj().Pkg().Path() != c.g.l.modpath || !sharedTypes[t.Obj().Name()] {
		return ""
	}
	return t.Obj().Pkg().Name() + "." + t.Obj().Name() + "." + s.Obj().Name()
}

func (c *fctx) access(name string, write bool) {
	if name == "" {
		return
	}
	if c.n.reads == nil {
		c.n.reads, c.n.writes = map[string]bool{}, map[string]bool{}
	}
	if write {
		c.n.writes[name] = true
	} else {
		c.n.reads[name] = true
	}
}

// flagSites records, for a composite literal of a shared struct type (Router, Txn, iTree), what
// each of its bool fields is initialised with: the mode flags (Txn.write) are fixed at creation,
// so the creation sites ARE the places that decide who may touch the writer lock.
func (c *fctx) flagSites(lit *ast.CompositeLit) {
	tv, ok := c.p.info.Types[lit]
	if !ok || tv.Type == nil {
		return
	}
	T := recvNamed(tv.Type)
	if T == nil || T.Obj().Pkg() == nil || T.Obj().Pkg().Path() != c.g.l.modpath || !sharedTypes[T.Obj().Name()] {
		return
	}
	st, ok := T.Underlying().(*types.Struct)
	if !ok {
		return
	}
	for i := 0; i < st.NumFields(); i++ {
		f := st.Field(i)
		if !isBool(f.Type()) {
			continue
		}
		kind := "default false"
		var val ast.Expr
		for j, el := range lit.Elts {
			if kv, ok := el.(*ast.KeyValueExpr); ok {
				if id, ok := kv.Key.(*ast.Ident); ok && id.Name == f.Name() {
					val = kv.Value
				}
			} else if j == i {
				val = el // positional literal
			}
		}
		if val != nil {
			switch a := c.constArg(val); {
			case a == argTrue:
				kind = "true"
			case a == argFalse:
				kind = "false"
			case a >= 0:
				kind = "slot " + c.n.slots[a].name
			default:
				kind = "expression"
			}
		}
		c.g.flags = append(c.g.flags, fmt.Sprintf("%s.%s.%s := %s in %s", T.Obj().Pkg().Name(), T.Obj().Name(), f.Name(), kind, c.n.name))
	}
}

// atomicOp classifies a call into sync/atomic: "", "load", "store" (Store/Add/Swap/And/Or), "cas".
func atomicOp(fn *types.Func) string {
	if fn.Pkg() == nil || fn.Pkg().Path() != "sync/atomic" {
		return ""
	}
	n := fn.Name()
	switch {
	case strings.HasPrefix(n, "Load"):
		return "load"
	case strings.HasPrefix(n, "CompareAndSwap"):
		return "cas"
	case strings.HasPrefix(n, "Store"), strings.HasPrefix(n, "Add"), strings.HasPrefix(n, "Swap"), strings.HasPrefix(n, "And"), strings.HasPrefix(n, "Or"):
		return "store"
	}
	return "other"
}

func (g *gen) closure(parent *node, lit *ast.FuncLit, p *apkg) *node {
	if n, ok := g.byLit[lit]; ok {
		return n
	}
	g.litCount[parent]++
	n := g.newNode(fmt.Sprintf("%s$%d", parent.name, g.litCount[parent]), lit.Pos())
	g.byLit[lit] = n
	sub := &fctx{g: g, p: p, n: n, skipIdent: map[*ast.Ident]bool{}, callFun: map[ast.Expr]bool{}}
	sub.stmts(lit.Body.List, nil)
	return n
}

func isSyncType(t types.Type, names ...string) bool {
	if p, ok := t.(*types.Pointer); ok {
		t = p.Elem()
	}
	n, ok := types.Unalias(t).(*types.Named)
	if !ok || n.Obj().Pkg() == nil || n.Obj().Pkg().Path() != "sync" {
		return false
	}
	for _, x := range names {
		if n.Obj().Name() == x {
			return true
		}
	}
	return false
}

// exprs visits every expression below n (not descending into function
// literals, which become their own nodes).
func (c *fctx) exprs(n ast.Node, gd guard) {
	info := c.p.info
	ast.Inspect(n, func(x ast.Node) bool {
		switch e := x.(type) {
		case *ast.FuncLit:
			cl := c.g.closure(c.n, e, c.p)
			if !c.callFun[e] {
				sig, _ := info.Types[e].Type.Underlying().(*types.Signature)
				c.g.addr = append(c.g.addr, addrTaken{cl.id, sig})
			}
			return false
		case *ast.CallExpr:
			c.call(e, gd)
		case *ast.CompositeLit:
			c.flagSites(e)
		case *ast.UnaryExpr:
			if e.Op == token.ARROW {
				c.leaf(gd, "ChanOp", 0, e.Pos())
			}
			if e.Op == token.AND {
				c.markWritten(e.X) // address taken: may be written through the pointer
			}
		case *ast.SelectorExpr:
			c.skipIdent[e.Sel] = true
			if fname := c.fieldName(e); fname != "" {
				c.access(fname, c.written[e])
			}
			if v, ok := info.Uses[e.Sel].(*types.Var); ok && info.Selections[e] == nil && v.Pkg() != nil && c.g.analysed[v.Pkg()] != nil && v.Parent() == v.Pkg().Scope() {
				c.access("var "+v.Pkg().Name()+"."+v.Name(), c.written[e])
			}
			if fn, ok := info.Uses[e.Sel].(*types.Func); ok && !c.callFun[e] {
				c.takeAddr(fn, info.Types[e].Type, e.Pos())
			}
			if tv, ok := info.Types[e]; ok && tv.Type != nil && isSyncType(tv.Type, "Mutex", "RWMutex", "Cond", "WaitGroup") && !c.g.okMutex[e] {
				c.g.refuse(e.Pos(), "a sync.%s is used as a value (not as the receiver of a method call): unknown shape", "Mutex/RWMutex/Cond/WaitGroup")
			}
		case *ast.Ident:
			if c.skipIdent[e] {
				return true
			}
			if fn, ok := info.Uses[e].(*types.Func); ok && !c.callFun[e] {
				c.takeAddr(fn, info.Types[e].Type, e.Pos())
			}
			if v, ok := info.Uses[e].(*types.Var); ok && v.Pkg() != nil && c.g.analysed[v.Pkg()] != nil && v.Parent() == v.Pkg().Scope() {
				c.access("var "+v.Pkg().Name()+"."+v.Name(), c.written[e])
			}
			if o, ok := info.Uses[e].(*types.Var); ok && isSyncType(o.Type(), "Mutex", "RWMutex", "Cond", "WaitGroup") && !c.g.okMutex[e] {
				c.g.refuse(e.Pos(), "a sync primitive variable %s is used as a value: unknown shape", e.Name)
			}
		}
		return true
	})
}

func (c *fctx) takeAddr(fn *types.Func, t types.Type, p token.Pos) {
	fn = fn.Origin()
	if n, ok := c.g.byFunc[fn]; ok {
		sig, _ := t.Underlying().(*types.Signature)
		if sig == nil {
			sig = fn.Type().(*types.Signature)
		}
		c.g.addr = append(c.g.addr, addrTaken{n.id, sig})
		return
	}
	if fn.Pkg() != nil && fn.Pkg().Path() == "sync" {
		switch fn.Name() {
		case "Lock", "RLock", "Wait":
			c.g.refuse(p, "%s used as a method value: unknown shape", fn.FullName())
		}
	}
}

func (c *fctx) constArg(e ast.Expr) int {
	if tv, ok := c.p.info.Types[e]; ok && tv.Value != nil && tv.Value.Kind() == constant.Bool {
		if constant.BoolVal(tv.Value) {
			return argTrue
		}
		return argFalse
	}
	if i, ok := c.slotIndex(e); ok {
		return i
	}
	return argUnk
}

// staticEdge adds the edge for a call whose callee is a known function with a node.
func (c *fctx) staticEdge(call *ast.CallExpr, callee *node, recvExpr ast.Expr, gd guard, why string) {
	args := make([]int, len(callee.slots))
	for i := range args {
		args[i] = argUnk
	}
	if callee.fn != nil {
		sig := callee.fn.Type().(*types.Signature)
		simple := !call.Ellipsis.IsValid() && (len(call.Args) == sig.Params().Len() || (sig.Variadic() && len(call.Args) >= sig.Params().Len()-1))
		if len(call.Args) == 1 && sig.Params().Len() > 1 {
			simple = false // f(g()) with a multi-value g
		}
		for si, s := range callee.slots {
			if strings.HasPrefix(s.name, "recv.") {
				// same receiver object passed on: x.m() inside a method whose receiver is x
				if recvExpr != nil && c.n.recvVar != nil && callee.recvT != nil && c.n.recvT != nil &&
					types.Identical(callee.recvT, c.n.recvT) {
					if id, ok := unparen(recvExpr).(*ast.Ident); ok && c.p.info.Uses[id] == c.n.recvVar {
						for ci, cs := range c.n.slots {
							if cs.obj == s.obj && strings.HasPrefix(cs.name, "recv.") {
								args[si] = ci
							}
						}
					}
				}
				continue
			}
			if !simple {
				continue
			}
			for pi := 0; pi < sig.Params().Len(); pi++ {
				if sig.Params().At(pi) == s.obj && pi < len(call.Args) {
					args[si] = c.constArg(call.Args[pi])
				}
			}
		}
	}
	c.n.edges = append(c.n.edges, edge{g: gd, callee: callee.id, args: args, why: why})
	if c.loop > 0 {
		c.n.loopCalls = append(c.n.loopCalls, loopCall{gd, callee.id, call.Pos()})
	}
}

func (c *fctx) lockObject(call *ast.CallExpr, sel *ast.SelectorExpr) (int, bool) {
	info := c.p.info
	name := ""
	s := info.Selections[sel]
	if s != nil && len(s.Index()) > 1 {
		// promoted through embedded field(s): T.f1.f2...
		rn := recvNamed(s.Recv())
		if rn == nil {
			return 0, false
		}
		name = rn.Obj().Pkg().Name() + "." + rn.Obj().Name()
		t := rn.Underlying()
		for _, ix := range s.Index()[:len(s.Index())-1] {
			if p, ok := t.(*types.Pointer); ok {
				t = p.Elem().Underlying()
			}
			st, ok := t.Underlying().(*types.Struct)
			if !ok {
				return 0, false
			}
			name += "." + st.Field(ix).Name()
			t = st.Field(ix).Type().Underlying()
		}
	} else {
		switch x := unparen(sel.X).(type) {
		case *ast.SelectorExpr:
			s2 := info.Selections[x]
			if s2 != nil && s2.Kind() == types.FieldVal {
				rn := recvNamed(s2.Recv())
				if rn == nil {
					return 0, false
				}
				// field possibly promoted: name by the struct that declares it
				name = rn.Obj().Pkg().Name() + "." + rn.Obj().Name() + "." + s2.Obj().Name()
				if len(s2.Index()) > 1 {
					name = rn.Obj().Pkg().Name() + "." + rn.Obj().Name() + ".(promoted)." + s2.Obj().Name()
				}
			} else if v, ok := info.Uses[x.Sel].(*types.Var); ok && v.Parent() == v.Pkg().Scope() {
				name = v.Pkg().Name() + "." + v.Name()
			} else {
				return 0, false
			}
			c.g.okMutex[x] = true
		case *ast.Ident:
			v, ok := info.Uses[x].(*types.Var)
			if !ok || v.Pkg() == nil || v.Parent() != v.Pkg().Scope() {
				return 0, false // local variable or parameter: which lock object is it?
			}
			name = v.Pkg().Name() + "." + v.Name()
			c.g.okMutex[x] = true
		default:
			return 0, false
		}
	}
	id, ok := c.g.lockID[name]
	if !ok {
		id = len(c.g.locks)
		c.g.locks = append(c.g.locks, name)
		c.g.lockID[name] = id
	}
	return id, true
}

func (c *fctx) external(call *ast.CallExpr, fn *types.Func, sel *ast.SelectorExpr, gd guard) {
	info := c.p.info
	full := fn.FullName()
	switch full {
	case "(*sync.Mutex).Lock", "(*sync.RWMutex).Lock", "(*sync.RWMutex).RLock":
		id, ok := c.lockObject(call, sel)
		if !ok {
			c.g.refuse(call.Pos(), "%s on a receiver that is neither a struct field nor a package variable: cannot name the lock object", full)
			return
		}
		c.leaf(gd, "Acquire", id, call.Pos())
		return
	case "(*sync.Mutex).Unlock", "(*sync.RWMutex).Unlock", "(*sync.RWMutex).RUnlock", "(*sync.Mutex).TryLock", "(*sync.RWMutex).TryLock", "(*sync.RWMutex).TryRLock":
		id, ok := c.lockObject(call, sel)
		if !ok {
			c.g.refuse(call.Pos(), "%s on a receiver that is neither a struct field nor a package variable", full)
			return
		}
		if strings.Contains(full, "Try") {
			c.leaf(gd, "Acquire", id, call.Pos()) // does not wait, but takes the lock: counted as an acquisition
		} else {
			c.leaf(gd, "Release", id, call.Pos())
		}
		return
	case "(*sync.Cond).Wait":
		c.markSyncRecv(sel)
		c.leaf(gd, "CondWait", 0, call.Pos())
		return
	case "(*sync.WaitGroup).Wait":
		c.markSyncRecv(sel)
		c.leaf(gd, "WaitGroupWait", 0, call.Pos())
		return
	case "(*sync.Cond).Signal", "(*sync.Cond).Broadcast", "(*sync.WaitGroup).Add", "(*sync.WaitGroup).Done", "(*sync.WaitGroup).Go":
		c.markSyncRecv(sel)
	case "(*sync.RWMutex).RLocker", "sync.NewCond":
		c.g.refuse(call.Pos(), "%s: unknown shape", full)
		return
	case "time.Sleep", "runtime.Gosched":
		c.leaf(gd, "Sleep", 0, call.Pos())
		return
	}
	if op := atomicOp(fn); op != "" {
		// the receiver field (fox.tree.Load(), fox.writers.Add(1)) is read or written accordingly
		if sel != nil {
			if rx, ok := unparen(sel.X).(*ast.SelectorExpr); ok && (op == "store" || op == "cas") {
				c.access(c.fieldName(rx), true)
			}
			if rx, ok := unparen(sel.X).(*ast.Ident); ok && (op == "store" || op == "cas") {
				if v, ok := info.Uses[rx].(*types.Var); ok && v.Pkg() != nil && c.g.analysed[v.Pkg()] != nil && v.Parent() == v.Pkg().Scope() {
					c.access("var "+v.Pkg().Name()+"."+v.Name(), true)
				}
			}
		}
		if op == "load" || op == "cas" {
			c.n.loads = true
			if c.loop > 0 {
				c.leaf(gd, "SpinLoad", 0, call.Pos()) // observes shared state from inside a loop
			}
		}
		return
	}
	if noCallback[full] {
		return
	}
	var tys []types.Type
	if sel != nil {
		if s := info.Selections[sel]; s != nil {
			tys = append(tys, s.Recv())
		}
	}
	for _, a := range call.Args {
		if tv, ok := info.Types[a]; ok && tv.Type != nil {
			tys = append(tys, tv.Type)
		}
	}
	if len(tys) > 0 {
		pk := ""
		if fn.Pkg() != nil {
			pk = fn.Pkg().Path()
		}
		c.n.pend = append(c.n.pend, pending{g: gd, kind: "ext", tys: tys, pos: c.g.pos(call.Pos()), desc: full, pkg: pk})
	}
}

func (c *fctx) markSyncRecv(sel *ast.SelectorExpr) {
	if sel == nil {
		return
	}
	x := unparen(sel.X)
	c.g.okMutex[x] = true
	if u, ok := x.(*ast.UnaryExpr); ok {
		c.g.okMutex[unparen(u.X)] = true
	}
}

func (c *fctx) call(call *ast.CallExpr, gd guard) {
	info := c.p.info
	fun := unparen(call.Fun)
	if tv, ok := info.Types[fun]; ok && tv.IsType() {
		return // conversion
	}
	// explicit instantiation f[T](...)
	switch ix := fun.(type) {
	case *ast.IndexExpr:
		if isGenericFuncExpr(info, ix.X) {
			c.callFun[fun] = true
			fun = unparen(ix.X)
		}
	case *ast.IndexListExpr:
		if isGenericFuncExpr(info, ix.X) {
			c.callFun[fun] = true
			fun = unparen(ix.X)
		}
	}
	c.callFun[fun] = true
	c.callFun[call.Fun] = true
	dyn := func(desc string) {
		sig, _ := info.Types[call.Fun].Type.Underlying().(*types.Signature)
		if sig == nil {
			c.g.refuse(call.Pos(), "call through a value whose type is not a function signature: unknown shape")
			return
		}
		c.n.pend = append(c.n.pend, pending{g: gd, kind: "dyn", sig: sig, pos: c.g.pos(call.Pos()), desc: desc})
	}
	static := func(fn *types.Func, sel *ast.SelectorExpr) {
		fn = fn.Origin()
		if n, ok := c.g.byFunc[fn]; ok {
			var rx ast.Expr
			if sel != nil {
				rx = sel.X
			}
			c.staticEdge(call, n, rx, gd, "call")
			return
		}
		if fn.Pkg() != nil && c.g.analysed[fn.Pkg()] != nil {
			c.g.refuse(call.Pos(), "call to %s which has no analysed body", fn.FullName())
			return
		}
		c.external(call, fn, sel, gd)
	}
	switch f := fun.(type) {
	case *ast.FuncLit:
		c.callFun[f] = true
		cl := c.g.closure(c.n, f, c.p)
		c.n.edges = append(c.n.edges, edge{g: gd, callee: cl.id, why: "call of function literal"})
		if c.loop > 0 {
			c.n.loopCalls = append(c.n.loopCalls, loopCall{gd, cl.id, call.Pos()})
		}
	case *ast.Ident:
		switch o := info.Uses[f].(type) {
		case *types.Builtin:
			return
		case *types.Func:
			static(o, nil)
		case nil:
			c.g.refuse(call.Pos(), "call of unresolved identifier %s", f.Name)
		default:
			dyn("call through variable " + f.Name)
		}
	case *ast.SelectorExpr:
		if s := info.Selections[f]; s != nil {
			switch s.Kind() {
			case types.MethodVal:
				fn := s.Obj().(*types.Func)
				rt := fn.Type().(*types.Signature).Recv().Type()
				if it, ok := rt.Underlying().(*types.Interface); ok {
					if isSyncLocker(rt) {
						c.g.refuse(call.Pos(), "call through sync.Locker: cannot name the lock object")
						return
					}
					var tys []types.Type
					tys = append(tys, rt)
					for _, a := range call.Args {
						if tv, ok := info.Types[a]; ok && tv.Type != nil {
							tys = append(tys, tv.Type)
						}
					}
					pk := ""
					if fn.Pkg() != nil {
						pk = fn.Pkg().Path()
					}
					if fn.Pkg() != nil && c.g.analysed[fn.Pkg()] != nil {
						tys = nil // interface declared in the analysed packages: a dynamic receiver outside them is user code (outside the graph)
					}
					c.n.pend = append(c.n.pend, pending{g: gd, kind: "iface", iface: it, meth: fn.Name(), tys: tys,
						pos: c.g.pos(call.Pos()), desc: "interface method " + fn.FullName(), pkg: pk})
					return
				}
				static(fn, f)
			case types.FieldVal:
				dyn("call through field " + f.Sel.Name)
			case types.MethodExpr:
				static(s.Obj().(*types.Func), nil)
			}
			return
		}
		// qualified identifier pkg.F
		switch o := info.Uses[f.Sel].(type) {
		case *types.Func:
			static(o, nil)
		case *types.Builtin:
			return // unsafe.*
		case nil:
			c.g.refuse(call.Pos(), "call of unresolved selector %s", f.Sel.Name)
		default:
			dyn("call through package variable " + f.Sel.Name)
		}
	default:
		dyn(fmt.Sprintf("call through expression %T", fun))
	}
}

func isGenericFuncExpr(info *types.Info, e ast.Expr) bool {
	switch x := unparen(e).(type) {
	case *ast.Ident:
		_, ok := info.Uses[x].(*types.Func)
		return ok
	case *ast.SelectorExpr:
		_, ok := info.Uses[x.Sel].(*types.Func)
		return ok
	}
	return false
}

func isSyncLocker(t types.Type) bool {
	n, ok := types.Unalias(t).(*types.Named)
	return ok && n.Obj().Pkg() != nil && n.Obj().Pkg().Path() == "sync" && n.Obj().Name() == "Locker"
}

func (g *gen) bodies() {
	for _, p := range g.l.order {
		initNode := g.nodes[0]
		for _, n := range g.nodes {
			if n.name == g.pkgPrefix(p)+"<init>" {
				initNode = n
			}
		}
		for _, f := range p.files {
			for _, d := range f.Decls {
				switch x := d.(type) {
				case *ast.FuncDecl:
					obj, _ := p.info.Defs[x.Name].(*types.Func)
					n := g.byFunc[obj]
					if n == nil || x.Body == nil {
						continue
					}
					c := &fctx{g: g, p: p, n: n, skipIdent: map[*ast.Ident]bool{}, callFun: map[ast.Expr]bool{}}
					c.stmts(x.Body.List, nil)
					ast.Inspect(x.Body, func(y ast.Node) bool {
						switch z := y.(type) {
						case *ast.ForStmt, *ast.RangeStmt:
							n.loops++
						case *ast.CallExpr:
							var id *ast.Ident
							switch f := unparen(z.Fun).(type) {
							case *ast.Ident:
								id = f
							case *ast.SelectorExpr:
								id = f.Sel
							}
							if id != nil {
								if fn, ok := p.info.Uses[id].(*types.Func); ok && fn.Pkg() != nil && fn.Pkg().Path() == "sync/atomic" {
									n.atomics++
								}
							}
						}
						return true
					})
				case *ast.GenDecl:
					if x.Tok != token.VAR {
						continue
					}
					c := &fctx{g: g, p: p, n: initNode, skipIdent: map[*ast.Ident]bool{}, callFun: map[ast.Expr]bool{}}
					for _, sp := range x.Specs {
						for _, v := range sp.(*ast.ValueSpec).Values {
							c.exprs(v, nil)
						}
					}
				}
			}
		}
	}
}

// syncKind: "" unless values of type t are synchronisation / communication objects
// (anything from sync or sync/atomic, channels), looking through pointers, slices, arrays and maps.
func syncKind(t types.Type, depth int) string {
	if depth > 6 {
		return ""
	}
	switch x := types.Unalias(t).(type) {
	case *types.Named:
		if pk := x.Obj().Pkg(); pk != nil && (pk.Path() == "sync" || pk.Path() == "sync/atomic") {
			return pk.Name() + "." + x.Obj().Name()
		}
		if _, ok := x.Underlying().(*types.Chan); ok {
			return "chan"
		}
	case *types.Chan:
		return "chan"
	case *types.Pointer:
		return syncKind(x.Elem(), depth+1)
	case *types.Slice:
		return syncKind(x.Elem(), depth+1)
	case *types.Array:
		return syncKind(x.Elem(), depth+1)
	case *types.Map:
		return syncKind(x.Elem(), depth+1)
	case *types.Struct:
		for i := 0; i < x.NumFields(); i++ {
			if k := syncKind(x.Field(i).Type(), depth+1); k != "" {
				return "struct{" + k + "}"
			}
		}
	}
	return ""
}

// syncInventory lists every struct field and package-level variable of the analysed packages
// through which goroutines can synchronise or communicate.
func (g *gen) syncInventory() []string {
	var out []string
	for _, p := range g.l.order {
		sc := p.pkg.Scope()
		for _, nm := range sc.Names() {
			switch o := sc.Lookup(nm).(type) {
			case *types.TypeName:
				if o.IsAlias() {
					continue
				}
				if st, ok := o.Type().Underlying().(*types.Struct); ok {
					for i := 0; i < st.NumFields(); i++ {
						if k := syncKind(st.Field(i).Type(), 0); k != "" {
							out = append(out, fmt.Sprintf("%s.%s.%s : %s", p.short, o.Name(), st.Field(i).Name(), k))
						}
					}
				} else if k := syncKind(o.Type().Underlying(), 0); k != "" {
					out = append(out, fmt.Sprintf("type %s.%s : %s", p.short, o.Name(), k))
				}
			case *types.Var:
				if k := syncKind(o.Type(), 0); k != "" {
					out = append(out, fmt.Sprintf("var %s.%s : %s", p.short, o.Name(), k))
				}
			}
		}
	}
	sort.Strings(out)
	return out
}

// spinCalls: a call made from inside a loop to a function that (through direct
// calls only) performs an atomic Load / CompareAndSwap observes shared state on
// every iteration: recorded as a SpinLoad leaf at the call site.
func (g *gen) spinCalls() {
	may := map[int]bool{}
	for _, n := range g.nodes {
		if n.loads {
			may[n.id] = true
		}
	}
	for changed := true; changed; {
		changed = false
		for _, n := range g.nodes {
			if may[n.id] {
				continue
			}
			for _, e := range n.edges { // before resolve(): direct calls and calls of function literals only
				if may[e.callee] {
					may[n.id] = true
					changed = true
					break
				}
			}
		}
	}
	for _, n := range g.nodes {
		for _, lc := range n.loopCalls {
			if may[lc.callee] {
				n.leaves = append(n.leaves, leaf{g: lc.g, kind: "SpinLoad", pos: g.pos(lc.pos)})
			}
		}
	}
}

// ---------------------------------------------------------------- pass 3: resolution of dynamic / interface / external calls

func hasTypeParam(t types.Type, seen map[types.Type]bool) bool {
	if seen[t] {
		return false
	}
	seen[t] = true
	switch x := t.(type) {
	case *types.TypeParam:
		return true
	case *types.Alias:
		return hasTypeParam(types.Unalias(x), seen)
	case *types.Named:
		if ta := x.TypeArgs(); ta != nil {
			for i := 0; i < ta.Len(); i++ {
				if hasTypeParam(ta.At(i), seen) {
					return true
				}
			}
		}
		return false
	case *types.Pointer:
		return hasTypeParam(x.Elem(), seen)
	case *types.Slice:
		return hasTypeParam(x.Elem(), seen)
	case *types.Array:
		return hasTypeParam(x.Elem(), seen)
	case *types.Chan:
		return hasTypeParam(x.Elem(), seen)
	case *types.Map:
		return hasTypeParam(x.Key(), seen) || hasTypeParam(x.Elem(), seen)
	case *types.Signature:
		return hasTypeParam(x.Params(), seen) || hasTypeParam(x.Results(), seen)
	case *types.Tuple:
		for i := 0; i < x.Len(); i++ {
			if hasTypeParam(x.At(i).Type(), seen) {
				return true
			}
		}
	case *types.Struct:
		for i := 0; i < x.NumFields(); i++ {
			if hasTypeParam(x.Field(i).Type(), seen) {
				return true
			}
		}
	}
	return false
}

func stripRecv(s *types.Signature) *types.Signature {
	if s.Recv() == nil && s.TypeParams() == nil {
		return s
	}
	return types.NewSignatureType(nil, nil, nil, s.Params(), s.Results(), s.Variadic())
}

func sigMatch(a, b *types.Signature) bool {
	if a == nil || b == nil {
		return true // unknown signature: conservative
	}
	return looseIdentical(stripRecv(a), stripRecv(b), 0)
}

// looseIdentical is types.Identical except that a type parameter matches any
// type (generic code: the instantiation is not known at the call site).
func looseIdentical(a, b types.Type, depth int) bool {
	a, b = types.Unalias(a), types.Unalias(b)
	if _, ok := a.(*types.TypeParam); ok {
		return true
	}
	if _, ok := b.(*types.TypeParam); ok {
		return true
	}
	if depth > 20 {
		return true
	}
	if !hasTypeParam(a, map[types.Type]bool{}) && !hasTypeParam(b, map[types.Type]bool{}) {
		return types.Identical(a, b)
	}
	switch x := a.(type) {
	case *types.Named:
		y, ok := b.(*types.Named)
		if !ok || x.Origin().Obj() != y.Origin().Obj() {
			return false
		}
		xa, ya := x.TypeArgs(), y.TypeArgs()
		if xa == nil || ya == nil || xa.Len() != ya.Len() {
			return true
		}
		for i := 0; i < xa.Len(); i++ {
			if !looseIdentical(xa.At(i), ya.At(i), depth+1) {
				return false
			}
		}
		return true
	case *types.Pointer:
		y, ok := b.(*types.Pointer)
		return ok && looseIdentical(x.Elem(), y.Elem(), depth+1)
	case *types.Slice:
		y, ok := b.(*types.Slice)
		return ok && looseIdentical(x.Elem(), y.Elem(), depth+1)
	case *types.Array:
		y, ok := b.(*types.Array)
		return ok && x.Len() == y.Len() && looseIdentical(x.Elem(), y.Elem(), depth+1)
	case *types.Chan:
		y, ok := b.(*types.Chan)
		return ok && looseIdentical(x.Elem(), y.Elem(), depth+1)
	case *types.Map:
		y, ok := b.(*types.Map)
		return ok && looseIdentical(x.Key(), y.Key(), depth+1) && looseIdentical(x.Elem(), y.Elem(), depth+1)
	case *types.Signature:
		y, ok := b.(*types.Signature)
		if !ok || x.Variadic() != y.Variadic() || x.Params().Len() != y.Params().Len() || x.Results().Len() != y.Results().Len() {
			return false
		}
		for i := 0; i < x.Params().Len(); i++ {
			if !looseIdentical(x.Params().At(i).Type(), y.Params().At(i).Type(), depth+1) {
				return false
			}
		}
		for i := 0; i < x.Results().Len(); i++ {
			if !looseIdentical(x.Results().At(i).Type(), y.Results().At(i).Type(), depth+1) {
				return false
			}
		}
		return true
	}
	return true // structs / interfaces mentioning type parameters: conservative
}

func (g *gen) collectNamed() {
	for _, p := range g.l.order {
		sc := p.pkg.Scope()
		for _, nm := range sc.Names() {
			tn, ok := sc.Lookup(nm).(*types.TypeName)
			if !ok || tn.IsAlias() {
				continue
			}
			n, ok := tn.Type().(*types.Named)
			if !ok {
				continue
			}
			if _, isIface := n.Underlying().(*types.Interface); isIface {
				continue
			}
			g.named = append(g.named, n)
		}
	}
}

func (g *gen) mentionsAnalysed(t types.Type, seen map[types.Type]bool) bool {
	if seen[t] {
		return false
	}
	seen[t] = true
	switch x := t.(type) {
	case *types.Alias:
		return g.mentionsAnalysed(types.Unalias(x), seen)
	case *types.Named:
		if x.Obj().Pkg() != nil && g.analysed[x.Obj().Pkg()] != nil {
			return true
		}
		if ta := x.TypeArgs(); ta != nil {
			for i := 0; i < ta.Len(); i++ {
				if g.mentionsAnalysed(ta.At(i), seen) {
					return true
				}
			}
		}
		// an external named func/struct type mentioning package types only through type arguments
		return false
	case *types.Pointer:
		return g.mentionsAnalysed(x.Elem(), seen)
	case *types.Slice:
		return g.mentionsAnalysed(x.Elem(), seen)
	case *types.Array:
		return g.mentionsAnalysed(x.Elem(), seen)
	case *types.Chan:
		return g.mentionsAnalysed(x.Elem(), seen)
	case *types.Map:
		return g.mentionsAnalysed(x.Key(), seen) || g.mentionsAnalysed(x.Elem(), seen)
	case *types.Signature:
		return g.mentionsAnalysed(x.Params(), seen) || g.mentionsAnalysed(x.Results(), seen)
	case *types.Tuple:
		for i := 0; i < x.Len(); i++ {
			if g.mentionsAnalysed(x.At(i).Type(), seen) {
				return true
			}
		}
	case *types.Struct:
		for i := 0; i < x.NumFields(); i++ {
			if g.mentionsAnalysed(x.Field(i).Type(), seen) {
				return true
			}
		}
	case *types.Interface:
		for i := 0; i < x.NumMethods(); i++ {
			if g.mentionsAnalysed(x.Method(i).Type(), seen) {
				return true
			}
		}
	}
	return false
}

// methodNodes lists (name, node) of the methods in the method set of *T that have an analysed body.
func (g *gen) methodNodes(T *types.Named) map[string]*node {
	out := map[string]*node{}
	ms := types.NewMethodSet(types.NewPointer(T))
	for i := 0; i < ms.Len(); i++ {
		fn, ok := ms.At(i).Obj().(*types.Func)
		if !ok {
			continue
		}
		if n, ok := g.byFunc[fn.Origin()]; ok {
			out[fn.Name()] = n
		}
	}
	return out
}

// externallyCallable: methods of T that code outside the analysed packages can
// invoke on a value of type T it holds behind an interface: exported methods
// whose signature mentions no type of the analysed packages (no external
// interface / type assertion can name those).
func (g *gen) externallyCallable(T *types.Named) []*node {
	var out []*node
	mn := g.methodNodes(T)
	names := make([]string, 0, len(mn))
	for k := range mn {
		names = append(names, k)
	}
	sort.Strings(names)
	for _, k := range names {
		n := mn[k]
		if !ast.IsExported(k) {
			continue
		}
		if g.mentionsAnalysed(stripRecv(n.fn.Type().(*types.Signature)), map[types.Type]bool{}) {
			continue
		}
		out = append(out, n)
	}
	return out
}

func (g *gen) implementers(it *types.Interface) []*types.Named {
	var out []*types.Named
	for _, T := range g.named {
		if T.TypeParams() != nil {
			continue
		}
		if types.Implements(T, it) || types.Implements(types.NewPointer(T), it) {
			out = append(out, T)
		}
	}
	return out
}

// opaquePolicy: for callees declared in these standard-library packages, the
// methods they may invoke on an OPAQUE value they are handed (static type `any`,
// a type parameter, or a concrete type of the analysed packages), as documented
// by those packages. Non-empty interfaces and function values are not opaque and
// always get the general rule. A package that is not listed gets the fully
// conservative rule (every externally callable method of every package type).
// This table is an assumption of the check (listed in the evidence).
var opaquePolicy = map[string][]string{
	"fmt":          {"Error", "String", "Format", "GoString"},
	"errors":       {"Error", "Is", "As", "Unwrap"},
	"reflect":      nil,
	"unsafe":       nil,
	"sync":         nil,
	"sync/atomic":  nil,
	"runtime":      nil,
	"context":      nil,
	"strings":      nil,
	"strconv":      nil,
	"bytes":        nil,
	"unicode":      nil,
	"unicode/utf8": nil,
	"path":         nil,
	"math":         nil,
	"cmp":          nil,
	"slices":       nil,
	"maps":         nil,
	"sort":         nil,
	"iter":         nil,
	"time":         nil,
	"regexp":       nil,
	"net":          nil,
	"net/url":      nil,
	"net/netip":    nil,
}

// noCallback: external functions assumed (from their documentation) never to
// call anything on their arguments: they only store them. An assumption of the
// check, listed in the evidence.
var noCallback = map[string]bool{
	"log/slog.New": true,
}

type walkAcc struct {
	ifaces []*types.Interface
	sigs   []*types.Signature
	named  []*types.Named
	seen   map[types.Type]bool
}

func (g *gen) walkType(t types.Type, a *walkAcc) {
	if t == nil || a.seen[t] {
		return
	}
	a.seen[t] = true
	switch x := t.(type) {
	case *types.Alias:
		g.walkType(types.Unalias(x), a)
	case *types.Named:
		if ta := x.TypeArgs(); ta != nil {
			for i := 0; i < ta.Len(); i++ {
				g.walkType(ta.At(i), a)
			}
		}
		if it, ok := x.Underlying().(*types.Interface); ok {
			a.ifaces = append(a.ifaces, it)
			return
		}
		if x.Obj().Pkg() != nil && g.analysed[x.Obj().Pkg()] != nil {
			a.named = append(a.named, x.Origin())
			return // package values: only their externally callable methods matter to external code
		}
		g.walkType(x.Underlying(), a)
	case *types.Interface:
		a.ifaces = append(a.ifaces, x)
	case *types.TypeParam:
		a.ifaces = append(a.ifaces, types.NewInterfaceType(nil, nil)) // treat as `any`
	case *types.Signature:
		a.sigs = append(a.sigs, x)
	case *types.Pointer:
		g.walkType(x.Elem(), a)
	case *types.Slice:
		g.walkType(x.Elem(), a)
	case *types.Array:
		g.walkType(x.Elem(), a)
	case *types.Chan:
		g.walkType(x.Elem(), a)
	case *types.Map:
		g.walkType(x.Key(), a)
		g.walkType(x.Elem(), a)
	case *types.Struct:
		for i := 0; i < x.NumFields(); i++ {
			g.walkType(x.Field(i).Type(), a)
		}
	case *types.Tuple:
		for i := 0; i < x.Len(); i++ {
			g.walkType(x.At(i).Type(), a)
		}
	}
}

// callbacks: nodes that code outside the analysed packages may call when it is handed values of the given static types.
func (g *gen) callbacks(tys []types.Type, pkg string, memo map[string][]int) []int {
	if len(tys) == 0 {
		return nil
	}
	policy, known := opaquePolicy[pkg]
	polKey := "*"
	if known {
		polKey = strings.Join(policy, ",") + ";"
	}
	opaque := func(T *types.Named) []*node {
		if !known {
			return g.externallyCallable(T)
		}
		var out []*node
		mn := g.methodNodes(T)
		for _, m := range policy {
			if n, ok := mn[m]; ok {
				out = append(out, n)
			}
		}
		return out
	}
	keys := make([]string, len(tys))
	for i, t := range tys {
		keys[i] = types.TypeString(t, nil)
	}
	key := polKey + strings.Join(keys, " | ")
	if r, ok := memo[key]; ok {
		return r
	}
	a := &walkAcc{seen: map[types.Type]bool{}}
	for _, t := range tys {
		g.walkType(t, a)
	}
	set := map[int]bool{}
	for _, it := range a.ifaces {
		if it.NumMethods() == 0 {
			// an opaque value (`any`, type parameter): which methods the callee may discover by type assertion
			for _, T := range g.named {
				for _, n := range opaque(T) {
					set[n.id] = true
				}
			}
			continue
		}
		for _, T := range g.implementers(it) {
			mn := g.methodNodes(T)
			for i := 0; i < it.NumMethods(); i++ {
				if n, ok := mn[it.Method(i).Name()]; ok {
					set[n.id] = true
				}
			}
			for _, n := range g.externallyCallable(T) {
				set[n.id] = true
			}
		}
	}
	for _, T := range a.named {
		for _, n := range opaque(T) {
			set[n.id] = true
		}
	}
	for _, s := range a.sigs {
		for _, at := range g.addr {
			if sigMatch(s, at.sig) {
				set[at.node] = true
			}
		}
	}
	out := make([]int, 0, len(set))
	for k := range set {
		out = append(out, k)
	}
	sort.Ints(out)
	memo[key] = out
	return out
}

func (g *gen) resolve() {
	memo := map[string][]int{}
	unk := func(n *node) []int {
		a := make([]int, len(n.slots))
		for i := range a {
			a[i] = argUnk
		}
		return a
	}
	for _, n := range g.nodes {
		for _, pd := range n.pend {
			switch pd.kind {
			case "dyn":
				for _, at := range g.addr {
					if sigMatch(pd.sig, at.sig) {
						n.edges = append(n.edges, edge{g: pd.g, callee: at.node, args: unk(g.nodes[at.node]), why: pd.desc})
					}
				}
			case "iface":
				for _, T := range g.implementers(pd.iface) {
					if m, ok := g.methodNodes(T)[pd.meth]; ok {
						n.edges = append(n.edges, edge{g: pd.g, callee: m.id, args: unk(m), why: pd.desc})
					}
				}
				// the dynamic receiver may also live outside the analysed packages: what can it call back?
				for _, id := range g.callbacks(pd.tys, pd.pkg, memo) {
					n.edges = append(n.edges, edge{g: pd.g, callee: id, args: unk(g.nodes[id]), why: "callback from " + pd.desc})
				}
			case "ext":
				for _, id := range g.callbacks(pd.tys, pd.pkg, memo) {
					n.edges = append(n.edges, edge{g: pd.g, callee: id, args: unk(g.nodes[id]), why: "callback from " + pd.desc})
				}
			}
		}
		// dedup
		seen := map[string]bool{}
		var out []edge
		for _, e := range n.edges {
			k := fmt.Sprintf("%s|%d|%v", e.g.key(), e.callee, e.args)
			if !seen[k] {
				seen[k] = true
				out = append(out, e)
			}
		}
		n.edges = out
	}
}

// ---------------------------------------------------------------- entry types, synthetic result nodes

func (g *gen) entries() {
	root := g.l.pkgs[g.l.modpath]
	var nodes []*node
	for _, n := range g.nodes {
		if n.fn == nil || n.recvT == nil || n.fn.Pkg() != root.pkg {
			continue
		}
		if !g.entryType[n.recvT.Obj().Name()] || !n.fn.Exported() {
			continue
		}
		nodes = append(nodes, n)
	}
	for _, n := range nodes {
		g.exported = append(g.exported, n.id)
		res := n.fn.Type().(*types.Signature).Results()
		for i := 0; i < res.Len(); i++ {
			if sig, ok := res.At(i).Type().Underlying().(*types.Signature); ok {
				s := g.newNode(fmt.Sprintf("%s$result", n.name), token.NoPos)
				s.synth = true
				s.pend = append(s.pend, pending{kind: "dyn", sig: sig, desc: "the caller invokes the function value returned by " + n.name})
				g.results = append(g.results, [2]int{n.id, s.id})
			}
		}
	}
}

// ---------------------------------------------------------------- diagnostics: the same reachability, in Go, with witness paths

type state struct {
	f  int
	ks string // one of '?', 't', 'f' per slot
}

func guardOK(g guard, ks string) bool {
	for _, t := range g {
		if t.slot < len(ks) {
			if (ks[t.slot] == 't' && !t.val) || (ks[t.slot] == 'f' && t.val) {
				return false
			}
		}
	}
	return true
}

func (g *gen) succ(s state, e edge) state {
	b := make([]byte, len(e.args))
	for i, a := range e.args {
		switch {
		case a == argTrue:
			b[i] = 't'
		case a == argFalse:
			b[i] = 'f'
		case a >= 0 && a < len(s.ks):
			b[i] = s.ks[a]
		default:
			b[i] = '?'
		}
	}
	return state{e.callee, string(b)}
}

type hit struct {
	Leaf string   `json:"leaf"`
	Path []string `json:"path"`
}

func (g *gen) leafName(l leaf) string {
	if l.kind == "Acquire" || l.kind == "Release" {
		return l.kind + "(" + g.locks[l.lock] + ")"
	}
	return l.kind
}

func (g *gen) explore(start state) (int, []hit) {
	parent := map[state]state{}
	seen := map[state]bool{start: true}
	q := []state{start}
	var hits []hit
	got := map[string]bool{}
	for len(q) > 0 {
		s := q[0]
		q = q[1:]
		n := g.nodes[s.f]
		for _, l := range n.leaves {
			if guardOK(l.g, s.ks) && !got[g.leafName(l)] {
				got[g.leafName(l)] = true
				var path []string
				for x := s; ; x = parent[x] {
					path = append([]string{fmt.Sprintf("%s[%s]", g.nodes[x.f].name, x.ks)}, path...)
					if x == start {
						break
					}
				}
				path = append(path, g.leafName(l)+" at "+l.pos)
				hits = append(hits, hit{Leaf: g.leafName(l), Path: path})
			}
		}
		for _, e := range n.edges {
			if !guardOK(e.g, s.ks) {
				continue
			}
			t := g.succ(s, e)
			if !seen[t] {
				seen[t] = true
				parent[t] = s
				q = append(q, t)
			}
		}
	}
	return len(seen), hits
}

// ---------------------------------------------------------------- output

var identRe = regexp.MustCompile(`[^A-Za-z0-9_]`)

func coqIdent(s string) string { return identRe.ReplaceAllString(s, "_") }

func coqGuard(g guard) string {
	if len(g) == 0 {
		return "[]"
	}
	s := make([]string, len(g))
	for i, t := range g {
		s[i] = fmt.Sprintf("(%d, %v)", t.slot, t.val)
	}
	return "[" + strings.Join(s, "; ") + "]"
}

func coqArgs(a []int) string {
	if len(a) == 0 {
		return "[]"
	}
	s := make([]string, len(a))
	for i, x := range a {
		switch {
		case x == argTrue:
			s[i] = "AConst true"
		case x == argFalse:
			s[i] = "AConst false"
		case x >= 0:
			s[i] = fmt.Sprintf("AParam %d", x)
		default:
			s[i] = "AUnk"
		}
	}
	return "[" + strings.Join(s, "; ") + "]"
}

func (g *gen) coqLeaf(l leaf) string {
	switch l.kind {
	case "Acquire":
		return fmt.Sprintf("Acquire %d%%N", l.lock)
	case "Release":
		return fmt.Sprintf("Release %d%%N", l.lock)
	default:
		return l.kind
	}
}

// shapeRows: the methods of Router and Txn, in declaration order.
func (g *gen) shapeRows() []*node {
	var out []*node
	for _, n := range g.nodes {
		if n.fn == nil || n.recvT == nil || n.fn.Pkg() == nil || n.fn.Pkg().Path() != g.l.modpath {
			continue
		}
		if nm := n.recvT.Obj().Name(); nm != "Router" && nm != "Txn" {
			continue
		}
		out = append(out, n)
	}
	return out
}

func (g *gen) write(out string) error {
	var sb strings.Builder
	sb.WriteString("(* GENERATED by harness/cmd/cggen from the Go sources of fox — do not edit.\n")
	sb.WriteString("   Guarded call graph of package fox and the module-internal packages it imports. *)\n")
	sb.WriteString("From Coq Require Import List String NArith.\nFrom FoxC06 Require Import Graph.\nImport ListNotations.\nOpen Scope string_scope.\n\n")
	sb.WriteString("(* lock objects *)\n")
	for i, l := range g.locks {
		fmt.Fprintf(&sb, "Definition lock_%s : N := %d%%N.\n", coqIdent(strings.TrimPrefix(l, "fox.")), i)
	}
	sb.WriteString("Definition lock_names : list string := [")
	for i, l := range g.locks {
		if i > 0 {
			sb.WriteString("; ")
		}
		fmt.Fprintf(&sb, "%q", l)
	}
	sb.WriteString("].\n\n(* function ids of the exported methods of the entry types, and of their synthetic result nodes *)\n")
	for _, id := range g.exported {
		fmt.Fprintf(&sb, "Definition f_%s : N := %d%%N.\n", coqIdent(g.nodes[id].name), id)
	}
	for _, n := range g.nodes { // internals the hand-written files refer to
		if n.name == "Router.txnWith" || n.name == "Router.getRoot" {
			fmt.Fprintf(&sb, "Definition f_%s : N := %d%%N.\n", coqIdent(n.name), n.id)
		}
	}
	sb.WriteString("Definition exported_methods : list N := [")
	for i, id := range g.exported {
		if i > 0 {
			sb.WriteString("; ")
		}
		fmt.Fprintf(&sb, "f_%s", coqIdent(g.nodes[id].name))
	}
	sb.WriteString("].\n")
	sb.WriteString("Definition result_nodes : list (N * N) := [")
	for i, r := range g.results {
		if i > 0 {
			sb.WriteString("; ")
		}
		fmt.Fprintf(&sb, "(f_%s, %d%%N)", coqIdent(g.nodes[r[0]].name), r[1])
	}
	sb.WriteString("].\n\n(* slot names of the functions that have slots *)\nDefinition slot_names : list (N * list string) := [\n")
	first := true
	for _, n := range g.nodes {
		if len(n.slots) == 0 {
			continue
		}
		if !first {
			sb.WriteString(";\n")
		}
		first = false
		s := make([]string, len(n.slots))
		for i, sl := range n.slots {
			s[i] = fmt.Sprintf("%q", sl.name)
		}
		fmt.Fprintf(&sb, "  (%d%%N, [%s]) (* %s *)", n.id, strings.Join(s, "; "), n.name)
	}
	sb.WriteString("\n].\n\nDefinition names : list string := [\n")
	for i, n := range g.nodes {
		if i > 0 {
			sb.WriteString(";\n")
		}
		fmt.Fprintf(&sb, "  %q", n.name)
	}
	// shared-state skeleton: field table, per function reads / writes, shape of the Router / Txn methods
	fset := map[string]bool{}
	for _, n := range g.nodes {
		for k := range n.reads {
			fset[k] = true
		}
		for k := range n.writes {
			fset[k] = true
		}
	}
	g.fields = g.fields[:0]
	for k := range fset {
		g.fields = append(g.fields, k)
	}
	sort.Strings(g.fields)
	fid := map[string]int{}
	for i, k := range g.fields {
		fid[k] = i
	}
	coqFields := func(m map[string]bool) string {
		var ids []int
		for k := range m {
			ids = append(ids, fid[k])
		}
		sort.Ints(ids)
		ss := make([]string, len(ids))
		for i, x := range ids {
			ss[i] = fmt.Sprintf("%d%%N", x)
		}
		return "[" + strings.Join(ss, "; ") + "]"
	}
	sb.WriteString("\n].\n\n(* fields of Router / Txn / iTree and package-level variables that are accessed somewhere *)\nDefinition field_names : list string := [\n")
	for i, k := range g.fields {
		if i > 0 {
			sb.WriteString(";\n")
		}
		fmt.Fprintf(&sb, "  %q", k)
	}
	sb.WriteString("\n].\n\n(* every struct field / package variable of the analysed packages that is a synchronisation or communication object *)\nDefinition sync_inventory : list string := [\n")
	for i, k := range g.syncInventory() {
		if i > 0 {
			sb.WriteString(";\n")
		}
		fmt.Fprintf(&sb, "  %q", k)
	}
	sb.WriteString("\n].\n\n(* what the bool fields of Router / Txn / iTree are initialised with, per composite literal *)\nDefinition flag_sites : list string := [\n")
	sort.Strings(g.flags)
	for i, k := range g.flags {
		if i > 0 {
			sb.WriteString(";\n")
		}
		fmt.Fprintf(&sb, "  %q", k)
	}
	sb.WriteString("\n].\n\n(* methods of Router and Txn: (name, (for/range statements, calls into sync/atomic)), function literals included *)\nDefinition shape_table : list (string * (nat * nat)) := [\n")
	for i, n := range g.shapeRows() {
		if i > 0 {
			sb.WriteString(";\n")
		}
		fmt.Fprintf(&sb, "  (%q, (%d, %d))", n.name, n.loops, n.atomics)
	}
	sb.WriteString("\n].\n\nDefinition graph : graph := [\n")
	for i, n := range g.nodes {
		if i > 0 {
			sb.WriteString(";\n")
		}
		fmt.Fprintf(&sb, " (* %d %s %s *)\n mkfn %d [", n.id, n.name, n.pos, len(n.slots))
		for j, e := range n.edges {
			if j > 0 {
				sb.WriteString(";")
			}
			fmt.Fprintf(&sb, "\n   mkedge %s %d%%N %s", coqGuard(e.g), e.callee, coqArgs(e.args))
		}
		sb.WriteString("] [")
		for j, l := range n.leaves {
			if j > 0 {
				sb.WriteString("; ")
			}
			fmt.Fprintf(&sb, "mkleaf %s (%s)", coqGuard(l.g), g.coqLeaf(l))
		}
		fmt.Fprintf(&sb, "] %s %s", coqFields(n.reads), coqFields(n.writes))
	}
	sb.WriteString("\n].\n")
	tmp := out + ".tmp"
	if err := os.WriteFile(tmp, []byte(sb.String()), 0o644); err != nil {
		return err
	}
	// keep the old file (and its mtime) when nothing changed: no needless Coq rebuild
	if old, err := os.ReadFile(out); err == nil && string(old) == sb.String() {
		return os.Remove(tmp)
	}
	return os.Rename(tmp, out)
}

func main() {
	args := map[string]string{}
	for _, a := range os.Args[1:] {
		if i := strings.IndexByte(a, '='); i > 0 {
			args[a[:i]] = a[i+1:]
		}
	}
	out := args["out"]
	if out == "" {
		fmt.Fprintln(os.Stderr, "usage: cggen out=<GenCallGraph.v> [json=<summary.json>]")
		os.Exit(2)
	}
	repo := os.Getenv("VERIF_REPO")
	if repo == "" {
		repo = "/repo"
	}
	repo, _ = filepath.Abs(repo)
	modpath := ""
	if b, err := os.ReadFile(filepath.Join(repo, "go.mod")); err == nil {
		for _, ln := range strings.Split(string(b), "\n") {
			if strings.HasPrefix(ln, "module ") {
				modpath = strings.TrimSpace(strings.TrimPrefix(ln, "module "))
			}
		}
	}
	if modpath == "" {
		fmt.Fprintln(os.Stderr, "cggen: cannot read module path from", repo)
		os.Exit(2)
	}
	if err := os.Chdir(repo); err != nil {
		fmt.Fprintln(os.Stderr, "cggen:", err)
		os.Exit(2)
	}
	build.Default.CgoEnabled = false // pure-Go variants of net, os/user: no C toolchain needed
	fset := token.NewFileSet()
	l := &loader{fset: fset, repo: repo, modpath: modpath, pkgs: map[string]*apkg{}}
	l.std = importer.ForCompiler(fset, "source", nil).(types.ImporterFrom)
	if _, err := l.load(modpath); err != nil {
		fmt.Fprintln(os.Stderr, "cggen: load:", err)
		os.Exit(2)
	}
	if len(l.errs) > 0 {
		fmt.Fprintln(os.Stderr, "cggen: type errors (refusing):\n ", strings.Join(l.errs[:min(len(l.errs), 10)], "\n  "))
		os.Exit(3)
	}
	g := &gen{l: l, analysed: map[*types.Package]*apkg{}, byFunc: map[*types.Func]*node{}, byLit: map[*ast.FuncLit]*node{},
		litCount: map[*node]int{}, lockID: map[string]int{}, okMutex: map[ast.Expr]bool{},
		entryType: map[string]bool{"Router": true, "Txn": true, "Iter": true, "cTx": true, "Route": true}}
	for _, p := range l.order {
		g.analysed[p.pkg] = p
	}
	bad := g.scanAssignments()
	g.declareFuncs(bad)
	g.collectNamed()
	g.bodies()
	g.spinCalls()
	g.entries()
	g.resolve()
	if len(g.refusals) > 0 {
		fmt.Fprintf(os.Stderr, "cggen: REFUSING: %d construct(s) of unknown shape:\n  %s\n", len(g.refusals), strings.Join(g.refusals[:min(len(g.refusals), 20)], "\n  "))
		os.Exit(3)
	}
	if _, ok := g.lockID["fox.Router.mu"]; !ok {
		fmt.Fprintln(os.Stderr, "cggen: REFUSING: no acquisition of fox.Router.mu found anywhere: the writer lock is not where the model expects it")
		os.Exit(3)
	}
	if err := g.write(out); err != nil {
		fmt.Fprintln(os.Stderr, "cggen:", err)
		os.Exit(2)
	}

	// summary + diagnostics (untrusted; the proof is re-done by Coq on the generated file)
	nedges, nleaves := 0, map[string]int{}
	for _, n := range g.nodes {
		nedges += len(n.edges)
		for _, lf := range n.leaves {
			nleaves[g.leafName(lf)]++
		}
	}
	type row struct {
		Entry  string `json:"entry"`
		ID     int    `json:"id"`
		Known  string `json:"known"`
		States int    `json:"states"`
		Hits   []hit  `json:"hits"`
	}
	var rows []row
	targets := append([]int{}, g.exported...)
	for _, r := range g.results {
		targets = append(targets, r[1])
	}
	for _, id := range targets {
		n := g.nodes[id]
		vecs := []string{""}
		for range n.slots {
			var nv []string
			for _, v := range vecs {
				nv = append(nv, v+"f", v+"t")
			}
			vecs = nv
		}
		for _, v := range vecs {
			ns, hits := g.explore(state{id, v})
			rows = append(rows, row{Entry: n.name, ID: id, Known: v, States: ns, Hits: hits})
		}
	}
	names := make([]string, len(g.nodes))
	shapes := map[string][2]int{}
	for i, n := range g.nodes {
		names[i] = n.name
		if n.loops > 0 || n.atomics > 0 {
			shapes[n.name] = [2]int{n.loops, n.atomics}
		}
	}
	var pkgs []string
	for _, p := range l.order {
		pkgs = append(pkgs, p.path)
	}
	var shapeRows []string
	for _, n := range g.shapeRows() {
		shapeRows = append(shapeRows, fmt.Sprintf("%s: %d for/range statement(s), %d sync/atomic call(s) [%s]", n.name, n.loops, n.atomics, n.pos))
	}
	sum := map[string]any{"repo": repo, "packages": pkgs, "functions": len(g.nodes), "edges": nedges, "leaves": nleaves,
		"locks": g.locks, "address_taken": len(g.addr), "exported_methods": len(g.exported), "result_nodes": len(g.results),
		"entries": rows, "names": names, "fields": g.fields, "shapes": shapes, "sync_inventory": g.syncInventory(), "shape_rows": shapeRows, "flag_sites": g.flags}
	if js := args["json"]; js != "" {
		b, _ := json.MarshalIndent(sum, "", " ")
		if err := os.WriteFile(js, b, 0o644); err != nil {
			fmt.Fprintln(os.Stderr, "cggen:", err)
			os.Exit(2)
		}
	}
	fmt.Printf("cggen: %d packages, %d nodes, %d edges, leaves %v, locks %v\n", len(pkgs), len(g.nodes), nedges, nleaves, g.locks)
}
