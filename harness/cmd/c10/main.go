// c10: runs fox's pattern validator (parseRoute via VerifParseRoute, and the
// NewRoute / Handle / Delete entry points), parseWildcard and single-route
// lookups, and writes Coq case files comparing them with FoxPattern.ParseRoute /
// ParseWildcard (model) and FoxPattern.Grammar / Token (specification).
//
//	exhaustive  all strings of length <= 5 over {a 1 - . / { } *} x 16 limit pairs, one case per string
//	blocks      (thorough) lengths 6..7: one case per 4-byte prefix carrying a digest of all observations
//	random      structured patterns (labels crossing 63/255, names around the key limit), mutated; arbitrary bytes
//	wild        parseWildcard on keys cut from accepted patterns at token boundaries
//	route       each accepted pattern registered alone, instantiated, served and reversed
//	replay=block:<hexprefix>:<lo>:<hi> expands one block into per-string cases
package main

import (
	"encoding/hex"
	"encoding/json"
	"errors"
	"fmt"
	"math/big"
	"net/http"
	"net/http/httptest"
	"net/url"
	"os"
	"path/filepath"
	"strconv"
	"slices"
	"strings"
	"sync"

	"foxverif/hx"

	"github.com/tigerwill90/fox"
)

const alpha = "a1-./{}*"

var limits = []uint16{0, 1, 2, 65535}

// ---------- observation of parseRoute ----------

type obs struct {
	kind int // -1 accepted, 0 panicked, else number of the error text (rkind_code)
	n    uint32
	eh   int
}

func (o obs) coq() string {
	switch {
	case o.kind == -1:
		return fmt.Sprintf("(OA %d%%N %d%%N)", o.n, o.eh)
	case o.kind == 0:
		return "OP"
	}
	return fmt.Sprintf("(OR %d%%N)", o.kind)
}
func (o obs) String() string {
	switch {
	case o.kind == -1:
		return fmt.Sprintf("accept(n=%d,host=%d)", o.n, o.eh)
	case o.kind == 0:
		return "PANIC"
	}
	return fmt.Sprintf("reject#%d", o.kind)
}

var exact = map[string]int{
	"missing trailing '/' after hostname":             1,
	"illegal leading '.' in hostname label":           2,
	"illegal leading '-' in hostname label":           3,
	"missing parameter name between '{}'":             4,
	"missing parameter name between '*{}'":            8,
	"consecutive wildcard not allowed":                10,
	"catch-all wildcard not supported in hostname":    12,
	"missing '{param}' after '*' catch-all delimiter": 13,
	"illegal '-' after '.' in hostname label":         14,
	"unexpected consecutive '.' in hostname":          15,
	"illegal '-' before '.' in hostname label":        16,
	"hostname label exceed 63 characters":             17,
	"illegal trailing '-' in hostname label":          20,
	"illegal trailing '.' in hostname label":          21,
	"invalid all numeric hostname":                    22,
	"hostname exceed 255 characters":                  23,
	"unclosed '{param}'":                              24,
	"unclosed '*{param}'":                             25,
}

func kindOf(err error) int {
	if !errors.Is(err, fox.ErrInvalidRoute) {
		return 99
	}
	if errors.Is(err, fox.ErrParamKeyTooLarge) {
		return 6
	}
	if errors.Is(err, fox.ErrTooManyParams) {
		return 19
	}
	m := strings.TrimPrefix(err.Error(), "invalid route: ")
	if k, ok := exact[m]; ok {
		return k
	}
	if strings.HasPrefix(m, "illegal character '") {
		switch {
		case strings.HasSuffix(m, "' after '{param}'"):
			return 5
		case strings.HasSuffix(m, "' in '{param}'"):
			return 7
		case strings.HasSuffix(m, "' after '*{param}'"):
			return 9
		case strings.HasSuffix(m, "' in '*{param}'"):
			return 11
		case strings.HasSuffix(m, "' in hostname label"):
			return 18
		}
	}
	return 98
}

type env struct {
	r      *fox.Router
	mp, mk uint16
}

func newEnv(mp, mk uint16) *env {
	r, err := fox.New(fox.WithMaxRouteParams(mp), fox.WithMaxRouteParamKeyBytes(mk))
	hx.Fatal(err)
	return &env{r: r, mp: mp, mk: mk}
}

func nop(c fox.Context) {}

func sameErr(a, b error) bool {
	if a == nil || b == nil {
		return a == nil && b == nil
	}
	return a.Error() == b.Error()
}

// observe runs the validator and checks that every registration / deletion
// path gives the same verdict (agree).
func (e *env) observe(p string, full bool) (o obs, agree bool) {
	defer func() {
		if r := recover(); r != nil {
			o, agree = obs{kind: 0}, true
		}
	}()
	n, eh, err := e.r.VerifParseRoute(p)
	if err != nil {
		o = obs{kind: kindOf(err)}
	} else {
		o = obs{kind: -1, n: n, eh: eh}
	}
	agree = true
	rte, err2 := e.r.NewRoute(p, nop)
	if !sameErr(err, err2) || (err2 == nil && rte.Pattern() != p) {
		agree = false
	}
	if err == nil || full {
		_, err3 := e.r.Handle(http.MethodGet, p, nop)
		if !sameErr(err, err3) {
			agree = false
		}
		_, err4 := e.r.Delete(http.MethodGet, p)
		if err == nil {
			if err4 != nil || e.r.Len() != 0 {
				agree = false
			}
		} else if !sameErr(err, err4) {
			agree = false
		}
	}
	return o, agree
}

// observeParse: validator and NewRoute only (no registration: used for very long patterns)
func (e *env) observeParse(p string) (o obs, agree bool) {
	defer func() {
		if r := recover(); r != nil {
			o, agree = obs{kind: 0}, true
		}
	}()
	n, eh, err := e.r.VerifParseRoute(p)
	if err != nil {
		o = obs{kind: kindOf(err)}
	} else {
		o = obs{kind: -1, n: n, eh: eh}
	}
	rte, err2 := e.r.NewRoute(p, nop)
	agree = sameErr(err, err2) && (err2 != nil || rte.Pattern() == p)
	return o, agree
}

// ---------- tokens (harness-side helper used to cut keys and build requests) ----------

type tok struct {
	kind byte // 's' static, 'p' param, 'c' catch-all
	text string
}

func tokenize(p string) []tok {
	var ts []tok
	for i := 0; i < len(p); {
		switch {
		case p[i] == '{':
			j := strings.IndexByte(p[i:], '}')
			if j < 0 {
				return ts
			}
			ts = append(ts, tok{'p', p[i+1 : i+j]})
			i += j + 1
		case p[i] == '*' && i+1 < len(p) && p[i+1] == '{':
			j := strings.IndexByte(p[i:], '}')
			if j < 0 {
				return ts
			}
			ts = append(ts, tok{'c', p[i+2 : i+j]})
			i += j + 1
		default:
			ts = append(ts, tok{'s', p[i : i+1]})
			i++
		}
	}
	return ts
}

func render(ts []tok) string {
	var sb strings.Builder
	for _, t := range ts {
		switch t.kind {
		case 's':
			sb.WriteString(t.text)
		case 'p':
			sb.WriteString("{" + t.text + "}")
		case 'c':
			sb.WriteString("*{" + t.text + "}")
		}
	}
	return sb.String()
}

// ---------- case collection with weights ----------

type item struct {
	term, human string
	weight      int
}

type collector struct {
	items []item
}

func (c *collector) add(term, human string, w int) {
	c.items = append(c.items, item{term, human, w})
}

const header = "From FoxBase Require Import Bytes.\nFrom FoxPattern Require Import ParseRoute ParseWildcard Token Grammar Corr.\nOpen Scope char_scope.\n"
const footer = "Definition vs := Eval vm_compute in verdicts cases.\n" +
	"Definition mism := Eval vm_compute in mismatches vs.\nPrint mism.\n" +
	"Definition viol := Eval vm_compute in spec_violations vs.\nPrint viol.\n" +
	"Definition oof := Eval vm_compute in fuel_outs vs.\nPrint oof.\n" +
	"Definition known_c10_underscore_hostname := Eval vm_compute in known_underscores vs.\nPrint known_c10_underscore_hostname.\n"

// write splits the items into at most `shards` contiguous files of similar weight.
func (c *collector) write(dir string, shards int) error {
	if err := os.MkdirAll(dir, 0o755); err != nil {
		return err
	}
	old, _ := filepath.Glob(filepath.Join(dir, "cases_*"))
	for _, f := range old {
		os.Remove(f)
	}
	total := 0
	for _, it := range c.items {
		total += it.weight
	}
	per := total/shards + 1
	type idx struct {
		Shard int      `json:"shard"`
		Human []string `json:"human"`
	}
	var index []idx
	k, lo := 0, 0
	flush := func(hi int) error {
		if hi == lo {
			return nil
		}
		var sb strings.Builder
		sb.WriteString(header)
		sb.WriteString("\nDefinition cases : list (case) := [\n")
		hs := make([]string, 0, hi-lo)
		for i := lo; i < hi; i++ {
			if i > lo {
				sb.WriteString(";\n")
			}
			sb.WriteString("  ")
			sb.WriteString(c.items[i].term)
			hs = append(hs, c.items[i].human)
		}
		sb.WriteString("\n].\n")
		sb.WriteString(footer)
		if err := os.WriteFile(filepath.Join(dir, fmt.Sprintf("cases_%d.v", k)), []byte(sb.String()), 0o644); err != nil {
			return err
		}
		index = append(index, idx{Shard: k, Human: hs})
		k++
		lo = hi
		return nil
	}
	acc := 0
	for i, it := range c.items {
		acc += it.weight
		// also bound the number of terms per file (coqc parses long list literals slowly)
		if acc >= per || i+1-lo >= 4000 {
			if err := flush(i + 1); err != nil {
				return err
			}
			acc = 0
		}
	}
	if err := flush(len(c.items)); err != nil {
		return err
	}
	b, _ := json.Marshal(index)
	return os.WriteFile(filepath.Join(dir, "cases.json"), b, 0o644)
}

// ---------- digests (mirror of Corr.v) ----------

var p61 = new(big.Int).Sub(new(big.Int).Lsh(big.NewInt(1), 61), big.NewInt(1))

func code(o obs, agree bool) int64 {
	var c int64
	switch {
	case o.kind == -1:
		c = 32 + int64(o.n)*8 + int64(o.eh)
	case o.kind == 0:
		c = 0
	default:
		c = int64(o.kind)
	}
	if !agree {
		c += 64
	}
	return c
}

func erase(o obs) int64 {
	switch {
	case o.kind == -1:
		return 32 + int64(o.n)*8 + int64(o.eh)
	case o.kind == 0:
		return 0
	}
	return 1
}

func pack(cs []int64) *big.Int {
	a := new(big.Int)
	for _, c := range cs {
		a.Lsh(a, 7)
		a.Add(a, big.NewInt(c))
	}
	return a.Mod(a, p61)
}

func hstep(h, c *big.Int) *big.Int {
	x := new(big.Int).Lsh(h, 7)
	x.Add(x, h)
	x.Add(x, c)
	x.Add(x, big.NewInt(1))
	return x.Mod(x, p61)
}

func exts(k int, f func(string)) {
	var rec func(prefix string, d int)
	rec = func(prefix string, d int) {
		if d == k {
			f(prefix)
			return
		}
		for i := 0; i < len(alpha); i++ {
			rec(prefix+alpha[i:i+1], d+1)
		}
	}
	rec("", 0)
}

func newEnvs() []*env {
	var es []*env
	for _, mp := range limits {
		for _, mk := range limits {
			es = append(es, newEnv(mp, mk))
		}
	}
	return es
}

type blockRes struct {
	prefix         string
	full, erased   *big.Int
	strings        int
	accepted       []string // accepted under the default limits
	acceptedAny    int
	nontrivial     int
	observedPanics int
}

func runBlock(es []*env, prefix string, lo, hi int) blockRes {
	res := blockRes{prefix: prefix, full: new(big.Int), erased: new(big.Int)}
	cf := make([]int64, len(es))
	ce := make([]int64, len(es))
	for l := lo; l <= hi; l++ {
		exts(l, func(x string) {
			p := prefix + x
			any := false
			for i, e := range es {
				o, agree := e.observe(p, false)
				cf[i] = code(o, agree)
				ce[i] = erase(o)
				if o.kind == -1 {
					any = true
					if i == len(es)-1 {
						res.accepted = append(res.accepted, p)
					}
				}
				if o.kind == 0 {
					res.observedPanics++
				}
			}
			if any {
				res.acceptedAny++
			}
			if nontrivial(p) {
				res.nontrivial++
			}
			res.full = hstep(res.full, pack(cf))
			res.erased = hstep(res.erased, pack(ce))
			res.strings++
		})
	}
	return res
}

// a pattern is non-trivial when it gets past the first checks of parseRoute
// (has a '/', no leading '.'/'-') and has a hostname part or a wildcard opener
func nontrivial(p string) bool {
	i := strings.IndexByte(p, '/')
	if i < 0 || strings.HasPrefix(p, ".") || strings.HasPrefix(p, "-") {
		return false
	}
	return i > 0 || strings.ContainsAny(p, "{*")
}

// ---------- routable clause ----------

type routeObs struct {
	vals   []string
	req    string
	found  bool
	params [][2]string
}

// epObs is what one entry point reported for the request
type epObs struct {
	name   string
	found  bool
	params [][2]string
	hasPar bool // the entry point reports parameters (Reverse does not)
}

// serveAlone registers p as the only route, builds the request by substituting vals for the
// wildcards and sends it through EVERY entry point that promises routing: ServeHTTP,
// Router.Lookup, Txn.Lookup (parameters) and Router.Reverse, Txn.Reverse, Iter.Reverse (route
// only). With escaped=true the path is an escaped request target (it contains %XX): the URL is
// parsed as net/http does, so URL.Path is decoded and URL.RawPath keeps the escaped text; fox
// documents that routing uses RawPath when set, so the values reported must be the escaped
// text, which is what reproduces the request. ok=false: the target cannot be expressed
// (net/http would not keep it in URL.RawPath), the case is skipped.
func serveAlone(p string, vals []string, escaped bool) (ro routeObs, eps []epObs, ok bool) {
	ro.vals = vals
	ts := tokenize(p)
	var sb strings.Builder
	vi := 0
	for _, t := range ts {
		if t.kind == 's' {
			sb.WriteString(t.text)
		} else {
			if vi < len(vals) {
				sb.WriteString(vals[vi])
			}
			vi++
		}
	}
	ro.req = sb.String()
	cut := strings.IndexByte(ro.req, '/')
	if cut < 0 {
		return ro, nil, false
	}
	host, path := ro.req[:cut], ro.req[cut:]
	u := &url.URL{Path: path}
	if escaped {
		pu, err := url.ParseRequestURI(path)
		// only targets for which net/http keeps the escaped text (URL.RawPath == target): otherwise
		// fox routes on the decoded URL.Path and the request text it sees is not the one built here
		if err != nil || pu.RawPath != path || pu.RawQuery != "" {
			return ro, nil, false
		}
		u = pu
	}
	r, err := fox.New()
	if err != nil {
		return ro, nil, false
	}
	called := 0
	var got string
	var served [][2]string
	if _, err = r.Handle(http.MethodGet, p, func(c fox.Context) {
		called++
		got = c.Pattern()
		for pr := range c.Params() {
			served = append(served, [2]string{pr.Key, pr.Value})
		}
	}); err != nil {
		return ro, nil, false
	}
	newReq := func() *http.Request {
		cu := *u
		return &http.Request{Method: http.MethodGet, Host: host, URL: &cu, Header: http.Header{}, Proto: "HTTP/1.1", ProtoMajor: 1, ProtoMinor: 1}
	}
	guard := func(name string, hasPar bool, f func(e *epObs)) {
		e := epObs{name: name, hasPar: hasPar}
		func() {
			defer func() {
				if rec := recover(); rec != nil {
					e.found = false
				}
			}()
			f(&e)
		}()
		eps = append(eps, e)
	}
	guard("ServeHTTP", true, func(e *epObs) {
		r.ServeHTTP(httptest.NewRecorder(), newReq())
		e.found = called == 1 && got == p
		e.params = served
	})
	fromLookup := func(e *epObs, rte *fox.Route, cc fox.ContextCloser, tsr bool) {
		e.found = rte != nil && rte.Pattern() == p && !tsr
		if cc != nil {
			for pr := range cc.Params() {
				e.params = append(e.params, [2]string{pr.Key, pr.Value})
			}
			cc.Close()
		}
	}
	guard("Router.Lookup", true, func(e *epObs) {
		rte, cc, tsr := r.Lookup(nil, newReq())
		fromLookup(e, rte, cc, tsr)
	})
	guard("Txn.Lookup", true, func(e *epObs) {
		_ = r.View(func(txn *fox.Txn) error {
			rte, cc, tsr := txn.Lookup(nil, newReq())
			fromLookup(e, rte, cc, tsr)
			return nil
		})
	})
	// the Reverse family takes the path to route as a string: the escaped text
	guard("Router.Reverse", false, func(e *epObs) {
		rte, tsr := r.Reverse(http.MethodGet, host, path)
		e.found = rte != nil && rte.Pattern() == p && !tsr
	})
	guard("Txn.Reverse", false, func(e *epObs) {
		_ = r.View(func(txn *fox.Txn) error {
			rte, tsr := txn.Reverse(http.MethodGet, host, path)
			e.found = rte != nil && rte.Pattern() == p && !tsr
			return nil
		})
	})
	guard("Iter.Reverse", false, func(e *epObs) {
		n := 0
		for m, rte := range r.Iter().Reverse(slices.Values([]string{http.MethodGet}), host, path) {
			if m == http.MethodGet && rte != nil && rte.Pattern() == p {
				n++
			} else {
				n = -100
			}
		}
		e.found = n == 1
	})
	return ro, eps, true
}

var paramVals = []string{"a", "b", "ab", "x1", "v-w"}
var catchVals = []string{"a", "b", "a/b", "ab/c/d", "x1/y"}

// values made of the pattern syntax itself: a wildcard value is data, whatever its bytes
// (no '/' in a parameter value, no '.' either in a hostname one)
var hostileParamVals = []string{"{x", "{", "*y", "*", "{x}", "*{x}", "a{b", "a*", "}", "{{", "{a}{b}"}
var hostileCatchVals = []string{"{x", "*y", "{x}/b", "a/{b}/c", "*{c}", "a/*", "{", "x{y/z*"}

// escaped request-target text for path wildcards: %2F inside a value, needless and lower-case
// escapes; every one of them makes URL.RawPath non-empty
var escapedParamVals = []string{"a%2Fb", "%2F", "%41", "x%2fy", "%7bz%7d", "a%2fb%20c", "%25%41", "%2E%2E"}
var escapedCatchVals = []string{"a%2Fb", "a%2Fb/c", "%41/b", "x/%2f/y", "a%2F/b%20c", "%2F"}

// the rest of the value domain of an ENDING catch-all (the pattern's last token): HEAD serves any
// non-empty byte string there - leading '/', empty segments inside, trailing '/' (README:
// /src/file=*{path} matches /src/file=/dir/config.txt). An INFIX catch-all only takes one or more
// non-empty segments on HEAD (no leading/trailing '/', no "//"), which catchVals already are.
var endingCatchVals = []string{"/e", "/etc/passwd", "/", "//", "a//b", "a/", "/a/", "a//", "//a", "a/b/", "/a//b/"}

// pickVals chooses one value per wildcard; hostile = 0 ordinary, 1 hostile values, 4 ordinary but the
// ending catch-all (if any) takes a value from endingCatchVals, 3 escaped text in the path,
// 2 the wildcard's own text ("{name}" / "*{name}") as its value
func pickVals(rnd *hx.Rand, p string, hostile int) []string {
	var vs []string
	inPath := false
	toks := tokenize(p)
	for ti, t := range toks {
		if t.kind == 'c' && ti == len(toks)-1 && (hostile == 4 || (hostile == 0 && rnd.Pct(30))) {
			vs = append(vs, hx.Pick(rnd, endingCatchVals))
			continue
		}
		switch t.kind {
		case 's':
			if t.text == "/" {
				inPath = true
			}
		case 'p':
			switch {
			case hostile == 3 && inPath:
				vs = append(vs, hx.Pick(rnd, escapedParamVals))
			case hostile == 2:
				vs = append(vs, "{"+strings.NewReplacer("/", "", ".", "").Replace(t.text)+"}")
			case hostile == 1 || (hostile == 0 && rnd.Pct(15)):
				vs = append(vs, hx.Pick(rnd, hostileParamVals))
			default:
				vs = append(vs, hx.Pick(rnd, paramVals))
			}
		case 'c':
			switch {
			case hostile == 3:
				vs = append(vs, hx.Pick(rnd, escapedCatchVals))
			case hostile == 2:
				vs = append(vs, "*{"+t.text+"}")
			case hostile == 1 || (hostile == 0 && rnd.Pct(15)):
				vs = append(vs, hx.Pick(rnd, hostileCatchVals))
			default:
				vs = append(vs, hx.Pick(rnd, catchVals))
			}
		}
	}
	return vs
}

// hasPathWild: some wildcard after the first '/'
func hasPathWild(p string) bool {
	i := strings.IndexByte(p, '/')
	return i >= 0 && strings.ContainsAny(p[i:], "{")
}

func routeTerm(p string, ro routeObs) (string, string) {
	ps := make([]string, len(ro.params))
	for i, kv := range ro.params {
		ps[i] = hx.Pair(hx.Bytes(kv[0]), hx.Bytes(kv[1]))
	}
	term := fmt.Sprintf("CRoute %s %s %s %s %s", hx.Bytes(p), hx.ListOf(ro.vals, hx.Bytes), hx.Bytes(ro.req), hx.Bool(ro.found), hx.List(ps))
	human := fmt.Sprintf("only route %s, values %q, request %s -> served/reversed=%v params=%q", hx.Quote(p), ro.vals, hx.Quote(ro.req), ro.found, ro.params)
	return term, human
}

// ---------- routable clause on a router that has served other requests (round 7) ----------

// histObs is one request of a history and what p's handler saw for it
type histObs struct {
	toggled bool // the instantiation with its trailing slash toggled (served through the ignore option, if at all)
	vals    []string
	req     string
	calls   int
	pattern string
	params  [][2]string
}

func instantiate(p string, vals []string) string {
	var sb strings.Builder
	vi := 0
	for _, t := range tokenize(p) {
		if t.kind == 's' {
			sb.WriteString(t.text)
		} else {
			if vi < len(vals) {
				sb.WriteString(vals[vi])
			}
			vi++
		}
	}
	return sb.String()
}

func toggleSlash(s string) string {
	if strings.HasSuffix(s, "/") {
		return s[:len(s)-1]
	}
	return s + "/"
}

// serveHistory registers p as the only route of a router built with WithIgnoreTrailingSlash(true)
// and serves, back to back through ServeHTTP only (nothing else touches the router or its context
// pool in between): toggled(v1), direct(v2), toggled(v1), direct(v2) - so a direct match follows an
// ignored-trailing-slash match and the other way round, on the same pooled context. Every handler
// invocation must report the values of ITS request; the expected values are v1 / v2, what was
// substituted here. ok=false: no request line can be built (no path, or the toggled path is empty).
func serveHistory(p string, v1, v2 []string) (hs []histObs, ok bool) {
	d, t := instantiate(p, v2), toggleSlash(instantiate(p, v1))
	for _, q := range []string{d, t} {
		cut := strings.IndexByte(q, '/')
		if cut < 0 {
			return nil, false
		}
	}
	r, err := fox.New(fox.WithIgnoreTrailingSlash(true))
	if err != nil {
		return nil, false
	}
	var cur *histObs
	if _, err = r.Handle(http.MethodGet, p, func(c fox.Context) {
		cur.calls++
		cur.pattern = c.Pattern()
		cur.params = nil
		for pr := range c.Params() {
			cur.params = append(cur.params, [2]string{pr.Key, pr.Value})
		}
	}); err != nil {
		return nil, false
	}
	hs = []histObs{{toggled: true, vals: v1, req: t}, {vals: v2, req: d}, {toggled: true, vals: v1, req: t}, {vals: v2, req: d}}
	for i := range hs {
		cur = &hs[i]
		cut := strings.IndexByte(cur.req, '/')
		host, path := cur.req[:cut], cur.req[cut:]
		req := &http.Request{Method: http.MethodGet, Host: host, URL: &url.URL{Path: path}, Header: http.Header{}, Proto: "HTTP/1.1", ProtoMajor: 1, ProtoMinor: 1}
		func() {
			defer func() {
				if rec := recover(); rec != nil {
					cur.calls = -1
				}
			}()
			r.ServeHTTP(httptest.NewRecorder(), req)
		}()
	}
	return hs, true
}

func histTerm(p string, hs []histObs, i int) (string, string) {
	h := hs[i]
	ps := make([]string, len(h.params))
	for j, kv := range h.params {
		ps[j] = hx.Pair(hx.Bytes(kv[0]), hx.Bytes(kv[1]))
	}
	served := h.calls == 1 && h.pattern == p
	ctor := "CRoute"
	if h.toggled {
		ctor = "CRouteTs"
	}
	term := fmt.Sprintf("%s %s %s %s %s %s", ctor, hx.Bytes(p), hx.ListOf(h.vals, hx.Bytes), hx.Bytes(h.req), hx.Bool(served), hx.List(ps))
	var before []string
	for _, b := range hs[:i] {
		before = append(before, "GET "+hx.Quote(b.req))
	}
	prev := "first request"
	if len(before) > 0 {
		prev = "after " + strings.Join(before, ", ")
	}
	kind := "direct instantiation"
	if h.toggled {
		kind = "instantiation with the trailing slash toggled"
	}
	human := fmt.Sprintf("router WithIgnoreTrailingSlash(true), only route %s, back-to-back ServeHTTP history; %s: GET %s (%s with values %q) -> handler calls=%d served=%v params=%q",
		hx.Quote(p), prev, hx.Quote(h.req), kind, h.vals, h.calls, served, h.params)
	return term, human
}

// ---------- parseWildcard ----------

func wildTerm(key string) (string, string) {
	var ps []fox.VerifParam
	pan := false
	func() {
		defer func() {
			if r := recover(); r != nil {
				pan = true
			}
		}()
		ps = fox.VerifParseWildcard(key)
	}()
	items := make([]string, len(ps))
	for i, p := range ps {
		items[i] = "(" + hx.Bytes(p.Key) + ", " + hx.Z(int64(p.End)) + ", " + hx.Bool(p.CatchAll) + ")"
	}
	term := fmt.Sprintf("CWild %s %s", hx.Bytes(key), hx.Opt(!pan, hx.List(items)))
	return term, fmt.Sprintf("parseWildcard(%s) = %v panic=%v", hx.Quote(key), ps, pan)
}

// ---------- random patterns ----------

const ldhChars = "abcxyzABZ019-"
const segChars = "ab1-._~:=}x"

func genName(rnd *hx.Rand, mk int) string {
	n := 1 + rnd.Intn(3)
	if mk < 100 && rnd.Pct(40) {
		n = mk + rnd.Intn(3) - 1 // around the limit
	}
	if rnd.Pct(3) {
		n = 0
	}
	if n < 0 {
		n = 0
	}
	var sb strings.Builder
	for i := 0; i < n; i++ {
		sb.WriteByte("abcn.-1"[rnd.Intn(7)])
	}
	return sb.String()
}

func genLabel(rnd *hx.Rand, mk int, long bool) string {
	n := rnd.Intn(8)
	if long {
		n = 60 + rnd.Intn(6) // crosses 63
	}
	var sb strings.Builder
	for i := 0; i < n; i++ {
		c := ldhChars[rnd.Intn(len(ldhChars))]
		if rnd.Pct(1) {
			c = '_'
		}
		sb.WriteByte(c)
	}
	if rnd.Pct(25) {
		nm := genName(rnd, mk)
		if rnd.Pct(80) {
			nm = strings.ReplaceAll(nm, ".", "d")
		}
		sb.WriteString("{" + nm + "}")
	}
	return sb.String()
}

func genHost(rnd *hx.Rand, mk int) string {
	switch {
	case rnd.Pct(35):
		return ""
	case rnd.Pct(12):
		// static bytes + periods exactly 254..257, with 0..2 parameter-only labels among them
		total := 254 + rnd.Intn(4)
		m := rnd.Intn(3)
		rest := total - m - 193 // five static labels: 63+63+63+a+b and four periods
		a := 1 + rnd.Intn(rest-1)
		ls := []string{strings.Repeat("a", 63), strings.Repeat("b", 63), strings.Repeat("9", 63), strings.Repeat("c", a), strings.Repeat("d", rest-a)}
		for j := 0; j < m; j++ {
			k := rnd.Intn(len(ls) + 1)
			ls = append(ls[:k], append([]string{"{p}"}, ls[k:]...)...)
		}
		return strings.Join(ls, ".")
	case rnd.Pct(15):
		// total static length around 255: labels of 63 bytes
		var ls []string
		for i := 0; i < 3; i++ {
			ls = append(ls, strings.Repeat(string("abz09"[rnd.Intn(5)]), 61+rnd.Intn(3)))
		}
		ls = append(ls, strings.Repeat("c", 58+rnd.Intn(8)))
		if rnd.Pct(40) {
			k := rnd.Intn(len(ls) + 1)
			ls = append(ls[:k], append([]string{"{p}"}, ls[k:]...)...)
		}
		return strings.Join(ls, ".")
	}
	k := 1 + rnd.Intn(4)
	ls := make([]string, k)
	for i := range ls {
		ls[i] = genLabel(rnd, mk, rnd.Pct(12))
	}
	return strings.Join(ls, ".")
}

func genPath(rnd *hx.Rand, mk int) string {
	k := 1 + rnd.Intn(5)
	if rnd.Pct(5) {
		k = 20 + rnd.Intn(20)
	}
	var sb strings.Builder
	for i := 0; i < k; i++ {
		sb.WriteByte('/')
		n := rnd.Intn(4)
		for j := 0; j < n; j++ {
			sb.WriteByte(segChars[rnd.Intn(len(segChars))])
		}
		switch rnd.Intn(6) {
		case 0, 1:
			sb.WriteString("{" + genName(rnd, mk) + "}")
		case 2:
			sb.WriteString("*{" + genName(rnd, mk) + "}")
		}
	}
	return sb.String()
}

func mutate(rnd *hx.Rand, s string) string {
	if len(s) == 0 {
		return s
	}
	i := rnd.Intn(len(s))
	c := string("a1-./{}*_"[rnd.Intn(9)])
	switch rnd.Intn(5) {
	case 0:
		return s[:i] + c + s[i:]
	case 1:
		return s[:i] + s[i+1:]
	case 2:
		return s[:i] + c + s[i+1:]
	case 3: // duplicate a wildcard
		ts := tokenize(s)
		for k := range ts {
			if ts[k].kind != 's' && rnd.Pct(50) {
				ts2 := append(append(append([]tok{}, ts[:k+1]...), ts[k]), ts[k+1:]...)
				return render(ts2)
			}
		}
		return s
	default: // drop a slash between segments
		j := strings.LastIndexByte(s, '/')
		if j > 0 {
			return s[:j] + s[j+1:]
		}
		return s
	}
}

var rndLimits = []uint16{0, 1, 2, 3, 5, 8, 65535}

func main() {
	args := hx.Args()
	out := args["out"]
	tier := args["tier"]
	shards := hx.Atoi(args["shards"], 16)
	seed := hx.Seed()
	if rp := args["replay"]; rp != "" && !strings.HasPrefix(rp, "block:") {
		// a violation file written by bin/check: re-run the stream that produced it
		if b, err := os.ReadFile(rp); err == nil {
			var v struct {
				Seed uint64 `json:"seed"`
				Tier string `json:"tier"`
			}
			if json.Unmarshal(b, &v) == nil {
				if v.Seed != 0 {
					seed = v.Seed
				}
				if v.Tier != "" {
					tier = v.Tier
				}
			}
		}
	}
	rnd := hx.NewRand(seed)
	col := &collector{}
	st := &hx.Stats{Rule: "cases: exhaustive strings over {a 1 - . / { } *} x 16 limit pairs (maxParams, maxParamKeyBytes in {0,1,2,65535}); seeded structured patterns (hostnames with labels crossing 63 bytes / totals crossing 255, names around the key limit, mutated) and arbitrary byte strings under random limit pairs; parseWildcard on keys cut at token boundaries from accepted patterns; accepted patterns registered alone and requested with instantiated wildcards. non-trivial = the pattern has a '/', no leading '.'/'-', and a hostname part or a wildcard opener (it reaches the state machine proper); distinct = distinct (pattern, limits) inputs"}
	es := newEnvs()
	envCache := map[[2]uint16]*env{}
	for _, e := range es {
		envCache[[2]uint16{e.mp, e.mk}] = e
	}
	getEnv := func(mp, mk uint16) *env {
		k := [2]uint16{mp, mk}
		if e, ok := envCache[k]; ok {
			return e
		}
		e := newEnv(mp, mk)
		envCache[k] = e
		return e
	}
	evals, nontriv := 0, 0
	var acceptedPool []string
	sample := func(s string) {
		if len(st.Samples) < 14 {
			st.Samples = append(st.Samples, s)
		}
	}

	addPat16 := func(p, kind string) {
		os16 := make([]obs, len(es))
		agree := true
		same := true
		for i, e := range es {
			o, a := e.observe(p, true)
			os16[i] = o
			agree = agree && a
			if o != os16[0] {
				same = false
			}
		}
		var o16 string
		if same {
			o16 = "(Same " + os16[0].coq() + ")"
		} else {
			items := make([]string, len(os16))
			for i, o := range os16 {
				items[i] = o.coq()
			}
			o16 = "(Each " + hx.List(items) + ")"
		}
		col.add(fmt.Sprintf("CPat %s %s %s", hx.Bytes(p), o16, hx.Bool(agree)),
			fmt.Sprintf("pattern %s under limits {0,1,2,65535}^2 -> %v paths-agree=%v", hx.Quote(p), os16, agree), 1)
		evals += len(es)
		st.Count("kind:" + kind)
		last := os16[len(os16)-1]
		if last.kind == -1 {
			st.Count("outcome:accepted(default limits)")
			acceptedPool = append(acceptedPool, p)
			if len(p) >= 4 && strings.ContainsAny(p, "{") && rnd.Pct(1) {
				sample(fmt.Sprintf("parseRoute(%s) = %v", hx.Quote(p), last))
			}
		} else {
			st.Count("outcome:rejected(default limits)")
		}
		if nontrivial(p) {
			nontriv += len(es)
		}
	}

	seen1 := map[string]bool{}
	addPat1 := func(p string, mp, mk uint16, kind string) obs {
		sk := fmt.Sprintf("%d/%d/%s", mp, mk, p)
		if seen1[sk] {
			return obs{}
		}
		seen1[sk] = true
		e := getEnv(mp, mk)
		o, agree := e.observe(p, true)
		col.add(fmt.Sprintf("CPat1 %s %s %s %s %s", hx.N(uint64(mp)), hx.N(uint64(mk)), hx.Bytes(p), o.coq(), hx.Bool(agree)),
			fmt.Sprintf("pattern %s maxParams=%d maxParamKeyBytes=%d -> %v paths-agree=%v", hx.Quote(p), mp, mk, o, agree), 1)
		evals++
		st.Count("kind:" + kind)
		st.Count(fmt.Sprintf("len:%03d-%03d", len(p)/64*64, len(p)/64*64+63))
		if o.kind == -1 {
			st.Count("outcome:accepted")
			if mp == 65535 && mk == 65535 {
				acceptedPool = append(acceptedPool, p)
			}
		} else if o.kind == 0 {
			st.Count("outcome:panic")
		} else {
			st.Count(fmt.Sprintf("outcome:reject#%02d", o.kind))
		}
		if nontrivial(p) {
			nontriv++
		}
		if len(p) > 20 && rnd.Pct(3) {
			sample(fmt.Sprintf("parseRoute(%s) maxParams=%d maxKey=%d = %v", hx.Quote(p), mp, mk, o))
		}
		return o
	}

	// ---- replay of one block as per-string cases ----
	if rp := args["replay"]; strings.HasPrefix(rp, "block:") {
		f := strings.Split(rp, ":")
		pb, _ := hex.DecodeString(f[1])
		lo, hi := hx.Atoi(f[2], 0), hx.Atoi(f[3], 0)
		for l := lo; l <= hi; l++ {
			exts(l, func(x string) { addPat16(string(pb)+x, "replay-block") })
		}
		st.Evaluations, st.DistinctNontrivial = evals, nontriv
		hx.Fatal(col.write(out, shards))
		hx.Fatal(st.Write(out))
		return
	}

	// ---- exhaustive ----
	// lengths 0..1 one case per string; lengths 2..5 as one block per 2-byte prefix (Coq enumerates
	// the block itself and compares digests: feeding 37k literal cases to coqc costs ~2.4 ms each);
	// thorough adds lengths 6..7 as one block per 4-byte prefix
	for l := 0; l <= 1; l++ {
		exts(l, func(x string) { addPat16(x, "exhaustive<=1") })
	}
	type blockSpec struct {
		prefix string
		lo, hi int
	}
	var specs []blockSpec
	exts(2, func(x string) { specs = append(specs, blockSpec{x, 0, 3}) })
	if tier == "thorough" {
		exts(4, func(x string) { specs = append(specs, blockSpec{x, 2, 3}) })
	}
	results := make([]blockRes, len(specs))
	{
		var wg sync.WaitGroup
		work := make(chan int)
		for w := 0; w < 12; w++ {
			wg.Add(1)
			go func() {
				defer wg.Done()
				mine := newEnvs()
				for i := range work {
					results[i] = runBlock(mine, specs[i].prefix, specs[i].lo, specs[i].hi)
				}
			}()
		}
		for i := range specs {
			work <- i
		}
		close(work)
		wg.Wait()
	}
	nshort, nlong, accLong := 0, 0, 0
	for i, b := range results {
		sp := specs[i]
		col.add(fmt.Sprintf("CBlock %s %d %d %s %s", hx.Bytes(b.prefix), sp.lo, sp.hi, hx.N(b.full.Uint64()), hx.N(b.erased.Uint64())),
			fmt.Sprintf("block: all %d strings %s++x with %d<=|x|<=%d under the 16 limit pairs (digest of observations differs; expand with replay=block:%s:%d:%d)", b.strings, hx.Quote(b.prefix), sp.lo, sp.hi, hex.EncodeToString([]byte(b.prefix)), sp.lo, sp.hi), 250)
		evals += b.strings * len(es)
		nontriv += b.nontrivial * len(es)
		if b.observedPanics > 0 {
			st.Count("outcome:panic")
		}
		if len(sp.prefix) == 2 {
			nshort += b.strings
			st.Count("kind:exhaustive-2..5(block)")
			acceptedPool = append(acceptedPool, b.accepted...)
			for _, p := range b.accepted {
				st.Count("outcome:accepted(default limits)")
				if len(p) >= 4 && strings.ContainsAny(p, "{") && rnd.Pct(1) {
					sample(fmt.Sprintf("parseRoute(%s) accepted (default limits)", hx.Quote(p)))
				}
			}
		} else {
			nlong += b.strings
			accLong += len(b.accepted)
			st.Count("kind:exhaustive-6..7(block)")
			// a sample of the accepted long strings also goes through wild/route below
			for _, p := range b.accepted {
				if rnd.Pct(8) {
					acceptedPool = append(acceptedPool, p)
				}
			}
		}
	}
	scopes := []string{fmt.Sprintf("all %d strings of length <= 5 over {a 1 - . / { } *} x 16 limit pairs (lengths 0..1 one case each, lengths 2..5 as a digest per 2-byte prefix)", 9+nshort)}
	if tier == "thorough" {
		scopes = append(scopes, fmt.Sprintf("all %d strings of length 6..7 over the same alphabet x 16 limit pairs (digest per 4-byte prefix); %d of them accepted under default limits", nlong, accLong))
	}

	// ---- random structured patterns ----
	nrand, narb := 2500, 1500
	if tier == "thorough" {
		nrand, narb = 25000, 15000
	}
	for i := 0; i < nrand; i++ {
		mp, mk := hx.Pick(rnd, rndLimits), hx.Pick(rnd, rndLimits)
		if rnd.Pct(50) {
			mp, mk = 65535, 65535
		}
		p := genHost(rnd, int(mk)) + genPath(rnd, int(mk))
		kind := "random-structured"
		for rnd.Pct(30) {
			p = mutate(rnd, p)
			kind = "random-mutated"
		}
		if len(p) > 300 {
			p = p[:300]
		}
		addPat1(p, mp, mk, kind)
	}
	for i := 0; i < narb; i++ {
		n := rnd.Intn(40)
		b := make([]byte, n)
		for j := range b {
			switch rnd.Intn(4) {
			case 0:
				b[j] = "/{}*.-"[rnd.Intn(6)]
			case 1:
				b[j] = byte('a' + rnd.Intn(26))
			default:
				b[j] = byte(rnd.Intn(256))
			}
		}
		addPat1(string(b), hx.Pick(rnd, rndLimits), hx.Pick(rnd, rndLimits), "arbitrary-bytes")
	}

	// ---- the parameter-count limit at its maximum: patterns with 65535..131072 wildcards ----
	// (too long to send to or run through the Coq model: the harness reports its own wildcard count,
	// Corr.CCount checks accepted -> n = count <= limit, rejected -> count > limit with ErrTooManyParams)
	{
		def, err := fox.New()
		hx.Fatal(err)
		counted := []struct {
			name string
			e    *env
		}{
			{"default", &env{r: def, mp: 65535, mk: 65535}},
			{"WithMaxRouteParams(65535)", getEnv(65535, 65535)},
			{"WithMaxRouteParams(2)", getEnv(2, 65535)},
			{"WithMaxRouteParams(0)", getEnv(0, 65535)},
		}
		units := []struct {
			unit  string
			wilds int
		}{{"/{a}", 1}, {"/x{ab}", 1}, {"/*{c}/s", 1}, {"/{a}/*{b}", 2}}
		reps := []int{65535, 65536, 65537, 65538, 65539, 131072}
		if tier == "thorough" {
			reps = append(reps, 65534, 131073, 196608, 262144)
		}
		for _, ce := range counted {
			for _, u := range units {
				for _, k := range reps {
					k = k / u.wilds
					for _, kk := range []int{k, k + 1} {
						if u.wilds == 1 && kk != k {
							continue
						}
						p := strings.Repeat(u.unit, kk)
						o, agree := ce.e.observeParse(p)
						wilds := kk * u.wilds
						col.add(fmt.Sprintf("CCount %s %s %s %s", hx.N(uint64(wilds)), hx.N(uint64(ce.e.mp)), o.coq(), hx.Bool(agree)),
							fmt.Sprintf("pattern %s repeated %d times (%d wildcards, %d bytes) on router %s (maxParams=%d) -> %v paths-agree=%v", hx.Quote(u.unit), kk, wilds, len(p), ce.name, ce.e.mp, o, agree), 1)
						evals++
						nontriv++
						st.Count("kind:wildcard-count-boundary")
					}
				}
			}
		}
	}

	// ---- parseWildcard on keys cut at token boundaries; routable clause ----
	seenKey := map[string]bool{}
	nroute := 1
	if tier == "thorough" {
		nroute = 3
	}
	for _, p := range acceptedPool {
		ts := tokenize(p)
		ncut := 2
		for c := 0; c < ncut; c++ {
			a := rnd.Intn(len(ts) + 1)
			b := a + rnd.Intn(len(ts)+1-a)
			if c == 0 {
				a, b = 0, len(ts)
			}
			key := render(ts[a:b])
			if seenKey[key] {
				continue
			}
			seenKey[key] = true
			t, h := wildTerm(key)
			col.add(t, h, 1)
			evals++
			st.Count("kind:parseWildcard-key")
			if strings.ContainsAny(key, "{") {
				nontriv++
			}
		}
		seenVals := map[string]bool{}
		endsCatch := strings.HasSuffix(p, "}") && func() bool { ts := tokenize(p); return len(ts) > 0 && ts[len(ts)-1].kind == 'c' }()
		for c := 0; c < nroute+4; c++ {
			// the last three rounds use values made of pattern syntax ('{', '*'), the wildcard's own
			// text, and escaped request-target text (%2F, %41, ...: URL.RawPath is set)
			hostile := 0
			if c >= nroute {
				hostile = c - nroute + 1
			}
			if hostile == 3 && !hasPathWild(p) {
				continue
			}
			if hostile == 4 && !endsCatch {
				continue
			}
			vals := pickVals(rnd, p, hostile)
			if hostile > 0 {
				if len(vals) == 0 {
					continue
				}
				if hostile == 3 {
					st.Count("kind:route-alone-escaped-values")
				} else if hostile == 4 {
					st.Count("kind:route-alone-ending-catchall-domain")
				} else {
					st.Count("kind:route-alone-syntax-values")
				}
			}
			k := strings.Join(vals, "\x00")
			if seenVals[k] {
				continue
			}
			seenVals[k] = true
			ro, eps, ok := serveAlone(p, vals, hostile == 3)
			if !ok {
				st.Count("kind:route-alone-skipped(target not expressible)")
				continue
			}
			// one case for ServeHTTP; every other entry point must report the same: an entry point
			// whose observation differs gets its own case (identical observations have identical verdicts)
			ro.found, ro.params = eps[0].found, eps[0].params
			t, h := routeTerm(p, ro)
			h = "via ServeHTTP: " + h
			for _, e := range eps[1:] {
				st.Count("entry:" + e.name)
				evals++
				same := e.found == eps[0].found
				if e.hasPar && same {
					same = fmt.Sprint(e.params) == fmt.Sprint(eps[0].params)
				}
				if same {
					continue
				}
				ro2 := ro
				ro2.found = e.found
				if e.hasPar {
					ro2.params = e.params
				} else if !e.found {
					ro2.params = eps[0].params
				}
				t2, h2 := routeTerm(p, ro2)
				if e.found && !e.hasPar && !eps[0].found {
					continue // Reverse found the route while ServeHTTP did not: the ServeHTTP case reports it
				}
				col.add(t2, "via "+e.name+" (differs from ServeHTTP): "+h2, 1)
				st.Count("kind:route-alone-entry-point-differs")
			}
			col.add(t, h, 1)
			evals++
			st.Count("kind:route-alone")
			if len(vals) > 0 {
				nontriv++
				if rnd.Pct(1) {
					sample(h)
				}
			}
		}
		// round 7: the routable clause on a router that has just served another request. Same only
		// route, router built with WithIgnoreTrailingSlash(true): toggled(v1), direct(v2), toggled(v1),
		// direct(v2) back to back through ServeHTTP; each handler invocation must report its own values.
		{
			v1 := pickVals(rnd, p, 0)
			v2 := pickVals(rnd, p, 0)
			for try := 0; try < 4 && len(v1) > 0 && strings.Join(v1, "\x00") == strings.Join(v2, "\x00"); try++ {
				v2 = pickVals(rnd, p, 0)
			}
			if hs, ok := serveHistory(p, v1, v2); !ok {
				st.Count("kind:route-history-skipped(no request line)")
			} else {
				seenTerm := map[string]bool{}
				for i := range hs {
					evals++
					t, h := histTerm(p, hs, i)
					if hs[i].toggled {
						st.Count(fmt.Sprintf("kind:route-history-toggled-served=%v", hs[i].calls == 1))
					} else {
						st.Count("kind:route-history-direct")
					}
					if seenTerm[t] {
						continue // same request, same observation as earlier in the history: same verdict
					}
					seenTerm[t] = true
					col.add(t, h, 1)
					if len(v1) > 0 {
						nontriv++
						if rnd.Pct(1) {
							sample(h)
						}
					}
				}
			}
		}
	}

	if len(st.Samples) == 0 {
		st.Samples = append(st.Samples, "parseRoute(\"/a/{b}\") accepted")
	}
	st.Evaluations = evals
	st.DistinctNontrivial = nontriv
	st.Exhaustive = false
	st.Extra = map[string]any{"exhaustive_scopes": scopes, "limit_pairs": "maxParams x maxParamKeyBytes in {0,1,2,65535}", "accepted_patterns_routed": len(acceptedPool)}
	hx.Fatal(col.write(out, shards))
	hx.Fatal(st.Write(out))
	fmt.Printf("c10: %d case terms (%d evaluations) written to %s\n", len(col.items), evals, out)
	_ = strconv.Itoa
}

func (c *collector) lenItems() int { return len(c.items) }
